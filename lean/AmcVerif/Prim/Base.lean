/-! Vocabulary shared by the generated definitions (`Gen/`) and the hand-written model.

`VB` is the integer/pointer part of a vector base object (`_capa`, `_size`, and the stored heap pointer: the
`_storage` field of `StdVectorBase`, the pointer overlaid on the first inline slots of `SmallVectorBase`).
`Eff` are the element / allocator calls a base-class member performs, in program order, with their symbolic
arguments; their semantics over slot buffers is hand-written in `Prim/Interp.lean` (trusted, validated by the
correspondence check). -/
namespace AmcVerif

/-- pointer values: null, the inline storage of operand `who` (0 = `this`, 1 = the other operand), a heap block -/
inductive PtrV where
  | null
  | inl (who : Nat)
  | blk (id : Nat)
deriving DecidableEq, Repr, Inhabited

structure VB where
  capa : Nat
  size : Nat
  dyn : PtrV
deriving DecidableEq, Repr, Inhabited

inductive Exc where
  | overflow      -- std::overflow_error
  | outOfRange    -- std::out_of_range
  | badAlloc      -- std::bad_alloc (allocator failure injected by the fault schedule)
  | elem          -- exception thrown by an element operation (injected)
deriving DecidableEq, Repr, Inhabited

inductive Eff where
  /-- `move_n(src, n, dst, dn)`: move n objects onto a range holding dn objects, destroy the sources -/
  | moveN (src : PtrV) (n : Nat) (dst : PtrV) (dn : Nat)
  /-- `uninitialized_relocate_n(src, n, dst)` -/
  | relocN (src : PtrV) (n : Nat) (dst : PtrV)
  | destroyN (p : PtrV) (n : Nat)
  | swapDeep (p1 : PtrV) (n1 : Nat) (p2 : PtrV) (n2 : Nat)
  /-- `alloc.allocate(n)` returning `res` -/
  | alloc (n : Nat) (res : PtrV)
  | dealloc (p : PtrV) (n : Nat)
  /-- `vec::Reallocate(alloc, p, oldCapa, newCapa, size)` returning `res` -/
  | realloc (p : PtrV) (old new live : Nat) (res : PtrV)
  /-- the pointer overlay of operand `who` was written (`ElemWithPtrStorage::setDyn`) -/
  | setDyn (who : Nat)
deriving DecidableEq, Repr, Inhabited

end AmcVerif

namespace AmcVerif
/-- the base-class members of one vector flavour for one `size_type`, as generated from the source -/
structure BaseOps where
  kMax : Nat
  size : VB → Nat
  capacity : VB → Nat
  begin : VB → PtrV
  /-- inline (small) state? constantly false for amc::vector, true for FixedCapacityVector -/
  isSmall : VB → Bool
  incrSize : VB → VB
  decrSize : VB → VB
  setSize : VB → Nat → VB
  ctor : Nat → VB
  dtor : VB → VB × List Eff
  swapImpl : VB → VB → VB × VB × List Eff
  moveConstruct : VB → VB → Nat → VB × VB × List Eff
  moveAssign : VB → VB → Nat → VB × VB × List Eff
  grow : VB → Nat → Bool → Nat → Except Exc (VB × List Eff)
  shrinkImpl : VB → Nat → Nat → VB × List Eff
  /-- `ExceptionGrowingPolicy::Check(capacity, maxCapacity)` -/
  check : Nat → Nat → Except Exc (List Eff)
  /-- `SafeNextCapacity(oldCapa, newSize, exact)` -/
  safeNext : Nat → Nat → Bool → Except Exc Nat
end AmcVerif
