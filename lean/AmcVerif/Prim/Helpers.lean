import AmcVerif.Prim.Slot
/-! Hand-written models of the element helpers of `vectorcommon.hpp:36-325`, each in its trivially-relocatable
(memmove) and general (move construct / move assign) variant, selected by the element category exactly as the
`enable_if` overloads select them, and the interpreter of the generated base-class effects (`Eff`). -/
namespace AmcVerif
variable {α : Type}

/-- a `const T&` argument: a value living outside the container, or a reference to a slot -/
inductive Ref (α : Type) where
  | lit (v : α)
  | at (a : Addr)
deriving Repr

def deref : Ref α → M α α
  | .lit v => pure v
  | .at a => readLive a

/-- `amc::is_trivially_relocatable<T>` -/
def isTR : M α Bool := do return (← get).cat != .ntr

/-- copy construction from a reference (read at the time of the call) -/
def constructCopyRef (a : Addr) (r : Ref α) : M α Unit := do
  let v ← deref r
  constructCopy a v

def assignCopyRef (a : Addr) (r : Ref α) : M α Unit := do
  match r with
  | .at b => if a == b then
               -- `*a = *a`: self copy-assignment is legal; the value must still be readable
               let _ ← readLive a
               tick .elem
               bumpEv fun e => { e with ca := e.ca + 1 }
             else do let v ← readLive b; assignCopy a v
  | .lit v => assignCopy a v

def uninitFillRef (a : Addr) (n : Nat) (r : Ref α) : M α Unit :=
  go a n 0
where
  go (p : Addr) : Nat → Nat → M α Unit
    | 0, _ => pure ()
    | k+1, done => do
      tryCatch (constructCopyRef p r) fun s => do
        match s with
        | .exc _ => destroyN a done
        | .fault _ => pure ()
        throw s
      go (p.add 1) k (done + 1)

def fillRef (a : Addr) : Nat → Ref α → M α Unit
  | 0, _ => pure ()
  | n+1, r => do assignCopyRef a r; fillRef (a.add 1) n r

/-- `shift_right(first, n)`, n ≠ 0 -/
def shiftRight1 (first : Addr) (n : Nat) : M α Unit := do
  if ← isTR then
    uninitRelocN first n (first.add 1)
  else
    constructMove (first.add n) (first.add (n - 1))
    moveBwd first (n - 1) (first.add 1)

/-- `shift_right(first, n, count)` -/
def shiftRightN (first : Addr) (n count : Nat) : M α Unit := do
  if ← isTR then
    uninitRelocN first n (first.add count)
  else if count < n then
    uninitMoveN (first.add (n - count)) count (first.add n)
    moveBwd first (n - count) (first.add count)
  else
    uninitMoveN first n (first.add count)

/-- `fill_after_shift(first, n, count, v)` -/
def fillAfterShift (first : Addr) (n count : Nat) (v : Ref α) : M α Unit := do
  if ← isTR then
    uninitFillRef first count v
  else if n < count then
    uninitFillRef (first.add n) (count - n) v
    fillRef first n v
  else
    fillRef first count v

/-- `assign_n(first, count, d_first, d_n)` -/
def assignN (vals : List α) (dFirst : Addr) (dN : Nat) : M α Unit := do
  if ← isTC then
    uninitCopyN dFirst vals
  else
    copyN dFirst (vals.take dN)
    if dN < vals.length then uninitCopyN (dFirst.add dN) (vals.drop dN)

/-- `copy_after_shift(first, n, count, pos)` -/
def copyAfterShift (vals : List α) (n : Nat) (pos : Addr) : M α Unit := do
  if ← isTR then
    uninitCopyN pos vals
  else if n < vals.length then
    copyN pos (vals.take n)
    uninitCopyN (pos.add n) (vals.drop n)
  else
    copyN pos vals

def destroyAfterShift (pos : Addr) : M α Unit := do
  if ← isTR then pure () else destroyAt pos

/-- `shift_left(first, n)`: one initialised slot at first-1 -/
def shiftLeft (first : Addr) (n : Nat) : M α Unit := do
  if ← isTR then
    uninitRelocN first n ⟨first.r, first.i - 1⟩
  else
    assignMove ⟨first.r, first.i - 1⟩ first
    moveFwd (first.add 1) (n - 1) first
    destroyAt (first.add (n - 1))

/-- `uninitialized_shift_left(first, n)`: one raw slot at first-1 -/
def uninitShiftLeft (first : Addr) (n : Nat) : M α Unit := do
  if ← isTR then
    uninitRelocN first n ⟨first.r, first.i - 1⟩
  else
    constructMove ⟨first.r, first.i - 1⟩ first
    moveFwd (first.add 1) (n - 1) first
    destroyAt (first.add (n - 1))

/-- `erase_n(first, n, count)` -/
def eraseN (first : Addr) (n count : Nat) : M α Unit := do
  if ← isTR then
    destroyN first n
    uninitRelocN (first.add n) count first
  else
    moveFwd (first.add n) count first
    destroyN (first.add count) n

/-- `erase_at(first, count)` -/
def eraseAt (first : Addr) (count : Nat) : M α Unit := do
  if ← isTR then
    destroyAt first
    uninitRelocN (first.add 1) count first
  else
    moveFwd (first.add 1) count first
    destroyAt (first.add count)

/-- `fill(first, n, count, v)`, n < count -/
def fillHelper (first : Addr) (n count : Nat) (v : Ref α) : M α Unit := do
  if ← isTC then
    uninitFillRef first count v
  else
    fillRef first n v
    uninitFillRef (first.add n) (count - n) v

/-- `swap_deep(first1, count1, first2, count2)` -/
def swapDeep (f1 : Addr) (c1 : Nat) (f2 : Addr) (c2 : Nat) : M α Unit := do
  swapRanges f1 (min c1 c2) f2
  if c1 < c2 then
    uninitRelocN (f2.add c1) (c2 - c1) (f1.add c1)
  else
    uninitRelocN (f1.add c2) (c1 - c2) (f2.add c2)

/-- `move_n(first, n, d_first, d_n)` -/
def moveN (first : Addr) (n : Nat) (dFirst : Addr) (dN : Nat) : M α Unit := do
  if ← isTR then
    destroyN dFirst dN
    uninitRelocN first n dFirst
  else
    moveFwd first (min n dN) dFirst
    if dN < n then
      uninitMoveN (first.add dN) (n - dN) (dFirst.add dN)
    else
      destroyN (dFirst.add n) (dN - n)
    destroyN first n

/-- the argument of an insertion: a `const T&` (copied) or a `T&&` (moved from an outside object) -/
inductive Arg (α : Type) where
  | copy (r : Ref α)
  | move (v : α)
deriving Repr

def constructArg (a : Addr) : Arg α → M α Unit
  | .copy r => constructCopyRef a r
  | .move v => constructFromRvalue a v

/-- `assign_after_shift(pos, v)` -/
def assignAfterShift (pos : Addr) (v : Arg α) : M α Unit := do
  if ← isTR then
    constructArg pos v
  else
    match v with
    | .copy r => assignCopyRef pos r
    | .move x => assignFromRvalue pos x

/-- `relocate_after_shift(e, dest)` -/
def relocateAfterShift (e dest : Addr) : M α Unit := do
  if ← isTR then relocateAt e dest
  else
    assignMove dest e
    destroyAt e

/-- `insert_n(pos, n, v)` -/
def insertN (pos : Addr) (n : Nat) (v : Arg α) : M α Unit := do
  if n = 0 then
    constructArg pos v
  else
    shiftRight1 pos n
    tryCatch (assignAfterShift pos v) fun s => do
      match s with
      | .exc _ => shiftLeft (pos.add 1) n
      | .fault _ => pure ()
      throw s

/- ---------------------------------------------------------------------------------------------------------
   interpreter of generated effects
   --------------------------------------------------------------------------------------------------------- -/

/-- `who` 0/1 of a generated pointer are pool indices `c0`/`c1` -/
def resolve (c0 c1 : Nat) : PtrV → Addr
  | .inl 0 => ⟨.inl c0, 0⟩
  | .inl _ => ⟨.inl c1, 0⟩
  | .blk id => ⟨.blk id, 0⟩
  | .null => ⟨.blk 0, 0⟩        -- block 0 is never allocated: any access through it faults

def reallocBlock (p : PtrV) (old new live : Nat) (res : PtrV) : M α Unit := do
  let id' ← match res with
    | .blk i => pure i
    | _ => fault .precond
  let m ← get
  let canRealloc := m.cat != .ntr && m.hasRealloc
  match p with
  | .null =>
    -- realloc(nullptr, n) / allocate + relocate 0 + deallocate(nullptr, 0)
    if old ≠ 0 || live ≠ 0 then fault .badRealloc
    if canRealloc then
      bumpEv fun e => { e with re := e.re + 1 }
      tick .badAlloc
      modify fun m => { m with blocks := ⟨id', new, rawBuf new⟩ :: m.blocks }
    else
      bumpEv fun e => { e with al := e.al + 1 }
      tick .badAlloc
      modify fun m => { m with blocks := ⟨id', new, rawBuf new⟩ :: m.blocks, ev := { m.ev with de := m.ev.de + 1 } }
  | .blk id =>
    match ← findBlock id with
    | none => fault .badRealloc
    | some b =>
      if b.count ≠ old then fault .badRealloc
      if live > old || live > new then fault .badRealloc
      if canRealloc then
        bumpEv fun e => { e with re := e.re + 1 }
        tick .badAlloc
        let nb : List (Slot α) := (b.buf.take new) ++ rawBuf (new - b.buf.length)
        modify fun m => { m with blocks := ⟨id', new, nb⟩ :: m.blocks.filter (·.id != id) }
      else
        allocBlock new id'
        uninitRelocN ⟨.blk id, 0⟩ live ⟨.blk id', 0⟩
        deallocBlock p old
  | .inl _ => fault .badRealloc

def interp (c0 c1 : Nat) : Eff → M α Unit
  | .moveN s n d dn => moveN (resolve c0 c1 s) n (resolve c0 c1 d) dn
  | .relocN s n d => uninitRelocN (resolve c0 c1 s) n (resolve c0 c1 d)
  | .destroyN p n => destroyN (resolve c0 c1 p) n
  | .swapDeep p1 n1 p2 n2 => swapDeep (resolve c0 c1 p1) n1 (resolve c0 c1 p2) n2
  | .alloc n res => match res with
    | .blk id => allocBlock n id
    | _ => fault .precond
  | .dealloc p n => deallocBlock p n
  | .realloc p old new live res => reallocBlock p old new live res
  | .setDyn who => do
    -- the pointer overlays the first inline slots: they must not hold objects any more
    let b ← getBuf (.inl (if who = 0 then c0 else c1))
    if (← isTC) || b.all (fun s => match s with | .raw => true | _ => false) then pure () else fault .clobber

def interpAll (c0 c1 : Nat) : List Eff → M α Unit
  | [] => pure ()
  | e :: es => do interp c0 c1 e; interpAll c0 c1 es

end AmcVerif
