import AmcVerif.Lemmas.VecOpSpecs
import AmcVerif.Lemmas.VecOpsC
import AmcVerif.Lemmas.HelperPosts
import AmcVerif.Bridge.VecLawsU8
import AmcVerif.Bridge.VecLawsU16
import AmcVerif.Bridge.VecLawsU32
import AmcVerif.Bridge.VecLawsU64
/-! C09 — exception safety: basic guarantee everywhere, strong where documented.

Statements over the slot-level model (`Prim/`, `Model/Vec.lean`), which the correspondence check runs against the real
containers at every throw index. An outcome `.error (.exc e)` is a C++ exception (element copy / value initialisation
`Exc.elem`, allocator `Exc.badAlloc`, capacity limit `Exc.overflow` / `Exc.outOfRange`); an outcome `.error (.fault f)` would be
a lifetime violation (leak-by-overwrite, double destroy, read of a moved-from element …) and is excluded by every
post-condition below. `StrongPost cfg Ok c m w xs xs' r`: the operation returns `r` and the container holds exactly `xs'`, or it
threw and the container holds exactly `xs` (`VRep`: buffer = the live elements followed by raw slots only — nothing leaked,
nothing moved-from, consistent size). The theorems hold for every flavour whose generated members satisfy `VecLaws`
(instances for all three flavours and four size types at the end of this file, re-derived from the source on every run). -/
namespace AmcVerif.Props.C09
open AmcVerif
variable {α : Type}

/- the `uninitialized_*_n` algorithms destroy their partial output on throw -/
theorem C09_uninit_fill_all_or_nothing (m : Mem α) (r : Region) (pre post : List (Slot α)) (ref : Ref α) (v : α) (k : Nat)
    (h : m.buf r = some (pre ++ raws k ++ post)) (hin : RefIn m.buf r pre post k ref v) :
    Post (uninitFillRef ⟨r, pre.length⟩ k ref) m
      (BuiltOrRolledBack m r (pre ++ lives (List.replicate k v) ++ post) (pre ++ raws k ++ post)) :=
  uninitFillRef_post m r pre post ref v k h hin

theorem C09_uninit_copy_all_or_nothing (m : Mem α) (r : Region) (pre post : List (Slot α)) (vs : List α)
    (h : m.buf r = some (pre ++ raws vs.length ++ post)) :
    Post (uninitCopyN ⟨r, pre.length⟩ vs) m (BuiltOrRolledBack m r (pre ++ lives vs ++ post) (pre ++ raws vs.length ++ post)) :=
  uninitCopyN_post m r pre post vs h

theorem C09_uninit_value_all_or_nothing [Inhabited α] (m : Mem α) (r : Region) (pre post : List (Slot α)) (k : Nat)
    (h : m.buf r = some (pre ++ raws k ++ post)) :
    Post (uninitValueN (α := α) ⟨r, pre.length⟩ k) m
      (BuiltOrRolledBack m r (pre ++ lives (List.replicate k default) ++ post) (pre ++ raws k ++ post)) :=
  uninitValueN_post m r pre post k h

/-- a throwing event really throws (the statements above are not vacuous): with one unit of fuel the copy construction fails -/
theorem C09_copy_can_throw (m : Mem α) (a : Addr) (v : α) (b : List (Slot α)) (h : m.buf a.r = some b) (hs : b[a.i]? = some .raw)
    (hf : m.fuel = some 1) : (runM (constructCopy a v) m).1 = .error (.exc .elem) := by
  unfold constructCopy
  rw [runM_bind]
  have := requireRaw_post m a b .raw h hs (Or.inl rfl)
  unfold Post at this
  obtain ⟨h1, h2⟩ := this
  rw [show runM (requireRaw a) m = (.ok (), m) from Prod.ext h1 h2]
  simp only [runM_bind, tick_throw m .elem hf]

/-- `insert_n` (single-element insertion without reallocation): new element in place, or the buffer exactly as before -/
theorem C09_insert_n_rolls_back (m : Mem α) (r : Region) (pre post : List (Slot α)) (xs : List α) (arg : Arg α) (v : α)
    (h : m.buf r = some (pre ++ lives xs ++ .raw :: post))
    (ha : ∀ g : Slot α, ArgIn (View.set m.buf r (pre ++ g :: lives xs ++ post)) r pre (lives xs ++ post) 1 arg v) :
    Post (insertN ⟨r, pre.length⟩ xs.length arg) m
      (fun res m' => ((res = .ok () ∧ m'.buf = View.set m.buf r (pre ++ .live v :: lives xs ++ post)) ∨
                      (res = .error (.exc .elem) ∧ m'.buf = m.buf)) ∧ Keep m m') :=
  insertN_post m r pre post xs arg v h ha

/-- growth: the same elements in a larger buffer, or an exception and words and buffers exactly as before -/
theorem C09_grow {cfg : Cfg} {Ok : VB → Prop} (L : VecLaws α cfg Ok) (hd : cfg.dynamic = true) (m : Mem α) (c : Nat) (xs : List α) (w : VB)
    (needed : Nat) (exact : Bool) (h : VRepW cfg Ok c m xs w) (hf : Fresh m) (hlt : cfg.ops.capacity w < needed)
    (hex : exact = true → needed ≤ cfg.ops.kMax) : Post (grow cfg c needed exact) m (GrowPost cfg Ok c m xs w needed) :=
  L.grow hd m c xs w needed exact h hf hlt hex

section ops
variable {cfg : Cfg} {Ok : VB → Prop} (L : VecLaws α cfg Ok) (m : Mem α) (c : Nat) (xs : List α) (w : VB)
  (h : VRepW cfg Ok c m xs w) (hf : Fresh m)
include L h hf

theorem C09_push_back (ref : Ref α) (v : α) (hv : RefOK cfg c m w xs ref v) :
    Post (pushBackCopy cfg c ref) m (StrongPost cfg Ok c m w xs (xs ++ [v]) ()) := pushBackCopy_post L m c xs w ref v h hf hv
theorem C09_push_back_move (v : α) : Post (pushBackMove cfg c v) m (StrongPost cfg Ok c m w xs (xs ++ [v]) ()) :=
  pushBackMove_post L m c xs w v h hf
theorem C09_append_range (vals : List α) : Post (appendRange cfg c vals) m (StrongPost cfg Ok c m w xs (xs ++ vals) ()) :=
  appendRange_post L m c xs w vals h hf
theorem C09_append_n [Inhabited α] (count : Nat) :
    Post (appendN cfg c count) m (StrongPost cfg Ok c m w xs (xs ++ List.replicate count default) ()) := appendN_post L m c xs w count h hf
theorem C09_append_fill (count : Nat) (ref : Ref α) (v : α) (hv : RefOK cfg c m w xs ref v) :
    Post (appendFill cfg c count ref) m (StrongPost cfg Ok c m w xs (xs ++ List.replicate count v) ()) :=
  appendFill_post L m c xs w count ref v h hf hv
theorem C09_resize [Inhabited α] (count : Nat) : Post (resize cfg c count) m
    (StrongPost cfg Ok c m w xs (if xs.length < count then xs ++ List.replicate (count - xs.length) default else xs.take count) ()) :=
  resize_post L m c xs w count h hf
theorem C09_resize_fill (count : Nat) (ref : Ref α) (v : α) (hv : RefOK cfg c m w xs ref v) : Post (resizeFill cfg c count ref) m
    (StrongPost cfg Ok c m w xs (if xs.length < count then xs ++ List.replicate (count - xs.length) v else xs.take count) ()) :=
  resizeFill_post L m c xs w count ref v h hf hv
theorem C09_reserve (n : Nat) (hn : n ≤ cfg.ops.kMax) : Post (reserve cfg c n) m (StrongPost cfg Ok c m w xs xs ()) :=
  reserve_post L m c xs w n h hf hn
theorem C09_insert (p : Nat) (hp : p ≤ xs.length) (arg : Arg α) (v : α) (hv : ArgOK cfg c m w xs arg v) :
    Post (insertOne cfg c p arg) m (StrongPost cfg Ok c m w xs (xs.take p ++ v :: xs.drop p) p) :=
  insertOne_post L m c xs w h hf p hp arg v hv
theorem C09_emplace (p : Nat) (hp : p ≤ xs.length) (arg : Arg α) (v : α) (hv : ArgOK cfg c m w xs arg v) (ht : m.buf .tmp = some [.raw]) :
    Post (emplace cfg c p arg) m
      (fun res m' => StrongPost cfg Ok c m w xs (xs.take p ++ v :: xs.drop p) p res m' ∧ m'.buf .tmp = some [.raw]) :=
  emplace_post L m c xs w h hf p hp arg v hv ht (regionOf_ne_tmp cfg c w)
theorem C09_emplace_back (arg : Arg α) (v : α) (hv : ArgOK cfg c m w xs arg v) (ht : m.buf .tmp = some [.raw]) :
    Post (emplaceBack cfg c arg) m (fun res m' => StrongPost cfg Ok c m w xs (xs ++ [v]) () res m' ∧ m'.buf .tmp = some [.raw]) :=
  emplaceBack_post L m c xs w h hf arg v hv ht (regionOf_ne_tmp cfg c w)
/-- insertion of several elements at `end()` -/
theorem C09_insert_range_at_end (vals : List α) :
    Post (insertRange cfg c xs.length vals) m (StrongPost cfg Ok c m w xs (xs ++ vals) xs.length) :=
  insertRange_post L m c xs w xs.length (Nat.le_refl _) vals rfl h hf
theorem C09_insert_count_at_end (count : Nat) (ref : Ref α) (v : α) (hv : RefOK cfg c m w xs ref v) :
    Post (insertCount cfg c xs.length count ref) m (StrongPost cfg Ok c m w xs (xs ++ List.replicate count v) xs.length) :=
  insertCount_end_post L m c xs w count ref v hv h hf
/-- erase never throws: it always ends in the success branch of its `StrongPost` (elements are moved with noexcept moves) -/
theorem C09_erase (p : Nat) (hp : p < xs.length) : Post (eraseOne cfg c p) m (StrongPost cfg Ok c m w xs (xs.eraseIdx p) p) :=
  eraseOne_post L m c xs w h hf p hp
/-- `assign`: basic guarantee — on a throw the container holds some valid sequence (no leak, no moved-from element, consistent size) -/
theorem C09_assign_range (vals : List α) (hcat : m.cat ≠ .tc) : Post (assignRange cfg c vals) m (BasicPost cfg Ok c m w vals ()) :=
  assignRange_post L m c xs w vals h hf hcat
theorem C09_assign_fill (count : Nat) (x : α) (hcat : m.cat ≠ .tc) :
    Post (assignFill cfg c count (.lit x)) m (BasicPost cfg Ok c m w (List.replicate count x) ()) :=
  assignFill_post L m c xs w count (.lit x) x rfl ⟨x, rfl⟩ h hf hcat
end ops

/-- basic guarantee over whole histories: whatever throws, the history never commits a lifetime fault (nothing is leaked, destroyed
    twice or read after being moved from), the container stays usable after every exception and ends in a valid state; operations
    with the strong guarantee leave the list unchanged when they throw (`Trace.thrown` with `strong`); no heap block allocated
    along the way is left behind except the one the container owns (`Owned`) -/
theorem C09_history {cfg : Cfg} {Ok : VB → Prop} (L : VecLaws α cfg Ok) (c : Nat) (ops : List (OpSpec α)) (hops : ∀ o ∈ ops, IsVecOp cfg o)
    (m : Mem α) (xs : List α) (hv : VRep cfg Ok c m xs) (hi : HInv m) (hs : Safe cfg ops xs) (hcat : ∀ o ∈ ops, o.nonTC = true → m.cat ≠ .tc)
    (n0 : Nat) (ho : Owned cfg c n0 m) :
    Post (runHist cfg c ops) m (fun res m' => res = .ok () ∧ ∃ ys, Trace cfg ops xs ys ∧ VRep cfg Ok c m' ys ∧ HInv m' ∧ m'.cat = m.cat
      ∧ Owned cfg c n0 m') :=
  vector_history L c ops hops m xs hv hi hs hcat n0 ho

/- the law packages hold for the code as it is now (regenerated and re-proved on every run) -/
theorem C09_laws_small_U8 (cfg : Cfg) (hfl : cfg.flavour = .small) (hops : cfg.ops = Gen.U8.svbOps) (hN : cfg.n < Gen.U8.kMax) (hN0 : 0 < cfg.n) :
    VecLaws α cfg (SOkW cfg.ops cfg.n) := Bridge.U8.small_vecLaws α cfg hfl hops hN hN0
theorem C09_laws_small_U16 (cfg : Cfg) (hfl : cfg.flavour = .small) (hops : cfg.ops = Gen.U16.svbOps) (hN : cfg.n < Gen.U16.kMax) (hN0 : 0 < cfg.n) :
    VecLaws α cfg (SOkW cfg.ops cfg.n) := Bridge.U16.small_vecLaws α cfg hfl hops hN hN0
theorem C09_laws_small_U32 (cfg : Cfg) (hfl : cfg.flavour = .small) (hops : cfg.ops = Gen.U32.svbOps) (hN : cfg.n < Gen.U32.kMax) (hN0 : 0 < cfg.n) :
    VecLaws α cfg (SOkW cfg.ops cfg.n) := Bridge.U32.small_vecLaws α cfg hfl hops hN hN0
theorem C09_laws_small_U64 (cfg : Cfg) (hfl : cfg.flavour = .small) (hops : cfg.ops = Gen.U64.svbOps) (hN : cfg.n < Gen.U64.kMax) (hN0 : 0 < cfg.n) :
    VecLaws α cfg (SOkW cfg.ops cfg.n) := Bridge.U64.small_vecLaws α cfg hfl hops hN hN0
theorem C09_laws_vector_U8 (cfg : Cfg) (hfl : cfg.flavour = .std) (hops : cfg.ops = Gen.U8.dvbOps) : VecLaws α cfg (DOkW cfg.ops.kMax) :=
  Bridge.U8.std_vecLaws α cfg hfl hops
theorem C09_laws_vector_U16 (cfg : Cfg) (hfl : cfg.flavour = .std) (hops : cfg.ops = Gen.U16.dvbOps) : VecLaws α cfg (DOkW cfg.ops.kMax) :=
  Bridge.U16.std_vecLaws α cfg hfl hops
theorem C09_laws_vector_U32 (cfg : Cfg) (hfl : cfg.flavour = .std) (hops : cfg.ops = Gen.U32.dvbOps) : VecLaws α cfg (DOkW cfg.ops.kMax) :=
  Bridge.U32.std_vecLaws α cfg hfl hops
theorem C09_laws_vector_U64 (cfg : Cfg) (hfl : cfg.flavour = .std) (hops : cfg.ops = Gen.U64.dvbOps) : VecLaws α cfg (DOkW cfg.ops.kMax) :=
  Bridge.U64.std_vecLaws α cfg hfl hops
theorem C09_laws_fixed_U8 (cfg : Cfg) (hfl : cfg.flavour = .fixed) (hops : cfg.ops = Gen.U8.fvbOps) (hchk : cfg.checked = true) :
    VecLaws α cfg (Bridge.U8.FOk cfg.n) := Bridge.U8.fixed_vecLaws α cfg hfl hops hchk
theorem C09_laws_fixed_U16 (cfg : Cfg) (hfl : cfg.flavour = .fixed) (hops : cfg.ops = Gen.U16.fvbOps) (hchk : cfg.checked = true) :
    VecLaws α cfg (Bridge.U16.FOk cfg.n) := Bridge.U16.fixed_vecLaws α cfg hfl hops hchk
theorem C09_laws_fixed_U32 (cfg : Cfg) (hfl : cfg.flavour = .fixed) (hops : cfg.ops = Gen.U32.fvbOps) (hchk : cfg.checked = true) :
    VecLaws α cfg (Bridge.U32.FOk cfg.n) := Bridge.U32.fixed_vecLaws α cfg hfl hops hchk
theorem C09_laws_fixed_U64 (cfg : Cfg) (hfl : cfg.flavour = .fixed) (hops : cfg.ops = Gen.U64.fvbOps) (hchk : cfg.checked = true) :
    VecLaws α cfg (Bridge.U64.FOk cfg.n) := Bridge.U64.fixed_vecLaws α cfg hfl hops hchk

end AmcVerif.Props.C09

namespace AmcVerif.Props.C09
open AmcVerif

/-- the hypotheses are satisfiable: a freshly constructed `FixedCapacityVector<T, 2>` is a `VRepW` of the empty list … -/
def exCfg : Cfg := { flavour := .fixed, n := 2, ops := Gen.U8.fvbOps }
def exMem : Mem Nat := { ws := [Gen.U8.fvbOps.ctor 2], inls := [[.raw, .raw]], blocks := [] }

example : VRepW exCfg (Bridge.U8.FOk 2) 0 exMem [] (Gen.U8.fvbOps.ctor 2) where
  store := {
    ws := rfl
    ok := ⟨by decide, rfl, by decide⟩
    len := rfl
    buf := Or.inr rfl
    cnt := fun id h => by simp [regionOf, resolve, exCfg, Gen.U8.fvbOps, Gen.U8.FVB.begin] at h
    inl := fun h => absurd rfl h }
  size := rfl

example : Fresh exMem := fun id h => by simp [Mem.buf, exMem] at h

/-- … and `push_back(7)` on it satisfies the strong post-condition with the list `[7]` -/
example : Post (pushBackCopy exCfg 0 (.lit 7)) exMem (StrongPost exCfg (Bridge.U8.FOk 2) 0 exMem (Gen.U8.fvbOps.ctor 2) [] [7] ()) :=
  C09_push_back (C09_laws_fixed_U8 exCfg rfl rfl rfl) exMem 0 [] _
    ⟨⟨rfl, ⟨by decide, rfl, by decide⟩, rfl, Or.inr rfl,
      fun id h => by simp [regionOf, resolve, exCfg, Gen.U8.fvbOps, Gen.U8.FVB.begin] at h, fun h => absurd rfl h⟩, rfl⟩
    (fun id h => by simp [Mem.buf, exMem] at h) (.lit 7) 7 rfl

end AmcVerif.Props.C09
