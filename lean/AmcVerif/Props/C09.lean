import AmcVerif.Props.Common
/-! C09 placeholder: filled below -/
namespace AmcVerif.Props.C09
theorem C09_placeholder : True := trivial
end AmcVerif.Props.C09
