import AmcVerif.Props.C11
import AmcVerif.Props.C04c
/-! C11 restated for the code as it is now — the iterator contract of the SmallSet members that hand out or take iterators and
node handles, on the functions of `Gen/SmallSetGen.lean` (regenerated from `smallset.hpp` on every run): `erase(position)`,
`erase(first, last)`, `extract(position)`, `insert(node_type&&)`, `insert(hint, node_type&&)`.  An iterator is the pair
(iterator of the inline vector?, index); `endIt s` is `end()` of the set `s`. -/
namespace AmcVerif.Props.C11
open AmcVerif AmcVerif.FS AmcVerif.Sets AmcVerif.Bridge.SmallSet
variable {α : Type} {lt : α → α → Bool}

/-- `C11_erase_elems` / `C11_returned` for the two generated overloads of `erase(position)`: the iteration sequence loses
    exactly that element; the iterator returned is an iterator of the container in use AFTER the call, it is `end()` exactly when
    nothing follows, and otherwise designates the former successor -/
theorem C11_gen_erase_at (N : Nat) (s : SSet α) (h : s.Inv lt N) (i : Nat) (hi : i < s.elems.length) :
    (∃ r, Gen.SmallSet.erase_at_ptr lt N s (s.isSmall, i) = some r ∧ r.1.elems = s.elems.eraseIdx i
        ∧ r.2.1.1 = r.1.isSmall ∧ (r.2.1 = endIt r.1 ↔ i + 1 = s.elems.length)
        ∧ (r.2.1 ≠ endIt r.1 → r.1.elems[r.2.1.2]? = s.elems[i + 1]?))
    ∧ (∃ r, Gen.SmallSet.erase_at_var lt N s (s.isSmall, i) = some r ∧ r.1.elems = s.elems.eraseIdx i
        ∧ r.2.1.1 = r.1.isSmall ∧ (r.2.1 = endIt r.1 ↔ i + 1 = s.elems.length)
        ∧ (r.2.1 ≠ endIt r.1 → r.1.elems[r.2.1.2]? = s.elems[i + 1]?)) := by
  have hel := C11_erase_elems N s h i
  have hlen : ((s.eraseIdx i).elems).length = s.elems.length - 1 := by
    rw [hel]; exact List.length_eraseIdx_of_lt hi
  have key : (eraseAtR s i).2.1.1 = (eraseAtR s i).1.isSmall
      ∧ ((eraseAtR s i).2.1 = endIt (eraseAtR s i).1 ↔ i + 1 = s.elems.length)
      ∧ ((eraseAtR s i).2.1 ≠ endIt (eraseAtR s i).1 → (eraseAtR s i).1.elems[(eraseAtR s i).2.1.2]? = s.elems[i + 1]?) := by
    simp only [eraseAtR, endIt]
    split
    · rename_i hlt
      refine ⟨rfl, ?_, ?_⟩
      · constructor
        · intro he
          have := congrArg Prod.snd he
          simp only at this
          omega
        · intro he; omega
      · intro _
        rw [hel, List.getElem?_eraseIdx_of_ge (Nat.le_refl _)]
    · rename_i hge
      refine ⟨rfl, ?_, ?_⟩
      · constructor
        · intro _; omega
        · intro _; rfl
      · intro hne; exact absurd rfl hne
  exact ⟨⟨_, erase_at_ptr_eq lt N s h.excl (s.isSmall, i) rfl hi, hel, key⟩,
         ⟨_, erase_at_var_eq lt N s h.excl (s.isSmall, i) rfl hi, hel, key⟩⟩

/-- `extract(position)` (both iterator kinds): the element at the position leaves the iteration sequence in the node -/
theorem C11_gen_extract_at (N : Nat) (s : SSet α) (h : s.Inv lt N) (i : Nat) (hi : i < s.elems.length) :
    (∃ r, Gen.SmallSet.extract_at_ptr lt N s (s.isSmall, i) = some r ∧ r.1.elems = s.elems.eraseIdx i
        ∧ r.2.1 = s.elems[i]? ∧ r.2.1.isSome = true ∧ r.1.Inv lt N)
    ∧ (∃ r, Gen.SmallSet.extract_at_var lt N s (s.isSmall, i) = some r ∧ r.1.elems = s.elems.eraseIdx i
        ∧ r.2.1 = s.elems[i]? ∧ r.2.1.isSome = true ∧ r.1.Inv lt N) := by
  have hel := C11_erase_elems N s h i
  have hsome : (s.elems[i]?).isSome = true := by
    obtain ⟨y, hy⟩ := Bridge.FlatSet.getElem?_of_lt s.elems i hi
    rw [hy]; rfl
  exact ⟨⟨_, extract_at_ptr_eq lt N s h.excl (s.isSmall, i) rfl hi, hel, rfl, hsome, eraseIdx_inv N s h i⟩,
         ⟨_, extract_at_var_eq lt N s h.excl (s.isSmall, i) rfl hi, hel, rfl, hsome, eraseIdx_inv N s h i⟩⟩

/-- an iterator of the container in use that is not `end()` designates an element of the iteration sequence -/
def Designates (s : SSet α) (it : Bool × Nat) (y : α) : Prop := it.1 = s.isSmall ∧ s.elems[it.2]? = some y

/-- the position reported by the model's `insert` designates an element equivalent to the value, in the resulting set -/
theorem insert_designates (hswo : SWO lt) (N : Nat) (s : SSet α) (h : s.Inv lt N) (v : α) :
    ∃ y, Designates (insertR lt N s v).1 (insertR lt N s v).2.1.1 y ∧ Equiv lt y v := by
  obtain ⟨r, hr, hstate⟩ := C04.C04_gen_insert_state N s h v
  rw [insert_eq lt N s v h.excl] at hr
  cases hr
  unfold Designates
  simp only [insertR] at hstate ⊢
  unfold SSet.insert at hstate ⊢
  unfold SSet.elems
  cases hs : s.isSmall
  · simp only [hs, Bool.false_eq_true, if_false] at hstate ⊢
    obtain ⟨y, hy, he⟩ := insertVal_designates hswo s.set v
    refine ⟨y, ⟨hstate, ?_⟩, he⟩
    rw [← hstate]
    simpa using hy
  · have hset : s.set = [] := by simpa [SSet.isSmall] using hs
    have hspec := findSmall_spec lt s.vec v 0
    simp only [hs, if_true] at hstate ⊢
    generalize hp : findSmall lt s.vec v 0 = p at hspec hstate ⊢
    obtain ⟨o, c⟩ := p
    cases o with
    | some i =>
      simp only at hspec hstate ⊢
      obtain ⟨_, y, hy, he⟩ := hspec
      exact ⟨y, ⟨hstate, by simpa [hs] using hy⟩, he⟩
    | none =>
      simp only at hspec hstate ⊢
      by_cases hf : s.vec.length = N
      · simp only [hf, if_true] at hstate ⊢
        obtain ⟨y, hy, he⟩ := insertVal_designates hswo (s.grow lt).set v
        refine ⟨y, ⟨hstate, ?_⟩, he⟩
        rw [← hstate]
        simpa using hy
      · simp only [hf, if_false] at hstate ⊢
        refine ⟨v, ⟨hstate, ?_⟩, hswo.irrefl v, hswo.irrefl v⟩
        simp [SSet.isSmall]

/-- `insert(node_type&&)` on the code as it is now: an empty node does nothing and gets `end()`; otherwise the value goes through
    `insert(T&&)`; the position returned ALWAYS designates an element equivalent to the value — the element inserted, or, when the
    node is refused, the element that was already there (not `end()`); a refused node keeps its value, an inserted node is
    emptied -/
theorem C11_gen_insert_node (hswo : SWO lt) (N : Nat) (s : SSet α) (h : s.Inv lt N) (v : α) :
    (∃ r, Gen.SmallSet.insert_node lt N s (some v) = some r ∧ r.1 = (s.insert lt N v).1 ∧ r.1.Inv lt N
        ∧ (∃ y, Designates r.1 r.2.1.1 y ∧ Equiv lt y v)
        ∧ (HasEquiv lt s.elems v → r.2.1.2.1 = false ∧ r.2.1.2.2 = some v)
        ∧ (¬ HasEquiv lt s.elems v → r.2.1.2.1 = true ∧ r.2.1.2.2 = none))
    ∧ Gen.SmallSet.insert_node lt N s none = some (s, (endIt s, false, none), 0) := by
  refine ⟨⟨_, insert_node_eq lt N s h.excl (some v), rfl, insert_inv hswo N s h v, insert_designates hswo N s h v, ?_, ?_⟩,
    insert_node_eq lt N s h.excl none⟩
  · intro he
    have hf : (s.insert lt N v).2.2.1 = false := (C04.C04_insert hswo N s h v).mpr he
    simp [insertNodeR, insertR, hf]
  · intro he
    have ht : (s.insert lt N v).2.2.1 = true := by
      cases hb : (s.insert lt N v).2.2.1 with
      | true => rfl
      | false => exact absurd ((C04.C04_insert hswo N s h v).mp hb) he
    simp [insertNodeR, insertR, ht]

theorem insertVal_length' (l : List α) (v : α) :
    (insertVal lt l v).1.length = if (insertVal lt l v).2.2 then l.length + 1 else l.length := by
  have hle := lowerIdx_le (lt := lt) l v
  cases hb : (insertVal lt l v).2.2 with
  | false => simp [insertVal_noop l v hb]
  | true =>
    have : (insertVal lt l v).1 = l.insertIdx (lowerIdx lt l v) v := by
      unfold insertVal at hb ⊢
      simp only at hb ⊢
      cases hl : l[lowerIdx lt l v]? with
      | none => simp
      | some x =>
        rw [hl] at hb
        simp only at hb ⊢
        cases hvx : lt v x with
        | false => rw [hvx] at hb; simp at hb
        | true => simp
    simp [this, List.length_insertIdx_of_le_length hle]

/-- bulk insertion of elements no two of which are equivalent, none of which has an equivalent in the set: all of them enter -/
theorem insertAll_length_nodup (hswo : SWO lt) (vs : List α) :
    ∀ (acc : List α), Sorted lt acc → NoEquivDup lt vs → (∀ v ∈ vs, ¬ HasEquiv lt acc v) →
      (insertAll lt acc vs).length = acc.length + vs.length := by
  induction vs with
  | nil => intro acc _ _ _; simp [insertAll]
  | cons v rest ih =>
    intro acc hs hnd hno
    have hnd' := List.pairwise_cons.mp hnd
    have hins : (insertVal lt acc v).2.2 = true := by
      cases hb : (insertVal lt acc v).2.2 with
      | true => rfl
      | false => exact absurd ((insertVal_not_inserted_iff hswo acc hs v).mp hb) (hno v (by simp))
    have hl := insertVal_length' (lt := lt) acc v
    rw [hins] at hl
    simp only [if_true] at hl
    simp only [insertAll, List.foldl_cons] at ih ⊢
    rw [ih _ (insertVal_sorted hswo acc hs v) hnd'.2]
    · simp only [List.length_cons]; omega
    · intro w hw ⟨x, hx, he⟩
      rcases (insertVal_mem acc v x).mp hx with hx' | ⟨_, rfl⟩
      · exact hno w (List.mem_cons_of_mem _ hw) ⟨x, hx', he⟩
      · exact hnd'.1 w hw he

/-- the size of the set after `insert`: one more exactly when the value was inserted -/
theorem insert_size (hswo : SWO lt) (N : Nat) (s : SSet α) (h : s.Inv lt N) (v : α) :
    (s.insert lt N v).1.size = if (s.insert lt N v).2.2.1 then s.size + 1 else s.size := by
  have hnonempty : ∀ l : List α, (insertVal lt l v).1 ≠ [] := by
    intro l hl
    have := insertVal_nonempty lt l v
    rw [hl] at this; cases this
  have hlen : ∀ l : List α, (insertVal lt l v).1.length = if (insertVal lt l v).2.2 then l.length + 1 else l.length :=
    fun l => insertVal_length' l v
  unfold SSet.insert SSet.size SSet.elems
  cases hs : s.isSmall
  · have hne : s.set ≠ [] := by
      intro h0; simp [SSet.isSmall, h0] at hs
    simp only [Bool.false_eq_true, if_false, SSet.isSmall]
    have h1 : ((insertVal lt s.set v).1).isEmpty = false := insertVal_nonempty lt s.set v
    have h2 : s.set.isEmpty = false := by simpa [SSet.isSmall] using hs
    simp only [h1, Bool.false_eq_true, if_false]
    exact hlen s.set
  · have hset : s.set = [] := by simpa [SSet.isSmall] using hs
    have hspec := findSmall_spec lt s.vec v 0
    simp only [if_true]
    generalize hp : findSmall lt s.vec v 0 = p at hspec ⊢
    obtain ⟨o, c⟩ := p
    cases o with
    | some i => simp [hs]
    | none =>
      simp only at hspec ⊢
      by_cases hf : s.vec.length = N
      · simp only [hf, if_true, SSet.isSmall]
        have h1 : ((insertVal lt (s.grow lt).set v).1).isEmpty = false := insertVal_nonempty lt _ v
        simp only [h1, Bool.false_eq_true, if_false]
        -- the grown set has exactly the inline elements, and the value is new
        have hg := (grow_inv hswo N s h).1
        have hins : (insertVal lt (s.grow lt).set v).2.2 = true := by
          cases hb : (insertVal lt (s.grow lt).set v).2.2 with
          | true => rfl
          | false =>
            obtain ⟨x, hx, he⟩ := (insertVal_not_inserted_iff hswo _ hg.sorted v).mp hb
            exact absurd ⟨x, (grow_mem hswo N s h hs).1 x hx, he⟩ hspec
        rw [hlen, hins]
        simp only [if_true]
        -- size of the grown set = number of inline elements
        have hsz : (s.grow lt).set.length = s.vec.length := by
          simp only [SSet.grow, hset]
          have := insertAll_length_nodup hswo s.vec [] (by simp [Sorted]) h.nodup (by intro w _ ⟨x, hx, _⟩; cases hx)
          simpa using this
        omega
      · simp [hf, SSet.isSmall]

/-- `insert(hint, node_type&&)` (both iterator kinds), whatever the (valid) hint: state and position of `insert(v)`; the node
    left to the caller keeps its value exactly when an equivalent element was already there, and is emptied otherwise -/
theorem C11_gen_insert_node_at (hswo : SWO lt) (N : Nat) (s : SSet α) (h : s.Inv lt N) (i : Nat) (v : α) :
    (∃ r, Gen.SmallSet.insert_node_at_ptr lt N s (s.isSmall, i) (some v) = some r ∧ r.1 = (s.insert lt N v).1
        ∧ (∃ y, Designates r.1 r.2.1.1 y ∧ Equiv lt y v)
        ∧ (HasEquiv lt s.elems v → r.2.1.2 = some v) ∧ (¬ HasEquiv lt s.elems v → r.2.1.2 = none))
    ∧ (∃ r, Gen.SmallSet.insert_node_at_var lt N s (s.isSmall, i) (some v) = some r ∧ r.1 = (s.insert lt N v).1
        ∧ (∃ y, Designates r.1 r.2.1.1 y ∧ Equiv lt y v)
        ∧ (HasEquiv lt s.elems v → r.2.1.2 = some v) ∧ (¬ HasEquiv lt s.elems v → r.2.1.2 = none)) := by
  have hsz := insert_size hswo N s h v
  have key : (HasEquiv lt s.elems v → (insertNodeAtR lt N s (some v)).2.1.2 = some v)
      ∧ (¬ HasEquiv lt s.elems v → (insertNodeAtR lt N s (some v)).2.1.2 = none) := by
    constructor
    · intro he
      have hf : (s.insert lt N v).2.2.1 = false := (C04.C04_insert hswo N s h v).mpr he
      rw [hf] at hsz
      simp only [Bool.false_eq_true, if_false] at hsz
      simp only [insertNodeAtR, insertR, hsz, if_true]
    · intro he
      have ht : (s.insert lt N v).2.2.1 = true := by
        cases hb : (s.insert lt N v).2.2.1 with
        | true => rfl
        | false => exact absurd ((C04.C04_insert hswo N s h v).mp hb) he
      rw [ht] at hsz
      simp only [if_true] at hsz
      have : ¬ ((s.insert lt N v).1.size = s.size) := by omega
      simp only [insertNodeAtR, insertR, this, if_false]
  exact ⟨⟨_, insert_node_at_ptr_eq lt N s h.excl (s.isSmall, i) rfl (some v), rfl, insert_designates hswo N s h v, key⟩,
         ⟨_, insert_node_at_var_eq lt N s h.excl (s.isSmall, i) rfl (some v), rfl, insert_designates hswo N s h v, key⟩⟩

/-- `C11_returned` for `erase(first, last)`: see `C04_gen_erase_range`; the iteration sequence afterwards has no two equivalent
    elements (`C11_walk` on the result) -/
theorem C11_gen_erase_range_walk (hswo : SWO lt) (N : Nat) (s : SSet α) (h : s.Inv lt N) (a b : Nat) (hab : a ≤ b) (hb : b ≤ s.elems.length) :
    ∃ r, Gen.SmallSet.erase_range_ptr lt N s (s.isSmall, a) (s.isSmall, b) = some r ∧ NoEquivDup lt r.1.elems := by
  obtain ⟨⟨r, hr, hinv, _⟩, _⟩ := C04.C04_gen_erase_range (lt := lt) N s h a b hab hb
  exact ⟨r, hr, C11_walk hswo N r.1 hinv⟩

end AmcVerif.Props.C11
