import AmcVerif.Props.C04g
/-! C04 (a pool of two sets, EACH WITH ITS OWN COMPARATOR OBJECT) — `C04_pool_history` generalised: the two SmallSets are ordered by
two different comparator objects `c0`, `c1` (two states of one stateful comparator type, e.g. `v % 7` and `v % 10`).  Every generated
member is run with the comparator object of the set it is called on; `operator==` / `operator<` get both (`Gen.SmallSet.op_eq c0 N s0 c1 s1`, `op_lt`).
MODELLING DECISION for `swap` (hand-written, stated here because the generated `swap` has a single comparator parameter that it never
uses): `SmallSet::key_comp()` is `_set.key_comp()` (smallset.hpp:221) — the comparator object lives in the backing set — and
`SmallSet::swap` is `_vec.swap(o._vec); _set.swap(o._set)` (smallset.hpp:449-453), so the comparator objects are exchanged together
with the contents, as for `std::set` (for FlatSet this exchange is what `Props/C03e.lean` proves from the generated `swap`).  The pool
state therefore pairs every set with its comparator and `swp` exchanges the pairs.  Result: every history over the pool refines the
same history over two `std::set`s with those comparator objects — all ordering and equivalence decisions use the comparator object
the set currently owns. -/
namespace AmcVerif.Props.C04
open AmcVerif AmcVerif.FS AmcVerif.Sets AmcVerif.Bridge.SmallSet
variable {α : Type}

abbrev Cmp (α : Type) := α → α → Bool

def stepG2c (N : Nat) (eqT ltT : Cmp α) (p : (SSet α × Cmp α) × (SSet α × Cmp α)) :
    POp α → Option (((SSet α × Cmp α) × (SSet α × Cmp α)) × SOut)
  | .on0 op => (stepG p.1.2 N p.1.1 op).map (fun r => (((r.1, p.1.2), p.2), r.2))
  | .on1 op => (stepG p.2.2 N p.2.1 op).map (fun r => ((p.1, (r.1, p.2.2)), r.2))
  | .swp => (Gen.SmallSet.swap p.1.2 N p.1.1 p.2.1).map (fun r => (((r.1, p.2.2), (r.2.1, p.1.2)), SOut.unit))
  | .eq => (Gen.SmallSet.op_eq p.1.2 N p.1.1 p.2.2 p.2.1 eqT).map (fun r => (p, SOut.flag r.1))
  | .less => (Gen.SmallSet.op_lt p.1.2 N p.1.1 p.2.2 p.2.1 ltT).map (fun r => (p, SOut.flag r.1))

def stepA2c (eqT ltT : Cmp α) (a : (List α × Cmp α) × (List α × Cmp α)) : POp α → ((List α × Cmp α) × (List α × Cmp α)) × SOut
  | .on0 op => ((((stepA a.1.2 a.1.1 op).1, a.1.2), a.2), (stepA a.1.2 a.1.1 op).2)
  | .on1 op => ((a.1, ((stepA a.2.2 a.2.1 op).1, a.2.2)), (stepA a.2.2 a.2.1 op).2)
  | .swp => ((a.2, a.1), SOut.unit)
  | .eq => (a, SOut.flag (Gen.SmallSet.vecEq eqT a.1.1 a.2.1))
  | .less => (a, SOut.flag (Gen.SmallSet.vecLess ltT a.1.1 a.2.1))

def runG2c (N : Nat) (eqT ltT : Cmp α) : (SSet α × Cmp α) × (SSet α × Cmp α) → List (POp α) →
    Option (((SSet α × Cmp α) × (SSet α × Cmp α)) × List SOut)
  | p, [] => some (p, [])
  | p, op :: ops =>
    match stepG2c N eqT ltT p op with
    | none => none
    | some (p', o) => (runG2c N eqT ltT p' ops).map (fun r => (r.1, o :: r.2))

def runA2c (eqT ltT : Cmp α) : (List α × Cmp α) × (List α × Cmp α) → List (POp α) →
    ((List α × Cmp α) × (List α × Cmp α)) × List SOut
  | a, [] => (a, [])
  | a, op :: ops =>
    ((runA2c eqT ltT (stepA2c eqT ltT a op).1 ops).1, (stepA2c eqT ltT a op).2 :: (runA2c eqT ltT (stepA2c eqT ltT a op).1 ops).2)

/-- each set satisfies the invariant for, and is represented by the `std::set` ordered by, the comparator object it owns; the
    `std::set`s own the same comparator objects -/
def Rep2c (N : Nat) (p : (SSet α × Cmp α) × (SSet α × Cmp α)) (a : (List α × Cmp α) × (List α × Cmp α)) : Prop :=
  a.1.2 = p.1.2 ∧ a.2.2 = p.2.2 ∧ SWO p.1.2 ∧ SWO p.2.2 ∧ p.1.1.Inv p.1.2 N ∧ p.2.1.Inv p.2.2 N
    ∧ Rep p.1.2 p.1.1 a.1.1 ∧ Rep p.2.2 p.2.1 a.2.1

theorem C04_poolc_step (N : Nat) (eqT ltT : Cmp α) (p : (SSet α × Cmp α) × (SSet α × Cmp α))
    (a : (List α × Cmp α) × (List α × Cmp α)) (h : Rep2c N p a) (op : POp α) :
    ∃ p' o, stepG2c N eqT ltT p op = some (p', o) ∧ o = (stepA2c eqT ltT a op).2 ∧ Rep2c N p' (stepA2c eqT ltT a op).1 := by
  obtain ⟨⟨s0, c0⟩, ⟨s1, c1⟩⟩ := p
  obtain ⟨⟨a0, d0⟩, ⟨a1, d1⟩⟩ := a
  obtain ⟨e0, e1, w0, w1, h0, h1, r0, r1⟩ := h
  simp only at e0 e1 w0 w1 h0 h1 r0 r1
  subst e0 e1
  cases op with
  | on0 op =>
    obtain ⟨s', o, hg, hi, ho, hr⟩ := C04_refines_step w0 N s0 h0 a0 r0 op
    exact ⟨((s', d0), (s1, d1)), o, by simp [stepG2c, hg], by simp [stepA2c, ho], rfl, rfl, w0, w1, hi, h1, hr, r1⟩
  | on1 op =>
    obtain ⟨s', o, hg, hi, ho, hr⟩ := C04_refines_step w1 N s1 h1 a1 r1 op
    exact ⟨((s0, d0), (s', d1)), o, by simp [stepG2c, hg], by simp [stepA2c, ho], rfl, rfl, w0, w1, h0, hi, r0, hr⟩
  | swp =>
    exact ⟨((s1, d1), (s0, d0)), SOut.unit, by simp [stepG2c, swap_eq], rfl, rfl, rfl, w1, w0, h1, h0, r1, r0⟩
  | eq =>
    obtain ⟨q, _⟩ := C04_gen_eq_repr w0 w1 N s0 s1 h0 h1 eqT a0 a1 r0.1 r0.2 r1.1 r1.2
    exact ⟨((s0, d0), (s1, d1)), SOut.flag (Gen.SmallSet.vecEq eqT a0 a1), by simp [stepG2c, q], rfl, rfl, rfl, w0, w1, h0, h1, r0, r1⟩
  | less =>
    have q : Gen.SmallSet.op_lt d0 N s0 d1 s1 ltT = some (Gen.SmallSet.vecLess ltT a0 a1, 0) := by
      rw [op_lt_eq]; simp only [ltS, ← Rep_unique w0 N s0 h0 _ r0, ← Rep_unique w1 N s1 h1 _ r1]
    exact ⟨((s0, d0), (s1, d1)), SOut.flag (Gen.SmallSet.vecLess ltT a0 a1), by simp [stepG2c, q], rfl, rfl, rfl, w0, w1, h0, h1, r0, r1⟩

/-- **every history over a pool of two sets with their own comparator objects** -/
theorem C04_poolc_history (N : Nat) (eqT ltT : Cmp α) (ops : List (POp α)) :
    ∀ p a, Rep2c N p a →
      ∃ p' outs, runG2c N eqT ltT p ops = some (p', outs) ∧ outs = (runA2c eqT ltT a ops).2 ∧ Rep2c N p' (runA2c eqT ltT a ops).1 := by
  induction ops with
  | nil => intro p a h; exact ⟨p, [], rfl, rfl, h⟩
  | cons op ops ih =>
    intro p a h
    obtain ⟨p1, o, hg, ho, h1⟩ := C04_poolc_step N eqT ltT p a h op
    obtain ⟨p2, outs, hg2, ho2, h2⟩ := ih p1 _ h1
    exact ⟨p2, o :: outs, by simp [runG2c, hg, hg2], by simp [runA2c, ho, ho2], h2⟩

/-- from two empty sets constructed with the comparator objects `c0`, `c1` -/
theorem C04_poolc_from_empty (c0 c1 : Cmp α) (w0 : SWO c0) (w1 : SWO c1) (N : Nat) (eqT ltT : Cmp α) (ops : List (POp α)) :
    ∃ p' outs, runG2c N eqT ltT ((⟨[], []⟩, c0), (⟨[], []⟩, c1)) ops = some (p', outs)
      ∧ outs = (runA2c eqT ltT (([], c0), ([], c1)) ops).2 ∧ Rep2c N p' (runA2c eqT ltT (([], c0), ([], c1)) ops).1 :=
  C04_poolc_history N eqT ltT ops _ _
    ⟨rfl, rfl, w0, w1, ⟨fun _ => rfl, by simp, by simp [NoEquivDup], by simp [Sorted]⟩,
     ⟨fun _ => rfl, by simp, by simp [NoEquivDup], by simp [Sorted]⟩, Rep_empty, Rep_empty⟩

/-- two different comparator objects: `<` and `>` on Nat -/
def exGt : Nat → Nat → Bool := fun a b => decide (b < a)
theorem exGt_swo : SWO exGt where
  irrefl := by intro a; simp [exGt]
  trans := by intro a b c h1 h2; simp [exGt] at *; omega
  cotrans := by intro a b c h; simp [exGt] at *; omega

example : ∃ p' outs, runG2c 2 (fun a b => a == b) exLt ((⟨[], []⟩, exLt), (⟨[], []⟩, exGt))
      [.on0 (.insR [3, 1, 2]), .on1 (.insR [1, 2, 3]), .eq, .swp, .on0 (.ins 9), .on1 (.del 2), .eq, .less] = some (p', outs) :=
  let ⟨p', outs, h, _⟩ := C04_poolc_from_empty exLt exGt exLt_swo exGt_swo 2 (fun a b => a == b) exLt _; ⟨p', outs, h⟩

end AmcVerif.Props.C04
