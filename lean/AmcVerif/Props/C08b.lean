import AmcVerif.Lemmas.VecOpsFSpecs
/-! C08 / C01 (container level) — single-pass input ranges (`std::istream_iterator` …: the length is not known in advance).
`append`, `assign` and `insert` of such a range run one `emplace_back` per element; when the capacity limit (FixedCapacityVector N,
size_type maximum), an element copy or the allocator makes one of them throw, the elements appended so far are destroyed again and
the size is restored (library repair 305901a): the error is clean — exception thrown, contents untouched. -/
namespace AmcVerif.Props.C08
open AmcVerif
variable {α : Type} {cfg : Cfg} {Ok : VB → Prop}

/-- `append(first, last)` for input iterators: all of the range is appended, or an exception is thrown and the container holds
    exactly the old elements (never a lifetime fault; the temporary of `emplace_back` is raw again) -/
theorem C08_append_input_clean (L : VecLaws α cfg Ok) (m : Mem α) (c : Nat) (xs : List α) (w : VB) (vals : List α)
    (h : VRepW cfg Ok c m xs w) (hf : Fresh m) (ht : m.buf .tmp = some [.raw]) :
    Post (appendInput cfg c vals) m (StrongPost cfg Ok c m w xs (xs ++ vals) ()) := appendInput_post L m c xs w vals h hf ht

/-- `insert(pos, first, last)` for input iterators: the `std::vector` result, or an exception with the old elements -/
theorem C08_insert_input_clean (L : VecLaws α cfg Ok) (m : Mem α) (c : Nat) (xs : List α) (w : VB) (p : Nat) (vals : List α)
    (h : VRepW cfg Ok c m xs w) (hf : Fresh m) (ht : m.buf .tmp = some [.raw]) (hp : p ≤ xs.length) :
    Post (insertInput cfg c p vals) m (StrongPost cfg Ok c m w xs (xs.take p ++ vals ++ xs.drop p) p) :=
  insertInput_post L m c xs w p vals h hf ht hp

/-- `assign(first, last)` for input iterators: basic guarantee (the old elements are destroyed first) -/
theorem C08_assign_input (L : VecLaws α cfg Ok) (m : Mem α) (c : Nat) (xs : List α) (w : VB) (vals : List α)
    (h : VRepW cfg Ok c m xs w) (hf : Fresh m) (ht : m.buf .tmp = some [.raw]) :
    Post (assignInput cfg c vals) m (BasicPost cfg Ok c m w vals ()) := assignInput_post L m c xs w vals h hf ht

/-- histories mixing the 23 ordinary operations with the three single-pass forms -/
theorem C08_history_with_input_ranges (L : VecLaws α cfg Ok) (c : Nat) (ops : List (OpSpec α))
    (hops : ∀ o ∈ ops, IsVecOp cfg o ∨ (∃ vals, o = opAppendInput vals) ∨ (∃ vals, o = opAssignInput vals)
      ∨ (∃ p vals, o = opInsertInput p vals))
    (m : Mem α) (xs : List α) (hv : VRep cfg Ok c m xs) (hi : HInv m) (hs : Safe cfg ops xs)
    (hcat : ∀ o ∈ ops, o.nonTC = true → m.cat ≠ .tc) :
    Post (runHist cfg c ops) m (fun res m' => res = .ok () ∧ ∃ ys, Trace cfg ops xs ys ∧ VRep cfg Ok c m' ys ∧ HInv m' ∧ m'.cat = m.cat
      ∧ Owned cfg c m.nextId m') := vector_history_input L c ops hops m xs hv hi hs hcat

end AmcVerif.Props.C08
