import AmcVerif.Lemmas.HintC
/-! C12 — a hint is only a hint: hinted insertion equals plain insertion for every hint. -/
namespace AmcVerif.Props.C12
open AmcVerif.FS AmcVerif.Sets
variable {α : Type} {lt : α → α → Bool}

/-- For every strict weak order, every sorted (duplicate-free) content, every hint position in [begin, end] and every
    value, the model of `insert_hint` that is run against the real FlatSet (`insertHintC`, nine exits, with its
    comparator calls) produces the same list and designates the same index as plain `insert(value)`. -/
theorem C12_hint (hswo : SWO lt) (l : List α) (hs : Sorted lt l) (h : Nat) (hh : h ≤ l.length) (v : α) :
    ((insertHintC lt l h v).1, (insertHintC lt l h v).2.1) = ((insertVal lt l v).1, (insertVal lt l v).2.1) := by
  rw [insertHintC_proj hswo l hs h hh v]
  exact insertHint_eq_insertVal hswo l hs h hh v

/-- hence: the result is sorted, a correct hint never inserts a duplicate, a wrong hint never misplaces or drops the
    element, and the returned position designates the element equivalent to the value -/
theorem C12_hint_sound (hswo : SWO lt) (l : List α) (hs : Sorted lt l) (h : Nat) (hh : h ≤ l.length) (v : α) :
    Sorted lt (insertHintC lt l h v).1
    ∧ (∀ x, x ∈ (insertHintC lt l h v).1 ↔ x ∈ l ∨ ((insertVal lt l v).2.2 = true ∧ x = v))
    ∧ (∃ y, (insertHintC lt l h v).1[(insertHintC lt l h v).2.1]? = some y ∧ Equiv lt y v) := by
  have e := C12_hint hswo l hs h hh v
  have e1 : (insertHintC lt l h v).1 = (insertVal lt l v).1 := congrArg Prod.fst e
  have e2 : (insertHintC lt l h v).2.1 = (insertVal lt l v).2.1 := congrArg Prod.snd e
  rw [e1, e2]
  exact ⟨insertVal_sorted hswo l hs v, insertVal_mem l v, insertVal_designates hswo l v⟩

/-- `emplace_hint(hint, args)` constructs the value and takes the same path -/
theorem C12_emplace_hint (hswo : SWO lt) (l : List α) (hs : Sorted lt l) (h : Nat) (hh : h ≤ l.length) (v : α) :
    (insertHintC lt l h v).1 = (insertVal lt l v).1 := congrArg Prod.fst (C12_hint hswo l hs h hh v)

/-- non-vacuity: `<` on Nat is a strict weak order and a concrete sorted list with every hint position -/
theorem natLt_swo : SWO (fun a b : Nat => decide (a < b)) where
  irrefl := by intro a; simp
  trans := by intro a b c h1 h2; simp at *; omega
  cotrans := by intro a b c h; simp at *; omega
example : Sorted (fun a b : Nat => decide (a < b)) [1, 3, 5, 7] := by simp [Sorted]
example : (4 : Nat) ≤ [1, 3, 5, 7].length := by decide

end AmcVerif.Props.C12
