import AmcVerif.Lemmas.HintC
/-! C19 — lookups are logarithmic; a correct hint makes insertion search-free; inline SmallSet lookups are linear in N.
The halving loops are libstdc++'s `std::lower_bound` / `std::upper_bound`, modelled step by step (validated against
the real comparator-call counts by the correspondence check). -/
namespace AmcVerif.Props.C19
open AmcVerif.FS AmcVerif.Sets
variable {α : Type}

/-- on a set of `n < 2^k` elements (`k = ⌈log2(n+1)⌉`): lower_bound / upper_bound use at most `k` comparator calls,
    find / contains / count / equal_range / insert / emplace / erase(key) at most `k + 1` — all below
    `2·⌈log2(n+1)⌉ + 4` -/
theorem C19_lookups (lt : α → α → Bool) (l : List α) (v : α) (k : Nat) (h : l.length < 2 ^ k) :
    (lowerBound lt l v 0 l.length).2 ≤ k ∧ (upperBound lt l v 0 l.length).2 ≤ k
    ∧ (findC lt l v).2 ≤ k + 1 ∧ (insertValC lt l v).2.2.2 ≤ k + 1 ∧ (eraseKey lt l v).2.2 ≤ k + 1 :=
  ⟨lowerBound_count lt l v k 0 _ h, upperBound_count lt l v k 0 _ h, findC_count lt l v k h,
   insertValC_count lt l v k h, eraseKey_count lt l v k h⟩

theorem C19_bound (lt : α → α → Bool) (l : List α) (v : α) (k : Nat) (h : l.length < 2 ^ k) :
    (findC lt l v).2 ≤ 2 * k + 4 ∧ (insertValC lt l v).2.2.2 ≤ 2 * k + 4 ∧ (eraseKey lt l v).2.2 ≤ 2 * k + 4 := by
  have := C19_lookups lt l v k h
  omega

/-- insertion with a correct hint: at most four comparator calls, independent of the size of the set -/
theorem C19_hint (lt : α → α → Bool) (hswo : SWO lt) (l : List α) (h : Nat) (v : α) (hc : CorrectHint lt l h v) :
    (insertHintC lt l h v).2.2 ≤ 4 := insertHintC_correct_count hswo l h v hc

/-- a SmallSet in its inline state (at most N elements in the inline vector): at most 2N comparator calls per lookup -/
theorem C19_small (lt : α → α → Bool) (N : Nat) (vec : List α) (hN : vec.length ≤ N) (k : α) :
    (findSmall lt vec k 0).2 ≤ 2 * N + 2 := by
  have := findSmall_count lt vec k 0
  omega

/-- the loop the bound is about finds the right position (so the bound is not bought with a wrong answer) -/
theorem C19_correct (lt : α → α → Bool) (hswo : SWO lt) (l : List α) (hs : Sorted lt l) (v : α) :
    (lowerBound lt l v 0 l.length).1 = lowerIdx lt l v := lowerBound_eq_lowerIdx hswo l hs v

example : (List.range 100).length < 2 ^ 7 := by decide
example : CorrectHint (fun a b : Nat => decide (a < b)) [1, 3, 5, 7] 2 4 := by
  unfold CorrectHint lowerIdx; decide

end AmcVerif.Props.C19
