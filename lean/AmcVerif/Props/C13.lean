import AmcVerif.Props.Common
/-! C13 — swap2 between any two vector flavours (word level). `swap2` = `adjustEachOtherCapacity` + `swap2_impl`; the
executable model (`Model/Vec.lean: swap2`, hand-written after the C++) is run against the real containers for
ordered pairs of configurations and operand states; here the word bookkeeping of both paths is proved from the word
laws of the two operands (which may differ in N and size_type). -/
namespace AmcVerif.Props.C13
open AmcVerif AmcVerif.Props

variable {opsA opsB : BaseOps} {NA NB : Nat}

/-- buffer-exchange path (both heap-backed, same allocator type, each capacity fits the other size_type): each side
    ends in heap state with the other's size, capacity and buffer — nothing is lost, and the representation
    invariant of *its own* inline capacity and size_type holds -/
theorem C13_exchange (LA : SmallLaws opsA NA) (LB : SmallLaws opsB NB) (wa wb : VB)
    (ha : SRep NA opsA.kMax wa) (hb : SRep NB opsB.kMax wb)
    (hfitA : opsB.capacity wb ≤ opsA.kMax) (hfitB : opsA.capacity wa ≤ opsB.kMax) :
    let wa' : VB := ⟨opsB.capacity wb, opsB.size wb, wb.dyn⟩
    let wb' : VB := ⟨opsA.capacity wa, opsA.size wa, wa.dyn⟩
    SRep NA opsA.kMax wa' ∧ opsA.size wa' = opsB.size wb ∧ opsA.capacity wa' = opsB.capacity wb ∧ opsA.isSmall wa' = false
    ∧ SRep NB opsB.kMax wb' ∧ opsB.size wb' = opsA.size wa ∧ opsB.capacity wb' = opsA.capacity wa ∧ opsB.isSmall wb' = false := by
  have bA := LA.bounds wa ha
  have bB := LB.bounds wb hb
  have gA := LA.grownRep (opsB.size wb) (opsB.capacity wb) wb.dyn bB.1 hfitA
  have gB := LB.grownRep (opsA.size wa) (opsA.capacity wa) wa.dyn bA.1 hfitB
  exact ⟨gA.1, gA.2.1, gA.2.2.1, gA.2.2.2, gB.1, gB.2.1, gB.2.2.1, gB.2.2.2⟩

/-- deep-swap path: once each capacity has been adjusted to the other's size, `setSize` gives each side the other's
    size and keeps capacity, state and buffer (this is what raw size-word exchange broke: V7) -/
theorem C13_deep (LA : SmallLaws opsA NA) (LB : SmallLaws opsB NB) (wa wb : VB)
    (ha : SRep NA opsA.kMax wa) (hb : SRep NB opsB.kMax wb)
    (hroomA : opsB.size wb ≤ opsA.capacity wa) (hroomB : opsA.size wa ≤ opsB.capacity wb) :
    SRep NA opsA.kMax (opsA.setSize wa (opsB.size wb)) ∧ opsA.size (opsA.setSize wa (opsB.size wb)) = opsB.size wb
    ∧ opsA.capacity (opsA.setSize wa (opsB.size wb)) = opsA.capacity wa
    ∧ opsA.isSmall (opsA.setSize wa (opsB.size wb)) = opsA.isSmall wa
    ∧ SRep NB opsB.kMax (opsB.setSize wb (opsA.size wa)) ∧ opsB.size (opsB.setSize wb (opsA.size wa)) = opsA.size wa
    ∧ opsB.capacity (opsB.setSize wb (opsA.size wa)) = opsB.capacity wb
    ∧ opsB.isSmall (opsB.setSize wb (opsA.size wa)) = opsB.isSmall wb := by
  have sA := LA.setSize wa ha (opsB.size wb) hroomA
  have sB := LB.setSize wb hb (opsA.size wa) hroomB
  exact ⟨sA.1, sA.2.1, sA.2.2.1, sA.2.2.2.1, sB.1, sB.2.1, sB.2.2.1, sB.2.2.2.1⟩

/-- the capacity adjustment of a dynamic operand throws exactly when the other's size exceeds its size_type maximum
    (`overflow_error`, before anything is modified), and otherwise makes room for the other's size -/
theorem C13_adjust (LA : SmallLaws opsA NA) (wa : VB) (ha : SRep NA opsA.kMax wa) (otherSize fresh : Nat)
    (h62 : opsA.capacity wa < 2 ^ 62) :
    (opsA.kMax < otherSize → wAdjust opsA wa otherSize fresh = .error .overflow)
    ∧ (otherSize ≤ opsA.kMax → ∃ wa' effs, wAdjust opsA wa otherSize fresh = .ok (wa', effs)
          ∧ SRep NA opsA.kMax wa' ∧ opsA.size wa' = opsA.size wa ∧ otherSize ≤ opsA.capacity wa') := by
  constructor
  · intro h; exact wAdjust_overflow LA wa ha otherSize fresh h
  · intro h
    rcases wAdjust_cases LA wa ha otherSize fresh h62 with ⟨hk, _⟩ | ⟨hfit, he⟩ | ⟨_, _, t', effs, he, hr, hs, hn, _⟩
    · omega
    · exact ⟨wa, [], he, ha, rfl, hfit⟩
    · exact ⟨t', effs, he, hr, hs, hn⟩

/-- same-type `swap` (swap_impl): sizes, capacities and inline/heap states are exchanged -/
theorem C13_swap_same (L : SmallLaws opsA NA) (t o : VB) (ht : SRep NA opsA.kMax t) (ho : SRep NA opsA.kMax o) :
    opsA.size (opsA.swapImpl t o).1 = opsA.size o ∧ opsA.size (opsA.swapImpl t o).2.1 = opsA.size t
    ∧ SRep NA opsA.kMax (opsA.swapImpl t o).1 ∧ SRep NA opsA.kMax (opsA.swapImpl t o).2.1 :=
  let s := L.swapImpl t o ht ho; ⟨s.2.2.1, s.2.2.2.1, s.1, s.2.1⟩

/- instances over the generated code: SmallVector<_,NA,_,uint8_t> with SmallVector<_,NB,_,uint32_t>, and the reverse -/
theorem C13_exchange_U8_U32 (NA NB : Nat) (ha : NA < 255) (ha0 : 0 < NA) (hb : NB < 4294967295) (hb0 : 0 < NB) :
    type_of% (@C13_exchange _ _ NA NB (lawsU8 NA ha ha0) (lawsU32 NB hb hb0)) :=
  @C13_exchange _ _ NA NB (lawsU8 NA ha ha0) (lawsU32 NB hb hb0)
theorem C13_deep_U8_U32 (NA NB : Nat) (ha : NA < 255) (ha0 : 0 < NA) (hb : NB < 4294967295) (hb0 : 0 < NB) :
    type_of% (@C13_deep _ _ NA NB (lawsU8 NA ha ha0) (lawsU32 NB hb hb0)) :=
  @C13_deep _ _ NA NB (lawsU8 NA ha ha0) (lawsU32 NB hb hb0)
theorem C13_deep_U32_U16 (NA NB : Nat) (ha : NA < 4294967295) (ha0 : 0 < NA) (hb : NB < 65535) (hb0 : 0 < NB) :
    type_of% (@C13_deep _ _ NA NB (lawsU32 NA ha ha0) (lawsU16 NB hb hb0)) :=
  @C13_deep _ _ NA NB (lawsU32 NA ha ha0) (lawsU16 NB hb hb0)
theorem C13_adjust_U8 (N : Nat) (h : N < 255) (h0 : 0 < N) :
    type_of% (@C13_adjust _ N (lawsU8 N h h0)) :=
  @C13_adjust _ N (lawsU8 N h h0)

example : SRep 4 255 ⟨4, 255, PtrV.null⟩ ∧ SRep 6 4294967295 ⟨2, 6, PtrV.null⟩ := by decide

end AmcVerif.Props.C13
