import AmcVerif.Bridge.ExchangeLawsMixed
/-! C13 — `swap2` between two vectors of DIFFERENT type, on the slot-level model (container level).

"swap2 exchanges the contents of any two vectors of the library (FixedCapacityVector, SmallVector, amc::vector; any N, any
size_type, same element type), or fails cleanly: if the other's size does not fit (fixed capacity or size_type maximum) an
exception is thrown and BOTH operands are exactly as before; nothing is leaked."

Setting: two distinct pool containers `a ≠ b` of one memory with configurations `ca`, `cb` (flavour, inline capacity, generated
members of their size types, allocator type), both valid (`VRepW`: `a` holds `xs`, `b` holds `ys`) and separated (`Sep2`: no heap
block with two owners, block identifiers in use below `nextId`, block 0 — the null region — does not exist); bundled as `Pair2`.

* `C13_swap2` (generic in the laws) and its instances over the generated members: outcome `Swap2Post` —
    `(.ok () ∧ a holds ys ∧ b holds xs)  ∨  (∃ e, .error (.exc e) ∧ a holds xs ∧ b holds ys)`  — never a lifetime fault —
  and in both cases the pair is still separated and the step is framed by `Frame2G`: the words of every third container, every
  other region that existed and the allocation counts of the other blocks are unchanged, and `NoLeak2`: every heap block that exists
  afterwards is an old block of somebody else, or an old block of the pair that the pair still owns, or a fresh block the pair owns
  (nothing leaked, nothing stolen). "Exactly as before" is about the VALUE (`VRep`): when the second adjustment throws, the first
  operand may already have grown its capacity.
* `C13_swap2_third`: a third container (of any type) is not disturbed.
* `C13_swap2_room`: when each side has room for the other's size the call succeeds (no exception).
* `C13_swap2_throws`: when one side cannot hold the other's size (size type maximum, or fixed capacity) the call throws — and by
  `C13_swap2` both operands then hold what they held. -/
namespace AmcVerif.Props.C13
open AmcVerif AmcVerif.Bridge.Mixed
variable {α : Type}

/-- **C13 on the slot-level model**, generic in the law packages of the two operands -/
theorem C13_swap2 {ca cb : Cfg} {OkA OkB : VB → Prop} (LA : VecLaws α ca OkA) (LB : VecLaws α cb OkB)
    (NA : NullAt0 ca OkA) (NB : NullAt0 cb OkB) (EL : ExchangeLaws ca cb OkA OkB)
    (m : Mem α) (a b : Nat) (xs ys : List α) (wa wb : VB)
    (ha : VRepW ca OkA a m xs wa) (hb : VRepW cb OkB b m ys wb) (hne : a ≠ b)
    (hdisj : ∀ id, OwnsBlk ca a m id → OwnsBlk cb b m id → False)
    (hf : Fresh m) (hpos : 0 < m.nextId) (hblk0 : m.buf (.blk 0) = none) :
    Post (swap2 ca cb a b) m (fun res m' =>
      ((res = .ok () ∧ VRep ca OkA a m' ys ∧ VRep cb OkB b m' xs)
        ∨ (∃ e, res = .error (.exc e) ∧ VRep ca OkA a m' xs ∧ VRep cb OkB b m' ys))
      ∧ Sep2 ca cb a b m' ∧ Frame2G ca cb a b (regionOf ca a wa) (regionOf cb b wb) m m') :=
  swap2_post LA LB NA NB EL ⟨ha, hb, ⟨hne, hdisj, hf, hpos, hblk0⟩⟩

/-- a third container of any type is not disturbed by `swap2` on `a`, `b` -/
theorem C13_swap2_third {ca cb ce : Cfg} {OkA OkB OkE : VB → Prop} {a b e : Nat} {m m' : Mem α} {xs ys zs : List α}
    {wa wb we : VB} {res : Except Stop Unit} (h : Swap2Post ca cb OkA OkB a b m xs ys wa wb res m')
    (he : VRepW ce OkE e m zs we) (hf : Fresh m) (hea : e ≠ a) (heb : e ≠ b)
    (hreg : ce.ops.capacity we = 0 ∨ (regionOf ce e we ≠ regionOf ca a wa ∧ regionOf ce e we ≠ regionOf cb b wb)) :
    VRepW ce OkE e m' zs we :=
  h.third he hf hea heb hreg

/-- with room on both sides `swap2` does not throw -/
theorem C13_swap2_room {ca cb : Cfg} {OkA OkB : VB → Prop} (LA : VecLaws α ca OkA) (LB : VecLaws α cb OkB)
    (EL : ExchangeLaws ca cb OkA OkB) {a b : Nat} {m : Mem α} {xs ys : List α} {wa wb : VB}
    (h : Pair2 ca cb OkA OkB a b m xs ys wa wb) (hra : ys.length ≤ ca.ops.capacity wa) (hrb : xs.length ≤ cb.ops.capacity wb) :
    Post (swap2 ca cb a b) m (fun res m' => res = .ok () ∧ VRep ca OkA a m' ys ∧ VRep cb OkB b m' xs) :=
  Post.mono (swap2_room_post LA LB EL h hra hrb) (fun _ _ ⟨hr, wa', wb', hp, _⟩ => ⟨hr, ⟨wa', hp.ra⟩, ⟨wb', hp.rb⟩⟩)

/-- when the other's size exceeds a side's size type maximum or fixed capacity, `swap2` throws, and both operands hold what they
    held -/
theorem C13_swap2_throws {ca cb : Cfg} {OkA OkB : VB → Prop} (LA : VecLaws α ca OkA) (LB : VecLaws α cb OkB)
    (NA : NullAt0 ca OkA) (NB : NullAt0 cb OkB) (EL : ExchangeLaws ca cb OkA OkB) {a b : Nat} {m : Mem α} {xs ys : List α}
    {wa wb : VB} (h : Pair2 ca cb OkA OkB a b m xs ys wa wb)
    (hno : (ca.ops.kMax < ys.length ∨ (ca.dynamic = false ∧ ca.ops.capacity wa < ys.length))
         ∨ (cb.ops.kMax < xs.length ∨ (cb.dynamic = false ∧ cb.ops.capacity wb < xs.length))) :
    Post (swap2 ca cb a b) m (fun res m' => ∃ e, res = .error (.exc e) ∧ VRep ca OkA a m' xs ∧ VRep cb OkB b m' ys) := by
  refine Post.mono (Post.and (swap2_post LA LB NA NB EL h) (swap2_nofit_throws LA LB NA h hno)) ?_
  rintro res m' ⟨⟨hq, _⟩, e, he⟩
  rcases hq with ⟨hr, _⟩ | hq
  · rw [hr] at he; cases he
  · exact hq

/-! ### instances over the generated members -/

/-- SmallVector<T, NA, U32> with SmallVector<T, NB, U32> -/
theorem C13_swap2_smallU32_smallU32 (ca cb : Cfg) (hfa : ca.flavour = .small) (hfb : cb.flavour = .small)
    (hoa : ca.ops = Gen.U32.svbOps) (hob : cb.ops = Gen.U32.svbOps)
    (hNa : ca.n < Gen.U32.kMax) (hNa0 : 0 < ca.n) (hNb : cb.n < Gen.U32.kMax) (hNb0 : 0 < cb.n)
    (m : Mem α) (a b : Nat) (xs ys : List α) (wa wb : VB)
    (h : Pair2 ca cb (SOkW ca.ops ca.n) (SOkW cb.ops cb.n) a b m xs ys wa wb) :
    Post (swap2 ca cb a b) m (Swap2Post ca cb (SOkW ca.ops ca.n) (SOkW cb.ops cb.n) a b m xs ys wa wb) :=
  swap2_post (Bridge.U32.small_vecLaws α ca hfa hoa hNa hNa0) (Bridge.U32.small_vecLaws α cb hfb hob hNb hNb0)
    (NullAt0.small (smallLaws_U32 ca hoa hNa hNa0)) (NullAt0.small (smallLaws_U32 cb hob hNb hNb0))
    (exch_smallU32_smallU32 ca cb hfa hfb hoa hob hNa hNa0 hNb hNb0) h

/-- SmallVector<T, NA, U8> with SmallVector<T, NB, U32>: different size types (the U8 side throws `overflow_error` for more than
    255 elements) -/
theorem C13_swap2_smallU8_smallU32 (ca cb : Cfg) (hfa : ca.flavour = .small) (hfb : cb.flavour = .small)
    (hoa : ca.ops = Gen.U8.svbOps) (hob : cb.ops = Gen.U32.svbOps)
    (hNa : ca.n < Gen.U8.kMax) (hNa0 : 0 < ca.n) (hNb : cb.n < Gen.U32.kMax) (hNb0 : 0 < cb.n)
    (m : Mem α) (a b : Nat) (xs ys : List α) (wa wb : VB)
    (h : Pair2 ca cb (SOkW ca.ops ca.n) (SOkW cb.ops cb.n) a b m xs ys wa wb) :
    Post (swap2 ca cb a b) m (Swap2Post ca cb (SOkW ca.ops ca.n) (SOkW cb.ops cb.n) a b m xs ys wa wb) :=
  swap2_post (Bridge.U8.small_vecLaws α ca hfa hoa hNa hNa0) (Bridge.U32.small_vecLaws α cb hfb hob hNb hNb0)
    (NullAt0.small (smallLaws_U8 ca hoa hNa hNa0)) (NullAt0.small (smallLaws_U32 cb hob hNb hNb0))
    (exch_smallU8_smallU32 ca cb hfa hfb hoa hob hNa hNa0 hNb hNb0) h

/-- SmallVector<T, N, U8> with amc::vector<T, U32> -/
theorem C13_swap2_smallU8_stdU32 (ca cb : Cfg) (hfa : ca.flavour = .small) (hfb : cb.flavour = .std)
    (hoa : ca.ops = Gen.U8.svbOps) (hob : cb.ops = Gen.U32.dvbOps) (hNa : ca.n < Gen.U8.kMax) (hNa0 : 0 < ca.n)
    (m : Mem α) (a b : Nat) (xs ys : List α) (wa wb : VB)
    (h : Pair2 ca cb (SOkW ca.ops ca.n) (DOkW cb.ops.kMax) a b m xs ys wa wb) :
    Post (swap2 ca cb a b) m (Swap2Post ca cb (SOkW ca.ops ca.n) (DOkW cb.ops.kMax) a b m xs ys wa wb) :=
  swap2_post (Bridge.U8.small_vecLaws α ca hfa hoa hNa hNa0) (Bridge.U32.std_vecLaws α cb hfb hob)
    (NullAt0.small (smallLaws_U8 ca hoa hNa hNa0)) (NullAt0.std (stdLaws_U32 cb hob))
    (exch_smallU8_stdU32 ca cb hfa hfb hoa hob hNa hNa0) h

/-- amc::vector<T, U32> with SmallVector<T, N, U8> -/
theorem C13_swap2_stdU32_smallU8 (ca cb : Cfg) (hfa : ca.flavour = .std) (hfb : cb.flavour = .small)
    (hoa : ca.ops = Gen.U32.dvbOps) (hob : cb.ops = Gen.U8.svbOps) (hNb : cb.n < Gen.U8.kMax) (hNb0 : 0 < cb.n)
    (m : Mem α) (a b : Nat) (xs ys : List α) (wa wb : VB)
    (h : Pair2 ca cb (DOkW ca.ops.kMax) (SOkW cb.ops cb.n) a b m xs ys wa wb) :
    Post (swap2 ca cb a b) m (Swap2Post ca cb (DOkW ca.ops.kMax) (SOkW cb.ops cb.n) a b m xs ys wa wb) :=
  swap2_post (Bridge.U32.std_vecLaws α ca hfa hoa) (Bridge.U8.small_vecLaws α cb hfb hob hNb hNb0)
    (NullAt0.std (stdLaws_U32 ca hoa)) (NullAt0.small (smallLaws_U8 cb hob hNb hNb0))
    (exch_stdU32_smallU8 ca cb hfa hfb hoa hob hNb hNb0) h

/-- amc::vector<T, U32> with amc::vector<T, U32> (possibly different allocator types: then the elements are swapped) -/
theorem C13_swap2_stdU32_stdU32 (ca cb : Cfg) (hfa : ca.flavour = .std) (hfb : cb.flavour = .std)
    (hoa : ca.ops = Gen.U32.dvbOps) (hob : cb.ops = Gen.U32.dvbOps)
    (m : Mem α) (a b : Nat) (xs ys : List α) (wa wb : VB)
    (h : Pair2 ca cb (DOkW ca.ops.kMax) (DOkW cb.ops.kMax) a b m xs ys wa wb) :
    Post (swap2 ca cb a b) m (Swap2Post ca cb (DOkW ca.ops.kMax) (DOkW cb.ops.kMax) a b m xs ys wa wb) :=
  swap2_post (Bridge.U32.std_vecLaws α ca hfa hoa) (Bridge.U32.std_vecLaws α cb hfb hob)
    (NullAt0.std (stdLaws_U32 ca hoa)) (NullAt0.std (stdLaws_U32 cb hob)) (exch_stdU32_stdU32 ca cb hoa hob) h

/-- FixedCapacityVector<T, NA, U32> with SmallVector<T, NB, U32>: the fixed side throws `out_of_range` when the other's size exceeds
    its capacity -/
theorem C13_swap2_fixedU32_smallU32 (ca cb : Cfg) (hfa : ca.flavour = .fixed) (hfb : cb.flavour = .small)
    (hoa : ca.ops = Gen.U32.fvbOps) (hchk : ca.checked = true) (hob : cb.ops = Gen.U32.svbOps)
    (hNb : cb.n < Gen.U32.kMax) (hNb0 : 0 < cb.n)
    (m : Mem α) (a b : Nat) (xs ys : List α) (wa wb : VB)
    (h : Pair2 ca cb (Bridge.U32.FOk ca.n) (SOkW cb.ops cb.n) a b m xs ys wa wb) :
    Post (swap2 ca cb a b) m (Swap2Post ca cb (Bridge.U32.FOk ca.n) (SOkW cb.ops cb.n) a b m xs ys wa wb) :=
  swap2_post (Bridge.U32.fixed_vecLaws α ca hfa hoa hchk) (Bridge.U32.small_vecLaws α cb hfb hob hNb hNb0)
    (nullAt0_fixed_U32 ca hoa _) (NullAt0.small (smallLaws_U32 cb hob hNb hNb0)) (ExchangeLaws.ofFixedA hfa) h

/-- amc::vector<T, U32> with FixedCapacityVector<T, NB, U8> -/
theorem C13_swap2_stdU32_fixedU8 (ca cb : Cfg) (hfa : ca.flavour = .std) (hfb : cb.flavour = .fixed)
    (hoa : ca.ops = Gen.U32.dvbOps) (hob : cb.ops = Gen.U8.fvbOps) (hchk : cb.checked = true)
    (m : Mem α) (a b : Nat) (xs ys : List α) (wa wb : VB)
    (h : Pair2 ca cb (DOkW ca.ops.kMax) (Bridge.U8.FOk cb.n) a b m xs ys wa wb) :
    Post (swap2 ca cb a b) m (Swap2Post ca cb (DOkW ca.ops.kMax) (Bridge.U8.FOk cb.n) a b m xs ys wa wb) :=
  swap2_post (Bridge.U32.std_vecLaws α ca hfa hoa) (Bridge.U8.fixed_vecLaws α cb hfb hob hchk)
    (NullAt0.std (stdLaws_U32 ca hoa)) (nullAt0_fixed_U8 cb hob _) (ExchangeLaws.ofFixedB hfb) h

/-- FixedCapacityVector<T, NA, U32> with FixedCapacityVector<T, NB, U16> -/
theorem C13_swap2_fixedU32_fixedU16 (ca cb : Cfg) (hfa : ca.flavour = .fixed) (hfb : cb.flavour = .fixed)
    (hoa : ca.ops = Gen.U32.fvbOps) (hca : ca.checked = true) (hob : cb.ops = Gen.U16.fvbOps) (hcb : cb.checked = true)
    (m : Mem α) (a b : Nat) (xs ys : List α) (wa wb : VB)
    (h : Pair2 ca cb (Bridge.U32.FOk ca.n) (Bridge.U16.FOk cb.n) a b m xs ys wa wb) :
    Post (swap2 ca cb a b) m (Swap2Post ca cb (Bridge.U32.FOk ca.n) (Bridge.U16.FOk cb.n) a b m xs ys wa wb) :=
  swap2_post (Bridge.U32.fixed_vecLaws α ca hfa hoa hca) (Bridge.U16.fixed_vecLaws α cb hfb hob hcb)
    (nullAt0_fixed_U32 ca hoa _) (nullAt0_fixed_U16 cb hob _) (ExchangeLaws.ofFixedA hfa) h

/-! ### the hypotheses are satisfiable: a concrete pair -/

/-- FixedCapacityVector<Nat, 2> in pool slot 0 holding `[7]` -/
def exA : Cfg := { flavour := .fixed, n := 2, ops := Gen.U32.fvbOps }
/-- FixedCapacityVector<Nat, 4> -/
def exA4 : Cfg := { flavour := .fixed, n := 4, ops := Gen.U32.fvbOps }
/-- amc::vector<Nat> in pool slot 1 holding `[1, 2, 3]` in heap block 1 -/
def exB : Cfg := { flavour := .std, n := 0, ops := Gen.U32.dvbOps }
def exM (N : Nat) : Mem Nat :=
  { ws := [⟨N, 1, .null⟩, ⟨3, 3, .blk 1⟩], inls := [.live 7 :: raws (N - 1), []],
    blocks := [⟨1, 3, [.live 1, .live 2, .live 3]⟩], nextId := 2 }

theorem exPair (cfg : Cfg) (N : Nat) (hfl : cfg.flavour = .fixed) (hops : cfg.ops = Gen.U32.fvbOps) (hN : 1 ≤ N)
    (hk : N ≤ Gen.U32.kMax) :
    Pair2 cfg exB (Bridge.U32.FOk N) (DOkW exB.ops.kMax) 0 1 (exM N) [7] [1, 2, 3] ⟨N, 1, .null⟩ ⟨3, 3, .blk 1⟩ := by
  have hcap : cfg.ops.capacity ⟨N, 1, .null⟩ = N := by rw [hops]; rfl
  have hreg : regionOf cfg 0 ⟨N, 1, .null⟩ = .inl 0 := by unfold regionOf; rw [hops]; rfl
  refine ⟨⟨⟨rfl, ⟨hN, rfl, hk⟩, ?_, Or.inr ?_, ?_, ?_⟩, by rw [hops]; rfl⟩,
    ⟨⟨rfl, ?_, rfl, Or.inr rfl, ?_, ?_⟩, rfl⟩, ⟨by decide, ?_, ?_, (by show 0 < 2; omega), rfl⟩⟩
  · rw [hcap]; simp [lives]; omega
  · rw [hcap, hreg]; rfl
  · intro id h; rw [hreg] at h; cases h
  · intro _ h; rw [hfl] at h; cases h
  · exact ⟨by decide, by decide, Or.inl ⟨1, rfl, trivial, by decide⟩⟩
  · intro id h _
    have : id = 1 := by injection h with h; exact h.symm
    subst this; rfl
  · intro _ h; cases h
  · intro id h1 h2
    obtain ⟨w, hw, hr, _⟩ := h1
    have : w = ⟨N, 1, .null⟩ := by injection hw with hw; exact hw.symm
    subst this
    rw [hreg] at hr; cases hr
  · intro id h
    by_cases e : id = 1
    · subst e; show 1 < 2; omega
    · exfalso
      have : (exM N).buf (.blk id) = none := by
        simp [Mem.buf, exM]
        intro h'; exact e h'.symm
      rw [this] at h; cases h

/-- three elements do not fit a FixedCapacityVector of capacity 2: `swap2` throws and both vectors hold what they held -/
example : Post (swap2 exA exB 0 1) (exM 2) (fun res m' => ∃ e, res = .error (.exc e)
    ∧ VRep exA (Bridge.U32.FOk 2) 0 m' [7] ∧ VRep exB (DOkW exB.ops.kMax) 1 m' [1, 2, 3]) :=
  C13_swap2_throws (Bridge.U32.fixed_vecLaws Nat exA rfl rfl rfl) (Bridge.U32.std_vecLaws Nat exB rfl rfl)
    (nullAt0_fixed_U32 exA rfl _) (NullAt0.std (stdLaws_U32 exB rfl)) (ExchangeLaws.ofFixedA rfl)
    (exPair exA 2 rfl rfl (by decide) (by decide)) (Or.inl (Or.inr ⟨rfl, by decide⟩))

/-- they fit a FixedCapacityVector of capacity 4: the contents are exchanged -/
example : Post (swap2 exA4 exB 0 1) (exM 4) (fun res m' => res = .ok ()
    ∧ VRep exA4 (Bridge.U32.FOk 4) 0 m' [1, 2, 3] ∧ VRep exB (DOkW exB.ops.kMax) 1 m' [7]) :=
  C13_swap2_room (Bridge.U32.fixed_vecLaws Nat exA4 rfl rfl rfl) (Bridge.U32.std_vecLaws Nat exB rfl rfl)
    (ExchangeLaws.ofFixedA rfl) (exPair exA4 4 rfl rfl (by decide) (by decide)) (by decide) (by decide)

end AmcVerif.Props.C13
