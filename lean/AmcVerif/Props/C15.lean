import AmcVerif.Lemmas.MemAlgo
/-! C15 — amc:: memory algorithms equal the standard ones, with clean-up on throw.

Model: `Model/MemAlgo.lean` (`Arm.*` = the implementation arms of memory.hpp, `Spec.*` = the standard's net effect,
`Amc.*` = the `#if` ladders and `ImplModeFactory` dispatch). The correspondence check (`tools/props/C15.py`) runs the
real algorithms under -std=c++11/14/17/20 and diffs every case against `Amc.*`.

Input shape of every theorem (the precondition of the algorithm): the source range holds live objects `vs` followed by
arbitrary other memory `st`; the destination range is `vs.length` raw slots followed by arbitrary other memory `dt`.
The statements are for every length, every content, every tail, every language standard, every iterator kind and
every element trait.

* (a) `…_nothrow`: without a throw inside the range, what `amc::X` runs equals the standard's specification — same
  source buffer, same destination buffer, same returned advance(s); `…_arms` says so for each implementation arm.
* (b) `…_throw`: when construction `j < n` throws, the exception escapes, the destination is exactly what it was
  (every object created has been destroyed), sources stay alive (moved-from up to `j` for move / relocate), and the
  tails `st`, `dt` are untouched.
* (c) `C15_implMode_*`: `ImplModeFactory` selects a memcpy arm only when the trait allows it; `…_denied` show that the
  memcpy arms on a type whose trait is false are undefined behaviour in the model (so the guard is not vacuous).

Assumption used by (b): a trivially copyable type has no throwing copy/move constructor and relocating a trivially
relocatable type does not throw (`ty.trivCopy = false` / `ty.trivReloc = false` hypotheses of the `_throw` theorems). -/
namespace AmcVerif.Props.C15
open AmcVerif AmcVerif.MemAlgo
variable {α : Type}

/- ---------------------------------------------------------------------------------------------------------
   (c) ImplModeFactory
   --------------------------------------------------------------------------------------------------------- -/

/-- a memcpy arm is selected only if memmove is possible (and the types agree and the source is not an rvalue range) -/
theorem C15_implMode_memcpy_only_if_trait :
    ∀ a b m s r : Bool, implMode a b m s r ≠ .dflt → m = true ∧ s = true ∧ r = false := by decide

example : implMode true true true true false ≠ .dflt ∧ implMode true true false true false = .dflt := by decide

/-- the complete selection table -/
theorem C15_implMode_table :
    ∀ a b m s r : Bool,
      (implMode a b m s r = .memMove ↔ (m && s && !r && a && b) = true)
      ∧ (implMode a b m s r = .memMoveInALoop ↔ (m && s && !r && !(a && b)) = true)
      ∧ (implMode a b m s r = .dflt ↔ (m && s && !r) = false) := by decide

example : implMode true true true true false = .memMove ∧ implMode true false true true false = .memMoveInALoop
    ∧ implMode true true false true false = .dflt ∧ implMode true true true true true = .dflt := by decide

/- ---------------------------------------------------------------------------------------------------------
   destroy_at, destroy, destroy_n
   --------------------------------------------------------------------------------------------------------- -/

/-- `destroy_n`: every object of the range is destroyed, nothing else changes, returns `first + n` -/
theorem C15_destroyN (std : Std) (l rest : List (Slot α)) (h : ∀ s ∈ l, s ≠ Slot.raw) :
    Amc.destroyN std l.length (l ++ rest) = Spec.destroyN l.length (l ++ rest)
    ∧ Spec.destroyN l.length (l ++ rest) = ⟨List.replicate l.length .raw ++ rest, .done 0 l.length⟩ := by
  have S : Spec.destroyN l.length (l ++ rest) = ⟨List.replicate l.length .raw ++ rest, .done 0 l.length⟩ := by
    simp [Spec.destroyN, allAlive_shape l rest h]
  refine ⟨?_, S⟩
  rw [S]
  cases std <;> simp [Amc.destroyN, Std.has17, S, Arm.destroyN, unguarded1, destroyLoop_alive l rest h]

example : Amc.destroyN .cxx11 2 [.live 1, .hollow, .live 3] = ⟨[.raw, .raw, .live 3], .done 0 2⟩ := by decide

theorem C15_destroy (std : Std) (l rest : List (Slot α)) (h : ∀ s ∈ l, s ≠ Slot.raw) :
    Amc.destroy std l.length (l ++ rest) = Spec.destroy l.length (l ++ rest)
    ∧ Spec.destroy l.length (l ++ rest) = ⟨List.replicate l.length .raw ++ rest, .done 0 0⟩ := by
  have S : Spec.destroy l.length (l ++ rest) = ⟨List.replicate l.length .raw ++ rest, .done 0 0⟩ := by
    simp [Spec.destroy, allAlive_shape l rest h]
  refine ⟨?_, S⟩
  rw [S]
  cases std <;> simp [Amc.destroy, Std.has17, S, Arm.destroy, unguarded1, destroyLoop_alive l rest h]

example : Amc.destroy .cxx14 2 [.live 1, .live 2, .live 3] = ⟨[.raw, .raw, .live 3], .done 0 0⟩ := by decide

theorem C15_destroyAt (std : Std) (s : Slot α) (rest : List (Slot α)) (h : s ≠ Slot.raw) :
    Amc.destroyAt std (s :: rest) = Spec.destroyAt (s :: rest)
    ∧ Spec.destroyAt (s :: rest) = ⟨.raw :: rest, .done 0 0⟩ := by
  have S : Spec.destroyAt (s :: rest) = ⟨.raw :: rest, .done 0 0⟩ := by
    cases s <;> simp_all [Spec.destroyAt, allAlive, Slot.isRaw]
  refine ⟨?_, S⟩
  rw [S]
  cases std <;> cases s <;>
    simp_all [Amc.destroyAt, Std.has17, Arm.destroyAt, unguarded1, destroyLoop, loop1, destroyStep]

example : Amc.destroyAt .cxx11 [.live 7, .live 8] = ⟨[.raw, .live 8], .done 0 0⟩ := by decide

/-- destroying raw storage is undefined behaviour in the model (the precondition is not vacuous) -/
example : (Amc.destroyN .cxx11 2 [.live 1, (.raw : Slot Nat)]).out = .fault .destroyDead := by decide

/- ---------------------------------------------------------------------------------------------------------
   construct_at
   --------------------------------------------------------------------------------------------------------- -/

theorem C15_constructAtCopy_nothrow (std : Std) (k : Option Nat) (v : α) (st dt : List (Slot α)) (hk : throwAt k 1 = none) :
    Amc.constructAtCopy std k (.live v :: st) (.raw :: dt) = Spec.constructAtCopy k (.live v :: st) (.raw :: dt)
    ∧ Spec.constructAtCopy k (.live v :: st) (.raw :: dt) = ⟨.live v :: st, .live v :: dt, .done 0 0⟩ := by
  have S : Spec.constructAtCopy k (.live v :: st) (.raw :: dt) = ⟨.live v :: st, .live v :: dt, .done 0 0⟩ := by
    simp [Spec.constructAtCopy, allLive, allRaw, Slot.isLive, Slot.isRaw, hk]
  refine ⟨?_, S⟩
  rw [S]
  have h0 : k ≠ some 0 := throwAt_none_ne hk 0 (by omega)
  cases std <;> simp [Amc.constructAtCopy, Std.has20, S, Arm.constructAtCopy, unguarded2, loop2, copyStep, h0]

example : throwAt (some 3) 1 = none ∧ Amc.constructAtCopy .cxx11 (some 3) [.live 5, .live 6] [.raw] = ⟨[.live 5, .live 6], [.live 5], .done 0 0⟩ := by
  decide

/-- a throwing copy constructor leaves source and destination as they were -/
theorem C15_constructAtCopy_throw (std : Std) (v : α) (st dt : List (Slot α)) :
    Amc.constructAtCopy std (some 0) (.live v :: st) (.raw :: dt) = ⟨.live v :: st, .raw :: dt, .thrown⟩ := by
  cases std <;>
    simp [Amc.constructAtCopy, Std.has20, Spec.constructAtCopy, allLive, allRaw, Slot.isLive, Slot.isRaw, throwAt,
      Arm.constructAtCopy, unguarded2, loop2, copyStep]

example : Amc.constructAtCopy .cxx17 none [.live 5] [.raw, .live 9] = ⟨[.live 5], [.live 5, .live 9], .done 0 0⟩ := by
  decide
example : Amc.constructAtCopy .cxx20 (some 0) [.live 5] [.raw] = ⟨[.live 5], [.raw], .thrown⟩ := by decide

theorem C15_constructAtMove_nothrow (std : Std) (ty : Ty) (k : Option Nat) (v : α) (st dt : List (Slot α))
    (hk : throwAt k 1 = none) :
    Amc.constructAtMove std ty k (.live v :: st) (.raw :: dt) = Spec.constructAtMove ty k (.live v :: st) (.raw :: dt)
    ∧ Spec.constructAtMove ty k (.live v :: st) (.raw :: dt) = ⟨ty.movedFrom v :: st, .live v :: dt, .done 0 0⟩ := by
  have S : Spec.constructAtMove ty k (.live v :: st) (.raw :: dt) = ⟨ty.movedFrom v :: st, .live v :: dt, .done 0 0⟩ := by
    simp [Spec.constructAtMove, allLive, allRaw, Slot.isLive, Slot.isRaw, hk, Ty.mf]
  refine ⟨?_, S⟩
  rw [S]
  have h0 : k ≠ some 0 := throwAt_none_ne hk 0 (by omega)
  cases std <;> cases hc : ty.trivCopy <;>
    simp [Amc.constructAtMove, Std.has20, S, Arm.constructAtMove, unguarded2, memcpyN, loop2, moveStep, bitCopyStep, h0, hc,
      Ty.movedFrom]

example : Amc.constructAtMove .cxx17 ⟨false, false, false⟩ none [.live 5] [.raw, .live 1] = ⟨[.hollow], [.live 5, .live 1], .done 0 0⟩ := by decide

theorem C15_constructAtMove_throw (std : Std) (ty : Ty) (v : α) (st dt : List (Slot α)) (hty : ty.trivCopy = false) :
    Amc.constructAtMove std ty (some 0) (.live v :: st) (.raw :: dt) = ⟨.live v :: st, .raw :: dt, .thrown⟩ := by
  cases std <;>
    simp [Amc.constructAtMove, Std.has20, Spec.constructAtMove, allLive, allRaw, Slot.isLive, Slot.isRaw, throwAt,
      Arm.constructAtMove, unguarded2, loop2, moveStep, hty]

example : Amc.constructAtMove .cxx11 ⟨false, false, false⟩ none [.live 5] [.raw] = ⟨[.hollow], [.live 5], .done 0 0⟩ := by
  decide
example : Amc.constructAtMove .cxx11 ⟨true, true, true⟩ none [.live 5] [.raw] = ⟨[.live 5], [.live 5], .done 0 0⟩ := by
  decide

theorem C15_constructAtValue_nothrow (std : Std) (zero : α) (k : Option Nat) (rest : List (Slot α)) (hk : throwAt k 1 = none) :
    Amc.constructAtValue std zero k (.raw :: rest) = Spec.constructAtValue zero k (.raw :: rest)
    ∧ Spec.constructAtValue zero k (.raw :: rest) = ⟨.live zero :: rest, .done 0 0⟩ := by
  have S : Spec.constructAtValue zero k (.raw :: rest) = ⟨.live zero :: rest, .done 0 0⟩ := by
    simp [Spec.constructAtValue, allRaw, Slot.isRaw, hk]
  refine ⟨?_, S⟩
  rw [S]
  have h0 : k ≠ some 0 := throwAt_none_ne hk 0 (by omega)
  cases std <;> simp [Amc.constructAtValue, Std.has20, S, Arm.constructAtValue, unguarded1, loop1, initStep, h0]

example : Amc.constructAtValue .cxx20 0 none [.raw] = ⟨[.live 0], .done 0 0⟩ := by decide

theorem C15_constructAtValue_throw (std : Std) (zero : α) (rest : List (Slot α)) :
    Amc.constructAtValue std zero (some 0) (.raw :: rest) = ⟨.raw :: rest, .thrown⟩ := by
  cases std <;>
    simp [Amc.constructAtValue, Std.has20, Spec.constructAtValue, allRaw, Slot.isRaw, throwAt, Arm.constructAtValue,
      unguarded1, loop1, initStep]

example : Amc.constructAtValue .cxx14 0 none [.raw, .live 3] = ⟨[.live 0, .live 3], .done 0 0⟩ := by decide

/- ---------------------------------------------------------------------------------------------------------
   uninitialized_copy_n / uninitialized_copy
   --------------------------------------------------------------------------------------------------------- -/

/-- net effect of the standard algorithm without a throw -/
theorem C15_uninitCopyN_spec (rv : Bool) (ty : Ty) (k : Option Nat) (vs : List α) (st dt : List (Slot α))
    (hk : throwAt k vs.length = none) :
    Spec.uninitCopyN rv ty k vs.length (vs.map .live ++ st) (List.replicate vs.length .raw ++ dt)
      = ⟨if rv then vs.map ty.movedFrom ++ st else vs.map .live ++ st, vs.map .live ++ dt, .done 0 vs.length⟩ := by
  simp [Spec.uninitCopyN, allLive_shape, allRaw_shape, hk, mf_comp_live]

example : Spec.uninitCopyN false ⟨false, false, false⟩ none 2 [.live 1, .live 2, .live 3] [.raw, .raw, .hollow]
    = ⟨[.live 1, .live 2, .live 3], [.live 1, .live 2, .hollow], .done 0 2⟩ := by decide

/-- (a) every arm of `uninitialized_copy_n` equals the specification (memcpy arms: when the trait holds, lvalue source) -/
theorem C15_uninitCopyN_arms (rv : Bool) (ty : Ty) (k : Option Nat) (vs : List α) (st dt : List (Slot α))
    (hk : throwAt k vs.length = none) :
    Arm.copyNDflt rv ty k vs.length (vs.map .live ++ st) (List.replicate vs.length .raw ++ dt)
      = Spec.uninitCopyN rv ty k vs.length (vs.map .live ++ st) (List.replicate vs.length .raw ++ dt)
    ∧ Arm.copyNInALoop true vs.length (vs.map .live ++ st) (List.replicate vs.length .raw ++ dt)
      = Spec.uninitCopyN false ty k vs.length (vs.map .live ++ st) (List.replicate vs.length .raw ++ dt)
    ∧ Arm.copyNMemMove true vs.length (vs.map .live ++ st) (List.replicate vs.length .raw ++ dt)
      = Spec.uninitCopyN false ty k vs.length (vs.map .live ++ st) (List.replicate vs.length .raw ++ dt) := by
  rw [C15_uninitCopyN_spec rv ty k vs st dt hk, C15_uninitCopyN_spec false ty k vs st dt hk]
  refine ⟨?_, ?_, ?_⟩
  · cases rv <;> simp [Arm.copyNDflt, guarded2, ctorStep, loop2_copy_ok, loop2_move_ok, hk]
  · simp [Arm.copyNInALoop, unguarded2, loop2_bitCopy_ok]
  · cases vs with
    | nil => simp [Arm.copyNMemMove]
    | cons v vs =>
      have := loop2_bitCopy_ok (v :: vs) st dt
      simp [Arm.copyNMemMove, unguarded2, memcpyN] at this ⊢
      simp [this]

example : Arm.copyNDflt false ⟨true, true, true⟩ none 2 [.live 1, .live 2] [.raw, .raw] = Arm.copyNMemMove true 2 [.live 1, .live 2] [.raw, .raw]
    ∧ Arm.copyNInALoop true 2 [.live 1, .live 2] [.raw, .raw] = ⟨[.live 1, .live 2], [.live 1, .live 2], .done 0 2⟩ := by decide

/-- (a) `amc::uninitialized_copy_n` = `std::uninitialized_copy_n`, whatever arm is selected -/
theorem C15_uninitCopyN_nothrow (std : Std) (it : It) (ty : Ty) (k : Option Nat) (vs : List α) (st dt : List (Slot α))
    (hk : throwAt k vs.length = none) :
    Amc.uninitCopyN std it ty k vs.length (vs.map .live ++ st) (List.replicate vs.length .raw ++ dt)
      = Spec.uninitCopyN it.rvalueRef ty k vs.length (vs.map .live ++ st) (List.replicate vs.length .raw ++ dt) := by
  have A := C15_uninitCopyN_arms it.rvalueRef ty k vs st dt hk
  unfold Amc.uninitCopyN
  cases std.has17
  · simp only [Bool.false_eq_true, if_false]
    split
    · exact A.1
    · rename_i h; obtain ⟨h1, h2, _⟩ := mode_inALoop h; rw [h1, h2]; rw [h2] at A; exact A.2.1
    · rename_i h; obtain ⟨h1, h2, _⟩ := mode_memMove h; rw [h1, h2]; rw [h2] at A; exact A.2.2
  · simp

example : Amc.uninitCopyN .cxx11 ⟨true, true, true, false⟩ ⟨true, true, true⟩ none 2 [.live 1, .live 2, .live 3] [.raw, .raw, .raw]
    = ⟨[.live 1, .live 2, .live 3], [.live 1, .live 2, .raw], .done 0 2⟩ := by decide
example : Amc.uninitCopyN .cxx11 ⟨false, false, true, false⟩ ⟨false, false, false⟩ none 2 [.live 1, .live 2] [.raw, .raw]
    = ⟨[.live 1, .live 2], [.live 1, .live 2], .done 0 2⟩ := by decide

/-- (b) construction `pre.length` throws: nothing is left in the destination, the sources are intact (copy) or
    moved-from up to the throwing one (rvalue source), the tails are untouched -/
theorem C15_uninitCopyN_throw (std : Std) (it : It) (ty : Ty) (pre : List α) (v : α) (post : List α) (st dt : List (Slot α))
    (hty : ty.trivCopy = false) :
    Amc.uninitCopyN std it ty (some pre.length) (pre.length + (post.length + 1)) ((pre ++ v :: post).map .live ++ st)
        (List.replicate (pre.length + (post.length + 1)) .raw ++ dt)
      = ⟨if it.rvalueRef then pre.map ty.movedFrom ++ ((v :: post).map .live ++ st) else (pre ++ v :: post).map .live ++ st,
         List.replicate (pre.length + (post.length + 1)) .raw ++ dt, .thrown⟩ := by
  unfold Amc.uninitCopyN
  cases std.has17
  · simp only [Bool.false_eq_true, if_false, hty, mode_false]
    unfold Arm.copyNDflt ctorStep
    cases it.rvalueRef
    · simp only [Bool.false_eq_true, if_false]; rw [guarded2_copy_throw]
    · simp only [if_true]; rw [guarded2_move_throw]
  · have hl : (pre ++ v :: post).length = pre.length + (post.length + 1) := by simp
    have hj : pre.length < pre.length + (post.length + 1) := by omega
    simp only [if_true, Spec.uninitCopyN, allLive_shape' _ _ hl, allRaw_shape, Bool.and_self, throwAt_some_lt hj]
    cases it.rvalueRef <;> simp [mf_comp_live]

example : Amc.uninitCopyN .cxx11 ⟨false, true, true, true⟩ ⟨false, false, false⟩ (some 1) 3 [.live 1, .live 2, .live 3] [.raw, .raw, .raw]
    = ⟨[.hollow, .live 2, .live 3], [.raw, .raw, .raw], .thrown⟩ := by decide

/-- (b) indexed form: for every content `vs` and every throw index `j < vs.length` -/
theorem C15_uninitCopyN_throw_at (std : Std) (it : It) (ty : Ty) (vs : List α) (j : Nat) (hj : j < vs.length)
    (st dt : List (Slot α)) (hty : ty.trivCopy = false) :
    Amc.uninitCopyN std it ty (some j) vs.length (vs.map .live ++ st) (List.replicate vs.length .raw ++ dt)
      = ⟨if it.rvalueRef then (vs.take j).map ty.movedFrom ++ ((vs.drop j).map .live ++ st) else vs.map .live ++ st,
         List.replicate vs.length .raw ++ dt, .thrown⟩ := by
  obtain ⟨pre, v, post, rfl, rfl⟩ := split_at vs j hj
  have hl : (pre ++ v :: post).length = pre.length + (post.length + 1) := by simp
  rw [hl, C15_uninitCopyN_throw std it ty pre v post st dt hty]
  simp

example : Amc.uninitCopyN .cxx11 ⟨true, true, true, false⟩ ⟨false, false, false⟩ (some 2) 3 [.live 1, .live 2, .live 3, .live 4]
    [.raw, .raw, .raw, .live 9] = ⟨[.live 1, .live 2, .live 3, .live 4], [.raw, .raw, .raw, .live 9], .thrown⟩ := by decide

/-- range form: `uninitialized_copy(first, last, dest)` with `last - first = n` -/
theorem C15_uninitCopy_arms (rv : Bool) (ty : Ty) (k : Option Nat) (vs : List α) (st dt : List (Slot α))
    (hk : throwAt k vs.length = none) :
    Arm.copyDflt rv ty k vs.length (vs.map .live ++ st) (List.replicate vs.length .raw ++ dt)
      = Spec.uninitCopy rv ty k vs.length (vs.map .live ++ st) (List.replicate vs.length .raw ++ dt)
    ∧ Arm.copyInALoop true vs.length (vs.map .live ++ st) (List.replicate vs.length .raw ++ dt)
      = Spec.uninitCopy false ty k vs.length (vs.map .live ++ st) (List.replicate vs.length .raw ++ dt)
    ∧ Arm.copyMemMove true vs.length (vs.map .live ++ st) (List.replicate vs.length .raw ++ dt)
      = Spec.uninitCopy false ty k vs.length (vs.map .live ++ st) (List.replicate vs.length .raw ++ dt) :=
  C15_uninitCopyN_arms rv ty k vs st dt hk

example : Arm.copyDflt false ⟨true, true, true⟩ none 1 [.live 1] [.raw] = Arm.copyMemMove true 1 [.live 1] [.raw]
    ∧ Arm.copyInALoop true 1 [.live 1] [.raw] = ⟨[.live 1], [.live 1], .done 0 1⟩ := by decide

theorem C15_uninitCopy_nothrow (std : Std) (it : It) (ty : Ty) (k : Option Nat) (vs : List α) (st dt : List (Slot α))
    (hk : throwAt k vs.length = none) :
    Amc.uninitCopy std it ty k vs.length (vs.map .live ++ st) (List.replicate vs.length .raw ++ dt)
      = Spec.uninitCopy it.rvalueRef ty k vs.length (vs.map .live ++ st) (List.replicate vs.length .raw ++ dt) :=
  C15_uninitCopyN_nothrow std it ty k vs st dt hk

example : Amc.uninitCopy .cxx11 ⟨true, true, true, false⟩ ⟨true, true, true⟩ none 2 [.live 1, .live 2] [.raw, .raw, .live 7]
    = ⟨[.live 1, .live 2], [.live 1, .live 2, .live 7], .done 0 2⟩ := by decide

theorem C15_uninitCopy_throw (std : Std) (it : It) (ty : Ty) (pre : List α) (v : α) (post : List α) (st dt : List (Slot α))
    (hty : ty.trivCopy = false) :
    Amc.uninitCopy std it ty (some pre.length) (pre.length + (post.length + 1)) ((pre ++ v :: post).map .live ++ st)
        (List.replicate (pre.length + (post.length + 1)) .raw ++ dt)
      = ⟨if it.rvalueRef then pre.map ty.movedFrom ++ ((v :: post).map .live ++ st) else (pre ++ v :: post).map .live ++ st,
         List.replicate (pre.length + (post.length + 1)) .raw ++ dt, .thrown⟩ :=
  C15_uninitCopyN_throw std it ty pre v post st dt hty

example : Amc.uninitCopy .cxx14 ⟨false, true, true, true⟩ ⟨false, false, false⟩ none 2 [.live 1, .live 2] [.raw, .raw]
    = ⟨[.hollow, .hollow], [.live 1, .live 2], .done 0 2⟩ := by decide

/-- the memcpy arms applied to a type that is not trivially copyable are undefined behaviour -/
theorem C15_copy_memcpy_denied (v : α) (vs : List α) (st dt : List (Slot α)) :
    (Arm.copyNMemMove false (v :: vs).length ((v :: vs).map .live ++ st) (List.replicate (v :: vs).length .raw ++ dt)).out
      = .fault .bitwiseNTR
    ∧ (Arm.copyNInALoop false (v :: vs).length ((v :: vs).map .live ++ st) (List.replicate (v :: vs).length .raw ++ dt)).out
      = .fault .bitwiseNTR := by
  have h := loop2_bitCopy_denied v vs st dt vs.length
  constructor
  · simp only [Arm.copyNMemMove, memcpyN, unguarded2, List.length_cons, if_true, gt_iff_lt, Nat.zero_lt_succ]
    rw [h]
  · simp only [Arm.copyNInALoop, unguarded2, List.length_cons]
    rw [h]

example : (Arm.copyNMemMove false 1 [.live 1] [(.raw : Slot Nat)]).out = .fault .bitwiseNTR := by decide

/- ---------------------------------------------------------------------------------------------------------
   uninitialized_move_n / uninitialized_move
   --------------------------------------------------------------------------------------------------------- -/

theorem C15_uninitMoveN_spec (ty : Ty) (k : Option Nat) (vs : List α) (st dt : List (Slot α))
    (hk : throwAt k vs.length = none) :
    Spec.uninitMoveN ty k vs.length (vs.map .live ++ st) (List.replicate vs.length .raw ++ dt)
      = ⟨vs.map ty.movedFrom ++ st, vs.map .live ++ dt, .done vs.length vs.length⟩ := by
  simp [Spec.uninitMoveN, allLive_shape, allRaw_shape, hk, mf_comp_live]

example : Spec.uninitMoveN ⟨false, false, false⟩ none 2 [.live 1, .live 2, .live 3] [.raw, .raw]
    = ⟨[.hollow, .hollow, .live 3], [.live 1, .live 2], .done 2 2⟩ := by decide

/-- (a) every arm of `uninitialized_move_n` equals the specification; for the memcpy arms the type is trivially
    copyable, so a moved-from object is an unchanged copy -/
theorem C15_uninitMoveN_arms (ty : Ty) (k : Option Nat) (vs : List α) (st dt : List (Slot α))
    (hk : throwAt k vs.length = none) :
    Arm.moveNDflt ty k vs.length (vs.map .live ++ st) (List.replicate vs.length .raw ++ dt)
      = Spec.uninitMoveN ty k vs.length (vs.map .live ++ st) (List.replicate vs.length .raw ++ dt)
    ∧ (ty.trivCopy = true →
        Arm.moveNInALoop true vs.length (vs.map .live ++ st) (List.replicate vs.length .raw ++ dt)
          = Spec.uninitMoveN ty k vs.length (vs.map .live ++ st) (List.replicate vs.length .raw ++ dt)
        ∧ Arm.moveNMemMove true vs.length (vs.map .live ++ st) (List.replicate vs.length .raw ++ dt)
          = Spec.uninitMoveN ty k vs.length (vs.map .live ++ st) (List.replicate vs.length .raw ++ dt)) := by
  rw [C15_uninitMoveN_spec ty k vs st dt hk]
  refine ⟨?_, fun hc => ⟨?_, ?_⟩⟩
  · simp [Arm.moveNDflt, guarded2, loop2_move_ok, hk]
  · simp [Arm.moveNInALoop, unguarded2, loop2_bitCopy_ok, movedFrom_trivCopy ty hc]
  · cases vs with
    | nil => simp [Arm.moveNMemMove, Arm.copyNMemMove]
    | cons v vs =>
      have := loop2_bitCopy_ok (v :: vs) st dt
      simp [Arm.moveNMemMove, Arm.copyNMemMove, unguarded2, memcpyN, movedFrom_trivCopy ty hc] at this ⊢
      simp [this]

example : Arm.moveNDflt ⟨true, true, true⟩ none 2 [.live 1, .live 2] [.raw, .raw] = Arm.moveNMemMove true 2 [.live 1, .live 2] [.raw, .raw]
    ∧ Arm.moveNInALoop true 2 [.live 1, .live 2] [.raw, .raw] = ⟨[.live 1, .live 2], [.live 1, .live 2], .done 2 2⟩ := by decide

/-- (a) `amc::uninitialized_move_n` = `std::uninitialized_move_n` -/
theorem C15_uninitMoveN_nothrow (std : Std) (it : It) (ty : Ty) (k : Option Nat) (vs : List α) (st dt : List (Slot α))
    (hk : throwAt k vs.length = none) :
    Amc.uninitMoveN std it ty k vs.length (vs.map .live ++ st) (List.replicate vs.length .raw ++ dt)
      = Spec.uninitMoveN ty k vs.length (vs.map .live ++ st) (List.replicate vs.length .raw ++ dt) := by
  have A := C15_uninitMoveN_arms ty k vs st dt hk
  unfold Amc.uninitMoveN
  cases std.has17
  · simp only [Bool.false_eq_true, if_false]
    split
    · exact A.1
    · rename_i h; obtain ⟨h1, _, _⟩ := mode_inALoop h; rw [h1]; exact (A.2 h1).1
    · rename_i h; obtain ⟨h1, _, _⟩ := mode_memMove h; rw [h1]; exact (A.2 h1).2
  · simp

example : Amc.uninitMoveN .cxx11 ⟨true, true, true, false⟩ ⟨false, true, false⟩ none 2 [.live 1, .live 2, .live 3] [.raw, .raw]
    = ⟨[.hollow, .hollow, .live 3], [.live 1, .live 2], .done 2 2⟩ := by decide
example : Amc.uninitMoveN .cxx14 ⟨true, true, true, false⟩ ⟨true, true, true⟩ none 2 [.live 1, .live 2] [.raw, .raw]
    = ⟨[.live 1, .live 2], [.live 1, .live 2], .done 2 2⟩ := by decide

/-- (b) a move constructor throws at `pre.length`: destination empty again, every source alive (the first
    `pre.length` moved-from), tails untouched -/
theorem C15_uninitMoveN_throw (std : Std) (it : It) (ty : Ty) (pre : List α) (v : α) (post : List α) (st dt : List (Slot α))
    (hty : ty.trivCopy = false) :
    Amc.uninitMoveN std it ty (some pre.length) (pre.length + (post.length + 1)) ((pre ++ v :: post).map .live ++ st)
        (List.replicate (pre.length + (post.length + 1)) .raw ++ dt)
      = ⟨pre.map ty.movedFrom ++ ((v :: post).map .live ++ st),
         List.replicate (pre.length + (post.length + 1)) .raw ++ dt, .thrown⟩ := by
  unfold Amc.uninitMoveN
  cases std.has17
  · simp only [Bool.false_eq_true, if_false, hty, mode_false]
    unfold Arm.moveNDflt
    rw [guarded2_move_throw]
  · have hl : (pre ++ v :: post).length = pre.length + (post.length + 1) := by simp
    have hj : pre.length < pre.length + (post.length + 1) := by omega
    simp only [if_true, Spec.uninitMoveN, allLive_shape' _ _ hl, allRaw_shape, Bool.and_self, throwAt_some_lt hj]
    simp [mf_comp_live]

example : Amc.uninitMoveN .cxx14 ⟨false, false, true, false⟩ ⟨false, false, false⟩ (some 2) 3 [.live 1, .live 2, .live 3, .live 4] [.raw, .raw, .raw]
    = ⟨[.hollow, .hollow, .live 3, .live 4], [.raw, .raw, .raw], .thrown⟩ := by decide

theorem C15_uninitMoveN_throw_at (std : Std) (it : It) (ty : Ty) (vs : List α) (j : Nat) (hj : j < vs.length)
    (st dt : List (Slot α)) (hty : ty.trivCopy = false) :
    Amc.uninitMoveN std it ty (some j) vs.length (vs.map .live ++ st) (List.replicate vs.length .raw ++ dt)
      = ⟨(vs.take j).map ty.movedFrom ++ ((vs.drop j).map .live ++ st), List.replicate vs.length .raw ++ dt, .thrown⟩ := by
  obtain ⟨pre, v, post, rfl, rfl⟩ := split_at vs j hj
  have hl : (pre ++ v :: post).length = pre.length + (post.length + 1) := by simp
  rw [hl, C15_uninitMoveN_throw std it ty pre v post st dt hty]
  simp

example : Amc.uninitMoveN .cxx11 ⟨true, true, true, false⟩ ⟨false, false, false⟩ (some 1) 3 [.live 1, .live 2, .live 3]
    [.raw, .raw, .raw] = ⟨[.hollow, .live 2, .live 3], [.raw, .raw, .raw], .thrown⟩ := by decide

theorem C15_uninitMove_spec (ty : Ty) (k : Option Nat) (vs : List α) (st dt : List (Slot α))
    (hk : throwAt k vs.length = none) :
    Spec.uninitMove ty k vs.length (vs.map .live ++ st) (List.replicate vs.length .raw ++ dt)
      = ⟨vs.map ty.movedFrom ++ st, vs.map .live ++ dt, .done 0 vs.length⟩ := by
  simp [Spec.uninitMove, allLive_shape, allRaw_shape, hk, mf_comp_live]

example : Spec.uninitMove ⟨false, true, false⟩ none 1 [.live 1] [.raw] = ⟨[.hollow], [.live 1], .done 0 1⟩ := by decide

theorem C15_uninitMove_arms (ty : Ty) (k : Option Nat) (vs : List α) (st dt : List (Slot α))
    (hk : throwAt k vs.length = none) :
    Arm.moveDflt ty k vs.length (vs.map .live ++ st) (List.replicate vs.length .raw ++ dt)
      = Spec.uninitMove ty k vs.length (vs.map .live ++ st) (List.replicate vs.length .raw ++ dt)
    ∧ (ty.trivCopy = true →
        Arm.moveInALoop true vs.length (vs.map .live ++ st) (List.replicate vs.length .raw ++ dt)
          = Spec.uninitMove ty k vs.length (vs.map .live ++ st) (List.replicate vs.length .raw ++ dt)
        ∧ Arm.moveMemMove true vs.length (vs.map .live ++ st) (List.replicate vs.length .raw ++ dt)
          = Spec.uninitMove ty k vs.length (vs.map .live ++ st) (List.replicate vs.length .raw ++ dt)) := by
  rw [C15_uninitMove_spec ty k vs st dt hk]
  refine ⟨?_, fun hc => ⟨?_, ?_⟩⟩
  · simp [Arm.moveDflt, Arm.copyDflt, guarded2, ctorStep, loop2_move_ok, hk]
  · simp [Arm.moveInALoop, Arm.copyInALoop, unguarded2, loop2_bitCopy_ok, movedFrom_trivCopy ty hc]
  · cases vs with
    | nil => simp [Arm.moveMemMove, Arm.copyMemMove]
    | cons v vs =>
      have := loop2_bitCopy_ok (v :: vs) st dt
      simp [Arm.moveMemMove, Arm.copyMemMove, unguarded2, memcpyN, movedFrom_trivCopy ty hc] at this ⊢
      simp [this]

example : Arm.moveDflt ⟨true, true, true⟩ none 2 [.live 1, .live 2] [.raw, .raw] = Arm.moveMemMove true 2 [.live 1, .live 2] [.raw, .raw]
    ∧ Arm.moveInALoop true 2 [.live 1, .live 2] [.raw, .raw] = ⟨[.live 1, .live 2], [.live 1, .live 2], .done 0 2⟩ := by decide

theorem C15_uninitMove_nothrow (std : Std) (it : It) (ty : Ty) (k : Option Nat) (vs : List α) (st dt : List (Slot α))
    (hk : throwAt k vs.length = none) :
    Amc.uninitMove std it ty k vs.length (vs.map .live ++ st) (List.replicate vs.length .raw ++ dt)
      = Spec.uninitMove ty k vs.length (vs.map .live ++ st) (List.replicate vs.length .raw ++ dt) := by
  have A := C15_uninitMove_arms ty k vs st dt hk
  unfold Amc.uninitMove
  cases std.has17
  · simp only [Bool.false_eq_true, if_false]
    split
    · exact A.1
    · rename_i h; obtain ⟨h1, _, _⟩ := mode_inALoop h; rw [h1]; exact (A.2 h1).1
    · rename_i h; obtain ⟨h1, _, _⟩ := mode_memMove h; rw [h1]; exact (A.2 h1).2
  · simp

example : Amc.uninitMove .cxx11 ⟨true, true, true, false⟩ ⟨true, true, true⟩ none 2 [.live 1, .live 2] [.raw, .raw] = ⟨[.live 1, .live 2], [.live 1, .live 2], .done 0 2⟩ := by
  decide

theorem C15_uninitMove_throw (std : Std) (it : It) (ty : Ty) (pre : List α) (v : α) (post : List α) (st dt : List (Slot α))
    (hty : ty.trivCopy = false) :
    Amc.uninitMove std it ty (some pre.length) (pre.length + (post.length + 1)) ((pre ++ v :: post).map .live ++ st)
        (List.replicate (pre.length + (post.length + 1)) .raw ++ dt)
      = ⟨pre.map ty.movedFrom ++ ((v :: post).map .live ++ st),
         List.replicate (pre.length + (post.length + 1)) .raw ++ dt, .thrown⟩ := by
  unfold Amc.uninitMove
  cases std.has17
  · simp only [Bool.false_eq_true, if_false, hty, mode_false]
    unfold Arm.moveDflt Arm.copyDflt ctorStep
    simp only [if_true]
    rw [guarded2_move_throw]
  · have hl : (pre ++ v :: post).length = pre.length + (post.length + 1) := by simp
    have hj : pre.length < pre.length + (post.length + 1) := by omega
    simp only [if_true, Spec.uninitMove, allLive_shape' _ _ hl, allRaw_shape, Bool.and_self, throwAt_some_lt hj]
    simp [mf_comp_live]

example : Amc.uninitMove .cxx11 ⟨false, false, true, false⟩ ⟨false, false, false⟩ none 2 [.live 1, .live 2] [.raw, .raw]
    = ⟨[.hollow, .hollow], [.live 1, .live 2], .done 0 2⟩ := by decide
example : Amc.uninitMove .cxx17 ⟨false, false, true, false⟩ ⟨false, false, false⟩ (some 1) 2 [.live 1, .live 2] [.raw, .raw]
    = ⟨[.hollow, .live 2], [.raw, .raw], .thrown⟩ := by decide

/- ---------------------------------------------------------------------------------------------------------
   uninitialized_default_construct(_n), uninitialized_value_construct(_n)
   --------------------------------------------------------------------------------------------------------- -/

/-- (a) both overloads of the pre-C++17 emulation and the C++17 `using` give the specified result: `n` objects with the
    default-initialised value (indeterminate for trivially default constructible types), returns `first + n` -/
theorem C15_uninitDefaultN_nothrow (std : Std) (ty : Ty) (dflt indet : α) (k : Option Nat) (n : Nat) (rest : List (Slot α))
    (hk : throwAt k n = none) :
    Amc.uninitDefaultN std ty dflt indet k n (List.replicate n .raw ++ rest)
      = Spec.uninitDefaultN ty dflt indet k n (List.replicate n .raw ++ rest)
    ∧ Spec.uninitDefaultN ty dflt indet k n (List.replicate n .raw ++ rest)
      = ⟨List.replicate n (.live (ty.defaultVal dflt indet)) ++ rest, .done 0 n⟩ := by
  have S : Spec.uninitDefaultN ty dflt indet k n (List.replicate n .raw ++ rest)
      = ⟨List.replicate n (.live (ty.defaultVal dflt indet)) ++ rest, .done 0 n⟩ := by
    simp [Spec.uninitDefaultN, allRaw_shape, hk]
  refine ⟨?_, S⟩
  rw [S]
  unfold Amc.uninitDefaultN
  cases std.has17
  · cases hd : ty.trivDflt <;>
      simp [Arm.defaultNTrivial, Arm.defaultNLoop, unguarded1, guarded1, loop1_vacuous_ok, loop1_init_ok _ _ _ _ hk,
        Ty.defaultVal, hd]
  · simp [S]

example : Amc.uninitDefaultN .cxx17 ⟨false, false, false⟩ 0 99 none 1 [.raw, .hollow] = ⟨[.live 0, .hollow], .done 0 1⟩ := by decide

/-- (b) construction `a` of `a + (b + 1)` throws: the range is raw again, the tail untouched -/
theorem C15_uninitDefaultN_throw (std : Std) (ty : Ty) (dflt indet : α) (a b : Nat) (rest : List (Slot α))
    (hty : ty.trivDflt = false) :
    Amc.uninitDefaultN std ty dflt indet (some a) (a + (b + 1)) (List.replicate (a + (b + 1)) .raw ++ rest)
      = ⟨List.replicate (a + (b + 1)) .raw ++ rest, .thrown⟩ := by
  have hj : a < a + (b + 1) := by omega
  unfold Amc.uninitDefaultN
  cases std.has17
  · simp only [Bool.false_eq_true, if_false, hty]
    unfold Arm.defaultNLoop
    rw [guarded1_init_throw]
  · simp [Spec.uninitDefaultN, allRaw_shape, throwAt_some_lt hj]

example : Amc.uninitDefaultN .cxx11 ⟨false, false, false⟩ 0 99 none 2 [.raw, .raw, .live 5]
    = ⟨[.live 0, .live 0, .live 5], .done 0 2⟩ := by decide
example : Amc.uninitDefaultN .cxx11 ⟨true, true, true⟩ 0 99 none 2 [.raw, .raw, .live 5]
    = ⟨[.live 99, .live 99, .live 5], .done 0 2⟩ := by decide
example : Amc.uninitDefaultN .cxx14 ⟨false, false, false⟩ 0 99 (some 1) 2 [.raw, .raw, .live 5]
    = ⟨[.raw, .raw, .live 5], .thrown⟩ := by decide

theorem C15_uninitDefault_nothrow (std : Std) (ty : Ty) (dflt indet : α) (k : Option Nat) (n : Nat) (rest : List (Slot α))
    (hk : throwAt k n = none) :
    Amc.uninitDefault std ty dflt indet k n (List.replicate n .raw ++ rest)
      = Spec.uninitDefault ty dflt indet k n (List.replicate n .raw ++ rest)
    ∧ Spec.uninitDefault ty dflt indet k n (List.replicate n .raw ++ rest)
      = ⟨List.replicate n (.live (ty.defaultVal dflt indet)) ++ rest, .done 0 0⟩ := by
  have S : Spec.uninitDefault ty dflt indet k n (List.replicate n .raw ++ rest)
      = ⟨List.replicate n (.live (ty.defaultVal dflt indet)) ++ rest, .done 0 0⟩ := by
    simp [Spec.uninitDefault, allRaw_shape, hk]
  refine ⟨?_, S⟩
  rw [S]
  unfold Amc.uninitDefault
  cases std.has17
  · cases hd : ty.trivDflt <;>
      simp [Arm.defaultTrivial, Arm.defaultLoop, unguarded1, guarded1, loop1_vacuous_ok, loop1_init_ok _ _ _ _ hk,
        Ty.defaultVal, hd]
  · simp [S]

example : Amc.uninitDefault .cxx11 ⟨true, true, true⟩ 0 99 none 2 [.raw, .raw] = ⟨[.live 99, .live 99], .done 0 0⟩ := by decide

theorem C15_uninitDefault_throw (std : Std) (ty : Ty) (dflt indet : α) (a b : Nat) (rest : List (Slot α))
    (hty : ty.trivDflt = false) :
    Amc.uninitDefault std ty dflt indet (some a) (a + (b + 1)) (List.replicate (a + (b + 1)) .raw ++ rest)
      = ⟨List.replicate (a + (b + 1)) .raw ++ rest, .thrown⟩ := by
  have hj : a < a + (b + 1) := by omega
  unfold Amc.uninitDefault
  cases std.has17
  · simp only [Bool.false_eq_true, if_false, hty]
    unfold Arm.defaultLoop
    rw [guarded1_init_throw]
  · simp [Spec.uninitDefault, allRaw_shape, throwAt_some_lt hj]

example : Amc.uninitDefault .cxx11 ⟨false, false, false⟩ 0 99 (some 0) 2 [.raw, .raw] = ⟨[.raw, .raw], .thrown⟩ := by decide

theorem C15_uninitValueN_nothrow (std : Std) (ty : Ty) (zero : α) (k : Option Nat) (n : Nat) (rest : List (Slot α))
    (hk : throwAt k n = none) :
    Amc.uninitValueN std ty zero k n (List.replicate n .raw ++ rest) = Spec.uninitValueN zero k n (List.replicate n .raw ++ rest)
    ∧ Spec.uninitValueN zero k n (List.replicate n .raw ++ rest) = ⟨List.replicate n (.live zero) ++ rest, .done 0 n⟩ := by
  have S : Spec.uninitValueN zero k n (List.replicate n .raw ++ rest) = ⟨List.replicate n (.live zero) ++ rest, .done 0 n⟩ := by
    simp [Spec.uninitValueN, allRaw_shape, hk]
  refine ⟨?_, S⟩
  rw [S]
  unfold Amc.uninitValueN
  cases std.has17
  · cases hd : ty.trivial <;>
      simp [Arm.valueNTrivial, Arm.valueNLoop, unguarded1, guarded1, loop1_fill_ok, loop1_init_ok _ _ _ _ hk]
  · simp [S]

example : Amc.uninitValueN .cxx11 ⟨false, false, false⟩ 0 (some 5) 2 [.raw, .raw] = ⟨[.live 0, .live 0], .done 0 2⟩ := by decide

theorem C15_uninitValueN_throw (std : Std) (ty : Ty) (zero : α) (a b : Nat) (rest : List (Slot α))
    (hty : ty.trivial = false) :
    Amc.uninitValueN std ty zero (some a) (a + (b + 1)) (List.replicate (a + (b + 1)) .raw ++ rest)
      = ⟨List.replicate (a + (b + 1)) .raw ++ rest, .thrown⟩ := by
  have hj : a < a + (b + 1) := by omega
  unfold Amc.uninitValueN
  cases std.has17
  · simp only [Bool.false_eq_true, if_false, hty]
    unfold Arm.valueNLoop
    rw [guarded1_init_throw]
  · simp [Spec.uninitValueN, allRaw_shape, throwAt_some_lt hj]

example : Amc.uninitValueN .cxx11 ⟨true, true, true⟩ 0 none 2 [.raw, .raw, .live 5] = ⟨[.live 0, .live 0, .live 5], .done 0 2⟩ := by
  decide
example : Amc.uninitValueN .cxx14 ⟨false, true, false⟩ 0 (some 2) 3 [.raw, .raw, .raw] = ⟨[.raw, .raw, .raw], .thrown⟩ := by
  decide

theorem C15_uninitValue_nothrow (std : Std) (ty : Ty) (zero : α) (k : Option Nat) (n : Nat) (rest : List (Slot α))
    (hk : throwAt k n = none) :
    Amc.uninitValue std ty zero k n (List.replicate n .raw ++ rest) = Spec.uninitValue zero k n (List.replicate n .raw ++ rest)
    ∧ Spec.uninitValue zero k n (List.replicate n .raw ++ rest) = ⟨List.replicate n (.live zero) ++ rest, .done 0 0⟩ := by
  have S : Spec.uninitValue zero k n (List.replicate n .raw ++ rest) = ⟨List.replicate n (.live zero) ++ rest, .done 0 0⟩ := by
    simp [Spec.uninitValue, allRaw_shape, hk]
  refine ⟨?_, S⟩
  rw [S]
  unfold Amc.uninitValue
  cases std.has17
  · cases hd : ty.trivial <;>
      simp [Arm.valueTrivial, Arm.valueLoop, unguarded1, guarded1, loop1_fill_ok, loop1_init_ok _ _ _ _ hk]
  · simp [S]

example : Amc.uninitValue .cxx14 ⟨true, true, true⟩ 0 none 2 [.raw, .raw, .live 4] = ⟨[.live 0, .live 0, .live 4], .done 0 0⟩ := by decide

theorem C15_uninitValue_throw (std : Std) (ty : Ty) (zero : α) (a b : Nat) (rest : List (Slot α))
    (hty : ty.trivial = false) :
    Amc.uninitValue std ty zero (some a) (a + (b + 1)) (List.replicate (a + (b + 1)) .raw ++ rest)
      = ⟨List.replicate (a + (b + 1)) .raw ++ rest, .thrown⟩ := by
  have hj : a < a + (b + 1) := by omega
  unfold Amc.uninitValue
  cases std.has17
  · simp only [Bool.false_eq_true, if_false, hty]
    unfold Arm.valueLoop
    rw [guarded1_init_throw]
  · simp [Spec.uninitValue, allRaw_shape, throwAt_some_lt hj]

example : Amc.uninitValue .cxx11 ⟨false, false, false⟩ 0 (some 1) 2 [.raw, .raw, .live 5] = ⟨[.raw, .raw, .live 5], .thrown⟩ := by
  decide

/- ---------------------------------------------------------------------------------------------------------
   uninitialized_relocate_n / uninitialized_relocate / relocate_at
   --------------------------------------------------------------------------------------------------------- -/

theorem C15_uninitRelocN_spec (ty : Ty) (k : Option Nat) (vs : List α) (st dt : List (Slot α))
    (hk : throwAt k vs.length = none) :
    Spec.uninitRelocN ty k vs.length (vs.map .live ++ st) (List.replicate vs.length .raw ++ dt)
      = ⟨List.replicate vs.length .raw ++ st, vs.map .live ++ dt, .done vs.length vs.length⟩ := by
  simp [Spec.uninitRelocN, allLive_shape, allRaw_shape, hk]

example : Spec.uninitRelocN ⟨false, false, false⟩ none 2 [.live 1, .live 2, .live 3] [.raw, .raw]
    = ⟨[.raw, .raw, .live 3], [.live 1, .live 2], .done 2 2⟩ := by decide

/-- (a) the memmove arms of `uninitialized_relocate_n` equal "move-construct, then destroy the source" -/
theorem C15_uninitRelocN_arms (ty : Ty) (k : Option Nat) (vs : List α) (st dt : List (Slot α))
    (hk : throwAt k vs.length = none) :
    Arm.relocNInALoop true vs.length (vs.map .live ++ st) (List.replicate vs.length .raw ++ dt)
      = Spec.uninitRelocN ty k vs.length (vs.map .live ++ st) (List.replicate vs.length .raw ++ dt)
    ∧ Arm.relocNMemMove true vs.length (vs.map .live ++ st) (List.replicate vs.length .raw ++ dt)
      = Spec.uninitRelocN ty k vs.length (vs.map .live ++ st) (List.replicate vs.length .raw ++ dt) := by
  rw [C15_uninitRelocN_spec ty k vs st dt hk]
  refine ⟨?_, ?_⟩
  · simp [Arm.relocNInALoop, unguarded2, loop2_bitReloc_ok]
  · cases vs with
    | nil => simp [Arm.relocNMemMove]
    | cons v vs =>
      have := loop2_bitReloc_ok (v :: vs) st dt
      simp [Arm.relocNMemMove, unguarded2, memmoveRelocN] at this ⊢
      simp [this]

example : Arm.relocNInALoop true 2 [.live 1, .live 2] [.raw, .raw] = Arm.relocNMemMove true 2 [.live 1, .live 2] [.raw, .raw]
    ∧ Arm.relocNMemMove true 2 [.live 1, .live 2] [.raw, .raw] = ⟨[.raw, .raw], [.live 1, .live 2], .done 2 2⟩ := by decide

/-- (a) `amc::uninitialized_relocate_n` = move-construct every element, then destroy every source; returns
    `{first + n, dest + n}` — for the `Default` arm (which calls `amc::uninitialized_move_n`, itself dispatched, then
    `amc::destroy_n`) and for both memmove arms -/
theorem C15_uninitRelocN_nothrow (std : Std) (it : It) (ty : Ty) (k : Option Nat) (vs : List α) (st dt : List (Slot α))
    (hk : throwAt k vs.length = none) :
    Amc.uninitRelocN std it ty k vs.length (vs.map .live ++ st) (List.replicate vs.length .raw ++ dt)
      = Spec.uninitRelocN ty k vs.length (vs.map .live ++ st) (List.replicate vs.length .raw ++ dt) := by
  have A := C15_uninitRelocN_arms ty k vs st dt hk
  unfold Amc.uninitRelocN
  split
  · rw [C15_uninitRelocN_spec ty k vs st dt hk]
    unfold Amc.relocNDflt
    rw [C15_uninitMoveN_nothrow std it ty k vs st dt hk, C15_uninitMoveN_spec ty k vs st dt hk]
    have D := C15_destroyN std (vs.map ty.movedFrom) st (by
      intro s hs
      simp at hs
      obtain ⟨v, _, rfl⟩ := hs
      exact movedFrom_ne_raw ty v)
    simp only [List.length_map] at D
    simp only [D.1, D.2]
  · rename_i h; obtain ⟨h1, _, _⟩ := mode_inALoop h; rw [h1]; exact A.1
  · rename_i h; obtain ⟨h1, _, _⟩ := mode_memMove h; rw [h1]; exact A.2

example : Amc.uninitRelocN .cxx11 ⟨true, true, true, false⟩ ⟨false, true, false⟩ none 2 [.live 1, .live 2, .live 3] [.raw, .raw]
    = ⟨[.raw, .raw, .live 3], [.live 1, .live 2], .done 2 2⟩ := by decide
example : Amc.uninitRelocN .cxx17 ⟨false, false, true, false⟩ ⟨false, false, false⟩ none 2 [.live 1, .live 2, .live 3] [.raw, .raw]
    = ⟨[.raw, .raw, .live 3], [.live 1, .live 2], .done 2 2⟩ := by decide

/-- (b) a move constructor throws at `pre.length` while relocating a type that is not trivially relocatable: nothing
    is left in the destination, no source has been destroyed (all alive, the first `pre.length` moved-from), tails
    untouched -/
theorem C15_uninitRelocN_throw (std : Std) (it : It) (ty : Ty) (pre : List α) (v : α) (post : List α) (st dt : List (Slot α))
    (hty : ty.trivCopy = false) (htr : ty.trivReloc = false) :
    Amc.uninitRelocN std it ty (some pre.length) (pre.length + (post.length + 1)) ((pre ++ v :: post).map .live ++ st)
        (List.replicate (pre.length + (post.length + 1)) .raw ++ dt)
      = ⟨pre.map ty.movedFrom ++ ((v :: post).map .live ++ st),
         List.replicate (pre.length + (post.length + 1)) .raw ++ dt, .thrown⟩ := by
  unfold Amc.uninitRelocN
  simp only [htr, mode_false]
  unfold Amc.relocNDflt
  rw [C15_uninitMoveN_throw std it ty pre v post st dt hty]

example : Amc.uninitRelocN .cxx17 ⟨false, false, true, false⟩ ⟨false, false, false⟩ (some 1) 2 [.live 1, .live 2] [.raw, .raw]
    = ⟨[.hollow, .live 2], [.raw, .raw], .thrown⟩ := by decide

theorem C15_uninitRelocN_throw_at (std : Std) (it : It) (ty : Ty) (vs : List α) (j : Nat) (hj : j < vs.length)
    (st dt : List (Slot α)) (hty : ty.trivCopy = false) (htr : ty.trivReloc = false) :
    Amc.uninitRelocN std it ty (some j) vs.length (vs.map .live ++ st) (List.replicate vs.length .raw ++ dt)
      = ⟨(vs.take j).map ty.movedFrom ++ ((vs.drop j).map .live ++ st), List.replicate vs.length .raw ++ dt, .thrown⟩ := by
  obtain ⟨pre, v, post, rfl, rfl⟩ := split_at vs j hj
  have hl : (pre ++ v :: post).length = pre.length + (post.length + 1) := by simp
  rw [hl, C15_uninitRelocN_throw std it ty pre v post st dt hty htr]
  simp

example : Amc.uninitRelocN .cxx11 ⟨true, true, true, false⟩ ⟨false, false, false⟩ (some 0) 2 [.live 1, .live 2] [.raw, .raw]
    = ⟨[.live 1, .live 2], [.raw, .raw], .thrown⟩ := by decide

/-- consequence of (b): after the throw every source slot still holds an object -/
theorem C15_uninitRelocN_throw_sources_alive (std : Std) (it : It) (ty : Ty) (vs : List α) (j : Nat) (hj : j < vs.length)
    (st dt : List (Slot α)) (hty : ty.trivCopy = false) (htr : ty.trivReloc = false) :
    allAlive vs.length
      (Amc.uninitRelocN std it ty (some j) vs.length (vs.map .live ++ st) (List.replicate vs.length .raw ++ dt)).src = true := by
  rw [C15_uninitRelocN_throw_at std it ty vs j hj st dt hty htr]
  have h := allAlive_shape ((vs.take j).map ty.movedFrom ++ (vs.drop j).map Slot.live) st (by
    intro s hs
    rcases List.mem_append.mp hs with h1 | h1
    · obtain ⟨v, _, rfl⟩ := List.mem_map.mp h1
      exact movedFrom_ne_raw ty v
    · obtain ⟨v, _, rfl⟩ := List.mem_map.mp h1
      simp)
  have hl : ((vs.take j).map ty.movedFrom ++ (vs.drop j).map Slot.live).length = vs.length := by
    simp; omega
  rw [hl] at h
  simpa using h

example : Amc.uninitRelocN .cxx11 ⟨true, true, true, false⟩ ⟨false, false, false⟩ (some 1) 3 [.live 1, .live 2, .live 3, .live 4]
    [.raw, .raw, .raw, .live 9] = ⟨[.hollow, .live 2, .live 3, .live 4], [.raw, .raw, .raw, .live 9], .thrown⟩ := by decide

theorem C15_uninitReloc_spec (ty : Ty) (k : Option Nat) (vs : List α) (st dt : List (Slot α))
    (hk : throwAt k vs.length = none) :
    Spec.uninitReloc ty k vs.length (vs.map .live ++ st) (List.replicate vs.length .raw ++ dt)
      = ⟨List.replicate vs.length .raw ++ st, vs.map .live ++ dt, .done 0 vs.length⟩ := by
  simp [Spec.uninitReloc, allLive_shape, allRaw_shape, hk]

example : Spec.uninitReloc ⟨false, true, false⟩ none 1 [.live 1, .live 2] [.raw] = ⟨[.raw, .live 2], [.live 1], .done 0 1⟩ := by decide

theorem C15_uninitReloc_arms (ty : Ty) (k : Option Nat) (vs : List α) (st dt : List (Slot α))
    (hk : throwAt k vs.length = none) :
    Arm.relocInALoop true vs.length (vs.map .live ++ st) (List.replicate vs.length .raw ++ dt)
      = Spec.uninitReloc ty k vs.length (vs.map .live ++ st) (List.replicate vs.length .raw ++ dt)
    ∧ Arm.relocMemMove true vs.length (vs.map .live ++ st) (List.replicate vs.length .raw ++ dt)
      = Spec.uninitReloc ty k vs.length (vs.map .live ++ st) (List.replicate vs.length .raw ++ dt) := by
  rw [C15_uninitReloc_spec ty k vs st dt hk]
  refine ⟨?_, ?_⟩
  · simp [Arm.relocInALoop, unguarded2, loop2_bitReloc_ok]
  · cases vs with
    | nil => simp [Arm.relocMemMove]
    | cons v vs =>
      have := loop2_bitReloc_ok (v :: vs) st dt
      simp [Arm.relocMemMove, unguarded2, memmoveRelocN] at this ⊢
      simp [this]

example : Arm.relocInALoop true 1 [.live 1] [.raw] = Arm.relocMemMove true 1 [.live 1] [.raw]
    ∧ Arm.relocMemMove true 1 [.live 1] [.raw] = ⟨[.raw], [.live 1], .done 0 1⟩ := by decide

theorem C15_uninitReloc_nothrow (std : Std) (it : It) (ty : Ty) (k : Option Nat) (vs : List α) (st dt : List (Slot α))
    (hk : throwAt k vs.length = none) :
    Amc.uninitReloc std it ty k vs.length (vs.map .live ++ st) (List.replicate vs.length .raw ++ dt)
      = Spec.uninitReloc ty k vs.length (vs.map .live ++ st) (List.replicate vs.length .raw ++ dt) := by
  have A := C15_uninitReloc_arms ty k vs st dt hk
  unfold Amc.uninitReloc
  split
  · rw [C15_uninitReloc_spec ty k vs st dt hk]
    unfold Amc.relocDflt
    rw [C15_uninitMove_nothrow std it ty k vs st dt hk, C15_uninitMove_spec ty k vs st dt hk]
    have D := C15_destroy std (vs.map ty.movedFrom) st (by
      intro s hs
      simp at hs
      obtain ⟨v, _, rfl⟩ := hs
      exact movedFrom_ne_raw ty v)
    simp only [List.length_map] at D
    simp only [D.1, D.2]
  · rename_i h; obtain ⟨h1, _, _⟩ := mode_inALoop h; rw [h1]; exact A.1
  · rename_i h; obtain ⟨h1, _, _⟩ := mode_memMove h; rw [h1]; exact A.2

example : Amc.uninitReloc .cxx11 ⟨true, true, true, false⟩ ⟨false, true, false⟩ none 2 [.live 1, .live 2, .live 3] [.raw, .raw]
    = ⟨[.raw, .raw, .live 3], [.live 1, .live 2], .done 0 2⟩ := by decide

theorem C15_uninitReloc_throw (std : Std) (it : It) (ty : Ty) (pre : List α) (v : α) (post : List α) (st dt : List (Slot α))
    (hty : ty.trivCopy = false) (htr : ty.trivReloc = false) :
    Amc.uninitReloc std it ty (some pre.length) (pre.length + (post.length + 1)) ((pre ++ v :: post).map .live ++ st)
        (List.replicate (pre.length + (post.length + 1)) .raw ++ dt)
      = ⟨pre.map ty.movedFrom ++ ((v :: post).map .live ++ st),
         List.replicate (pre.length + (post.length + 1)) .raw ++ dt, .thrown⟩ := by
  unfold Amc.uninitReloc
  simp only [htr, mode_false]
  unfold Amc.relocDflt
  rw [C15_uninitMove_throw std it ty pre v post st dt hty]

example : Amc.uninitReloc .cxx14 ⟨false, false, true, false⟩ ⟨false, true, false⟩ none 2 [.live 1, .live 2] [.raw, .raw]
    = ⟨[.raw, .raw], [.live 1, .live 2], .done 0 2⟩ := by decide
example : Amc.uninitReloc .cxx14 ⟨false, false, true, false⟩ ⟨false, false, false⟩ (some 0) 2 [.live 1, .live 2] [.raw, .raw]
    = ⟨[.live 1, .live 2], [.raw, .raw], .thrown⟩ := by decide

/-- the memmove arms applied to a type that is not trivially relocatable are undefined behaviour -/
theorem C15_reloc_memmove_denied (v : α) (vs : List α) (st dt : List (Slot α)) :
    (Arm.relocNMemMove false (v :: vs).length ((v :: vs).map .live ++ st) (List.replicate (v :: vs).length .raw ++ dt)).out
      = .fault .bitwiseNTR
    ∧ (Arm.relocNInALoop false (v :: vs).length ((v :: vs).map .live ++ st) (List.replicate (v :: vs).length .raw ++ dt)).out
      = .fault .bitwiseNTR := by
  have h := loop2_bitReloc_denied v vs st dt vs.length
  constructor
  · simp only [Arm.relocNMemMove, memmoveRelocN, unguarded2, List.length_cons, if_true, gt_iff_lt, Nat.zero_lt_succ]
    rw [h]
  · simp only [Arm.relocNInALoop, unguarded2, List.length_cons]
    rw [h]

example : (Arm.relocNMemMove false 1 [.live 1] [(.raw : Slot Nat)]).out = .fault .bitwiseNTR := by decide

/-- (a) `relocate_at`: memmove for trivially relocatable types, else `construct_at(dest, move(*elem)); destroy_at(elem)` -/
theorem C15_relocateAt_nothrow (std : Std) (ty : Ty) (k : Option Nat) (v : α) (st dt : List (Slot α)) (hk : throwAt k 1 = none) :
    Amc.relocateAt std ty k (.live v :: st) (.raw :: dt) = Spec.relocateAt ty k (.live v :: st) (.raw :: dt)
    ∧ Spec.relocateAt ty k (.live v :: st) (.raw :: dt) = ⟨.raw :: st, .live v :: dt, .done 0 0⟩ := by
  have S : Spec.relocateAt ty k (.live v :: st) (.raw :: dt) = ⟨.raw :: st, .live v :: dt, .done 0 0⟩ := by
    simp [Spec.relocateAt, allLive, allRaw, Slot.isLive, Slot.isRaw, hk]
  refine ⟨?_, S⟩
  rw [S]
  unfold Amc.relocateAt
  cases hr : ty.trivReloc
  · simp only [Bool.false_eq_true, if_false]
    unfold Amc.relocateAtDflt
    rw [(C15_constructAtMove_nothrow std ty k v st dt hk).1, (C15_constructAtMove_nothrow std ty k v st dt hk).2]
    have D := C15_destroyAt std (ty.movedFrom v) st (movedFrom_ne_raw ty v)
    simp only [D.1, D.2]
  · simp [Arm.relocateAtMemMove, memmoveRelocN, unguarded2, loop2, bitRelocStep]

example : Amc.relocateAt .cxx14 ⟨false, true, false⟩ (some 9) [.live 4] [.raw] = ⟨[.raw], [.live 4], .done 0 0⟩ := by decide

/-- (b) the move constructor throws: source alive and unchanged, destination raw -/
theorem C15_relocateAt_throw (std : Std) (ty : Ty) (v : α) (st dt : List (Slot α))
    (hty : ty.trivCopy = false) (htr : ty.trivReloc = false) :
    Amc.relocateAt std ty (some 0) (.live v :: st) (.raw :: dt) = ⟨.live v :: st, .raw :: dt, .thrown⟩ := by
  unfold Amc.relocateAt
  simp only [htr, Bool.false_eq_true, if_false]
  unfold Amc.relocateAtDflt
  rw [C15_constructAtMove_throw std ty v st dt hty]

example : Amc.relocateAt .cxx11 ⟨false, true, false⟩ none [.live 4, .live 5] [.raw] = ⟨[.raw, .live 5], [.live 4], .done 0 0⟩ := by
  decide
example : Amc.relocateAt .cxx17 ⟨false, false, false⟩ none [.live 4] [.raw] = ⟨[.raw], [.live 4], .done 0 0⟩ := by decide
example : Amc.relocateAt .cxx11 ⟨false, false, false⟩ (some 0) [.live 4] [.raw] = ⟨[.live 4], [.raw], .thrown⟩ := by decide

end AmcVerif.Props.C15
