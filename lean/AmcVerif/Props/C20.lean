import AmcVerif.Model.Race
import AmcVerif.Gen.Footprints
/-! C20 — concurrent const access to one container is race-free.

Two halves.  (1) Theorems over the interleaving model of `Model/Race.lean`: operations without a write never race,
whatever the number of threads and the schedule, and every read returns the value of the sequential (initial)
state; threads that in addition mutate objects of their own (pairwise disjoint location sets, disjoint from the
shared object) do not race either.  (2) `C20_footprints`: the hypothesis "no write" holds for the write footprint
of every const member function (and of every copy constructor with respect to its source) as GENERATED from the
current headers by `translator/footprints.py`; there is no `mutable` member and no non-const `static` data member.
A cache written in a const member makes the generated table non-empty and this `decide` fail. -/
namespace AmcVerif.Props.C20
open AmcVerif.Race AmcVerif.Gen.Footprints

/-- what a thread may do in the scenario of C20: read the shared object, or access (read or write) an object it owns -/
def Allowed (shared : Loc → Prop) (own : Tid → Loc → Prop) (i : Tid) (a : Access) : Prop :=
  (a.isWrite = false ∧ shared a.loc) ∨ own i a.loc

/-- separation of the objects: private objects are pairwise disjoint and disjoint from the shared one -/
def Separated (shared : Loc → Prop) (own : Tid → Loc → Prop) : Prop :=
  (∀ i j l, i ≠ j → own i l → own j l → False) ∧ (∀ i l, own i l → shared l → False)

/-- General form: any number of threads, each reading the shared object and freely accessing its own objects;
    no interleaving (any merge of the threads' access sequences) contains two conflicting accesses. -/
theorem C20_readers_and_private_writers (shared : Loc → Prop) (own : Tid → Loc → Prop) (sep : Separated shared own)
    (progs : List Thread)
    (hall : ∀ k t, progs[k]? = some t → ∀ op ∈ t, ∀ a ∈ op, Allowed shared own k a)
    (tr : List Event) (hi : Interleaving (events progs) tr) : RaceFree tr := by
  have hev : ∀ e ∈ tr, Allowed shared own e.tid e.acc := by
    apply hi.forall_of_sources (fun e => Allowed shared own e.tid e.acc)
    intro evs hevs e he
    obtain ⟨k, t, hk, rfl⟩ := mem_tagFrom hevs
    simp only [List.mem_map, List.mem_flatten] at he
    obtain ⟨a, ⟨op, hop, ha⟩, rfl⟩ := he
    simpa using hall k t hk op hop a ha
  intro ⟨a, ha, b, hb, hne, hloc, hw⟩
  have pa := hev a ha
  have pb := hev b hb
  -- a writer owns the location; the other access is then neither a shared read nor in another private object
  have key : ∀ x y : Event, x.tid ≠ y.tid → x.acc.loc = y.acc.loc → x.acc.isWrite = true →
      Allowed shared own x.tid x.acc → Allowed shared own y.tid y.acc → False := by
    intro x y hxy hl hwx px py
    rcases px with ⟨hr, _⟩ | hox
    · rw [hwx] at hr; cases hr
    · rcases py with ⟨_, hs⟩ | hoy
      · exact sep.2 x.tid x.acc.loc hox (hl ▸ hs)
      · exact sep.1 x.tid y.tid x.acc.loc hxy hox (hl ▸ hoy)
  rcases hw with hw | hw
  · exact key a b hne hloc hw pa pb
  · exact key b a (Ne.symm hne) hloc.symm hw pb pa

/-- C20, readers only: if the access list of every operation contains no write, no interleaving of any number of
    threads contains a conflict (by induction over the merge, `Interleaving.mem_source`). -/
theorem C20_race_free (progs : List Thread) (hro : ∀ t ∈ progs, ∀ op ∈ t, Op.readOnly op)
    (tr : List Event) (hi : Interleaving (events progs) tr) : RaceFree tr := by
  apply C20_readers_and_private_writers (fun _ => True) (fun _ _ => False)
    ⟨fun _ _ _ _ h _ => h, fun _ _ h _ => h⟩ progs _ tr hi
  intro k t hk op hop a ha
  exact Or.inl ⟨hro t (List.mem_of_getElem? hk) op hop a ha, trivial⟩

/-- C20, writers on distinct objects: threads that access (read and write) only locations of their own object,
    the objects being pairwise disjoint, never conflict. -/
theorem C20_disjoint_writers (own : Tid → Loc → Prop) (hdis : ∀ i j l, i ≠ j → own i l → own j l → False)
    (progs : List Thread) (hown : ∀ k t, progs[k]? = some t → ∀ op ∈ t, ∀ a ∈ op, own k a.loc)
    (tr : List Event) (hi : Interleaving (events progs) tr) : RaceFree tr := by
  apply C20_readers_and_private_writers (fun _ => False) own ⟨hdis, fun _ _ _ h => h⟩ progs _ tr hi
  intro k t hk op hop a ha
  exact Or.inr (hown k t hk op hop a ha)

/-- a trace without write leaves the memory unchanged and every read returns the value of the initial state:
    each const operation returns what it returns when run alone (its sequential result) -/
theorem run_readOnly (m : Mem) (tr : List Event) (h : ∀ e ∈ tr, e.acc.isWrite = false) :
    run m tr = (m, tr.map fun e => (e.tid, e.acc.loc, m e.acc.loc)) := by
  induction tr with
  | nil => rfl
  | cons e tr ih =>
    have he : e.acc.isWrite = false := h e List.mem_cons_self
    have ih' := ih (fun x hx => h x (List.mem_cons_of_mem _ hx))
    simp [run, he, ih']

theorem C20_sequential_results (progs : List Thread) (hro : ∀ t ∈ progs, ∀ op ∈ t, Op.readOnly op)
    (m : Mem) (tr : List Event) (hi : Interleaving (events progs) tr) :
    run m tr = (m, tr.map fun e => (e.tid, e.acc.loc, m e.acc.loc)) := by
  apply run_readOnly
  apply hi.forall_of_sources (fun e => e.acc.isWrite = false)
  intro evs hevs e he
  obtain ⟨k, t, hk, rfl⟩ := mem_tagFrom hevs
  simp only [List.mem_map, List.mem_flatten] at he
  obtain ⟨a, ⟨op, hop, ha⟩, rfl⟩ := he
  exact hro t (List.mem_of_getElem? hk) op hop a ha

/-- The hypothesis of `C20_race_free` for the real code: in the table generated from the current headers, every
    const member function (and copy constructor, for its source operand) has an empty write footprint on non-local
    state, no class has a `mutable` data member, and no class has a `static` data member that is not const. -/
theorem C20_footprints :
    (constOps.all fun p => p.2.isEmpty) = true ∧ mutableMembers = [] ∧ staticMutableMembers = [] := by decide

set_option maxRecDepth 8192 in
/-- the generated table is not trivially empty (which members it must contain is checked by the driver) -/
theorem C20_table_nonempty : 100 ≤ constOps.length := by decide

/-! Non-vacuity. -/

/-- two readers of a two-location object: a concrete interleaving exists, and it is race-free -/
example : Interleaving (events [[[rd 0, rd 1]], [[rd 1], [rd 0]]])
    [⟨0, rd 0⟩, ⟨1, rd 1⟩, ⟨1, rd 0⟩, ⟨0, rd 1⟩] := by
  refine .step _ 0 _ [⟨0, rd 1⟩] _ rfl ?_
  refine .step _ 1 _ [⟨1, rd 0⟩] _ rfl ?_
  refine .step _ 1 _ [] _ rfl ?_
  refine .step _ 0 _ [] _ rfl ?_
  exact .done _ (by decide)

example : RaceFree [⟨0, rd 0⟩, ⟨1, rd 1⟩, ⟨1, rd 0⟩, ⟨0, rd 1⟩] :=
  C20_race_free [[[rd 0, rd 1]], [[rd 1], [rd 0]]] (by decide) _ (by
    refine .step _ 0 _ [⟨0, rd 1⟩] _ rfl ?_
    refine .step _ 1 _ [⟨1, rd 0⟩] _ rfl ?_
    refine .step _ 1 _ [] _ rfl ?_
    refine .step _ 0 _ [] _ rfl ?_
    exact .done _ (by decide))

/-- the model does see races: a const operation that writes a cache (location 7) conflicts with a second reader -/
example : Interleaving (events [[[rd 0, wr 7 1]], [[rd 0, wr 7 2]]])
    [⟨0, rd 0⟩, ⟨1, rd 0⟩, ⟨0, wr 7 1⟩, ⟨1, wr 7 2⟩] := by
  refine .step _ 0 _ [⟨0, wr 7 1⟩] _ rfl ?_
  refine .step _ 1 _ [⟨1, wr 7 2⟩] _ rfl ?_
  refine .step _ 0 _ [] _ rfl ?_
  refine .step _ 1 _ [] _ rfl ?_
  exact .done _ (by decide)

example : HasConflict [⟨0, rd 0⟩, ⟨1, rd 0⟩, ⟨0, wr 7 1⟩, ⟨1, wr 7 2⟩] :=
  ⟨⟨0, wr 7 1⟩, by decide, ⟨1, wr 7 2⟩, by decide, by decide⟩

/-- and the result of a read then depends on the schedule -/
example : (run (fun _ => 0) [⟨0, wr 7 1⟩, ⟨1, rd 7⟩]).2 ≠ (run (fun _ => 0) [⟨1, rd 7⟩, ⟨0, wr 7 1⟩]).2 := by decide

/-- a footprint table with one write falsifies the statement of `C20_footprints` (what a cache in `find` produces) -/
example : ¬ (([("amc::FlatSet::find", ["assignment '=' targeting *this"]), ("amc::FlatSet::size", [])] :
    List (String × List String)).all fun p => p.2.isEmpty) = true := by decide

end AmcVerif.Props.C20
