import AmcVerif.Props.C04c
import AmcVerif.Props.C11
import AmcVerif.Props.C12
import AmcVerif.Lemmas.SmallSetRefine
/-! C04 (refinement) — **every operation history of a SmallSet is a history of a `std::set`**, for the members as regenerated from
`smallset.hpp` on every run (`Gen/SmallSetGen.lean`).

The specification is as short as it can be: a `std::set` is a strictly increasing list `a` (by the comparator of the set), `insert`
is `insertVal` (position by lower bound, no-op when an equivalent element is there), `erase(key)` is `eraseKey` (removes the one
equivalent element, reports 0 or 1), `clear` is `[]`.  The abstraction relation `Rep s a` says: `a` is strictly increasing and holds
exactly the elements of the SmallSet `s` (a permutation of its iteration sequence — the inline state keeps insertion order).  For a
set that satisfies the invariant `a` is unique and is the sequence `operator==` / `operator<` compare (`Rep_unique`).

`C04_refine_insert`, `C04_refine_erase`, `C04_refine_clear`: each generated member is defined (no undefined behaviour), keeps the
invariant, returns the specification's answer (insertion boolean, erase count) and commutes with the abstraction — in the inline
state, in the large state, and when the call crosses from one to the other (`insert` at size N grows; `erase` of the last element of
a large set and `clear` fall back to the inline state).  `C04_refine_erase_at`: `erase(iterator)` (both overloads) at any valid
position refines `std::set::erase` of the designated element.  `C04_refines_history`: by induction, the same for every finite sequence of
these operations from every state that satisfies the invariant, `C04_refines_from_empty`: from the empty set — this is the clause
"growth beyond N, draining back to empty and refilling" of the property, for all histories and all N at once, which
`C04_history` (insertions only) and the per-operation theorems of C04b/C04c did not state.  Membership, `size()` and `empty()` after
any history follow (`C04_refines_observe`); `C04_refines_compare`: two sets with their own comparator objects, each reached by its own
history, are compared by the generated `==` / `!=` / `<` / `>=` as the two `std::set`s of those histories are. -/
namespace AmcVerif.Props.C04
open AmcVerif AmcVerif.FS AmcVerif.Sets AmcVerif.Bridge.SmallSet
variable {α : Type} {lt : α → α → Bool}

/-- the abstraction relation: `a` is the `std::set` (strictly increasing list) that holds the elements of the SmallSet `s` -/
def Rep (lt : α → α → Bool) (s : SSet α) (a : List α) : Prop := Sorted lt a ∧ a.Perm s.elems

/-- the abstract value is unique: it is the sequence the comparison operators walk -/
theorem Rep_unique (hswo : SWO lt) (N : Nat) (s : SSet α) (h : s.Inv lt N) (a : List α) (hr : Rep lt s a) :
    a = sortedElems lt s := (sortedElems_unique hswo N s h a hr.1 hr.2).symm

/-- and it exists for every set that satisfies the invariant -/
theorem Rep_exists (hswo : SWO lt) (N : Nat) (s : SSet α) (h : s.Inv lt N) : Rep lt s (sortedElems lt s) :=
  sortedElems_spec hswo N s h

theorem Rep_empty : Rep lt (⟨[], []⟩ : SSet α) [] := ⟨by simp [Sorted], by simp [SSet.elems]⟩

/-- `insert(const T&)` as generated from the source refines `std::set::insert` -/
theorem C04_refine_insert (hswo : SWO lt) (N : Nat) (s : SSet α) (h : s.Inv lt N) (a : List α) (hr : Rep lt s a) (v : α) :
    ∃ r, Gen.SmallSet.insert lt N s v = some r ∧ r.1.Inv lt N ∧ r.2.1.2 = (insertVal lt a v).2.2
      ∧ Rep lt r.1 (insertVal lt a v).1 := by
  refine ⟨_, insert_eq lt N s v h.excl, insert_inv hswo N s h v, ?_⟩
  show (s.insert lt N v).2.2.1 = (insertVal lt a v).2.2 ∧ Rep lt (s.insert lt N v).1 (insertVal lt a v).1
  have hS := insert_not_inserted_iff hswo N s h v
  have hA := insertVal_not_inserted_iff hswo a hr.1 v
  have hE : HasEquiv lt a v ↔ HasEquiv lt s.elems v := hasEquiv_perm hr.2 v
  have hel := insert_elems hswo N s h v
  have hflag : (s.insert lt N v).2.2.1 = (insertVal lt a v).2.2 := by
    cases h1 : (s.insert lt N v).2.2.1 <;> cases h2 : (insertVal lt a v).2.2
    · rfl
    · have := hA.mpr (hE.mpr (hS.mp h1)); rw [h2] at this; cases this
    · have := hS.mpr (hE.mp (hA.mp h2)); rw [h1] at this; cases this
    · rfl
  refine ⟨hflag, insertVal_sorted hswo a hr.1 v, ?_⟩
  cases h2 : (insertVal lt a v).2.2 with
  | true =>
    have h1 : (s.insert lt N v).2.2.1 = true := by rw [hflag, h2]
    exact ((insertVal_perm a v h2).trans (List.Perm.cons v hr.2)).trans (hel.1 h1).symm
  | false =>
    have h1 : (s.insert lt N v).2.2.1 = false := by rw [hflag, h2]
    rw [insertVal_noop a v h2, hel.2 h1]
    exact hr.2

/-- `erase(const key_type&)` as generated from the source refines `std::set::erase(key)` -/
theorem C04_refine_erase (hswo : SWO lt) (N : Nat) (s : SSet α) (h : s.Inv lt N) (a : List α) (hr : Rep lt s a) (k : α) :
    ∃ r, Gen.SmallSet.erase lt N s k = some r ∧ r.1.Inv lt N ∧ r.2.1 = (eraseKey lt a k).2.1
      ∧ Rep lt r.1 (eraseKey lt a k).1 := by
  refine ⟨_, erase_eq lt N s k h.excl, ?_⟩
  show (s.eraseKey lt k).1.Inv lt N ∧ (s.eraseKey lt k).2 = (eraseKey lt a k).2.1 ∧ Rep lt (s.eraseKey lt k).1 (eraseKey lt a k).1
  obtain ⟨hinv, hS⟩ := eraseKeyS_spec hswo N s h k
  have hA := eraseKey_spec hswo a hr.1 k
  have hE : HasEquiv lt a k ↔ HasEquiv lt s.elems k := hasEquiv_perm hr.2 k
  have hsort := AmcVerif.FSPool.eraseKey_sorted' a hr.1 k
  refine ⟨hinv, ?_⟩
  rcases hS with ⟨c1, y, hy, p1⟩ | ⟨c0, hno, e0⟩
  · rcases hA with ⟨d1, y', hy', q1⟩ | ⟨_, hno', _⟩
    · refine ⟨by rw [c1, d1], hsort, ?_⟩
      exact (perm_erase_unique hswo (elems_nodup N s h) p1 (hr.2.symm.trans q1) hy hy').symm
    · exact absurd (hE.mpr ⟨y, p1.mem_iff.mpr List.mem_cons_self, hy⟩) hno'
  · rcases hA with ⟨_, y', hy', q1⟩ | ⟨d0, _, f0⟩
    · exact absurd (hE.mp ⟨y', q1.mem_iff.mpr List.mem_cons_self, hy'⟩) hno
    · refine ⟨by rw [c0, d0], hsort, ?_⟩
      rw [f0, e0]; exact hr.2

/-- `clear()` as generated from the source: the empty set, back in the inline state -/
theorem C04_refine_clear (N : Nat) (s : SSet α) (h : s.Inv lt N) :
    ∃ r, Gen.SmallSet.clear lt N s = some r ∧ r.1.Inv lt N ∧ Rep lt r.1 [] :=
  ⟨_, clear_eq lt N s h.excl, ⟨fun _ => rfl, by simp, by simp [NoEquivDup], by simp [Sorted]⟩, Rep_empty⟩

/-- `erase(const_iterator)` (the pointer overload used by a FlatSet backing and the variant overload used by a `std::set` backing)
    as generated from the source, at ANY valid position, refines `std::set::erase` of the designated element `x`: the `std::set`
    loses exactly `x` (its `erase(x)` reports 1), in either state, also when the call removes the last element of a large set
    and the set falls back to the inline state -/
theorem C04_refine_erase_at (hswo : SWO lt) (N : Nat) (s : SSet α) (h : s.Inv lt N) (a : List α) (hr : Rep lt s a) (i : Nat)
    (hi : i < s.elems.length) :
    ∃ r x, Gen.SmallSet.erase_at_ptr lt N s (s.isSmall, i) = some r ∧ Gen.SmallSet.erase_at_var lt N s (s.isSmall, i) = some r
      ∧ s.elems[i]? = some x ∧ r.1.Inv lt N ∧ (eraseKey lt a x).2.1 = 1 ∧ Rep lt r.1 (eraseKey lt a x).1 := by
  obtain ⟨x, hx⟩ : ∃ x, s.elems[i]? = some x := ⟨s.elems[i], by simp [hi]⟩
  refine ⟨eraseAtR s i, x, erase_at_ptr_eq lt N s h.excl (s.isSmall, i) rfl hi, erase_at_var_eq lt N s h.excl (s.isSmall, i) rfl hi,
    hx, eraseIdx_inv N s h i, ?_⟩
  show (eraseKey lt a x).2.1 = 1 ∧ Rep lt (s.eraseIdx i) (eraseKey lt a x).1
  have hel : (s.eraseIdx i).elems = s.elems.eraseIdx i := C11.C11_erase_elems N s h i
  have p1 : s.elems.Perm (x :: (s.eraseIdx i).elems) := by rw [hel]; exact eraseIdx_perm s.elems i x hx
  have hxx : Equiv lt x x := ⟨hswo.irrefl x, hswo.irrefl x⟩
  have hmem : x ∈ a := hr.2.mem_iff.mpr (List.mem_of_getElem? hx)
  have hsort := AmcVerif.FSPool.eraseKey_sorted' a hr.1 x
  rcases eraseKey_spec hswo a hr.1 x with ⟨d1, y', hy', q1⟩ | ⟨_, hno, _⟩
  · exact ⟨d1, hsort, (perm_erase_unique hswo (elems_nodup N s h) p1 (hr.2.symm.trans q1) hxx hy').symm⟩
  · exact absurd ⟨x, hmem, hxx⟩ hno

/-- `C04_refine_insert` read on the hand-written model (`Bridge/SmallSetBridge.insert_eq` ties it to the generated member) -/
theorem insert_rep (hswo : SWO lt) (N : Nat) (s : SSet α) (h : s.Inv lt N) (a : List α) (hr : Rep lt s a) (v : α) :
    (s.insert lt N v).1.Inv lt N ∧ Rep lt (s.insert lt N v).1 (insertVal lt a v).1 := by
  obtain ⟨r, hg, hi, _, hrep⟩ := C04_refine_insert hswo N s h a hr v
  rw [insert_eq lt N s v h.excl] at hg
  have : r = insertR lt N s v := (Option.some.inj hg).symm
  subst this
  exact ⟨hi, hrep⟩

theorem insertRange_rep (hswo : SWO lt) (N : Nat) : ∀ (vs : List α) (s : SSet α) (a : List α), s.Inv lt N → Rep lt s a →
    (s.insertRange lt N vs).Inv lt N ∧ Rep lt (s.insertRange lt N vs) (insertAll lt a vs)
  | [], s, a, h, hr => by simpa [SSet.insertRange, insertAll] using ⟨h, hr⟩
  | v :: vs, s, a, h, hr => by
    obtain ⟨h1, r1⟩ := insert_rep hswo N s h a hr v
    have := insertRange_rep hswo N vs (s.insert lt N v).1 (insertVal lt a v).1 h1 r1
    simpa [SSet.insertRange, insertAll] using this

/-- `insert(first, last)` as generated from the source (inline scan while the set is inline, the rest of the range handed to the
    backing set in one call) refines inserting the range element by element into the `std::set` -/
theorem C04_refine_insert_range (hswo : SWO lt) (N : Nat) (s : SSet α) (h : s.Inv lt N) (a : List α) (hr : Rep lt s a)
    (vs : List α) :
    ∃ r, Gen.SmallSet.insert_range lt N s vs = some r ∧ r.1.Inv lt N ∧ Rep lt r.1 (insertAll lt a vs) := by
  obtain ⟨⟨r, hg, he, _⟩, _⟩ := C04_gen_history hswo N s h vs
  obtain ⟨hi, hrep⟩ := insertRange_rep hswo N vs s a h hr
  exact ⟨r, hg, he ▸ hi, he ▸ hrep⟩

/-! ### histories -/

inductive SOp (α : Type) where
  | ins (v : α) | del (k : α) | clr | insR (vs : List α)

/-- what the caller observes: the boolean of `insert`, the count of `erase(key)`, nothing for `clear` -/
inductive SOut where
  | flag (b : Bool) | cnt (n : Nat) | unit
deriving DecidableEq, Repr

/-- one step of the code as it is now (generated members; `none` = undefined behaviour reached) -/
def stepG (lt : α → α → Bool) (N : Nat) (s : SSet α) : SOp α → Option (SSet α × SOut)
  | .ins v => (Gen.SmallSet.insert lt N s v).map (fun r => (r.1, SOut.flag r.2.1.2))
  | .del k => (Gen.SmallSet.erase lt N s k).map (fun r => (r.1, SOut.cnt r.2.1))
  | .clr => (Gen.SmallSet.clear lt N s).map (fun r => (r.1, SOut.unit))
  | .insR vs => (Gen.SmallSet.insert_range lt N s vs).map (fun r => (r.1, SOut.unit))

/-- one step of the specification: a `std::set` as a strictly increasing list -/
def stepA (lt : α → α → Bool) (a : List α) : SOp α → List α × SOut
  | .ins v => ((insertVal lt a v).1, SOut.flag (insertVal lt a v).2.2)
  | .del k => ((eraseKey lt a k).1, SOut.cnt (eraseKey lt a k).2.1)
  | .clr => ([], SOut.unit)
  | .insR vs => (insertAll lt a vs, SOut.unit)

def runG (lt : α → α → Bool) (N : Nat) : SSet α → List (SOp α) → Option (SSet α × List SOut)
  | s, [] => some (s, [])
  | s, op :: ops =>
    match stepG lt N s op with
    | none => none
    | some (s', o) => (runG lt N s' ops).map (fun r => (r.1, o :: r.2))

def runA (lt : α → α → Bool) : List α → List (SOp α) → List α × List SOut
  | a, [] => (a, [])
  | a, op :: ops => ((runA lt (stepA lt a op).1 ops).1, (stepA lt a op).2 :: (runA lt (stepA lt a op).1 ops).2)

theorem C04_refines_step (hswo : SWO lt) (N : Nat) (s : SSet α) (h : s.Inv lt N) (a : List α) (hr : Rep lt s a) (op : SOp α) :
    ∃ s' o, stepG lt N s op = some (s', o) ∧ s'.Inv lt N ∧ o = (stepA lt a op).2 ∧ Rep lt s' (stepA lt a op).1 := by
  cases op with
  | ins v =>
    obtain ⟨r, hg, hi, hf, hrep⟩ := C04_refine_insert hswo N s h a hr v
    exact ⟨r.1, SOut.flag r.2.1.2, by simp [stepG, hg], hi, by simp [stepA, hf], hrep⟩
  | del k =>
    obtain ⟨r, hg, hi, hf, hrep⟩ := C04_refine_erase hswo N s h a hr k
    exact ⟨r.1, SOut.cnt r.2.1, by simp [stepG, hg], hi, by simp [stepA, hf], hrep⟩
  | clr =>
    obtain ⟨r, hg, hi, hrep⟩ := C04_refine_clear (lt := lt) N s h
    exact ⟨r.1, SOut.unit, by simp [stepG, hg], hi, rfl, hrep⟩
  | insR vs =>
    obtain ⟨r, hg, hi, hrep⟩ := C04_refine_insert_range hswo N s h a hr vs
    exact ⟨r.1, SOut.unit, by simp [stepG, hg], hi, rfl, hrep⟩

/-- **every history**: from any state that satisfies the invariant and any `std::set` holding the same elements, every finite
    sequence of `insert` / `erase(key)` / `clear` / `insert(first, last)` runs without undefined behaviour, gives the caller exactly the answers the
    `std::set` gives, and ends in a state that satisfies the invariant and still holds the same elements as the `std::set` -/
theorem C04_refines_history (hswo : SWO lt) (N : Nat) (ops : List (SOp α)) :
    ∀ (s : SSet α) (a : List α), s.Inv lt N → Rep lt s a →
      ∃ s' outs, runG lt N s ops = some (s', outs) ∧ s'.Inv lt N ∧ outs = (runA lt a ops).2 ∧ Rep lt s' (runA lt a ops).1 := by
  induction ops with
  | nil => intro s a h hr; exact ⟨s, [], rfl, h, rfl, hr⟩
  | cons op ops ih =>
    intro s a h hr
    obtain ⟨s1, o, hg, h1, ho, hr1⟩ := C04_refines_step hswo N s h a hr op
    obtain ⟨s2, outs, hg2, h2, ho2, hr2⟩ := ih s1 _ h1 hr1
    refine ⟨s2, o :: outs, ?_, h2, ?_, hr2⟩
    · simp [runG, hg, hg2]
    · simp [runA, ho, ho2]

/-- from the empty set, for every inline capacity `N` (0 included) -/
theorem C04_refines_from_empty (hswo : SWO lt) (N : Nat) (ops : List (SOp α)) :
    ∃ s' outs, runG lt N ⟨[], []⟩ ops = some (s', outs) ∧ s'.Inv lt N ∧ outs = (runA lt [] ops).2
      ∧ Rep lt s' (runA lt [] ops).1 :=
  C04_refines_history hswo N ops ⟨[], []⟩ [] ⟨fun _ => rfl, by simp, by simp [NoEquivDup], by simp [Sorted]⟩ Rep_empty

/-- what can be observed of the final state: `size()`, `empty()`, membership and the sequence the comparison operators walk are
    those of the `std::set` -/
theorem C04_refines_observe (hswo : SWO lt) (N : Nat) (s : SSet α) (h : s.Inv lt N) (a : List α) (hr : Rep lt s a) :
    Gen.SmallSet.size lt N s = some (a.length, 0) ∧ (∀ x, x ∈ s.elems ↔ x ∈ a) ∧ sortedElems lt s = a
      ∧ (∀ k, (∃ r, Gen.SmallSet.contains lt N s k = some r ∧ (r.1 = true ↔ HasEquiv lt a k))) := by
  refine ⟨?_, fun x => hr.2.mem_iff.symm, (Rep_unique hswo N s h a hr).symm, ?_⟩
  · rw [size_eq]; simp [SSet.size, hr.2.length_eq]
  · intro k
    obtain ⟨r, hg, hiff⟩ := C04_gen_contains hswo N s h k
    exact ⟨r, hg, hiff.trans (hasEquiv_perm hr.2 k).symm⟩

/-- **comparison results after any two histories**: two SmallSets, each with its OWN comparator object (`lt`, `lt_o`), each
    reached by its own history from the empty set, are compared by the generated `operator==` / `!=` / `<` / `>=` exactly as the two
    `std::set`s those histories produce are compared (element-wise `==`, lexicographic `<` of the two strictly increasing
    sequences) — whatever states (inline, large, drained) the two SmallSets ended in -/
theorem C04_refines_compare {lt_o : α → α → Bool} (hswo : SWO lt) (hswo_o : SWO lt_o) (N : Nat) (ops ops_o : List (SOp α))
    (eqT ltT : α → α → Bool) :
    ∃ s outs o outs_o, runG lt N ⟨[], []⟩ ops = some (s, outs) ∧ runG lt_o N ⟨[], []⟩ ops_o = some (o, outs_o)
      ∧ Gen.SmallSet.op_eq lt N s lt_o o eqT = some (Gen.SmallSet.vecEq eqT (runA lt [] ops).1 (runA lt_o [] ops_o).1, 0)
      ∧ Gen.SmallSet.op_ne lt N s lt_o o eqT = some (!Gen.SmallSet.vecEq eqT (runA lt [] ops).1 (runA lt_o [] ops_o).1, 0)
      ∧ Gen.SmallSet.op_lt lt N s lt_o o ltT = some (Gen.SmallSet.vecLess ltT (runA lt [] ops).1 (runA lt_o [] ops_o).1, 0)
      ∧ Gen.SmallSet.op_ge lt N s lt_o o ltT = some (!Gen.SmallSet.vecLess ltT (runA lt [] ops).1 (runA lt_o [] ops_o).1, 0) := by
  obtain ⟨s, outs, hg, hinv, _, hrep⟩ := C04_refines_from_empty hswo N ops
  obtain ⟨o, outs_o, hg_o, hinv_o, _, hrep_o⟩ := C04_refines_from_empty hswo_o N ops_o
  obtain ⟨e1, e2⟩ := C04_gen_eq_repr hswo hswo_o N s o hinv hinv_o eqT _ _ hrep.1 hrep.2 hrep_o.1 hrep_o.2
  refine ⟨s, outs, o, outs_o, hg, hg_o, e1, e2, ?_, ?_⟩
  · rw [op_lt_eq]; simp only [ltS, ← Rep_unique hswo N s hinv _ hrep, ← Rep_unique hswo_o N o hinv_o _ hrep_o]
  · rw [op_ge_eq]; simp only [ltS, ← Rep_unique hswo N s hinv _ hrep, ← Rep_unique hswo_o N o hinv_o _ hrep_o]

/-! ### the hypotheses are satisfiable and the run is not trivial: N = 2, grow at the third insertion, drain to empty (back to the
inline state), refill -/
def exOps : List (SOp Nat) :=
  [.ins 3, .ins 1, .ins 3, .ins 2, .ins 9, .del 1, .del 7, .del 3, .del 2, .del 9, .ins 5, .clr, .ins 4, .insR [8, 4, 6, 8]]

def exLt : Nat → Nat → Bool := fun a b => decide (a < b)
theorem exLt_swo : SWO exLt := C12.natLt_swo

/-- the premises are satisfiable: `<` on Nat is a strict weak order, the empty set satisfies the invariant for every N; the theorem
    instantiates on this history (what the two runs compute is exercised by the correspondence check, which drives the same model
    functions through `amcdriver` against the real SmallSet) -/
example : ∃ s' outs, runG exLt 2 ⟨[], []⟩ exOps = some (s', outs) ∧ s'.Inv exLt 2 ∧ outs = (runA exLt [] exOps).2
    ∧ Rep exLt s' (runA exLt [] exOps).1 := C04_refines_from_empty exLt_swo 2 exOps

end AmcVerif.Props.C04
