import AmcVerif.Lemmas.VecStable
import AmcVerif.Bridge.VecLawsU32
/-! C07 (container level) — "`capacity()` never shrinks except by `shrink_to_fit` / move / swap; an operation whose result
fits the current capacity does not reallocate: `begin()` and `capacity()` are unchanged and no allocator call is made".

`Props/C07.lean` proves this for the size/capacity words alone. Here it is proved for the public operations of the container
model, on the slot-level memory, for every flavour providing `VecLaws` and instantiated for the generated members (U8, U32):
the 23 operation kinds of `IsVecOp` (as data: `VOp`, `Lemmas/VecStable.lean`), single operations and histories, for EVERY
outcome (normal return or C++ exception; there is never a lifetime fault). `shrink_to_fit` and the two-container moves / swaps
are outside the catalogue, as the property allows.

The capacity an operation needs is `k.need xs = max (length of its result) (the n of reserve(n))`. -/
namespace AmcVerif.Props.C07
open AmcVerif
variable {α : Type} {cfg : Cfg} {Ok : VB → Prop}

/-- what "no reallocation" means on the memory: same `begin()`, same `capacity()`, no block identifier taken (no `grow` was
    attempted), the same heap blocks exist with the same allocation counts, and the allocator was not called -/
def NoRealloc (cfg : Cfg) (m m' : Mem α) (w w' : VB) : Prop :=
  cfg.ops.begin w' = cfg.ops.begin w ∧ cfg.ops.capacity w' = cfg.ops.capacity w ∧ m'.nextId = m.nextId ∧
  (∀ id, (m'.buf (.blk id)).isSome = (m.buf (.blk id)).isSome ∧ m'.cnt id = m.cnt id) ∧
  m'.ev.al = m.ev.al ∧ m'.ev.de = m.ev.de ∧ m'.ev.re = m.ev.re

theorem NoRealloc.ofStable {c : Nat} {m m' : Mem α} {w w' : VB} (hb : cfg.ops.begin w' = cfg.ops.begin w)
    (hc : cfg.ops.capacity w' = cfg.ops.capacity w) (h : Stable cfg c m m') : NoRealloc cfg m m' w w' :=
  ⟨hb, hc, h.nid, fun id => ⟨h.blk id, h.cnt id⟩, h.al, h.de, h.re⟩

/-- the buffer has not moved -/
theorem NoRealloc.region {m m' : Mem α} {w w' : VB} (h : NoRealloc cfg m m' w w') (c : Nat) :
    regionOf cfg c w' = regionOf cfg c w := regionOf_congr cfg c w w' h.1

/-- one operation: the single-step contract (`OpStepPost`: the `std::vector` result, or a C++ exception with the old / a valid
    content; never a lifetime fault; frame; no leak), and for every outcome the container is valid in words `w'` with
    `capacity w ≤ capacity w'`; if moreover the capacity the operation needs is available (or the flavour is static), nothing
    was reallocated -/
theorem C07_op_storage (L : VecLaws α cfg Ok) (k : VOp α) (m : Mem α) (c : Nat) (xs : List α) (w : VB)
    (hw : VRepW cfg Ok c m xs w) (hi : HInv m) (hpre : k.spec.pre cfg xs) (hcat : k.spec.nonTC = true → m.cat ≠ .tc) :
    Post (k.spec.run cfg c) m (fun res m' => OpStepPost cfg Ok c m w xs k.spec res m' ∧
      ∃ ys w', VRepW cfg Ok c m' ys w' ∧ cfg.ops.capacity w ≤ cfg.ops.capacity w' ∧
        ((cfg.dynamic = false ∨ k.need xs ≤ cfg.ops.capacity w) → NoRealloc cfg m m' w w')) := by
  refine Post.mono (k.step L m c xs w hw hi hpre hcat) ?_
  rintro res m' ⟨hstep, hev⟩
  refine ⟨hstep, ?_⟩
  have hv : ∃ ys, VRep cfg Ok c m' ys := by
    rcases hstep.1 with ⟨_, hv⟩ | ⟨_, ys, _, hv, _⟩
    · exact ⟨_, hv⟩
    · exact ⟨ys, hv⟩
  obtain ⟨ys, hv⟩ := hv
  obtain ⟨w', hw', hmono, hst⟩ := hev.rep hw.ws hv
  exact ⟨ys, w', hw', hmono, fun hr => NoRealloc.ofStable (hst hr).1 (hst hr).2.1 (hst hr).2.2⟩

/-- an operation whose needs fit the current capacity does not reallocate, whatever its outcome -/
theorem C07_no_realloc_when_fits (L : VecLaws α cfg Ok) (k : VOp α) (m : Mem α) (c : Nat) (xs : List α) (w : VB)
    (hw : VRepW cfg Ok c m xs w) (hi : HInv m) (hpre : k.spec.pre cfg xs) (hcat : k.spec.nonTC = true → m.cat ≠ .tc)
    (hfit : k.need xs ≤ cfg.ops.capacity w) :
    Post (k.spec.run cfg c) m (fun res m' => OpStepPost cfg Ok c m w xs k.spec res m' ∧
      ∃ ys w', VRepW cfg Ok c m' ys w' ∧ NoRealloc cfg m m' w w') :=
  Post.mono (C07_op_storage L k m c xs w hw hi hpre hcat) (fun _ _ ⟨hs, ys, w', hw', _, hn⟩ => ⟨hs, ys, w', hw', hn (Or.inr hfit)⟩)

/-- `capacity()` does not decrease in any outcome of any operation of the catalogue -/
theorem C07_capacity_monotone (L : VecLaws α cfg Ok) (k : VOp α) (m : Mem α) (c : Nat) (xs : List α) (w : VB)
    (hw : VRepW cfg Ok c m xs w) (hi : HInv m) (hpre : k.spec.pre cfg xs) (hcat : k.spec.nonTC = true → m.cat ≠ .tc) :
    Post (k.spec.run cfg c) m (fun res m' => OpStepPost cfg Ok c m w xs k.spec res m' ∧
      ∃ ys w', VRepW cfg Ok c m' ys w' ∧ cfg.ops.capacity w ≤ cfg.ops.capacity w') :=
  Post.mono (C07_op_storage L k m c xs w hw hi hpre hcat) (fun _ _ ⟨hs, ys, w', hw', hm, _⟩ => ⟨hs, ys, w', hw', hm⟩)

/-- the same for an operation given as a member of `IsVecOp` -/
theorem C07_capacity_monotone_isVecOp (L : VecLaws α cfg Ok) {o : OpSpec α} (ho : IsVecOp cfg o) (m : Mem α) (c : Nat)
    (xs : List α) (w : VB) (hw : VRepW cfg Ok c m xs w) (hi : HInv m) (hpre : o.pre cfg xs) (hcat : o.nonTC = true → m.cat ≠ .tc) :
    Post (o.run cfg c) m (fun res m' => OpStepPost cfg Ok c m w xs o res m' ∧
      ∃ ys w', VRepW cfg Ok c m' ys w' ∧ cfg.ops.capacity w ≤ cfg.ops.capacity w') := by
  obtain ⟨k, rfl⟩ := ho.exists_vop
  exact C07_capacity_monotone L k m c xs w hw hi hpre hcat

/-- `reserve(n)`: the contents are unchanged; nothing is reallocated when `n ≤ capacity()`; after a normal return
    `capacity() ≥ n` -/
theorem C07_reserve_container (L : VecLaws α cfg Ok) (m : Mem α) (c : Nat) (xs : List α) (w : VB) (n : Nat)
    (h : VRepW cfg Ok c m xs w) (hf : Fresh m) (hn : n ≤ cfg.ops.kMax) :
    Post (reserve cfg c n) m (fun res m' => StablePost cfg c m w n (StrongPost cfg Ok c m w xs xs ()) res m' ∧
      (res = .ok () → ∃ w', VRepW cfg Ok c m' xs w' ∧ n ≤ cfg.ops.capacity w')) := reserve_postS L m c xs w n h hf hn

/-- `v.push_back(x)` where `x` may be an element of `v` itself: no reallocation while `size() < capacity()` -/
theorem C07_push_back_no_realloc (L : VecLaws α cfg Ok) (m : Mem α) (c : Nat) (xs : List α) (w : VB) (ref : Ref α) (v : α)
    (h : VRepW cfg Ok c m xs w) (hf : Fresh m) (hv : RefOK cfg c m w xs ref v) (hroom : xs.length < cfg.ops.capacity w) :
    Post (pushBackCopy cfg c ref) m (fun res m' => StrongPost cfg Ok c m w xs (xs ++ [v]) () res m' ∧ Stable cfg c m m') :=
  Post.mono (pushBackCopy_postS L m c xs w ref v h hf hv) (fun _ _ hq => ⟨hq.1, hq.2.stable (Or.inr hroom)⟩)

/-- histories: no lifetime fault, a final state the `std::vector` semantics allows, `capacity()` at the end is at least the
    initial one — whatever throws along the way -/
theorem C07_history_capacity_monotone (L : VecLaws α cfg Ok) (c : Nat) (ks : List (VOp α)) (m : Mem α) (xs : List α) (w : VB)
    (hw : VRepW cfg Ok c m xs w) (hi : HInv m) (hs : Safe cfg (ks.map VOp.spec) xs)
    (hcat : ∀ k ∈ ks, k.spec.nonTC = true → m.cat ≠ .tc) :
    Post (runHist cfg c (ks.map VOp.spec)) m (fun res m' => res = .ok () ∧ ∃ ys w', Trace cfg (ks.map VOp.spec) xs ys ∧
      VRepW cfg Ok c m' ys w' ∧ HInv m' ∧ m'.cat = m.cat ∧ cfg.ops.capacity w ≤ cfg.ops.capacity w') :=
  hist_mono L c ks m xs w hw hi hs hcat

/-- histories all of whose operations, along every outcome, need at most the initial capacity: at the end (hence, applied to
    the prefixes, at every point) `begin()` and `capacity()` are what they were and no block was created or freed, no
    allocator call made -/
theorem C07_history_no_realloc (L : VecLaws α cfg Ok) (c : Nat) (ks : List (VOp α)) (m : Mem α) (xs : List α) (w : VB)
    (hw : VRepW cfg Ok c m xs w) (hi : HInv m) (hs : Safe cfg (ks.map VOp.spec) xs)
    (hcat : ∀ k ∈ ks, k.spec.nonTC = true → m.cat ≠ .tc) (hfit : FitsAll cfg (cfg.ops.capacity w) ks xs) :
    Post (runHist cfg c (ks.map VOp.spec)) m (fun res m' => res = .ok () ∧ ∃ ys w', Trace cfg (ks.map VOp.spec) xs ys ∧
      VRepW cfg Ok c m' ys w' ∧ HInv m' ∧ m'.cat = m.cat ∧ NoRealloc cfg m m' w w') :=
  Post.mono (hist_stable L c ks m xs w hw hi hs hcat (Or.inr hfit))
    (fun _ _ ⟨hr, ys, w', ht, hw', hi', hc', hb, hcp, hst⟩ => ⟨hr, ys, w', ht, hw', hi', hc', NoRealloc.ofStable hb hcp hst⟩)

/-! ### The generated members (U8 and U32 size types), the three flavours -/

theorem C07_op_storage_small_U8 (cfg : Cfg) (hfl : cfg.flavour = .small) (hops : cfg.ops = Gen.U8.svbOps) (hN : cfg.n < Gen.U8.kMax)
    (hN0 : 0 < cfg.n) (k : VOp α) (m : Mem α) (c : Nat) (xs : List α) (w : VB)
    (hw : VRepW cfg (SOkW cfg.ops cfg.n) c m xs w) (hi : HInv m) (hpre : k.spec.pre cfg xs) (hcat : k.spec.nonTC = true → m.cat ≠ .tc) :
    Post (k.spec.run cfg c) m (fun res m' => OpStepPost cfg (SOkW cfg.ops cfg.n) c m w xs k.spec res m' ∧
      ∃ ys w', VRepW cfg (SOkW cfg.ops cfg.n) c m' ys w' ∧ cfg.ops.capacity w ≤ cfg.ops.capacity w' ∧
        ((cfg.dynamic = false ∨ k.need xs ≤ cfg.ops.capacity w) → NoRealloc cfg m m' w w')) :=
  C07_op_storage (Bridge.U8.small_vecLaws α cfg hfl hops hN hN0) k m c xs w hw hi hpre hcat

theorem C07_op_storage_std_U8 (cfg : Cfg) (hfl : cfg.flavour = .std) (hops : cfg.ops = Gen.U8.dvbOps)
    (k : VOp α) (m : Mem α) (c : Nat) (xs : List α) (w : VB)
    (hw : VRepW cfg (DOkW cfg.ops.kMax) c m xs w) (hi : HInv m) (hpre : k.spec.pre cfg xs) (hcat : k.spec.nonTC = true → m.cat ≠ .tc) :
    Post (k.spec.run cfg c) m (fun res m' => OpStepPost cfg (DOkW cfg.ops.kMax) c m w xs k.spec res m' ∧
      ∃ ys w', VRepW cfg (DOkW cfg.ops.kMax) c m' ys w' ∧ cfg.ops.capacity w ≤ cfg.ops.capacity w' ∧
        ((cfg.dynamic = false ∨ k.need xs ≤ cfg.ops.capacity w) → NoRealloc cfg m m' w w')) :=
  C07_op_storage (Bridge.U8.std_vecLaws α cfg hfl hops) k m c xs w hw hi hpre hcat

theorem C07_op_storage_small_U32 (cfg : Cfg) (hfl : cfg.flavour = .small) (hops : cfg.ops = Gen.U32.svbOps) (hN : cfg.n < Gen.U32.kMax)
    (hN0 : 0 < cfg.n) (k : VOp α) (m : Mem α) (c : Nat) (xs : List α) (w : VB)
    (hw : VRepW cfg (SOkW cfg.ops cfg.n) c m xs w) (hi : HInv m) (hpre : k.spec.pre cfg xs) (hcat : k.spec.nonTC = true → m.cat ≠ .tc) :
    Post (k.spec.run cfg c) m (fun res m' => OpStepPost cfg (SOkW cfg.ops cfg.n) c m w xs k.spec res m' ∧
      ∃ ys w', VRepW cfg (SOkW cfg.ops cfg.n) c m' ys w' ∧ cfg.ops.capacity w ≤ cfg.ops.capacity w' ∧
        ((cfg.dynamic = false ∨ k.need xs ≤ cfg.ops.capacity w) → NoRealloc cfg m m' w w')) :=
  C07_op_storage (Bridge.U32.small_vecLaws α cfg hfl hops hN hN0) k m c xs w hw hi hpre hcat

theorem C07_op_storage_std_U32 (cfg : Cfg) (hfl : cfg.flavour = .std) (hops : cfg.ops = Gen.U32.dvbOps)
    (k : VOp α) (m : Mem α) (c : Nat) (xs : List α) (w : VB)
    (hw : VRepW cfg (DOkW cfg.ops.kMax) c m xs w) (hi : HInv m) (hpre : k.spec.pre cfg xs) (hcat : k.spec.nonTC = true → m.cat ≠ .tc) :
    Post (k.spec.run cfg c) m (fun res m' => OpStepPost cfg (DOkW cfg.ops.kMax) c m w xs k.spec res m' ∧
      ∃ ys w', VRepW cfg (DOkW cfg.ops.kMax) c m' ys w' ∧ cfg.ops.capacity w ≤ cfg.ops.capacity w' ∧
        ((cfg.dynamic = false ∨ k.need xs ≤ cfg.ops.capacity w) → NoRealloc cfg m m' w w')) :=
  C07_op_storage (Bridge.U32.std_vecLaws α cfg hfl hops) k m c xs w hw hi hpre hcat

theorem C07_history_no_realloc_small_U8 (cfg : Cfg) (hfl : cfg.flavour = .small) (hops : cfg.ops = Gen.U8.svbOps)
    (hN : cfg.n < Gen.U8.kMax) (hN0 : 0 < cfg.n) (c : Nat) (ks : List (VOp α)) (m : Mem α) (xs : List α) (w : VB)
    (hw : VRepW cfg (SOkW cfg.ops cfg.n) c m xs w) (hi : HInv m) (hs : Safe cfg (ks.map VOp.spec) xs)
    (hcat : ∀ k ∈ ks, k.spec.nonTC = true → m.cat ≠ .tc) (hfit : FitsAll cfg (cfg.ops.capacity w) ks xs) :
    Post (runHist cfg c (ks.map VOp.spec)) m (fun res m' => res = .ok () ∧ ∃ ys w', Trace cfg (ks.map VOp.spec) xs ys ∧
      VRepW cfg (SOkW cfg.ops cfg.n) c m' ys w' ∧ HInv m' ∧ m'.cat = m.cat ∧ NoRealloc cfg m m' w w') :=
  C07_history_no_realloc (Bridge.U8.small_vecLaws α cfg hfl hops hN hN0) c ks m xs w hw hi hs hcat hfit

theorem C07_history_no_realloc_std_U8 (cfg : Cfg) (hfl : cfg.flavour = .std) (hops : cfg.ops = Gen.U8.dvbOps)
    (c : Nat) (ks : List (VOp α)) (m : Mem α) (xs : List α) (w : VB)
    (hw : VRepW cfg (DOkW cfg.ops.kMax) c m xs w) (hi : HInv m) (hs : Safe cfg (ks.map VOp.spec) xs)
    (hcat : ∀ k ∈ ks, k.spec.nonTC = true → m.cat ≠ .tc) (hfit : FitsAll cfg (cfg.ops.capacity w) ks xs) :
    Post (runHist cfg c (ks.map VOp.spec)) m (fun res m' => res = .ok () ∧ ∃ ys w', Trace cfg (ks.map VOp.spec) xs ys ∧
      VRepW cfg (DOkW cfg.ops.kMax) c m' ys w' ∧ HInv m' ∧ m'.cat = m.cat ∧ NoRealloc cfg m m' w w') :=
  C07_history_no_realloc (Bridge.U8.std_vecLaws α cfg hfl hops) c ks m xs w hw hi hs hcat hfit

theorem C07_history_no_realloc_small_U32 (cfg : Cfg) (hfl : cfg.flavour = .small) (hops : cfg.ops = Gen.U32.svbOps)
    (hN : cfg.n < Gen.U32.kMax) (hN0 : 0 < cfg.n) (c : Nat) (ks : List (VOp α)) (m : Mem α) (xs : List α) (w : VB)
    (hw : VRepW cfg (SOkW cfg.ops cfg.n) c m xs w) (hi : HInv m) (hs : Safe cfg (ks.map VOp.spec) xs)
    (hcat : ∀ k ∈ ks, k.spec.nonTC = true → m.cat ≠ .tc) (hfit : FitsAll cfg (cfg.ops.capacity w) ks xs) :
    Post (runHist cfg c (ks.map VOp.spec)) m (fun res m' => res = .ok () ∧ ∃ ys w', Trace cfg (ks.map VOp.spec) xs ys ∧
      VRepW cfg (SOkW cfg.ops cfg.n) c m' ys w' ∧ HInv m' ∧ m'.cat = m.cat ∧ NoRealloc cfg m m' w w') :=
  C07_history_no_realloc (Bridge.U32.small_vecLaws α cfg hfl hops hN hN0) c ks m xs w hw hi hs hcat hfit

theorem C07_history_no_realloc_std_U32 (cfg : Cfg) (hfl : cfg.flavour = .std) (hops : cfg.ops = Gen.U32.dvbOps)
    (c : Nat) (ks : List (VOp α)) (m : Mem α) (xs : List α) (w : VB)
    (hw : VRepW cfg (DOkW cfg.ops.kMax) c m xs w) (hi : HInv m) (hs : Safe cfg (ks.map VOp.spec) xs)
    (hcat : ∀ k ∈ ks, k.spec.nonTC = true → m.cat ≠ .tc) (hfit : FitsAll cfg (cfg.ops.capacity w) ks xs) :
    Post (runHist cfg c (ks.map VOp.spec)) m (fun res m' => res = .ok () ∧ ∃ ys w', Trace cfg (ks.map VOp.spec) xs ys ∧
      VRepW cfg (DOkW cfg.ops.kMax) c m' ys w' ∧ HInv m' ∧ m'.cat = m.cat ∧ NoRealloc cfg m m' w w') :=
  C07_history_no_realloc (Bridge.U32.std_vecLaws α cfg hfl hops) c ks m xs w hw hi hs hcat hfit

theorem C07_history_capacity_monotone_small_U8 (cfg : Cfg) (hfl : cfg.flavour = .small) (hops : cfg.ops = Gen.U8.svbOps)
    (hN : cfg.n < Gen.U8.kMax) (hN0 : 0 < cfg.n) (c : Nat) (ks : List (VOp α)) (m : Mem α) (xs : List α) (w : VB)
    (hw : VRepW cfg (SOkW cfg.ops cfg.n) c m xs w) (hi : HInv m) (hs : Safe cfg (ks.map VOp.spec) xs)
    (hcat : ∀ k ∈ ks, k.spec.nonTC = true → m.cat ≠ .tc) :
    Post (runHist cfg c (ks.map VOp.spec)) m (fun res m' => res = .ok () ∧ ∃ ys w', Trace cfg (ks.map VOp.spec) xs ys ∧
      VRepW cfg (SOkW cfg.ops cfg.n) c m' ys w' ∧ HInv m' ∧ m'.cat = m.cat ∧ cfg.ops.capacity w ≤ cfg.ops.capacity w') :=
  C07_history_capacity_monotone (Bridge.U8.small_vecLaws α cfg hfl hops hN hN0) c ks m xs w hw hi hs hcat

theorem C07_history_capacity_monotone_std_U8 (cfg : Cfg) (hfl : cfg.flavour = .std) (hops : cfg.ops = Gen.U8.dvbOps)
    (c : Nat) (ks : List (VOp α)) (m : Mem α) (xs : List α) (w : VB)
    (hw : VRepW cfg (DOkW cfg.ops.kMax) c m xs w) (hi : HInv m) (hs : Safe cfg (ks.map VOp.spec) xs)
    (hcat : ∀ k ∈ ks, k.spec.nonTC = true → m.cat ≠ .tc) :
    Post (runHist cfg c (ks.map VOp.spec)) m (fun res m' => res = .ok () ∧ ∃ ys w', Trace cfg (ks.map VOp.spec) xs ys ∧
      VRepW cfg (DOkW cfg.ops.kMax) c m' ys w' ∧ HInv m' ∧ m'.cat = m.cat ∧ cfg.ops.capacity w ≤ cfg.ops.capacity w') :=
  C07_history_capacity_monotone (Bridge.U8.std_vecLaws α cfg hfl hops) c ks m xs w hw hi hs hcat

theorem C07_history_capacity_monotone_small_U32 (cfg : Cfg) (hfl : cfg.flavour = .small) (hops : cfg.ops = Gen.U32.svbOps)
    (hN : cfg.n < Gen.U32.kMax) (hN0 : 0 < cfg.n) (c : Nat) (ks : List (VOp α)) (m : Mem α) (xs : List α) (w : VB)
    (hw : VRepW cfg (SOkW cfg.ops cfg.n) c m xs w) (hi : HInv m) (hs : Safe cfg (ks.map VOp.spec) xs)
    (hcat : ∀ k ∈ ks, k.spec.nonTC = true → m.cat ≠ .tc) :
    Post (runHist cfg c (ks.map VOp.spec)) m (fun res m' => res = .ok () ∧ ∃ ys w', Trace cfg (ks.map VOp.spec) xs ys ∧
      VRepW cfg (SOkW cfg.ops cfg.n) c m' ys w' ∧ HInv m' ∧ m'.cat = m.cat ∧ cfg.ops.capacity w ≤ cfg.ops.capacity w') :=
  C07_history_capacity_monotone (Bridge.U32.small_vecLaws α cfg hfl hops hN hN0) c ks m xs w hw hi hs hcat

theorem C07_history_capacity_monotone_std_U32 (cfg : Cfg) (hfl : cfg.flavour = .std) (hops : cfg.ops = Gen.U32.dvbOps)
    (c : Nat) (ks : List (VOp α)) (m : Mem α) (xs : List α) (w : VB)
    (hw : VRepW cfg (DOkW cfg.ops.kMax) c m xs w) (hi : HInv m) (hs : Safe cfg (ks.map VOp.spec) xs)
    (hcat : ∀ k ∈ ks, k.spec.nonTC = true → m.cat ≠ .tc) :
    Post (runHist cfg c (ks.map VOp.spec)) m (fun res m' => res = .ok () ∧ ∃ ys w', Trace cfg (ks.map VOp.spec) xs ys ∧
      VRepW cfg (DOkW cfg.ops.kMax) c m' ys w' ∧ HInv m' ∧ m'.cat = m.cat ∧ cfg.ops.capacity w ≤ cfg.ops.capacity w') :=
  C07_history_capacity_monotone (Bridge.U32.std_vecLaws α cfg hfl hops) c ks m xs w hw hi hs hcat

/-- the hypotheses on histories are satisfiable: with capacity 4, from `[1]`, the history
    `push_back(7); push_back(8); pop_back(); insert(begin(), 9); reserve(3)` fits along every outcome -/
example (cfg : Cfg) : FitsAll cfg 4 [VOp.pushBack 7, .pushBack 8, .popBack, .insert 0 9, .reserve 3] ([1] : List Nat) := by
  simp [FitsAll, VOp.need, VOp.req, VOp.spec, opPushBack, opPopBack, opInsert, opReserve]

end AmcVerif.Props.C07
