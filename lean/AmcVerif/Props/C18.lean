import AmcVerif.Props.Common
/-! C18 — growth is geometric: appending n elements one by one costs O(log n) reallocations; reserve allocates once;
shrink_to_fit returns to size() or to the inline N. Proved over the *generated* `SafeNextCapacity` through the word
laws. -/
namespace AmcVerif.Props.C18
open AmcVerif AmcVerif.Props
variable {ops : BaseOps} {N : Nat}

/-- pushing `n ≤ 2·2^k` elements one by one onto any well-formed vector performs at most `2k + 2` allocator requests
    (so at most `2·⌈log2 n⌉ + 4`) -/
def PushesStmt (ops : BaseOps) (N : Nat) : Prop :=
  ∀ (n k : Nat) (t : VB) (fresh : Nat), SRep N ops.kMax t → ops.size t + n ≤ 2 * 2 ^ k →
    ∀ t' effs, wRun ops N t fresh (List.replicate n WOp.push) = some (t', effs) → reallocCount effs ≤ 2 * k + 2

theorem C18_pushes (L : SmallLaws ops N) (hk : ops.kMax < 2 ^ 62) : PushesStmt ops N := by
  intro n k t fresh h hn t' effs hr
  have h1 := pushes_reallocs L hk n t fresh h t' effs hr
  -- the run succeeded, hence the final size fits the size_type
  have hvall : ∀ (m s : Nat), ValidHist ops s (List.replicate m WOp.push) := by
    intro m
    induction m with
    | zero => intro s; trivial
    | succ j ihj => intro s; exact ⟨trivial, ihj _⟩
  have hv : ValidHist ops (ops.size t) (List.replicate n WOp.push) := hvall n _
  have hs := wRun_spec L hk _ t fresh h hv t' effs hr
  have hsz : specSizes (ops.size t) (List.replicate n WOp.push) = ops.size t + n := by
    clear hr h1 hn hv hs
    generalize ops.size t = s
    induction n generalizing s with
    | zero => rfl
    | succ m ih => simp only [List.replicate, specSizes, WOp.specSize]; rw [ih]; omega
  have htk : ops.size t + n ≤ ops.kMax := by rw [← hsz, ← hs.2.1]; omega
  have := growSteps_le_log' ops.kMax n (ops.capacity t) (ops.size t + n) k htk hn
  omega

/-- `reserve(n)` performs at most one allocator request and reaches `capacity() ≥ n` -/
def ReserveOnceStmt (ops : BaseOps) (N : Nat) : Prop :=
  ∀ (t : VB), SRep N ops.kMax t → ∀ n, n ≤ ops.kMax → ∀ fresh t' effs,
    wStep ops N t fresh (.reserve n) = .ok (t', effs) → reallocCount effs ≤ 1 ∧ n ≤ ops.capacity t'
      ∧ (ops.capacity t < n → ops.capacity t' = n)

theorem C18_reserve_once (L : SmallLaws ops N) : ReserveOnceStmt ops N := by
  intro t h n hn fresh t' effs hs
  have hb := L.bounds t h
  simp only [wStep] at hs
  by_cases hfit : n ≤ ops.capacity t
  · rw [wReserve_fits t n fresh hfit] at hs
    simp only [Except.ok.injEq, Prod.mk.injEq] at hs
    obtain ⟨rfl, rfl⟩ := hs
    exact ⟨by simp [reallocCount], hfit, fun h => by omega⟩
  · unfold wReserve at hs; rw [if_pos (by omega)] at hs
    rw [L.growOk t h n true fresh n (L.safeExact _ _ hn)] at hs
    simp only [Except.ok.injEq, Prod.mk.injEq] at hs
    obtain ⟨rfl, rfl⟩ := hs
    have hg := L.grownRep (ops.size t) n (PtrV.blk (fresh + 0)) (by omega) hn
    exact ⟨by rw [reallocCount_growEffs]; exact Nat.le_refl _, by rw [hg.2.2.1]; exact Nat.le_refl _, fun _ => hg.2.2.1⟩

/-- `shrink_to_fit`: capacity becomes size(), or the inline N again when the elements fit inline -/
def ShrinkStmt (ops : BaseOps) (N : Nat) : Prop :=
  ∀ (t : VB), SRep N ops.kMax t → ∀ fresh,
    ops.size (ops.shrinkImpl t N fresh).1 = ops.size t
    ∧ (ops.isSmall t = false → ops.size t ≤ N → ops.isSmall (ops.shrinkImpl t N fresh).1 = true ∧ ops.capacity (ops.shrinkImpl t N fresh).1 = N)
    ∧ (ops.isSmall t = false → N < ops.size t → ops.capacity (ops.shrinkImpl t N fresh).1 = ops.size t)

theorem C18_shrink (L : SmallLaws ops N) : ShrinkStmt ops N :=
  fun t h fresh => let s := L.shrinkImpl t h fresh; ⟨s.2.1, s.2.2.2.1, fun a b => (s.2.2.2.2 a b).2⟩

/-- the growth factor itself: a growth step from a full vector reaches at least ⌈1.5·c⌉ unless clamped -/
theorem C18_factor (kMax c : Nat) (h : c < kMax) :
    c < nextFull kMax c ∧ (nextFull kMax c = kMax ∨ (3 * c + 1) / 2 ≤ nextFull kMax c) := by
  refine ⟨(nextFull_gt kMax c h).1, ?_⟩
  have := nextCapOf_props kMax c (c + 1) (by omega)
  exact this.2.2

theorem C18_pushes_U8 (N : Nat) (h : N < 255) (h0 : 0 < N) : PushesStmt Gen.U8.svbOps N := C18_pushes (lawsU8 N h h0) kU8
theorem C18_pushes_U16 (N : Nat) (h : N < 65535) (h0 : 0 < N) : PushesStmt Gen.U16.svbOps N := C18_pushes (lawsU16 N h h0) kU16
theorem C18_pushes_U32 (N : Nat) (h : N < 4294967295) (h0 : 0 < N) : PushesStmt Gen.U32.svbOps N := C18_pushes (lawsU32 N h h0) kU32
theorem C18_reserve_once_U32 (N : Nat) (h : N < 4294967295) (h0 : 0 < N) : ReserveOnceStmt Gen.U32.svbOps N := C18_reserve_once (lawsU32 N h h0)
theorem C18_reserve_once_U64 (N : Nat) (h : N < 18446744073709551615) (h0 : 0 < N) : ReserveOnceStmt Gen.U64.svbOps N := C18_reserve_once (lawsU64 N h h0)
theorem C18_shrink_U32 (N : Nat) (h : N < 4294967295) (h0 : 0 < N) : ShrinkStmt Gen.U32.svbOps N := C18_shrink (lawsU32 N h h0)
theorem C18_shrink_U8 (N : Nat) (h : N < 255) (h0 : 0 < N) : ShrinkStmt Gen.U8.svbOps N := C18_shrink (lawsU8 N h h0)

/-- the generated SafeNextCapacity is the growth policy the theorems are about (U32 shown; same for the others) -/
theorem C18_policy_U32 (old n : Nat) (h : n ≤ 4294967295) (h62 : old < 2 ^ 62) :
    Gen.U32.SafeNextCapacity old n false = .ok (nextCapOf 4294967295 old n) := Bridge.U32.safeNext_grow old n h h62

/-- non-vacuity: 100 pushes onto a fresh SmallVector<_,3,_,uint32_t> run and perform 9 ≤ 2·6+2 reallocations -/
example : ((wRun Gen.U32.svbOps 3 (Gen.U32.svbOps.ctor 3) 1 (List.replicate 100 WOp.push)).map fun r => reallocCount r.2) = some 9 := by
  decide

end AmcVerif.Props.C18
