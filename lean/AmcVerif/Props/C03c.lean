import AmcVerif.Props.C03
import AmcVerif.Props.C12
import AmcVerif.Bridge.FlatSetBridge
/-! C03 (generated model, second part) — the remaining FlatSet members as regenerated from `flatset.hpp` on every run
(`translator/flatset2lean.py` → `Gen/FlatSetGen.lean`, tied to the hand-written model in `Bridge/FlatSetBridge.lean`): erase by
position / range, `clear`, `size`, `empty`, `swap`, the comparison operators, node handles (`extract`, `insert(node)`), the bulk
paths (`insert(first, last)`, range / initializer-list constructors and assignments: `std::stable_sort` + `std::inplace_merge` +
`std::unique` with the comparator object of the set) and `merge` (both overloads).  Every statement also says that no undefined
behaviour is reached (the generated function returns `some _`). -/
namespace AmcVerif.Props.C03
open AmcVerif AmcVerif.FS AmcVerif.Sets AmcVerif.Bridge.FlatSet
variable {α : Type} {lt : α → α → Bool}

/-- `erase(position)` on the code as it is now: the element at the position leaves, the order is kept, the iterator returned designates
    the former successor -/
theorem C03_gen_erase_at (l : List α) (hs : Sorted lt l) (i : Nat) (hi : i < l.length) :
    ∃ r, Gen.FlatSet.erase_at lt l i = some r ∧ r.1 = l.eraseIdx i ∧ Sorted lt r.1 ∧ r.1.length + 1 = l.length
      ∧ r.2.1 = i ∧ r.1[r.2.1]? = l[i + 1]? := by
  refine ⟨_, erase_at_eq lt l i hi, rfl, eraseIdx_sorted l hs i, ?_, rfl, ?_⟩
  · simp only [List.length_eraseIdx_of_lt hi]; omega
  · simp only [List.getElem?_eraseIdx_of_ge (Nat.le_refl i)]

/-- `erase(end())` is undefined behaviour of the underlying vector: the generated function has no result -/
theorem C03_gen_erase_at_end (l : List α) : Gen.FlatSet.erase_at lt l l.length = none :=
  erase_at_none lt l l.length (Nat.le_refl _)

/-- `erase(first, last)`: exactly the elements of the range leave, the order is kept -/
theorem C03_gen_erase_range (l : List α) (hs : Sorted lt l) (a b : Nat) (hab : a ≤ b) (hb : b ≤ l.length) :
    ∃ r, Gen.FlatSet.erase_range lt l a b = some r ∧ r.1 = l.take a ++ l.drop b ∧ Sorted lt r.1
      ∧ r.1.length + (b - a) = l.length ∧ r.2.1 = a := by
  refine ⟨_, erase_range_eq lt l a b hab hb, rfl, ?_, ?_, rfl⟩
  · have hsub : (l.take a ++ l.drop b).Sublist l := by
      have h1 : (l.take a ++ l.drop b).Sublist (l.take a ++ l.drop a) :=
        List.Sublist.append (List.Sublist.refl _) (List.drop_sublist_drop_left l hab)
      simpa using h1
    exact List.Pairwise.sublist hsub hs
  · simp only [List.length_append, List.length_take, List.length_drop]; omega

/-- `clear`, `size`, `empty` -/
theorem C03_gen_clear_size (l : List α) :
    Gen.FlatSet.clear lt l = some ([], (), 0) ∧ Gen.FlatSet.size lt l = some (l.length, 0)
    ∧ Gen.FlatSet.empty lt l = some (decide (l.length = 0), 0) :=
  ⟨clear_eq lt l, size_eq lt l, empty_eq lt l⟩

/-- `swap` exchanges the contents together with the comparator objects: each set stays ordered by the comparator it holds -/
theorem C03_gen_swap (lt_o : α → α → Bool) (l o : List α) (hs : Sorted lt l) (ho : Sorted lt_o o) :
    ∃ r, Gen.FlatSet.swap lt l lt_o o = some r ∧ Sorted r.1 r.2.1 ∧ Sorted r.2.2.1 r.2.2.2.1
      ∧ r.2.1 = o ∧ r.2.2.2.1 = l :=
  ⟨_, swap_eq lt lt_o l o, ho, hs, rfl, rfl⟩

/-- `==` / `!=` compare the element sequences with `==` of the elements; `<`, `<=`, `>`, `>=` are the lexicographic order with `<` of
    the elements, and are consistent with each other -/
theorem C03_gen_compare [DecidableEq α] (lt_o ltT : α → α → Bool) (l o : List α) :
    Gen.FlatSet.op_eq lt l lt_o o (fun a b => decide (a = b)) = some (decide (l = o), 0)
    ∧ Gen.FlatSet.op_ne lt l lt_o o (fun a b => decide (a = b)) = some (!decide (l = o), 0)
    ∧ Gen.FlatSet.op_lt lt l lt_o o ltT = some (Gen.FlatSet.vecLess ltT l o, 0)
    ∧ Gen.FlatSet.op_gt lt l lt_o o ltT = Gen.FlatSet.op_lt lt_o o lt l ltT
    ∧ Gen.FlatSet.op_le lt l lt_o o ltT = some (!Gen.FlatSet.vecLess ltT o l, 0)
    ∧ Gen.FlatSet.op_ge lt l lt_o o ltT = some (!Gen.FlatSet.vecLess ltT l o, 0) := by
  refine ⟨?_, ?_, op_lt_eq lt lt_o ltT l o, ?_, op_le_eq lt lt_o ltT l o, op_ge_eq lt lt_o ltT l o⟩
  · rw [op_eq_eq, vecEq_decide]
  · rw [op_ne_eq, vecEq_decide]
  · rw [op_gt_eq, op_lt_eq]

/-- a set is not less than itself when `<` of the elements is irreflexive -/
theorem C03_gen_lt_irrefl (ltT : α → α → Bool) (hirr : ∀ a, ltT a a = false) (l : List α) :
    Gen.FlatSet.op_lt lt l lt l ltT = some (false, 0) := by
  rw [op_lt_eq, vecLess_irrefl ltT hirr]

/-- `extract(key)`: the content is that of `erase(key)`; the node holds an element exactly when an equivalent element was
    present, and then holds that element -/
theorem C03_gen_extract (hswo : SWO lt) (l : List α) (hs : Sorted lt l) (k : α) :
    ∃ r, Gen.FlatSet.extract lt l k = some r ∧ r.1 = (eraseKey lt l k).1 ∧ Sorted lt r.1
      ∧ (r.2.1.isSome = true ↔ ∃ x ∈ l, Equiv lt x k)
      ∧ (∀ y, r.2.1 = some y → y ∈ l ∧ Equiv lt y k ∧ r.1.length + 1 = l.length) := by
  refine ⟨_, extract_eq lt l k, extract_content lt l k, ?_, ?_, ?_⟩
  · rw [extract_content]; exact (C03_inv hswo l hs k [] 0 0 (Nat.zero_le _)).2.2.2.2.2
  · rw [← findC_some_iff hswo l hs k]
    unfold extractR
    cases hf : (findC lt l k).1 with
    | none => simp
    | some i =>
      have hlt := findC_some_lt lt l k i hf
      obtain ⟨x, hx⟩ := getElem?_of_lt l i hlt
      simp only [hx, Option.isSome_some, true_iff]
      have hiff := findC_some_iff hswo l hs k
      have : ∃ x ∈ l, Equiv lt x k := by
        -- the index found designates an equivalent element
        have hins := insertVal_not_inserted_iff hswo l hs k
        have hlb := lowerBound_eq_lowerIdx hswo l hs k
        unfold findC at hf
        generalize hp : lowerBound lt l k 0 l.length = p at hlb hf
        obtain ⟨i0, c⟩ := p
        simp only at hlb hf
        subst hlb
        cases hl : l[lowerIdx lt l k]? with
        | none => rw [hl] at hf; cases hf
        | some y =>
          rw [hl] at hf
          simp only at hf
          cases hky : lt k y with
          | true => rw [hky] at hf; cases hf
          | false => exact ⟨y, List.mem_of_getElem? hl, lowerIdx_at l k y hl, hky⟩
      obtain ⟨j, hj, y, hy, he⟩ := hiff.mpr this
      rw [hf] at hj; cases hj
      exact ⟨i, rfl, y, hy, he⟩
  · intro y hy
    unfold extractR at hy ⊢
    have hiff := findC_some_iff hswo l hs k
    cases hf : (findC lt l k).1 with
    | none => rw [hf] at hy; cases hy
    | some i =>
      rw [hf] at hy
      simp only at hy ⊢
      have hlt := findC_some_lt lt l k i hf
      refine ⟨List.mem_of_getElem? hy, ?_, ?_⟩
      · -- the element found is equivalent to the key
        have hlb := lowerBound_eq_lowerIdx hswo l hs k
        unfold findC at hf
        generalize hp : lowerBound lt l k 0 l.length = p at hlb hf
        obtain ⟨i0, c⟩ := p
        simp only at hlb hf
        subst hlb
        cases hl : l[lowerIdx lt l k]? with
        | none => rw [hl] at hf; cases hf
        | some z =>
          rw [hl] at hf
          simp only at hf
          cases hkz : lt k z with
          | true => rw [hkz] at hf; cases hf
          | false =>
            rw [hkz] at hf
            simp only [Bool.false_eq_true, if_false, Option.some.injEq] at hf
            subst hf
            have hzy : z = y := by rw [hl] at hy; exact Option.some.inj hy
            rw [← hzy]
            exact ⟨lowerIdx_at l k z hl, hkz⟩
      · simp only [List.length_eraseIdx_of_lt hlt]; omega

/-- `extract(position)`: the element at the position leaves the set in the node -/
theorem C03_gen_extract_at (l : List α) (hs : Sorted lt l) (i : Nat) (hi : i < l.length) :
    ∃ r, Gen.FlatSet.extract_at lt l i = some r ∧ r.1 = l.eraseIdx i ∧ r.2.1 = l[i]? ∧ Sorted lt r.1 :=
  ⟨_, extract_at_eq lt l i hi, rfl, rfl, eraseIdx_sorted l hs i⟩

theorem insertVal_inserted (l : List α) (v : α) (h : (insertVal lt l v).2.2 = true) :
    (insertVal lt l v).1 = l.insertIdx (lowerIdx lt l v) v := by
  unfold insertVal at *
  simp only at *
  cases hl : l[lowerIdx lt l v]? with
  | none => simp
  | some x =>
    rw [hl] at h
    simp only at h ⊢
    cases hvx : lt v x with
    | false => rw [hvx] at h; simp at h
    | true => simp

theorem insertVal_length (l : List α) (v : α) :
    (insertVal lt l v).1.length = if (insertVal lt l v).2.2 then l.length + 1 else l.length := by
  have hle := lowerIdx_le (lt := lt) l v
  cases hb : (insertVal lt l v).2.2 with
  | false => simp [insertVal_noop l v hb]
  | true => simp [insertVal_inserted l v hb, List.length_insertIdx_of_le_length hle]

/-- `C03_node_dup` for the generated `insert(node_type&&)`: the node's value goes through `insert(T&&)`; a node that meets an
    equivalent element leaves the set unchanged and KEEPS its value, an inserted node is emptied; an empty node does nothing -/
theorem C03_gen_insert_node (hswo : SWO lt) (l : List α) (hs : Sorted lt l) (v : α) :
    (∃ r, Gen.FlatSet.insert_node lt l (some v) = some r ∧ (r.1, r.2.1.1, r.2.1.2.1) = insertVal lt l v ∧ Sorted lt r.1
        ∧ ((∃ x ∈ l, Equiv lt x v) → r.1 = l ∧ r.2.1.2.1 = false ∧ r.2.1.2.2 = some v)
        ∧ ((¬ ∃ x ∈ l, Equiv lt x v) → r.2.1.2.1 = true ∧ r.2.1.2.2 = none)
        ∧ (∃ y, r.1[r.2.1.1]? = some y ∧ Equiv lt y v))
    ∧ Gen.FlatSet.insert_node lt l none = some (l, (l.length, false, none), 0) := by
  refine ⟨⟨_, insert_node_eq lt l (some v), ?_⟩, insert_node_eq lt l none⟩
  have heq := insertValC_eq hswo l hs v
  have h1 : (insertValR lt l v).1 = (insertVal lt l v).1 := congrArg (·.1) heq
  have h2 : (insertValR lt l v).2.1.2 = (insertVal lt l v).2.2 := congrArg (·.2.2) heq
  have h3 : (insertValR lt l v).2.1.1 = (insertVal lt l v).2.1 := congrArg (·.2.1) heq
  have hiff := insertVal_not_inserted_iff hswo l hs v
  simp only [insertNodeR]
  refine ⟨heq, ?_, ?_, ?_, ?_⟩
  · rw [h1]; exact insertVal_sorted hswo l hs v
  · intro hx
    have hf := hiff.mpr hx
    rw [h1, h2, hf]
    exact ⟨insertVal_noop l v hf, rfl, by simp⟩
  · intro hx
    have ht : (insertVal lt l v).2.2 = true := by
      cases hb : (insertVal lt l v).2.2 with
      | true => rfl
      | false => exact absurd (hiff.mp hb) hx
    rw [h2, ht]
    exact ⟨rfl, by simp⟩
  · rw [h1, h3]; exact insertVal_designates hswo l v

/-- the same for `insert(hint, node_type&&)`, whatever the hint: content and position of plain insertion; the node left to the
    caller is emptied exactly when the value was inserted -/
theorem C03_gen_insert_node_at (hswo : SWO lt) (l : List α) (hs : Sorted lt l) (h : Nat) (hh : h ≤ l.length) (v : α) :
    (∃ r, Gen.FlatSet.insert_node_at lt l h (some v) = some r ∧ (r.1, r.2.1.1) = ((insertVal lt l v).1, (insertVal lt l v).2.1)
        ∧ ((∃ x ∈ l, Equiv lt x v) → r.1 = l ∧ r.2.1.2 = some v)
        ∧ ((¬ ∃ x ∈ l, Equiv lt x v) → r.2.1.2 = none))
    ∧ Gen.FlatSet.insert_node_at lt l h none = some (l, (l.length, none), 0) := by
  refine ⟨⟨_, insert_node_at_eq lt l h hh (some v), ?_⟩, insert_node_at_eq lt l h hh none⟩
  have e := C12.C12_hint hswo l hs h hh v
  have e1 : (insertHintC lt l h v).1 = (insertVal lt l v).1 := congrArg Prod.fst e
  have hiff := insertVal_not_inserted_iff hswo l hs v
  have hlen := insertVal_length (lt := lt) l v
  simp only [insertNodeAtR]
  refine ⟨e, ?_, ?_⟩
  · intro hx
    have hf := hiff.mpr hx
    have hnoop := insertVal_noop l v hf
    rw [e1, hnoop]
    exact ⟨rfl, by simp⟩
  · intro hx
    have ht : (insertVal lt l v).2.2 = true := by
      cases hb : (insertVal lt l v).2.2 with
      | true => rfl
      | false => exact absurd (hiff.mp hb) hx
    rw [ht] at hlen
    simp only [if_true] at hlen
    rw [e1]
    have : ¬ ((insertVal lt l v).1.length = l.length) := by omega
    simp [this]

/-- the bulk paths on the code as it is now: `insert(first, last)`, `insert(initializer_list)`, `operator=(initializer_list)`,
    `operator=(vector&&)` compute the model's `insertAll` (the elements inserted one by one in input order: the first of
    several equivalent elements wins, an element already in the set wins over all of them), and the result is ordered -/
theorem C03_gen_bulk (hswo : SWO lt) (l : List α) (hs : Sorted lt l) (vs : List α) :
    Gen.FlatSet.insert_range lt l vs = some (insertAll lt l vs, (), 0)
    ∧ Gen.FlatSet.insert_ilist lt l vs = some (insertAll lt l vs, (), 0)
    ∧ Gen.FlatSet.assign_ilist lt l vs = some (insertAll lt [] vs, (), 0)
    ∧ Gen.FlatSet.assign_vector lt l vs = some (insertAll lt [] vs, (), 0)
    ∧ Sorted lt (insertAll lt l vs) ∧ Sorted lt (insertAll lt [] vs) :=
  ⟨insert_range_eq hswo l hs vs, insert_ilist_eq hswo l hs vs, assign_ilist_eq hswo l vs, assign_vector_eq hswo l vs,
   insertAll_sorted hswo vs l hs, insertAll_sorted hswo vs [] List.Pairwise.nil⟩

/-- the constructors from a range / an initializer list / a vector: the new set STORES the comparator it was given (or a
    default-constructed one), and it is with that comparator object that it sorts and removes duplicates -/
theorem C03_gen_ctor (comp : α → α → Bool) (hswo : SWO comp) (vs : List α) :
    Gen.FlatSet.ctor_range vs comp = some (comp, insertAll comp [] vs, 0)
    ∧ Gen.FlatSet.ctor_range_alloc vs comp = some (comp, insertAll comp [] vs, 0)
    ∧ Gen.FlatSet.ctor_ilist vs comp = some (comp, insertAll comp [] vs, 0)
    ∧ Gen.FlatSet.ctor_ilist_alloc vs comp = some (comp, insertAll comp [] vs, 0)
    ∧ Gen.FlatSet.ctor_vector vs comp = some (comp, insertAll comp [] vs, 0)
    ∧ Sorted comp (insertAll comp [] vs) :=
  ⟨ctor_range_eq comp hswo vs, ctor_range_alloc_eq comp hswo vs, ctor_ilist_eq comp hswo vs, ctor_ilist_alloc_eq comp hswo vs,
   ctor_vector_eq comp hswo vs, insertAll_sorted hswo vs [] List.Pairwise.nil⟩

/-- `std::unique` in `eraseDuplicates` is given the equivalence of the comparator object STORED in the set -/
theorem C03_gen_eraseDuplicates_pred (a b : α) :
    Gen.FlatSet.eraseDuplicates_pred lt a b = true ↔ Equiv lt a b := by
  rw [pred_eq]
  unfold Equiv
  cases lt a b <;> cases lt b a <;> simp

/-- a set built from its own elements is that set (no element lost or reordered by the bulk path) -/
theorem C03_gen_ctor_idem (hswo : SWO lt) (l : List α) (hs : Sorted lt l) :
    Gen.FlatSet.ctor_range l lt = some (lt, l, 0) := by
  rw [ctor_range_eq lt hswo l, insertAll_nil_sorted hswo l hs]

/-- `merge` (both overloads) on the code as it is now computes the model's `mergeFrom`: the elements of the other set without an
    equivalent in `*this` move, the others stay, both sets keep their order.  The overload for the same comparator type needs no
    more than the invariants of the two sets: it runs the two-pointer loop only when the comparator TYPE is stateless (`stateless`,
    the value of `std::is_empty<Compare>::value`), and all objects of such a type compare alike -/
theorem C03_gen_merge (hswo : SWO lt) (l : List α) (hs : Sorted lt l) (lt_o : α → α → Bool) (o : List α) (stateless : Bool) :
    (∃ r, Gen.FlatSet.merge_other lt l lt_o o = some r ∧ (r.1, r.2.1) = mergeFrom lt l o ∧ Sorted lt r.1)
    ∧ (Sorted lt_o o → (stateless = true → lt_o = lt) →
        ∃ r, Gen.FlatSet.merge lt l lt_o o stateless = some r ∧ (r.1, r.2.1) = mergeFrom lt l o ∧ Sorted lt r.1) := by
  have hsorted : Sorted lt (mergeFrom lt l o).1 := by
    rw [mergeFrom_eq_foldl]; exact foldl_mergeStepM_sorted hswo o l [] hs
  constructor
  · obtain ⟨c, hc⟩ := merge_other_eq hswo l hs lt_o o
    exact ⟨_, hc, rfl, hsorted⟩
  · intro ho hst
    obtain ⟨c, hc⟩ := merge_eq_inv hswo l hs lt_o o stateless ho hst
    exact ⟨_, hc, rfl, hsorted⟩

/-- V25, as it was: two sets of the same stateful comparator type, the other one ordered by ITS comparator object only.  The
    two-pointer loop (the `stateless = true` arm, which ran unconditionally before the repair) leaves `*this` unordered;
    the insertion loop does not.  `lt a b := a % 10 < b % 10`, `lt_o a b := a % 7 < b % 7` -/
example :
    let lt : Nat → Nat → Bool := fun a b => a % 10 < b % 10
    let lt_o : Nat → Nat → Bool := fun a b => a % 7 < b % 7
    (Gen.FlatSet.merge lt [12, 5] lt_o [8, 3] true).map (·.1) = some [12, 5, 8, 3]
    ∧ (Gen.FlatSet.merge lt [12, 5] lt_o [8, 3] false).map (·.1) = some [12, 3, 5, 8] := by decide +kernel

/-- what stays in the other set after `merge` is a subsequence of it (in particular still ordered by ITS comparator) -/
theorem C03_gen_merge_rest (l o : List α) : (mergeFrom lt l o).2.Sublist o := by
  rw [mergeFrom_eq_foldl]
  suffices h : ∀ (vs : List α) (l kept : List α), (vs.foldl (mergeStepM lt) (l, kept)).2.Sublist (kept ++ vs) by
    simpa using h o l []
  intro vs
  induction vs with
  | nil => intro l kept; simp
  | cons v t ih =>
    intro l kept
    have hstep : mergeStepM lt (l, kept) v
        = if (insertVal lt l v).2.2 then ((insertVal lt l v).1, kept) else (l, kept ++ [v]) := rfl
    simp only [List.foldl_cons, hstep]
    cases (insertVal lt l v).2.2
    · simpa using ih l (kept ++ [v])
    · simp only [if_true]
      refine (ih _ kept).trans ?_
      exact List.Sublist.append (List.Sublist.refl _) (List.sublist_cons_self v t)

end AmcVerif.Props.C03
