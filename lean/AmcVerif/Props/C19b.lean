import AmcVerif.Props.C19
import AmcVerif.Bridge.FlatSetBridge
/-! C19 (generated model) — comparator-call bounds of the FlatSet operations as regenerated from `flatset.hpp` on every run.
The last component of a generated function's result is the number of comparator calls on that path. -/
namespace AmcVerif.Props.C19
open AmcVerif AmcVerif.FS AmcVerif.Sets AmcVerif.Bridge.FlatSet
variable {α : Type}

/-- on a set of `n < 2^k` elements every generated lookup and key-based mutator is well defined and uses at most `k + 1` comparator
    calls (`lower_bound` / `upper_bound`: at most `k`) -/
theorem C19_gen_lookups (lt : α → α → Bool) (l : List α) (v : α) (k : Nat) (h : l.length < 2 ^ k) :
    (∃ r, Gen.FlatSet.lower_bound lt l v = some r ∧ r.2 ≤ k) ∧ (∃ r, Gen.FlatSet.upper_bound lt l v = some r ∧ r.2 ≤ k)
    ∧ (∃ r, Gen.FlatSet.find lt l v = some r ∧ r.2 ≤ k + 1) ∧ (∃ r, Gen.FlatSet.contains lt l v = some r ∧ r.2 ≤ k + 1)
    ∧ (∃ r, Gen.FlatSet.count lt l v = some r ∧ r.2 ≤ k + 1) ∧ (∃ r, Gen.FlatSet.equal_range lt l v = some r ∧ r.2 ≤ k + 1)
    ∧ (∃ r, Gen.FlatSet.insert lt l v = some r ∧ r.2.2 ≤ k + 1) ∧ (∃ r, Gen.FlatSet.emplace lt l v = some r ∧ r.2.2 ≤ k + 1)
    ∧ (∃ r, Gen.FlatSet.erase lt l v = some r ∧ r.2.2 ≤ k + 1) := by
  have hb := C19_lookups lt l v k h
  exact ⟨⟨_, lower_bound_eq lt l v, hb.1⟩, ⟨_, upper_bound_eq lt l v, hb.2.1⟩, ⟨_, find_eq lt l v, hb.2.2.1⟩,
    ⟨_, contains_eq lt l v, hb.2.2.1⟩, ⟨_, count_eq lt l v, hb.2.2.1⟩, ⟨_, equal_range_eq lt l v, hb.2.2.1⟩,
    ⟨_, insert_eq lt l v, hb.2.2.2.1⟩, ⟨_, emplace_eq lt l v, hb.2.2.2.1⟩, ⟨_, erase_eq lt l v, hb.2.2.2.2⟩⟩

/-- insertion with a correct hint, on the code as it is now: at most four comparator calls whatever the size of the set
    (both value categories and `emplace_hint`) -/
theorem C19_gen_hint (lt : α → α → Bool) (hswo : SWO lt) (l : List α) (h : Nat) (hh : h ≤ l.length) (v : α) (hc : CorrectHint lt l h v) :
    (∃ r, Gen.FlatSet.insert_at lt l h v = some r ∧ r.2.2 ≤ 4) ∧ (∃ r, Gen.FlatSet.insert_at_rv lt l h v = some r ∧ r.2.2 ≤ 4)
    ∧ (∃ r, Gen.FlatSet.emplace_hint lt l h v = some r ∧ r.2.2 ≤ 4) := by
  have hb := C19_hint lt hswo l h v hc
  exact ⟨⟨_, insert_at_eq lt l h hh v, hb⟩, ⟨_, insert_at_rv_eq lt l h hh v, hb⟩, ⟨_, emplace_hint_eq lt l h hh v, hb⟩⟩

end AmcVerif.Props.C19
