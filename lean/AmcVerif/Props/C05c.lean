import AmcVerif.Props.C04e
/-! C05 (SmallSet clause) — **a SmallSet whose `std::set` never holds more than N elements never leaves the inline state**: along
any history of the generated `insert` / `erase(key)` / `clear` / `insert(first, last)` in which the specification set (`C04.runA`) has at most N elements
before and after every step, every state reached has an EMPTY backing set — the backing set (the only part of a SmallSet that
allocates) is never given an element.  Until the fourth session this clause was decided by a counting allocator on runs only. -/
namespace AmcVerif.Props.C05
open AmcVerif AmcVerif.FS AmcVerif.Sets AmcVerif.Bridge.SmallSet AmcVerif.Props.C04
variable {α : Type} {lt : α → α → Bool}

/-- an inline set whose size after `insert` is at most N is still inline (it grows only when N + 1 elements are needed) -/
theorem insert_stays_small (hswo : SWO lt) (N : Nat) (s : SSet α) (h : s.Inv lt N) (hs : s.isSmall = true) (v : α)
    (hlen : (s.insert lt N v).1.elems.length ≤ N) : (s.insert lt N v).1.isSmall = true := by
  have hni := insert_not_inserted_iff hswo N s h v
  have hel : s.elems = s.vec := by simp [SSet.elems, hs]
  have hspec := findSmall_spec lt s.vec v 0
  unfold SSet.insert at hni hlen ⊢
  simp only [hs, ↓reduceIte] at hni hlen ⊢
  cases hf : findSmall lt s.vec v 0 with
  | mk o c =>
    rw [hf] at hspec hni hlen
    cases o with
    | some i => simpa using hs
    | none =>
      simp only at hspec hni hlen ⊢
      by_cases hfull : s.vec.length = N
      · simp only [hfull, ↓reduceIte] at hni hlen ⊢
        exfalso
        simp only [elems_mk_set] at hlen
        cases hb : (insertVal lt (s.grow lt).set v).2.2 with
        | false => rw [hel] at hni; exact hspec (hni.mp hb)
        | true =>
          have hp := (insertVal_perm _ v hb).trans (List.Perm.cons v (grow_perm hswo N s h hs))
          have := hp.length_eq
          simp only [List.length_cons] at this
          omega
      · simp only [hfull, ↓reduceIte]
        simp [SSet.isSmall]

theorem eraseKey_stays_small (s : SSet α) (hs : s.isSmall = true) (k : α) : (s.eraseKey lt k).1.isSmall = true := by
  unfold SSet.eraseKey
  simp only [hs, ↓reduceIte]
  cases (findSmall lt s.vec k 0).1 with
  | some i => simp [SSet.isSmall]
  | none => simpa using hs

theorem insert_length_le (hswo : SWO lt) (N : Nat) (s : SSet α) (h : s.Inv lt N) (v : α) :
    s.elems.length ≤ (s.insert lt N v).1.elems.length := by
  have hel := insert_elems hswo N s h v
  cases hb : (s.insert lt N v).2.2.1 with
  | true => have := (hel.1 hb).length_eq; simp only [List.length_cons] at this; omega
  | false => rw [hel.2 hb]; exact Nat.le_refl _

theorem insertRange_length_le (hswo : SWO lt) (N : Nat) : ∀ (vs : List α) (s : SSet α), s.Inv lt N →
    s.elems.length ≤ (s.insertRange lt N vs).elems.length
  | [], s, _ => by simp [SSet.insertRange]
  | v :: vs, s, h => by
    have h1 := insert_length_le hswo N s h v
    have h2 := insertRange_length_le hswo N vs (s.insert lt N v).1 (insert_inv hswo N s h v)
    have : s.insertRange lt N (v :: vs) = (s.insert lt N v).1.insertRange lt N vs := by simp [SSet.insertRange]
    rw [this]; omega

/-- range insertion whose result has at most N elements never leaves the inline state (sizes only grow along the range) -/
theorem insertRange_stays_small (hswo : SWO lt) (N : Nat) : ∀ (vs : List α) (s : SSet α), s.Inv lt N → s.isSmall = true →
    (s.insertRange lt N vs).elems.length ≤ N → (s.insertRange lt N vs).isSmall = true
  | [], s, _, hs, _ => by simpa [SSet.insertRange] using hs
  | v :: vs, s, h, hs, hlen => by
    have e : s.insertRange lt N (v :: vs) = (s.insert lt N v).1.insertRange lt N vs := by simp [SSet.insertRange]
    rw [e] at hlen ⊢
    have h1 := insert_inv hswo N s h v
    have hmono := insertRange_length_le hswo N vs (s.insert lt N v).1 h1
    exact insertRange_stays_small hswo N vs _ h1 (insert_stays_small hswo N s h hs v (by omega)) hlen

/-- the specification set has at most N elements before and after every step of the history -/
def Within (lt : α → α → Bool) (N : Nat) : List α → List (SOp α) → Prop
  | a, [] => a.length ≤ N
  | a, op :: ops => a.length ≤ N ∧ Within lt N (stepA lt a op).1 ops

/-- every state of the run is inline (its backing set is empty), and the run never reaches undefined behaviour -/
def AllSmall (lt : α → α → Bool) (N : Nat) : SSet α → List (SOp α) → Prop
  | s, [] => s.set = []
  | s, op :: ops => s.set = [] ∧ ∃ s' o, stepG lt N s op = some (s', o) ∧ AllSmall lt N s' ops

theorem set_nil_iff (s : SSet α) : s.set = [] ↔ s.isSmall = true := by simp [SSet.isSmall]

theorem step_stays_small (hswo : SWO lt) (N : Nat) (s : SSet α) (h : s.Inv lt N) (a : List α) (hr : Rep lt s a)
    (hs : s.isSmall = true) (op : SOp α) (hw : (stepA lt a op).1.length ≤ N) :
    ∃ s' o, stepG lt N s op = some (s', o) ∧ s'.Inv lt N ∧ Rep lt s' (stepA lt a op).1 ∧ s'.isSmall = true := by
  obtain ⟨s', o, hg, hinv, _, hrep⟩ := C04_refines_step hswo N s h a hr op
  refine ⟨s', o, hg, hinv, hrep, ?_⟩
  have hlen : s'.elems.length ≤ N := by rw [← hrep.2.length_eq]; exact hw
  cases op with
  | ins v =>
    have he := insert_eq lt N s v h.excl
    simp only [stepG, he, Option.map_some, Option.some.injEq, Prod.mk.injEq] at hg
    have hs' : s' = (s.insert lt N v).1 := hg.1.symm
    subst hs'
    exact insert_stays_small hswo N s h hs v hlen
  | del k =>
    have he := erase_eq lt N s k h.excl
    simp only [stepG, he, Option.map_some, Option.some.injEq, Prod.mk.injEq] at hg
    have hs' : s' = (s.eraseKey lt k).1 := hg.1.symm
    subst hs'
    exact eraseKey_stays_small s hs k
  | clr =>
    have he := clear_eq lt N s h.excl
    simp only [stepG, he, Option.map_some, Option.some.injEq, Prod.mk.injEq] at hg
    have hs' : s' = ⟨[], []⟩ := hg.1.symm
    subst hs'
    simp [SSet.isSmall]
  | insR vs =>
    obtain ⟨⟨r, hr1, he, _⟩, _⟩ := C04_gen_history hswo N s h vs
    simp only [stepG, hr1, Option.map_some, Option.some.injEq, Prod.mk.injEq] at hg
    have hs' : s' = s.insertRange lt N vs := by rw [← hg.1, he]
    subst hs'
    exact insertRange_stays_small hswo N vs s h hs hlen

/-- **C05, SmallSet**: for every N, every inline state that satisfies the invariant and every history along which the
    `std::set` stays within N elements, the backing set stays empty throughout -/
theorem C05_smallset_inline (hswo : SWO lt) (N : Nat) (ops : List (SOp α)) :
    ∀ (s : SSet α) (a : List α), s.Inv lt N → Rep lt s a → s.set = [] → Within lt N a ops → AllSmall lt N s ops := by
  induction ops with
  | nil => intro s a _ _ hs _; exact hs
  | cons op ops ih =>
    intro s a h hr hs hw
    obtain ⟨s', o, hg, hinv, hrep, hsm⟩ := step_stays_small hswo N s h a hr ((set_nil_iff s).mp hs) op (by
      cases ops with
      | nil => exact hw.2
      | cons _ _ => exact hw.2.1)
    exact ⟨hs, s', o, hg, ih s' _ hinv hrep ((set_nil_iff s').mpr hsm) hw.2⟩

/-- from the empty set -/
theorem C05_smallset_inline_from_empty (hswo : SWO lt) (N : Nat) (ops : List (SOp α)) (hw : Within lt N [] ops) :
    AllSmall lt N (⟨[], []⟩ : SSet α) ops :=
  C05_smallset_inline hswo N ops ⟨[], []⟩ [] ⟨fun _ => rfl, by simp, by simp [NoEquivDup], by simp [Sorted]⟩ Rep_empty rfl hw

/-- the bound is tight: the (N+1)-th distinct element leaves the inline state (so the hypothesis `Within` cannot be dropped) -/
theorem C05_smallset_grows (N : Nat) (s : SSet α) (hs : s.isSmall = true)
    (hfull : s.vec.length = N) (v : α) (hnew : ¬ HasEquiv lt s.elems v) : (s.insert lt N v).1.isSmall = false := by
  have hel : s.elems = s.vec := by simp [SSet.elems, hs]
  have hspec := findSmall_spec lt s.vec v 0
  unfold SSet.insert
  simp only [hs, ↓reduceIte]
  cases hf : findSmall lt s.vec v 0 with
  | mk o c =>
    rw [hf] at hspec
    cases o with
    | some i =>
      simp only at hspec
      obtain ⟨_, y, hy, he⟩ := hspec
      exact absurd ⟨y, by rw [hel]; exact List.mem_of_getElem? hy, he⟩ hnew
    | none =>
      simp only [hfull, ↓reduceIte]
      simpa [SSet.isSmall] using insertVal_nonempty lt (s.grow lt).set v

end AmcVerif.Props.C05
