import AmcVerif.Lemmas.VecOpSpecs
/-! C10 (container level) — a value argument that refers to an element of the vector itself is handled as if it had been copied
first: the operation's result is the `std::vector` result computed with the element's value *at the time of the call*, whether or
not the vector reallocates and wherever the element lies relative to the insertion point. `RefOK`'s first disjunct is the aliasing
case (`ref = .at ⟨region of the container, i⟩` with `xs[i]? = some v`). -/
namespace AmcVerif.Props.C10
open AmcVerif
variable {α : Type} {cfg : Cfg} {Ok : VB → Prop}

/-- `v.push_back(v[i])` (and the other appending forms through `RefOK`) -/
theorem C10_push_back_alias (L : VecLaws α cfg Ok) (m : Mem α) (c : Nat) (xs : List α) (w : VB) (i : Nat) (v : α)
    (h : VRepW cfg Ok c m xs w) (hf : Fresh m) (hi : xs[i]? = some v) :
    Post (pushBackCopy cfg c (.at ⟨regionOf cfg c w, i⟩)) m (StrongPost cfg Ok c m w xs (xs ++ [v]) ()) :=
  pushBackCopy_post L m c xs w _ v h hf (Or.inl ⟨rfl, hi⟩)

/-- `v.insert(v.begin() + p, v[i])` for every `p ≤ size()` and every `i < size()` -/
theorem C10_insert_alias (L : VecLaws α cfg Ok) (m : Mem α) (c : Nat) (xs : List α) (w : VB) (p i : Nat) (v : α)
    (h : VRepW cfg Ok c m xs w) (hf : Fresh m) (hp : p ≤ xs.length) (hi : xs[i]? = some v) :
    Post (insertOne cfg c p (.copy (.at ⟨regionOf cfg c w, i⟩))) m (StrongPost cfg Ok c m w xs (xs.take p ++ v :: xs.drop p) p) :=
  insertOne_post L m c xs w h hf p hp (.copy (.at ⟨regionOf cfg c w, i⟩)) v (Or.inl ⟨rfl, hi⟩)

/-- `v.emplace(v.begin() + p, v[i])`: the new element is built from the argument before anything moves -/
theorem C10_emplace_alias (L : VecLaws α cfg Ok) (m : Mem α) (c : Nat) (xs : List α) (w : VB) (p i : Nat) (v : α)
    (h : VRepW cfg Ok c m xs w) (hf : Fresh m) (hp : p ≤ xs.length) (hi : xs[i]? = some v) (ht : m.buf .tmp = some [.raw]) :
    Post (emplace cfg c p (.copy (.at ⟨regionOf cfg c w, i⟩))) m
      (fun res m' => StrongPost cfg Ok c m w xs (xs.take p ++ v :: xs.drop p) p res m' ∧ m'.buf .tmp = some [.raw]) :=
  emplace_post L m c xs w h hf p hp (.copy (.at ⟨regionOf cfg c w, i⟩)) v (Or.inl ⟨rfl, hi⟩) ht (regionOf_ne_tmp cfg c w)

/-- `v.emplace_back(v[i])`: built from the argument before the vector grows -/
theorem C10_emplace_back_alias (L : VecLaws α cfg Ok) (m : Mem α) (c : Nat) (xs : List α) (w : VB) (i : Nat) (v : α)
    (h : VRepW cfg Ok c m xs w) (hf : Fresh m) (hi : xs[i]? = some v) (ht : m.buf .tmp = some [.raw]) :
    Post (emplaceBack cfg c (.copy (.at ⟨regionOf cfg c w, i⟩))) m
      (fun res m' => StrongPost cfg Ok c m w xs (xs ++ [v]) () res m' ∧ m'.buf .tmp = some [.raw]) :=
  emplaceBack_post L m c xs w h hf (.copy (.at ⟨regionOf cfg c w, i⟩)) v (Or.inl ⟨rfl, hi⟩) ht (regionOf_ne_tmp cfg c w)

/-- `v.resize(n, v[i])`, `v.append(n, v[i])`, `v.insert(v.end(), n, v[i])` -/
theorem C10_resize_alias (L : VecLaws α cfg Ok) (m : Mem α) (c : Nat) (xs : List α) (w : VB) (count i : Nat) (v : α)
    (h : VRepW cfg Ok c m xs w) (hf : Fresh m) (hi : xs[i]? = some v) :
    Post (resizeFill cfg c count (.at ⟨regionOf cfg c w, i⟩)) m
      (StrongPost cfg Ok c m w xs (if xs.length < count then xs ++ List.replicate (count - xs.length) v else xs.take count) ()) :=
  resizeFill_post L m c xs w count _ v h hf (Or.inl ⟨rfl, hi⟩)

theorem C10_append_alias (L : VecLaws α cfg Ok) (m : Mem α) (c : Nat) (xs : List α) (w : VB) (count i : Nat) (v : α)
    (h : VRepW cfg Ok c m xs w) (hf : Fresh m) (hi : xs[i]? = some v) :
    Post (appendFill cfg c count (.at ⟨regionOf cfg c w, i⟩)) m (StrongPost cfg Ok c m w xs (xs ++ List.replicate count v) ()) :=
  appendFill_post L m c xs w count _ v h hf (Or.inl ⟨rfl, hi⟩)

/-- the address arithmetic behind it: after the tail `[p, size)` has been shifted by one, the re-addressed argument denotes the same
    value in the shifted buffer (an index before `p` stays, an index at or after `p` moves up by one) -/
theorem C10_reference_after_shift (c : Nat) (m : Mem α) (w : VB) (xs : List α) (ref : Ref α) (v : α) (h : RefOK cfg c m w xs ref v)
    (p : Nat) (hp : p ≤ xs.length) (post b' : List (Slot α)) :
    RefIn (View.set m.buf (regionOf cfg c w) b') (regionOf cfg c w) (lives (xs.take p)) (lives (xs.drop p) ++ post) 1
      (addressAfterShift ref ⟨regionOf cfg c w, p⟩ (xs.length - p) 1) v :=
  h.afterShift p hp post b'

end AmcVerif.Props.C10
