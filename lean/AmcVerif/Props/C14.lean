import AmcVerif.Props.Common
/-! C14 — containers honour their own trivially_relocatable declaration (model-level content: nothing in the state of
a vector depends on the address of the object). Proved over the *generated* base-class members: no member ever stores
the address of the object's own inline storage in the pointer word, and `begin()` is recomputed from the words on every
call. The byte-level claim is checked by memcpy-relocating real containers inside random histories (harness op `reloc`),
and the trait values themselves (conjunction of the parts) by the C17 matrix. -/
namespace AmcVerif.Props.C14
open AmcVerif AmcVerif.Props

theorem C14_begin_from_words_U8 (t : VB) : type_of% (Bridge.U8.begin_from_words t) := Bridge.U8.begin_from_words t
theorem C14_begin_from_words_U32 (t : VB) : type_of% (Bridge.U32.begin_from_words t) := Bridge.U32.begin_from_words t
theorem C14_begin_from_words_U64 (t : VB) : type_of% (Bridge.U64.begin_from_words t) := Bridge.U64.begin_from_words t

/-- every member keeps the pointer word away from inline storage (all four size types) -/
theorem C14_no_self_pointer_U8 (t o : VB) (s N fresh minSize : Nat) (exact : Bool) (ht : Bridge.U8.NotInl t.dyn) (ho : Bridge.U8.NotInl o.dyn) :
    type_of% (Bridge.U8.no_self_pointer t o s N fresh minSize exact ht ho) := Bridge.U8.no_self_pointer t o s N fresh minSize exact ht ho
theorem C14_no_self_pointer_U16 (t o : VB) (s N fresh minSize : Nat) (exact : Bool) (ht : Bridge.U16.NotInl t.dyn) (ho : Bridge.U16.NotInl o.dyn) :
    type_of% (Bridge.U16.no_self_pointer t o s N fresh minSize exact ht ho) := Bridge.U16.no_self_pointer t o s N fresh minSize exact ht ho
theorem C14_no_self_pointer_U32 (t o : VB) (s N fresh minSize : Nat) (exact : Bool) (ht : Bridge.U32.NotInl t.dyn) (ho : Bridge.U32.NotInl o.dyn) :
    type_of% (Bridge.U32.no_self_pointer t o s N fresh minSize exact ht ho) := Bridge.U32.no_self_pointer t o s N fresh minSize exact ht ho
theorem C14_no_self_pointer_U64 (t o : VB) (s N fresh minSize : Nat) (exact : Bool) (ht : Bridge.U64.NotInl t.dyn) (ho : Bridge.U64.NotInl o.dyn) :
    type_of% (Bridge.U64.no_self_pointer t o s N fresh minSize exact ht ho) := Bridge.U64.no_self_pointer t o s N fresh minSize exact ht ho

theorem adjust_notinl (t : VB) (n fresh : Nat) (t' : VB) (e : List Eff) (N : Nat)
    (ha : wAdjust Gen.U32.svbOps t n fresh = .ok (t', e)) (h : Bridge.U32.NotInl t.dyn) : Bridge.U32.NotInl t'.dyn := by
  unfold wAdjust at ha
  split at ha
  · exact (Bridge.U32.no_self_pointer t t 0 N fresh n false h h).2.2.2.2.2.2.2.2.2.2.2 (t', e) ha
  · simp only [Except.ok.injEq, Prod.mk.injEq] at ha
    obtain ⟨rfl, _⟩ := ha; exact h

/-- one word-level step keeps the pointer word away from inline storage -/
theorem C14_step_U32 (N : Nat) (t : VB) (fresh : Nat) (op : WOp) (t1 : VB) (e1 : List Eff)
    (hs : wStep Gen.U32.svbOps N t fresh op = .ok (t1, e1)) (h : Bridge.U32.NotInl t.dyn) : Bridge.U32.NotInl t1.dyn := by
  have nsp := fun (x : VB) (hx : Bridge.U32.NotInl x.dyn) (s mn : Nat) (ex : Bool) =>
    Bridge.U32.no_self_pointer x x s N fresh mn ex hx hx
  cases op with
  | growTo needed newSize =>
    simp only [wStep] at hs
    cases ha : wAdjust Gen.U32.svbOps t needed fresh with
    | error e => simp only [ha] at hs; cases hs
    | ok r =>
      obtain ⟨ta, ea⟩ := r
      simp only [ha, Except.ok.injEq, Prod.mk.injEq] at hs
      obtain ⟨rfl, _⟩ := hs
      exact (nsp ta (adjust_notinl t needed fresh ta ea N ha h) newSize 0 false).2.2.2.1
  | push =>
    simp only [wStep] at hs
    cases ha : wAdjust Gen.U32.svbOps t (Gen.U32.svbOps.size t + 1) fresh with
    | error e => simp only [ha] at hs; cases hs
    | ok r =>
      obtain ⟨ta, ea⟩ := r
      simp only [ha, Except.ok.injEq, Prod.mk.injEq] at hs
      obtain ⟨rfl, _⟩ := hs
      exact (nsp ta (adjust_notinl t _ fresh ta ea N ha h) 0 0 false).2.1
  | shrinkTo n =>
    simp only [wStep, Except.ok.injEq, Prod.mk.injEq] at hs
    obtain ⟨rfl, _⟩ := hs
    exact (nsp t h n 0 false).2.2.2.1
  | pop =>
    simp only [wStep, Except.ok.injEq, Prod.mk.injEq] at hs
    obtain ⟨rfl, _⟩ := hs
    exact (nsp t h 0 0 false).2.2.1
  | reserve n =>
    simp only [wStep, wReserve] at hs
    split at hs
    · exact (nsp t h 0 n true).2.2.2.2.2.2.2.2.2.2.2 (t1, e1) hs
    · simp only [Except.ok.injEq, Prod.mk.injEq] at hs
      obtain ⟨rfl, _⟩ := hs; exact h
  | shrinkToFit =>
    simp only [wStep, Except.ok.injEq] at hs
    have := (nsp t h 0 0 false).2.2.2.2.2.2.2.2.2.2.1
    have e : Gen.U32.svbOps.shrinkImpl t N fresh = Gen.U32.SVB.shrink_impl t N fresh := rfl
    rw [e] at hs; rw [hs] at this; exact this

/-- along every word-level history of a SmallVector whose pointer word does not designate inline storage initially
    (a fresh vector: null), it never does: there is no self pointer that a byte-wise move could invalidate -/
theorem C14_history_U32 (N : Nat) (hist : List WOp) :
    ∀ (t : VB) (fresh : Nat), Bridge.U32.NotInl t.dyn →
      ∀ t' effs, wRun Gen.U32.svbOps N t fresh hist = some (t', effs) → Bridge.U32.NotInl t'.dyn := by
  induction hist with
  | nil =>
    intro t fresh h t' effs hr
    simp only [wRun, Option.some.injEq, Prod.mk.injEq] at hr
    obtain ⟨rfl, _⟩ := hr; exact h
  | cons op rest ih =>
    intro t fresh h t' effs hr
    simp only [wRun] at hr
    cases hs : wStep Gen.U32.svbOps N t fresh op with
    | error e => simp only [hs] at hr; cases hr
    | ok p =>
      obtain ⟨t1, e1⟩ := p
      simp only [hs] at hr
      cases hr2 : wRun Gen.U32.svbOps N t1 (fresh + 1) rest with
      | none => simp only [hr2] at hr; cases hr
      | some q =>
        obtain ⟨t2, e2⟩ := q
        simp only [hr2, Option.some.injEq, Prod.mk.injEq] at hr
        obtain ⟨rfl, _⟩ := hr
        exact ih t1 (fresh + 1) (C14_step_U32 N t fresh op t1 e1 hs h) t2 e2 hr2

example : Bridge.U32.NotInl (Gen.U32.svbOps.ctor 3).dyn := by intro w; simp [Gen.U32.svbOps, Gen.U32.SVB.ctor]

end AmcVerif.Props.C14
