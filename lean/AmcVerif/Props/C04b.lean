import AmcVerif.Props.C04
import AmcVerif.Props.C11
import AmcVerif.Bridge.SmallSetBridge
import AmcVerif.Bridge.FlatSetBridge
/-! C04 restated for the code as it is now: the functions of `Gen/SmallSetGen.lean`, regenerated from
`include/amc/smallset.hpp` by `translator/smallset2lean.py` (from the instantiations with `amc::FlatSet<int>` and with
`std::set<int>` as backing set, which have to give the same text), instead of the hand-written `SSet.insert`, `SSet.find`, ….
Each statement also says that no undefined behaviour is reached (the generated function returns `some _`).
`insert` / `insert_rv` are the public overloads `insert(const T&)` / `insert(T&&)`, `emplace` is `emplace<const T&>`. -/
namespace AmcVerif.Props.C04
open AmcVerif AmcVerif.FS AmcVerif.Sets AmcVerif.Bridge.SmallSet
variable {α : Type} {lt : α → α → Bool}

/-- `C04_insert` for the generated `insert(const T&)`: the flag returned is "not inserted" exactly when an equivalent
    element is present, in the inline state, in the large state and when the call makes the set grow -/
theorem C04_gen_insert (hswo : SWO lt) (N : Nat) (s : SSet α) (h : s.Inv lt N) (v : α) :
    ∃ r, Gen.SmallSet.insert lt N s v = some r ∧ (r.2.1.2 = false ↔ HasEquiv lt s.elems v) :=
  ⟨_, insert_eq lt N s v h.excl, C04_insert hswo N s h v⟩

theorem C04_gen_insert_rv (hswo : SWO lt) (N : Nat) (s : SSet α) (h : s.Inv lt N) (v : α) :
    ∃ r, Gen.SmallSet.insert_rv lt N s v = some r ∧ (r.2.1.2 = false ↔ HasEquiv lt s.elems v) :=
  ⟨_, insert_rv_eq lt N s v h.excl, C04_insert hswo N s h v⟩

theorem C04_gen_emplace (hswo : SWO lt) (N : Nat) (s : SSet α) (h : s.Inv lt N) (v : α) :
    ∃ r, Gen.SmallSet.emplace lt N s v = some r ∧ (r.2.1.2 = false ↔ HasEquiv lt s.elems v) :=
  ⟨_, emplace_eq lt N s v h.excl, C04_insert hswo N s h v⟩

/-- entirely between generated functions: `insert(const T&)`, `insert(T&&)` and `emplace` have the same outcome -/
theorem C04_gen_insert_agree (N : Nat) (s : SSet α) (hx : s.set ≠ [] → s.vec = []) (v : α) :
    Gen.SmallSet.insert_rv lt N s v = Gen.SmallSet.insert lt N s v
      ∧ Gen.SmallSet.emplace lt N s v = Gen.SmallSet.insert lt N s v := by
  rw [insert_eq lt N s v hx, insert_rv_eq lt N s v hx, emplace_eq lt N s v hx]
  exact ⟨rfl, rfl⟩

/-- the index found by the model's `find` designates an element of the container in use -/
theorem find_some_lt (s : SSet α) (k : α) (i : Nat) (h : (s.find lt k).1 = some i) : i < s.elems.length := by
  unfold SSet.find at h
  unfold SSet.elems
  cases hs : s.isSmall
  · simp only [hs, Bool.false_eq_true, if_false] at h ⊢
    exact Bridge.FlatSet.findC_some_lt lt s.set k i h
  · simp only [hs, if_true] at h ⊢
    have := findSmall_range lt s.vec k 0 i h
    omega

/-- `C04_find` for the generated `find`: the iterator returned is an iterator of the container in use, and it is different
    from `end()` exactly when an equivalent element is present -/
theorem C04_gen_find (hswo : SWO lt) (N : Nat) (s : SSet α) (h : s.Inv lt N) (k : α) :
    ∃ r, Gen.SmallSet.find lt N s k = some r ∧ r.1.1 = s.isSmall
      ∧ (r.1.2 ≠ s.elems.length ↔ HasEquiv lt s.elems k) := by
  refine ⟨_, find_eq lt N s k, rfl, ?_⟩
  rw [← C04_find hswo N s h k]
  simp only [findR]
  cases hf : (s.find lt k).1 with
  | none => simp
  | some i =>
    have := find_some_lt s k i hf
    simp only [Option.getD_some, Option.isSome_some, iff_true]
    omega

/-- … `contains` … -/
theorem C04_gen_contains (hswo : SWO lt) (N : Nat) (s : SSet α) (h : s.Inv lt N) (k : α) :
    ∃ r, Gen.SmallSet.contains lt N s k = some r ∧ (r.1 = true ↔ HasEquiv lt s.elems k) :=
  ⟨_, contains_eq lt N s k, C04_find hswo N s h k⟩

/-- … `count` -/
theorem C04_gen_count (hswo : SWO lt) (N : Nat) (s : SSet α) (h : s.Inv lt N) (k : α) :
    ∃ r, Gen.SmallSet.count lt N s k = some r ∧ (r.1 = 1 ↔ HasEquiv lt s.elems k) ∧ (r.1 = 0 ∨ r.1 = 1) := by
  refine ⟨_, count_eq lt N s k, ?_, ?_⟩
  · rw [← C04_find hswo N s h k]
    cases (s.find lt k).1.isSome <;> simp
  · cases (s.find lt k).1.isSome <;> simp

/-- `C04_inv` for the generated mutators: the state invariant is kept by `insert` (both overloads), `emplace` and `grow` -/
theorem C04_gen_inv (hswo : SWO lt) (N : Nat) (s : SSet α) (h : s.Inv lt N) (v : α) :
    (∃ r, Gen.SmallSet.insert lt N s v = some r ∧ r.1.Inv lt N)
    ∧ (∃ r, Gen.SmallSet.insert_rv lt N s v = some r ∧ r.1.Inv lt N)
    ∧ (∃ r, Gen.SmallSet.emplace lt N s v = some r ∧ r.1.Inv lt N)
    ∧ (∃ r, Gen.SmallSet.grow lt N s = some r ∧ r.1.Inv lt N) :=
  ⟨⟨_, insert_eq lt N s v h.excl, insert_inv hswo N s h v⟩,
   ⟨_, insert_rv_eq lt N s v h.excl, insert_inv hswo N s h v⟩,
   ⟨_, emplace_eq lt N s v h.excl, insert_inv hswo N s h v⟩,
   ⟨_, grow_eq lt N s, (grow_inv hswo N s h).1⟩⟩

/-- `C04_inv`, the `eraseIdx` part, for the two generated overloads of `erase(const_iterator)` (pointer iterators / variant
    iterators), called with a valid position of the set: no undefined behaviour, the invariant is kept, and the iterator
    returned is `end()` of the resulting set exactly when nothing follows the erased element — also when the set
    switches back to its inline state (see `C11_returned`) -/
theorem C04_gen_erase_at (N : Nat) (s : SSet α) (h : s.Inv lt N) (i : Nat) (hi : i < s.elems.length) :
    (∃ r, Gen.SmallSet.erase_at_ptr lt N s (s.isSmall, i) = some r ∧ r.1.Inv lt N ∧ r.1 = s.eraseIdx i
        ∧ (r.2.1 = endIt r.1 ↔ i + 1 = s.elems.length))
    ∧ (∃ r, Gen.SmallSet.erase_at_var lt N s (s.isSmall, i) = some r ∧ r.1.Inv lt N ∧ r.1 = s.eraseIdx i
        ∧ (r.2.1 = endIt r.1 ↔ i + 1 = s.elems.length)) := by
  have key : ((eraseAtR s i).2.1 = endIt (eraseAtR s i).1 ↔ i + 1 = s.elems.length) := by
    have hlen : ((s.eraseIdx i).elems).length = s.elems.length - 1 := by
      rw [C11.C11_erase_elems N s h i]; exact List.length_eraseIdx_of_lt hi
    simp only [eraseAtR, endIt]
    split
    · rename_i hlt
      constructor
      · intro he
        have := congrArg Prod.snd he
        simp only at this
        omega
      · intro he; omega
    · rename_i hge
      constructor
      · intro _; omega
      · intro _; rfl
  exact ⟨⟨_, erase_at_ptr_eq lt N s h.excl (s.isSmall, i) rfl hi, eraseIdx_inv N s h i, rfl, key⟩,
         ⟨_, erase_at_var_eq lt N s h.excl (s.isSmall, i) rfl hi, eraseIdx_inv N s h i, rfl, key⟩⟩

/-- the generated `merge` computes the two sets of the model's `merge` (no undefined behaviour) -/
theorem C04_gen_merge (hswo : SWO lt) (N : Nat) (s o : SSet α) (h : s.Inv lt N) (ho : o.set ≠ [] → o.vec = []) :
    ∃ r, Gen.SmallSet.merge lt N s o = some r ∧ r.1 = (s.merge lt N o).1 ∧ r.2.1 = (s.merge lt N o).2 := by
  obtain ⟨c, hc⟩ := merge_eq hswo N s o h ho
  exact ⟨_, hc, rfl, rfl⟩

/-- `size` / `empty` of the generated code are those of the model -/
theorem C04_gen_size (N : Nat) (s : SSet α) :
    Gen.SmallSet.size lt N s = some (s.size, 0) ∧ Gen.SmallSet.empty lt N s = some (decide (s.size = 0), 0) :=
  ⟨size_eq lt N s, empty_eq lt N s⟩

/-- `C04_grow` for the generated `grow` -/
theorem C04_gen_grow (hswo : SWO lt) (N : Nat) (s : SSet α) (h : s.Inv lt N) (hs : s.isSmall = true) :
    ∃ r, Gen.SmallSet.grow lt N s = some r
      ∧ (∀ x, x ∈ r.1.set → x ∈ s.vec) ∧ (∀ v ∈ s.vec, HasEquiv lt r.1.set v) ∧ r.1.vec = [] :=
  ⟨_, grow_eq lt N s, C04_grow hswo N s h hs⟩

/-- the iterator returned by the generated `insert` is an iterator of the container that holds the elements after the
    call (also when the call makes the set grow) -/
theorem C04_gen_insert_state (N : Nat) (s : SSet α) (h : s.Inv lt N) (v : α) :
    ∃ r, Gen.SmallSet.insert lt N s v = some r ∧ r.2.1.1.1 = r.1.isSmall := by
  refine ⟨_, insert_eq lt N s v h.excl, ?_⟩
  simp only [insertR]
  unfold SSet.insert
  have nonempty : ∀ l : List α, ((insertVal lt l v).1).isEmpty = false := by
    intro l
    have hins : (l.insertIdx (lowerIdx lt l v) v).isEmpty = false := by
      unfold lowerIdx
      rw [insertIdx_takeWhile]
      simp
    unfold insertVal
    cases hl : l[lowerIdx lt l v]? with
    | none => simp only [hl]; exact hins
    | some x =>
      have hne : l.isEmpty = false := by
        cases l with
        | nil => simp at hl
        | cons a t => rfl
      simp only [hl]
      cases lt v x
      · simpa using hne
      · simpa using hins
  cases hs : s.isSmall
  · simp [SSet.isSmall, nonempty]
  · have hset : s.set = [] := by simpa [SSet.isSmall] using hs
    simp only [if_true]
    generalize findSmall lt s.vec v 0 = p
    obtain ⟨r, c⟩ := p
    cases r with
    | some i => simp [hs]
    | none =>
      by_cases hf : s.vec.length = N
      · simp [hf, SSet.isSmall, nonempty]
      · simp [hf, SSet.isSmall]

end AmcVerif.Props.C04
