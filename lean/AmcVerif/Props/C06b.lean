import AmcVerif.Lemmas.VecLifecycle
import AmcVerif.Bridge.VecLawsU8
import AmcVerif.Bridge.VecLawsU16
import AmcVerif.Bridge.VecLawsU32
import AmcVerif.Bridge.VecLawsU64
/-! C06 (container level) — allocator protocol, leak freedom: every heap block a vector obtains is returned, except the one it
still owns; when the vector is destroyed nothing it allocated is left.

`NoLeak cfg c m m'` (part of `FrameL`, the frame conjunct of every operation post-condition `StrongPost` / `BasicPost` /
`GrowPost` / `OpStepPost`): every heap block that exists after the operation is a block of somebody else that existed before, or
the block the container owned and still owns, or a fresh block the container owns now — so a reallocation cannot forget to
return the old block and no operation can leave a stray block behind, whether it returns or throws. `Owned cfg c n0 m`: every
block with an identifier `≥ n0` that exists in `m` is the block container `c` owns. Statements over the slot-level model
(`Model/Vec.lean`) and the *generated* size/capacity/pointer members; the allocator ledger of the harness observes the same
on the real containers (outstanding blocks = blocks owned by live containers, nothing outstanding at drain). -/
namespace AmcVerif.Props.C06
open AmcVerif
variable {α : Type}

/-- every listed operation, whether it returns or throws, leaves no heap block behind: the blocks that exist afterwards are the
    blocks of others that existed before, and the (old or freshly allocated) block of the container; never a fault (a block
    returned with the wrong count or still holding objects would be one) -/
theorem C06_operation_no_leak {cfg : Cfg} {Ok : VB → Prop} (L : VecLaws α cfg Ok) (o : OpSpec α) (ho : IsVecOp cfg o)
    (m : Mem α) (c : Nat) (xs : List α) (w : VB) (h : VRepW cfg Ok c m xs w) (hi : HInv m) (hpre : o.pre cfg xs)
    (hcat : o.nonTC = true → m.cat ≠ .tc) :
    Post (o.run cfg c) m (fun res m' => (∀ f, res ≠ .error (.fault f)) ∧ NoLeak cfg c m m') := by
  refine Post.mono (ho.ok L m c xs w h hi hpre hcat) ?_
  rintro res m' ⟨hq, _, _, hfr⟩
  refine ⟨?_, hfr.noLeak⟩
  rcases hq with ⟨hr, _⟩ | ⟨e, _, hr, _⟩ <;> (subst hr; intro f hf; cases hf)

/-- growth: the blocks that exist afterwards are those of the others, and the container's (the old block has been returned if
    the elements moved; on `bad_alloc` / `length_error` nothing changed) -/
theorem C06_grow_no_leak {cfg : Cfg} {Ok : VB → Prop} (L : VecLaws α cfg Ok) (hd : cfg.dynamic = true) (m : Mem α) (c : Nat)
    (xs : List α) (w : VB) (needed : Nat) (exact : Bool) (h : VRepW cfg Ok c m xs w) (hf : Fresh m)
    (hlt : cfg.ops.capacity w < needed) (hex : exact = true → needed ≤ cfg.ops.kMax) :
    Post (grow cfg c needed exact) m (fun res m' => (∀ f, res ≠ .error (.fault f)) ∧ NoLeak cfg c m m') := by
  refine Post.mono (L.grow hd m c xs w needed exact h hf hlt hex) ?_
  rintro res m' ⟨hq, hfr⟩
  refine ⟨?_, hfr.noLeak⟩
  rcases hq with ⟨hr, _⟩ | ⟨e, hr, _⟩ <;> (subst hr; intro f hf; cases hf)

/-- what `NoLeak` says about block identifiers: a block that exists afterwards and is not the container's existed before -/
theorem C06_no_new_foreign_block {cfg : Cfg} {c : Nat} {m m' : Mem α} (h : NoLeak cfg c m m') (id : Nat)
    (hex : (m'.buf (.blk id)).isSome) (hn : ¬ OwnsBlk cfg c m' id) : (m.buf (.blk id)).isSome ∧ ¬ OwnsBlk cfg c m id := by
  rcases h id hex with ⟨e, n1, _⟩ | ⟨_, _, o2⟩ | ⟨_, o2⟩
  · exact ⟨e, n1⟩
  · exact absurd o2 hn
  · exact absurd o2 hn

/-- … and the block the container owned before, if the container owns another one now, is gone -/
theorem C06_old_block_returned {cfg : Cfg} {c : Nat} {m m' : Mem α} (h : NoLeak cfg c m m') (id : Nat)
    (ho : OwnsBlk cfg c m id) (hn : ¬ OwnsBlk cfg c m' id) : m'.buf (.blk id) = none := by
  cases hb : m'.buf (.blk id) with
  | none => rfl
  | some b =>
    exfalso
    rcases h id (by rw [hb]; rfl) with ⟨_, n1, _⟩ | ⟨_, _, o2⟩ | ⟨_, o2⟩
    · exact n1 ho
    · exact hn o2
    · exact hn o2

/-- whole histories: whatever the operations do and whatever throws, every block allocated since the history started
    (identifier `≥ m.nextId`) that still exists at the end is the one block the container owns -/
theorem C06_history_no_leak {cfg : Cfg} {Ok : VB → Prop} (L : VecLaws α cfg Ok) (c : Nat) (ops : List (OpSpec α))
    (hops : ∀ o ∈ ops, IsVecOp cfg o) (m : Mem α) (xs : List α) (hv : VRep cfg Ok c m xs) (hi : HInv m) (hs : Safe cfg ops xs)
    (hcat : ∀ o ∈ ops, o.nonTC = true → m.cat ≠ .tc) :
    Post (runHist cfg c ops) m (fun res m' => res = .ok () ∧ Owned cfg c m.nextId m') := by
  refine Post.mono (vector_history L c ops hops m xs hv hi hs hcat _ (Owned.start cfg c hi.fresh)) ?_
  rintro res m' ⟨hr, _, _, _, _, _, ho⟩
  exact ⟨hr, ho⟩

/-- the whole life of a `SmallVector`: construct, any safe history of the listed operations, destroy — no fault, **no heap block
    allocated along the way exists at the end**, every region that existed before is unchanged, the inline storage is all raw -/
theorem C06_lifecycle_small {cfg : Cfg} (hfl : cfg.flavour = .small) (L : SmallLaws cfg.ops cfg.n)
    (hs : ∀ old n exact r, cfg.ops.safeNext old n exact = .ok r → (exact = true → n ≤ cfg.ops.kMax) → n ≤ r ∧ r ≤ cfg.ops.kMax)
    (hck : ∀ c m, c ≤ m → cfg.ops.check c m = .ok []) (hce : ∀ c m, m < c → cfg.ops.check c m = .error .outOfRange)
    (c : Nat) (ops : List (OpSpec α)) (hops : ∀ o ∈ ops, IsVecOp cfg o) (m0 : Mem α)
    (hi : HInv m0) (hc : c < m0.ws.length) (hraw : m0.buf (.inl c) = some (raws cfg.n)) (h0 : m0.buf (.blk 0) = none)
    (hsafe : Safe cfg ops []) (hcat : ∀ o ∈ ops, o.nonTC = true → m0.cat ≠ .tc) :
    Post (do construct cfg c; runHist cfg c ops; destruct cfg c) m0 (fun res m' => res = .ok ()
      ∧ (∀ id, m0.nextId ≤ id → m'.buf (.blk id) = none)
      ∧ (∀ r, (∀ id, r = .blk id → id < m0.nextId) → r ≠ .inl c → m'.buf r = m0.buf r)
      ∧ m'.buf (.inl c) = some (raws cfg.n)) :=
  lifecycle_small hfl L hs hck hce c ops hops m0 hi hc hraw h0 hsafe hcat

/-- the whole life of an `amc::vector` -/
theorem C06_lifecycle_vector {cfg : Cfg} (hfl : cfg.flavour = .std) (L : StdLaws cfg.ops)
    (hctor : cfg.ops.ctor cfg.n = ⟨0, 0, PtrV.null⟩)
    (hdtor : ∀ t, (cfg.ops.dtor t).2 = if t.dyn ≠ PtrV.null then [Eff.dealloc t.dyn t.capa] else [])
    (c : Nat) (ops : List (OpSpec α)) (hops : ∀ o ∈ ops, IsVecOp cfg o) (m0 : Mem α)
    (hi : HInv m0) (hc : c < m0.ws.length) (h0 : m0.buf (.blk 0) = none)
    (hsafe : Safe cfg ops []) (hcat : ∀ o ∈ ops, o.nonTC = true → m0.cat ≠ .tc) :
    Post (do construct cfg c; runHist cfg c ops; destruct cfg c) m0 (fun res m' => res = .ok ()
      ∧ (∀ id, m0.nextId ≤ id → m'.buf (.blk id) = none)
      ∧ (∀ r, (∀ id, r = .blk id → id < m0.nextId) → r ≠ .inl c → m'.buf r = m0.buf r)) :=
  lifecycle_std hfl L hctor hdtor c ops hops m0 hi hc h0 hsafe hcat

/- for the code as it is now: the generated members of each size type (regenerated and re-proved on every run) -/

theorem C06_lifecycle_small_U8 (cfg : Cfg) (hfl : cfg.flavour = .small) (hops : cfg.ops = Gen.U8.svbOps) (hN : cfg.n < Gen.U8.kMax)
    (hN0 : 0 < cfg.n) (c : Nat) (ops : List (OpSpec α)) (hvops : ∀ o ∈ ops, IsVecOp cfg o) (m0 : Mem α)
    (hi : HInv m0) (hc : c < m0.ws.length) (hraw : m0.buf (.inl c) = some (raws cfg.n)) (h0 : m0.buf (.blk 0) = none)
    (hsafe : Safe cfg ops []) (hcat : ∀ o ∈ ops, o.nonTC = true → m0.cat ≠ .tc) :
    Post (do construct cfg c; runHist cfg c ops; destruct cfg c) m0 (fun res m' => res = .ok ()
      ∧ (∀ id, m0.nextId ≤ id → m'.buf (.blk id) = none)
      ∧ (∀ r, (∀ id, r = .blk id → id < m0.nextId) → r ≠ .inl c → m'.buf r = m0.buf r)
      ∧ m'.buf (.inl c) = some (raws cfg.n)) := by
  have L : SmallLaws cfg.ops cfg.n := hops ▸ Bridge.U8.svb_laws cfg.n hN hN0
  refine C06_lifecycle_small hfl L ?_ ?_ ?_ c ops hvops m0 hi hc hraw h0 hsafe hcat
  · rw [hops]; exact fun old n exact r h hx => Bridge.U8.safeNext_sound old n exact r h hx
  · rw [hops]; exact fun c m h => Bridge.U8.check_ok c m h
  · rw [hops]; exact fun c m h => Bridge.U8.check_err c m h

theorem C06_lifecycle_vector_U8 (cfg : Cfg) (hfl : cfg.flavour = .std) (hops : cfg.ops = Gen.U8.dvbOps)
    (c : Nat) (ops : List (OpSpec α)) (hvops : ∀ o ∈ ops, IsVecOp cfg o) (m0 : Mem α)
    (hi : HInv m0) (hc : c < m0.ws.length) (h0 : m0.buf (.blk 0) = none)
    (hsafe : Safe cfg ops []) (hcat : ∀ o ∈ ops, o.nonTC = true → m0.cat ≠ .tc) :
    Post (do construct cfg c; runHist cfg c ops; destruct cfg c) m0 (fun res m' => res = .ok ()
      ∧ (∀ id, m0.nextId ≤ id → m'.buf (.blk id) = none)
      ∧ (∀ r, (∀ id, r = .blk id → id < m0.nextId) → r ≠ .inl c → m'.buf r = m0.buf r)) := by
  refine C06_lifecycle_vector hfl (hops ▸ Bridge.U8.dvb_stdLaws) (by rw [hops]; rfl) ?_ c ops hvops m0 hi hc h0 hsafe hcat
  intro t
  rw [hops]
  show (Gen.U8.DVB.dtor t).2 = _
  unfold Gen.U8.DVB.dtor
  split <;> simp_all

theorem C06_lifecycle_small_U16 (cfg : Cfg) (hfl : cfg.flavour = .small) (hops : cfg.ops = Gen.U16.svbOps) (hN : cfg.n < Gen.U16.kMax)
    (hN0 : 0 < cfg.n) (c : Nat) (ops : List (OpSpec α)) (hvops : ∀ o ∈ ops, IsVecOp cfg o) (m0 : Mem α)
    (hi : HInv m0) (hc : c < m0.ws.length) (hraw : m0.buf (.inl c) = some (raws cfg.n)) (h0 : m0.buf (.blk 0) = none)
    (hsafe : Safe cfg ops []) (hcat : ∀ o ∈ ops, o.nonTC = true → m0.cat ≠ .tc) :
    Post (do construct cfg c; runHist cfg c ops; destruct cfg c) m0 (fun res m' => res = .ok ()
      ∧ (∀ id, m0.nextId ≤ id → m'.buf (.blk id) = none)
      ∧ (∀ r, (∀ id, r = .blk id → id < m0.nextId) → r ≠ .inl c → m'.buf r = m0.buf r)
      ∧ m'.buf (.inl c) = some (raws cfg.n)) := by
  have L : SmallLaws cfg.ops cfg.n := hops ▸ Bridge.U16.svb_laws cfg.n hN hN0
  refine C06_lifecycle_small hfl L ?_ ?_ ?_ c ops hvops m0 hi hc hraw h0 hsafe hcat
  · rw [hops]; exact fun old n exact r h hx => Bridge.U16.safeNext_sound old n exact r h hx
  · rw [hops]; exact fun c m h => Bridge.U16.check_ok c m h
  · rw [hops]; exact fun c m h => Bridge.U16.check_err c m h

theorem C06_lifecycle_vector_U16 (cfg : Cfg) (hfl : cfg.flavour = .std) (hops : cfg.ops = Gen.U16.dvbOps)
    (c : Nat) (ops : List (OpSpec α)) (hvops : ∀ o ∈ ops, IsVecOp cfg o) (m0 : Mem α)
    (hi : HInv m0) (hc : c < m0.ws.length) (h0 : m0.buf (.blk 0) = none)
    (hsafe : Safe cfg ops []) (hcat : ∀ o ∈ ops, o.nonTC = true → m0.cat ≠ .tc) :
    Post (do construct cfg c; runHist cfg c ops; destruct cfg c) m0 (fun res m' => res = .ok ()
      ∧ (∀ id, m0.nextId ≤ id → m'.buf (.blk id) = none)
      ∧ (∀ r, (∀ id, r = .blk id → id < m0.nextId) → r ≠ .inl c → m'.buf r = m0.buf r)) := by
  refine C06_lifecycle_vector hfl (hops ▸ Bridge.U16.dvb_stdLaws) (by rw [hops]; rfl) ?_ c ops hvops m0 hi hc h0 hsafe hcat
  intro t
  rw [hops]
  show (Gen.U16.DVB.dtor t).2 = _
  unfold Gen.U16.DVB.dtor
  split <;> simp_all

theorem C06_lifecycle_small_U32 (cfg : Cfg) (hfl : cfg.flavour = .small) (hops : cfg.ops = Gen.U32.svbOps) (hN : cfg.n < Gen.U32.kMax)
    (hN0 : 0 < cfg.n) (c : Nat) (ops : List (OpSpec α)) (hvops : ∀ o ∈ ops, IsVecOp cfg o) (m0 : Mem α)
    (hi : HInv m0) (hc : c < m0.ws.length) (hraw : m0.buf (.inl c) = some (raws cfg.n)) (h0 : m0.buf (.blk 0) = none)
    (hsafe : Safe cfg ops []) (hcat : ∀ o ∈ ops, o.nonTC = true → m0.cat ≠ .tc) :
    Post (do construct cfg c; runHist cfg c ops; destruct cfg c) m0 (fun res m' => res = .ok ()
      ∧ (∀ id, m0.nextId ≤ id → m'.buf (.blk id) = none)
      ∧ (∀ r, (∀ id, r = .blk id → id < m0.nextId) → r ≠ .inl c → m'.buf r = m0.buf r)
      ∧ m'.buf (.inl c) = some (raws cfg.n)) := by
  have L : SmallLaws cfg.ops cfg.n := hops ▸ Bridge.U32.svb_laws cfg.n hN hN0
  refine C06_lifecycle_small hfl L ?_ ?_ ?_ c ops hvops m0 hi hc hraw h0 hsafe hcat
  · rw [hops]; exact fun old n exact r h hx => Bridge.U32.safeNext_sound old n exact r h hx
  · rw [hops]; exact fun c m h => Bridge.U32.check_ok c m h
  · rw [hops]; exact fun c m h => Bridge.U32.check_err c m h

theorem C06_lifecycle_vector_U32 (cfg : Cfg) (hfl : cfg.flavour = .std) (hops : cfg.ops = Gen.U32.dvbOps)
    (c : Nat) (ops : List (OpSpec α)) (hvops : ∀ o ∈ ops, IsVecOp cfg o) (m0 : Mem α)
    (hi : HInv m0) (hc : c < m0.ws.length) (h0 : m0.buf (.blk 0) = none)
    (hsafe : Safe cfg ops []) (hcat : ∀ o ∈ ops, o.nonTC = true → m0.cat ≠ .tc) :
    Post (do construct cfg c; runHist cfg c ops; destruct cfg c) m0 (fun res m' => res = .ok ()
      ∧ (∀ id, m0.nextId ≤ id → m'.buf (.blk id) = none)
      ∧ (∀ r, (∀ id, r = .blk id → id < m0.nextId) → r ≠ .inl c → m'.buf r = m0.buf r)) := by
  refine C06_lifecycle_vector hfl (hops ▸ Bridge.U32.dvb_stdLaws) (by rw [hops]; rfl) ?_ c ops hvops m0 hi hc h0 hsafe hcat
  intro t
  rw [hops]
  show (Gen.U32.DVB.dtor t).2 = _
  unfold Gen.U32.DVB.dtor
  split <;> simp_all

theorem C06_lifecycle_small_U64 (cfg : Cfg) (hfl : cfg.flavour = .small) (hops : cfg.ops = Gen.U64.svbOps) (hN : cfg.n < Gen.U64.kMax)
    (hN0 : 0 < cfg.n) (c : Nat) (ops : List (OpSpec α)) (hvops : ∀ o ∈ ops, IsVecOp cfg o) (m0 : Mem α)
    (hi : HInv m0) (hc : c < m0.ws.length) (hraw : m0.buf (.inl c) = some (raws cfg.n)) (h0 : m0.buf (.blk 0) = none)
    (hsafe : Safe cfg ops []) (hcat : ∀ o ∈ ops, o.nonTC = true → m0.cat ≠ .tc) :
    Post (do construct cfg c; runHist cfg c ops; destruct cfg c) m0 (fun res m' => res = .ok ()
      ∧ (∀ id, m0.nextId ≤ id → m'.buf (.blk id) = none)
      ∧ (∀ r, (∀ id, r = .blk id → id < m0.nextId) → r ≠ .inl c → m'.buf r = m0.buf r)
      ∧ m'.buf (.inl c) = some (raws cfg.n)) := by
  have L : SmallLaws cfg.ops cfg.n := hops ▸ Bridge.U64.svb_laws cfg.n hN hN0
  refine C06_lifecycle_small hfl L ?_ ?_ ?_ c ops hvops m0 hi hc hraw h0 hsafe hcat
  · rw [hops]; exact fun old n exact r h hx => Bridge.U64.safeNext_sound old n exact r h hx
  · rw [hops]; exact fun c m h => Bridge.U64.check_ok c m h
  · rw [hops]; exact fun c m h => Bridge.U64.check_err c m h

theorem C06_lifecycle_vector_U64 (cfg : Cfg) (hfl : cfg.flavour = .std) (hops : cfg.ops = Gen.U64.dvbOps)
    (c : Nat) (ops : List (OpSpec α)) (hvops : ∀ o ∈ ops, IsVecOp cfg o) (m0 : Mem α)
    (hi : HInv m0) (hc : c < m0.ws.length) (h0 : m0.buf (.blk 0) = none)
    (hsafe : Safe cfg ops []) (hcat : ∀ o ∈ ops, o.nonTC = true → m0.cat ≠ .tc) :
    Post (do construct cfg c; runHist cfg c ops; destruct cfg c) m0 (fun res m' => res = .ok ()
      ∧ (∀ id, m0.nextId ≤ id → m'.buf (.blk id) = none)
      ∧ (∀ r, (∀ id, r = .blk id → id < m0.nextId) → r ≠ .inl c → m'.buf r = m0.buf r)) := by
  refine C06_lifecycle_vector hfl (hops ▸ Bridge.U64.dvb_stdLaws) (by rw [hops]; rfl) ?_ c ops hvops m0 hi hc h0 hsafe hcat
  intro t
  rw [hops]
  show (Gen.U64.DVB.dtor t).2 = _
  unfold Gen.U64.DVB.dtor
  split <;> simp_all

/-- the hypotheses are satisfiable and the statement is not vacuous: the closed life
    `vector<Nat> v; v.push_back(7); v.push_back(8); v.insert(v.begin(), 9); v.clear(); ~v` in the initial memory (one pool slot,
    no block, `nextId = 1`) -/
def exCfg : Cfg := { flavour := .std, n := 0, ops := Gen.U8.dvbOps }
def exMem : Mem Nat := { ws := [default], inls := [[]], blocks := [] }

example : Post (do construct exCfg 0; runHist exCfg 0 [opPushBack 7, opPushBack 8, opInsert 0 9, opClear]; destruct exCfg 0) exMem
    (fun res m' => res = .ok () ∧ (∀ id, 1 ≤ id → m'.buf (.blk id) = none)
      ∧ (∀ r, (∀ id, r = .blk id → id < 1) → r ≠ .inl 0 → m'.buf r = exMem.buf r)) :=
  C06_lifecycle_vector_U8 exCfg rfl rfl 0 _
    (by intro o ho; simp only [List.mem_cons, List.mem_nil_iff, or_false] at ho
        rcases ho with rfl | rfl | rfl | rfl
        · exact IsVecOp.pushBack 7
        · exact IsVecOp.pushBack 8
        · exact IsVecOp.insert 0 9
        · exact IsVecOp.clear)
    exMem ⟨fun id h => by simp [Mem.buf, exMem] at h, rfl⟩ (by decide) rfl (by simp [Safe, opPushBack, opInsert, opClear])
    (by intro o ho; simp only [List.mem_cons, List.mem_nil_iff, or_false] at ho
        rcases ho with rfl | rfl | rfl | rfl <;> (intro h; cases h))

end AmcVerif.Props.C06
