import AmcVerif.Lemmas.VecOpSpecs
import AmcVerif.Lemmas.VecOpsC
import AmcVerif.Bridge.VecLawsU8
import AmcVerif.Bridge.VecLawsU16
import AmcVerif.Bridge.VecLawsU32
import AmcVerif.Bridge.VecLawsU64
/-! C01 (container level) — every vector flavour behaves as `std::vector`, element by element.

`VRep cfg Ok c m xs`: container `c` of memory `m` holds exactly the list `xs` (first `size()` slots of its buffer live with these
values, every other slot raw, words consistent). `OpSpec.spec` of each operation is the `std::vector` result on lists. The theorems
are about the slot-level model that is run against the real containers and against `std::vector` by the correspondence check; the
size/capacity/pointer members the model calls are the ones regenerated from the source, and `VecLaws` is re-derived from them on
every run (`Bridge/VecLaws*.lean`). -/
namespace AmcVerif.Props.C01
open AmcVerif
variable {α : Type} {cfg : Cfg} {Ok : VB → Prop}

/-- each of the 23 listed operations (push_back, emplace_back, insert, emplace, erase, pop_back, clear, resize, reserve, append,
    assign, insertion at end(), with outside or aliasing arguments), started in any state holding `xs` that satisfies the
    `std::vector` precondition of the operation, ends holding exactly the `std::vector` result — or throws a C++ exception -/
theorem C01_operation_refines (L : VecLaws α cfg Ok) (o : OpSpec α) (ho : IsVecOp cfg o) : OpOK cfg Ok o := ho.ok L

/-- whole histories: run any sequence of these operations on one container, continuing after every exception; the container
    ends holding a list that the `std::vector` semantics of the history allows (`Trace`); no heap block allocated along the way
    (identifier `≥ n0`) is left behind except the one the container owns (`Owned`, given at the start: `Owned.start`) -/
theorem C01_history (L : VecLaws α cfg Ok) (c : Nat) (ops : List (OpSpec α)) (hops : ∀ o ∈ ops, IsVecOp cfg o) (m : Mem α) (xs : List α)
    (hv : VRep cfg Ok c m xs) (hi : HInv m) (hs : Safe cfg ops xs) (hcat : ∀ o ∈ ops, o.nonTC = true → m.cat ≠ .tc)
    (n0 : Nat) (ho : Owned cfg c n0 m) :
    Post (runHist cfg c ops) m (fun res m' => res = .ok () ∧ ∃ ys, Trace cfg ops xs ys ∧ VRep cfg Ok c m' ys ∧ HInv m' ∧ m'.cat = m.cat
      ∧ Owned cfg c n0 m') :=
  vector_history L c ops hops m xs hv hi hs hcat n0 ho

/-- when no operation of the history throws, the final list is the fold of the `std::vector` results -/
theorem C01_trace_no_throw (ops : List (OpSpec α)) (xs : List α) : Trace cfg ops xs (ops.foldl (fun l o => o.spec l) xs) := by
  induction ops generalizing xs with
  | nil => exact Trace.nil xs
  | cons o rest ih => exact Trace.ok o rest xs _ (ih (o.spec xs))

/-- what the container shows (`begin()..end()`) is exactly the represented list -/
theorem C01_elements_visible (L : VecLaws α cfg Ok) (m : Mem α) (c : Nat) (xs : List α) (w : VB) (h : VRepW cfg Ok c m xs w) (hf : Fresh m) :
    Post (elems cfg c) m (fun res m' => res = .ok xs ∧ m' = m) := elems_post L m c xs w h hf

/-- multi-element insertion anywhere: if it returns, the result is the `std::vector` result and the returned index is `p` -/
theorem C01_insert_range (L : VecLaws α cfg Ok) (m : Mem α) (c : Nat) (xs : List α) (w : VB) (p : Nat) (vals : List α)
    (h : VRepW cfg Ok c m xs w) (hf : Fresh m) (hp : p ≤ xs.length) :
    Post (insertRange cfg c p vals) m (fun res m' =>
      (∀ r, res = .ok r → r = p ∧ VRep cfg Ok c m' (xs.take p ++ vals ++ xs.drop p)) ∧ (∀ f, res ≠ .error (.fault f))
        ∧ FrameL cfg c (regionOf cfg c w) m m') := insertRange_ok L m c xs w p hp vals h hf

theorem C01_insert_count (L : VecLaws α cfg Ok) (m : Mem α) (c : Nat) (xs : List α) (w : VB) (p count : Nat) (ref : Ref α) (v : α)
    (h : VRepW cfg Ok c m xs w) (hf : Fresh m) (hp : p ≤ xs.length) (hv : RefOK cfg c m w xs ref v) (hlit : ∃ x, ref = .lit x) :
    Post (insertCount cfg c p count ref) m (fun res m' =>
      (∀ r, res = .ok r → r = p ∧ VRep cfg Ok c m' (xs.take p ++ List.replicate count v ++ xs.drop p))
        ∧ (∀ f, res ≠ .error (.fault f)) ∧ FrameL cfg c (regionOf cfg c w) m m') := insertCount_ok L m c xs w p count hp ref v hv hlit h hf

/-- copy assignment and copy construction from another container of the pool -/
theorem C01_copy_assign (L : VecLaws α cfg Ok) (m : Mem α) (c d : Nat) (xs ys : List α) (w wd : VB)
    (h : VRepW cfg Ok c m xs w) (hd : VRepW cfg Ok d m ys wd) (hf : Fresh m) (hcat : m.cat ≠ .tc) (hne : c ≠ d) :
    Post (copyAssign cfg c d) m (BasicPost cfg Ok c m w ys ()) := copyAssign_post L m c d xs ys w wd h hd hf hcat hne

/- the law packages hold for the code as it is now, for every flavour and size type -/
theorem C01_laws_small_U8 (cfg : Cfg) (hfl : cfg.flavour = .small) (hops : cfg.ops = Gen.U8.svbOps) (hN : cfg.n < Gen.U8.kMax) (hN0 : 0 < cfg.n) :
    VecLaws α cfg (SOkW cfg.ops cfg.n) := Bridge.U8.small_vecLaws α cfg hfl hops hN hN0
theorem C01_laws_small_U32 (cfg : Cfg) (hfl : cfg.flavour = .small) (hops : cfg.ops = Gen.U32.svbOps) (hN : cfg.n < Gen.U32.kMax) (hN0 : 0 < cfg.n) :
    VecLaws α cfg (SOkW cfg.ops cfg.n) := Bridge.U32.small_vecLaws α cfg hfl hops hN hN0
theorem C01_laws_small_U16 (cfg : Cfg) (hfl : cfg.flavour = .small) (hops : cfg.ops = Gen.U16.svbOps) (hN : cfg.n < Gen.U16.kMax) (hN0 : 0 < cfg.n) :
    VecLaws α cfg (SOkW cfg.ops cfg.n) := Bridge.U16.small_vecLaws α cfg hfl hops hN hN0
theorem C01_laws_small_U64 (cfg : Cfg) (hfl : cfg.flavour = .small) (hops : cfg.ops = Gen.U64.svbOps) (hN : cfg.n < Gen.U64.kMax) (hN0 : 0 < cfg.n) :
    VecLaws α cfg (SOkW cfg.ops cfg.n) := Bridge.U64.small_vecLaws α cfg hfl hops hN hN0
theorem C01_laws_vector_U8 (cfg : Cfg) (hfl : cfg.flavour = .std) (hops : cfg.ops = Gen.U8.dvbOps) : VecLaws α cfg (DOkW cfg.ops.kMax) :=
  Bridge.U8.std_vecLaws α cfg hfl hops
theorem C01_laws_vector_U16 (cfg : Cfg) (hfl : cfg.flavour = .std) (hops : cfg.ops = Gen.U16.dvbOps) : VecLaws α cfg (DOkW cfg.ops.kMax) :=
  Bridge.U16.std_vecLaws α cfg hfl hops
theorem C01_laws_vector_U32 (cfg : Cfg) (hfl : cfg.flavour = .std) (hops : cfg.ops = Gen.U32.dvbOps) : VecLaws α cfg (DOkW cfg.ops.kMax) :=
  Bridge.U32.std_vecLaws α cfg hfl hops
theorem C01_laws_vector_U64 (cfg : Cfg) (hfl : cfg.flavour = .std) (hops : cfg.ops = Gen.U64.dvbOps) : VecLaws α cfg (DOkW cfg.ops.kMax) :=
  Bridge.U64.std_vecLaws α cfg hfl hops
theorem C01_laws_fixed_U8 (cfg : Cfg) (hfl : cfg.flavour = .fixed) (hops : cfg.ops = Gen.U8.fvbOps) (hchk : cfg.checked = true) :
    VecLaws α cfg (Bridge.U8.FOk cfg.n) := Bridge.U8.fixed_vecLaws α cfg hfl hops hchk
theorem C01_laws_fixed_U16 (cfg : Cfg) (hfl : cfg.flavour = .fixed) (hops : cfg.ops = Gen.U16.fvbOps) (hchk : cfg.checked = true) :
    VecLaws α cfg (Bridge.U16.FOk cfg.n) := Bridge.U16.fixed_vecLaws α cfg hfl hops hchk
theorem C01_laws_fixed_U32 (cfg : Cfg) (hfl : cfg.flavour = .fixed) (hops : cfg.ops = Gen.U32.fvbOps) (hchk : cfg.checked = true) :
    VecLaws α cfg (Bridge.U32.FOk cfg.n) := Bridge.U32.fixed_vecLaws α cfg hfl hops hchk
theorem C01_laws_fixed_U64 (cfg : Cfg) (hfl : cfg.flavour = .fixed) (hops : cfg.ops = Gen.U64.fvbOps) (hchk : cfg.checked = true) :
    VecLaws α cfg (Bridge.U64.FOk cfg.n) := Bridge.U64.fixed_vecLaws α cfg hfl hops hchk

/-- the hypotheses are satisfiable: a closed history on a concrete `FixedCapacityVector<_,2>` -/
example : Post (runHist Example.exCfg 0 [opPushBack 7, opPushBack 8, opInsert 0 9, opClear]) Example.exMem
    (fun res m' => res = .ok () ∧ ∃ ys, Trace Example.exCfg [opPushBack 7, opPushBack 8, opInsert 0 9, opClear] [] ys ∧
      VRep Example.exCfg (Bridge.U8.FOk 2) 0 m' ys ∧ HInv m' ∧ m'.cat = Example.exMem.cat
      ∧ Owned Example.exCfg 0 Example.exMem.nextId m') :=
  C01_history (C01_laws_fixed_U8 Example.exCfg rfl rfl rfl) 0 _
    (by intro o ho; simp only [List.mem_cons, List.mem_nil_iff, or_false] at ho
        rcases ho with rfl | rfl | rfl | rfl
        · exact IsVecOp.pushBack 7
        · exact IsVecOp.pushBack 8
        · exact IsVecOp.insert 0 9
        · exact IsVecOp.clear)
    Example.exMem [] ⟨_, Example.exMem_rep⟩ Example.exMem_inv (by simp [Safe, opPushBack, opInsert, opClear])
    (by intro o ho; simp only [List.mem_cons, List.mem_nil_iff, or_false] at ho
        rcases ho with rfl | rfl | rfl | rfl <;> (intro h; cases h))
    _ (Owned.start Example.exCfg 0 Example.exMem_inv.fresh)

end AmcVerif.Props.C01
