import AmcVerif.Props.C03
import AmcVerif.Bridge.FlatSetHetBridge
/-! C03 (generated model, heterogeneous lookups) — `find / contains / count / lower_bound / upper_bound (const K &)` of a FlatSet
with a TRANSPARENT comparator, as regenerated from `flatset.hpp` on every run (`translator/flatset2lean.py` →
`*_het` of `Gen/FlatSetGen.lean`, instantiation `amc::FlatSet<int, TLess>` with a key of another type; tied to their
specification in `Bridge/FlatSetHetBridge.lean`), behave as those of `std::set`.

The comparator object is the triple of its call operators `lt` (element, element), `ltEK` (element, key), `ltKE` (key, element);
the standard's requirement on the key is the hypothesis `HetOK` (partitioned with respect to `comp(e, k)` and `!comp(k, e)`,
`comp(e, k)` implies `!comp(k, e)`), which holds on a content ordered by `lt` when the mixed comparisons are monotone along
`lt` (`C03_gen_het_ok`).  A key of another type may be equivalent to SEVERAL elements: `count` is their number (V27: the
header returned `contains(k)`, i.e. 0 / 1).  Every statement also says that no undefined behaviour is reached (the generated
function returns `some _`). -/
namespace AmcVerif.Props.C03
open AmcVerif AmcVerif.FS AmcVerif.Sets AmcVerif.Bridge.FlatSetHet
variable {α κ : Type} {ltEK : α → κ → Bool} {ltKE : κ → α → Bool} {l : List α} {k : κ}

/-- the requirement on the key holds on a sorted content as soon as the mixed comparisons are monotone along the order of the set -/
theorem C03_gen_het_ok {lt : α → α → Bool} (hs : Sorted lt l) (hc : HetCompat lt ltEK ltKE k) : HetOK ltEK ltKE l k :=
  hetOK_of_sorted l hs hc

/-- `lower_bound(const K &)` / `upper_bound(const K &)` on the code as it is now: well defined; the number of leading elements
    below the key / not above the key; exactly the elements before the lower bound are below the key, exactly those from the
    upper bound on are above it; at most `n` comparator calls each on fewer than `2^n` elements -/
theorem C03_gen_het_bounds (lt : α → α → Bool) (h : HetOK ltEK ltKE l k) (n : Nat) (hn : l.length < 2 ^ n) :
    ∃ lb ub, Gen.FlatSet.lower_bound_het lt ltEK ltKE l k = some lb ∧ Gen.FlatSet.upper_bound_het lt ltEK ltKE l k = some ub
      ∧ lb.1 = (l.takeWhile (fun x => ltEK x k)).length ∧ ub.1 = (l.takeWhile (fun x => !ltKE k x)).length
      ∧ lb.1 ≤ ub.1 ∧ ub.1 ≤ l.length
      ∧ (∀ j x, l[j]? = some x → (ltEK x k = true ↔ j < lb.1) ∧ (ltKE k x = true ↔ ub.1 ≤ j))
      ∧ lb.2 ≤ n ∧ ub.2 ≤ n := by
  refine ⟨_, _, lower_bound_het_eq lt h, upper_bound_het_eq lt h, rfl, rfl, ?_, length_takeWhile_le _ l, ?_,
    lbCalls_le ltEK l k n hn, ubCalls_le ltKE l k n hn⟩
  · have := ub_eq_lb_add_count h
    show lbIdx ltEK l k ≤ ubIdx ltKE l k
    omega
  · intro j x hx
    refine ⟨partitioned_iff _ l h.low j x hx, ?_⟩
    have := partitioned_iff _ l h.up j x hx
    simp only at this ⊢
    cases hq : ltKE k x <;> simp [hq] at this ⊢ <;> omega

/-- `count(const K &)` on the code as it is now: well defined; the NUMBER of elements equivalent to the key, which is the distance
    between the two bounds; at most `2 n` comparator calls on fewer than `2^n` elements -/
theorem C03_gen_het_count (lt : α → α → Bool) (h : HetOK ltEK ltKE l k) (n : Nat) (hn : l.length < 2 ^ n) :
    ∃ r, Gen.FlatSet.count_het lt ltEK ltKE l k = some r
      ∧ r.1 = (l.filter (fun x => !ltEK x k && !ltKE k x)).length
      ∧ r.1 + (l.takeWhile (fun x => ltEK x k)).length = (l.takeWhile (fun x => !ltKE k x)).length
      ∧ r.2 ≤ 2 * n := by
  refine ⟨_, count_het_eq lt h, rfl, ?_, ?_⟩
  · have := ub_eq_lb_add_count h
    show (l.filter (hetEqv ltEK ltKE k)).length + lbIdx ltEK l k = ubIdx ltKE l k
    omega
  · have h1 := lbCalls_le ltEK l k n hn
    have h2 := ubCalls_le ltKE l k n hn
    simp only; omega

/-- `find(const K &)` on the code as it is now: well defined; returns the position of the FIRST element equivalent to the key, and
    `end()` exactly when there is none; at most `n + 1` comparator calls -/
theorem C03_gen_het_find (lt : α → α → Bool) (h : HetOK ltEK ltKE l k) (n : Nat) (hn : l.length < 2 ^ n) :
    ∃ r, Gen.FlatSet.find_het lt ltEK ltKE l k = some r
      ∧ r.1 = l.findIdx (fun x => !ltEK x k && !ltKE k x)
      ∧ (r.1 = l.length ↔ ∀ x ∈ l, (!ltEK x k && !ltKE k x) = false)
      ∧ (∀ hlt : r.1 < l.length, (!ltEK l[r.1] k && !ltKE k l[r.1]) = true
          ∧ ∀ j (hj : j < r.1), (!ltEK l[j] k && !ltKE k l[j]) = false)
      ∧ r.2 ≤ n + 1 := by
  refine ⟨_, find_het_eq lt h, rfl, List.findIdx_eq_length, fun hlt => (List.findIdx_eq hlt).mp rfl, ?_⟩
  have h1 := lbCalls_le ltEK l k n hn
  simp only
  split <;> omega

/-- `contains(const K &)` on the code as it is now: well defined; true exactly when some element is equivalent to the key, i.e.
    when `count` is not zero -/
theorem C03_gen_het_contains (lt : α → α → Bool) (h : HetOK ltEK ltKE l k) :
    ∃ r c, Gen.FlatSet.contains_het lt ltEK ltKE l k = some r ∧ Gen.FlatSet.count_het lt ltEK ltKE l k = some c
      ∧ (r.1 = true ↔ c.1 ≠ 0) ∧ (r.1 = true ↔ ∃ x ∈ l, ltEK x k = false ∧ ltKE k x = false) := by
  refine ⟨_, _, contains_het_eq lt h, count_het_eq lt h, by simp, ?_⟩
  simp only [decide_eq_true_eq, ne_eq, List.length_eq_zero_iff, List.filter_eq_nil_iff, hetEqv]
  constructor
  · intro hne
    apply Classical.byContradiction
    intro hno
    apply hne
    intro x hx hq
    simp only [Bool.and_eq_true, Bool.not_eq_true'] at hq
    exact hno ⟨x, hx, hq⟩
  · rintro ⟨x, hx, h1, h2⟩ hall
    exact hall x hx (by simp [h1, h2])

/-! Non-vacuity, on a closed instance: the elements are natural numbers ordered by `<`, the key is a "band" number `d`, compared
with an element `x` through `x / 4` (monotone along `<`).  The band 1 contains three elements of `[1, 4, 5, 6, 9]`. -/

/-- the band comparisons are monotone along `<`: the requirement holds on every sorted content -/
example (d : Nat) : HetCompat (fun a b : Nat => decide (a < b)) (fun x d => decide (x / 4 < d)) (fun d x => decide (d < x / 4)) d := by
  refine ⟨fun x y hxy hy => ?_, fun x y hxy hx => ?_, fun x hx => ?_⟩
  · simp only [decide_eq_true_eq] at *
    have : x / 4 ≤ y / 4 := Nat.div_le_div_right (Nat.le_of_lt hxy); omega
  · simp only [decide_eq_true_eq] at *
    have : x / 4 ≤ y / 4 := Nat.div_le_div_right (Nat.le_of_lt hxy); omega
  · simp only [decide_eq_true_eq, decide_eq_false_iff_not] at *; omega

/-- the requirement holds on the instance, `count` is 3, the bounds are 1 and 4, `find` returns the first of the three -/
example :
    HetOK (fun x d => decide (x / 4 < d)) (fun d x => decide (d < x / 4)) [1, 4, 5, 6, 9] 1
    ∧ Gen.FlatSet.count_het (fun a b : Nat => decide (a < b)) (fun x d => decide (x / 4 < d)) (fun d x => decide (d < x / 4))
        [1, 4, 5, 6, 9] 1 = some (3, 6)
    ∧ Gen.FlatSet.lower_bound_het (fun a b : Nat => decide (a < b)) (fun x d => decide (x / 4 < d)) (fun d x => decide (d < x / 4))
        [1, 4, 5, 6, 9] 1 = some (1, 3)
    ∧ Gen.FlatSet.upper_bound_het (fun a b : Nat => decide (a < b)) (fun x d => decide (x / 4 < d)) (fun d x => decide (d < x / 4))
        [1, 4, 5, 6, 9] 1 = some (4, 3)
    ∧ Gen.FlatSet.find_het (fun a b : Nat => decide (a < b)) (fun x d => decide (x / 4 < d)) (fun d x => decide (d < x / 4))
        [1, 4, 5, 6, 9] 1 = some (1, 4) :=
  ⟨hetOK_of_b (by decide),
   by simp [Gen.FlatSet.count_het, Gen.FlatSet.upper_bound_het, Gen.FlatSet.lower_bound_het, lowerBoundBy, upperBoundBy],
   by simp [Gen.FlatSet.lower_bound_het, lowerBoundBy],
   by simp [Gen.FlatSet.upper_bound_het, upperBoundBy],
   by simp [Gen.FlatSet.find_het, Gen.FlatSet.lower_bound_het, lowerBoundBy]⟩

/-- the body before the repair (`return contains(k);`) would have returned 1 on this instance: `contains` is `true` where `count`
    is 3 -/
example :
    (Gen.FlatSet.count_het (fun a b : Nat => decide (a < b)) (fun x d => decide (x / 4 < d)) (fun d x => decide (d < x / 4))
        [1, 4, 5, 6, 9] 1).map (·.1) = some 3
    ∧ (Gen.FlatSet.contains_het (fun a b : Nat => decide (a < b)) (fun x d => decide (x / 4 < d)) (fun d x => decide (d < x / 4))
        [1, 4, 5, 6, 9] 1).map (·.1) = some true :=
  ⟨by simp [Gen.FlatSet.count_het, Gen.FlatSet.upper_bound_het, Gen.FlatSet.lower_bound_het, lowerBoundBy, upperBoundBy],
   by simp [Gen.FlatSet.contains_het, Gen.FlatSet.find_het, Gen.FlatSet.lower_bound_het, lowerBoundBy]⟩

end AmcVerif.Props.C03
