import AmcVerif.Props.Common
/-! C08 — capacity-limit errors are clean (word level): the error is raised exactly when the needed size exceeds the
limit, before anything is modified (the word functions are pure: an `.error` result carries no new state), and no
size computation wraps around (the laws state the results in unbounded arithmetic although the generated
definitions compute modulo 2^bits). -/
namespace AmcVerif.Props.C08
open AmcVerif AmcVerif.Props
variable {ops : BaseOps} {N : Nat}

/-- dynamic vectors: an operation throws iff it needs more than the size_type maximum, and then it is
    `std::overflow_error` raised by `adjustCapacity` before any word is written -/
def OverflowStmt (ops : BaseOps) (N : Nat) : Prop :=
  ∀ (t : VB), SRep N ops.kMax t → ∀ (op : WOp), op.Valid ops t → ops.capacity t < 2 ^ 62 → ∀ (fresh : Nat),
    ((∃ e, wStep ops N t fresh op = .error e) ↔ ops.kMax < op.needed (ops.size t))
    ∧ (∀ e, wStep ops N t fresh op = .error e → e = .overflow)

theorem C08_overflow (L : SmallLaws ops N) : OverflowStmt ops N := by
  intro t h op hv h62 fresh
  refine ⟨wStep_error L t h op hv h62 fresh, ?_⟩
  intro e he
  have hk := (wStep_error L t h op hv h62 fresh).mp ⟨e, he⟩
  have hb := L.bounds t h
  cases op with
  | growTo needed newSize =>
    simp only [wStep, WOp.needed] at he hk
    rw [wAdjust_overflow L t h needed fresh hk] at he
    cases he; rfl
  | push =>
    simp only [wStep, WOp.needed] at he hk
    rw [wAdjust_overflow L t h _ fresh hk] at he
    cases he; rfl
  | shrinkTo n => simp [wStep] at he
  | pop => simp [wStep] at he
  | reserve n => simp only [WOp.Valid] at hv; simp only [WOp.needed] at hk; omega
  | shrinkToFit => simp [wStep] at he

/-- no wrap-around: within the invariant the size words change by exactly the unbounded amount -/
def NoWrapStmt (ops : BaseOps) (N : Nat) : Prop :=
  ∀ (t : VB), SRep N ops.kMax t →
    (ops.size t < ops.capacity t → ops.size (ops.incrSize t) = ops.size t + 1)
    ∧ (0 < ops.size t → ops.size (ops.decrSize t) + 1 = ops.size t)
    ∧ (∀ s, s ≤ ops.capacity t → ops.size (ops.setSize t s) = s)

theorem C08_no_wrap (L : SmallLaws ops N) : NoWrapStmt ops N :=
  fun t h => ⟨fun hr => (L.incr t h hr).2.1, fun hp => (L.decr t h hp).2.1, fun s hs => (L.setSize t h s hs).2.1⟩

theorem C08_overflow_U8 (N : Nat) (h : N < 255) (h0 : 0 < N) : OverflowStmt Gen.U8.svbOps N := C08_overflow (lawsU8 N h h0)
theorem C08_overflow_U16 (N : Nat) (h : N < 65535) (h0 : 0 < N) : OverflowStmt Gen.U16.svbOps N := C08_overflow (lawsU16 N h h0)
theorem C08_overflow_U32 (N : Nat) (h : N < 4294967295) (h0 : 0 < N) : OverflowStmt Gen.U32.svbOps N := C08_overflow (lawsU32 N h h0)
theorem C08_no_wrap_U8 (N : Nat) (h : N < 255) (h0 : 0 < N) : NoWrapStmt Gen.U8.svbOps N := C08_no_wrap (lawsU8 N h h0)
theorem C08_no_wrap_U64 (N : Nat) (h : N < 18446744073709551615) (h0 : 0 < N) : NoWrapStmt Gen.U64.svbOps N := C08_no_wrap (lawsU64 N h h0)

/-- FixedCapacityVector with the throwing policy: `Check(needed, capacity)` (generated) throws `out_of_range` exactly
    when more than the capacity is needed -/
theorem C08_static_check_U8 (needed cap : Nat) :
    (cap < needed → Gen.U8.Check needed cap = .error .outOfRange) ∧ (needed ≤ cap → Gen.U8.Check needed cap = .ok []) :=
  ⟨Bridge.U8.check_err needed cap, Bridge.U8.check_ok needed cap⟩
theorem C08_static_check_U32 (needed cap : Nat) :
    (cap < needed → Gen.U32.Check needed cap = .error .outOfRange) ∧ (needed ≤ cap → Gen.U32.Check needed cap = .ok []) :=
  ⟨Bridge.U32.check_err needed cap, Bridge.U32.check_ok needed cap⟩

/-- the amc::vector flavour (StdVectorBase): same overflow behaviour of `grow` -/
theorem C08_dvb_overflow_U8 (t : VB) (needed fresh : Nat) (hk : 255 < needed) :
    Gen.U8.DVB.grow t needed false fresh = .error .overflow :=
  Bridge.U8.dvb_grow_err t needed false fresh .overflow (Bridge.U8.safeNext_overflow _ _ hk)

/-- non-vacuity: a full uint8_t-sized heap vector (255/255) satisfies the premises and `push` overflows -/
example : SRep 4 255 ⟨255, 255, PtrV.blk 1⟩ := by decide
example : (match wStep Gen.U8.svbOps 4 ⟨255, 255, PtrV.blk 1⟩ 2 .push with | .error .overflow => true | _ => false) = true := by decide

end AmcVerif.Props.C08
