import AmcVerif.Props.C07b
/-! C05 (container level) — the inline-storage promise: "a `SmallVector<T,N>` makes no allocator request, reports
`capacity() == N` and keeps its elements inside the object for as long as its size has not exceeded N; a
`FixedCapacityVector` never requests dynamic memory and its `begin()` never changes".

`Props/C05.lean` proves this for the size/capacity words and the effect lists of the generated members. Here it is proved for
the public operations of the container model on the slot-level memory (the catalogue `VOp` of the 23 operation kinds of
`IsVecOp`), for whole histories, continuing after every C++ exception ("whatever throws"): from the address-stability theorems
of `Lemmas/VecStable.lean`. "The allocator is never asked" is literal: the block counter `nextId` is unchanged (`grow` takes a
fresh identifier before anything else, so it was not even attempted), no heap block has appeared or disappeared, and the
`allocate` / `deallocate` / `reallocate` call counters of the memory are unchanged. -/
namespace AmcVerif.Props.C05
open AmcVerif AmcVerif.Props.C07
variable {α : Type}

/-- the allocator was not asked between `m` and `m'`: no block identifier taken, the same heap blocks (with the same allocation
    counts) exist, no allocator call counted -/
def NoAlloc (m m' : Mem α) : Prop :=
  m'.nextId = m.nextId ∧ (∀ id, (m'.buf (.blk id)).isSome = (m.buf (.blk id)).isSome ∧ m'.cnt id = m.cnt id) ∧
  m'.ev.al = m.ev.al ∧ m'.ev.de = m.ev.de ∧ m'.ev.re = m.ev.re

theorem NoAlloc.ofNoRealloc {cfg : Cfg} {m m' : Mem α} {w w' : VB} (h : NoRealloc cfg m m' w w') : NoAlloc m m' := h.2.2

/-- an inline SmallVector has capacity N and its elements in the inline storage of the object -/
theorem small_inline {cfg : Cfg} (LS : SmallLaws cfg.ops cfg.n) (c : Nat) {w : VB} (hok : SOkW cfg.ops cfg.n w)
    (hsm : cfg.ops.isSmall w = true) : cfg.ops.capacity w = cfg.n ∧ cfg.ops.begin w = PtrV.inl 0 ∧ regionOf cfg c w = .inl c := by
  have hb : cfg.ops.begin w = PtrV.inl 0 := by rw [LS.begin_small, hsm]; rfl
  exact ⟨(LS.bounds w hok.1).2.2 hsm, hb, by unfold regionOf; rw [hb]; rfl⟩

/-- a SmallVector whose buffer pointer is the inline storage is in the inline state -/
theorem small_of_begin {cfg : Cfg} (LS : SmallLaws cfg.ops cfg.n) {w : VB} (hok : SOkW cfg.ops cfg.n w)
    (hb : cfg.ops.begin w = PtrV.inl 0) : cfg.ops.isSmall w = true := by
  cases hs : cfg.ops.isSmall w with
  | true => rfl
  | false =>
    rw [LS.begin_small, hs] at hb
    simp only [Bool.false_eq_true, ↓reduceIte] at hb
    rcases hok.2 hs with ⟨id, hd, _⟩ | ⟨hd, _⟩
    · rw [hd] at hb; cases hb
    · rw [hd] at hb; cases hb

/-- A SmallVector in the inline state, driven by any history of catalogue operations all of whose intermediate results (along
    every outcome: each operation takes effect or throws) have at most N elements and whose `reserve` requests are at most N:
    no lifetime fault; the final state is one the `std::vector` semantics allows; the container is still in the inline state
    with `capacity() == N`, its elements in the inline storage of the object; and the allocator was never asked — whatever
    throws. -/
theorem C05_small_inline_history {cfg : Cfg} (LS : SmallLaws cfg.ops cfg.n) (L : VecLaws α cfg (SOkW cfg.ops cfg.n))
    (c : Nat) (ks : List (VOp α)) (m : Mem α) (xs : List α) (w : VB)
    (hw : VRepW cfg (SOkW cfg.ops cfg.n) c m xs w) (hsm : cfg.ops.isSmall w = true) (hi : HInv m)
    (hs : Safe cfg (ks.map VOp.spec) xs) (hcat : ∀ k ∈ ks, k.spec.nonTC = true → m.cat ≠ .tc)
    (hfit : FitsAll cfg cfg.n ks xs) :
    Post (runHist cfg c (ks.map VOp.spec)) m (fun res m' => res = .ok () ∧ ∃ ys w', Trace cfg (ks.map VOp.spec) xs ys ∧
      VRepW cfg (SOkW cfg.ops cfg.n) c m' ys w' ∧ HInv m' ∧ m'.cat = m.cat ∧
      cfg.ops.isSmall w' = true ∧ cfg.ops.capacity w' = cfg.n ∧ regionOf cfg c w' = .inl c ∧ NoAlloc m m') := by
  obtain ⟨hcap, hbeg, _⟩ := small_inline LS c hw.ok hsm
  refine Post.mono (C07_history_no_realloc L c ks m xs w hw hi hs hcat (by rw [hcap]; exact hfit)) ?_
  rintro res m' ⟨hr, ys, w', ht, hw', hi', hc', hn⟩
  have hsm' := small_of_begin LS hw'.ok (hn.1.trans hbeg)
  exact ⟨hr, ys, w', ht, hw', hi', hc', hsm', hn.2.1.trans hcap, (small_inline LS c hw'.ok hsm').2.2, NoAlloc.ofNoRealloc hn⟩

/-- one operation on an inline SmallVector whose result has at most N elements: the same, for every outcome -/
theorem C05_small_inline_step {cfg : Cfg} (LS : SmallLaws cfg.ops cfg.n) (L : VecLaws α cfg (SOkW cfg.ops cfg.n))
    (k : VOp α) (m : Mem α) (c : Nat) (xs : List α) (w : VB)
    (hw : VRepW cfg (SOkW cfg.ops cfg.n) c m xs w) (hsm : cfg.ops.isSmall w = true) (hi : HInv m)
    (hpre : k.spec.pre cfg xs) (hcat : k.spec.nonTC = true → m.cat ≠ .tc) (hfit : k.need xs ≤ cfg.n) :
    Post (k.spec.run cfg c) m (fun res m' => OpStepPost cfg (SOkW cfg.ops cfg.n) c m w xs k.spec res m' ∧
      ∃ ys w', VRepW cfg (SOkW cfg.ops cfg.n) c m' ys w' ∧
        cfg.ops.isSmall w' = true ∧ cfg.ops.capacity w' = cfg.n ∧ regionOf cfg c w' = .inl c ∧ NoAlloc m m') := by
  obtain ⟨hcap, hbeg, _⟩ := small_inline LS c hw.ok hsm
  refine Post.mono (C07_no_realloc_when_fits L k m c xs w hw hi hpre hcat (by rw [hcap]; exact hfit)) ?_
  rintro res m' ⟨hstep, ys, w', hw', hn⟩
  have hsm' := small_of_begin LS hw'.ok (hn.1.trans hbeg)
  exact ⟨hstep, ys, w', hw', hsm', hn.2.1.trans hcap, (small_inline LS c hw'.ok hsm').2.2, NoAlloc.ofNoRealloc hn⟩

/-- A container of a static flavour (FixedCapacityVector), driven by ANY history of catalogue operations (no size hypothesis:
    an over-long result throws instead): no lifetime fault, a final state the list semantics allows, `begin()` and `capacity()`
    are what they were, and dynamic memory was never requested — whatever throws. -/
theorem C05_static_never_allocates {cfg : Cfg} {Ok : VB → Prop} (L : VecLaws α cfg Ok) (hd : cfg.dynamic = false)
    (c : Nat) (ks : List (VOp α)) (m : Mem α) (xs : List α) (w : VB)
    (hw : VRepW cfg Ok c m xs w) (hi : HInv m) (hs : Safe cfg (ks.map VOp.spec) xs)
    (hcat : ∀ k ∈ ks, k.spec.nonTC = true → m.cat ≠ .tc) :
    Post (runHist cfg c (ks.map VOp.spec)) m (fun res m' => res = .ok () ∧ ∃ ys w', Trace cfg (ks.map VOp.spec) xs ys ∧
      VRepW cfg Ok c m' ys w' ∧ HInv m' ∧ m'.cat = m.cat ∧
      cfg.ops.begin w' = cfg.ops.begin w ∧ cfg.ops.capacity w' = cfg.ops.capacity w ∧ regionOf cfg c w' = regionOf cfg c w ∧
      NoAlloc m m') :=
  Post.mono (hist_stable L c ks m xs w hw hi hs hcat (Or.inl hd))
    (fun _ _ ⟨hr, ys, w', ht, hw', hi', hc', hb, hcp, hst⟩ =>
      ⟨hr, ys, w', ht, hw', hi', hc', hb, hcp, regionOf_congr cfg c w w' hb, NoAlloc.ofNoRealloc (NoRealloc.ofStable hb hcp hst)⟩)

/-! ### The generated members (U8 and U32 size types) -/

theorem C05_small_inline_history_U8 (cfg : Cfg) (hfl : cfg.flavour = .small) (hops : cfg.ops = Gen.U8.svbOps)
    (hN : cfg.n < Gen.U8.kMax) (hN0 : 0 < cfg.n) (c : Nat) (ks : List (VOp α)) (m : Mem α) (xs : List α) (w : VB)
    (hw : VRepW cfg (SOkW cfg.ops cfg.n) c m xs w) (hsm : cfg.ops.isSmall w = true) (hi : HInv m)
    (hs : Safe cfg (ks.map VOp.spec) xs) (hcat : ∀ k ∈ ks, k.spec.nonTC = true → m.cat ≠ .tc)
    (hfit : FitsAll cfg cfg.n ks xs) :
    Post (runHist cfg c (ks.map VOp.spec)) m (fun res m' => res = .ok () ∧ ∃ ys w', Trace cfg (ks.map VOp.spec) xs ys ∧
      VRepW cfg (SOkW cfg.ops cfg.n) c m' ys w' ∧ HInv m' ∧ m'.cat = m.cat ∧
      cfg.ops.isSmall w' = true ∧ cfg.ops.capacity w' = cfg.n ∧ regionOf cfg c w' = .inl c ∧ NoAlloc m m') :=
  C05_small_inline_history (hops ▸ Bridge.U8.svb_laws cfg.n hN hN0) (Bridge.U8.small_vecLaws α cfg hfl hops hN hN0)
    c ks m xs w hw hsm hi hs hcat hfit

theorem C05_small_inline_history_U32 (cfg : Cfg) (hfl : cfg.flavour = .small) (hops : cfg.ops = Gen.U32.svbOps)
    (hN : cfg.n < Gen.U32.kMax) (hN0 : 0 < cfg.n) (c : Nat) (ks : List (VOp α)) (m : Mem α) (xs : List α) (w : VB)
    (hw : VRepW cfg (SOkW cfg.ops cfg.n) c m xs w) (hsm : cfg.ops.isSmall w = true) (hi : HInv m)
    (hs : Safe cfg (ks.map VOp.spec) xs) (hcat : ∀ k ∈ ks, k.spec.nonTC = true → m.cat ≠ .tc)
    (hfit : FitsAll cfg cfg.n ks xs) :
    Post (runHist cfg c (ks.map VOp.spec)) m (fun res m' => res = .ok () ∧ ∃ ys w', Trace cfg (ks.map VOp.spec) xs ys ∧
      VRepW cfg (SOkW cfg.ops cfg.n) c m' ys w' ∧ HInv m' ∧ m'.cat = m.cat ∧
      cfg.ops.isSmall w' = true ∧ cfg.ops.capacity w' = cfg.n ∧ regionOf cfg c w' = .inl c ∧ NoAlloc m m') :=
  C05_small_inline_history (hops ▸ Bridge.U32.svb_laws cfg.n hN hN0) (Bridge.U32.small_vecLaws α cfg hfl hops hN hN0)
    c ks m xs w hw hsm hi hs hcat hfit

theorem C05_small_inline_step_U8 (cfg : Cfg) (hfl : cfg.flavour = .small) (hops : cfg.ops = Gen.U8.svbOps)
    (hN : cfg.n < Gen.U8.kMax) (hN0 : 0 < cfg.n) (k : VOp α) (m : Mem α) (c : Nat) (xs : List α) (w : VB)
    (hw : VRepW cfg (SOkW cfg.ops cfg.n) c m xs w) (hsm : cfg.ops.isSmall w = true) (hi : HInv m)
    (hpre : k.spec.pre cfg xs) (hcat : k.spec.nonTC = true → m.cat ≠ .tc) (hfit : k.need xs ≤ cfg.n) :
    Post (k.spec.run cfg c) m (fun res m' => OpStepPost cfg (SOkW cfg.ops cfg.n) c m w xs k.spec res m' ∧
      ∃ ys w', VRepW cfg (SOkW cfg.ops cfg.n) c m' ys w' ∧
        cfg.ops.isSmall w' = true ∧ cfg.ops.capacity w' = cfg.n ∧ regionOf cfg c w' = .inl c ∧ NoAlloc m m') :=
  C05_small_inline_step (hops ▸ Bridge.U8.svb_laws cfg.n hN hN0) (Bridge.U8.small_vecLaws α cfg hfl hops hN hN0)
    k m c xs w hw hsm hi hpre hcat hfit

theorem C05_small_inline_step_U32 (cfg : Cfg) (hfl : cfg.flavour = .small) (hops : cfg.ops = Gen.U32.svbOps)
    (hN : cfg.n < Gen.U32.kMax) (hN0 : 0 < cfg.n) (k : VOp α) (m : Mem α) (c : Nat) (xs : List α) (w : VB)
    (hw : VRepW cfg (SOkW cfg.ops cfg.n) c m xs w) (hsm : cfg.ops.isSmall w = true) (hi : HInv m)
    (hpre : k.spec.pre cfg xs) (hcat : k.spec.nonTC = true → m.cat ≠ .tc) (hfit : k.need xs ≤ cfg.n) :
    Post (k.spec.run cfg c) m (fun res m' => OpStepPost cfg (SOkW cfg.ops cfg.n) c m w xs k.spec res m' ∧
      ∃ ys w', VRepW cfg (SOkW cfg.ops cfg.n) c m' ys w' ∧
        cfg.ops.isSmall w' = true ∧ cfg.ops.capacity w' = cfg.n ∧ regionOf cfg c w' = .inl c ∧ NoAlloc m m') :=
  C05_small_inline_step (hops ▸ Bridge.U32.svb_laws cfg.n hN hN0) (Bridge.U32.small_vecLaws α cfg hfl hops hN hN0)
    k m c xs w hw hsm hi hpre hcat hfit

/-- FixedCapacityVector (exception growing policy), U8 size type: never requests dynamic memory; `begin()` is the inline
    storage of the object for the whole history; `capacity()` is constant -/
theorem C05_fixed_never_allocates_U8 (cfg : Cfg) (hfl : cfg.flavour = .fixed) (hops : cfg.ops = Gen.U8.fvbOps)
    (hchk : cfg.checked = true) (c : Nat) (ks : List (VOp α)) (m : Mem α) (xs : List α) (w : VB)
    (hw : VRepW cfg (Bridge.U8.FOk cfg.n) c m xs w) (hi : HInv m) (hs : Safe cfg (ks.map VOp.spec) xs)
    (hcat : ∀ k ∈ ks, k.spec.nonTC = true → m.cat ≠ .tc) :
    Post (runHist cfg c (ks.map VOp.spec)) m (fun res m' => res = .ok () ∧ ∃ ys w', Trace cfg (ks.map VOp.spec) xs ys ∧
      VRepW cfg (Bridge.U8.FOk cfg.n) c m' ys w' ∧ HInv m' ∧ m'.cat = m.cat ∧
      regionOf cfg c w' = .inl c ∧ regionOf cfg c w = .inl c ∧ cfg.ops.capacity w' = cfg.ops.capacity w ∧ NoAlloc m m') := by
  have hreg : ∀ t : VB, regionOf cfg c t = .inl c := fun t => by unfold regionOf; rw [hops]; rfl
  refine Post.mono (C05_static_never_allocates (Bridge.U8.fixed_vecLaws α cfg hfl hops hchk) (by simp [Cfg.dynamic, hfl])
    c ks m xs w hw hi hs hcat) ?_
  rintro res m' ⟨hr, ys, w', ht, hw', hi', hc', _, hcp, _, hn⟩
  exact ⟨hr, ys, w', ht, hw', hi', hc', hreg w', hreg w, hcp, hn⟩

theorem C05_fixed_never_allocates_U32 (cfg : Cfg) (hfl : cfg.flavour = .fixed) (hops : cfg.ops = Gen.U32.fvbOps)
    (hchk : cfg.checked = true) (c : Nat) (ks : List (VOp α)) (m : Mem α) (xs : List α) (w : VB)
    (hw : VRepW cfg (Bridge.U32.FOk cfg.n) c m xs w) (hi : HInv m) (hs : Safe cfg (ks.map VOp.spec) xs)
    (hcat : ∀ k ∈ ks, k.spec.nonTC = true → m.cat ≠ .tc) :
    Post (runHist cfg c (ks.map VOp.spec)) m (fun res m' => res = .ok () ∧ ∃ ys w', Trace cfg (ks.map VOp.spec) xs ys ∧
      VRepW cfg (Bridge.U32.FOk cfg.n) c m' ys w' ∧ HInv m' ∧ m'.cat = m.cat ∧
      regionOf cfg c w' = .inl c ∧ regionOf cfg c w = .inl c ∧ cfg.ops.capacity w' = cfg.ops.capacity w ∧ NoAlloc m m') := by
  have hreg : ∀ t : VB, regionOf cfg c t = .inl c := fun t => by unfold regionOf; rw [hops]; rfl
  refine Post.mono (C05_static_never_allocates (Bridge.U32.fixed_vecLaws α cfg hfl hops hchk) (by simp [Cfg.dynamic, hfl])
    c ks m xs w hw hi hs hcat) ?_
  rintro res m' ⟨hr, ys, w', ht, hw', hi', hc', _, hcp, _, hn⟩
  exact ⟨hr, ys, w', ht, hw', hi', hc', hreg w', hreg w, hcp, hn⟩

/-! ### Closed instances: the theorems are not vacuous -/
namespace Example
open AmcVerif.Example

/-- `FixedCapacityVector<T,2>` (U8 size type), the memory of `Lemmas/VecOpSpecs.lean`: the history
    `push_back(7); push_back(8); insert(begin(), 9); clear()` — the insertion exceeds the capacity and throws — never asks for
    dynamic memory and `begin()` stays the inline storage -/
example : Post (runHist exCfg 0 ([VOp.pushBack 7, .pushBack 8, .insert 0 9, .clear].map VOp.spec)) exMem
    (fun res m' => res = .ok () ∧ ∃ ys w', Trace exCfg ([VOp.pushBack 7, .pushBack 8, .insert 0 9, .clear].map VOp.spec) [] ys ∧
      VRepW exCfg (Bridge.U8.FOk exCfg.n) 0 m' ys w' ∧ HInv m' ∧ m'.cat = exMem.cat ∧
      regionOf exCfg 0 w' = .inl 0 ∧ regionOf exCfg 0 (Gen.U8.fvbOps.ctor 2) = .inl 0 ∧
      exCfg.ops.capacity w' = exCfg.ops.capacity (Gen.U8.fvbOps.ctor 2) ∧ NoAlloc exMem m') :=
  C05_fixed_never_allocates_U8 exCfg rfl rfl rfl 0 _ exMem [] _ exMem_rep exMem_inv
    (by simp [Safe, VOp.spec, opPushBack, opClear, opInsert])
    (by
      intro k hk hn
      simp only [List.mem_cons, List.not_mem_nil, or_false] at hk
      rcases hk with rfl | rfl | rfl | rfl <;> cases hn)

/-- `SmallVector<T,2>` (U8 size type): a memory holding one freshly constructed such container -/
def smCfg : Cfg := { flavour := .small, n := 2, ops := Gen.U8.svbOps }
def smMem : Mem Nat := { ws := [Gen.U8.svbOps.ctor 2], inls := [[.raw, .raw]], blocks := [] }

theorem smMem_rep : VRepW smCfg (SOkW smCfg.ops smCfg.n) 0 smMem [] (Gen.U8.svbOps.ctor 2) where
  store := {
    ws := rfl
    ok := ⟨by show SRep 2 255 (Gen.U8.svbOps.ctor 2); unfold SRep; decide, fun h => by
      have : smCfg.ops.isSmall (Gen.U8.svbOps.ctor 2) = true := by decide
      rw [this] at h; cases h⟩
    len := rfl
    buf := Or.inr rfl
    cnt := fun id h => by
      have : regionOf smCfg 0 (Gen.U8.svbOps.ctor 2) = .inl 0 := by decide
      rw [this] at h; cases h
    inl := fun h => absurd (by decide) h }
  size := rfl

theorem smMem_inv : HInv smMem := ⟨fun id h => by simp [Mem.buf, smMem] at h, rfl⟩

/-- the history `push_back(7); clear(); insert(begin(), 9); reserve(2)` on the empty `SmallVector<_,2>` never
    exceeds two elements, whichever of its operations throw: it stays inline with capacity 2 and the allocator is never asked -/
example : Post (runHist smCfg 0 ([VOp.pushBack 7, .clear, .insert 0 9, .reserve 2].map VOp.spec)) smMem
    (fun res m' => res = .ok () ∧ ∃ ys w',
      Trace smCfg ([VOp.pushBack 7, .clear, .insert 0 9, .reserve 2].map VOp.spec) [] ys ∧
      VRepW smCfg (SOkW smCfg.ops smCfg.n) 0 m' ys w' ∧ HInv m' ∧ m'.cat = smMem.cat ∧
      smCfg.ops.isSmall w' = true ∧ smCfg.ops.capacity w' = smCfg.n ∧ regionOf smCfg 0 w' = .inl 0 ∧ NoAlloc smMem m') :=
  C05_small_inline_history_U8 smCfg rfl rfl (by decide) (by decide) 0 _ smMem [] _ smMem_rep (by decide) smMem_inv
    (by simp [Safe, VOp.spec, opPushBack, opClear, opInsert, opReserve, smCfg, Gen.U8.svbOps])
    (by
      intro k hk hn
      simp only [List.mem_cons, List.not_mem_nil, or_false] at hk
      rcases hk with rfl | rfl | rfl | rfl <;> cases hn)
    (by simp [FitsAll, VOp.need, VOp.req, VOp.spec, opPushBack, opClear, opInsert, opReserve, smCfg])

end Example
end AmcVerif.Props.C05
