import AmcVerif.Props.C04
import AmcVerif.Bridge.SmallSetHetBridge
/-! C04 (generated model, heterogeneous lookups) — `find / contains / count (const K &)` of a SmallSet with a TRANSPARENT comparator,
as regenerated from `smallset.hpp` on every run (`translator/smallset2lean.py` → `*_het` of `Gen/SmallSetGen.lean`, from the
instantiations with `amc::FlatSet<int, TLess>` and with `std::set<int, TLess>` as backing set, which give the same text; tied to
their specification in `Bridge/SmallSetHetBridge.lean`), behave as those of `std::set`, in the inline state (scan of `_vec` with
`FindFunctor<K>`) as well as in the large state (the backing set is asked).

The comparator object is the triple of its call operators `lt` (element, element), `ltEK` (element, key), `ltKE` (key, element).
A key of another type may be equivalent to SEVERAL elements: `count` is their number (V27: the header returned `contains(k)`,
i.e. 0 / 1).  `s.elems` is the container in use (`_vec` in the inline state, `_set` otherwise).  Every statement also says that
no undefined behaviour is reached (the generated function returns `some _`). -/
namespace AmcVerif.Props.C04
open AmcVerif AmcVerif.FS AmcVerif.Sets AmcVerif.Bridge.FlatSetHet AmcVerif.Bridge.SmallSetHet
variable {α κ : Type}

/-- `count(const K &)` on the code as it is now: well defined; the NUMBER of elements equivalent to the key, in both states; at most
    two comparator calls per inline element by SmallSet's own code -/
theorem C04_gen_het_count (lt : α → α → Bool) (ltEK : α → κ → Bool) (ltKE : κ → α → Bool) (N : Nat) (s : SSet α) (k : κ) :
    ∃ r, Gen.SmallSet.count_het lt ltEK ltKE N s k = some r
      ∧ r.1 = (s.elems.filter (fun x => !ltEK x k && !ltKE k x)).length ∧ r.2 ≤ 2 * s.vec.length :=
  ⟨_, count_het_eq lt ltEK ltKE N s k, rfl, countCallsHet_le ltEK ltKE s k⟩

/-- `find(const K &)` on the code as it is now: well defined; an iterator of the container in use, at the position of the FIRST element
    equivalent to the key, `end()` exactly when there is none -/
theorem C04_gen_het_find (lt : α → α → Bool) (ltEK : α → κ → Bool) (ltKE : κ → α → Bool) (N : Nat) (s : SSet α) (k : κ) :
    ∃ r, Gen.SmallSet.find_het lt ltEK ltKE N s k = some r
      ∧ r.1.1 = s.isSmall ∧ r.1.2 = s.elems.findIdx (fun x => !ltEK x k && !ltKE k x)
      ∧ (r.1.2 = s.elems.length ↔ ∀ x ∈ s.elems, (!ltEK x k && !ltKE k x) = false)
      ∧ (∀ hlt : r.1.2 < s.elems.length, (!ltEK s.elems[r.1.2] k && !ltKE k s.elems[r.1.2]) = true
          ∧ ∀ j (hj : j < r.1.2), (!ltEK s.elems[j] k && !ltKE k s.elems[j]) = false)
      ∧ r.2 ≤ 2 * s.vec.length :=
  ⟨_, find_het_eq lt ltEK ltKE N s k, rfl, rfl, List.findIdx_eq_length, fun hlt => (List.findIdx_eq hlt).mp rfl,
    scanCallsHet_le ltEK ltKE s k⟩

/-- `contains(const K &)` on the code as it is now: well defined; true exactly when some element is equivalent to the key, i.e. when
    `count` is not zero -/
theorem C04_gen_het_contains (lt : α → α → Bool) (ltEK : α → κ → Bool) (ltKE : κ → α → Bool) (N : Nat) (s : SSet α) (k : κ) :
    ∃ r c, Gen.SmallSet.contains_het lt ltEK ltKE N s k = some r ∧ Gen.SmallSet.count_het lt ltEK ltKE N s k = some c
      ∧ (r.1 = true ↔ c.1 ≠ 0) ∧ (r.1 = true ↔ ∃ x ∈ s.elems, ltEK x k = false ∧ ltKE k x = false) := by
  refine ⟨_, _, contains_het_eq lt ltEK ltKE N s k, count_het_eq lt ltEK ltKE N s k, by simp, ?_⟩
  simp only [decide_eq_true_eq, ne_eq, List.length_eq_zero_iff, List.filter_eq_nil_iff, hetEqv]
  constructor
  · intro hne
    apply Classical.byContradiction
    intro hno
    apply hne
    intro x hx hq
    simp only [Bool.and_eq_true, Bool.not_eq_true'] at hq
    exact hno ⟨x, hx, hq⟩
  · rintro ⟨x, hx, h1, h2⟩ hall
    exact hall x hx (by simp [h1, h2])

/-- in the large state with a FlatSet as backing set, what the backing set is asked is what the generated
    `FlatSet::find(const K &)` / `count(const K &)` return, under the standard's requirement on the key (`HetOK`) -/
theorem C04_gen_het_backing (lt : α → α → Bool) {ltEK : α → κ → Bool} {ltKE : κ → α → Bool} {l : List α} {k : κ}
    (h : HetOK ltEK ltKE l k) :
    (∃ r, Gen.FlatSet.find_het lt ltEK ltKE l k = some r ∧ r.1 = findHetIdx ltEK ltKE l k)
    ∧ (∃ r, Gen.FlatSet.count_het lt ltEK ltKE l k = some r ∧ r.1 = countHet ltEK ltKE l k) :=
  backing_flatset lt h

/-! Non-vacuity, on closed instances: natural numbers ordered by `<`, the key is a "band" number `d` compared with an element `x`
through `x / 4`.  The band 1 contains three elements, in the inline state (insertion order) and in the large state. -/

/-- inline state: `count` is 3, `contains` is `true`, `find` designates the first equivalent element in insertion order -/
example :
    Gen.SmallSet.count_het (fun a b : Nat => decide (a < b)) (fun x d => decide (x / 4 < d)) (fun d x => decide (d < x / 4))
        8 ⟨[9, 5, 1, 6, 4], []⟩ 1 = some (3, 9)
    ∧ Gen.SmallSet.contains_het (fun a b : Nat => decide (a < b)) (fun x d => decide (x / 4 < d)) (fun d x => decide (d < x / 4))
        8 ⟨[9, 5, 1, 6, 4], []⟩ 1 = some (true, 3)
    ∧ Gen.SmallSet.find_het (fun a b : Nat => decide (a < b)) (fun x d => decide (x / 4 < d)) (fun d x => decide (d < x / 4))
        8 ⟨[9, 5, 1, 6, 4], []⟩ 1 = some ((true, 1), 3) := by
  refine ⟨by decide, by decide, by decide⟩

/-- large state: `count` is 3 where the body before the repair (`return contains(k);`) would have returned 1 -/
example :
    Gen.SmallSet.count_het (fun a b : Nat => decide (a < b)) (fun x d => decide (x / 4 < d)) (fun d x => decide (d < x / 4))
        2 ⟨[], [1, 4, 5, 6, 9]⟩ 1 = some (3, 0)
    ∧ Gen.SmallSet.contains_het (fun a b : Nat => decide (a < b)) (fun x d => decide (x / 4 < d)) (fun d x => decide (d < x / 4))
        2 ⟨[], [1, 4, 5, 6, 9]⟩ 1 = some (true, 0)
    ∧ Gen.SmallSet.find_het (fun a b : Nat => decide (a < b)) (fun x d => decide (x / 4 < d)) (fun d x => decide (d < x / 4))
        2 ⟨[], [1, 4, 5, 6, 9]⟩ 1 = some ((false, 1), 0) := by
  refine ⟨by decide, by decide, by decide⟩

end AmcVerif.Props.C04
