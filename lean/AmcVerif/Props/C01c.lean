import AmcVerif.Lemmas.VecPoolHistory
import AmcVerif.Bridge.MoveLawsU8
import AmcVerif.Bridge.ShrinkLawsU8
import AmcVerif.Bridge.MoveLawsU16
import AmcVerif.Bridge.ShrinkLawsU16
import AmcVerif.Bridge.MoveLawsU32
import AmcVerif.Bridge.ShrinkLawsU32
import AmcVerif.Bridge.MoveLawsU64
import AmcVerif.Bridge.ShrinkLawsU64
/-! C01 (pool level) — several SmallVectors in one memory behave as several `std::vector`s: histories of single-container
operations, `shrink_to_fit`, copy assignment, move assignment and swap BETWEEN the containers of a pool, destruction followed by
default / move / copy construction of a slot.

`PoolRep cfg Ok P n0 m xss` (Lemmas/VecPool.lean): pool slots `0 … P-1` of memory `m` hold the lists `xss`, no heap block has two
owners, every block allocated since `nextId` was `n0` that exists is owned by a slot. `PoolOp` / `PoolOp.spec` / `PoolOp.exc`
(Lemmas/VecPoolHistory.lean): the pool operations with their `std::vector` semantics on the list of lists (a move leaves its
source empty; move assignment and swap never throw; an exception of a single-container operation or of a copy assignment affects
its own slot only). The statements are about the slot-level model run against the real containers by the correspondence check;
the size/capacity/pointer members are the generated ones, and the law packages (`PoolLaws`) are re-derived from them on every run
(`Bridge/VecLaws*`, `Bridge/SmallLaws*`, `Bridge/MoveLaws*`, `Bridge/ShrinkLaws*`). -/
namespace AmcVerif.Props.C01
open AmcVerif
variable {α : Type} {cfg : Cfg}

/-- one pool operation, started in a valid pool that satisfies its precondition: it takes effect and the pool holds the
    `std::vector` result — every other container exactly as before —, or it throws a C++ exception and the pool holds a state its
    exception guarantee allows; never a lifetime fault; the pool is valid again (no block shared, none leaked) -/
theorem C01_pool_operation_refines (PL : PoolLaws α cfg) (P n0 : Nat) (m : Mem α) (xss : List (List α)) (op : PoolOp α)
    (h : PoolRep cfg (SOkW cfg.ops cfg.n) P n0 m xss) (hpre : op.pre cfg xss) (hcat : op.nonTC = true → m.cat ≠ .tc) :
    Post (op.run cfg) m (PoolStepPost cfg (SOkW cfg.ops cfg.n) P n0 m xss op) := pool_step PL op h hpre hcat

/-- whole pool histories: run any sequence of pool operations, continuing after every exception; the pool ends valid, holding
    lists that the `std::vector` semantics of the history allows (`PTrace`) -/
theorem C01_pool_history (PL : PoolLaws α cfg) (P n0 : Nat) (ops : List (PoolOp α)) (m : Mem α) (xss : List (List α))
    (h : PoolRep cfg (SOkW cfg.ops cfg.n) P n0 m xss) (hs : PSafe cfg ops xss)
    (hcat : ∀ op ∈ ops, op.nonTC = true → m.cat ≠ .tc) :
    Post (runPool cfg ops) m (fun res m' => res = .ok () ∧
      ∃ yss, PTrace ops xss yss ∧ PoolRep cfg (SOkW cfg.ops cfg.n) P n0 m' yss ∧ m'.cat = m.cat) :=
  pool_history PL P n0 ops m xss h hs hcat

/-- when no operation of the history throws, the final state is the fold of the `std::vector` results -/
theorem C01_pool_trace_no_throw (ops : List (PoolOp α)) (xss : List (List α)) :
    PTrace ops xss (ops.foldl (fun l op => op.spec l) xss) := by
  induction ops generalizing xss with
  | nil => exact PTrace.nil xss
  | cons op rest ih => exact PTrace.ok op rest xss _ (ih (op.spec xss))

/-- an operation does not change the list of a slot `k` it is not applied to — neither when it takes effect nor when it throws -/
theorem C01_pool_others_undisturbed (op : PoolOp α) (xss : List (List α)) (k : Nat) (hk : k ∉ op.touches) :
    sel (op.spec xss) k = sel xss k ∧ (∀ yss, op.exc xss yss → sel yss k = sel xss k) :=
  ⟨op.spec_other xss k hk, fun yss h => op.exc_other xss yss k hk h⟩

/-- the re-constructions of a slot (`i ≠ j` in the pool): `v_i.~T(); new (&v_i) T()` leaves slot `i` empty, … `T(std::move(v_j))`
    moves the list of `v_j` into it and leaves `v_j` empty, … `T(v_j)` copies it -/
theorem C01_pool_construct_specs (xss : List (List α)) (i j : Nat) (hij : i ≠ j) (hi : i < xss.length) (hj : j < xss.length) :
    sel ((PoolOp.reset i : PoolOp α).spec xss) i = []
    ∧ (sel ((PoolOp.moveConstruct i j : PoolOp α).spec xss) i = sel xss j ∧ sel ((PoolOp.moveConstruct i j : PoolOp α).spec xss) j = [])
    ∧ (sel ((PoolOp.copyConstruct i j : PoolOp α).spec xss) i = sel xss j
        ∧ sel ((PoolOp.copyConstruct i j : PoolOp α).spec xss) j = sel xss j) := by
  have hji : j ≠ i := Ne.symm hij
  refine ⟨?_, ⟨?_, ?_⟩, ⟨?_, ?_⟩⟩
  · simp only [PoolOp.spec]
    unfold sel
    rw [List.getElem?_set_self hi]; rfl
  · simp only [PoolOp.spec]
    conv => lhs; unfold sel
    rw [List.getElem?_set_ne hji, List.getElem?_set_self hi]; rfl
  · simp only [PoolOp.spec]
    conv => lhs; unfold sel
    rw [List.getElem?_set_self (by rw [List.length_set]; exact hj)]; rfl
  · simp only [PoolOp.spec]
    conv => lhs; unfold sel
    rw [List.getElem?_set_self hi]; rfl
  · simp only [PoolOp.spec]
    exact PoolOp.sel_set_ne _ _ _ _ hij

/-- the abstract effect of the two-container operations, slot by slot (`i ≠ j`, both in the pool): copy assignment copies,
    move assignment moves and leaves the source empty, swap exchanges -/
theorem C01_pool_two_container_specs (xss : List (List α)) (i j : Nat) (hij : i ≠ j) (hi : i < xss.length) (hj : j < xss.length) :
    (sel ((PoolOp.copyAssign i j : PoolOp α).spec xss) i = sel xss j ∧ sel ((PoolOp.copyAssign i j : PoolOp α).spec xss) j = sel xss j)
    ∧ (sel ((PoolOp.moveAssign i j : PoolOp α).spec xss) i = sel xss j ∧ sel ((PoolOp.moveAssign i j : PoolOp α).spec xss) j = [])
    ∧ (sel ((PoolOp.swap i j : PoolOp α).spec xss) i = sel xss j ∧ sel ((PoolOp.swap i j : PoolOp α).spec xss) j = sel xss i) := by
  have hji : j ≠ i := Ne.symm hij
  refine ⟨⟨?_, ?_⟩, ⟨?_, ?_⟩, ⟨?_, ?_⟩⟩
  · simp only [PoolOp.spec, if_neg hij]
    conv => lhs; unfold sel
    rw [List.getElem?_set_self hi]; rfl
  · simp only [PoolOp.spec, if_neg hij]
    conv => lhs; unfold sel
    rw [List.getElem?_set_ne hij]; rfl
  · simp only [PoolOp.spec, if_neg hij]
    conv => lhs; unfold sel
    rw [List.getElem?_set_ne hji, List.getElem?_set_self hi]; rfl
  · simp only [PoolOp.spec, if_neg hij]
    conv => lhs; unfold sel
    rw [List.getElem?_set_self (by rw [List.length_set]; exact hj)]; rfl
  · simp only [PoolOp.spec, if_neg hij]
    conv => lhs; unfold sel
    rw [List.getElem?_set_ne hji, List.getElem?_set_self hi]; rfl
  · simp only [PoolOp.spec, if_neg hij]
    conv => lhs; unfold sel
    rw [List.getElem?_set_self (by rw [List.length_set]; exact hj)]; rfl

/-- the frame lemma behind "nobody else is disturbed": a container `d ≠ c` whose storage is neither the region `r` the step on
    `c` is confined to nor a fresh block is valid after the step exactly as before (this needs the clause `cntOther` of `FrameG`:
    the allocation counts of foreign blocks are unchanged) -/
theorem C01_pool_other_container_kept {Ok : VB → Prop} {c d : Nat} {r : Region} {m m' : Mem α} {zs : List α} {wd : VB}
    (h : VRepW cfg Ok d m zs wd) (hfr : FrameG c r m m') (hdc : d ≠ c)
    (hreg : cfg.ops.capacity wd = 0 ∨ regionOf cfg d wd ≠ r)
    (hold : ∀ id, regionOf cfg d wd = .blk id → 0 < cfg.ops.capacity wd → id < m.nextId)
    (hinl : Region.inl d ≠ r) : VRepW cfg Ok d m' zs wd := h.frameG hfr hdc hreg hold hinl

/- the law package holds for the code as it is now, for every size type -/
theorem C01_pool_laws_U8 (α : Type) (cfg : Cfg) (hfl : cfg.flavour = .small) (hops : cfg.ops = Gen.U8.svbOps) (hN : cfg.n < Gen.U8.kMax)
    (hN0 : 0 < cfg.n) : PoolLaws α cfg :=
  ⟨hfl, Bridge.U8.small_vecLaws α cfg hfl hops hN hN0, Bridge.U8.small_wordLaws cfg hops hN hN0,
   Bridge.U8.small_moveLaws cfg hops hN hN0, Bridge.U8.small_shrinkLaws cfg hfl hops hN hN0⟩
theorem C01_pool_laws_U16 (α : Type) (cfg : Cfg) (hfl : cfg.flavour = .small) (hops : cfg.ops = Gen.U16.svbOps) (hN : cfg.n < Gen.U16.kMax)
    (hN0 : 0 < cfg.n) : PoolLaws α cfg :=
  ⟨hfl, Bridge.U16.small_vecLaws α cfg hfl hops hN hN0, Bridge.U16.small_wordLaws cfg hops hN hN0,
   Bridge.U16.small_moveLaws cfg hops hN hN0, Bridge.U16.small_shrinkLaws cfg hfl hops hN hN0⟩
theorem C01_pool_laws_U32 (α : Type) (cfg : Cfg) (hfl : cfg.flavour = .small) (hops : cfg.ops = Gen.U32.svbOps) (hN : cfg.n < Gen.U32.kMax)
    (hN0 : 0 < cfg.n) : PoolLaws α cfg :=
  ⟨hfl, Bridge.U32.small_vecLaws α cfg hfl hops hN hN0, Bridge.U32.small_wordLaws cfg hops hN hN0,
   Bridge.U32.small_moveLaws cfg hops hN hN0, Bridge.U32.small_shrinkLaws cfg hfl hops hN hN0⟩
theorem C01_pool_laws_U64 (α : Type) (cfg : Cfg) (hfl : cfg.flavour = .small) (hops : cfg.ops = Gen.U64.svbOps) (hN : cfg.n < Gen.U64.kMax)
    (hN0 : 0 < cfg.n) : PoolLaws α cfg :=
  ⟨hfl, Bridge.U64.small_vecLaws α cfg hfl hops hN hN0, Bridge.U64.small_wordLaws cfg hops hN hN0,
   Bridge.U64.small_moveLaws cfg hops hN hN0, Bridge.U64.small_shrinkLaws cfg hfl hops hN hN0⟩

/-- pool histories over the generated U32 members -/
theorem C01_pool_history_U32 (cfg : Cfg) (hfl : cfg.flavour = .small) (hops : cfg.ops = Gen.U32.svbOps) (hN : cfg.n < Gen.U32.kMax)
    (hN0 : 0 < cfg.n) (P n0 : Nat) (ops : List (PoolOp α)) (m : Mem α) (xss : List (List α))
    (h : PoolRep cfg (SOkW cfg.ops cfg.n) P n0 m xss) (hs : PSafe cfg ops xss)
    (hcat : ∀ op ∈ ops, op.nonTC = true → m.cat ≠ .tc) :
    Post (runPool cfg ops) m (fun res m' => res = .ok () ∧
      ∃ yss, PTrace ops xss yss ∧ PoolRep cfg (SOkW cfg.ops cfg.n) P n0 m' yss ∧ m'.cat = m.cat) :=
  C01_pool_history (C01_pool_laws_U32 α cfg hfl hops hN hN0) P n0 ops m xss h hs hcat

/-! ### A closed instance: the hypotheses are satisfiable, the theorem is not vacuous -/
namespace PoolExample

/-- two `SmallVector<Nat, 2>` with a 32-bit size type, freshly constructed, in a memory without heap blocks -/
def exCfg : Cfg := { flavour := .small, n := 2, ops := Gen.U32.svbOps }
def exMem : Mem Nat :=
  { ws := [Gen.U32.svbOps.ctor 2, Gen.U32.svbOps.ctor 2], inls := [[.raw, .raw], [.raw, .raw]], blocks := [] }

theorem exLaws : PoolLaws Nat exCfg := C01_pool_laws_U32 Nat exCfg rfl rfl (by decide) (by decide)

theorem exMem_slot (i : Nat) (hi : i < 2) : VRepW exCfg (SOkW exCfg.ops exCfg.n) i exMem [] (Gen.U32.svbOps.ctor 2) := by
  have L := exLaws.small
  obtain ⟨hrep, hsz, _, hsm⟩ := L.ctor
  refine VRepW.inline (P := fun _ => True) L ?_ hrep hsm hsz ?_
  · match i, hi with
    | 0, _ => rfl
    | 1, _ => rfl
  · match i, hi with
    | 0, _ => rfl
    | 1, _ => rfl

theorem exMem_pool : PoolRep exCfg (SOkW exCfg.ops exCfg.n) 2 exMem.nextId exMem [[], []] := by
  refine PoolRep.start rfl ?_ ?_ ⟨fun id h => by simp [Mem.buf, exMem] at h, rfl⟩ (by decide) rfl
  · intro i xs hx
    have hi : i < 2 := by
      rcases Nat.lt_or_ge i 2 with h | h
      · exact h
      · rw [List.getElem?_eq_none (by simpa using h)] at hx; cases hx
    have hxs : xs = [] := by
      match i, hi with
      | 0, _ => simpa using hx.symm
      | 1, _ => simpa using hx.symm
    subst hxs
    exact ⟨_, exMem_slot i hi⟩
  · intro i j id hi _ ho _
    exact absurd ho (OwnsBlk.small_none exLaws.small (exMem_slot i hi).ws exLaws.small.ctor.2.2.2 id)

/-- any state with two slots is safe for these operations (their preconditions only ask for the slots to exist) -/
theorem exSafe_tail (yss : List (List Nat)) (hl : yss.length = 2) :
    PSafe exCfg [PoolOp.moveAssign 1 0, PoolOp.swap 0 1, PoolOp.shrink 0, PoolOp.moveConstruct 1 0, PoolOp.reset 0] yss := by
  simp [PSafe, PoolOp.pre, PoolOp.spec, PoolOp.exc, hl]

/-- the history `v0.push_back(7); v1 = std::move(v0); v0.swap(v1); v0.shrink_to_fit(); v1.~T(); new (&v1) T(std::move(v0));
    v0.~T(); new (&v0) T()` on the two empty SmallVectors runs without lifetime fault (whether or not `push_back` or
    `shrink_to_fit` throw) and ends in a valid pool whose state its trace allows; nothing is leaked -/
example : Post (runPool exCfg [PoolOp.one 0 (opPushBack 7), PoolOp.moveAssign 1 0, PoolOp.swap 0 1, PoolOp.shrink 0, PoolOp.moveConstruct 1 0, PoolOp.reset 0]) exMem
    (fun res m' => res = .ok () ∧ ∃ yss, PTrace [PoolOp.one 0 (opPushBack 7), PoolOp.moveAssign 1 0, PoolOp.swap 0 1, PoolOp.shrink 0, PoolOp.moveConstruct 1 0, PoolOp.reset 0] [[], []] yss
      ∧ PoolRep exCfg (SOkW exCfg.ops exCfg.n) 2 exMem.nextId m' yss ∧ m'.cat = exMem.cat) := by
  refine C01_pool_history exLaws 2 _ _ exMem [[], []] exMem_pool ?_ ?_
  · refine ⟨⟨by decide, IsVecOp.pushBack 7, trivial⟩, exSafe_tail _ (by simp [PoolOp.spec]), ?_⟩
    rintro yss ⟨xs'', rfl, _⟩
    exact exSafe_tail _ (by simp)
  · intro op hop hn
    simp only [List.mem_cons, List.not_mem_nil, or_false] at hop
    rcases hop with rfl | rfl | rfl | rfl | rfl | rfl <;> cases hn

/-- without a throw the final state is `[[], [7]]`: the element went to slot 1 by the move assignment, came back by the swap and
    went to slot 1 again by the move construction -/
example : PTrace [PoolOp.one 0 (opPushBack 7), PoolOp.moveAssign 1 0, PoolOp.swap 0 1, PoolOp.shrink 0, PoolOp.moveConstruct 1 0, PoolOp.reset 0] [[], []] [([] : List Nat), [7]] :=
  C01_pool_trace_no_throw _ _

end PoolExample
end AmcVerif.Props.C01
