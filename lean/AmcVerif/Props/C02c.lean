import AmcVerif.Lemmas.FlatSetOnVec
import AmcVerif.Lemmas.SmallSetOnVec
import AmcVerif.Props.C02b
/-! C02 for the SETS — object lifetimes in `amc::FlatSet` (and the inline state of `amc::SmallSet`) on the slot-level model.

The elements of a FlatSet live in its `_sortedVector`, pool container `c` of the slot model (`Lemmas/FlatSetOnVec.lean`).  Every
element primitive of the model checks the C++ lifetime precondition of the operation it stands for (constructing over an alive
object, destroying / assigning / reading a dead or moved-from one, a byte-wise move of a type that does not allow it … is a
`Fault`), and the decision logic of the set reads the elements through `elems`, which faults on a dead or moved-from element.
"No outcome is `.error (.fault _)`" is therefore the lifetime discipline of the set operations, and `VRep` afterwards says that
exactly the visible elements — the sorted list — are alive in the buffer, none of them moved-from, and nothing else is. -/
namespace AmcVerif.Props.C02
open AmcVerif AmcVerif.FS AmcVerif.Sets
variable {α : Type} {cfg : Cfg} {Ok : VB → Prop} {lt : α → α → Bool}

/-- no FlatSet operation commits a lifetime fault, whatever the comparator, the content and the throwing events; afterwards
    the container is a valid representation of a list (the specified one, or — after a C++ exception — the old one) -/
theorem C02_flatset_op_no_fault (L : VecLaws α cfg Ok) {o : OpSpec α} (ho : IsFlatSetOp cfg lt o) (m : Mem α) (c : Nat)
    (xs : List α) (w : VB) (h : VRepW cfg Ok c m xs w) (hi : HInv m) (hpre : o.pre cfg xs) :
    Post (o.run cfg c) m (fun res m' => (∀ f, res ≠ .error (.fault f)) ∧ ∃ ys, VRep cfg Ok c m' ys ∧ (ys = o.spec xs ∨ ys = xs)) := by
  refine Post.mono (ho.ok L m c xs w h hi hpre (fun hn => by rw [ho.nonTC] at hn; cases hn)) ?_
  rintro res m' ⟨hq, _⟩
  rcases hq with ⟨hr, hv⟩ | ⟨e, xs'', he, hv, hst⟩
  · subst hr
    exact ⟨fun f hf => (by cases hf), _, hv, Or.inl rfl⟩
  · subst he
    exact ⟨fun f hf => (by cases hf), xs'', hv, Or.inr (hst ho.strong)⟩

/-- no history of FlatSet operations — whatever throws along the way — ever commits a lifetime fault (`res = .ok ()`: the only
    way `runHist` fails is a fault); at the end exactly the represented elements are alive in the buffer of the set … -/
theorem C02_flatset_history_no_fault (L : VecLaws α cfg Ok) (c : Nat) (lt : α → α → Bool) (ops : List (OpSpec α))
    (hops : ∀ o ∈ ops, IsFlatSetOp cfg lt o) (m : Mem α) (xs : List α) (hv : VRep cfg Ok c m xs) (hi : HInv m)
    (hs : Safe cfg ops xs) :
    Post (runHist cfg c ops) m (fun res m' => res = .ok () ∧ ∃ ys, VRep cfg Ok c m' ys) := by
  refine Post.mono (flatset_history L c lt ops hops m xs hv hi hs _ (Owned.start cfg c hi.fresh)) ?_
  rintro res m' ⟨hr, ys, _, hv', _⟩
  exact ⟨hr, ys, hv'⟩

/-- … and, for a strict weak order and a sorted initial content, the visible elements are exactly a sorted list: the first
    `size()` slots of the buffer hold its elements as live, not moved-from objects, every other slot holds no object -/
theorem C02_flatset_history_visible_sorted (L : VecLaws α cfg Ok) (c : Nat) (hswo : SWO lt) (ops : List (OpSpec α))
    (hops : ∀ o ∈ ops, IsFlatSetOp cfg lt o) (m : Mem α) (xs : List α) (hv : VRep cfg Ok c m xs) (hsorted : Sorted lt xs)
    (hi : HInv m) (hs : Safe cfg ops xs) :
    Post (runHist cfg c ops) m (fun res m' => res = .ok () ∧ ∃ ys w, Sorted lt ys ∧ VRepW cfg Ok c m' ys w ∧
      (0 < cfg.ops.capacity w → ∃ b, m'.buf (regionOf cfg c w) = some b ∧ b.take ys.length = ys.map Slot.live
        ∧ (∀ s ∈ b.drop ys.length, s = Slot.raw))) := by
  refine Post.mono (flatset_history_sorted L c hswo ops hops m xs hv hsorted hi hs _ (Owned.start cfg c hi.fresh)) ?_
  rintro res m' ⟨hr, ys, _, hso, ⟨w, hw⟩, _⟩
  exact ⟨hr, ys, w, hso, hw, fun hc => C02_rep_lifetimes c m' ys w hw hc⟩

/-- the inline state of SmallSet: `insert` (while the set stays small) and `erase(key)` commit no lifetime fault -/
theorem C02_smallset_insert_small_no_fault (L : VecLaws α cfg Ok) (m : Mem α) (c : Nat) (xs : List α) (w : VB) (N : Nat) (v : α)
    (h : VRepW cfg Ok c m xs w) (hf : Fresh m) (hsmall : StaysSmall lt N xs v) :
    Post (ssInsert cfg c lt N v) m (fun res m' => (∀ f, res ≠ .error (.fault f)) ∧ ∃ ys, VRep cfg Ok c m' ys) := by
  refine Post.mono (ssInsert_post L m c xs w lt N v h hf hsmall) ?_
  rintro res m' ⟨hq, _⟩
  rcases hq with ⟨hr, hv⟩ | ⟨e, he, hv⟩
  · subst hr; exact ⟨fun f hf => (by cases hf), _, hv⟩
  · subst he; exact ⟨fun f hf => (by cases hf), _, hv⟩

theorem C02_smallset_erase_key_small_no_fault (L : VecLaws α cfg Ok) (m : Mem α) (c : Nat) (xs : List α) (w : VB) (N : Nat) (k : α)
    (h : VRepW cfg Ok c m xs w) (hf : Fresh m) :
    Post (ssEraseKey cfg c lt N k) m (fun res m' => (∀ f, res ≠ .error (.fault f)) ∧ ∃ ys, VRep cfg Ok c m' ys) := by
  refine Post.mono (ssEraseKey_post L m c xs w lt N k h hf) ?_
  rintro res m' ⟨hq, _⟩
  rcases hq with ⟨hr, hv⟩ | ⟨e, he, hv⟩
  · subst hr; exact ⟨fun f hf => (by cases hf), _, hv⟩
  · subst he; exact ⟨fun f hf => (by cases hf), _, hv⟩

end AmcVerif.Props.C02
