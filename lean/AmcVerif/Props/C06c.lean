import AmcVerif.Props.C01c
/-! C06 (pool level) — leak freedom of a POOL of SmallVectors: whatever single-container operations, `shrink_to_fit`s, copies,
moves and swaps between the containers are run, and whatever throws, every heap block allocated along the way that still exists
is owned by exactly one container of the pool; a block that changes hands in a move or a swap is neither lost nor owned twice.

`PoolRep.owned` / `PoolRep.disj` (Lemmas/VecPool.lean) are the two halves; `PoolRep.step1` derives them after a single-container
step from `NoLeak` (the leak-freedom conjunct of every operation post-condition), `PoolRep.step2` after a two-container step from
the block accounting of move assignment (`MoveAcct`) and swap (Lemmas/VecOpsE.lean). Statements over the slot-level model and the
*generated* size/capacity/pointer members; the allocator ledger of the harness observes the same on the real containers. -/
namespace AmcVerif.Props.C06
open AmcVerif
variable {α : Type} {cfg : Cfg}

/-- whole pool histories: every block allocated since the reference point `n0` that exists at the end has exactly one owner in
    the pool; never a fault (a block returned twice, with the wrong count or still holding objects would be one) -/
theorem C06_pool_no_leak (PL : PoolLaws α cfg) (P n0 : Nat) (ops : List (PoolOp α)) (m : Mem α) (xss : List (List α))
    (h : PoolRep cfg (SOkW cfg.ops cfg.n) P n0 m xss) (hs : PSafe cfg ops xss)
    (hcat : ∀ op ∈ ops, op.nonTC = true → m.cat ≠ .tc) :
    Post (runPool cfg ops) m (fun res m' => res = .ok () ∧
      ∀ id, n0 ≤ id → (m'.buf (.blk id)).isSome →
        ∃ i, i < P ∧ OwnsBlk cfg i m' id ∧ ∀ j, j < P → OwnsBlk cfg j m' id → j = i) :=
  pool_history_no_leak PL P n0 ops m xss h hs hcat

/-- started with `n0 = nextId` (nothing allocated yet: `PoolRep.start`): every block the history allocated and did not return is
    owned by exactly one container -/
theorem C06_pool_no_leak_from_start (PL : PoolLaws α cfg) (P : Nat) (ops : List (PoolOp α)) (m : Mem α) (xss : List (List α))
    (hlen : xss.length = P) (hrep : ∀ i xs, xss[i]? = some xs → VRep cfg (SOkW cfg.ops cfg.n) i m xs)
    (hdisj : ∀ i j id, i < P → j < P → OwnsBlk cfg i m id → OwnsBlk cfg j m id → i = j)
    (hi : HInv m) (hpos : 0 < m.nextId) (h0 : m.buf (.blk 0) = none) (hs : PSafe cfg ops xss)
    (hcat : ∀ op ∈ ops, op.nonTC = true → m.cat ≠ .tc) :
    Post (runPool cfg ops) m (fun res m' => res = .ok () ∧
      ∀ id, m.nextId ≤ id → (m'.buf (.blk id)).isSome →
        ∃ i, i < P ∧ OwnsBlk cfg i m' id ∧ ∀ j, j < P → OwnsBlk cfg j m' id → j = i) :=
  C06_pool_no_leak PL P m.nextId ops m xss (PoolRep.start hlen hrep hdisj hi hpos h0) hs hcat

/-- move assignment between two SmallVectors: the block of the source goes to the target, the old block of the target is
    returned, the source owns nothing afterwards — nothing is lost, nothing is owned twice -/
theorem C06_pool_move_accounting {P : Nat → Prop} (hfl : cfg.flavour = .small) (L : SmallLaws cfg.ops cfg.n)
    (ML : MoveLaws cfg.ops cfg.n) (m : Mem α) (c d : Nat) (xs ys : List α) (wc wd : VB) (hne : c ≠ d)
    (hc : VRepW cfg (SOkP P cfg.ops cfg.n) c m xs wc) (hd : VRepW cfg (SOkP P cfg.ops cfg.n) d m ys wd)
    (hdisj : regionOf cfg c wc ≠ regionOf cfg d wd ∨ (cfg.ops.capacity wc = 0 ∧ cfg.ops.capacity wd = 0)) :
    Post (moveAssign cfg c d) m (fun res m' => res = .ok () ∧ MoveAcct cfg c d m m'
      ∧ (∀ id, (m'.buf (.blk id)).isSome → (m.buf (.blk id)).isSome)) := by
  refine Post.mono (moveAssign_small hfl L ML m c d xs ys wc wd hne hc hd hdisj) ?_
  rintro res m' ⟨hr, _, _, _, _, hfr, _, hacct⟩
  exact ⟨hr, hacct, hfr.blocks⟩

/-- swap between two SmallVectors: each owns afterwards exactly what the other owned before; no block is created or released -/
theorem C06_pool_swap_accounting {P : Nat → Prop} (hfl : cfg.flavour = .small) (L : SmallLaws cfg.ops cfg.n)
    (ML : MoveLaws cfg.ops cfg.n) (m : Mem α) (c d : Nat) (xs ys : List α) (wc wd : VB) (hne : c ≠ d)
    (hc : VRepW cfg (SOkP P cfg.ops cfg.n) c m xs wc) (hd : VRepW cfg (SOkP P cfg.ops cfg.n) d m ys wd) :
    Post (swapSame cfg c d) m (fun res m' => res = .ok ()
      ∧ (∀ id, OwnsBlk cfg c m' id ↔ OwnsBlk cfg d m id) ∧ (∀ id, OwnsBlk cfg d m' id ↔ OwnsBlk cfg c m id)
      ∧ (∀ id, (m'.buf (.blk id)).isSome → (m.buf (.blk id)).isSome)) := by
  refine Post.mono (swapSame_small hfl L ML m c d xs ys wc wd hne hc hd) ?_
  rintro res m' ⟨hr, _, _, _, _, hfr, h1, h2⟩
  exact ⟨hr, h1, h2, hfr.blocks⟩

/-- for the code as it is now: the generated members of the 32-bit size type -/
theorem C06_pool_no_leak_U32 (cfg : Cfg) (hfl : cfg.flavour = .small) (hops : cfg.ops = Gen.U32.svbOps) (hN : cfg.n < Gen.U32.kMax)
    (hN0 : 0 < cfg.n) (P n0 : Nat) (ops : List (PoolOp α)) (m : Mem α) (xss : List (List α))
    (h : PoolRep cfg (SOkW cfg.ops cfg.n) P n0 m xss) (hs : PSafe cfg ops xss)
    (hcat : ∀ op ∈ ops, op.nonTC = true → m.cat ≠ .tc) :
    Post (runPool cfg ops) m (fun res m' => res = .ok () ∧
      ∀ id, n0 ≤ id → (m'.buf (.blk id)).isSome →
        ∃ i, i < P ∧ OwnsBlk cfg i m' id ∧ ∀ j, j < P → OwnsBlk cfg j m' id → j = i) :=
  C06_pool_no_leak (C01.C01_pool_laws_U32 α cfg hfl hops hN hN0) P n0 ops m xss h hs hcat

/-- the closed instance of `Props/C01c.lean`: after the history `push_back; move assignment; swap; shrink_to_fit; move construction; reset` of that file on two empty
    `SmallVector<Nat, 2>` every block that exists has exactly one owner -/
example : Post (runPool C01.PoolExample.exCfg [PoolOp.one 0 (opPushBack 7), PoolOp.moveAssign 1 0, PoolOp.swap 0 1, PoolOp.shrink 0, PoolOp.moveConstruct 1 0, PoolOp.reset 0])
    C01.PoolExample.exMem (fun res m' => res = .ok () ∧
      ∀ id, 1 ≤ id → (m'.buf (.blk id)).isSome →
        ∃ i, i < 2 ∧ OwnsBlk C01.PoolExample.exCfg i m' id ∧ ∀ j, j < 2 → OwnsBlk C01.PoolExample.exCfg j m' id → j = i) := by
  refine C06_pool_no_leak C01.PoolExample.exLaws 2 1 _ _ [[], []] C01.PoolExample.exMem_pool ?_ ?_
  · refine ⟨⟨by decide, IsVecOp.pushBack 7, trivial⟩, C01.PoolExample.exSafe_tail _ (by simp [PoolOp.spec]), ?_⟩
    rintro yss ⟨xs'', rfl, _⟩
    exact C01.PoolExample.exSafe_tail _ (by simp)
  · intro op hop hn
    simp only [List.mem_cons, List.not_mem_nil, or_false] at hop
    rcases hop with rfl | rfl | rfl | rfl | rfl | rfl <;> cases hn

end AmcVerif.Props.C06
