import AmcVerif.Model.Layout
/-! C17 — static contract: relocatability trait, layout, size_type, triviality, noexcept.

Theorems over the formula model `AmcVerif.Layout` (Model/Layout.lean). The model is tied to the headers by the
correspondence check of tools/props/C17.py, which compares every cell of a matrix of instantiations
(harness/static_matrix.cpp, values decided by the compiler) with `Layout.evalLine` and with the inequalities below.

Element types are described by `sizeof T = sT`, `alignof T = aT` with `aT ∣ sT`; size types by their byte width.
The layout theorems are stated for the alignments the property quantifies over, `aT ∈ {1, 2, 4, 8, 16}`, and for
`sizeof(size_type) ∈ {1, 2, 4, 8}`; `C17_size_pow2` extends the size bound to every power of two alignment ≥ 16. -/
namespace AmcVerif.Props.C17
open AmcVerif.Layout
set_option linter.unusedSimpArgs false

/-! ## the trait -/

/-- a class or a pair (the shapes the first sentence of the property speaks about) -/
def Ty.plain : Ty → Bool
  | .cls _ _ => true
  | .pair _ _ => true
  | _ => false

/-- `is_trivially_relocatable<T>` is true exactly for types declaring `std::true_type`, undeclared trivially copyable
types, and pairs of relocatable types -/
theorem C17_trait (t : Ty) (h : Ty.plain t = true) : t.isTR = true ↔ Reloc t := by
  cases t with
  | cls d tc =>
    constructor
    · intro hh
      cases d with
      | none => simp [Ty.isTR, isTR] at hh; subst hh; exact .copyable
      | some b => simp [Ty.isTR, isTR] at hh; subst hh; exact .declaredTrue tc
    · intro hr; cases hr <;> rfl
  | pair a b =>
    constructor
    · intro hh
      simp [Ty.isTR, isTRPair] at hh
      exact .pair hh.1 hh.2
    · intro hr
      cases hr with
      | pair ha hb => simp [Ty.isTR, isTRPair, ha, hb]
  | _ => simp [Ty.plain] at h

/-- the same, as equations on the declaration / copyability bits: a declaration always wins over copyability
(`std::false_type`, or any type other than `std::true_type`, opts a trivially copyable type out) -/
theorem C17_trait_bits (d : Option Bool) (tc : Bool) :
    isTR d tc = true ↔ (d = some true ∨ (d = none ∧ tc = true)) := by
  cases d with
  | none => simp [isTR]
  | some b => cases b <;> simp [isTR]

theorem C17_trait_pair (a b : Ty) : (Ty.pair a b).isTR = true ↔ (a.isTR = true ∧ b.isTR = true) := by
  simp [Ty.isTR, isTRPair]

-- non-vacuity: each of the three ways occurs, and each of the three ways of not being relocatable as well
example : (Ty.cls (some true) false).isTR = true ∧ (Ty.cls none true).isTR = true
    ∧ (Ty.pair (.cls none true) (.cls (some true) false)).isTR = true := by decide
example : (Ty.cls (some false) true).isTR = false ∧ (Ty.cls none false).isTR = false
    ∧ (Ty.pair (.cls none true) (.cls none false)).isTR = false := by decide
example : Reloc (.pair (.cls none true) (.pair (.cls (some true) false) (.cls none true))) :=
  .pair rfl rfl

/-! ## conjunction rules of the containers -/

/-- each container's `trivially_relocatable` typedef is the conjunction of its parts' (vector: no part, always true;
SmallVector: the element when N > 0; FixedCapacityVector: the element; FlatSet: Compare and the vector;
SmallSet: the vector and the set) -/
theorem C17_conjunction (t : Ty) (h : ∀ d tc, t ≠ .cls d tc) : t.isTR = t.parts.all Ty.isTR := by
  cases t with
  | cls d tc => exact absurd rfl (h d tc)
  | pair a b => simp [Ty.isTR, Ty.parts, isTRPair]
  | vector e => simp [Ty.isTR, Ty.parts, trVector]
  | smallVector e N =>
    by_cases hN : N = 0
    · simp [Ty.isTR, Ty.parts, trSmallVector, hN]
    · simp [Ty.isTR, Ty.parts, trSmallVector, hN]
  | fixedCapacityVector e N => simp [Ty.isTR, Ty.parts, trFixedCapacityVector]
  | flatSet c v => simp [Ty.isTR, Ty.parts, trFlatSet]
  | smallSet v s => simp [Ty.isTR, Ty.parts, trSmallSet]

/-- the rules one by one -/
theorem C17_conjunction_rules (e c s : Ty) (N : Nat) :
    (Ty.vector e).isTR = true
    ∧ (Ty.smallVector e (N + 1)).isTR = e.isTR
    ∧ (Ty.smallVector e 0).isTR = true
    ∧ (Ty.fixedCapacityVector e N).isTR = e.isTR
    ∧ (Ty.flatSet c (.vector e)).isTR = c.isTR
    ∧ (Ty.flatSet c (.smallVector e (N + 1))).isTR = (c.isTR && e.isTR)
    ∧ (Ty.smallSet (.fixedCapacityVector e N) s).isTR = (e.isTR && s.isTR) := by
  simp [Ty.isTR, trVector, trSmallVector, trFixedCapacityVector, trFlatSet, trSmallSet]

-- non-vacuity: a SmallSet over a FlatSet of relocatable elements is relocatable, over a std::set it is not, and a
-- non relocatable comparator makes the FlatSet non relocatable
example : (Ty.smallSet (.fixedCapacityVector (.cls none true) 5)
    (.flatSet (.cls none true) (.vector (.cls none true)))).isTR = true := by decide
example : (Ty.smallSet (.fixedCapacityVector (.cls none true) 5) (.cls none false)).isTR = false := by decide
example : (Ty.flatSet (.cls none false) (.vector (.cls none true))).isTR = false := by decide
example : (Ty.smallVector (.cls none false) 3).parts.all Ty.isTR = false := by decide

/-! ## layout -/

/-- what the layout theorems assume about the element type -/
def ValidElem (sT aT : Nat) : Prop := 0 < sT ∧ aT ∈ [1, 2, 4, 8, 16] ∧ aT ∣ sT
def ValidSizeType (sS : Nat) : Prop := sS ∈ [1, 2, 4, 8]

instance (sT aT : Nat) : Decidable (ValidElem sT aT) := by unfold ValidElem; infer_instance
instance (sS : Nat) : Decidable (ValidSizeType sS) := by unfold ValidSizeType; infer_instance

/-- alignment padding a SmallVector may add on top of `sizeof(vector) + N * sizeof(T)`: the union of pointer and first
element is rounded up to 8 bytes and so is the whole object, both in steps of `alignof T`, while the union replaces
the 8 bytes of vector's pointer: at most `(8 - aT) + (8 - aT) - 8` bytes, nothing for alignments ≥ 4 -/
def padBound (aT : Nat) : Nat := 8 - 2 * aT

theorem roundUp_of_dvd {x a : Nat} (ha : 0 < a) (h : a ∣ x) : roundUp x a = x := by
  obtain ⟨c, rfl⟩ := h
  unfold roundUp
  have : a * c + a - 1 = a * c + (a - 1) := by omega
  rw [this, Nat.mul_add_div ha, Nat.div_eq_of_lt (by omega)]
  simp [Nat.mul_comm]

theorem elemStorage_eq {sT aT : Nat} (h0 : 0 < sT) (ha : 0 < aT) (h : aT ∣ sT) : elemStorage sT aT = ⟨sT, aT⟩ := by
  have h1 : max sT 1 = sT := by omega
  have h2 : max 1 aT = aT := by omega
  simp [elemStorage, classOf, place, placeAt, roundUp_of_dvd ha (Nat.dvd_zero aT), h1, h2, roundUp_of_dvd ha h]

/-- `sizeof(amc::vector<T, Alloc, S>)` and its alignment: two words and a pointer -/
theorem C17_vector_size :
    vectorSA 1 = ⟨16, 8⟩ ∧ vectorSA 2 = ⟨16, 8⟩ ∧ vectorSA 4 = ⟨16, 8⟩ ∧ vectorSA 8 = ⟨24, 8⟩ := by decide

/-- both arms of the `#if AMC_CXX14` ladders of ElemWithPtrStorage agree -/
theorem C17_ladder_arms (sT aT : Nat) (h0 : 0 < sT) :
    kNbSlots11 sT = kNbSlots sT ∧ elemWithPtrStorage11 sT aT = elemWithPtrStorage sT aT := by
  constructor
  · unfold kNbSlots11 kNbSlots ptrSize
    split
    · rename_i h; simp [Nat.div_eq_of_lt h]
    · rename_i h
      have : sT ≤ 8 := by omega
      have : 1 ≤ 8 / sT := (Nat.le_div_iff_mul_le h0).2 (by omega)
      omega
  · unfold elemWithPtrStorage11 elemWithPtrStorage ptrSize ptrAlign
    have h1 : (if 8 < sT then sT else 8) = max sT 8 := by simp only [Nat.max_def]; split <;> split <;> omega
    have h2 : (if 8 < aT then aT else 8) = max aT 8 := by simp only [Nat.max_def]; split <;> split <;> omega
    rw [h1, h2]

theorem classOf_opt (c : Prop) [Decidable c] (l x : List SA) :
    classOf (l ++ if c then x else []) = if c then classOf (l ++ x) else classOf l := by
  split <;> simp

/-- unfold a concrete member list (the caller supplies the fact deciding whether the optional array is there), then
linear arithmetic -/
macro "layout_arith" "[" ts:Lean.Parser.Tactic.simpLemma,* "]" : tactic =>
  `(tactic| (
    simp only [smallVectorSA, smallVectorMembers, fixedCapacityVectorSA, fixedCapacityVectorMembers, classOf_opt,
      if_false, if_true, $ts,*]
    (try simp [classOf, place, placeAt, roundUp, padBound, vectorSA, vectorMembers, smallVectorBufOffset,
      fixedCapacityVectorBufOffset, elemWithPtrStorage, elemArray, scalar, kNbSlots, ptrSize, ptrAlign,
      Nat.max_def, $ts,*]) <;>
    (repeat' split) <;> (try omega)))

/-- N elements that fit in the bytes of a pointer cost nothing: `sizeof(SmallVector<T,N>) = sizeof(vector<T>)` -/
theorem C17_size_small (sT aT N sS : Nat) (he : ValidElem sT aT) (hs : ValidSizeType sS) (h : N * sT ≤ 8) :
    (smallVectorSA sT aT N sS).size = (vectorSA sS).size := by
  obtain ⟨h0, ha, hd⟩ := he
  by_cases hN : N = 0
  · simp [smallVectorSA, hN]
  have hle : sT ≤ N * sT := Nat.le_mul_of_pos_left sT (by omega)
  have h8 : sT ≤ 8 := by omega
  have hk : ¬ kNbSlots sT < N := by
    have : N ≤ 8 / sT := (Nat.le_div_iff_mul_le h0).2 h
    simp only [kNbSlots, ptrSize]; omega
  have ha8 : aT ≤ 8 := Nat.le_trans (Nat.le_of_dvd h0 hd) h8
  have hm : max sT 8 = 8 := by omega
  simp only [ValidSizeType, List.mem_cons, List.mem_nil_iff, or_false] at ha hs
  rcases ha with rfl | rfl | rfl | rfl | rfl <;> rcases hs with rfl | rfl | rfl | rfl <;>
    first
    | (exfalso; omega)
    | (simp only [smallVectorSA, smallVectorMembers, classOf_opt, hN, hk, if_false]
       simp [classOf, place, placeAt, roundUp, vectorSA, vectorMembers, elemWithPtrStorage, scalar, ptrSize,
         ptrAlign, hm])

/-- otherwise a SmallVector adds no more than the N element slots plus alignment padding -/
theorem C17_size_large (sT aT N sS : Nat) (he : ValidElem sT aT) (hs : ValidSizeType sS) (h2 : 8 < N * sT) :
    (smallVectorSA sT aT N sS).size ≤ (vectorSA sS).size + N * sT + padBound aT := by
  obtain ⟨h0, ha, hd⟩ := he
  have hN : N ≠ 0 := by rintro rfl; simp at h2
  have hapos : 0 < aT := by simp at ha; omega
  have hes := elemStorage_eq h0 hapos hd
  simp only [ValidSizeType, List.mem_cons, List.mem_nil_iff, or_false] at ha hs
  by_cases h9 : 8 < sT
  · -- the union holds one element
    have hk : kNbSlots sT = 1 := by simp [kNbSlots, ptrSize, Nat.div_eq_of_lt h9]
    by_cases h1 : 1 < N
    · have hp : (N - 1) * sT = N * sT - sT := by rw [Nat.sub_mul]; simp
      have hge : 2 * sT ≤ N * sT := Nat.mul_le_mul_right sT h1
      have hdp : aT ∣ N * sT := Nat.dvd_trans hd (Nat.dvd_mul_left sT N)
      generalize N * sT = p at *
      rcases ha with rfl | rfl | rfl | rfl | rfl <;> rcases hs with rfl | rfl | rfl | rfl <;>
        layout_arith [hN, hes, hk, h1, hp]
    · have : N = 1 := by omega
      subst this
      rcases ha with rfl | rfl | rfl | rfl | rfl <;> rcases hs with rfl | rfl | rfl | rfl <;>
        layout_arith [hes, hk, Nat.lt_irrefl, Nat.one_ne_zero]
  · -- the union holds 8 / sizeof(T) elements; sizeof(T) is one of 1..8
    have h8 : sT = 1 ∨ sT = 2 ∨ sT = 3 ∨ sT = 4 ∨ sT = 5 ∨ sT = 6 ∨ sT = 7 ∨ sT = 8 := by omega
    by_cases hkN : kNbSlots sT < N <;> (have hkN' := hkN) <;>
      rcases h8 with rfl | rfl | rfl | rfl | rfl | rfl | rfl | rfl <;>
      rcases ha with rfl | rfl | rfl | rfl | rfl <;>
      first
      | (exfalso; omega)
      | (rcases hs with rfl | rfl | rfl | rfl <;>
          (simp [kNbSlots, ptrSize] at hkN' <;> layout_arith [hN, hes, hkN]))

/-- C17, size sentence: `SmallVector<T,N>` is no larger than `amc::vector<T>` whenever N elements fit in the bytes of a
pointer and otherwise adds no more than the N element slots plus alignment padding -/
theorem C17_size (sT aT N sS : Nat) (he : ValidElem sT aT) (hs : ValidSizeType sS) :
    (N * sT ≤ 8 → (smallVectorSA sT aT N sS).size ≤ (vectorSA sS).size)
    ∧ (8 < N * sT → (smallVectorSA sT aT N sS).size ≤ (vectorSA sS).size + N * sT + padBound aT) :=
  ⟨fun h => Nat.le_of_eq (C17_size_small sT aT N sS he hs h), C17_size_large sT aT N sS he hs⟩

-- non-vacuity: hypotheses are satisfiable, both branches occur, the padding bound is attained and is needed
example : ValidElem 3 1 ∧ ValidElem 24 8 ∧ ValidElem 16 16 ∧ ValidSizeType 4 := by decide
example : (smallVectorSA 1 1 8 4).size = 16 ∧ (vectorSA 4).size = 16 := by decide          -- SmallVector<char,8>
example : (smallVectorSA 9 1 2 4).size = 40 ∧ (vectorSA 4).size + 2 * 9 + padBound 1 = 40 := by decide
example : (smallVectorSA 16 16 3 4).size = 64 ∧ (vectorSA 4).size + 3 * 16 + padBound 16 = 64 := by decide
example : ¬ ((smallVectorSA 9 1 2 4).size ≤ (vectorSA 4).size + 2 * 9) := by decide

/-- the general statement for every power of two alignment (over-aligned element types included); the padding
bound for alignments above 16 is the part of the alignment unit that the 16 byte header of `vector` does not cover -/
def SizeStmt : Prop :=
  ∀ sT aT N sS : Nat, 0 < sT → (∃ k, aT = 2 ^ k) → aT ∣ sT → ValidSizeType sS →
    (N * sT ≤ 8 → (smallVectorSA sT aT N sS).size ≤ (vectorSA sS).size)
    ∧ (8 < N * sT → (smallVectorSA sT aT N sS).size
          ≤ (vectorSA sS).size + N * sT + (if aT ≤ 16 then padBound aT else aT - 16))

theorem roundUp_eq_self_of_le {x a : Nat} (hx : 0 < x) (h : x ≤ a) : roundUp x a = a := by
  unfold roundUp
  have h1 : (x + a - 1) / a = 1 := by
    apply Nat.div_eq_of_lt_le <;> omega
  rw [h1]; simp

theorem pow2_cases (k : Nat) : 2 ^ k ∣ 8 ∨ 16 ∣ 2 ^ k := by
  by_cases h : k ≤ 3
  · left; exact Nat.pow_dvd_pow 2 h
  · right; exact Nat.pow_dvd_pow 2 (show 4 ≤ k by omega)

theorem dvd8 (a : Nat) (h : a ∣ 8) : a = 1 ∨ a = 2 ∨ a = 4 ∨ a = 8 := by
  have hle : a ≤ 8 := Nat.le_of_dvd (by decide) h
  have : ∀ b, b ≤ 8 → b ∣ 8 → (b = 1 ∨ b = 2 ∨ b = 4 ∨ b = 8) := by decide
  exact this a hle h

/-- closed form for over-aligned element types (alignment a multiple of 16): header rounded up to one alignment
unit, then the N slots -/
theorem sv_overaligned (sT A N sS : Nat) (h0 : 0 < sT) (hA : 16 ∣ A) (hApos : 0 < A) (hd : A ∣ sT) (hs : ValidSizeType sS)
    (hN : 0 < N) : smallVectorSA sT A N sS = ⟨A + N * sT, A⟩ := by
  have hA16 : 16 ≤ A := Nat.le_of_dvd hApos hA
  have hsT : A ≤ sT := Nat.le_of_dvd h0 hd
  have hk : kNbSlots sT = 1 := by simp [kNbSlots, ptrSize, Nat.div_eq_of_lt (show 8 < sT by omega)]
  have hm1 : max sT 8 = sT := by omega
  have hm2 : max A 8 = A := by omega
  have hew : elemWithPtrStorage sT A = ⟨sT, A⟩ := by
    have := elemStorage_eq h0 hApos hd
    simpa [elemWithPtrStorage, elemStorage, ptrSize, ptrAlign, hm1, hm2] using this
  have hes := elemStorage_eq h0 hApos hd
  have hN0 : N ≠ 0 := by omega
  have hr0 : ∀ s, 0 < s → roundUp 0 s = 0 := fun s hs => roundUp_of_dvd hs (Nat.dvd_zero s)
  simp only [ValidSizeType, List.mem_cons, List.mem_nil_iff, or_false] at hs
  have hmax : ∀ s, s ≤ 8 → max s A = A := fun s h => by omega
  have e1 : roundUp 2 A = A := roundUp_eq_self_of_le (by omega) (by omega)
  have e2 : roundUp 4 A = A := roundUp_eq_self_of_le (by omega) (by omega)
  have e3 : roundUp 8 A = A := roundUp_eq_self_of_le (by omega) (by omega)
  have e4 : roundUp 16 A = A := roundUp_eq_self_of_le (by omega) (by omega)
  have e5 : roundUp (A + sT) A = A + sT := roundUp_of_dvd hApos (Nat.dvd_add (Nat.dvd_refl A) hd)
  have hd3 : A ∣ A + N * sT := Nat.dvd_add (Nat.dvd_refl A) (Nat.dvd_trans hd (Nat.dvd_mul_left sT N))
  have e6 : roundUp (A + N * sT) A = A + N * sT := roundUp_of_dvd hApos hd3
  have hmx : max (A + N * sT) 1 = A + N * sT := by omega
  have r1 : roundUp 1 1 = 1 := by decide
  have r2 : roundUp 2 2 = 2 := by decide
  have r4 : roundUp 4 4 = 4 := by decide
  have r8 : roundUp 8 8 = 8 := by decide
  by_cases h1 : 1 < N
  · have hsum : A + sT + (N - 1) * sT = A + N * sT := by
      have : N = (N - 1) + 1 := by omega
      conv => rhs; rw [this, Nat.add_mul]
      omega
    rcases hs with rfl | rfl | rfl | rfl <;>
      simp only [smallVectorSA, smallVectorMembers, classOf_opt, hN0, hk, h1, if_false, if_true, hew, elemArray, hes] <;>
      simp [classOf, place, placeAt, scalar, hr0, e1, e2, e3, e4, e5, hsum, hmx, e6, hmax, r1, r2, r4, r8]
  · have hN1 : N = 1 := by omega
    subst hN1
    have hmx' : max (A + sT) 1 = A + sT := by omega
    rcases hs with rfl | rfl | rfl | rfl <;>
      simp only [smallVectorSA, smallVectorMembers, classOf_opt, hk, Nat.lt_irrefl, Nat.one_ne_zero, if_false, hew] <;>
      simp [classOf, place, placeAt, scalar, hr0, e1, e2, e3, e4, e5, hmx', hmax, r1, r2, r4, r8]

theorem C17_size_pow2 : SizeStmt := by
  intro sT aT N sS h0 hk hd hs
  obtain ⟨k, rfl⟩ := hk
  rcases pow2_cases k with h | h
  · have hv : ValidElem sT (2 ^ k) := by
      refine ⟨h0, ?_, hd⟩
      rcases dvd8 _ h with e | e | e | e <;> simp [e]
    have hle : 2 ^ k ≤ 16 := by rcases dvd8 _ h with e | e | e | e <;> omega
    simpa [hle] using C17_size sT (2 ^ k) N sS hv hs
  · have hApos : 0 < 2 ^ k := Nat.pos_of_ne_zero (by intro e; rw [e] at h; omega)
    have hA16 : 16 ≤ 2 ^ k := Nat.le_of_dvd hApos h
    have hsT : 2 ^ k ≤ sT := Nat.le_of_dvd h0 hd
    have hvec : 16 ≤ (vectorSA sS).size := by
      simp only [ValidSizeType, List.mem_cons, List.mem_nil_iff, or_false] at hs
      rcases hs with rfl | rfl | rfl | rfl <;> decide
    constructor
    · intro hN
      have : N = 0 := by
        rcases Nat.eq_zero_or_pos N with e | e
        · exact e
        · have : sT ≤ N * sT := Nat.le_mul_of_pos_left sT e
          omega
      simp [smallVectorSA, this]
    · intro hN
      have hN0 : 0 < N := by
        rcases Nat.eq_zero_or_pos N with e | e
        · simp [e] at hN
        · exact e
      rw [sv_overaligned sT (2 ^ k) N sS h0 h hApos hd hs hN0]
      show 2 ^ k + N * sT ≤ _
      split
      · have : 2 ^ k = 16 := by omega
        simp only [padBound]; omega
      · omega

-- non-vacuity: a 32 byte aligned element type; the bound is attained
example : (smallVectorSA 32 32 2 4).size = 96 ∧ (vectorSA 4).size + 2 * 32 + (32 - 16) = 96 := by decide

/-- the inline buffer really holds N elements: from the offset of the first slot, N * sizeof(T) bytes lie inside
the object (SmallVector, N ≥ 1) -/
theorem C17_inline_fits_small (sT aT N sS : Nat) (he : ValidElem sT aT) (hs : ValidSizeType sS) (hN : 0 < N) :
    smallVectorBufOffset aT sS + N * sT ≤ (smallVectorSA sT aT N sS).size := by
  obtain ⟨h0, ha, hd⟩ := he
  have hN0 : N ≠ 0 := by omega
  have hapos : 0 < aT := by simp at ha; omega
  have hes := elemStorage_eq h0 hapos hd
  simp only [ValidSizeType, List.mem_cons, List.mem_nil_iff, or_false] at ha hs
  by_cases h9 : 8 < sT
  · have hk : kNbSlots sT = 1 := by simp [kNbSlots, ptrSize, Nat.div_eq_of_lt h9]
    by_cases h1 : 1 < N
    · have hp : (N - 1) * sT = N * sT - sT := by rw [Nat.sub_mul]; simp
      have hge : 2 * sT ≤ N * sT := Nat.mul_le_mul_right sT h1
      generalize N * sT = p at *
      rcases ha with rfl | rfl | rfl | rfl | rfl <;> rcases hs with rfl | rfl | rfl | rfl <;>
        layout_arith [hN0, hes, hk, h1, hp]
    · have : N = 1 := by omega
      subst this
      rcases ha with rfl | rfl | rfl | rfl | rfl <;> rcases hs with rfl | rfl | rfl | rfl <;>
        layout_arith [hes, hk, Nat.lt_irrefl, Nat.one_ne_zero]
  · have h8 : sT = 1 ∨ sT = 2 ∨ sT = 3 ∨ sT = 4 ∨ sT = 5 ∨ sT = 6 ∨ sT = 7 ∨ sT = 8 := by omega
    by_cases hkN : kNbSlots sT < N <;> (have hkN' := hkN) <;>
      rcases h8 with rfl | rfl | rfl | rfl | rfl | rfl | rfl | rfl <;>
      rcases ha with rfl | rfl | rfl | rfl | rfl <;>
      first
      | (exfalso; omega)
      | (rcases hs with rfl | rfl | rfl | rfl <;>
          (simp [kNbSlots, ptrSize] at hkN' <;> layout_arith [hN0, hes, hkN]))

/-- FixedCapacityVector: header, `max N 1` slots, and less than one alignment unit of padding — nothing else -/
theorem C17_fcv_size (sT aT N sS : Nat) (he : ValidElem sT aT) (hs : ValidSizeType sS) :
    fixedCapacityVectorBufOffset aT sS + max N 1 * sT ≤ (fixedCapacityVectorSA sT aT N sS).size
    ∧ (fixedCapacityVectorSA sT aT N sS).size < fixedCapacityVectorBufOffset aT sS + max N 1 * sT + max aT sS
    ∧ (fixedCapacityVectorSA sT aT N sS).align = max aT sS := by
  obtain ⟨h0, ha, hd⟩ := he
  have hapos : 0 < aT := by simp at ha; omega
  have hes := elemStorage_eq h0 hapos hd
  simp only [ValidSizeType, List.mem_cons, List.mem_nil_iff, or_false] at ha hs
  by_cases h1 : 1 < N
  · have hm : max N 1 = N := by omega
    have hp : (N - 1) * sT = N * sT - sT := by rw [Nat.sub_mul]; simp
    have hge : 2 * sT ≤ N * sT := Nat.mul_le_mul_right sT h1
    have hdp : aT ∣ N * sT := Nat.dvd_trans hd (Nat.dvd_mul_left sT N)
    rw [hm]
    generalize N * sT = p at *
    rcases ha with rfl | rfl | rfl | rfl | rfl <;> rcases hs with rfl | rfl | rfl | rfl <;>
      (refine ⟨?_, ?_, ?_⟩ <;> layout_arith [hes, h1, hp])
  · have hm : max N 1 = 1 := by omega
    rw [hm]
    rcases ha with rfl | rfl | rfl | rfl | rfl <;> rcases hs with rfl | rfl | rfl | rfl <;>
      (refine ⟨?_, ?_, ?_⟩ <;> layout_arith [hes, h1])

/-- alignment of a SmallVector with inline elements: that of the union of a pointer and an element
(`SmallVector<T,0>` is `vector<T>`, aligned as a pointer whatever `T` is) -/
theorem C17_small_align (sT aT N sS : Nat) (he : ValidElem sT aT) (hs : ValidSizeType sS) (hN0 : 0 < N) :
    (smallVectorSA sT aT N sS).align = max aT 8 := by
  obtain ⟨h0, ha, hd⟩ := he
  simp only [ValidSizeType, List.mem_cons, List.mem_nil_iff, or_false] at ha hs
  have hN : N ≠ 0 := by omega
  by_cases hkN : kNbSlots sT < N <;>
    rcases ha with rfl | rfl | rfl | rfl | rfl <;> rcases hs with rfl | rfl | rfl | rfl <;>
    layout_arith [hN, hkN]

-- non-vacuity
example : smallVectorBufOffset 1 4 + 3 * 9 ≤ (smallVectorSA 9 1 3 4).size := by decide
example : (fixedCapacityVectorSA 1 1 5 4).size = 16 ∧ (fixedCapacityVectorSA 4 4 0 1).size = 8
    ∧ (fixedCapacityVectorSA 3 1 7 1).size = 23 := by decide
example : (smallVectorSA 16 16 3 4).align = 16 ∧ (smallVectorSA 3 1 3 1).align = 8 := by decide

/-! ## size_type of FixedCapacityVector -/

/-- `SmallestSizeType<N>` is one of 1, 2, 4, 8 bytes, can hold N, and no smaller one of these can -/
theorem C17_sizetype_smallest (N : Nat) (hN : N < 2 ^ 64) :
    smallestSizeType N ∈ [1, 2, 4, 8]
    ∧ N ≤ umax (smallestSizeType N)
    ∧ ∀ b ∈ [1, 2, 4, 8], N ≤ umax b → smallestSizeType N ≤ b := by
  have u1 : umax 1 = 255 := by decide
  have u2 : umax 2 = 65535 := by decide
  have u4 : umax 4 = 4294967295 := by decide
  have u8 : umax 8 = 18446744073709551615 := by decide
  refine ⟨?_, ?_, ?_⟩
  · unfold smallestSizeType; (repeat' split) <;> simp
  · unfold smallestSizeType; (repeat' split) <;> omega
  · intro b hb hle
    simp only [List.mem_cons, List.mem_nil_iff, or_false] at hb
    unfold smallestSizeType
    rcases hb with rfl | rfl | rfl | rfl <;> (repeat' split) <;> omega

-- non-vacuity: the boundaries of the property
example : smallestSizeType 255 = 1 ∧ smallestSizeType 256 = 2 ∧ smallestSizeType 65535 = 2
    ∧ smallestSizeType 65536 = 4 ∧ smallestSizeType 0 = 1 ∧ smallestSizeType 4294967296 = 8 := by decide

/-! ## triviality of the destructor -/

/-- `FixedCapacityVector<T,N>` is trivially destructible exactly when T is, for every N including 0 -/
theorem C17_trivial_dtor (N : Nat) (td : Bool) : fcvTriviallyDestructible N td = td := by
  simp [fcvTriviallyDestructible, defineVectorDestructor, defineDestructor]

/-- amc::vector keeps its unconditional destructor (support of incomplete element types) -/
theorem C17_vector_dtor (td : Bool) : defineVectorDestructor td false true = true := by
  simp [defineVectorDestructor, defineDestructor]

example : fcvTriviallyDestructible 0 true = true ∧ fcvTriviallyDestructible 0 false = false := by decide
example : fcvTriviallyDestructible 3 true = true ∧ fcvTriviallyDestructible 3 false = false := by decide

/-! ## noexcept -/

/-- move construction, move assignment and swap are noexcept exactly under the documented conditions -/
theorem C17_noexcept (z : Bool) (e : ElemTraits) :
    (moveCtorNoexcept z e = true ↔ (z = true ∨ e.tr = true ∨ e.nothrowMoveCtor = true))
    ∧ (moveAssignNoexcept z e = true ↔
        (z = true ∨ e.tr = true ∨ (e.nothrowMoveCtor = true ∧ e.nothrowMoveAssign = true)))
    ∧ (swapNoexcept z e = true ↔ (z = true ∨ (e.nothrowMoveCtor = true ∧ e.nothrowSwappable = true))) := by
  simp [moveCtorNoexcept, moveAssignNoexcept, swapNoexcept, isMoveConstructNothrow, isShiftNothrow, isSwapNoexcept]

/-- the three specifications are ordered: whenever swap or move assignment is noexcept, so is move construction; a
container without inline elements (N = 0) never throws; and nothing is promised for an element type that is neither
relocatable nor nothrow move constructible -/
theorem C17_noexcept_order (z : Bool) (e : ElemTraits) :
    (swapNoexcept z e = true → moveCtorNoexcept z e = true)
    ∧ (moveAssignNoexcept z e = true → moveCtorNoexcept z e = true)
    ∧ (moveCtorNoexcept true e = true ∧ moveAssignNoexcept true e = true ∧ swapNoexcept true e = true)
    ∧ (e.tr = false → e.nothrowMoveCtor = false →
        moveCtorNoexcept false e = false ∧ moveAssignNoexcept false e = false ∧ swapNoexcept false e = false) := by
  obtain ⟨tr, mc, ma, sw⟩ := e
  cases z <;> cases tr <;> cases mc <;> cases ma <;> cases sw <;>
    simp [moveCtorNoexcept, moveAssignNoexcept, swapNoexcept, isMoveConstructNothrow, isShiftNothrow, isSwapNoexcept]

-- non-vacuity: a relocatable type with throwing moves: construction and assignment noexcept, swap not
example : moveCtorNoexcept false ⟨true, false, false, false⟩ = true
    ∧ moveAssignNoexcept false ⟨true, false, false, false⟩ = true
    ∧ swapNoexcept false ⟨true, false, false, false⟩ = false := by decide
-- nothrow move constructor, throwing move assignment, noexcept ADL swap
example : moveCtorNoexcept false ⟨false, true, false, true⟩ = true
    ∧ moveAssignNoexcept false ⟨false, true, false, true⟩ = false
    ∧ swapNoexcept false ⟨false, true, false, true⟩ = true := by decide

end AmcVerif.Props.C17
