import AmcVerif.Model.Vec
/-! C10 — arguments referring to the vector's own elements. The address arithmetic that makes the single- and
multi-element insertions read their argument where the shift has put it (`address_after_shift`, introduced by the
repair of V4) is proved here on the model's reference type; the complete behaviour is tied by the exhaustive aliasing
grid of the correspondence check against std::vector. -/
namespace AmcVerif.Props.C10
open AmcVerif

/-- A reference to the element at index `i` of a buffer whose elements `[pos, pos+n)` are then shifted `count` slots to
    the right designates, after adjustment, the slot the element has been moved to: untouched when it lies before the
    insertion point, `count` further when it was among the shifted elements. -/
theorem C10_address_after_shift (r : Region) (i pos n count : Nat) (hi : i < pos + n) :
    addressAfterShift (Ref.at (α := Nat) ⟨r, i⟩) ⟨r, pos⟩ n count
      = if pos ≤ i then Ref.at ⟨r, i + count⟩ else Ref.at ⟨r, i⟩ := by
  unfold addressAfterShift
  by_cases h : pos ≤ i
  · simp [h, hi]
  · simp [h]

/-- a value that is not an element of the vector is never adjusted -/
theorem C10_literal_untouched (v : Nat) (pos : Addr) (n count : Nat) :
    addressAfterShift (Ref.lit v) pos n count = Ref.lit v := rfl

/-- a reference into another buffer (e.g. the old buffer after reallocation has re-based it) is never adjusted -/
theorem C10_other_region (r r' : Region) (h : r ≠ r') (i pos n count : Nat) :
    addressAfterShift (Ref.at (α := Nat) ⟨r, i⟩) ⟨r', pos⟩ n count = Ref.at ⟨r, i⟩ := by
  unfold addressAfterShift
  simp [h]

example : addressAfterShift (Ref.at (α := Nat) ⟨.blk 1, 2⟩) ⟨.blk 1, 1⟩ 3 2 = Ref.at ⟨.blk 1, 4⟩ := by
  simp [addressAfterShift]

end AmcVerif.Props.C10
