import AmcVerif.Bridge.MoveLawsU8
import AmcVerif.Bridge.MoveLawsU16
import AmcVerif.Bridge.MoveLawsU32
import AmcVerif.Bridge.MoveLawsU64
import AmcVerif.Bridge.ShrinkLawsU8
import AmcVerif.Bridge.ShrinkLawsU16
import AmcVerif.Bridge.ShrinkLawsU32
import AmcVerif.Bridge.ShrinkLawsU64
/-! Operations on two SmallVectors of one type (swap, move construction, move assignment) and `shrink_to_fit`, at container level,
over the members regenerated from the source (per size type). They serve C13 (swap exchanges the contents: the same-type swap is the
branch of `swap2` that exchanges buffers or runs `swap_deep`), C01 (move/swap as `std::vector`), C06 (the stolen buffer's previous
owner block is returned, no block is created), C07 (stealing performs no element operation: only the words change; `shrink_to_fit`
capacity) and C05 (inline ↔ inline operations touch no heap block). `Frame2 c d rs m m'`: only the regions `rs` may differ, no heap
block is created, every third container is untouched. -/
namespace AmcVerif.Props.C13
open AmcVerif
variable {α : Type}

/-- `swap` of two SmallVectors in any combination of states (inline / heap): the contents are exchanged, only the two inline storages
    may be written (two heap buffers just change hands), no heap block is created or released -/
theorem C13_swap_same_U8 (cfg : Cfg) (hfl : cfg.flavour = .small) (hops : cfg.ops = Gen.U8.svbOps) (hN : cfg.n < Gen.U8.kMax) (hN0 : 0 < cfg.n)
    (m : Mem α) (c d : Nat) (xs ys : List α) (wc wd : VB) (hne : c ≠ d)
    (hc : VRepW cfg (SOkW cfg.ops cfg.n) c m xs wc) (hd : VRepW cfg (SOkW cfg.ops cfg.n) d m ys wd) :
    Post (swapSame cfg c d) m (SwapPost cfg (SOkW cfg.ops cfg.n) c d m xs ys) :=
  Bridge.U8.swapSame_U8 α cfg hfl hops hN hN0 m c d xs ys wc wd hne hc hd
theorem C13_swap_same_U16 (cfg : Cfg) (hfl : cfg.flavour = .small) (hops : cfg.ops = Gen.U16.svbOps) (hN : cfg.n < Gen.U16.kMax) (hN0 : 0 < cfg.n)
    (m : Mem α) (c d : Nat) (xs ys : List α) (wc wd : VB) (hne : c ≠ d)
    (hc : VRepW cfg (SOkW cfg.ops cfg.n) c m xs wc) (hd : VRepW cfg (SOkW cfg.ops cfg.n) d m ys wd) :
    Post (swapSame cfg c d) m (SwapPost cfg (SOkW cfg.ops cfg.n) c d m xs ys) :=
  Bridge.U16.swapSame_U16 α cfg hfl hops hN hN0 m c d xs ys wc wd hne hc hd
theorem C13_swap_same_U32 (cfg : Cfg) (hfl : cfg.flavour = .small) (hops : cfg.ops = Gen.U32.svbOps) (hN : cfg.n < Gen.U32.kMax) (hN0 : 0 < cfg.n)
    (m : Mem α) (c d : Nat) (xs ys : List α) (wc wd : VB) (hne : c ≠ d)
    (hc : VRepW cfg (SOkW cfg.ops cfg.n) c m xs wc) (hd : VRepW cfg (SOkW cfg.ops cfg.n) d m ys wd) :
    Post (swapSame cfg c d) m (SwapPost cfg (SOkW cfg.ops cfg.n) c d m xs ys) :=
  Bridge.U32.swapSame_U32 α cfg hfl hops hN hN0 m c d xs ys wc wd hne hc hd
theorem C13_swap_same_U64 (cfg : Cfg) (hfl : cfg.flavour = .small) (hops : cfg.ops = Gen.U64.svbOps) (hN : cfg.n < Gen.U64.kMax) (hN0 : 0 < cfg.n)
    (m : Mem α) (c d : Nat) (xs ys : List α) (wc wd : VB) (hne : c ≠ d)
    (hc : VRepW cfg (SOkW cfg.ops cfg.n) c m xs wc) (hd : VRepW cfg (SOkW cfg.ops cfg.n) d m ys wd) :
    Post (swapSame cfg c d) m (SwapPost cfg (SOkW cfg.ops cfg.n) c d m xs ys) :=
  Bridge.U64.swapSame_U64 α cfg hfl hops hN hN0 m c d xs ys wc wd hne hc hd

/-- move assignment: the target holds what the source held, the source is empty; the target's old elements are destroyed, its old
    heap block is returned unless it is kept as the destination buffer; no heap block is created -/
theorem C13_move_assign_U8 (cfg : Cfg) (hfl : cfg.flavour = .small) (hops : cfg.ops = Gen.U8.svbOps) (hN : cfg.n < Gen.U8.kMax) (hN0 : 0 < cfg.n)
    (m : Mem α) (c d : Nat) (xs ys : List α) (wc wd : VB) (hne : c ≠ d)
    (hc : VRepW cfg (SOkW cfg.ops cfg.n) c m xs wc) (hd : VRepW cfg (SOkW cfg.ops cfg.n) d m ys wd)
    (hdisj : regionOf cfg c wc ≠ regionOf cfg d wd ∨ (cfg.ops.capacity wc = 0 ∧ cfg.ops.capacity wd = 0)) :
    Post (moveAssign cfg c d) m (MoveAssignPost cfg (SOkW cfg.ops cfg.n) c d m ys wc) :=
  Bridge.U8.moveAssign_U8 α cfg hfl hops hN hN0 m c d xs ys wc wd hne hc hd hdisj
theorem C13_move_assign_U32 (cfg : Cfg) (hfl : cfg.flavour = .small) (hops : cfg.ops = Gen.U32.svbOps) (hN : cfg.n < Gen.U32.kMax) (hN0 : 0 < cfg.n)
    (m : Mem α) (c d : Nat) (xs ys : List α) (wc wd : VB) (hne : c ≠ d)
    (hc : VRepW cfg (SOkW cfg.ops cfg.n) c m xs wc) (hd : VRepW cfg (SOkW cfg.ops cfg.n) d m ys wd)
    (hdisj : regionOf cfg c wc ≠ regionOf cfg d wd ∨ (cfg.ops.capacity wc = 0 ∧ cfg.ops.capacity wd = 0)) :
    Post (moveAssign cfg c d) m (MoveAssignPost cfg (SOkW cfg.ops cfg.n) c d m ys wc) :=
  Bridge.U32.moveAssign_U32 α cfg hfl hops hN hN0 m c d xs ys wc wd hne hc hd hdisj
theorem C13_move_assign_U64 (cfg : Cfg) (hfl : cfg.flavour = .small) (hops : cfg.ops = Gen.U64.svbOps) (hN : cfg.n < Gen.U64.kMax) (hN0 : 0 < cfg.n)
    (m : Mem α) (c d : Nat) (xs ys : List α) (wc wd : VB) (hne : c ≠ d)
    (hc : VRepW cfg (SOkW cfg.ops cfg.n) c m xs wc) (hd : VRepW cfg (SOkW cfg.ops cfg.n) d m ys wd)
    (hdisj : regionOf cfg c wc ≠ regionOf cfg d wd ∨ (cfg.ops.capacity wc = 0 ∧ cfg.ops.capacity wd = 0)) :
    Post (moveAssign cfg c d) m (MoveAssignPost cfg (SOkW cfg.ops cfg.n) c d m ys wc) :=
  Bridge.U64.moveAssign_U64 α cfg hfl hops hN hN0 m c d xs ys wc wd hne hc hd hdisj

/-- move construction: the new vector holds what the source held with the source's capacity, the source is empty and inline again; from
    a heap-backed source ONLY THE WORDS CHANGE (no element is touched, the buffer changes hands) -/
theorem C13_move_construct_U8 (cfg : Cfg) (hfl : cfg.flavour = .small) (hops : cfg.ops = Gen.U8.svbOps) (hN : cfg.n < Gen.U8.kMax) (hN0 : 0 < cfg.n)
    (m : Mem α) (c d : Nat) (ys : List α) (wd : VB) (hne : c ≠ d) (hc : c < m.ws.length)
    (hraw : m.buf (.inl c) = some (raws cfg.n)) (hd : VRepW cfg (SOkW cfg.ops cfg.n) d m ys wd) :
    Post (moveConstruct cfg c d) m (MoveCtorPost cfg (SOkW cfg.ops cfg.n) c d m ys wd) :=
  Bridge.U8.moveConstruct_U8 α cfg hfl hops hN hN0 m c d ys wd hne hc hraw hd
theorem C13_move_construct_U32 (cfg : Cfg) (hfl : cfg.flavour = .small) (hops : cfg.ops = Gen.U32.svbOps) (hN : cfg.n < Gen.U32.kMax) (hN0 : 0 < cfg.n)
    (m : Mem α) (c d : Nat) (ys : List α) (wd : VB) (hne : c ≠ d) (hc : c < m.ws.length)
    (hraw : m.buf (.inl c) = some (raws cfg.n)) (hd : VRepW cfg (SOkW cfg.ops cfg.n) d m ys wd) :
    Post (moveConstruct cfg c d) m (MoveCtorPost cfg (SOkW cfg.ops cfg.n) c d m ys wd) :=
  Bridge.U32.moveConstruct_U32 α cfg hfl hops hN hN0 m c d ys wd hne hc hraw hd

/-- `shrink_to_fit()`: contents unchanged (also when the reallocation throws), capacity afterwards `max(size, N)` for a SmallVector,
    `size` for `amc::vector`, unchanged for a FixedCapacityVector -/
theorem C13_shrink_small_U32 (cfg : Cfg) (hfl : cfg.flavour = .small) (hops : cfg.ops = Gen.U32.svbOps) (hN : cfg.n < Gen.U32.kMax) (hN0 : 0 < cfg.n)
    (m : Mem α) (c : Nat) (xs : List α) (w : VB) (h : VRepW cfg (SOkW cfg.ops cfg.n) c m xs w) (hf : Fresh m) :
    Post (shrinkToFit cfg c) m (StrongPostI cfg (SOkW cfg.ops cfg.n) c m w xs xs ()) :=
  Bridge.U32.shrinkToFit_small α cfg hfl hops hN hN0 m c xs w h hf
theorem C13_shrink_small_U8 (cfg : Cfg) (hfl : cfg.flavour = .small) (hops : cfg.ops = Gen.U8.svbOps) (hN : cfg.n < Gen.U8.kMax) (hN0 : 0 < cfg.n)
    (m : Mem α) (c : Nat) (xs : List α) (w : VB) (h : VRepW cfg (SOkW cfg.ops cfg.n) c m xs w) (hf : Fresh m) :
    Post (shrinkToFit cfg c) m (StrongPostI cfg (SOkW cfg.ops cfg.n) c m w xs xs ()) :=
  Bridge.U8.shrinkToFit_small α cfg hfl hops hN hN0 m c xs w h hf
theorem C13_shrink_vector_U32 (cfg : Cfg) (hfl : cfg.flavour = .std) (hops : cfg.ops = Gen.U32.dvbOps)
    (m : Mem α) (c : Nat) (xs : List α) (w : VB) (h : VRepW cfg (DOkW cfg.ops.kMax) c m xs w) (hf : Fresh m) :
    Post (shrinkToFit cfg c) m (StrongPost cfg (DOkW cfg.ops.kMax) c m w xs xs ()) :=
  Bridge.U32.shrinkToFit_std α cfg hfl hops m c xs w h hf
theorem C13_shrink_vector_U64 (cfg : Cfg) (hfl : cfg.flavour = .std) (hops : cfg.ops = Gen.U64.dvbOps)
    (m : Mem α) (c : Nat) (xs : List α) (w : VB) (h : VRepW cfg (DOkW cfg.ops.kMax) c m xs w) (hf : Fresh m) :
    Post (shrinkToFit cfg c) m (StrongPost cfg (DOkW cfg.ops.kMax) c m w xs xs ()) :=
  Bridge.U64.shrinkToFit_std α cfg hfl hops m c xs w h hf
theorem C13_shrink_capacity {cfg : Cfg} {Ok : VB → Prop} (L : VecLaws α cfg Ok) (S : ShrinkLaws cfg Ok) (m : Mem α) (c : Nat)
    (xs : List α) (w : VB) (h : VRepW cfg Ok c m xs w) (hf : Fresh m) :
    Post (shrinkToFit cfg c) m (fun res m' => res = .ok () →
      ∃ w', VRepW cfg Ok c m' xs w' ∧ cfg.ops.capacity w' =
        (match cfg.flavour with
         | .small => max xs.length cfg.n
         | .std => xs.length
         | .fixed => cfg.ops.capacity w)) :=
  shrinkToFit_capacity L S m c xs w h hf

end AmcVerif.Props.C13
