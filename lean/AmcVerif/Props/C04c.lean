import AmcVerif.Props.C04b
/-! C04 (generated model, second part) — the remaining SmallSet members as regenerated from `smallset.hpp` on every run
(`translator/smallset2lean.py` → `Gen/SmallSetGen.lean`, tied to the hand-written model in `Bridge/SmallSetBridge.lean`): range
insertion (`insert(first, last)`, `insert(initializer_list)`, `operator=(initializer_list)`, the range / initializer-list
constructors), `erase(first, last)` (both iterator kinds), `swap`, `insert(hint, value)`, `extract`, the comparison operators
(`C04_gen_eq_repr`, `C04_gen_eq_state`, `C04_gen_eq`, `C04_gen_eq_shared`, `C04_gen_order`, `C04_gen_order_repr`; the generated
functions take the comparator objects of the two sets separately, `lt` and `lt_o`).  Every statement also says
that no undefined behaviour is reached (the generated function returns `some _`). -/
namespace AmcVerif.Props.C04
open AmcVerif AmcVerif.FS AmcVerif.Sets AmcVerif.Bridge.SmallSet
variable {α : Type} {lt : α → α → Bool}

/-- `C04_history` for the generated range insertion: the source goes through `insert_small` while the set is inline and hands
    the rest of the range to the backing set in one call; the outcome is that of inserting one by one, and the invariant holds -/
theorem C04_gen_history (hswo : SWO lt) (N : Nat) (s : SSet α) (h : s.Inv lt N) (vs : List α) :
    (∃ r, Gen.SmallSet.insert_range lt N s vs = some r ∧ r.1 = s.insertRange lt N vs ∧ r.1.Inv lt N)
    ∧ (∃ r, Gen.SmallSet.insert_ilist lt N s vs = some r ∧ r.1 = s.insertRange lt N vs ∧ r.1.Inv lt N) := by
  obtain ⟨c, hc⟩ := insert_range_eq lt N s h.excl vs
  obtain ⟨c', hc'⟩ := insert_ilist_eq lt N s h.excl vs
  exact ⟨⟨_, hc, rfl, C04_history hswo N vs s h⟩, ⟨_, hc', rfl, C04_history hswo N vs s h⟩⟩

/-- the constructors from a range / an initializer list and `operator=(initializer_list)`: the set obtained by inserting the
    elements one by one into the empty set; it satisfies the invariant -/
theorem C04_gen_ctor (hswo : SWO lt) (N : Nat) (s : SSet α) (h : s.Inv lt N) (vs : List α) :
    (∃ r, Gen.SmallSet.ctor_range lt N vs = some r ∧ r.1 = (⟨[], []⟩ : SSet α).insertRange lt N vs ∧ r.1.Inv lt N)
    ∧ (∃ r, Gen.SmallSet.ctor_ilist lt N vs = some r ∧ r.1 = (⟨[], []⟩ : SSet α).insertRange lt N vs ∧ r.1.Inv lt N)
    ∧ (∃ r, Gen.SmallSet.assign_ilist lt N s vs = some r ∧ r.1 = (⟨[], []⟩ : SSet α).insertRange lt N vs ∧ r.1.Inv lt N) := by
  have hinv := C04_history hswo N vs (⟨[], []⟩ : SSet α) (C04_init N)
  obtain ⟨c1, h1⟩ := ctor_range_eq lt N vs
  obtain ⟨c2, h2⟩ := ctor_ilist_eq lt N vs
  obtain ⟨c3, h3⟩ := assign_ilist_eq lt N s h.excl vs
  exact ⟨⟨_, h1, rfl, hinv⟩, ⟨_, h2, rfl, hinv⟩, ⟨_, h3, rfl, hinv⟩⟩

theorem take_drop_sublist (l : List α) (a b : Nat) (hab : a ≤ b) : (l.take a ++ l.drop b).Sublist l := by
  have h1 : (l.take a ++ l.drop b).Sublist (l.take a ++ l.drop a) :=
    List.Sublist.append (List.Sublist.refl _) (List.drop_sublist_drop_left l hab)
  simpa using h1

/-- erasing a range of positions keeps the invariant -/
theorem eraseRangeS_inv (N : Nat) (s : SSet α) (h : s.Inv lt N) (a b : Nat) (hab : a ≤ b) : (eraseRangeS s a b).Inv lt N := by
  unfold eraseRangeS
  cases hs : s.isSmall
  · simp only [Bool.false_eq_true, if_false]
    exact ⟨fun _ => rfl, by simp, by simp [NoEquivDup], List.Pairwise.sublist (take_drop_sublist s.set a b hab) h.sorted⟩
  · simp only [if_true]
    refine ⟨fun hne => absurd rfl hne, ?_, List.Pairwise.sublist (take_drop_sublist s.vec a b hab) h.nodup, by simp [Sorted]⟩
    have h1 := h.bound
    have h2 := (take_drop_sublist s.vec a b hab).length_le
    show (s.vec.take a ++ s.vec.drop b).length ≤ N
    omega

/-- the iteration sequence after `erase(first, last)` is the old one without the positions `[a, b)`, in either state -/
theorem eraseRangeS_elems (N : Nat) (s : SSet α) (h : s.Inv lt N) (a b : Nat) :
    (eraseRangeS s a b).elems = s.elems.take a ++ s.elems.drop b := by
  by_cases hset : s.set = []
  · simp [eraseRangeS, SSet.elems, SSet.isSmall, hset]
  · have hvec : s.vec = [] := h.excl hset
    by_cases he : s.set.take a ++ s.set.drop b = []
    · simp [eraseRangeS, SSet.elems, SSet.isSmall, hset, he]
    · simp [eraseRangeS, SSet.elems, SSet.isSmall, hset]

/-- `erase(first, last)` (both overloads) called with a valid range of the set: no undefined behaviour, exactly the elements of
    the range leave the iteration sequence, the invariant is kept, and the iterator returned is `end()` of the resulting set
    exactly when nothing follows the range — also when the set becomes empty and switches back to its inline state -/
theorem C04_gen_erase_range (N : Nat) (s : SSet α) (h : s.Inv lt N) (a b : Nat) (hab : a ≤ b) (hb : b ≤ s.elems.length) :
    (∃ r, Gen.SmallSet.erase_range_ptr lt N s (s.isSmall, a) (s.isSmall, b) = some r ∧ r.1.Inv lt N
        ∧ r.1.elems = s.elems.take a ++ s.elems.drop b ∧ (r.2.1 = endIt r.1 ↔ b = s.elems.length))
    ∧ (∃ r, Gen.SmallSet.erase_range_var lt N s (s.isSmall, a) (s.isSmall, b) = some r ∧ r.1.Inv lt N
        ∧ r.1.elems = s.elems.take a ++ s.elems.drop b ∧ (r.2.1 = endIt r.1 ↔ b = s.elems.length)) := by
  have hel := eraseRangeS_elems N s h a b
  have key : ((eraseRangeR s a b).2.1 = endIt (eraseRangeR s a b).1 ↔ b = s.elems.length) := by
    have hlen : ((eraseRangeS s a b).elems).length = a + (s.elems.length - b) := by
      rw [hel]; simp only [List.length_append, List.length_take, List.length_drop]; omega
    simp only [eraseRangeR, endIt]
    split
    · rename_i hlt
      constructor
      · intro he
        have := congrArg Prod.snd he
        simp only at this
        omega
      · intro he; omega
    · rename_i hge
      constructor
      · intro _; omega
      · intro _; rfl
  exact ⟨⟨_, erase_range_ptr_eq lt N s h.excl (s.isSmall, a) (s.isSmall, b) rfl rfl hab hb, eraseRangeS_inv N s h a b hab, hel, key⟩,
         ⟨_, erase_range_var_eq lt N s h.excl (s.isSmall, a) (s.isSmall, b) rfl rfl hab hb, eraseRangeS_inv N s h a b hab, hel, key⟩⟩

/-- `swap` exchanges the two states (inline vector and backing set together) -/
theorem C04_gen_swap (N : Nat) (s o : SSet α) (h : s.Inv lt N) (ho : o.Inv lt N) :
    ∃ r, Gen.SmallSet.swap lt N s o = some r ∧ r.1 = o ∧ r.2.1 = s ∧ r.1.Inv lt N ∧ r.2.1.Inv lt N :=
  ⟨_, swap_eq lt N s o, rfl, rfl, ho, h⟩

/-- `insert(hint, v)` (both value categories, both iterator kinds) has the outcome of `insert(v)`, whatever the (valid) hint -/
theorem C04_gen_insert_at (hswo : SWO lt) (N : Nat) (s : SSet α) (h : s.Inv lt N) (i : Nat) (v : α) :
    ∃ r, Gen.SmallSet.insert lt N s v = some r
      ∧ Gen.SmallSet.insert_at_ptr lt N s (s.isSmall, i) v = some (r.1, r.2.1.1, r.2.2)
      ∧ Gen.SmallSet.insert_at_var lt N s (s.isSmall, i) v = some (r.1, r.2.1.1, r.2.2)
      ∧ Gen.SmallSet.insert_at_rv_ptr lt N s (s.isSmall, i) v = some (r.1, r.2.1.1, r.2.2)
      ∧ Gen.SmallSet.insert_at_rv_var lt N s (s.isSmall, i) v = some (r.1, r.2.1.1, r.2.2)
      ∧ r.1.Inv lt N :=
  ⟨_, insert_eq lt N s v h.excl, insert_at_ptr_eq lt N s h.excl (s.isSmall, i) rfl v,
   insert_at_var_eq lt N s h.excl (s.isSmall, i) rfl v, insert_at_rv_ptr_eq lt N s h.excl (s.isSmall, i) rfl v,
   insert_at_rv_var_eq lt N s h.excl (s.isSmall, i) rfl v, insert_inv hswo N s h v⟩

/-- `extract(key)`: the state is that of `erase(key)`; a node with a value is handed out exactly when an equivalent element
    is present (as `find` answers), in either state -/
theorem C04_gen_extract (hswo : SWO lt) (N : Nat) (s : SSet α) (h : s.Inv lt N) (k : α) :
    ∃ r, Gen.SmallSet.extract lt N s k = some r ∧ r.1 = (s.eraseKey lt k).1
      ∧ (r.2.1.isSome = true ↔ HasEquiv lt s.elems k) := by
  refine ⟨_, extract_eq lt N s h.excl k, rfl, ?_⟩
  rw [← C04_find hswo N s h k]
  unfold extractNode SSet.find
  cases hs : s.isSmall
  · simp only [Bool.false_eq_true, if_false]
    cases hf : (findC lt s.set k).1 with
    | none => simp
    | some i =>
      obtain ⟨y, hy⟩ := Bridge.FlatSet.getElem?_of_lt s.set i (Bridge.FlatSet.findC_some_lt lt s.set k i hf)
      simp [hy]
  · simp only [if_true]
    cases hf : (findSmall lt s.vec k 0).1 with
    | none => simp
    | some i =>
      have hr := findSmall_range lt s.vec k 0 i hf
      obtain ⟨y, hy⟩ := Bridge.FlatSet.getElem?_of_lt s.vec i (by omega)
      simp [hy]

/-- `std::sort` of a list without two equivalent elements, with the comparator `lt`: strictly increasing, same elements -/
theorem sortedBy_sorted (hswo : SWO lt) (l : List α) (hnd : NoEquivDup lt l) :
    Sorted lt (Gen.SmallSet.sortedBy lt l) ∧ (Gen.SmallSet.sortedBy lt l).Perm l := by
  have hperm : (Gen.SmallSet.sortedBy lt l).Perm l := List.mergeSort_perm l _
  refine ⟨?_, hperm⟩
  have hle : (Gen.SmallSet.sortedBy lt l).Pairwise (fun a b => (!lt b a) = true) := by
    unfold Gen.SmallSet.sortedBy
    refine List.pairwise_mergeSort (le := fun a b => !lt b a) ?_ ?_ l
    · intro a b c hab hbc
      cases hca : lt c a with
      | false => rfl
      | true =>
        rcases hswo.cotrans c b a hca with h | h
        · rw [h] at hbc; cases hbc
        · rw [h] at hab; cases hab
    · intro a b
      cases hba : lt b a with
      | false => rfl
      | true => simp [hswo.asymm hba]
  have hnd' : NoEquivDup lt (Gen.SmallSet.sortedBy lt l) :=
    (hperm.pairwise_iff (fun {a b} (h : ¬ Equiv lt a b) => fun h' => h (equiv_symm h'))).mpr hnd
  unfold Sorted
  refine (hle.and hnd').imp ?_
  intro a b ⟨h1, h2⟩
  cases hab : lt a b with
  | true => rfl
  | false =>
    exfalso; apply h2
    refine ⟨hab, ?_⟩
    cases hba : lt b a with
    | false => rfl
    | true => rw [hba] at h1; cases h1

/-- the sequence that `operator==` and `operator<` compare is, for a set that satisfies the invariant, THE strictly increasing arrangement (by the
    comparator `lt` of the set) of its elements, whether the set is inline or large -/
theorem sortedElems_spec (hswo : SWO lt) (N : Nat) (s : SSet α) (h : s.Inv lt N) :
    Sorted lt (sortedElems lt s) ∧ (sortedElems lt s).Perm s.elems := by
  unfold sortedElems SSet.elems
  cases hs : s.isSmall
  · simp only [Bool.false_eq_true, if_false]
    exact ⟨h.sorted, List.Perm.refl _⟩
  · simp only [if_true]
    exact sortedBy_sorted hswo s.vec h.nodup

/-- two sets that satisfy the invariant for the same comparator and hold the same elements are compared through the same
    sequence, whatever the states they are in -/
theorem sortedElems_congr (hswo : SWO lt) (N : Nat) (a b : SSet α) (ha : a.Inv lt N) (hb : b.Inv lt N)
    (hab : a.elems.Perm b.elems) : sortedElems lt a = sortedElems lt b := by
  obtain ⟨sa, pa⟩ := sortedElems_spec hswo N a ha
  obtain ⟨sb, pb⟩ := sortedElems_spec hswo N b hb
  exact List.Perm.eq_of_pairwise (le := fun x y => lt x y = true)
    (fun x y _ _ hxy hyx => by rw [hswo.asymm hxy] at hyx; cases hyx) sa sb ((pa.trans hab).trans pb.symm)

/-- the strictly increasing arrangement of the elements of a set is unique: any such list is the sequence that is compared -/
theorem sortedElems_unique (hswo : SWO lt) (N : Nat) (s : SSet α) (h : s.Inv lt N) (ls : List α) (hls : Sorted lt ls)
    (pls : ls.Perm s.elems) : sortedElems lt s = ls := by
  obtain ⟨sa, pa⟩ := sortedElems_spec hswo N s h
  exact List.Perm.eq_of_pairwise (le := fun x y => lt x y = true)
    (fun x y _ _ hxy hyx => by rw [hswo.asymm hxy] at hyx; cases hyx) sa hls (pa.trans pls.symm)

/-- `operator==` / `operator!=` on the code as it is now, for two sets whose comparator OBJECTS may differ (`lt` in `*this`, `lt_o`
    in the other set): the answer is `std::set`'s — the element-wise comparison, with `==` of the element type, of the elements of
    `*this` in strictly increasing `lt` order with the elements of the other set in strictly increasing `lt_o` order —, whatever
    the states (inline or large) of the two sets.  `ls` / `lo` are ANY such arrangements (they exist and are unique:
    `sortedElems_spec`, `sortedElems_unique`) -/
theorem C04_gen_eq_repr {lt_o : α → α → Bool} (hswo : SWO lt) (hswo_o : SWO lt_o) (N : Nat) (s o : SSet α) (h : s.Inv lt N)
    (ho : o.Inv lt_o N) (eqT : α → α → Bool) (ls lo : List α) (hls : Sorted lt ls) (pls : ls.Perm s.elems)
    (hlo : Sorted lt_o lo) (plo : lo.Perm o.elems) :
    Gen.SmallSet.op_eq lt N s lt_o o eqT = some (Gen.SmallSet.vecEq eqT ls lo, 0)
      ∧ Gen.SmallSet.op_ne lt N s lt_o o eqT = some (!Gen.SmallSet.vecEq eqT ls lo, 0) := by
  rw [op_eq_eq, op_ne_eq]
  simp only [eqS, sortedElems_unique hswo N s h ls hls pls, sortedElems_unique hswo_o N o ho lo hlo plo, and_self]

/-- hence the answer depends only on the elements of the two sets, not on the states they are in -/
theorem C04_gen_eq_state {lt_o : α → α → Bool} (hswo : SWO lt) (hswo_o : SWO lt_o) (N : Nat) (s s' o o' : SSet α)
    (h : s.Inv lt N) (h' : s'.Inv lt N) (ho : o.Inv lt_o N) (ho' : o'.Inv lt_o N) (hp : s.elems.Perm s'.elems)
    (hpo : o.elems.Perm o'.elems) (eqT : α → α → Bool) :
    Gen.SmallSet.op_eq lt N s lt_o o eqT = Gen.SmallSet.op_eq lt N s' lt_o o' eqT
      ∧ Gen.SmallSet.op_ne lt N s lt_o o eqT = Gen.SmallSet.op_ne lt N s' lt_o o' eqT := by
  simp only [op_eq_eq, op_ne_eq, eqS, sortedElems_congr hswo N s s' h h' hp, sortedElems_congr hswo_o N o o' ho ho' hpo,
    and_self]

/-- two sets that SHARE their comparator, with `==` of the elements being equality: they are equal exactly when their iteration
    sequences are permutations of each other — whatever the states the two sets are in -/
theorem C04_gen_eq [DecidableEq α] (hswo : SWO lt) (N : Nat) (s o : SSet α) (h : s.Inv lt N) (ho : o.Inv lt N) :
    ∃ r, Gen.SmallSet.op_eq lt N s lt o (fun a b => decide (a = b)) = some r
      ∧ Gen.SmallSet.op_ne lt N s lt o (fun a b => decide (a = b)) = some (!r.1, 0)
      ∧ (r.1 = true ↔ s.elems.Perm o.elems) := by
  refine ⟨_, op_eq_eq lt N s lt o _, op_ne_eq lt N s lt o _, ?_⟩
  obtain ⟨_, pa⟩ := sortedElems_spec hswo N s h
  obtain ⟨_, pb⟩ := sortedElems_spec hswo N o ho
  simp only [eqS, vecEq_decide, decide_eq_true_eq]
  constructor
  · intro he
    exact (pa.symm.trans (he ▸ List.Perm.refl _)).trans pb
  · exact sortedElems_congr hswo N s o h ho

/-- the equality of the historical source (`std::is_permutation` as soon as one side is inline), with `==` of the elements being
    equality, on two sets that satisfy the invariant for the same comparator -/
theorem eqPermS_iff [DecidableEq α] (hswo : SWO lt) (N : Nat) (s o : SSet α) (h : s.Inv lt N) (ho : o.Inv lt N) :
    eqPermS (fun a b => decide (a = b)) s o = true ↔ s.elems.Perm o.elems := by
  simp only [eqPermS]
  by_cases hsz : s.size = o.size
  · simp only [hsz, if_true]
    cases hs : s.isSmall
    · cases hos : o.isSmall
      · -- both large: the two sorted sequences are equal
        simp only [Bool.false_eq_true, if_false, vecEq_decide, decide_eq_true_eq, SSet.elems, hs, hos]
        constructor
        · intro he; rw [he]
        · intro hp
          exact List.Perm.eq_of_pairwise (le := fun a b => lt a b = true)
            (fun a b _ _ hab hba => by rw [hswo.asymm hab] at hba; cases hba) h.sorted ho.sorted hp
      · simp only [Bool.false_eq_true, if_false, if_true, isPermutation_decide, SSet.elems, hs, hos]
    · simp only [if_true, isPermutation_decide, SSet.elems, hs]
  · simp only [hsz, if_false, Bool.false_eq_true, false_iff]
    intro hp
    exact hsz hp.length_eq

/-- nothing changes for two sets that share their comparator: `operator==` as it is now answers what the historical,
    permutation-based `operator==` (`eqPermS`, the model the bridge had before the repair) answered -/
theorem C04_gen_eq_shared [DecidableEq α] (hswo : SWO lt) (N : Nat) (s o : SSet α) (h : s.Inv lt N) (ho : o.Inv lt N) :
    Gen.SmallSet.op_eq lt N s lt o (fun a b => decide (a = b)) = some (eqPermS (fun a b => decide (a = b)) s o, 0) := by
  obtain ⟨r, hr, _, hiff⟩ := C04_gen_eq hswo N s o h ho
  have hr1 : r.1 = eqPermS (fun a b => decide (a = b)) s o := by
    rw [Bool.eq_iff_iff, hiff, eqPermS_iff hswo N s o h ho]
  have hr2 : r.2 = 0 := by
    have := hr; rw [op_eq_eq] at this; cases this; rfl
  rw [hr, ← hr1, ← hr2]

/-- the witness of V26 on the generated function: two inline sets (N = 2) holding the same elements 1 and 7, the comparator
    object of the first ordering by `· % 7`, the one of the second by `· % 10`: the iteration sequences are 7, 1 and 1, 7, and
    `operator==` answers `false` as `std::set`'s does (the historical `std::is_permutation` answered `true` while both were inline,
    and `false` once both had grown) -/
example : Gen.SmallSet.op_eq (fun a b : Nat => decide (a % 7 < b % 7)) 2 ⟨[1, 7], []⟩
    (fun a b : Nat => decide (a % 10 < b % 10)) ⟨[1, 7], []⟩ (fun a b => a == b) = some (false, 0) := by
  have h7 : Gen.SmallSet.sortedBy (fun a b : Nat => decide (a % 7 < b % 7)) [1, 7] = [7, 1] := by
    simp [Gen.SmallSet.sortedBy, List.mergeSort, List.MergeSort.Internal.splitInTwo]
  have h10 : Gen.SmallSet.sortedBy (fun a b : Nat => decide (a % 10 < b % 10)) [1, 7] = [1, 7] := by
    simp [Gen.SmallSet.sortedBy, List.mergeSort, List.MergeSort.Internal.splitInTwo]
  simp [Gen.SmallSet.op_eq, Gen.SmallSet.size, Gen.SmallSet.isSmall, Gen.SmallSet.isSmallOf, op_eq_pred_eq, h7, h10,
    Gen.SmallSet.vecEq]

example : eqPermS (fun a b : Nat => a == b) ⟨[1, 7], []⟩ ⟨[1, 7], []⟩ = true := by
  decide +kernel

/-- the same two sets once large (backing sets 7, 1 and 1, 7): `false` as well -/
example : Gen.SmallSet.op_eq (fun a b : Nat => decide (a % 7 < b % 7)) 2 ⟨[], [7, 1]⟩
    (fun a b : Nat => decide (a % 10 < b % 10)) ⟨[], [1, 7]⟩ (fun a b => a == b) = some (false, 0) := by
  decide +kernel

/-- the ordering operators on the code as it is now are all defined through `operator<` and are consistent with each other;
    a set is not less than itself when `<` of the elements is irreflexive.  `operator<` sorts the inline elements of each set with
    the comparator object of that set (`key_comp()` = `lt` / `o.key_comp()` = `lt_o`): the outcome is `ltS lt lt_o ltT`, which
    involves no other comparator -/
theorem C04_gen_order {lt_o : α → α → Bool} (N : Nat) (s o : SSet α) (ltT : α → α → Bool) (hirr : ∀ a, ltT a a = false) :
    ∃ r, r = ltS lt lt_o ltT s o
      ∧ Gen.SmallSet.op_lt lt N s lt_o o ltT = some (r, 0)
      ∧ Gen.SmallSet.op_gt lt_o N o lt s ltT = some (r, 0)
      ∧ Gen.SmallSet.op_ge lt N s lt_o o ltT = some (!r, 0)
      ∧ Gen.SmallSet.op_le lt_o N o lt s ltT = some (!r, 0)
      ∧ Gen.SmallSet.op_lt lt N s lt s ltT = some (false, 0) := by
  refine ⟨_, rfl, op_lt_eq lt N s lt_o o ltT, op_gt_eq lt_o N o lt s ltT, op_ge_eq lt N s lt_o o ltT,
    op_le_eq lt_o N o lt s ltT, ?_⟩
  rw [op_lt_eq]
  simp only [ltS, vecLess_irrefl ltT hirr]

/-- what `operator<` and the operators defined through it answer does not depend on the states the two sets are in (inline or
    large), only on their elements: sets with the same elements are interchangeable on either side.  This rests on each side being
    ordered by the comparator object of its own set, which is also the one that orders its backing set -/
theorem C04_gen_order_repr {lt_o : α → α → Bool} (hswo : SWO lt) (hswo_o : SWO lt_o) (N : Nat) (s s' o o' : SSet α)
    (h : s.Inv lt N) (h' : s'.Inv lt N) (ho : o.Inv lt_o N) (ho' : o'.Inv lt_o N) (hp : s.elems.Perm s'.elems)
    (hpo : o.elems.Perm o'.elems) (ltT : α → α → Bool) :
    Gen.SmallSet.op_lt lt N s lt_o o ltT = Gen.SmallSet.op_lt lt N s' lt_o o' ltT
      ∧ Gen.SmallSet.op_le lt N s lt_o o ltT = Gen.SmallSet.op_le lt N s' lt_o o' ltT
      ∧ Gen.SmallSet.op_gt lt N s lt_o o ltT = Gen.SmallSet.op_gt lt N s' lt_o o' ltT
      ∧ Gen.SmallSet.op_ge lt N s lt_o o ltT = Gen.SmallSet.op_ge lt N s' lt_o o' ltT := by
  have e1 := sortedElems_congr hswo N s s' h h' hp
  have e2 := sortedElems_congr hswo_o N o o' ho ho' hpo
  simp only [op_lt_eq, op_le_eq, op_gt_eq, op_ge_eq, ltS, e1, e2, and_self]

end AmcVerif.Props.C04
