import AmcVerif.Props.C15
import AmcVerif.Bridge.MemAlgoBridge
/-! C15 restated for the code as it is now: the dispatch and the arms of `Gen/MemAlgoGen.lean`, regenerated from
`include/amc/memory.hpp` by `translator/memory2lean.py` under `-std=c++11/14/17/20`, instead of the hand-written
`Amc.*` / `Arm.*` / `implMode`.

* (c) `C15_gen_implMode_*`: stated and proved directly on the generated `ImplModeFactory` tree (no bridge needed): a
  memcpy / memmove arm is selected only if the trait allows it, the value types agree and the source is an lvalue range;
  the single bulk call (`MemMove`) only if moreover both iterators are pointers. `C15_gen_*_memMove_only_if` lift this to
  the generated public algorithms: whenever `amc::uninitialized_copy_n` / `amc::uninitialized_relocate_n` run their bulk
  memcpy / memmove arm, both iterators are pointers and the element type is trivially copyable / relocatable.
* (a), (b): the main theorems of `Props/C15.lean` for the generated algorithms, by rewriting with the equalities of
  `Bridge/MemAlgoBridge.lean`.
* `C15_gen_alias_*`: from which standard on `amc::X` is the standard algorithm itself. -/
namespace AmcVerif.Props.C15
open AmcVerif AmcVerif.MemAlgo AmcVerif.Bridge.MemAlgo
variable {α : Type}

/- ---------------------------------------------------------------------------------------------------------
   (c) the generated ImplModeFactory
   --------------------------------------------------------------------------------------------------------- -/

/-- a memcpy arm is selected only if memmove is possible, the value types agree and `*first` is an lvalue -/
theorem C15_gen_implMode_memcpy_only_if_trait :
    ∀ a b m s l : Bool, Gen.MemAlgo.implMode a b m s l ≠ .dflt → m = true ∧ s = true ∧ l = true := by decide

/-- the complete selection table of the generated tree -/
theorem C15_gen_implMode_table :
    ∀ a b m s l : Bool,
      (Gen.MemAlgo.implMode a b m s l = .memMove ↔ (m && s && l && a && b) = true)
      ∧ (Gen.MemAlgo.implMode a b m s l = .memMoveInALoop ↔ (m && s && l && !(a && b)) = true)
      ∧ (Gen.MemAlgo.implMode a b m s l = .dflt ↔ (m && s && l) = false) := by decide

/-- the single bulk memcpy / memmove only if both iterators are pointers -/
theorem C15_gen_implMode_memMove_only_if_pointers :
    ∀ a b m s l : Bool, Gen.MemAlgo.implMode a b m s l = .memMove → a = true ∧ b = true ∧ m = true := by decide

example : Gen.MemAlgo.implMode true true true true true = .memMove ∧ Gen.MemAlgo.implMode true false true true true = .memMoveInALoop
    ∧ Gen.MemAlgo.implMode true true false true true = .dflt ∧ Gen.MemAlgo.implMode true true true true false = .dflt := by decide

/-- pre-C++17 `amc::uninitialized_copy_n` (generated dispatch) runs the bulk-memcpy arm only if both iterators are
    pointers, the element type is trivially copyable, the value types agree and the source is not a move_iterator -/
theorem C15_gen_uninitCopyN_memMove_only_if (it : It) (ty : Ty) (k : Option Nat) (n : Nat) (src dst : List (Slot α))
    (h : Gen.MemAlgo.implMode it.isPointerIn it.isPointerOut ty.trivCopy it.sameType (Gen.MemAlgo.lvalueRef it) = .memMove) :
    Gen.MemAlgo.uninitCopyN .cxx11 it ty k n src dst = Gen.MemAlgo.Arm.copyNMemMove ty.trivCopy n src dst
    ∧ it.isPointerIn = true ∧ it.isPointerOut = true ∧ ty.trivCopy = true ∧ it.sameType = true ∧ it.rvalueRef = false := by
  refine ⟨by simp only [Gen.MemAlgo.uninitCopyN, h], ?_⟩
  revert h
  unfold Gen.MemAlgo.lvalueRef
  cases it.isPointerIn <;> cases it.isPointerOut <;> cases ty.trivCopy <;> cases it.sameType <;> cases it.rvalueRef <;> decide

/-- conversely, when the dispatch does not select `Default`, the trait that makes the byte-wise arm legal holds: the
    `allowed` flag the generated dispatch passes to the memcpy arms is `true` -/
theorem C15_gen_uninitCopyN_memcpy_allowed (it : It) (ty : Ty)
    (h : Gen.MemAlgo.implMode it.isPointerIn it.isPointerOut ty.trivCopy it.sameType (Gen.MemAlgo.lvalueRef it) ≠ .dflt) :
    ty.trivCopy = true :=
  (C15_gen_implMode_memcpy_only_if_trait _ _ _ _ _ h).1

/-- `amc::uninitialized_relocate_n` (every standard) runs the bulk-memmove arm only if both iterators are pointers and
    the element type is trivially relocatable -/
theorem C15_gen_uninitRelocN_memMove_only_if (std : Std) (it : It) (ty : Ty) (k : Option Nat) (n : Nat) (src dst : List (Slot α))
    (h : Gen.MemAlgo.implMode it.isPointerIn it.isPointerOut ty.trivReloc it.sameType (Gen.MemAlgo.lvalueRef it) = .memMove) :
    Gen.MemAlgo.uninitRelocN std it ty k n src dst = Gen.MemAlgo.Arm.relocNMemMove ty.trivReloc n src dst
    ∧ it.isPointerIn = true ∧ it.isPointerOut = true ∧ ty.trivReloc = true := by
  refine ⟨by simp only [Gen.MemAlgo.uninitRelocN, h], ?_⟩
  exact C15_gen_implMode_memMove_only_if_pointers _ _ _ _ _ h

/-- the generated `relocate_at` takes the memmove arm exactly for trivially relocatable types -/
theorem C15_gen_relocateAt_memMove_iff (std : Std) (ty : Ty) (k : Option Nat) (src dst : List (Slot α)) :
    (ty.trivReloc = true → Gen.MemAlgo.relocateAt std ty k src dst = Gen.MemAlgo.Arm.relocateAtMemMove true src dst)
    ∧ (ty.trivReloc = false → Gen.MemAlgo.relocateAt std ty k src dst = Gen.MemAlgo.relocateAtDflt std ty k src dst) := by
  constructor <;> intro h <;> simp [Gen.MemAlgo.relocateAt, h]

/-- the generated memcpy / memmove arms applied to a type whose trait is false are undefined behaviour in the model (the
    guard of the dispatch is not vacuous) -/
theorem C15_gen_memcpy_denied (v : α) (vs : List α) (st dt : List (Slot α)) :
    (Gen.MemAlgo.Arm.copyNMemMove false (v :: vs).length ((v :: vs).map .live ++ st) (List.replicate (v :: vs).length .raw ++ dt)).out
      = .fault .bitwiseNTR
    ∧ (Gen.MemAlgo.Arm.relocNMemMove false (v :: vs).length ((v :: vs).map .live ++ st) (List.replicate (v :: vs).length .raw ++ dt)).out
      = .fault .bitwiseNTR := by
  rw [Arm.copyNMemMove_eq, Arm.relocNMemMove_eq]
  exact ⟨(C15_copy_memcpy_denied v vs st dt).1, (C15_reloc_memmove_denied v vs st dt).1⟩

/- ---------------------------------------------------------------------------------------------------------
   aliases
   --------------------------------------------------------------------------------------------------------- -/

/-- from C++17 on the copy / move / default / value / destroy algorithms are the standard ones, `construct_at` from C++20
    on, the relocation functions never (read off the four clang runs) -/
theorem C15_gen_alias_ladder (std : Std) :
    Gen.MemAlgo.isStdAlias .uninitialized_copy_n std = std.has17 ∧ Gen.MemAlgo.isStdAlias .uninitialized_move_n std = std.has17
    ∧ Gen.MemAlgo.isStdAlias .destroy_n std = std.has17 ∧ Gen.MemAlgo.isStdAlias .construct_at std = std.has20
    ∧ Gen.MemAlgo.isStdAlias .uninitialized_relocate_n std = false ∧ Gen.MemAlgo.isStdAlias .relocate_at std = false := by
  cases std <;> decide

/-- where `amc::X` is an alias the generated function is the specification itself -/
theorem C15_gen_alias_is_spec (it : It) (ty : Ty) (k : Option Nat) (n : Nat) (src dst : List (Slot α)) :
    Gen.MemAlgo.uninitCopyN .cxx17 it ty k n src dst = Spec.uninitCopyN it.rvalueRef ty k n src dst
    ∧ Gen.MemAlgo.uninitCopyN .cxx20 it ty k n src dst = Spec.uninitCopyN it.rvalueRef ty k n src dst
    ∧ Gen.MemAlgo.uninitMoveN .cxx17 it ty k n src dst = Spec.uninitMoveN ty k n src dst
    ∧ Gen.MemAlgo.constructAtMove .cxx20 ty k src dst = Spec.constructAtMove ty k src dst :=
  ⟨rfl, rfl, rfl, rfl⟩

/- ---------------------------------------------------------------------------------------------------------
   (a), (b) for the generated algorithms
   --------------------------------------------------------------------------------------------------------- -/

/-- (a) every generated arm of `uninitialized_copy_n` equals the specification -/
theorem C15_gen_uninitCopyN_arms (rv : Bool) (ty : Ty) (k : Option Nat) (vs : List α) (st dt : List (Slot α))
    (hk : throwAt k vs.length = none) :
    Gen.MemAlgo.Arm.copyNDflt rv ty k vs.length (vs.map .live ++ st) (List.replicate vs.length .raw ++ dt)
      = Spec.uninitCopyN rv ty k vs.length (vs.map .live ++ st) (List.replicate vs.length .raw ++ dt)
    ∧ Gen.MemAlgo.Arm.copyNInALoop true vs.length (vs.map .live ++ st) (List.replicate vs.length .raw ++ dt)
      = Spec.uninitCopyN false ty k vs.length (vs.map .live ++ st) (List.replicate vs.length .raw ++ dt)
    ∧ Gen.MemAlgo.Arm.copyNMemMove true vs.length (vs.map .live ++ st) (List.replicate vs.length .raw ++ dt)
      = Spec.uninitCopyN false ty k vs.length (vs.map .live ++ st) (List.replicate vs.length .raw ++ dt) := by
  rw [Arm.copyNDflt_eq, Arm.copyNInALoop_eq, Arm.copyNMemMove_eq]
  exact C15_uninitCopyN_arms rv ty k vs st dt hk

/-- (a) the generated `amc::uninitialized_copy_n` = `std::uninitialized_copy_n`, under every standard, for every
    iterator kind and element type -/
theorem C15_gen_uninitCopyN_nothrow (std : Std) (it : It) (ty : Ty) (k : Option Nat) (vs : List α) (st dt : List (Slot α))
    (hk : throwAt k vs.length = none) :
    Gen.MemAlgo.uninitCopyN std it ty k vs.length (vs.map .live ++ st) (List.replicate vs.length .raw ++ dt)
      = Spec.uninitCopyN it.rvalueRef ty k vs.length (vs.map .live ++ st) (List.replicate vs.length .raw ++ dt) := by
  rw [uninitCopyN_eq]
  exact C15_uninitCopyN_nothrow std it ty k vs st dt hk

/-- (b) construction `j` throws: nothing is left in the destination, the sources are intact (moved-from up to `j` for an
    rvalue source), the tails are untouched -/
theorem C15_gen_uninitCopyN_throw_at (std : Std) (it : It) (ty : Ty) (vs : List α) (j : Nat) (hj : j < vs.length)
    (st dt : List (Slot α)) (hty : ty.trivCopy = false) :
    Gen.MemAlgo.uninitCopyN std it ty (some j) vs.length (vs.map .live ++ st) (List.replicate vs.length .raw ++ dt)
      = ⟨if it.rvalueRef then (vs.take j).map ty.movedFrom ++ ((vs.drop j).map .live ++ st) else vs.map .live ++ st,
         List.replicate vs.length .raw ++ dt, .thrown⟩ := by
  rw [uninitCopyN_eq]
  exact C15_uninitCopyN_throw_at std it ty vs j hj st dt hty

theorem C15_gen_uninitCopy_nothrow (std : Std) (it : It) (ty : Ty) (k : Option Nat) (vs : List α) (st dt : List (Slot α))
    (hk : throwAt k vs.length = none) :
    Gen.MemAlgo.uninitCopy std it ty k vs.length (vs.map .live ++ st) (List.replicate vs.length .raw ++ dt)
      = Spec.uninitCopy it.rvalueRef ty k vs.length (vs.map .live ++ st) (List.replicate vs.length .raw ++ dt) := by
  rw [uninitCopy_eq]
  exact C15_uninitCopy_nothrow std it ty k vs st dt hk

theorem C15_gen_uninitMoveN_nothrow (std : Std) (it : It) (ty : Ty) (k : Option Nat) (vs : List α) (st dt : List (Slot α))
    (hk : throwAt k vs.length = none) :
    Gen.MemAlgo.uninitMoveN std it ty k vs.length (vs.map .live ++ st) (List.replicate vs.length .raw ++ dt)
      = Spec.uninitMoveN ty k vs.length (vs.map .live ++ st) (List.replicate vs.length .raw ++ dt) := by
  rw [uninitMoveN_eq]
  exact C15_uninitMoveN_nothrow std it ty k vs st dt hk

theorem C15_gen_uninitMoveN_throw_at (std : Std) (it : It) (ty : Ty) (vs : List α) (j : Nat) (hj : j < vs.length)
    (st dt : List (Slot α)) (hty : ty.trivCopy = false) :
    Gen.MemAlgo.uninitMoveN std it ty (some j) vs.length (vs.map .live ++ st) (List.replicate vs.length .raw ++ dt)
      = ⟨(vs.take j).map ty.movedFrom ++ ((vs.drop j).map .live ++ st), List.replicate vs.length .raw ++ dt, .thrown⟩ := by
  rw [uninitMoveN_eq]
  exact C15_uninitMoveN_throw_at std it ty vs j hj st dt hty

theorem C15_gen_uninitMove_nothrow (std : Std) (it : It) (ty : Ty) (k : Option Nat) (vs : List α) (st dt : List (Slot α))
    (hk : throwAt k vs.length = none) :
    Gen.MemAlgo.uninitMove std it ty k vs.length (vs.map .live ++ st) (List.replicate vs.length .raw ++ dt)
      = Spec.uninitMove ty k vs.length (vs.map .live ++ st) (List.replicate vs.length .raw ++ dt) := by
  rw [uninitMove_eq]
  exact C15_uninitMove_nothrow std it ty k vs st dt hk

/-- (a) the generated `amc::uninitialized_relocate_n` = move-construct every element, then destroy every source — for
    the generated `Default` composite (`amc::uninitialized_move_n`, itself dispatched per standard, then
    `amc::destroy_n`) and for both generated memmove arms -/
theorem C15_gen_uninitRelocN_nothrow (std : Std) (it : It) (ty : Ty) (k : Option Nat) (vs : List α) (st dt : List (Slot α))
    (hk : throwAt k vs.length = none) :
    Gen.MemAlgo.uninitRelocN std it ty k vs.length (vs.map .live ++ st) (List.replicate vs.length .raw ++ dt)
      = Spec.uninitRelocN ty k vs.length (vs.map .live ++ st) (List.replicate vs.length .raw ++ dt) := by
  rw [uninitRelocN_eq]
  exact C15_uninitRelocN_nothrow std it ty k vs st dt hk

/-- (b) a move constructor throws while relocating a type that is not trivially relocatable: nothing is left in the
    destination, no source has been destroyed -/
theorem C15_gen_uninitRelocN_throw_at (std : Std) (it : It) (ty : Ty) (vs : List α) (j : Nat) (hj : j < vs.length)
    (st dt : List (Slot α)) (hty : ty.trivCopy = false) (htr : ty.trivReloc = false) :
    Gen.MemAlgo.uninitRelocN std it ty (some j) vs.length (vs.map .live ++ st) (List.replicate vs.length .raw ++ dt)
      = ⟨(vs.take j).map ty.movedFrom ++ ((vs.drop j).map .live ++ st), List.replicate vs.length .raw ++ dt, .thrown⟩ := by
  rw [uninitRelocN_eq]
  exact C15_uninitRelocN_throw_at std it ty vs j hj st dt hty htr

theorem C15_gen_uninitReloc_nothrow (std : Std) (it : It) (ty : Ty) (k : Option Nat) (vs : List α) (st dt : List (Slot α))
    (hk : throwAt k vs.length = none) :
    Gen.MemAlgo.uninitReloc std it ty k vs.length (vs.map .live ++ st) (List.replicate vs.length .raw ++ dt)
      = Spec.uninitReloc ty k vs.length (vs.map .live ++ st) (List.replicate vs.length .raw ++ dt) := by
  rw [uninitReloc_eq]
  exact C15_uninitReloc_nothrow std it ty k vs st dt hk

theorem C15_gen_relocateAt_nothrow (std : Std) (ty : Ty) (k : Option Nat) (v : α) (st dt : List (Slot α)) (hk : throwAt k 1 = none) :
    Gen.MemAlgo.relocateAt std ty k (.live v :: st) (.raw :: dt) = ⟨.raw :: st, .live v :: dt, .done 0 0⟩ := by
  rw [relocateAt_eq, (C15_relocateAt_nothrow std ty k v st dt hk).1]
  exact (C15_relocateAt_nothrow std ty k v st dt hk).2

theorem C15_gen_relocateAt_throw (std : Std) (ty : Ty) (v : α) (st dt : List (Slot α))
    (hty : ty.trivCopy = false) (htr : ty.trivReloc = false) :
    Gen.MemAlgo.relocateAt std ty (some 0) (.live v :: st) (.raw :: dt) = ⟨.live v :: st, .raw :: dt, .thrown⟩ := by
  rw [relocateAt_eq]
  exact C15_relocateAt_throw std ty v st dt hty htr

theorem C15_gen_destroyN (std : Std) (l rest : List (Slot α)) (h : ∀ s ∈ l, s ≠ Slot.raw) :
    Gen.MemAlgo.destroyN std l.length (l ++ rest) = ⟨List.replicate l.length .raw ++ rest, .done 0 l.length⟩ := by
  rw [destroyN_eq, (C15_destroyN std l rest h).1]
  exact (C15_destroyN std l rest h).2

theorem C15_gen_constructAtMove_nothrow (std : Std) (ty : Ty) (k : Option Nat) (v : α) (st dt : List (Slot α))
    (hk : throwAt k 1 = none) :
    Gen.MemAlgo.constructAtMove std ty k (.live v :: st) (.raw :: dt) = ⟨ty.movedFrom v :: st, .live v :: dt, .done 0 0⟩ := by
  rw [constructAtMove_eq, (C15_constructAtMove_nothrow std ty k v st dt hk).1]
  exact (C15_constructAtMove_nothrow std ty k v st dt hk).2

theorem C15_gen_uninitDefaultN_nothrow (std : Std) (ty : Ty) (dflt indet : α) (k : Option Nat) (n : Nat) (rest : List (Slot α))
    (hk : throwAt k n = none) :
    Gen.MemAlgo.uninitDefaultN std ty dflt indet k n (List.replicate n .raw ++ rest)
      = ⟨List.replicate n (.live (ty.defaultVal dflt indet)) ++ rest, .done 0 n⟩ := by
  rw [uninitDefaultN_eq, (C15_uninitDefaultN_nothrow std ty dflt indet k n rest hk).1]
  exact (C15_uninitDefaultN_nothrow std ty dflt indet k n rest hk).2

theorem C15_gen_uninitValueN_nothrow (std : Std) (ty : Ty) (zero : α) (k : Option Nat) (n : Nat) (rest : List (Slot α))
    (hk : throwAt k n = none) :
    Gen.MemAlgo.uninitValueN std ty zero k n (List.replicate n .raw ++ rest) = ⟨List.replicate n (.live zero) ++ rest, .done 0 n⟩ := by
  rw [uninitValueN_eq, (C15_uninitValueN_nothrow std ty zero k n rest hk).1]
  exact (C15_uninitValueN_nothrow std ty zero k n rest hk).2

/-- C16 for the generated dispatch: the result of `amc::uninitialized_copy_n` / `_relocate_n` does not depend on the
    language standard the header is compiled under -/
theorem C15_gen_std_independent (s1 s2 : Std) (it : It) (ty : Ty) (k : Option Nat) (vs : List α) (st dt : List (Slot α))
    (hk : throwAt k vs.length = none) :
    Gen.MemAlgo.uninitCopyN s1 it ty k vs.length (vs.map .live ++ st) (List.replicate vs.length .raw ++ dt)
      = Gen.MemAlgo.uninitCopyN s2 it ty k vs.length (vs.map .live ++ st) (List.replicate vs.length .raw ++ dt)
    ∧ Gen.MemAlgo.uninitRelocN s1 it ty k vs.length (vs.map .live ++ st) (List.replicate vs.length .raw ++ dt)
      = Gen.MemAlgo.uninitRelocN s2 it ty k vs.length (vs.map .live ++ st) (List.replicate vs.length .raw ++ dt) := by
  rw [C15_gen_uninitCopyN_nothrow s1 it ty k vs st dt hk, C15_gen_uninitCopyN_nothrow s2 it ty k vs st dt hk,
    C15_gen_uninitRelocN_nothrow s1 it ty k vs st dt hk, C15_gen_uninitRelocN_nothrow s2 it ty k vs st dt hk]
  exact ⟨rfl, rfl⟩

example : Gen.MemAlgo.uninitCopyN .cxx11 ⟨true, true, true, false⟩ ⟨true, true, true⟩ none 2 [.live 1, .live 2, .live 3] [.raw, .raw, .raw]
    = ⟨[.live 1, .live 2, .live 3], [.live 1, .live 2, .raw], .done 0 2⟩ := by decide
example : Gen.MemAlgo.uninitRelocN .cxx17 ⟨false, false, true, false⟩ ⟨false, false, false⟩ (some 1) 2 [.live 1, .live 2] [.raw, .raw]
    = ⟨[.hollow, .live 2], [.raw, .raw], .thrown⟩ := by decide

end AmcVerif.Props.C15
