import AmcVerif.Props.Common
import AmcVerif.Lemmas.Growth2
/-! C18 (second half) — amortised cost of growth: appending n elements one by one costs O(n) element relocations
in total (growth is geometric, factor 1.5: each growth of a full vector of capacity c relocates c elements and
reaches ≥ ⌈1.5·c⌉, so the relocated totals form a geometric series); a run that stays within the capacity relocates
nothing; `reserve` followed by pushes up to the reserved size relocates nothing after the reserve. Proved over the
*generated* `SafeNextCapacity` / `grow` through the word laws (`relocatedCount` sums the element counts carried by the
`Eff.relocN` / `Eff.realloc` effects the generated `grow` emits). -/
namespace AmcVerif.Props.C18
open AmcVerif AmcVerif.Props
variable {ops : BaseOps} {N : Nat}

/-- pushing `n` elements one by one onto any well-formed vector relocates at most `3·(size + n)` elements in total
    (`size + n` is the final size): linear, with constant 3 and no additive term -/
def PushesRelocStmt (ops : BaseOps) (N : Nat) : Prop :=
  ∀ (n : Nat) (t : VB) (fresh : Nat), SRep N ops.kMax t →
    ∀ t' effs, wRun ops N t fresh (List.replicate n WOp.push) = some (t', effs) →
      relocatedCount effs ≤ 3 * (ops.size t + n)

theorem C18_pushes_relocated (L : SmallLaws ops N) (hk : ops.kMax < 2 ^ 62) : PushesRelocStmt ops N :=
  fun n t fresh h t' effs hr => pushes_relocated L hk n t fresh h t' effs hr

/-- the sharp form: either nothing is relocated at all, or
    `relocated ≤ 3·(final size) − 2·(initial capacity) − 3`; the final size is `size + n` -/
def PushesRelocSharpStmt (ops : BaseOps) (N : Nat) : Prop :=
  ∀ (n : Nat) (t : VB) (fresh : Nat), SRep N ops.kMax t →
    ∀ t' effs, wRun ops N t fresh (List.replicate n WOp.push) = some (t', effs) →
      ops.size t' = ops.size t + n
      ∧ (relocatedCount effs = 0 ∨ relocatedCount effs + 2 * ops.capacity t + 3 ≤ 3 * (ops.size t + n))

theorem C18_pushes_relocated_sharp (L : SmallLaws ops N) (hk : ops.kMax < 2 ^ 62) : PushesRelocSharpStmt ops N :=
  fun n t fresh h t' effs hr =>
    ⟨(pushes_size L hk n t fresh h t' effs hr).2.1, pushes_relocated_sharp L hk n t fresh h t' effs hr⟩

/-- starting from a freshly constructed (empty, inline capacity `N`) vector: `n` pushes relocate at most `3·n`
    elements, more precisely nothing or at most `3·n − 2·N − 3` -/
def FreshPushesStmt (ops : BaseOps) (N : Nat) : Prop :=
  ∀ (n : Nat) (fresh : Nat) t' effs,
    wRun ops N (ops.ctor N) fresh (List.replicate n WOp.push) = some (t', effs) →
      ops.size t' = n ∧ relocatedCount effs ≤ 3 * n
      ∧ (relocatedCount effs = 0 ∨ relocatedCount effs + 2 * N + 3 ≤ 3 * n)

theorem C18_fresh_pushes_relocated (L : SmallLaws ops N) (hk : ops.kMax < 2 ^ 62) : FreshPushesStmt ops N := by
  intro n fresh t' effs hr
  obtain ⟨hrep, hsz, hcap, _⟩ := L.ctor
  have h1 := pushes_relocated_sharp L hk n _ fresh hrep t' effs hr
  have h2 := (pushes_size L hk n _ fresh hrep t' effs hr).2.1
  rw [hsz, hcap] at h1
  rw [hsz] at h2
  refine ⟨by omega, by omega, by omega⟩

/-- a run of pushes that never exceeds the capacity succeeds and emits no effect at all: nothing is relocated, no
    allocator request is made, capacity and buffer stay the same -/
def WithinStmt (ops : BaseOps) (N : Nat) : Prop :=
  ∀ (n : Nat) (t : VB) (fresh : Nat), SRep N ops.kMax t → ops.size t + n ≤ ops.capacity t →
    (∃ t', wRun ops N t fresh (List.replicate n WOp.push) = some (t', []))
    ∧ ∀ t' effs, wRun ops N t fresh (List.replicate n WOp.push) = some (t', effs) →
        effs = [] ∧ relocatedCount effs = 0 ∧ reallocCount effs = 0
        ∧ ops.capacity t' = ops.capacity t ∧ t'.dyn = t.dyn

theorem C18_within_capacity (L : SmallLaws ops N) (hk : ops.kMax < 2 ^ 62) : WithinStmt ops N := by
  intro n t fresh h hfit
  refine ⟨?_, ?_⟩
  · obtain ⟨t', hr, _⟩ := pushes_within L hk n t fresh h hfit
    exact ⟨t', hr⟩
  · intro t' effs hr
    obtain ⟨he, hcap, hdyn⟩ := pushes_within_effs L hk n t fresh h hfit t' effs hr
    subst he
    exact ⟨rfl, rfl, rfl, hcap, hdyn⟩

/-- `reserve(m)` followed by `n` pushes with `size + n ≤ m`: the run succeeds; all its effects are those of the
    reserve step (`effs = e1`): at most one allocator request, which relocates the `size` live elements exactly when
    the capacity was insufficient; the pushes after the reserve (run separately from the reserved state `t1`)
    emit nothing, so they relocate nothing and keep the reserved buffer and capacity -/
def ReservePushesStmt (ops : BaseOps) (N : Nat) : Prop :=
  ∀ (t : VB), SRep N ops.kMax t → ∀ (m n : Nat), m ≤ ops.kMax → ops.size t + n ≤ m → ∀ fresh,
    ∃ t1 e1 t', wStep ops N t fresh (.reserve m) = .ok (t1, e1)
      ∧ wRun ops N t1 (fresh + 1) (List.replicate n WOp.push) = some (t', [])
      ∧ wRun ops N t fresh (WOp.reserve m :: List.replicate n WOp.push) = some (t', e1)
      ∧ reallocCount e1 ≤ 1
      ∧ relocatedCount e1 = (if ops.capacity t < m then ops.size t else 0)
      ∧ ops.size t' = ops.size t + n ∧ m ≤ ops.capacity t' ∧ ops.capacity t' = ops.capacity t1
      ∧ t'.dyn = t1.dyn

theorem C18_reserve_pushes (L : SmallLaws ops N) (hk : ops.kMax < 2 ^ 62) : ReservePushesStmt ops N :=
  fun t h m n hm hn fresh => reserve_pushes L hk t h m n hm hn fresh

/-- consequence in the shape of the other statements: any successful run of `reserve(m)` then `n ≤ m − size` pushes
    relocates at most `size` elements (those moved by the reserve itself) with at most one allocator request -/
def ReservePushesTotalStmt (ops : BaseOps) (N : Nat) : Prop :=
  ∀ (t : VB), SRep N ops.kMax t → ∀ (m n : Nat), m ≤ ops.kMax → ops.size t + n ≤ m → ∀ fresh t' effs,
    wRun ops N t fresh (WOp.reserve m :: List.replicate n WOp.push) = some (t', effs) →
      relocatedCount effs ≤ ops.size t ∧ reallocCount effs ≤ 1
      ∧ (m ≤ ops.capacity t → effs = [])

theorem C18_reserve_pushes_total (L : SmallLaws ops N) (hk : ops.kMax < 2 ^ 62) : ReservePushesTotalStmt ops N := by
  intro t h m n hm hn fresh t' effs hr
  obtain ⟨t1, e1, t2, hs, _, hr', hal, hrel, _⟩ := reserve_pushes L hk t h m n hm hn fresh
  rw [hr'] at hr
  simp only [Option.some.injEq, Prod.mk.injEq] at hr
  obtain ⟨_, rfl⟩ := hr
  refine ⟨?_, hal, ?_⟩
  · rw [hrel]; split <;> omega
  · intro hfit
    rcases wStep_reserve_cases L t h m hm fresh with ⟨_, hs'⟩ | ⟨hlt, _⟩
    · rw [hs'] at hs
      simp only [Except.ok.injEq, Prod.mk.injEq] at hs
      exact hs.2.symm
    · omega

/-- what one growth costs: a push onto a full vector relocates exactly `size = capacity` elements and reaches
    `nextFull` (≥ ⌈1.5·capacity⌉ unless clamped, `C18_factor`); a push onto a non-full vector emits nothing -/
def PushStepStmt (ops : BaseOps) (N : Nat) : Prop :=
  ∀ (t : VB), SRep N ops.kMax t → ∀ fresh t1 e1, wStep ops N t fresh WOp.push = .ok (t1, e1) →
    (ops.size t < ops.capacity t ∧ e1 = [] ∧ ops.capacity t1 = ops.capacity t)
    ∨ (ops.size t = ops.capacity t ∧ relocatedCount e1 = ops.capacity t ∧ reallocCount e1 = 1
        ∧ ops.capacity t1 = nextFull ops.kMax (ops.capacity t))

theorem C18_push_step (L : SmallLaws ops N) (hk : ops.kMax < 2 ^ 62) : PushStepStmt ops N := by
  intro t h fresh t1 e1 hs
  obtain ⟨_, _, hc⟩ := wStep_push_cases L hk t h fresh t1 e1 hs
  rcases hc with ⟨hlt, he, hcap, _⟩ | ⟨hfull, _, hcap, he, _⟩
  · exact Or.inl ⟨hlt, he, hcap⟩
  · refine Or.inr ⟨hfull, ?_, ?_, hcap⟩
    · rw [he, relocatedCount_growEffs, hfull]
    · rw [he, reallocCount_growEffs]

/- instantiations for the generated members -/

theorem C18_pushes_relocated_U8 (N : Nat) (h : N < 255) (h0 : 0 < N) : PushesRelocStmt Gen.U8.svbOps N := C18_pushes_relocated (lawsU8 N h h0) kU8
theorem C18_pushes_relocated_U16 (N : Nat) (h : N < 65535) (h0 : 0 < N) : PushesRelocStmt Gen.U16.svbOps N := C18_pushes_relocated (lawsU16 N h h0) kU16
theorem C18_pushes_relocated_U32 (N : Nat) (h : N < 4294967295) (h0 : 0 < N) : PushesRelocStmt Gen.U32.svbOps N := C18_pushes_relocated (lawsU32 N h h0) kU32

theorem C18_pushes_relocated_sharp_U8 (N : Nat) (h : N < 255) (h0 : 0 < N) : PushesRelocSharpStmt Gen.U8.svbOps N := C18_pushes_relocated_sharp (lawsU8 N h h0) kU8
theorem C18_pushes_relocated_sharp_U16 (N : Nat) (h : N < 65535) (h0 : 0 < N) : PushesRelocSharpStmt Gen.U16.svbOps N := C18_pushes_relocated_sharp (lawsU16 N h h0) kU16
theorem C18_pushes_relocated_sharp_U32 (N : Nat) (h : N < 4294967295) (h0 : 0 < N) : PushesRelocSharpStmt Gen.U32.svbOps N := C18_pushes_relocated_sharp (lawsU32 N h h0) kU32

theorem C18_fresh_pushes_relocated_U8 (N : Nat) (h : N < 255) (h0 : 0 < N) : FreshPushesStmt Gen.U8.svbOps N := C18_fresh_pushes_relocated (lawsU8 N h h0) kU8
theorem C18_fresh_pushes_relocated_U16 (N : Nat) (h : N < 65535) (h0 : 0 < N) : FreshPushesStmt Gen.U16.svbOps N := C18_fresh_pushes_relocated (lawsU16 N h h0) kU16
theorem C18_fresh_pushes_relocated_U32 (N : Nat) (h : N < 4294967295) (h0 : 0 < N) : FreshPushesStmt Gen.U32.svbOps N := C18_fresh_pushes_relocated (lawsU32 N h h0) kU32

theorem C18_within_capacity_U8 (N : Nat) (h : N < 255) (h0 : 0 < N) : WithinStmt Gen.U8.svbOps N := C18_within_capacity (lawsU8 N h h0) kU8
theorem C18_within_capacity_U16 (N : Nat) (h : N < 65535) (h0 : 0 < N) : WithinStmt Gen.U16.svbOps N := C18_within_capacity (lawsU16 N h h0) kU16
theorem C18_within_capacity_U32 (N : Nat) (h : N < 4294967295) (h0 : 0 < N) : WithinStmt Gen.U32.svbOps N := C18_within_capacity (lawsU32 N h h0) kU32

theorem C18_reserve_pushes_U8 (N : Nat) (h : N < 255) (h0 : 0 < N) : ReservePushesStmt Gen.U8.svbOps N := C18_reserve_pushes (lawsU8 N h h0) kU8
theorem C18_reserve_pushes_U16 (N : Nat) (h : N < 65535) (h0 : 0 < N) : ReservePushesStmt Gen.U16.svbOps N := C18_reserve_pushes (lawsU16 N h h0) kU16
theorem C18_reserve_pushes_U32 (N : Nat) (h : N < 4294967295) (h0 : 0 < N) : ReservePushesStmt Gen.U32.svbOps N := C18_reserve_pushes (lawsU32 N h h0) kU32

theorem C18_reserve_pushes_total_U8 (N : Nat) (h : N < 255) (h0 : 0 < N) : ReservePushesTotalStmt Gen.U8.svbOps N := C18_reserve_pushes_total (lawsU8 N h h0) kU8
theorem C18_reserve_pushes_total_U16 (N : Nat) (h : N < 65535) (h0 : 0 < N) : ReservePushesTotalStmt Gen.U16.svbOps N := C18_reserve_pushes_total (lawsU16 N h h0) kU16
theorem C18_reserve_pushes_total_U32 (N : Nat) (h : N < 4294967295) (h0 : 0 < N) : ReservePushesTotalStmt Gen.U32.svbOps N := C18_reserve_pushes_total (lawsU32 N h h0) kU32

theorem C18_push_step_U8 (N : Nat) (h : N < 255) (h0 : 0 < N) : PushStepStmt Gen.U8.svbOps N := C18_push_step (lawsU8 N h h0) kU8
theorem C18_push_step_U16 (N : Nat) (h : N < 65535) (h0 : 0 < N) : PushStepStmt Gen.U16.svbOps N := C18_push_step (lawsU16 N h h0) kU16
theorem C18_push_step_U32 (N : Nat) (h : N < 4294967295) (h0 : 0 < N) : PushStepStmt Gen.U32.svbOps N := C18_push_step (lawsU32 N h h0) kU32

/-- non-vacuity: 100 pushes onto a fresh SmallVector<_,3,_,uint32_t> run and relocate
    3+5+8+12+18+27+41+62+93 = 269 ≤ 3·100 − 2·3 − 3 = 291 elements -/
example : ((wRun Gen.U32.svbOps 3 (Gen.U32.svbOps.ctor 3) 1 (List.replicate 100 WOp.push)).map
    fun r => relocatedCount r.2) = some 269 := by
  decide

/-- non-vacuity of the clamped case: a full uint8_t vector of 200 elements grows to the maximum 255 (< 300),
    relocating 200 elements for one push (so a bound of the form `c·n` cannot hold; `3·(size + n)` does) -/
example : ((wRun Gen.U8.svbOps 3 ⟨200, 200, PtrV.blk 0⟩ 1 [WOp.push]).map
    fun r => (relocatedCount r.2, Gen.U8.svbOps.capacity r.1, Gen.U8.svbOps.size r.1)) = some (200, 255, 201) := by
  decide

/-- the sharp bound is attained: one push onto a full heap vector of 5 elements relocates 5 = 3·6 − 2·5 − 3 -/
example : ((wRun Gen.U32.svbOps 3 ⟨5, 5, PtrV.blk 0⟩ 1 [WOp.push]).map
    fun r => (relocatedCount r.2, Gen.U32.svbOps.capacity r.1, Gen.U32.svbOps.size r.1)) = some (5, 8, 6) := by
  decide

/-- non-vacuity: reserve(50) then 50 pushes onto a fresh vector: one allocation, nothing relocated (size was 0) -/
example : ((wRun Gen.U32.svbOps 3 (Gen.U32.svbOps.ctor 3) 1 (WOp.reserve 50 :: List.replicate 50 WOp.push)).map
    fun r => (relocatedCount r.2, reallocCount r.2, Gen.U32.svbOps.capacity r.1)) = some (0, 1, 50) := by
  decide

end AmcVerif.Props.C18
