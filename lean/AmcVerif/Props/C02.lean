import AmcVerif.Lemmas.MonadNorm
/-! C02 — elements are destroyed exactly once and relocated only as their type allows (what is proved so far about the
slot-level model that is run against the real containers: the lifetime discipline of the element primitives and the
soundness of the relocation dispatch; the per-operation "no fault, no visible moved-from element, nothing alive at
drain" statements are checked on the executable model and the real containers by the correspondence runs with
identity-tracking elements, and are being proved helper by helper — see DESIGN.md §6 C02). -/
namespace AmcVerif.Props.C02
open AmcVerif

/-- a byte-wise move of at least one element of a type that is neither trivially copyable nor declared trivially
    relocatable is a fault of the model, whatever the memory -/
theorem C02_bitwise_only_if_allowed (m : Mem Nat) (h : m.cat = .ntr) (src dst : Addr) (n : Nat) (hn : n ≠ 0) :
    runM (relocBitwise src n dst) m = (.error (.fault .bitwiseNTR), m) := by
  unfold relocBitwise
  simp [runM, hn, h, fault, ExceptT.run, StateT.run, bind, ExceptT.bind, ExceptT.mk, ExceptT.bindCont, StateT.bind, get, getThe,
    MonadStateOf.get, StateT.get, liftM, monadLift, MonadLift.monadLift, ExceptT.lift, pure, StateT.pure, throw, throwThe,
    MonadExceptOf.throw, Functor.map, StateT.map]

/-- `amc::uninitialized_relocate_n` dispatches on the category: for a non relocatable type it is move construction of
    every element followed by destruction of the sources, and never a byte-wise move -/
theorem C02_dispatch_ntr (m : Mem Nat) (h : m.cat = .ntr) (src dst : Addr) (n : Nat) :
    runM (uninitRelocN src n dst) m = runM (do uninitMoveN src n dst; destroyN src n) m := by
  unfold uninitRelocN
  simp [runM, h, ExceptT.run, StateT.run, bind, ExceptT.bind, ExceptT.mk, ExceptT.bindCont, StateT.bind, get, getThe,
    MonadStateOf.get, StateT.get, liftM, monadLift, MonadLift.monadLift, ExceptT.lift, pure, StateT.pure, Functor.map, StateT.map]

/-- and for a relocatable category it is the byte-wise move -/
theorem C02_dispatch_tr (m : Mem Nat) (h : m.cat ≠ .ntr) (src dst : Addr) (n : Nat) :
    runM (uninitRelocN src n dst) m = runM (relocBitwise src n dst) m := by
  unfold uninitRelocN
  have : (m.cat == Cat.ntr) = false := by cases hc : m.cat <;> simp_all
  simp [runM, this, ExceptT.run, StateT.run, bind, ExceptT.bind, ExceptT.mk, ExceptT.bindCont, StateT.bind, get, getThe,
    MonadStateOf.get, StateT.get, liftM, monadLift, MonadLift.monadLift, ExceptT.lift, pure, StateT.pure, Functor.map, StateT.map]

example : ({ inls := [[Slot.live 1, Slot.raw]], blocks := [], cat := .ntr } : Mem Nat).cat = .ntr := rfl

end AmcVerif.Props.C02
