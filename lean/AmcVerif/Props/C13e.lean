import AmcVerif.Props.C01d
/-! C13 (heterogeneous pool level) — `swap2` between ANY two containers of a pool of vectors of mixed type.

"swap2 exchanges the contents of any two vectors of the library (FixedCapacityVector, SmallVector, amc::vector; any N, any size_type,
same element type), or fails cleanly": inside a pool `HPoolRep cfgs Oks P n0 m xss` (Lemmas/VecHPool.lean; slot `i` has its own
configuration `cfgs i`), for any two different slots `i`, `j`

* `C13_pool_swap2`: `v_i.swap2(v_j)` never faults; either it succeeds and the pool holds `xss` with the lists of `i` and `j` exchanged,
  or it throws a C++ exception and the pool holds `xss` unchanged; in both cases the pool is VALID again: every other container —
  of whatever type — is exactly as before, no heap block is shared, no heap block is leaked;
* `C13_pool_swap2_spec`: the abstract effect slot by slot;
* `C13_pool_swap2_room`: when each side has room for the other's size the call succeeds;
* `C13_pool_swap2_throws`: when one side cannot hold the other's size (size type maximum, or fixed capacity) the call throws and the
  pool is unchanged;
* instances for the concrete pool `[SmallVector<T,4,uint8_t>, amc::vector<T,uint32_t>, FixedCapacityVector<T,6,uint8_t>]` of
  Props/C01d.lean over the generated members, with a closed example.
The pair-level statements are in Props/C13c.lean, same-type swap in Props/C13b.lean / C13d.lean. -/
namespace AmcVerif.Props.C13
open AmcVerif
variable {α : Type}

section generic
variable {cfgs : Nat → Cfg} {Oks : Nat → VB → Prop} {P n0 : Nat} {m : Mem α} {xss : List (List α)}

/-- **C13 in a pool of mixed vectors**: `swap2` between any two different slots exchanges their lists or throws and changes
    nothing; the pool is valid afterwards (nobody else disturbed, nothing shared, nothing leaked) -/
theorem C13_pool_swap2 (PL : HPoolLaws α cfgs Oks P) (h : HPoolRep cfgs Oks P n0 m xss) (i j : Nat)
    (hi : i < xss.length) (hj : j < xss.length) (hij : i ≠ j) :
    Post (swap2 (cfgs i) (cfgs j) i j) m (fun res m' =>
      ((res = .ok () ∧ HPoolRep cfgs Oks P n0 m' ((xss.set i (sel xss j)).set j (sel xss i)))
        ∨ (∃ e, res = .error (.exc e) ∧ HPoolRep cfgs Oks P n0 m' xss)) ∧ m'.cat = m.cat) := by
  refine Post.mono (hpool_swap2 PL h i j ⟨hi, hj, hij⟩) ?_
  rintro res m' ⟨hq, hc⟩
  refine ⟨?_, hc⟩
  rcases hq with ⟨hr, hp⟩ | ⟨e, yss, he, hex, hp⟩
  · exact Or.inl ⟨hr, by simpa [HPoolOp.spec, hij] using hp⟩
  · have : yss = xss := hex
    subst this
    exact Or.inr ⟨e, he, hp⟩

/-- the abstract effect of `swap2 i j` (`i ≠ j`, both in the pool): slot `i` gets the list of `j`, slot `j` the list of `i`, every
    other slot keeps its list — and a throw changes nothing at all -/
theorem C13_pool_swap2_spec (xss : List (List α)) (i j : Nat) (hij : i ≠ j) (hi : i < xss.length) (hj : j < xss.length) :
    sel ((HPoolOp.swap2 i j : HPoolOp α).spec xss) i = sel xss j
    ∧ sel ((HPoolOp.swap2 i j : HPoolOp α).spec xss) j = sel xss i
    ∧ (∀ k, k ≠ i → k ≠ j → sel ((HPoolOp.swap2 i j : HPoolOp α).spec xss) k = sel xss k)
    ∧ (∀ yss, (HPoolOp.swap2 i j : HPoolOp α).exc xss yss → yss = xss) := by
  have hji : j ≠ i := Ne.symm hij
  refine ⟨?_, ?_, ?_, fun _ h => h⟩
  · simp only [HPoolOp.spec, if_neg hij]
    conv => lhs; unfold sel
    rw [List.getElem?_set_ne hji, List.getElem?_set_self hi]; rfl
  · simp only [HPoolOp.spec, if_neg hij]
    conv => lhs; unfold sel
    rw [List.getElem?_set_self (by rw [List.length_set]; exact hj)]; rfl
  · intro k hki hkj
    exact HPoolOp.spec_other (HPoolOp.swap2 i j) xss k (by simp [HPoolOp.touches, hki, hkj])

/-- with room on both sides `swap2` does not throw: the lists are exchanged -/
theorem C13_pool_swap2_room (PL : HPoolLaws α cfgs Oks P) (h : HPoolRep cfgs Oks P n0 m xss) (i j : Nat)
    (hi : i < xss.length) (hj : j < xss.length) (hij : i ≠ j) {wi wj : VB}
    (hwi : VRepW (cfgs i) (Oks i) i m (sel xss i) wi) (hwj : VRepW (cfgs j) (Oks j) j m (sel xss j) wj)
    (hra : (sel xss j).length ≤ (cfgs i).ops.capacity wi) (hrb : (sel xss i).length ≤ (cfgs j).ops.capacity wj) :
    Post (swap2 (cfgs i) (cfgs j) i j) m (fun res m' =>
      res = .ok () ∧ HPoolRep cfgs Oks P n0 m' ((xss.set i (sel xss j)).set j (sel xss i))) := by
  have hiP : i < P := by rw [← h.len]; exact hi
  have hjP : j < P := by rw [← h.len]; exact hj
  refine Post.mono (Post.and (C13_pool_swap2 PL h i j hi hj hij)
    (swap2_room_post (PL.slot i hiP).vec (PL.slot j hjP).vec (PL.exch i j hiP hjP hij) ⟨hwi, hwj, h.sep2 hij hiP hjP⟩ hra hrb)) ?_
  rintro res m' ⟨⟨hq, _⟩, hr, _⟩
  rcases hq with ⟨_, hp⟩ | ⟨e, he, _⟩
  · exact ⟨hr, hp⟩
  · rw [hr] at he; cases he

/-- when the other's size exceeds a side's size type maximum or fixed capacity, `swap2` throws and the pool is unchanged -/
theorem C13_pool_swap2_throws (PL : HPoolLaws α cfgs Oks P) (h : HPoolRep cfgs Oks P n0 m xss) (i j : Nat)
    (hi : i < xss.length) (hj : j < xss.length) (hij : i ≠ j) {wi wj : VB}
    (hwi : VRepW (cfgs i) (Oks i) i m (sel xss i) wi) (hwj : VRepW (cfgs j) (Oks j) j m (sel xss j) wj)
    (hno : ((cfgs i).ops.kMax < (sel xss j).length ∨ ((cfgs i).dynamic = false ∧ (cfgs i).ops.capacity wi < (sel xss j).length))
         ∨ ((cfgs j).ops.kMax < (sel xss i).length ∨ ((cfgs j).dynamic = false ∧ (cfgs j).ops.capacity wj < (sel xss i).length))) :
    Post (swap2 (cfgs i) (cfgs j) i j) m (fun res m' => (∃ e, res = .error (.exc e)) ∧ HPoolRep cfgs Oks P n0 m' xss) := by
  have hiP : i < P := by rw [← h.len]; exact hi
  have hjP : j < P := by rw [← h.len]; exact hj
  refine Post.mono (Post.and (C13_pool_swap2 PL h i j hi hj hij)
    (swap2_nofit_throws (PL.slot i hiP).vec (PL.slot j hjP).vec (PL.slot i hiP).null ⟨hwi, hwj, h.sep2 hij hiP hjP⟩ hno)) ?_
  rintro res m' ⟨⟨hq, _⟩, e, he⟩
  rcases hq with ⟨hr, _⟩ | ⟨e', _, hp⟩
  · rw [hr] at he; cases he
  · exact ⟨⟨e, he⟩, hp⟩

end generic

/-! ### the concrete mixed pool `[SmallVector<T,4,uint8_t>, amc::vector<T,uint32_t>, FixedCapacityVector<T,6,uint8_t>]` -/
open AmcVerif.Props.C01.MixedPool

/-- `swap2` between any two of the three containers of the mixed pool, over the generated members -/
theorem C13_pool_swap2_mixed {n0 : Nat} {m : Mem α} {xss : List (List α)} (h : HPoolRep cfgs Oks 3 n0 m xss) (i j : Nat)
    (hi : i < 3) (hj : j < 3) (hij : i ≠ j) :
    Post (swap2 (cfgs i) (cfgs j) i j) m (fun res m' =>
      ((res = .ok () ∧ HPoolRep cfgs Oks 3 n0 m' ((xss.set i (sel xss j)).set j (sel xss i)))
        ∨ (∃ e, res = .error (.exc e) ∧ HPoolRep cfgs Oks 3 n0 m' xss)) ∧ m'.cat = m.cat) :=
  C13_pool_swap2 (laws α) h i j (by rw [h.len]; exact hi) (by rw [h.len]; exact hj) hij

/-- more than 6 elements do not fit the `FixedCapacityVector<T,6,uint8_t>` in slot 2: `swap2` with it throws, and the whole pool
    (all three containers) holds what it held -/
theorem C13_pool_swap2_mixed_overflow {n0 : Nat} {m : Mem α} {xss : List (List α)} (h : HPoolRep cfgs Oks 3 n0 m xss) (i : Nat)
    (hi : i < 2) (hlen : 6 < (sel xss i).length) :
    Post (swap2 (cfgs i) (cfgs 2) i 2) m (fun res m' => (∃ e, res = .error (.exc e)) ∧ HPoolRep cfgs Oks 3 n0 m' xss) := by
  have hil : i < xss.length := by rw [h.len]; omega
  have h2l : 2 < xss.length := by rw [h.len]; omega
  obtain ⟨wi, hwi⟩ := h.rep i _ (sel_get hil)
  obtain ⟨w2, hw2⟩ := h.rep 2 _ (sel_get h2l)
  have hcap : (cfgs 2).ops.capacity w2 = 6 := hw2.ok.2.1
  refine C13_pool_swap2_throws (laws α) h i 2 hil h2l (by omega) hwi hw2 (Or.inr (Or.inr ⟨rfl, ?_⟩))
  rw [hcap]; exact hlen

/-! #### closed example (the pool `mem` of Props/C01d.lean: three freshly constructed containers) -/

/-- `v0.push_back(7); v0.swap2(v1); v1.shrink_to_fit(); v2.push_back(9)` on the SmallVector, the `amc::vector` and the
    FixedCapacityVector: no lifetime fault (whether or not an operation throws); the pool ends valid in a state the trace allows -/
example : Post (runHPool cfgs [.one 0 (opPushBack 7), .swap2 0 1, .shrink 1, .one 2 (opPushBack 9)]) mem
    (fun res m' => res = .ok () ∧
      ∃ yss, HPTrace [.one 0 (opPushBack 7), .swap2 0 1, .shrink 1, .one 2 (opPushBack 9)] [[], [], []] yss
        ∧ HPoolRep cfgs Oks 3 mem.nextId m' yss ∧ m'.cat = mem.cat) := by
  refine hpool_history (laws Nat) _ _ mem [[], [], []] mem_pool ?_ ?_
  · refine HPSafe.ofLength cfgs 3 _ ?_ _ rfl
    intro op hop xss hl
    simp only [List.mem_cons, List.not_mem_nil, or_false] at hop
    rcases hop with rfl | rfl | rfl | rfl
    · exact ⟨by omega, IsVecOp.pushBack 7, trivial⟩
    · exact ⟨by omega, by omega, by decide⟩
    · show 1 < xss.length; omega
    · exact ⟨by omega, IsVecOp.pushBack 9, trivial⟩
  · intro op hop hn
    simp only [List.mem_cons, List.not_mem_nil, or_false] at hop
    rcases hop with rfl | rfl | rfl | rfl <;> cases hn

/-- without a throw it ends in `[[], [7], [9]]`: the 7 pushed into the SmallVector is in the `amc::vector` after `swap2` -/
example : HPTrace [.one 0 (opPushBack 7), .swap2 0 1, .shrink 1, .one 2 (opPushBack 9)] [[], [], []]
    [([] : List Nat), [7], [9]] := HPTrace.no_throw _ _

/-- a single `swap2` on the fresh pool: both containers are empty, there is room on both sides, the call succeeds -/
example : Post (swap2 (cfgs 0) (cfgs 2) 0 2) mem (fun res m' => res = .ok () ∧ HPoolRep cfgs Oks 3 mem.nextId m' [[], [], []]) :=
  C13_pool_swap2_room (laws Nat) mem_pool 0 2 (by decide) (by decide) (by decide) (mem_slot 0 (by decide)) (mem_slot 2 (by decide))
    (Nat.zero_le _) (Nat.zero_le _)

end AmcVerif.Props.C13
