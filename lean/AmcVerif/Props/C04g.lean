import AmcVerif.Props.C04e
/-! C04 (a pool of two sets) — histories that interleave operations on TWO SmallSets (same N and comparator), `swap` between them
and `operator==` / `operator<` observed at any point refine the same history on two `std::set`s: every answer (insertion booleans, erase counts,
the results of `==` and `<`) is the `std::set`s', after every prefix, whatever states (inline / large / drained) the two sets are in and
however often they were exchanged.  Generated members throughout (`stepG`, `Gen.SmallSet.swap`, `Gen.SmallSet.op_eq`). -/
namespace AmcVerif.Props.C04
open AmcVerif AmcVerif.FS AmcVerif.Sets AmcVerif.Bridge.SmallSet
variable {α : Type} {lt : α → α → Bool}

inductive POp (α : Type) where
  | on0 (op : SOp α) | on1 (op : SOp α) | swp | eq | less

def stepG2 (lt : α → α → Bool) (N : Nat) (eqT ltT : α → α → Bool) (p : SSet α × SSet α) : POp α → Option ((SSet α × SSet α) × SOut)
  | .on0 op => (stepG lt N p.1 op).map (fun r => ((r.1, p.2), r.2))
  | .on1 op => (stepG lt N p.2 op).map (fun r => ((p.1, r.1), r.2))
  | .swp => (Gen.SmallSet.swap lt N p.1 p.2).map (fun r => ((r.1, r.2.1), SOut.unit))
  | .eq => (Gen.SmallSet.op_eq lt N p.1 lt p.2 eqT).map (fun r => (p, SOut.flag r.1))
  | .less => (Gen.SmallSet.op_lt lt N p.1 lt p.2 ltT).map (fun r => (p, SOut.flag r.1))

def stepA2 (lt : α → α → Bool) (eqT ltT : α → α → Bool) (a : List α × List α) : POp α → (List α × List α) × SOut
  | .on0 op => (((stepA lt a.1 op).1, a.2), (stepA lt a.1 op).2)
  | .on1 op => ((a.1, (stepA lt a.2 op).1), (stepA lt a.2 op).2)
  | .swp => ((a.2, a.1), SOut.unit)
  | .eq => (a, SOut.flag (Gen.SmallSet.vecEq eqT a.1 a.2))
  | .less => (a, SOut.flag (Gen.SmallSet.vecLess ltT a.1 a.2))

def runG2 (lt : α → α → Bool) (N : Nat) (eqT ltT : α → α → Bool) :
    SSet α × SSet α → List (POp α) → Option ((SSet α × SSet α) × List SOut)
  | p, [] => some (p, [])
  | p, op :: ops =>
    match stepG2 lt N eqT ltT p op with
    | none => none
    | some (p', o) => (runG2 lt N eqT ltT p' ops).map (fun r => (r.1, o :: r.2))

def runA2 (lt : α → α → Bool) (eqT ltT : α → α → Bool) : List α × List α → List (POp α) → (List α × List α) × List SOut
  | a, [] => (a, [])
  | a, op :: ops =>
    ((runA2 lt eqT ltT (stepA2 lt eqT ltT a op).1 ops).1, (stepA2 lt eqT ltT a op).2 :: (runA2 lt eqT ltT (stepA2 lt eqT ltT a op).1 ops).2)

/-- both sets satisfy the invariant and are represented by the two `std::set`s -/
def Rep2 (lt : α → α → Bool) (N : Nat) (p : SSet α × SSet α) (a : List α × List α) : Prop :=
  p.1.Inv lt N ∧ p.2.Inv lt N ∧ Rep lt p.1 a.1 ∧ Rep lt p.2 a.2

theorem C04_pool_step (hswo : SWO lt) (N : Nat) (eqT ltT : α → α → Bool) (p : SSet α × SSet α) (a : List α × List α)
    (h : Rep2 lt N p a) (op : POp α) :
    ∃ p' o, stepG2 lt N eqT ltT p op = some (p', o) ∧ o = (stepA2 lt eqT ltT a op).2 ∧ Rep2 lt N p' (stepA2 lt eqT ltT a op).1 := by
  obtain ⟨h0, h1, r0, r1⟩ := h
  cases op with
  | on0 op =>
    obtain ⟨s', o, hg, hi, ho, hr⟩ := C04_refines_step hswo N p.1 h0 a.1 r0 op
    exact ⟨(s', p.2), o, by simp [stepG2, hg], by simp [stepA2, ho], hi, h1, hr, r1⟩
  | on1 op =>
    obtain ⟨s', o, hg, hi, ho, hr⟩ := C04_refines_step hswo N p.2 h1 a.2 r1 op
    exact ⟨(p.1, s'), o, by simp [stepG2, hg], by simp [stepA2, ho], h0, hi, r0, hr⟩
  | swp =>
    exact ⟨(p.2, p.1), SOut.unit, by simp [stepG2, swap_eq], rfl, h1, h0, r1, r0⟩
  | eq =>
    obtain ⟨e1, _⟩ := C04_gen_eq_repr hswo hswo N p.1 p.2 h0 h1 eqT a.1 a.2 r0.1 r0.2 r1.1 r1.2
    exact ⟨p, SOut.flag (Gen.SmallSet.vecEq eqT a.1 a.2), by simp [stepG2, e1], rfl, h0, h1, r0, r1⟩
  | less =>
    have e1 : Gen.SmallSet.op_lt lt N p.1 lt p.2 ltT = some (Gen.SmallSet.vecLess ltT a.1 a.2, 0) := by
      rw [op_lt_eq]; simp only [ltS, ← Rep_unique hswo N p.1 h0 _ r0, ← Rep_unique hswo N p.2 h1 _ r1]
    exact ⟨p, SOut.flag (Gen.SmallSet.vecLess ltT a.1 a.2), by simp [stepG2, e1], rfl, h0, h1, r0, r1⟩

/-- **every history over the pool** -/
theorem C04_pool_history (hswo : SWO lt) (N : Nat) (eqT ltT : α → α → Bool) (ops : List (POp α)) :
    ∀ (p : SSet α × SSet α) (a : List α × List α), Rep2 lt N p a →
      ∃ p' outs, runG2 lt N eqT ltT p ops = some (p', outs) ∧ outs = (runA2 lt eqT ltT a ops).2 ∧ Rep2 lt N p' (runA2 lt eqT ltT a ops).1 := by
  induction ops with
  | nil => intro p a h; exact ⟨p, [], rfl, rfl, h⟩
  | cons op ops ih =>
    intro p a h
    obtain ⟨p1, o, hg, ho, h1⟩ := C04_pool_step hswo N eqT ltT p a h op
    obtain ⟨p2, outs, hg2, ho2, h2⟩ := ih p1 _ h1
    exact ⟨p2, o :: outs, by simp [runG2, hg, hg2], by simp [runA2, ho, ho2], h2⟩

/-- from two empty sets -/
theorem C04_pool_from_empty (hswo : SWO lt) (N : Nat) (eqT ltT : α → α → Bool) (ops : List (POp α)) :
    ∃ p' outs, runG2 lt N eqT ltT (⟨[], []⟩, ⟨[], []⟩) ops = some (p', outs) ∧ outs = (runA2 lt eqT ltT ([], []) ops).2
      ∧ Rep2 lt N p' (runA2 lt eqT ltT ([], []) ops).1 :=
  C04_pool_history hswo N eqT ltT ops _ _
    ⟨⟨fun _ => rfl, by simp, by simp [NoEquivDup], by simp [Sorted]⟩, ⟨fun _ => rfl, by simp, by simp [NoEquivDup], by simp [Sorted]⟩,
     Rep_empty, Rep_empty⟩

example : ∃ p' outs, runG2 exLt 2 (fun a b => a == b) exLt (⟨[], []⟩, ⟨[], []⟩)
      [.on0 (.insR [3, 1, 2]), .on1 (.ins 2), .on1 (.ins 1), .eq, .on0 (.del 3), .eq, .less, .swp, .on1 (.clr), .eq, .less] = some (p', outs) :=
  let ⟨p', outs, h, _⟩ := C04_pool_from_empty exLt_swo 2 (fun a b => a == b) exLt _; ⟨p', outs, h⟩

end AmcVerif.Props.C04
