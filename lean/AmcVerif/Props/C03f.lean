import AmcVerif.Lemmas.MergeContract
import AmcVerif.Bridge.FlatSetBridge
import AmcVerif.Props.C12
/-! C03 (merge contract) — what the generated `FlatSet::merge` (both overloads: the source a FlatSet of the same type, with the
two-pointer arm for a stateless comparator type and the insertion arm otherwise, and the source a set with ANOTHER comparator)
does to the elements, as the contract `std::set::merge` satisfies (`Sets.MergeSpec`, `Lemmas/MergeContract.lean`): the target stays strictly increasing, keeps its
elements and receives `moved`; the source keeps `kept`; `moved ++ kept` is a permutation of the source; no moved element had an
equivalent in the target; every kept element has one afterwards.  Until the fourth session the merge theorems said "equals
`mergeFrom`" — the specification function itself had no statement of what it means. -/
namespace AmcVerif.Props.C03
open AmcVerif AmcVerif.FS AmcVerif.Sets AmcVerif.Bridge.FlatSet
variable {α : Type} {lt : α → α → Bool}

theorem C03_gen_merge_contract (hswo : SWO lt) (l : List α) (hs : Sorted lt l) (lt_o : α → α → Bool) (o : List α)
    (stateless : Bool) (ho : stateless = true → Sorted lt o) :
    ∃ r, Gen.FlatSet.merge lt l lt_o o stateless = some r ∧ Sorted lt r.1 ∧ MergeSpec lt l o r.1 r.2.1 := by
  obtain ⟨c, hc⟩ := merge_eq hswo l hs lt_o o stateless ho
  obtain ⟨h1, h2⟩ := mergeFrom_spec hswo l o hs
  exact ⟨_, hc, h1, h2⟩

theorem C03_gen_merge_other_contract (hswo : SWO lt) (l : List α) (hs : Sorted lt l) (lt_o : α → α → Bool) (o : List α) :
    ∃ r, Gen.FlatSet.merge_other lt l lt_o o = some r ∧ Sorted lt r.1 ∧ MergeSpec lt l o r.1 r.2.1 := by
  obtain ⟨c, hc⟩ := merge_other_eq hswo l hs lt_o o
  obtain ⟨h1, h2⟩ := mergeFrom_spec hswo l o hs
  exact ⟨_, hc, h1, h2⟩

/-- sizes: nothing is lost or duplicated -/
theorem C03_merge_sizes {tgt src tgt' src' : List α} (h : MergeSpec lt tgt src tgt' src') :
    tgt'.length + src'.length = tgt.length + src.length := by
  obtain ⟨moved, p1, p2, _⟩ := h.moved_kept
  have a := p1.length_eq
  have b := p2.length_eq
  simp only [List.length_append] at a b
  omega

example : ∃ r, Gen.FlatSet.merge (fun a b : Nat => decide (a < b)) [1, 5] (fun a b : Nat => decide (a < b)) [2, 5, 9] true = some r
    ∧ Sorted (fun a b : Nat => decide (a < b)) r.1 ∧ MergeSpec (fun a b : Nat => decide (a < b)) [1, 5] [2, 5, 9] r.1 r.2.1 :=
  C03_gen_merge_contract C12.natLt_swo [1, 5] (by simp [Sorted]) _ [2, 5, 9] true (fun _ => by simp [Sorted])

end AmcVerif.Props.C03
