import AmcVerif.Props.C15
import AmcVerif.Props.C17
/-! C16 — behaviour independent of the C++ standard (what a theorem can carry): the library's own pre-C++17/20
emulations of the memory algorithms compute the same result as the standard algorithms the later standards alias, so
the model of `memory.hpp` has the same value under every `-std`; both arms of the integer `#if` ladders agree. The
model of the containers has no configuration parameter at all: one model transcript is the reference for every build
(language standard x extras on/off x assertions x optimisation level), which the check compares with the transcripts of
the real builds. -/
namespace AmcVerif.Props.C16
open AmcVerif AmcVerif.MemAlgo
variable {α : Type}

/-- `amc::uninitialized_copy_n` gives the same result under any two language standards -/
theorem C16_uninitCopyN (s1 s2 : Std) (it : It) (ty : Ty) (k : Option Nat) (vs : List α) (st dt : List (Slot α))
    (hk : throwAt k vs.length = none) :
    Amc.uninitCopyN s1 it ty k vs.length (vs.map .live ++ st) (List.replicate vs.length .raw ++ dt)
      = Amc.uninitCopyN s2 it ty k vs.length (vs.map .live ++ st) (List.replicate vs.length .raw ++ dt) := by
  rw [Props.C15.C15_uninitCopyN_nothrow s1 it ty k vs st dt hk, Props.C15.C15_uninitCopyN_nothrow s2 it ty k vs st dt hk]

theorem C16_uninitMoveN (s1 s2 : Std) (it : It) (ty : Ty) (k : Option Nat) (vs : List α) (st dt : List (Slot α))
    (hk : throwAt k vs.length = none) :
    Amc.uninitMoveN s1 it ty k vs.length (vs.map .live ++ st) (List.replicate vs.length .raw ++ dt)
      = Amc.uninitMoveN s2 it ty k vs.length (vs.map .live ++ st) (List.replicate vs.length .raw ++ dt) := by
  rw [Props.C15.C15_uninitMoveN_nothrow s1 it ty k vs st dt hk, Props.C15.C15_uninitMoveN_nothrow s2 it ty k vs st dt hk]

theorem C16_uninitRelocN (s1 s2 : Std) (it : It) (ty : Ty) (k : Option Nat) (vs : List α) (st dt : List (Slot α))
    (hk : throwAt k vs.length = none) :
    Amc.uninitRelocN s1 it ty k vs.length (vs.map .live ++ st) (List.replicate vs.length .raw ++ dt)
      = Amc.uninitRelocN s2 it ty k vs.length (vs.map .live ++ st) (List.replicate vs.length .raw ++ dt) := by
  rw [Props.C15.C15_uninitRelocN_nothrow s1 it ty k vs st dt hk, Props.C15.C15_uninitRelocN_nothrow s2 it ty k vs st dt hk]

/-- the `#if AMC_CXX14` ladders of ElemWithPtrStorage (number of inline slots sharing the pointer bytes, extent and
    alignment of the storage) have extensionally equal arms -/
theorem C16_ladders (sT aT : Nat) (h0 : 0 < sT) :
    Layout.kNbSlots11 sT = Layout.kNbSlots sT ∧ Layout.elemWithPtrStorage11 sT aT = Layout.elemWithPtrStorage sT aT :=
  Props.C17.C17_ladder_arms sT aT h0

example : throwAt (none : Option Nat) 3 = none := by decide

end AmcVerif.Props.C16
