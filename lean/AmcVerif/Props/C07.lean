import AmcVerif.Props.Common
/-! C07 — capacity contract and address stability (word level; the executable model calls these very functions for
its words, and the correspondence check compares `capacity()`, `data()` identity and allocator calls with the real
containers after every operation). -/
namespace AmcVerif.Props.C07
open AmcVerif AmcVerif.Props
variable {ops : BaseOps} {N : Nat}

/-- `size() ≤ capacity() ≤ max_size()` in every state satisfying the representation invariant -/
def BoundsStmt (ops : BaseOps) (N : Nat) : Prop :=
  ∀ t, SRep N ops.kMax t → ops.size t ≤ ops.capacity t ∧ ops.capacity t ≤ ops.kMax

theorem C07_bounds (L : SmallLaws ops N) : BoundsStmt ops N :=
  fun t h => ⟨(L.bounds t h).1, (L.bounds t h).2.1⟩

/-- one operation: invariant kept, capacity never decreases except through shrink_to_fit, room for what was asked,
    and no reallocation (no effect at all, same buffer, same inline/heap state) when the result fits -/
def StepStmt (ops : BaseOps) (N : Nat) : Prop :=
  ∀ (t : VB), SRep N ops.kMax t → ∀ (op : WOp), op.Valid ops t → ops.capacity t < 2 ^ 62 →
    ∀ (fresh : Nat) (t' : VB) (effs : List Eff), wStep ops N t fresh op = .ok (t', effs) →
      SRep N ops.kMax t'
      ∧ (op ≠ .shrinkToFit → ops.capacity t ≤ ops.capacity t')
      ∧ (op ≠ .shrinkToFit → op.needed (ops.size t) ≤ ops.capacity t')
      ∧ (op ≠ .shrinkToFit → op.needed (ops.size t) ≤ ops.capacity t →
            effs = [] ∧ t'.dyn = t.dyn ∧ ops.capacity t' = ops.capacity t ∧ ops.isSmall t' = ops.isSmall t)

theorem C07_step (L : SmallLaws ops N) : StepStmt ops N :=
  fun t h op hv h62 fresh t' effs hs =>
    let p := wStep_ok L t h op hv h62 fresh t' effs hs
    ⟨p.rep, p.mono, p.room, p.stable⟩

/-- after `reserve(n)`, `capacity() ≥ n` -/
def ReserveStmt (ops : BaseOps) (N : Nat) : Prop :=
  ∀ (t : VB), SRep N ops.kMax t → ∀ n, n ≤ ops.kMax → ops.capacity t < 2 ^ 62 →
    ∀ (fresh : Nat) (t' : VB) (effs : List Eff), wStep ops N t fresh (.reserve n) = .ok (t', effs) → n ≤ ops.capacity t'

theorem C07_reserve (L : SmallLaws ops N) : ReserveStmt ops N :=
  fun t h n hn h62 fresh t' effs hs =>
    (wStep_ok L t h (.reserve n) hn h62 fresh t' effs hs).room (by intro h; cases h)

/-- every history: invariant and bounds at the end; capacity monotone along histories without shrink_to_fit -/
def HistoryStmt (ops : BaseOps) (N : Nat) : Prop :=
  ∀ (hist : List WOp) (t : VB) (fresh : Nat), SRep N ops.kMax t → ValidHist ops (ops.size t) hist →
    ∀ (t' : VB) (effs : List Eff), wRun ops N t fresh hist = some (t', effs) →
      SRep N ops.kMax t' ∧ ops.size t' ≤ ops.capacity t' ∧ ops.capacity t' ≤ ops.kMax
      ∧ ((∀ op ∈ hist, op ≠ WOp.shrinkToFit) → ops.capacity t ≤ ops.capacity t')

theorem C07_history (L : SmallLaws ops N) (hk : ops.kMax < 2 ^ 62) : HistoryStmt ops N :=
  fun hist t fresh h hv t' effs hr =>
    let s := wRun_spec L hk hist t fresh h hv t' effs hr
    ⟨s.1, s.2.2.1, s.2.2.2, fun hne => wRun_mono L hk hist t fresh h hv hne t' effs hr⟩

/-- moving from / swapping with a heap-backed vector hands over the buffer -/
def StealStmt (ops : BaseOps) (N : Nat) : Prop :=
  ∀ (t o : VB), SRep N ops.kMax t → SRep N ops.kMax o → ops.isSmall o = false →
    (ops.moveAssign t o N).1.dyn = o.dyn ∧ ops.capacity (ops.moveAssign t o N).1 = ops.capacity o
    ∧ (ops.moveConstruct t o N).1.dyn = o.dyn ∧ ops.capacity (ops.moveConstruct t o N).1 = ops.capacity o
    ∧ (ops.swapImpl t o).1.dyn = o.dyn ∧ ops.capacity (ops.swapImpl t o).1 = ops.capacity o

theorem C07_steal (L : SmallLaws ops N) : StealStmt ops N :=
  fun t o ht ho hoL =>
  ⟨(L.moveAssignSteal t o ht ho hoL).2.2, (L.moveAssignSteal t o ht ho hoL).2.1,
   (L.moveConstruct t o ho).2.2.2.2.2.2.2.2 hoL, by rw [(L.moveConstruct t o ho).2.2.2.2.2.2.2.1],
   (L.swapImpl t o ht ho).2.2.2.2.2.2.2.2.1 hoL, (L.swapImpl t o ht ho).2.2.2.2.1⟩

/- the theorems hold for the generated code of every size type (U64: step theorems, capacities below 2^62) -/
theorem C07_history_U8 (N : Nat) (h : N < 255) (h0 : 0 < N) : HistoryStmt Gen.U8.svbOps N := C07_history (lawsU8 N h h0) kU8
theorem C07_history_U16 (N : Nat) (h : N < 65535) (h0 : 0 < N) : HistoryStmt Gen.U16.svbOps N := C07_history (lawsU16 N h h0) kU16
theorem C07_history_U32 (N : Nat) (h : N < 4294967295) (h0 : 0 < N) : HistoryStmt Gen.U32.svbOps N := C07_history (lawsU32 N h h0) kU32
theorem C07_step_U64 (N : Nat) (h : N < 18446744073709551615) (h0 : 0 < N) : StepStmt Gen.U64.svbOps N := C07_step (lawsU64 N h h0)
theorem C07_steal_U8 (N : Nat) (h : N < 255) (h0 : 0 < N) : StealStmt Gen.U8.svbOps N := C07_steal (lawsU8 N h h0)
theorem C07_steal_U32 (N : Nat) (h : N < 4294967295) (h0 : 0 < N) : StealStmt Gen.U32.svbOps N := C07_steal (lawsU32 N h h0)
theorem C07_steal_U64 (N : Nat) (h : N < 18446744073709551615) (h0 : 0 < N) : StealStmt Gen.U64.svbOps N := C07_steal (lawsU64 N h h0)

/-- non-vacuity: a fresh SmallVector<_,4,_,uint8_t> satisfies the invariant, and a concrete history runs -/
example : SRep 4 255 (Gen.U8.svbOps.ctor 4) := by decide
example : (wRun Gen.U8.svbOps 4 (Gen.U8.svbOps.ctor 4) 1 [.push, .push, .growTo 9 9, .pop, .reserve 40, .shrinkToFit]).isSome = true := by
  decide
example : ValidHist Gen.U8.svbOps 0 [.push, .push, .growTo 9 9, .pop, .reserve 40, .shrinkToFit] := by
  simp [ValidHist, WOp.specSize, Gen.U8.svbOps]

end AmcVerif.Props.C07
