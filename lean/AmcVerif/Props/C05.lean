import AmcVerif.Props.Common
/-! C05 — inline-storage promise: no dynamic allocation within N (word level + generated effect lists). -/
namespace AmcVerif.Props.C05
open AmcVerif AmcVerif.Props
variable {ops : BaseOps} {N : Nat}

/-- A SmallVector that is inline, driven by any history whose sizes and reserve requests stay within N, never
    throws, stays inline, keeps `capacity() == N`, and emits no allocator request (indeed no effect at all from the
    capacity machinery). -/
def InlineHistoryStmt (ops : BaseOps) (N : Nat) : Prop :=
  ∀ (hist : List WOp) (t : VB) (fresh : Nat), SRep N ops.kMax t → ops.isSmall t = true →
    ValidHist ops (ops.size t) hist → Confined N (ops.size t) hist →
    ∃ t', wRun ops N t fresh hist = some (t', []) ∧ SRep N ops.kMax t' ∧ ops.isSmall t' = true
      ∧ ops.capacity t' = N ∧ ops.begin t' = PtrV.inl 0

theorem C05_inline_history (L : SmallLaws ops N) (hk : ops.kMax < 2 ^ 62) : InlineHistoryStmt ops N := by
  intro hist t fresh h hs hv hc
  obtain ⟨t', h1, h2, h3, h4⟩ := wRun_inline L hk hist t fresh h hs hv hc
  exact ⟨t', h1, h2, h3, h4, by rw [L.begin_small, h3]; rfl⟩

/-- a freshly constructed SmallVector is inline with capacity N -/
def FreshStmt (ops : BaseOps) (N : Nat) : Prop :=
  SRep N ops.kMax (ops.ctor N) ∧ ops.isSmall (ops.ctor N) = true ∧ ops.capacity (ops.ctor N) = N ∧ ops.size (ops.ctor N) = 0

theorem C05_fresh (L : SmallLaws ops N) : FreshStmt ops N := ⟨L.ctor.1, L.ctor.2.2.2, L.ctor.2.2.1, L.ctor.2.1⟩

/-- move / swap between inline vectors: both stay inline with capacity N, only element moves are performed
    (this is the statement the pinned tree violated: V1) -/
def InlineMoveStmt (ops : BaseOps) (N : Nat) : Prop :=
  ∀ (t o : VB), SRep N ops.kMax t → SRep N ops.kMax o → ops.isSmall t = true → ops.isSmall o = true →
    (ops.isSmall (ops.moveAssign t o N).1 = true ∧ ops.capacity (ops.moveAssign t o N).1 = N
      ∧ ops.isSmall (ops.moveAssign t o N).2.1 = true ∧ ops.capacity (ops.moveAssign t o N).2.1 = N
      ∧ (ops.moveAssign t o N).2.2 = [Eff.moveN (PtrV.inl 1) (ops.size o) (PtrV.inl 0) (ops.size t)])
    ∧ (ops.isSmall (ops.moveConstruct t o N).1 = true ∧ ops.capacity (ops.moveConstruct t o N).1 = N
      ∧ ops.isSmall (ops.moveConstruct t o N).2.1 = true ∧ ops.capacity (ops.moveConstruct t o N).2.1 = N)
    ∧ (ops.isSmall (ops.swapImpl t o).1 = true ∧ ops.capacity (ops.swapImpl t o).1 = N
      ∧ ops.isSmall (ops.swapImpl t o).2.1 = true ∧ ops.capacity (ops.swapImpl t o).2.1 = N)

theorem C05_inline_move (L : SmallLaws ops N) : InlineMoveStmt ops N := by
  intro t o ht ho hts hos
  have hbt := (L.bounds t ht).2.2 hts
  have hbo := (L.bounds o ho).2.2 hos
  have ma := L.moveAssignRep t o ht ho
  have mi := L.moveAssignInline t o ht ho hos hts
  have mc := L.moveConstruct t o ho
  have sw := L.swapImpl t o ht ho
  refine ⟨⟨mi.1, mi.2.1, ma.2.2.2.2.1, ma.2.2.2.2.2, mi.2.2⟩, ⟨?_, ?_, mc.2.2.2.2.1, mc.2.2.2.2.2.1⟩, ⟨?_, ?_, ?_, ?_⟩⟩
  · rw [mc.2.2.2.2.2.2.1]; exact hos
  · rw [mc.2.2.2.2.2.2.2.1]; exact hbo
  · rw [sw.2.2.2.2.2.2.1]; exact hos
  · rw [sw.2.2.2.2.1]; exact hbo
  · rw [sw.2.2.2.2.2.2.2.1]; exact hts
  · rw [sw.2.2.2.2.2.1]; exact hbt

theorem C05_inline_history_U8 (N : Nat) (h : N < 255) (h0 : 0 < N) : InlineHistoryStmt Gen.U8.svbOps N := C05_inline_history (lawsU8 N h h0) kU8
theorem C05_inline_history_U16 (N : Nat) (h : N < 65535) (h0 : 0 < N) : InlineHistoryStmt Gen.U16.svbOps N := C05_inline_history (lawsU16 N h h0) kU16
theorem C05_inline_history_U32 (N : Nat) (h : N < 4294967295) (h0 : 0 < N) : InlineHistoryStmt Gen.U32.svbOps N := C05_inline_history (lawsU32 N h h0) kU32
theorem C05_inline_move_U8 (N : Nat) (h : N < 255) (h0 : 0 < N) : InlineMoveStmt Gen.U8.svbOps N := C05_inline_move (lawsU8 N h h0)
theorem C05_inline_move_U16 (N : Nat) (h : N < 65535) (h0 : 0 < N) : InlineMoveStmt Gen.U16.svbOps N := C05_inline_move (lawsU16 N h h0)
theorem C05_inline_move_U32 (N : Nat) (h : N < 4294967295) (h0 : 0 < N) : InlineMoveStmt Gen.U32.svbOps N := C05_inline_move (lawsU32 N h h0)
theorem C05_inline_move_U64 (N : Nat) (h : N < 18446744073709551615) (h0 : 0 < N) : InlineMoveStmt Gen.U64.svbOps N := C05_inline_move (lawsU64 N h h0)
theorem C05_fresh_U32 (N : Nat) (h : N < 4294967295) (h0 : 0 < N) : FreshStmt Gen.U32.svbOps N := C05_fresh (lawsU32 N h h0)

/-- FixedCapacityVector: no member of its base performs an allocator call, the capacity word is constant and
    `begin()` is always the inline storage (stated on the generated definitions of each size type) -/
theorem C05_static_U8 (t o : VB) (n : Nat) :
    ((Gen.U8.FVB.swap_impl t o).2.2.any Bridge.U8.isAllocEff = false) ∧ ((Gen.U8.FVB.move_assign t o n).2.2.any Bridge.U8.isAllocEff = false)
      ∧ ((Gen.U8.FVB.move_construct t o n).2.2.any Bridge.U8.isAllocEff = false) ∧ Gen.U8.FVB.begin t = PtrV.inl 0 :=
  ⟨(Bridge.U8.fvb_no_alloc t o n).1, (Bridge.U8.fvb_no_alloc t o n).2.1, (Bridge.U8.fvb_no_alloc t o n).2.2,
   (Bridge.U8.fvb_capacity_const t o 0 n).2.2.2.2.2.2.2.2.2.2⟩
theorem C05_static_U32 (t o : VB) (n : Nat) :
    ((Gen.U32.FVB.swap_impl t o).2.2.any Bridge.U32.isAllocEff = false) ∧ ((Gen.U32.FVB.move_assign t o n).2.2.any Bridge.U32.isAllocEff = false)
      ∧ ((Gen.U32.FVB.move_construct t o n).2.2.any Bridge.U32.isAllocEff = false) ∧ Gen.U32.FVB.begin t = PtrV.inl 0 :=
  ⟨(Bridge.U32.fvb_no_alloc t o n).1, (Bridge.U32.fvb_no_alloc t o n).2.1, (Bridge.U32.fvb_no_alloc t o n).2.2,
   (Bridge.U32.fvb_capacity_const t o 0 n).2.2.2.2.2.2.2.2.2.2⟩

/-- non-vacuity: an inline history of a SmallVector<_,4,_,uint8_t> satisfies every premise -/
example : SRep 4 255 (Gen.U8.svbOps.ctor 4) ∧ Gen.U8.svbOps.isSmall (Gen.U8.svbOps.ctor 4) = true := by decide
example : Confined 4 0 [.push, .push, .growTo 4 4, .pop, .reserve 3, .shrinkToFit, .shrinkTo 0] := by
  simp [Confined, WOp.needed, WOp.specSize]

end AmcVerif.Props.C05
