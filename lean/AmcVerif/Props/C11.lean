import AmcVerif.Lemmas.SmallSetInv
/-! C11 — SmallSet iteration and iterator contract in and across both states (model level: positions are indices into
the iteration sequence `elems`, `none` is `end()`; the real iterators — a variant of two iterator types, or raw
pointers into two different arrays for the FlatSet-backed set — are compared with `end()` and dereferenced by the
harness after every iterator-returning operation). -/
namespace AmcVerif.Props.C11
open AmcVerif.FS AmcVerif.Sets
variable {α : Type} {lt : α → α → Bool}

/-- `erase(position)`: the set without that element, and what the returned iterator designates (`none` = end()) -/
def eraseAt (s : SSet α) (i : Nat) : SSet α × Option Nat :=
  let y := s.eraseIdx i
  (y, if i < y.elems.length then some i else none)

/-- the iteration sequence after erasing position `i` is the old one without its `i`-th element, in either state —
    also when the last element of a large set is removed and the set falls back to its inline state -/
theorem C11_erase_elems (N : Nat) (s : SSet α) (h : s.Inv lt N) (i : Nat) :
    (s.eraseIdx i).elems = s.elems.eraseIdx i := by
  by_cases hset : s.set = []
  · simp [SSet.eraseIdx, SSet.elems, SSet.isSmall, hset]
  · have hvec : s.vec = [] := h.excl hset
    by_cases he : s.set.eraseIdx i = []
    · simp [SSet.eraseIdx, SSet.elems, SSet.isSmall, hset, he]
    · simp [SSet.eraseIdx, SSet.elems, SSet.isSmall, hset, he]

/-- the iterator returned by `erase(position)` is `end()` exactly when nothing follows, and otherwise designates the
    former successor of the erased element -/
theorem C11_returned (N : Nat) (s : SSet α) (h : s.Inv lt N) (i : Nat) (hi : i < s.elems.length) :
    ((eraseAt s i).2 = none ↔ i + 1 = s.elems.length)
    ∧ (∀ j, (eraseAt s i).2 = some j → (eraseAt s i).1.elems[j]? = s.elems[i + 1]? ∧ j < (eraseAt s i).1.elems.length) := by
  unfold eraseAt
  simp only
  rw [C11_erase_elems N s h i]
  have hlen : (s.elems.eraseIdx i).length = s.elems.length - 1 := List.length_eraseIdx_of_lt hi
  constructor
  · rw [hlen]; split <;> simp <;> omega
  · intro j hj
    split at hj
    · cases hj
      rename_i hlt
      refine ⟨?_, hlt⟩
      rw [List.getElem?_eraseIdx_of_ge (Nat.le_refl _)]
    · cases hj

/-- walking from begin() to end() visits every element exactly once: the iteration sequence has no two equivalent
    (hence no two equal) elements, in either state -/
theorem C11_walk (hswo : SWO lt) (N : Nat) (s : SSet α) (h : s.Inv lt N) : NoEquivDup lt s.elems := by
  unfold SSet.elems
  split
  · exact h.nodup
  · unfold NoEquivDup
    exact List.Pairwise.imp (fun {a b} hab he => by rw [he.1] at hab; cases hab) h.sorted

/-- the standard erase-while-iterating loop over the iteration sequence, with the index semantics above -/
def eraseLoop (p : α → Bool) : Nat → List α → Nat → Nat → List α × Nat
  | 0, l, _, trips => (l, trips)
  | fuel+1, l, i, trips =>
    match l[i]? with
    | none => (l, trips)
    | some x => if p x then eraseLoop p fuel (l.eraseIdx i) i (trips + 1) else eraseLoop p fuel l (i + 1) (trips + 1)

/-- the loop terminates within `size` trips, having visited every element exactly once, and leaves exactly the elements
    that were not selected -/
theorem C11_erase_loop (p : α → Bool) (suf : List α) :
    ∀ (pre : List α) (t : Nat), eraseLoop p suf.length (pre ++ suf) pre.length t
        = (pre ++ suf.filter (fun x => !p x), t + suf.length) := by
  induction suf with
  | nil => intro pre t; simp [eraseLoop]
  | cons x xs ih =>
    intro pre t
    have hx : (pre ++ x :: xs)[pre.length]? = some x := by simp
    simp only [List.length_cons, eraseLoop, hx]
    cases hp : p x with
    | true =>
      simp only [↓reduceIte]
      have : (pre ++ x :: xs).eraseIdx pre.length = pre ++ xs := by
        rw [List.eraseIdx_append_of_length_le (Nat.le_refl _)]; simp
      rw [this, ih pre (t + 1)]
      simp [hp]; omega
    | false =>
      simp only [Bool.false_eq_true, ↓reduceIte]
      have e1 : pre ++ x :: xs = (pre ++ [x]) ++ xs := by simp
      have e2 : pre.length + 1 = (pre ++ [x]).length := by simp
      rw [e1, e2, ih (pre ++ [x]) (t + 1)]
      simp [hp]; omega

theorem C11_erase_loop_whole (p : α → Bool) (l : List α) :
    eraseLoop p l.length l 0 0 = (l.filter (fun x => !p x), l.length) := by
  have := C11_erase_loop p l [] 0
  simpa using this

example : eraseLoop (fun x : Nat => x % 2 == 0) 4 [1, 2, 3, 4] 0 0 = ([1, 3], 4) := by decide

end AmcVerif.Props.C11
