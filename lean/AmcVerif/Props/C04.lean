import AmcVerif.Lemmas.SmallSetInv
/-! C04 — SmallSet is observationally a std::set across its inline/large transition. Proved on the model
`{vec, set}` of `Model/Sets.lean` for every strict weak order: the state invariant is kept by every mutator, and
insertion / lookup answers depend only on the *set of elements* (whether an equivalent element is present), not on
the state the SmallSet is in, including when the call crosses from inline to large (`grow`). Sizes, booleans, erase
counts, comparisons and merges of the real SmallSet (both backing sets) are tied to this model and to std::set by the
correspondence check. -/
namespace AmcVerif.Props.C04
open AmcVerif.FS AmcVerif.Sets
variable {α : Type} {lt : α → α → Bool}

/-- exactly one of the two containers holds the elements; the inline one never exceeds N and has no two equivalent
    elements; the backing set is strictly sorted. Kept by insert, by erase(position) and by grow. -/
theorem C04_inv (hswo : SWO lt) (N : Nat) (s : SSet α) (h : s.Inv lt N) (v : α) (i : Nat) :
    (s.insert lt N v).1.Inv lt N ∧ (s.eraseIdx i).Inv lt N ∧ (s.grow lt).Inv lt N :=
  ⟨insert_inv hswo N s h v, eraseIdx_inv N s h i, (grow_inv hswo N s h).1⟩

/-- the empty SmallSet satisfies the invariant -/
theorem C04_init (N : Nat) : (⟨[], []⟩ : SSet α).Inv lt N :=
  ⟨fun h => absurd rfl h, by simp, by simp [NoEquivDup], by simp [Sorted]⟩

/-- `insert` answers "already there" exactly when an equivalent element is present — in the inline state, in the large
    state, and when the call makes the set grow -/
theorem C04_insert (hswo : SWO lt) (N : Nat) (s : SSet α) (h : s.Inv lt N) (v : α) :
    (s.insert lt N v).2.2.1 = false ↔ HasEquiv lt s.elems v := insert_not_inserted_iff hswo N s h v

/-- `find` / `contains` / `count` answer by membership up to equivalence, in either state -/
theorem C04_find (hswo : SWO lt) (N : Nat) (s : SSet α) (h : s.Inv lt N) (k : α) :
    (s.find lt k).1.isSome = true ↔ HasEquiv lt s.elems k := find_some_iff hswo N s h k

/-- crossing the transition loses and invents nothing: the backing set after `grow` represents exactly the inline
    elements -/
theorem C04_grow (hswo : SWO lt) (N : Nat) (s : SSet α) (h : s.Inv lt N) (hs : s.isSmall = true) :
    (∀ x, x ∈ (s.grow lt).set → x ∈ s.vec) ∧ (∀ v ∈ s.vec, HasEquiv lt (s.grow lt).set v) ∧ (s.grow lt).vec = [] :=
  ⟨(grow_mem hswo N s h hs).1, (grow_mem hswo N s h hs).2, rfl⟩

/-- every history of insertions keeps the invariant (induction over the history) -/
theorem C04_history (hswo : SWO lt) (N : Nat) (vs : List α) :
    ∀ (s : SSet α), s.Inv lt N → (s.insertRange lt N vs).Inv lt N := by
  induction vs with
  | nil => intro s h; simpa [SSet.insertRange] using h
  | cons v rest ih =>
    intro s h
    simp only [SSet.insertRange, List.foldl_cons]
    exact ih _ (insert_inv hswo N s h v)

example : (⟨[5, 3], []⟩ : SSet Nat).Inv (fun a b => decide (a < b)) 3 :=
  ⟨fun h => absurd rfl h, by simp, by simp [NoEquivDup, Equiv], by simp [Sorted]⟩

end AmcVerif.Props.C04
