import AmcVerif.Lemmas.VecAccess
import AmcVerif.Bridge.VecAccessBridge
import AmcVerif.Bridge.VecLawsU8
import AmcVerif.Bridge.VecLawsU16
import AmcVerif.Bridge.VecLawsU32
import AmcVerif.Bridge.VecLawsU64
/-! C01 (read-only members) — `at`, `operator[]`, `front`, `back`, `data`, `empty`, `max_size`, `operator==`, `!=`, `<`, `<=`, `>`,
`>=` of every vector flavour behave as those of `std::vector`, and change nothing.

The theorems are about the functions `atIdx`, `index`, `front`, `back`, `dataPtr`, `isEmpty`, `maxSize`, `vecEqual`, `vecLess`, … of
`Model/Vec.lean`: the ones the driver runs against the real containers (`at`, `cmp` of the correspondence check) and the ones the
definitions regenerated from `vectorcommon.hpp` (`Gen/VecGlue.lean`) are proved equal to (`Bridge/VecAccessBridge.lean`,
restated at the end). `VRepW cfg Ok c m xs w`: container `c` of memory `m` holds exactly the list `xs` (words `w`). A returned
reference is the value of the element it designates. `m' = m`: no part of the memory (buffers, words, event counters, fuel)
changes, in every outcome. `C01_at` is also the clause of C08 about `at`. -/
namespace AmcVerif.Props.C01
open AmcVerif
variable {α : Type} {cfg : Cfg} {Ok : VB → Prop}

/-- `at(i)` returns the `i`-th element when `i < size()` and throws `std::out_of_range` otherwise; the memory is unchanged in
    both cases -/
theorem C01_at (m : Mem α) (c : Nat) (xs : List α) (w : VB) (i : Nat) (h : VRepW cfg Ok c m xs w) :
    Post (atIdx cfg c i) m (fun res m' =>
      (∀ hi : i < xs.length, res = .ok xs[i]) ∧ (xs.length ≤ i → res = .error (.exc .outOfRange)) ∧ m' = m) :=
  atIdx_post m c xs w i h

/-- `operator[](i)` under its precondition `i < size()`: the `i`-th element, no fault, nothing changes -/
theorem C01_index (m : Mem α) (c : Nat) (xs : List α) (w : VB) (i : Nat) (h : VRepW cfg Ok c m xs w) (hi : i < xs.length) :
    Post (index cfg c i) m (fun res m' => res = .ok xs[i] ∧ m' = m) := index_ok m c xs w i h hi

/-- … and outside of it (undefined behaviour in C++, an `assert` in the source) the model faults: no element is invented.
    `hnb`: a container of capacity 0 has no buffer -/
theorem C01_index_precondition (m : Mem α) (c : Nat) (xs : List α) (w : VB) (i : Nat) (h : VRepW cfg Ok c m xs w) (hi : xs.length ≤ i)
    (hnb : cfg.ops.capacity w = 0 → m.buf (regionOf cfg c w) = none) :
    Post (index cfg c i) m (fun res m' => (∃ f, res = .error (.fault f)) ∧ m' = m) := index_fault m c xs w i h hi hnb

/-- `front()` / `back()` of a non-empty container: the first / last element -/
theorem C01_front (m : Mem α) (c : Nat) (xs : List α) (w : VB) (h : VRepW cfg Ok c m xs w) (hne : xs ≠ []) :
    Post (front cfg c) m (fun res m' => res = .ok (xs.head hne) ∧ m' = m) := front_ok m c xs w h hne

theorem C01_back (m : Mem α) (c : Nat) (xs : List α) (w : VB) (h : VRepW cfg Ok c m xs w) (hne : xs ≠ []) :
    Post (back cfg c) m (fun res m' => res = .ok (xs.getLast hne) ∧ m' = m) := back_ok m c xs w h hne

/-- `data()` is `begin()`: the address of slot 0 of the region the elements live in -/
theorem C01_data (m : Mem α) (c : Nat) (xs : List α) (w : VB) (h : VRepW cfg Ok c m xs w) :
    Post (dataPtr cfg c) m (fun res m' => res = .ok ⟨regionOf cfg c w, 0⟩ ∧ m' = m) := dataPtr_post m c xs w h

/-- `empty()` returns true exactly when the container holds no element -/
theorem C01_empty (m : Mem α) (c : Nat) (xs : List α) (w : VB) (h : VRepW cfg Ok c m xs w) :
    Post (isEmpty cfg c) m (fun res m' => (∃ b, res = .ok b ∧ (b = true ↔ xs = [])) ∧ m' = m) := by
  refine Post.mono (isEmpty_post m c xs w h) ?_
  rintro res m' ⟨hr, hm⟩
  exact ⟨⟨_, hr, List.isEmpty_iff⟩, hm⟩

/-- `max_size()` is the flavour's limit (`numeric_limits<size_type>::max()` for `amc::vector` / `SmallVector`, the capacity for
    `FixedCapacityVector`), and `size() ≤ capacity() ≤ max_size() ≤ numeric_limits<size_type>::max()` -/
theorem C01_max_size (L : VecLaws α cfg Ok) (m : Mem α) (c : Nat) (xs : List α) (w : VB) (h : VRepW cfg Ok c m xs w) :
    Post (maxSize cfg c) m (fun res m' =>
      res = .ok (if cfg.dynamic then cfg.ops.kMax else cfg.ops.capacity w) ∧
      xs.length ≤ cfg.ops.capacity w ∧ cfg.ops.capacity w ≤ (if cfg.dynamic then cfg.ops.kMax else cfg.ops.capacity w) ∧
      (if cfg.dynamic then cfg.ops.kMax else cfg.ops.capacity w) ≤ cfg.ops.kMax ∧ m' = m) :=
  maxSize_post L.size m c xs w h

/-- `*this == o` (two containers of one memory, possibly the same one): equal sizes and element-wise `==` -/
theorem C01_equal (eqT : α → α → Bool) (m : Mem α) (c d : Nat) (xs ys : List α) (w wd : VB)
    (h : VRepW cfg Ok c m xs w) (hd : VRepW cfg Ok d m ys wd) :
    Post (vecEqual eqT cfg c d) m (fun res m' =>
      res = .ok (if xs.length = ys.length then stdEqual eqT xs ys else false) ∧ m' = m) := vecEqual_post eqT m c d xs ys w wd h hd

/-- … which, for an element `==` that is equality, is equality of the two sequences -/
theorem C01_equal_lawful [DecidableEq α] (eqT : α → α → Bool) (heq : ∀ a b, eqT a b = true ↔ a = b) (m : Mem α) (c d : Nat)
    (xs ys : List α) (w wd : VB) (h : VRepW cfg Ok c m xs w) (hd : VRepW cfg Ok d m ys wd) :
    Post (vecEqual eqT cfg c d) m (fun res m' => res = .ok (decide (xs = ys)) ∧ m' = m) := by
  refine Post.mono (vecEqual_post eqT m c d xs ys w wd h hd) ?_
  rintro res m' ⟨hr, hm⟩
  exact ⟨by rw [hr, eqSpec_decide eqT heq], hm⟩

theorem C01_not_equal_lawful [DecidableEq α] (eqT : α → α → Bool) (heq : ∀ a b, eqT a b = true ↔ a = b) (m : Mem α) (c d : Nat)
    (xs ys : List α) (w wd : VB) (h : VRepW cfg Ok c m xs w) (hd : VRepW cfg Ok d m ys wd) :
    Post (vecNotEqual eqT cfg c d) m (fun res m' => res = .ok (decide (xs ≠ ys)) ∧ m' = m) := by
  refine Post.mono (vecNotEqual_post eqT m c d xs ys w wd h hd) ?_
  rintro res m' ⟨hr, hm⟩
  exact ⟨by rw [hr, eqSpec_decide eqT heq]; simp, hm⟩

/-- `*this < o`: `std::lexicographical_compare` of the two sequences with the element `<` -/
theorem C01_less (ltT : α → α → Bool) (m : Mem α) (c d : Nat) (xs ys : List α) (w wd : VB)
    (h : VRepW cfg Ok c m xs w) (hd : VRepW cfg Ok d m ys wd) :
    Post (vecLess ltT cfg c d) m (fun res m' => res = .ok (stdLexLt ltT xs ys) ∧ m' = m) := vecLess_post ltT m c d xs ys w wd h hd

/-- … which, for an element `<` that is a strict total order, is the lexicographic order of the sequences (`List.Lex`: a proper
    prefix is smaller; at the first difference the elements decide) -/
theorem C01_less_lex (ltT : α → α → Bool) (hasym : ∀ a b, ltT a b = true → ltT b a = false)
    (htot : ∀ a b, ltT a b = false → ltT b a = false → a = b) (m : Mem α) (c d : Nat) (xs ys : List α) (w wd : VB)
    (h : VRepW cfg Ok c m xs w) (hd : VRepW cfg Ok d m ys wd) :
    Post (vecLess ltT cfg c d) m (fun res m' =>
      (∃ b, res = .ok b ∧ (b = true ↔ List.Lex (fun x y => ltT x y = true) xs ys)) ∧ m' = m) := by
  refine Post.mono (vecLess_post ltT m c d xs ys w wd h hd) ?_
  rintro res m' ⟨hr, hm⟩
  exact ⟨⟨_, hr, stdLexLt_iff ltT hasym htot xs ys⟩, hm⟩

/-- `>`, `<=`, `>=` are `o < *this`, `!(o < *this)`, `!(*this < o)` -/
theorem C01_greater (ltT : α → α → Bool) (m : Mem α) (c d : Nat) (xs ys : List α) (w wd : VB)
    (h : VRepW cfg Ok c m xs w) (hd : VRepW cfg Ok d m ys wd) :
    Post (vecGreater ltT cfg c d) m (fun res m' => res = .ok (stdLexLt ltT ys xs) ∧ m' = m) := vecGreater_post ltT m c d xs ys w wd h hd
theorem C01_less_eq (ltT : α → α → Bool) (m : Mem α) (c d : Nat) (xs ys : List α) (w wd : VB)
    (h : VRepW cfg Ok c m xs w) (hd : VRepW cfg Ok d m ys wd) :
    Post (vecLessEq ltT cfg c d) m (fun res m' => res = .ok (!stdLexLt ltT ys xs) ∧ m' = m) := vecLessEq_post ltT m c d xs ys w wd h hd
theorem C01_greater_eq (ltT : α → α → Bool) (m : Mem α) (c d : Nat) (xs ys : List α) (w wd : VB)
    (h : VRepW cfg Ok c m xs w) (hd : VRepW cfg Ok d m ys wd) :
    Post (vecGreaterEq ltT cfg c d) m (fun res m' => res = .ok (!stdLexLt ltT xs ys) ∧ m' = m) := vecGreaterEq_post ltT m c d xs ys w wd h hd

/-- on naturals (the element type of the executable driver) the two comparisons are `==` and `<` of lists: what the `cmp` step of
    the correspondence check prints -/
theorem C01_compare_nat (xs ys : List Nat) :
    (if xs.length = ys.length then stdEqual (fun a b => a == b) xs ys else false) = (xs == ys) ∧
    stdLexLt (fun a b => decide (a < b)) xs ys = decide (xs < ys) := ⟨stdEqual_nat xs ys, stdLexLt_nat xs ys⟩

/- the functions these theorems are about are the ones regenerated from `vectorcommon.hpp` -/
theorem C01_access_generated :
    @Gen.Glue.atIdx α = atIdx ∧ @Gen.Glue.index α = index ∧ @Gen.Glue.front α = front ∧ @Gen.Glue.back α = back ∧
    @Gen.Glue.dataPtr α = dataPtr ∧ @Gen.Glue.isEmpty α = isEmpty ∧
    (∀ cfg c, maxSize (α := α) cfg c = if cfg.dynamic then Gen.Glue.dynMaxSize cfg c else Gen.Glue.staticMaxSize cfg c) ∧
    @Gen.Glue.vecEqual α = vecEqual ∧ @Gen.Glue.vecNotEqual α = vecNotEqual ∧ @Gen.Glue.vecLess α = vecLess ∧
    @Gen.Glue.vecLessEq α = vecLessEq ∧ @Gen.Glue.vecGreater α = vecGreater ∧ @Gen.Glue.vecGreaterEq α = vecGreaterEq :=
  ⟨GlueBridge.atIdx_eq, GlueBridge.index_eq, GlueBridge.front_eq, GlueBridge.back_eq, GlueBridge.dataPtr_eq, GlueBridge.isEmpty_eq,
   GlueBridge.maxSize_eq, GlueBridge.vecEqual_eq, GlueBridge.vecNotEqual_eq, GlueBridge.vecLess_eq, GlueBridge.vecLessEq_eq,
   GlueBridge.vecGreater_eq, GlueBridge.vecGreaterEq_eq⟩

/-! The hypotheses are satisfiable: two closed `FixedCapacityVector<_, 2>` holding `[7, 8]` and `[7, 9]` (`ExampleAcc.mem`). -/

example : Post (atIdx Example.exCfg 0 1) ExampleAcc.mem (fun res m' => res = .ok 8 ∧ m' = ExampleAcc.mem) := by
  refine Post.mono (C01_at ExampleAcc.mem 0 [7, 8] ExampleAcc.w2 1 ExampleAcc.rep0) ?_
  rintro res m' ⟨h1, _, hm⟩; exact ⟨h1 (by decide), hm⟩

example : Post (atIdx Example.exCfg 0 2) ExampleAcc.mem (fun res m' => res = .error (.exc .outOfRange) ∧ m' = ExampleAcc.mem) := by
  refine Post.mono (C01_at ExampleAcc.mem 0 [7, 8] ExampleAcc.w2 2 ExampleAcc.rep0) ?_
  rintro res m' ⟨_, h2, hm⟩; exact ⟨h2 (by decide), hm⟩

example : Post (index Example.exCfg 1 1) ExampleAcc.mem (fun res m' => res = .ok 9 ∧ m' = ExampleAcc.mem) :=
  C01_index ExampleAcc.mem 1 [7, 9] ExampleAcc.w2 1 ExampleAcc.rep1 (by decide)

example : Post (index Example.exCfg 1 2) ExampleAcc.mem (fun res m' => (∃ f, res = .error (.fault f)) ∧ m' = ExampleAcc.mem) :=
  C01_index_precondition ExampleAcc.mem 1 [7, 9] ExampleAcc.w2 2 ExampleAcc.rep1 (by decide) (fun h => by cases h)

example : Post (front Example.exCfg 0) ExampleAcc.mem (fun res m' => res = .ok 7 ∧ m' = ExampleAcc.mem) :=
  C01_front ExampleAcc.mem 0 [7, 8] ExampleAcc.w2 ExampleAcc.rep0 (by simp)

example : Post (back Example.exCfg 0) ExampleAcc.mem (fun res m' => res = .ok 8 ∧ m' = ExampleAcc.mem) :=
  C01_back ExampleAcc.mem 0 [7, 8] ExampleAcc.w2 ExampleAcc.rep0 (by simp)

example : Post (maxSize Example.exCfg 0) ExampleAcc.mem (fun res m' => res = .ok 2 ∧ m' = ExampleAcc.mem) := by
  refine Post.mono (C01_max_size (Bridge.U8.fixed_vecLaws Nat Example.exCfg rfl rfl rfl) ExampleAcc.mem 0 [7, 8] ExampleAcc.w2 ExampleAcc.rep0) ?_
  rintro res m' ⟨h1, _, _, _, hm⟩; exact ⟨h1, hm⟩

example : Post (vecEqual (fun a b => a == b) Example.exCfg 0 1) ExampleAcc.mem (fun res m' => res = .ok false ∧ m' = ExampleAcc.mem) :=
  C01_equal_lawful _ (by simp) ExampleAcc.mem 0 1 [7, 8] [7, 9] _ _ ExampleAcc.rep0 ExampleAcc.rep1

example : Post (vecEqual (fun a b => a == b) Example.exCfg 0 0) ExampleAcc.mem (fun res m' => res = .ok true ∧ m' = ExampleAcc.mem) :=
  C01_equal_lawful _ (by simp) ExampleAcc.mem 0 0 [7, 8] [7, 8] _ _ ExampleAcc.rep0 ExampleAcc.rep0

example : Post (vecLess (fun a b => decide (a < b)) Example.exCfg 0 1) ExampleAcc.mem (fun res m' => res = .ok true ∧ m' = ExampleAcc.mem) :=
  C01_less _ ExampleAcc.mem 0 1 [7, 8] [7, 9] _ _ ExampleAcc.rep0 ExampleAcc.rep1

end AmcVerif.Props.C01
