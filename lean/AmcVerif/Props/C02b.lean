import AmcVerif.Lemmas.VecOpSpecs
import AmcVerif.Lemmas.VecOpsC
import AmcVerif.Lemmas.HelperPosts
import AmcVerif.Lemmas.VecLifecycle
/-! C02 (container level) — elements are destroyed exactly once and relocated only as their type allows.

In the slot model a buffer slot is `raw` (no object), `live v` or `hollow` (alive, moved-from), and every element primitive checks
the C++ lifetime precondition of the operation it models: constructing over an alive object (a lost element), destroying or
assigning a dead one (a double destroy), reading a dead or moved-from one, move-assigning an object onto itself, or moving an
object of a non-relocatable type byte-wise is a `Fault`. "No operation ever ends in `.error (.fault _)`" is therefore the
lifetime discipline of the property, and `VRep` after every operation says that exactly the `size()` visible elements are alive,
none of them moved-from, and nothing else in the buffer is alive. -/
namespace AmcVerif.Props.C02
open AmcVerif
variable {α : Type} {cfg : Cfg} {Ok : VB → Prop}

/-- no history of the listed operations — whatever throws along the way — ever commits a lifetime fault (`res = .ok ()`: the only
    way `runHist` fails is a fault), and at the end exactly the represented elements are alive in the container's buffer -/
theorem C02_history_no_fault (L : VecLaws α cfg Ok) (c : Nat) (ops : List (OpSpec α)) (hops : ∀ o ∈ ops, IsVecOp cfg o) (m : Mem α)
    (xs : List α) (hv : VRep cfg Ok c m xs) (hi : HInv m) (hs : Safe cfg ops xs) (hcat : ∀ o ∈ ops, o.nonTC = true → m.cat ≠ .tc) :
    Post (runHist cfg c ops) m (fun res m' => res = .ok () ∧ ∃ ys, VRep cfg Ok c m' ys) := by
  refine Post.mono (vector_history L c ops hops m xs hv hi hs hcat _ (Owned.start cfg c hi.fresh)) ?_
  rintro res m' ⟨hr, ys, _, hv', _⟩
  exact ⟨hr, ys, hv'⟩

/-- what `VRep` says about object lifetimes: the first `size()` slots hold live, not moved-from objects and every other slot of the
    buffer holds no object -/
theorem C02_rep_lifetimes (c : Nat) (m : Mem α) (xs : List α) (w : VB) (h : VRepW cfg Ok c m xs w) (hc : 0 < cfg.ops.capacity w) :
    ∃ b, m.buf (regionOf cfg c w) = some b ∧ b.take xs.length = xs.map Slot.live ∧ (∀ s ∈ b.drop xs.length, s = Slot.raw) := by
  rcases h.buf with h0 | hb
  · omega
  · refine ⟨_, hb, ?_, ?_⟩
    · simp [lives]
    · intro s hs
      simp only [lives, List.drop_append, List.length_map, Nat.sub_self, List.drop_zero] at hs
      have : (List.drop xs.length (xs.map Slot.live)) = [] := by simp
      rw [this] at hs
      simp only [raws, List.nil_append, List.mem_replicate] at hs
      exact hs.2

/-- the slot a one-element shift opens is uninitialised for byte-wise relocatable types and a moved-from-but-alive object for
    the others, and `shift_right` / `shift_left` agree on it (the paired `enable_if` overloads stay consistent) -/
theorem C02_shift_right_left (m : Mem α) (r : Region) (pre post : List (Slot α)) (xs : List α) (hx : xs ≠ [])
    (h : m.buf r = some (pre ++ lives xs ++ .raw :: post)) :
    Post (do shiftRight1 ⟨r, pre.length⟩ xs.length; shiftLeft ⟨r, pre.length + 1⟩ xs.length) m (OkSet m r (pre ++ lives xs ++ .raw :: post)) := by
  refine Post.bind (shiftRight1_post m r pre post xs hx h) ?_ (by rintro e m1 ⟨he, _⟩; cases he)
  rintro _ m1 ⟨_, hb1, hk1⟩
  have h1 : m1.buf r = some (pre ++ gapSlot m1.cat :: lives xs ++ post) := by rw [hb1, hk1.cat]; simp
  refine Post.mono (shiftLeft_post m1 r pre post xs hx h1) ?_
  rintro res m2 ⟨hr, hb2, hk2⟩
  exact ⟨hr, by rw [hb2, hb1]; simp, hk1.trans hk2⟩

/-- erase: the erased objects are destroyed exactly once, the tail is moved down, the vacated slots hold no object -/
theorem C02_erase_n (m : Mem α) (r : Region) (pre post : List (Slot α)) (del xs : List α) (hn : del ≠ [])
    (h : m.buf r = some (pre ++ lives del ++ lives xs ++ post)) :
    Post (eraseN ⟨r, pre.length⟩ del.length xs.length) m (OkSet m r (pre ++ lives xs ++ raws del.length ++ post)) :=
  eraseN_post m r pre post del xs hn h

/-- destruction: the heap block (if any) is returned, the inline storage holds no object, no other region is touched — when the
    container is gone none of its elements remains alive -/
theorem C02_destruct (m : Mem α) (c : Nat) (xs : List α) (w : VB) (h : VRepW cfg Ok c m xs w) (hd : DtorSpec cfg w) :
    Post (destruct cfg c) m (fun res m' => res = .ok ()
      ∧ (∀ id, regionOf cfg c w = .blk id → 0 < cfg.ops.capacity w → m'.buf (.blk id) = none ∧ m'.cnt id = none)
      ∧ (regionOf cfg c w = .inl c → 0 < cfg.ops.capacity w → m'.buf (.inl c) = some (raws (cfg.ops.capacity w)))
      ∧ (∀ r', r' ≠ regionOf cfg c w → m'.buf r' = m.buf r')
      ∧ m'.ws = m.ws.set c (cfg.ops.dtor w).1 ∧ m'.cat = m.cat ∧ m'.hasRealloc = m.hasRealloc ∧ m'.nextId = m.nextId
      ∧ (∀ id, (m'.buf (.blk id)).isSome → (m.buf (.blk id)).isSome)) :=
  destruct_post m c xs w h hd

/-- a SmallVector that is destroyed leaves its inline storage empty in both states (inline or heap) -/
theorem C02_destruct_small {P : Nat → Prop} (hfl : cfg.flavour = .small) (L : SmallLaws cfg.ops cfg.n)
    (m : Mem α) (c : Nat) (xs : List α) (w : VB) (h : VRepW cfg (SOkP P cfg.ops cfg.n) c m xs w) :
    Post (destruct cfg c) m (fun res m' => res = .ok ()
      ∧ (∀ id, regionOf cfg c w = .blk id → 0 < cfg.ops.capacity w → m'.buf (.blk id) = none ∧ m'.cnt id = none)
      ∧ m'.buf (.inl c) = some (raws cfg.n)
      ∧ (∀ r', r' ≠ regionOf cfg c w → m'.buf r' = m.buf r')
      ∧ m'.ws = m.ws.set c (cfg.ops.dtor w).1 ∧ m'.cat = m.cat ∧ m'.hasRealloc = m.hasRealloc ∧ m'.nextId = m.nextId
      ∧ (∀ id, (m'.buf (.blk id)).isSome → (m.buf (.blk id)).isSome)) :=
  destruct_small hfl L m c xs w h

/-- the whole life of a `SmallVector` (construct; any safe history of the listed operations, continued after every exception;
    destroy), seen from the elements: when the container is gone none of its elements remains alive. Every region it ever used —
    its inline storage and every heap block allocated during its life (identifier `≥ m0.nextId`) — holds no object (the inline
    storage is all raw, the blocks no longer exist), and every other region is exactly as it was before the container existed, so
    no element survives anywhere else either; never a lifetime fault. -/
theorem C02_lifecycle_no_element_left (hfl : cfg.flavour = .small) (L : SmallLaws cfg.ops cfg.n)
    (hs : ∀ old n exact r, cfg.ops.safeNext old n exact = .ok r → (exact = true → n ≤ cfg.ops.kMax) → n ≤ r ∧ r ≤ cfg.ops.kMax)
    (hck : ∀ c m, c ≤ m → cfg.ops.check c m = .ok []) (hce : ∀ c m, m < c → cfg.ops.check c m = .error .outOfRange)
    (c : Nat) (ops : List (OpSpec α)) (hops : ∀ o ∈ ops, IsVecOp cfg o) (m0 : Mem α)
    (hi : HInv m0) (hc : c < m0.ws.length) (hraw : m0.buf (.inl c) = some (raws cfg.n)) (h0 : m0.buf (.blk 0) = none)
    (hsafe : Safe cfg ops []) (hcat : ∀ o ∈ ops, o.nonTC = true → m0.cat ≠ .tc) :
    Post (do construct cfg c; runHist cfg c ops; destruct cfg c) m0 (fun res m' => res = .ok ()
      ∧ (∀ r, (r = .inl c ∨ ∃ id, r = .blk id ∧ m0.nextId ≤ id) → ∀ b, m'.buf r = some b → ∀ s ∈ b, s = Slot.raw)
      ∧ (∀ r, ¬ (r = .inl c ∨ ∃ id, r = .blk id ∧ m0.nextId ≤ id) → m'.buf r = m0.buf r)) := by
  refine Post.mono (lifecycle_small hfl L hs hck hce c ops hops m0 hi hc hraw h0 hsafe hcat) ?_
  rintro res m' ⟨hr, hblk, hoth, hinl⟩
  refine ⟨hr, ?_, ?_⟩
  · rintro r (rfl | ⟨id, rfl, hge⟩) b hb s hs
    · rw [hinl] at hb; injection hb with hb; subst hb
      exact List.eq_of_mem_replicate hs
    · rw [hblk id hge] at hb; cases hb
  · intro r hn
    refine hoth r (fun id hid => ?_) (fun h => hn (Or.inl h))
    rcases Nat.lt_or_ge id m0.nextId with h1 | h1
    · exact h1
    · exact absurd (Or.inr ⟨id, hid, h1⟩) hn

/-- the same for `amc::vector` (no inline storage: the regions it ever used are the heap blocks allocated during its life) -/
theorem C02_lifecycle_no_element_left_vector (hfl : cfg.flavour = .std) (L : StdLaws cfg.ops)
    (hctor : cfg.ops.ctor cfg.n = ⟨0, 0, PtrV.null⟩)
    (hdtor : ∀ t, (cfg.ops.dtor t).2 = if t.dyn ≠ PtrV.null then [Eff.dealloc t.dyn t.capa] else [])
    (c : Nat) (ops : List (OpSpec α)) (hops : ∀ o ∈ ops, IsVecOp cfg o) (m0 : Mem α)
    (hi : HInv m0) (hc : c < m0.ws.length) (h0 : m0.buf (.blk 0) = none)
    (hsafe : Safe cfg ops []) (hcat : ∀ o ∈ ops, o.nonTC = true → m0.cat ≠ .tc) :
    Post (do construct cfg c; runHist cfg c ops; destruct cfg c) m0 (fun res m' => res = .ok ()
      ∧ (∀ id, m0.nextId ≤ id → ∀ b, m'.buf (.blk id) = some b → ∀ s ∈ b, s = Slot.raw)
      ∧ (∀ r, r ≠ .inl c → (∀ id, r = .blk id → id < m0.nextId) → m'.buf r = m0.buf r)) := by
  refine Post.mono (lifecycle_std hfl L hctor hdtor c ops hops m0 hi hc h0 hsafe hcat) ?_
  rintro res m' ⟨hr, hblk, hoth⟩
  refine ⟨hr, ?_, fun r hne hold => hoth r hold hne⟩
  intro id hge b hb
  rw [hblk id hge] at hb; cases hb

end AmcVerif.Props.C02
