import AmcVerif.Props.C04e
/-! C04 (merge) — what `SmallSet::merge` does to the ELEMENTS of the two sets, for every pair of states (inline / large on either
side, incl. the target growing in the middle of the call), as a specification that `std::set::merge` satisfies too:
the target keeps its elements and receives `moved`, the source keeps `kept`, `moved ++ kept` is a permutation of the source's
elements, no moved element had an equivalent in the target before the call, every kept element has an equivalent in the target after
it, and the target satisfies the invariant (so it holds no two equivalent elements).  `C04_gen_merge` (C04b) ties the generated
`merge` to the model function this is proved about. -/
namespace AmcVerif.Props.C04
open AmcVerif AmcVerif.FS AmcVerif.Sets AmcVerif.Bridge.SmallSet
variable {α : Type} {lt : α → α → Bool}

/-- the loop shared by both arms of `merge`: try to insert each source element into the target, keep it in the source when an
    equivalent element is already there -/
def mergeLoop {T : Type} (ins : T → α → T × Bool) (src : List α) (t : T) (kept : List α) : T × List α :=
  src.foldl (fun (acc : T × List α) v => if (ins acc.1 v).2 then ((ins acc.1 v).1, acc.2) else (acc.1, acc.2 ++ [v])) (t, kept)

theorem mergeLoop_spec {T : Type} (ins : T → α → T × Bool) (el : T → List α) (I : T → Prop)
    (hI : ∀ t v, I t → I (ins t v).1)
    (hT : ∀ t v, I t → (ins t v).2 = true → (el (ins t v).1).Perm (v :: el t))
    (hF : ∀ t v, I t → ((ins t v).2 = false ↔ HasEquiv lt (el t) v)) :
    ∀ (src : List α) (t : T) (kept : List α), I t →
      I (mergeLoop ins src t kept).1 ∧ ∃ moved, (el (mergeLoop ins src t kept).1).Perm (moved ++ el t)
        ∧ (moved ++ (mergeLoop ins src t kept).2).Perm (src ++ kept)
        ∧ (∀ x ∈ moved, ¬ HasEquiv lt (el t) x)
        ∧ (∀ x ∈ (mergeLoop ins src t kept).2, x ∈ kept ∨ HasEquiv lt (el (mergeLoop ins src t kept).1) x) := by
  intro src
  induction src with
  | nil => intro t kept h; exact ⟨h, [], by simp [mergeLoop], by simp [mergeLoop], by simp, fun x hx => Or.inl (by simpa [mergeLoop] using hx)⟩
  | cons v src ih =>
    intro t kept h
    cases hb : (ins t v).2 with
    | true =>
      have e : mergeLoop ins (v :: src) t kept = mergeLoop ins src (ins t v).1 kept := by simp [mergeLoop, hb]
      rw [e]
      obtain ⟨hi, moved, p1, p2, hm, hk⟩ := ih (ins t v).1 kept (hI t v h)
      have hp := hT t v h hb
      refine ⟨hi, v :: moved, ?_, ?_, ?_, hk⟩
      · exact (p1.trans (List.Perm.append_left moved hp)).trans (by simp)
      · simpa using List.Perm.cons v p2
      · intro x hx
        rcases List.mem_cons.mp hx with rfl | hx'
        · intro he; have := (hF t x h).mpr he; rw [hb] at this; cases this
        · intro ⟨y, hy, he⟩
          exact hm x hx' ⟨y, hp.mem_iff.mpr (List.mem_cons_of_mem _ hy), he⟩
    | false =>
      have e : mergeLoop ins (v :: src) t kept = mergeLoop ins src t (kept ++ [v]) := by simp [mergeLoop, hb]
      rw [e]
      obtain ⟨hi, moved, p1, p2, hm, hk⟩ := ih t (kept ++ [v]) h
      refine ⟨hi, moved, p1, ?_, hm, ?_⟩
      · refine p2.trans ?_
        rw [← List.append_assoc]
        simpa using List.perm_append_singleton v (src ++ kept)
      · intro x hx
        rcases hk x hx with hx' | hx'
        · rcases List.mem_append.mp hx' with h1 | h1
          · exact Or.inl h1
          · right
            have : x = v := by simpa using h1
            subst this
            obtain ⟨y, hy, he⟩ := (hF t x h).mp hb
            exact ⟨y, p1.mem_iff.mpr (List.mem_append_right _ hy), he⟩
        · exact Or.inr hx'

/-- the element-level contract of `merge` -/
structure MergeSpec (lt : α → α → Bool) (tgt src tgt' src' : List α) : Prop where
  moved_kept : ∃ moved, tgt'.Perm (moved ++ tgt) ∧ (moved ++ src').Perm src ∧ (∀ x ∈ moved, ¬ HasEquiv lt tgt x)
  kept_equiv : ∀ x ∈ src', HasEquiv lt tgt' x

/-- `FlatSet::merge` / the large-source arm: `mergeFrom` on a strictly increasing target -/
theorem mergeFrom_spec (hswo : SWO lt) (l o : List α) (hs : Sorted lt l) :
    Sorted lt (mergeFrom lt l o).1 ∧ MergeSpec lt l o (mergeFrom lt l o).1 (mergeFrom lt l o).2 := by
  have e : mergeFrom lt l o = mergeLoop (fun t v => ((insertVal lt t v).1, (insertVal lt t v).2.2)) o l [] := rfl
  rw [e]
  obtain ⟨hi, moved, p1, p2, hm, hk⟩ := mergeLoop_spec (lt := lt) (fun t v => ((insertVal lt t v).1, (insertVal lt t v).2.2)) id
    (Sorted lt) (fun t v h => insertVal_sorted hswo t h v) (fun t v _ hb => insertVal_perm t v hb)
    (fun t v h => insertVal_not_inserted_iff hswo t h v) o l [] hs
  exact ⟨hi, ⟨moved, p1, by simpa using p2, hm⟩, fun x hx => (hk x hx).resolve_left (by simp)⟩

/-- **`SmallSet::merge`**, all four state combinations: the target satisfies the invariant afterwards and the elements obey the
    `merge` contract -/
theorem C04_merge_spec (hswo : SWO lt) (N : Nat) (s o : SSet α) (h : s.Inv lt N) :
    (s.merge lt N o).1.Inv lt N ∧ MergeSpec lt s.elems o.elems (s.merge lt N o).1.elems (s.merge lt N o).2.elems := by
  unfold SSet.merge
  cases hos : o.isSmall with
  | false =>
    have hoe : o.elems = o.set := by simp [SSet.elems, hos]
    simp only [Bool.not_false, ↓reduceIte, elems_mk_set]
    rw [hoe]
    by_cases hs : s.isSmall = true
    · simp only [hs, ↓reduceIte]
      have hg := grow_inv hswo N s h
      have hp := grow_perm hswo N s h hs
      have hel : s.elems = s.vec := by simp [SSet.elems, hs]
      obtain ⟨hsort, ⟨moved, p1, p2, hm⟩, hk⟩ := mergeFrom_spec hswo (s.grow lt).set o.set hg.1.sorted
      refine ⟨⟨fun _ => rfl, by simp, by simp [NoEquivDup], hsort⟩, ⟨moved, ?_, p2, ?_⟩, hk⟩
      · rw [hel]; exact p1.trans (List.Perm.append_left moved hp)
      · intro x hx he; rw [hel] at he; exact hm x hx ((hasEquiv_perm hp x).mpr he)
    · have hs' : s.isSmall = false := by simpa using hs
      have hel : s.elems = s.set := by simp [SSet.elems, hs']
      simp only [hs', Bool.false_eq_true, ↓reduceIte]
      obtain ⟨hsort, hspec, hk⟩ := mergeFrom_spec hswo s.set o.set h.sorted
      rw [hel]
      exact ⟨⟨fun _ => rfl, by simp, by simp [NoEquivDup], hsort⟩, hspec, hk⟩
  | true =>
    have hoe : o.elems = o.vec := by simp [SSet.elems, hos]
    simp only [Bool.not_true, Bool.false_eq_true, ↓reduceIte, elems_mk_vec]
    rw [hoe]
    obtain ⟨hi, moved, p1, p2, hm, hk⟩ := mergeLoop_spec (lt := lt)
      (fun (t : SSet α) v => ((t.insert lt N v).1, (t.insert lt N v).2.2.1)) SSet.elems (SSet.Inv lt N)
      (fun t v ht => insert_inv hswo N t ht v) (fun t v ht hb => (insert_elems hswo N t ht v).1 hb)
      (fun t v ht => insert_not_inserted_iff hswo N t ht v) o.vec s [] h
    simp only [mergeLoop] at hi p1 p2 hk
    exact ⟨hi, ⟨moved, p1, by simpa using p2, hm⟩, fun x hx => (hk x hx).resolve_left (by simp)⟩

/-- on the code as generated from `smallset.hpp` -/
theorem C04_gen_merge_spec (hswo : SWO lt) (N : Nat) (s o : SSet α) (h : s.Inv lt N) (ho : o.set ≠ [] → o.vec = []) :
    ∃ r, Gen.SmallSet.merge lt N s o = some r ∧ r.1.Inv lt N ∧ MergeSpec lt s.elems o.elems r.1.elems r.2.1.elems := by
  obtain ⟨r, hg, e1, e2⟩ := C04_gen_merge hswo N s o h ho
  obtain ⟨hi, hsp⟩ := C04_merge_spec hswo N s o h
  exact ⟨r, hg, e1 ▸ hi, e1 ▸ e2 ▸ hsp⟩

/-- the premises are satisfiable (an inline target at capacity, a two-element inline source: the call grows the target) -/
example : ∃ r, Gen.SmallSet.merge exLt 1 ⟨[5], []⟩ ⟨[7, 5], []⟩ = some r ∧ r.1.Inv exLt 1
    ∧ MergeSpec exLt [5] [7, 5] r.1.elems r.2.1.elems :=
  C04_gen_merge_spec exLt_swo 1 ⟨[5], []⟩ ⟨[7, 5], []⟩ ⟨fun h => absurd rfl h, by simp, by simp [NoEquivDup], by simp [Sorted]⟩ (by simp)

end AmcVerif.Props.C04
