import AmcVerif.Props.C04e
import AmcVerif.Lemmas.MergeContract
/-! C04 (merge) — what `SmallSet::merge` does to the ELEMENTS of the two sets, for every pair of states (inline / large on either
side, incl. the target growing in the middle of the call), as a specification that `std::set::merge` satisfies too:
the target keeps its elements and receives `moved`, the source keeps `kept`, `moved ++ kept` is a permutation of the source's
elements, no moved element had an equivalent in the target before the call, every kept element has an equivalent in the target after
it, and the target satisfies the invariant (so it holds no two equivalent elements).  `C04_gen_merge` (C04b) ties the generated
`merge` to the model function this is proved about. -/
namespace AmcVerif.Props.C04
open AmcVerif AmcVerif.FS AmcVerif.Sets AmcVerif.Bridge.SmallSet
variable {α : Type} {lt : α → α → Bool}

/-- **`SmallSet::merge`**, all four state combinations: the target satisfies the invariant afterwards and the elements obey the
    `merge` contract -/
theorem C04_merge_spec (hswo : SWO lt) (N : Nat) (s o : SSet α) (h : s.Inv lt N) :
    (s.merge lt N o).1.Inv lt N ∧ MergeSpec lt s.elems o.elems (s.merge lt N o).1.elems (s.merge lt N o).2.elems := by
  unfold SSet.merge
  cases hos : o.isSmall with
  | false =>
    have hoe : o.elems = o.set := by simp [SSet.elems, hos]
    simp only [Bool.not_false, ↓reduceIte, elems_mk_set]
    rw [hoe]
    by_cases hs : s.isSmall = true
    · simp only [hs, ↓reduceIte]
      have hg := grow_inv hswo N s h
      have hp := grow_perm hswo N s h hs
      have hel : s.elems = s.vec := by simp [SSet.elems, hs]
      obtain ⟨hsort, ⟨moved, p1, p2, hm⟩, hk⟩ := mergeFrom_spec hswo (s.grow lt).set o.set hg.1.sorted
      refine ⟨⟨fun _ => rfl, by simp, by simp [NoEquivDup], hsort⟩, ⟨moved, ?_, p2, ?_⟩, hk⟩
      · rw [hel]; exact p1.trans (List.Perm.append_left moved hp)
      · intro x hx he; rw [hel] at he; exact hm x hx ((hasEquiv_perm hp x).mpr he)
    · have hs' : s.isSmall = false := by simpa using hs
      have hel : s.elems = s.set := by simp [SSet.elems, hs']
      simp only [hs', Bool.false_eq_true, ↓reduceIte]
      obtain ⟨hsort, hspec, hk⟩ := mergeFrom_spec hswo s.set o.set h.sorted
      rw [hel]
      exact ⟨⟨fun _ => rfl, by simp, by simp [NoEquivDup], hsort⟩, hspec, hk⟩
  | true =>
    have hoe : o.elems = o.vec := by simp [SSet.elems, hos]
    simp only [Bool.not_true, Bool.false_eq_true, ↓reduceIte, elems_mk_vec]
    rw [hoe]
    obtain ⟨hi, moved, p1, p2, hm, hk⟩ := mergeLoop_spec (lt := lt)
      (fun (t : SSet α) v => ((t.insert lt N v).1, (t.insert lt N v).2.2.1)) SSet.elems (SSet.Inv lt N)
      (fun t v ht => insert_inv hswo N t ht v) (fun t v ht hb => (insert_elems hswo N t ht v).1 hb)
      (fun t v ht => insert_not_inserted_iff hswo N t ht v) o.vec s [] h
    simp only [mergeLoop] at hi p1 p2 hk
    exact ⟨hi, ⟨moved, p1, by simpa using p2, hm⟩, fun x hx => (hk x hx).resolve_left (by simp)⟩

/-- on the code as generated from `smallset.hpp` -/
theorem C04_gen_merge_spec (hswo : SWO lt) (N : Nat) (s o : SSet α) (h : s.Inv lt N) (ho : o.set ≠ [] → o.vec = []) :
    ∃ r, Gen.SmallSet.merge lt N s o = some r ∧ r.1.Inv lt N ∧ MergeSpec lt s.elems o.elems r.1.elems r.2.1.elems := by
  obtain ⟨r, hg, e1, e2⟩ := C04_gen_merge hswo N s o h ho
  obtain ⟨hi, hsp⟩ := C04_merge_spec hswo N s o h
  exact ⟨r, hg, e1 ▸ hi, e1 ▸ e2 ▸ hsp⟩

/-- the premises are satisfiable (an inline target at capacity, a two-element inline source: the call grows the target) -/
example : ∃ r, Gen.SmallSet.merge exLt 1 ⟨[5], []⟩ ⟨[7, 5], []⟩ = some r ∧ r.1.Inv exLt 1
    ∧ MergeSpec exLt [5] [7, 5] r.1.elems r.2.1.elems :=
  C04_gen_merge_spec exLt_swo 1 ⟨[5], []⟩ ⟨[7, 5], []⟩ ⟨fun h => absurd rfl h, by simp, by simp [NoEquivDup], by simp [Sorted]⟩ (by simp)

end AmcVerif.Props.C04
