import AmcVerif.Props.C04e
/-! C11 (after any history) — the walk `begin() … end()` of a SmallSet reached by ANY history of `insert` / `erase(key)` / `clear`
(generated members, `C04.runG`) from the empty set visits every element of the corresponding `std::set` (`C04.runA`) exactly once,
in either state; so does the reverse walk `rbegin() … rend()`.  The iteration sequence is `SSet.elems` (inline vector in insertion
order, or the backing set in comparator order); "exactly once" = it is a permutation of the strictly increasing list that is the
`std::set`, and no two of its entries are equivalent. -/
namespace AmcVerif.Props.C11
open AmcVerif AmcVerif.FS AmcVerif.Sets AmcVerif.Props.C04
variable {α : Type} {lt : α → α → Bool}

theorem C11_walk_after_history (hswo : SWO lt) (N : Nat) (ops : List (SOp α)) :
    ∃ s' outs, runG lt N ⟨[], []⟩ ops = some (s', outs)
      ∧ s'.elems.Perm (runA lt [] ops).1 ∧ s'.elems.reverse.Perm (runA lt [] ops).1
      ∧ NoEquivDup lt s'.elems ∧ s'.elems.length = (runA lt [] ops).1.length := by
  obtain ⟨s', outs, hg, hinv, _, hrep⟩ := C04_refines_from_empty hswo N ops
  exact ⟨s', outs, hg, hrep.2.symm, (List.reverse_perm _).trans hrep.2.symm, elems_nodup N s' hinv, hrep.2.length_eq.symm⟩

/-- the same from any state that satisfies the invariant, e.g. a large set drained to fewer than N elements -/
theorem C11_walk_after_history_from (hswo : SWO lt) (N : Nat) (ops : List (SOp α)) (s : SSet α) (a : List α) (h : s.Inv lt N)
    (hr : Rep lt s a) :
    ∃ s' outs, runG lt N s ops = some (s', outs) ∧ s'.elems.Perm (runA lt a ops).1 ∧ NoEquivDup lt s'.elems := by
  obtain ⟨s', outs, hg, hinv, _, hrep⟩ := C04_refines_history hswo N ops s a h hr
  exact ⟨s', outs, hg, hrep.2.symm, elems_nodup N s' hinv⟩

example : ∃ s' outs, runG exLt 2 ⟨[], []⟩ exOps = some (s', outs) ∧ s'.elems.Perm (runA exLt [] exOps).1 := by
  obtain ⟨s', outs, h, p, _⟩ := C11_walk_after_history exLt_swo 2 exOps
  exact ⟨s', outs, h, p⟩

end AmcVerif.Props.C11
