import AmcVerif.Props.Common
/-! C01 — vector flavours behave as std::vector (what is *proved*: the size bookkeeping of every operation shape
tracks std::vector's size through every history, over the generated words; what is *tied by correspondence*: element
sequences, return values and positions of the executable slot-level model against the real containers and against
std::vector on the same scripts — see DESIGN.md §6 C01 for the split). -/
namespace AmcVerif.Props.C01
open AmcVerif AmcVerif.Props
variable {ops : BaseOps} {N : Nat}

/-- for every history of operation shapes valid for std::vector, the decoded `size()` equals std::vector's size and
    the representation invariant (hence `empty()`, `capacity()`, inline/heap state decoding) holds at the end -/
def SizeTracksStmt (ops : BaseOps) (N : Nat) : Prop :=
  ∀ (hist : List WOp) (t : VB) (fresh : Nat), SRep N ops.kMax t → ValidHist ops (ops.size t) hist →
    ∀ (t' : VB) (effs : List Eff), wRun ops N t fresh hist = some (t', effs) →
      SRep N ops.kMax t' ∧ ops.size t' = specSizes (ops.size t) hist

theorem C01_size_tracks (L : SmallLaws ops N) (hk : ops.kMax < 2 ^ 62) : SizeTracksStmt ops N :=
  fun hist t fresh h hv t' effs hr => let s := wRun_spec L hk hist t fresh h hv t' effs hr; ⟨s.1, s.2.1⟩

/-- copy/move/swap between two vectors: sizes are exchanged / transferred as std::vector does -/
def BinarySizesStmt (ops : BaseOps) (N : Nat) : Prop :=
  ∀ (t o : VB), SRep N ops.kMax t → SRep N ops.kMax o →
    (ops.size (ops.moveAssign t o N).1 = ops.size o ∧ ops.size (ops.moveAssign t o N).2.1 = 0
      ∧ SRep N ops.kMax (ops.moveAssign t o N).1 ∧ SRep N ops.kMax (ops.moveAssign t o N).2.1)
    ∧ (ops.size (ops.moveConstruct t o N).1 = ops.size o ∧ ops.size (ops.moveConstruct t o N).2.1 = 0
      ∧ SRep N ops.kMax (ops.moveConstruct t o N).1 ∧ SRep N ops.kMax (ops.moveConstruct t o N).2.1)
    ∧ (ops.size (ops.swapImpl t o).1 = ops.size o ∧ ops.size (ops.swapImpl t o).2.1 = ops.size t
      ∧ SRep N ops.kMax (ops.swapImpl t o).1 ∧ SRep N ops.kMax (ops.swapImpl t o).2.1)

theorem C01_binary_sizes (L : SmallLaws ops N) : BinarySizesStmt ops N := by
  intro t o ht ho
  have ma := L.moveAssignRep t o ht ho
  have mc := L.moveConstruct t o ho
  have sw := L.swapImpl t o ht ho
  exact ⟨⟨ma.2.2.1, ma.2.2.2.1, ma.1, ma.2.1⟩, ⟨mc.2.2.1, mc.2.2.2.1, mc.1, mc.2.1⟩, ⟨sw.2.2.1, sw.2.2.2.1, sw.1, sw.2.1⟩⟩

theorem C01_size_tracks_U8 (N : Nat) (h : N < 255) (h0 : 0 < N) : SizeTracksStmt Gen.U8.svbOps N := C01_size_tracks (lawsU8 N h h0) kU8
theorem C01_size_tracks_U16 (N : Nat) (h : N < 65535) (h0 : 0 < N) : SizeTracksStmt Gen.U16.svbOps N := C01_size_tracks (lawsU16 N h h0) kU16
theorem C01_size_tracks_U32 (N : Nat) (h : N < 4294967295) (h0 : 0 < N) : SizeTracksStmt Gen.U32.svbOps N := C01_size_tracks (lawsU32 N h h0) kU32
theorem C01_binary_sizes_U8 (N : Nat) (h : N < 255) (h0 : 0 < N) : BinarySizesStmt Gen.U8.svbOps N := C01_binary_sizes (lawsU8 N h h0)
theorem C01_binary_sizes_U32 (N : Nat) (h : N < 4294967295) (h0 : 0 < N) : BinarySizesStmt Gen.U32.svbOps N := C01_binary_sizes (lawsU32 N h h0)
theorem C01_binary_sizes_U64 (N : Nat) (h : N < 18446744073709551615) (h0 : 0 < N) : BinarySizesStmt Gen.U64.svbOps N := C01_binary_sizes (lawsU64 N h h0)

/-- the amc::vector flavour (plain words) -/
theorem C01_dvb_sizes_U32 (t : VB) (h : Bridge.U32.DRep t) :
    (t.size < t.capa → (Gen.U32.DVB.incrSize t).size = t.size + 1) ∧ (0 < t.size → (Gen.U32.DVB.decrSize t).size + 1 = t.size)
      ∧ (∀ s, s ≤ t.capa → (Gen.U32.DVB.setSize t s).size = s) :=
  ⟨fun hr => (Bridge.U32.dvb_incr t h hr).2.1, fun hp => (Bridge.U32.dvb_decr t h hp).2.1,
   fun s hs => (Bridge.U32.dvb_setSize t h s hs).2.1⟩

example : SRep 3 4294967295 (Gen.U32.svbOps.ctor 3) := by decide

end AmcVerif.Props.C01
