import AmcVerif.Bridge.TraitsBridge
/-! C17b — the static contract, for the definitions GENERATED from the headers.

`Props/C17.lean` states the property over the hand-written formulas of `Model/Layout.lean`; here the main theorems are
restated for `Gen/TraitsGen.lean`, which translator/traits2lean.py produces from the C++ templates (and checks against
clang on a grid of instantiations).  Each `C17_gen_…` / `C14_gen_…` follows from the equality proofs of
`Bridge/TraitsBridge.lean`.  `c` is the language standard switch (`true`: the `#ifdef AMC_CXX14` arms), `sz` the
`sizeof` of element types: the statements hold for every value of both. -/
namespace AmcVerif.Props.C17
open AmcVerif AmcVerif.Layout
set_option linter.unusedSimpArgs false
set_option linter.unusedVariables false

/-! ## the trait -/

/-- the generated `is_trivially_relocatable<T>` (primary template): true exactly for a class declaring
`trivially_relocatable = std::true_type` and for an undeclared trivially copyable class; a declaration always wins over
copyability -/
theorem C17_gen_trait_bits (d : Option Bool) (tc : Bool) :
    Gen.Traits.isTriviallyRelocatable d tc = true ↔ (d = some true ∨ (d = none ∧ tc = true)) := by
  rw [Bridge.Traits.isTriviallyRelocatable_eq]; exact C17_trait_bits d tc

/-- the generated `std::pair` specialisation: relocatable iff both components are -/
theorem C17_gen_trait_pair (trT trU : Bool) :
    Gen.Traits.isTriviallyRelocatablePair trT trU = true ↔ (trT = true ∧ trU = true) := by
  rw [Bridge.Traits.isTriviallyRelocatablePair_eq]; simp [isTRPair]

/-- a `std::false_type` (or any other type) opts a trivially copyable class out; without declaration copyability decides -/
theorem C17_gen_opt_out (tc : Bool) :
    Gen.Traits.isTriviallyRelocatable (some false) tc = false ∧ Gen.Traits.isTriviallyRelocatable (some true) tc = true
    ∧ Gen.Traits.isTriviallyRelocatable none tc = tc := by
  cases tc <;> decide

/-- C17, first sentence, for the generated trait on classes and pairs: true exactly for types declaring `std::true_type`,
undeclared trivially copyable types, and pairs of relocatable types -/
theorem C17_gen_trait (c : Bool) (sz : Ty → Nat) (t : Ty) (h : Ty.plain t = true) :
    Gen.Traits.isTR c sz t = true ↔ Reloc t := by
  rw [Bridge.Traits.isTR_eq]; exact C17_trait t h

/-! ## conjunction rules of the containers (C17, and the trait-level claims of C14) -/

/-- each container's `trivially_relocatable` typedef, as the generated trait reads it, is the conjunction of its parts' -/
theorem C17_gen_conjunction (c : Bool) (sz : Ty → Nat) (t : Ty) (h : ∀ d tc, t ≠ .cls d tc) :
    Gen.Traits.isTR c sz t = t.parts.all (Gen.Traits.isTR c sz) := by
  rw [Bridge.Traits.isTR_eq_fun]; exact C17_conjunction t h

theorem C17_gen_conjunction_rules (c : Bool) (sz : Ty → Nat) (e cmp s : Ty) (N : Nat) :
    Gen.Traits.isTR c sz (Ty.vector e) = true
    ∧ Gen.Traits.isTR c sz (Ty.smallVector e (N + 1)) = Gen.Traits.isTR c sz e
    ∧ Gen.Traits.isTR c sz (Ty.smallVector e 0) = true
    ∧ Gen.Traits.isTR c sz (Ty.fixedCapacityVector e N) = Gen.Traits.isTR c sz e
    ∧ Gen.Traits.isTR c sz (Ty.flatSet cmp (.vector e)) = Gen.Traits.isTR c sz cmp
    ∧ Gen.Traits.isTR c sz (Ty.flatSet cmp (.smallVector e (N + 1))) = (Gen.Traits.isTR c sz cmp && Gen.Traits.isTR c sz e)
    ∧ Gen.Traits.isTR c sz (Ty.smallSet (.fixedCapacityVector e N) s) = (Gen.Traits.isTR c sz e && Gen.Traits.isTR c sz s) := by
  simp only [Bridge.Traits.isTR_eq]; exact C17_conjunction_rules e cmp s N

/-- C14 (trait level): the member typedefs themselves, as generated from the class hierarchy of `Vector` and from
FlatSet / SmallSet: which parts are conjoined -/
theorem C14_gen_typedefs (c trT a b : Bool) (sT N : Nat) :
    Gen.Traits.stdVectorTriviallyRelocatable c trT sT = true
    ∧ Gen.Traits.smallVectorTriviallyRelocatable c trT sT 0 = true
    ∧ Gen.Traits.smallVectorTriviallyRelocatable c trT sT (N + 1) = trT
    ∧ Gen.Traits.fixedCapacityVectorTriviallyRelocatable c trT sT N = trT
    ∧ Gen.Traits.flatSetTriviallyRelocatable a b = (a && b)
    ∧ Gen.Traits.smallSetTriviallyRelocatable a b = (a && b) := by
  rw [Bridge.Traits.stdVectorTriviallyRelocatable_eq, Bridge.Traits.smallVectorTriviallyRelocatable_eq,
    Bridge.Traits.smallVectorTriviallyRelocatable_eq, Bridge.Traits.fixedCapacityVectorTriviallyRelocatable_eq,
    Bridge.Traits.flatSetTriviallyRelocatable_eq, Bridge.Traits.smallSetTriviallyRelocatable_eq]
  simp [trVector, trSmallVector, trFixedCapacityVector, trFlatSet, trSmallSet]

/-- a FlatSet whose vector is not relocatable is not relocatable, whatever the comparator (the conjunct seed C14_1 drops) -/
theorem C14_gen_flatset_needs_vector (trCompare : Bool) : Gen.Traits.flatSetTriviallyRelocatable trCompare false = false := by
  cases trCompare <;> rfl

/-! ## noexcept -/

/-- move construction, move assignment and swap of `Vector` are noexcept exactly under the documented conditions -/
theorem C17_gen_noexcept (N : Nat) (e : ElemTraits) :
    (Gen.Traits.vectorMoveCtorNoexcept e N = true ↔ (N = 0 ∨ e.tr = true ∨ e.nothrowMoveCtor = true))
    ∧ (Gen.Traits.vectorMoveCtorAllocNoexcept e N = true ↔ (N = 0 ∨ e.tr = true ∨ e.nothrowMoveCtor = true))
    ∧ (Gen.Traits.vectorMoveAssignNoexcept e N = true ↔
        (N = 0 ∨ e.tr = true ∨ (e.nothrowMoveCtor = true ∧ e.nothrowMoveAssign = true)))
    ∧ (Gen.Traits.vectorSwapNoexcept e N = true ↔ (N = 0 ∨ (e.nothrowMoveCtor = true ∧ e.nothrowSwappable = true)))
    ∧ (Gen.Traits.vectorFreeSwapNoexcept e N = true ↔ (N = 0 ∨ (e.nothrowMoveCtor = true ∧ e.nothrowSwappable = true))) := by
  rw [Bridge.Traits.vectorMoveCtorNoexcept_eq, Bridge.Traits.vectorMoveCtorAllocNoexcept_eq,
    Bridge.Traits.vectorMoveAssignNoexcept_eq, Bridge.Traits.vectorSwapNoexcept_eq, Bridge.Traits.vectorFreeSwapNoexcept_eq]
  have h := C17_noexcept (N == 0) e
  simp only [beq_iff_eq] at h
  exact ⟨h.1, h.1, h.2.1, h.2.2, h.2.2⟩

/-- what `Vector` promises is what the member of the base class it calls promises: always for a SmallVector / vector,
and for a FixedCapacityVector with N ≠ 0.  (For `FixedCapacityVector<T, 0>` the operations of `Vector` are declared
`noexcept(true)` while `StaticVectorBase::move_construct / move_assign / swap_impl` keep the element's condition: they
then act on 0 elements.) -/
theorem C17_gen_noexcept_backed (c dyn : Bool) (e : ElemTraits) (sT N : Nat) (h : dyn = true ∨ N ≠ 0) :
    Gen.Traits.vectorBaseMoveConstructNoexcept c e dyn sT N = Gen.Traits.vectorMoveCtorNoexcept e N
    ∧ Gen.Traits.vectorBaseMoveAssignNoexcept c e dyn sT N = Gen.Traits.vectorMoveAssignNoexcept e N
    ∧ Gen.Traits.vectorBaseSwapImplNoexcept c e dyn sT N = Gen.Traits.vectorSwapNoexcept e N := by
  cases dyn with
  | true =>
    obtain ⟨h1, h2, h3⟩ := Bridge.Traits.vectorBase_dyn c e sT N
    rw [h1, h2, h3]; exact ⟨rfl, rfl, rfl⟩
  | false =>
    have hN : N ≠ 0 := by rcases h with h | h; cases h; exact h
    obtain ⟨h1, h2, h3⟩ := Bridge.Traits.vectorBase_static c e sT N
    rw [h1, h2, h3, Bridge.Traits.vectorMoveCtorNoexcept_eq, Bridge.Traits.vectorMoveAssignNoexcept_eq,
      Bridge.Traits.vectorSwapNoexcept_eq]
    simp [moveCtorNoexcept, moveAssignNoexcept, swapNoexcept, hN]

/-- the promise is never stronger than the callee's except in that one case: an implication in general -/
theorem C17_gen_noexcept_callee_implies (c dyn : Bool) (e : ElemTraits) (sT N : Nat) :
    (Gen.Traits.vectorBaseMoveConstructNoexcept c e dyn sT N = true → Gen.Traits.vectorMoveCtorNoexcept e N = true)
    ∧ (Gen.Traits.vectorBaseMoveAssignNoexcept c e dyn sT N = true → Gen.Traits.vectorMoveAssignNoexcept e N = true)
    ∧ (Gen.Traits.vectorBaseSwapImplNoexcept c e dyn sT N = true → Gen.Traits.vectorSwapNoexcept e N = true) := by
  cases dyn with
  | true =>
    obtain ⟨h1, h2, h3⟩ := Bridge.Traits.vectorBase_dyn c e sT N
    rw [h1, h2, h3]; exact ⟨id, id, id⟩
  | false =>
    obtain ⟨h1, h2, h3⟩ := Bridge.Traits.vectorBase_static c e sT N
    rw [h1, h2, h3, Bridge.Traits.vectorMoveCtorNoexcept_eq, Bridge.Traits.vectorMoveAssignNoexcept_eq,
      Bridge.Traits.vectorSwapNoexcept_eq]
    simp only [moveCtorNoexcept, moveAssignNoexcept, swapNoexcept, Bool.or_eq_true]
    exact ⟨Or.inr, Or.inr, Or.inr⟩

/-- the helper functions that shift elements never throw for a relocatable type (memmove overload) -/
theorem C17_gen_shift_noexcept (e : ElemTraits) (h : e.tr = true) :
    Gen.Traits.shiftRight2Noexcept e = true ∧ Gen.Traits.shiftRight3Noexcept e = true
    ∧ Gen.Traits.shiftLeftNoexcept e = true ∧ Gen.Traits.uninitializedShiftLeftNoexcept e = true := by
  obtain ⟨h1, h2, h3, h4, _⟩ := Bridge.Traits.shift_noexcept e
  rw [h1, h2, h3, h4]; simp [isShiftNothrow, h]

/-- `CanReallocate`: `realloc` only for an allocator that provides `reallocate` AND a relocatable value type
(seeds C02_1 / C06_2 drop the first conjunct) -/
theorem C17_gen_can_reallocate (trValueType hasReallocate : Bool) :
    Gen.Traits.canReallocate trValueType hasReallocate = true ↔ (trValueType = true ∧ hasReallocate = true) := by
  simp [Bridge.Traits.canReallocate_eq]

/-! ## layout -/

theorem ValidElem.pos {sT aT : Nat} (he : ValidElem sT aT) : 0 < sT ∧ 0 < aT := by
  obtain ⟨h0, ha, _⟩ := he
  refine ⟨h0, ?_⟩
  simp at ha; omega

/-- `sizeof(amc::vector<T, Alloc, S>)` and its alignment -/
theorem C17_gen_vector_size (c : Bool) (sT aT : Nat) :
    Gen.Traits.stdVectorSA c sT aT 1 = ⟨16, 8⟩ ∧ Gen.Traits.stdVectorSA c sT aT 2 = ⟨16, 8⟩
    ∧ Gen.Traits.stdVectorSA c sT aT 4 = ⟨16, 8⟩ ∧ Gen.Traits.stdVectorSA c sT aT 8 = ⟨24, 8⟩ := by
  simp only [Bridge.Traits.stdVectorSA_eq]; exact C17_vector_size

/-- C17, size sentence, for the generated layout under both arms of the `#if` ladders -/
theorem C17_gen_size (c : Bool) (sT aT N sS : Nat) (he : ValidElem sT aT) (hs : ValidSizeType sS) :
    (N * sT ≤ 8 → (Gen.Traits.smallVectorSA c sT aT sS N).size ≤ (Gen.Traits.stdVectorSA c sT aT sS).size)
    ∧ (8 < N * sT → (Gen.Traits.smallVectorSA c sT aT sS N).size
          ≤ (Gen.Traits.stdVectorSA c sT aT sS).size + N * sT + padBound aT) := by
  rw [Bridge.Traits.smallVectorSA_eq c sT aT sS N (Or.inr he.pos.1) he.pos.2, Bridge.Traits.stdVectorSA_eq]
  exact C17_size sT aT N sS he hs

/-- FixedCapacityVector: header, `max N 1` slots, less than one alignment unit of padding -/
theorem C17_gen_fcv_size (c : Bool) (sT aT N sS : Nat) (he : ValidElem sT aT) (hs : ValidSizeType sS) :
    fixedCapacityVectorBufOffset aT sS + max N 1 * sT ≤ (Gen.Traits.fixedCapacityVectorSA c sT aT sS N).size
    ∧ (Gen.Traits.fixedCapacityVectorSA c sT aT sS N).size < fixedCapacityVectorBufOffset aT sS + max N 1 * sT + max aT sS
    ∧ (Gen.Traits.fixedCapacityVectorSA c sT aT sS N).align = max aT sS := by
  rw [Bridge.Traits.fixedCapacityVectorSA_eq c sT aT sS N he.pos.2]
  exact C17_fcv_size sT aT N sS he hs

/-- alignment of a SmallVector with inline elements -/
theorem C17_gen_small_align (c : Bool) (sT aT N sS : Nat) (he : ValidElem sT aT) (hs : ValidSizeType sS) (hN0 : 0 < N) :
    (Gen.Traits.smallVectorSA c sT aT sS N).align = max aT 8 := by
  rw [Bridge.Traits.smallVectorSA_eq c sT aT sS N (Or.inr he.pos.1) he.pos.2]
  exact C17_small_align sT aT N sS he hs hN0

/-- the inline buffer holds N elements -/
theorem C17_gen_inline_fits_small (c : Bool) (sT aT N sS : Nat) (he : ValidElem sT aT) (hs : ValidSizeType sS) (hN : 0 < N) :
    smallVectorBufOffset aT sS + N * sT ≤ (Gen.Traits.smallVectorSA c sT aT sS N).size := by
  rw [Bridge.Traits.smallVectorSA_eq c sT aT sS N (Or.inr he.pos.1) he.pos.2]
  exact C17_inline_fits_small sT aT N sS he hs hN

/-- both arms of the `#ifdef AMC_CXX14` ladders give the same layout -/
theorem C17_gen_ladder_arms (sT aT sS N : Nat) (h0 : 0 < sT) (ha : 0 < aT) :
    Gen.Traits.kNbSlots false sT = Gen.Traits.kNbSlots true sT
    ∧ Gen.Traits.elemWithPtrStorage false sT aT = Gen.Traits.elemWithPtrStorage true sT aT
    ∧ Gen.Traits.smallVectorSA false sT aT sS N = Gen.Traits.smallVectorSA true sT aT sS N := by
  refine ⟨?_, ?_, ?_⟩
  · rw [Bridge.Traits.kNbSlots_eq false sT (Or.inr h0), Bridge.Traits.kNbSlots_eq true sT (Or.inl rfl)]
  · rw [Bridge.Traits.elemWithPtrStorage_eq false sT aT (Or.inr h0), Bridge.Traits.elemWithPtrStorage_eq true sT aT (Or.inl rfl)]
  · rw [Bridge.Traits.smallVectorSA_eq false sT aT sS N (Or.inr h0) ha,
      Bridge.Traits.smallVectorSA_eq true sT aT sS N (Or.inl rfl) ha]

/-- `SmallestSizeType<N>` -/
theorem C17_gen_sizetype_smallest (N : Nat) (hN : N < 2 ^ 64) :
    Gen.Traits.smallestSizeType N ∈ [1, 2, 4, 8]
    ∧ N ≤ umax (Gen.Traits.smallestSizeType N)
    ∧ ∀ b ∈ [1, 2, 4, 8], N ≤ umax b → Gen.Traits.smallestSizeType N ≤ b := by
  rw [Bridge.Traits.smallestSizeType_eq]; exact C17_sizetype_smallest N hN

/-! ## triviality of the destructor -/

/-- `FixedCapacityVector<T, N>` is trivially destructible exactly when T is, for every N including 0 -/
theorem C17_gen_trivial_dtor (c td : Bool) (sT N : Nat) :
    (!Gen.Traits.fixedCapacityVectorHasUserDestructor c td sT N) = td := by
  rw [Bridge.Traits.fixedCapacityVectorHasUserDestructor_eq]; exact C17_trivial_dtor N td

-- non-vacuity: the generated functions compute (SmallVector<char, 8>, a 9-byte element, an over-aligned element)
example : (Gen.Traits.smallVectorSA true 1 1 4 8).size = 16 ∧ (Gen.Traits.stdVectorSA true 1 1 4).size = 16 := by decide
example : (Gen.Traits.smallVectorSA false 9 1 4 2).size = 40 ∧ (Gen.Traits.fixedCapacityVectorSA true 3 1 1 7).size = 23 := by decide
example : Gen.Traits.isTR true (fun _ => 4) (.smallSet (.fixedCapacityVector (.cls none true) 5)
    (.flatSet (.cls none true) (.vector (.cls none true)))) = true := by decide
example : Gen.Traits.isTR false (fun _ => 4) (.flatSet (.cls none false) (.vector (.cls none true))) = false := by decide

end AmcVerif.Props.C17
