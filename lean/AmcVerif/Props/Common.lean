import AmcVerif.Lemmas.Growth
import AmcVerif.Bridge.SmallLawsU8
import AmcVerif.Bridge.SmallLawsU16
import AmcVerif.Bridge.SmallLawsU32
import AmcVerif.Bridge.SmallLawsU64
/-! Instances shared by the property files: the generated SmallVectorBase members of each size type satisfy the
word laws (`Bridge/`), so every theorem stated over `SmallLaws ops N` holds for the code as it is now. -/
namespace AmcVerif.Props
open AmcVerif

instance (N k : Nat) (t : VB) : Decidable (SRep N k t) := by unfold SRep; infer_instance

abbrev lawsU8 (N : Nat) (h : N < 255) (h0 : 0 < N) : SmallLaws Gen.U8.svbOps N := Bridge.U8.svb_laws N h h0
abbrev lawsU16 (N : Nat) (h : N < 65535) (h0 : 0 < N) : SmallLaws Gen.U16.svbOps N := Bridge.U16.svb_laws N h h0
abbrev lawsU32 (N : Nat) (h : N < 4294967295) (h0 : 0 < N) : SmallLaws Gen.U32.svbOps N := Bridge.U32.svb_laws N h h0
abbrev lawsU64 (N : Nat) (h : N < 18446744073709551615) (h0 : 0 < N) : SmallLaws Gen.U64.svbOps N :=
  Bridge.U64.svb_laws N h h0

theorem kU8 : Gen.U8.svbOps.kMax < 2 ^ 62 := by decide
theorem kU16 : Gen.U16.svbOps.kMax < 2 ^ 62 := by decide
theorem kU32 : Gen.U32.svbOps.kMax < 2 ^ 62 := by decide

end AmcVerif.Props
