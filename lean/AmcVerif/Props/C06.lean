import AmcVerif.Props.Common
/-! C06 — allocator protocol (word level + generated effect lists): the capacity word is the only record of the count
passed to `allocate`; every generated member that returns or re-obtains a block passes exactly the decoded capacity
(and, for reallocation, the decoded size as the live-element count); hand-over paths adopt the other block without an
allocator call. The allocator ledger of the harness (pointer -> count, exact-size checking, four allocator kinds)
observes the same protocol on the real containers after every operation and at drain. -/
namespace AmcVerif.Props.C06
open AmcVerif AmcVerif.Props
variable {ops : BaseOps} {N : Nat}

/-- the destructor returns the block, with its true capacity, exactly when the vector is heap-backed -/
theorem C06_dtor (L : SmallLaws ops N) (t : VB) :
    (ops.dtor t).2 = if ops.isSmall t then [] else [Eff.dealloc t.dyn (ops.capacity t)] := L.dtor t

/-- growth: one `allocate(newCapacity)` when leaving the inline state, otherwise one reallocation that is given the
    true old capacity and the true live-element count; the new capacity word is the count that was requested -/
theorem C06_grow (L : SmallLaws ops N) (t : VB) (h : SRep N ops.kMax t) (minSize : Nat) (exact : Bool) (fresh r : Nat)
    (hr : ops.safeNext (ops.capacity t) minSize exact = .ok r) :
    ops.grow t minSize exact fresh = .ok (⟨r, ops.size t, PtrV.blk (fresh + 0)⟩,
      growEffs (ops.isSmall t) t (ops.size t) (ops.capacity t) r fresh) := L.growOk t h minSize exact fresh r hr

/- the remaining hand-over paths, stated on the generated definitions of each size type -/
theorem C06_move_assign_steal_U8 (N : Nat) (hN : N < 255) (hN0 : 0 < N) (t o : VB) (ht : SRep N 255 t) (ho : SRep N 255 o)
    (hoL : Gen.U8.SVB.isSmall o = false) :
    (Gen.U8.SVB.move_assign t o N).2.2 = (if Gen.U8.SVB.isSmall t then [Eff.destroyN (PtrV.inl 0) (Gen.U8.SVB.size t), Eff.setDyn 0]
      else [Eff.destroyN t.dyn (Gen.U8.SVB.size t), Eff.dealloc t.dyn (Gen.U8.SVB.capacity t), Eff.setDyn 0]) :=
  Bridge.U8.moveAssign_steal_effs N hN hN0 t o ht ho hoL
theorem C06_move_assign_steal_U32 (N : Nat) (hN : N < 4294967295) (hN0 : 0 < N) (t o : VB) (ht : SRep N 4294967295 t)
    (ho : SRep N 4294967295 o) (hoL : Gen.U32.SVB.isSmall o = false) :
    (Gen.U32.SVB.move_assign t o N).2.2 = (if Gen.U32.SVB.isSmall t then [Eff.destroyN (PtrV.inl 0) (Gen.U32.SVB.size t), Eff.setDyn 0]
      else [Eff.destroyN t.dyn (Gen.U32.SVB.size t), Eff.dealloc t.dyn (Gen.U32.SVB.capacity t), Eff.setDyn 0]) :=
  Bridge.U32.moveAssign_steal_effs N hN hN0 t o ht ho hoL
/-- the block of a too small stolen buffer is returned with its true capacity (the V19 path) -/
theorem C06_move_assign_release_U32 (N : Nat) (hN : N < 4294967295) (hN0 : 0 < N) (t o : VB) (ht : SRep N 4294967295 t)
    (ho : SRep N 4294967295 o) (hoS : Gen.U32.SVB.isSmall o = true) (htL : Gen.U32.SVB.isSmall t = false)
    (hcap : Gen.U32.SVB.capacity t < Gen.U32.SVB.size o) :
    (Gen.U32.SVB.move_assign t o N).2.2 = [Eff.destroyN t.dyn (Gen.U32.SVB.size t), Eff.dealloc t.dyn (Gen.U32.SVB.capacity t),
      Eff.moveN (PtrV.inl 1) (Gen.U32.SVB.size o) (PtrV.inl 0) 0] :=
  Bridge.U32.moveAssign_release_effs N hN hN0 t o ht ho hoS htL hcap
theorem C06_shrink_U32 (N : Nat) (hN : N < 4294967295) (t : VB) (h : SRep N 4294967295 t) (fresh : Nat) :
    type_of% (Bridge.U32.shrinkImpl_effs N hN t h fresh) :=
  Bridge.U32.shrinkImpl_effs N hN t h fresh
theorem C06_shrink_U8 (N : Nat) (hN : N < 255) (t : VB) (h : SRep N 255 t) (fresh : Nat) :
    type_of% (Bridge.U8.shrinkImpl_effs N hN t h fresh) :=
  Bridge.U8.shrinkImpl_effs N hN t h fresh
/-- move construction and swap of two heap-backed vectors: no allocator call, no element operation -/
theorem C06_steal_U32 (N : Nat) (hN : N < 4294967295) (t o : VB) (ht : SRep N 4294967295 t) (ho : SRep N 4294967295 o)
    (htL : Gen.U32.SVB.isSmall t = false) (hoL : Gen.U32.SVB.isSmall o = false) :
    type_of% (Bridge.U32.steal_effs N hN t o ht ho htL hoL) :=
  Bridge.U32.steal_effs N hN t o ht ho htL hoL
theorem C06_steal_U64 (N : Nat) (hN : N < 18446744073709551615) (t o : VB) (ht : SRep N 18446744073709551615 t)
    (ho : SRep N 18446744073709551615 o) (htL : Gen.U64.SVB.isSmall t = false) (hoL : Gen.U64.SVB.isSmall o = false) :
    type_of% (Bridge.U64.steal_effs N hN t o ht ho htL hoL) :=
  Bridge.U64.steal_effs N hN t o ht ho htL hoL
/-- amc::vector -/
theorem C06_vector_U32 (t : VB) (minSize fresh r : Nat) (hr : Gen.U32.SafeNextCapacity t.capa minSize false = .ok r) :
    type_of% (Bridge.U32.dvb_effs t minSize fresh r hr) :=
  Bridge.U32.dvb_effs t minSize fresh r hr

theorem C06_dtor_U32 (N : Nat) (h : N < 4294967295) (h0 : 0 < N) (t : VB) :
    (Gen.U32.svbOps.dtor t).2 = if Gen.U32.svbOps.isSmall t then [] else [Eff.dealloc t.dyn (Gen.U32.svbOps.capacity t)] :=
  C06_dtor (lawsU32 N h h0) t

example : SRep 3 4294967295 ⟨8, 5, PtrV.blk 2⟩ ∧ Gen.U32.SVB.isSmall ⟨8, 5, PtrV.blk 2⟩ = false := by decide

end AmcVerif.Props.C06
