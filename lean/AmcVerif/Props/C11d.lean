import AmcVerif.Props.C11c
/-! C11 (`find`) — the iterator returned by the generated `find` is an iterator of the container in use, equals `end()` exactly when
no element is equivalent to the key, and OTHERWISE DEREFERENCES TO AN ELEMENT EQUIVALENT TO THE KEY (the clause of C11 that had no
theorem: `C04_gen_find` only said when it is `end()`); and the idiom `it = find(k); if (it != end()) erase(it);` refines
`std::set::erase(k)` in either state, incl. the fall-back of a large set to the inline state. -/
namespace AmcVerif.Props.C11
open AmcVerif AmcVerif.FS AmcVerif.Sets AmcVerif.Bridge.SmallSet AmcVerif.Props.C04
variable {α : Type} {lt : α → α → Bool}

theorem find_model_designates (hswo : SWO lt) (N : Nat) (s : SSet α) (h : s.Inv lt N) (k : α) (i : Nat)
    (hf : (s.find lt k).1 = some i) : ∃ y, s.elems[i]? = some y ∧ Equiv lt y k := by
  unfold SSet.find at hf
  by_cases hs : s.isSmall = true
  · have hel : s.elems = s.vec := by simp [SSet.elems, hs]
    simp only [hs, ↓reduceIte] at hf
    have hspec := findSmall_spec lt s.vec k 0
    rw [hf] at hspec
    obtain ⟨_, y, hy, he⟩ := hspec
    exact ⟨y, by rw [hel]; simpa using hy, he⟩
  · have hs' : s.isSmall = false := by simpa using hs
    have hel : s.elems = s.set := by simp [SSet.elems, hs']
    simp only [hs', Bool.false_eq_true, ↓reduceIte] at hf
    rw [hel]
    exact AmcVerif.FSPool.findC_some_equiv hswo s.set h.sorted k i hf

/-- the generated `find` -/
theorem C11_gen_find_designates (hswo : SWO lt) (N : Nat) (s : SSet α) (h : s.Inv lt N) (k : α) :
    ∃ r, Gen.SmallSet.find lt N s k = some r ∧ r.1.1 = s.isSmall
      ∧ (r.1.2 = s.elems.length ↔ ¬ HasEquiv lt s.elems k)
      ∧ (r.1.2 ≠ s.elems.length → r.1.2 < s.elems.length ∧ ∃ y, s.elems[r.1.2]? = some y ∧ Equiv lt y k) := by
  obtain ⟨r, hg, hsm, hiff⟩ := C04_gen_find hswo N s h k
  refine ⟨r, hg, hsm, ?_, ?_⟩
  · constructor
    · intro he hh; exact (hiff.mpr hh) he
    · intro hn; exact Classical.byContradiction fun hne => hn (hiff.mp hne)
  · intro hne
    rw [find_eq] at hg
    have hr : r = findR lt s k := (Option.some.inj hg).symm
    subst hr
    simp only [findR] at hne ⊢
    cases hf : (s.find lt k).1 with
    | none => rw [hf] at hne; simp at hne
    | some i =>
      simp only [Option.getD_some]
      obtain ⟨y, hy, he⟩ := find_model_designates hswo N s h k i hf
      have hlt : i < s.elems.length := by
        rcases Nat.lt_or_ge i s.elems.length with h1 | h1
        · exact h1
        · rw [List.getElem?_eq_none h1] at hy; cases hy
      exact ⟨hlt, y, hy, he⟩

/-- erasing an element equivalent to `k` from the `std::set` is erasing `k` -/
theorem eraseKey_equiv_key (hswo : SWO lt) (a : List α) (hs : Sorted lt a) (x k : α) (hx : Equiv lt x k) :
    (eraseKey lt a x).1 = (eraseKey lt a k).1 ∧ (eraseKey lt a x).2.1 = (eraseKey lt a k).2.1 := by
  have hnd : NoEquivDup lt a := List.Pairwise.imp (fun {p q} hpq he => by rw [he.1] at hpq; cases hpq) hs
  have s1 := AmcVerif.FSPool.eraseKey_sorted' a hs x
  have s2 := AmcVerif.FSPool.eraseKey_sorted' a hs k
  rcases eraseKey_spec hswo a hs x with ⟨c1, y, hy, p1⟩ | ⟨c0, hno, e0⟩
  · rcases eraseKey_spec hswo a hs k with ⟨d1, y', hy', q1⟩ | ⟨_, hno', _⟩
    · refine ⟨?_, by rw [c1, d1]⟩
      have hp := perm_erase_unique hswo hnd p1 q1 (equiv_trans hswo hy hx) hy'
      exact List.Perm.eq_of_pairwise (le := fun p q => lt p q = true)
        (fun p q _ _ hpq hqp => by rw [hswo.asymm hpq] at hqp; cases hqp) s1 s2 hp
    · exact absurd ⟨y, p1.mem_iff.mpr List.mem_cons_self, equiv_trans hswo hy hx⟩ hno'
  · rcases eraseKey_spec hswo a hs k with ⟨_, y', hy', q1⟩ | ⟨d0, _, f0⟩
    · exact absurd ⟨y', q1.mem_iff.mpr List.mem_cons_self, equiv_trans hswo hy' (equiv_symm hx)⟩ hno
    · exact ⟨by rw [e0, f0], by rw [c0, d0]⟩

/-- `it = find(k); if (it != end()) erase(it);` refines `std::set::erase(k)` -/
theorem C11_find_then_erase (hswo : SWO lt) (N : Nat) (s : SSet α) (h : s.Inv lt N) (a : List α) (hr : Rep lt s a) (k : α) :
    ∃ f, Gen.SmallSet.find lt N s k = some f ∧
      ((f.1.2 = s.elems.length ∧ (eraseKey lt a k).2.1 = 0 ∧ Rep lt s (eraseKey lt a k).1)
       ∨ (f.1.2 ≠ s.elems.length ∧ ∃ r, Gen.SmallSet.erase_at_ptr lt N s f.1 = some r
            ∧ Gen.SmallSet.erase_at_var lt N s f.1 = some r ∧ r.1.Inv lt N
            ∧ (eraseKey lt a k).2.1 = 1 ∧ Rep lt r.1 (eraseKey lt a k).1)) := by
  obtain ⟨f, hg, hsm, hend, hdes⟩ := C11_gen_find_designates hswo N s h k
  refine ⟨f, hg, ?_⟩
  by_cases he : f.1.2 = s.elems.length
  · left
    have hno := hend.mp he
    rcases eraseKey_spec hswo a hr.1 k with ⟨_, y', hy', q1⟩ | ⟨d0, _, f0⟩
    · exact absurd ((hasEquiv_perm hr.2 k).mp ⟨y', q1.mem_iff.mpr List.mem_cons_self, hy'⟩) hno
    · exact ⟨he, d0, by rw [f0]; exact hr⟩
  · right
    obtain ⟨hlt, y, hy, hyk⟩ := hdes he
    obtain ⟨r, x, g1, g2, hx, hi, hc, hrep⟩ := C04_refine_erase_at hswo N s h a hr f.1.2 hlt
    have hxy : x = y := by rw [hx] at hy; exact Option.some.inj hy
    subst hxy
    have hpos : f.1 = (s.isSmall, f.1.2) := by rw [← hsm]
    obtain ⟨e1, e2⟩ := eraseKey_equiv_key hswo a hr.1 x k hyk
    refine ⟨he, r, by rw [hpos]; exact g1, by rw [hpos]; exact g2, hi, by rw [← e2]; exact hc, by rw [← e1]; exact hrep⟩

end AmcVerif.Props.C11
