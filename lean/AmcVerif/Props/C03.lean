import AmcVerif.Lemmas.HintC
/-! C03 — FlatSet is observationally a std::set. Proved on the list model over an arbitrary strict weak order given by
the comparator *object* of the set (the model has no other comparator to call): every operation keeps the sequence
strictly sorted (hence duplicate-free up to equivalence), `insert` inserts iff no equivalent element is present and
then changes nothing else, lookups find an element iff an equivalent one is present, bulk insertion equals inserting
the elements one by one in input order (first equivalent kept, as std::set). Element sequences, returned booleans,
counts, bounds and node behaviour of the real FlatSet are tied to this model and to std::set by correspondence. -/
namespace AmcVerif.Props.C03
open AmcVerif.FS AmcVerif.Sets
variable {α : Type} {lt : α → α → Bool}

/-- the invariant: strictly increasing under the stored comparator, preserved by every mutator of the model -/
theorem C03_inv (hswo : SWO lt) (l : List α) (hs : Sorted lt l) (v : α) (vs : List α) (i h : Nat) (hh : h ≤ l.length) :
    Sorted lt (insertVal lt l v).1 ∧ Sorted lt (insertValC lt l v).1 ∧ Sorted lt (insertHintC lt l h v).1
    ∧ Sorted lt (insertAll lt l vs) ∧ Sorted lt (l.eraseIdx i) ∧ Sorted lt (eraseKey lt l v).1 := by
  have e1 : (insertValC lt l v).1 = (insertVal lt l v).1 := congrArg Prod.fst (insertValC_eq hswo l hs v)
  have e2 : (insertHintC lt l h v).1 = (insertVal lt l v).1 :=
    (congrArg Prod.fst (insertHintC_proj hswo l hs h hh v)).trans (congrArg Prod.fst (insertHint_eq_insertVal hswo l hs h hh v))
  refine ⟨insertVal_sorted hswo l hs v, by rw [e1]; exact insertVal_sorted hswo l hs v,
    by rw [e2]; exact insertVal_sorted hswo l hs v, insertAll_sorted hswo vs l hs, eraseIdx_sorted l hs i, ?_⟩
  unfold eraseKey
  cases hf : findC lt l v with
  | mk o c => cases o <;> simp <;> first | exact hs | exact eraseIdx_sorted l hs _

/-- `insert(v)` as std::set: inserted iff no equivalent element present; the other elements are untouched; an
    unsuccessful insert changes nothing; the designated element is equivalent to `v` -/
theorem C03_insert (hswo : SWO lt) (l : List α) (hs : Sorted lt l) (v : α) :
    ((insertVal lt l v).2.2 = false ↔ ∃ x ∈ l, Equiv lt x v)
    ∧ ((insertVal lt l v).2.2 = false → (insertVal lt l v).1 = l)
    ∧ (∀ x, x ∈ (insertVal lt l v).1 ↔ x ∈ l ∨ ((insertVal lt l v).2.2 = true ∧ x = v))
    ∧ (∃ y, (insertVal lt l v).1[(insertVal lt l v).2.1]? = some y ∧ Equiv lt y v) :=
  ⟨insertVal_not_inserted_iff hswo l hs v, insertVal_noop l v, insertVal_mem l v, insertVal_designates hswo l v⟩

/-- the counted model that is run against the implementation computes exactly this `insert` -/
theorem C03_insert_model (hswo : SWO lt) (l : List α) (hs : Sorted lt l) (v : α) :
    ((insertValC lt l v).1, (insertValC lt l v).2.1, (insertValC lt l v).2.2.1) = insertVal lt l v :=
  insertValC_eq hswo l hs v

/-- `find` / `contains` / `count` / `equal_range`: an element is found iff an equivalent one is present -/
theorem C03_find (hswo : SWO lt) (l : List α) (hs : Sorted lt l) (k : α) :
    (∃ i, (findC lt l k).1 = some i ∧ ∃ y, l[i]? = some y ∧ Equiv lt y k) ↔ ∃ x ∈ l, Equiv lt x k :=
  findC_some_iff hswo l hs k

/-- `lower_bound` returns the partition point of the sorted sequence -/
theorem C03_lower_bound (hswo : SWO lt) (l : List α) (hs : Sorted lt l) (v : α) :
    (lowerBound lt l v 0 l.length).1 = lowerIdx lt l v := lowerBound_eq_lowerIdx hswo l hs v

/-- an `insert(node)` that meets an equivalent element leaves the set unchanged (the node keeps its value: the model's
    `xfer` re-inserts it where it came from; the real node state is compared with std::set's by the harness) -/
theorem C03_node_dup (hswo : SWO lt) (l : List α) (hs : Sorted lt l) (v : α) (h : ∃ x ∈ l, Equiv lt x v) :
    (insertVal lt l v).1 = l := insertVal_noop l v ((insertVal_not_inserted_iff hswo l hs v).mpr h)

example : Sorted (fun a b : Nat => decide (a % 5 < b % 5)) [5, 11, 7, 3] := by simp [Sorted]
example : (insertAll (fun a b : Nat => decide (a % 5 < b % 5)) [] [1, 11, 21, 2, 12, 3]) = [1, 2, 3] := by decide

end AmcVerif.Props.C03
