import AmcVerif.Props.C03
import AmcVerif.Bridge.FlatSetBridge
/-! C03 (generated model) — the FlatSet operations as regenerated from `flatset.hpp` on every run
(`translator/flatset2lean.py` → `Gen/FlatSetGen.lean`, proved equal to the hand-written model in `Bridge/FlatSetBridge.lean`)
behave as `std::set`. A generated function returns `none` when the C++ code would dereference or form an iterator outside
`[begin, end]`: every statement below therefore also says that this never happens. -/
namespace AmcVerif.Props.C03
open AmcVerif AmcVerif.FS AmcVerif.Sets AmcVerif.Bridge.FlatSet
variable {α : Type} {lt : α → α → Bool}

/-- `insert(v)` on the code as it is now: well defined; inserted iff no equivalent element present; nothing else changes; the returned
    iterator designates an element equivalent to `v` -/
theorem C03_gen_insert (hswo : SWO lt) (l : List α) (hs : Sorted lt l) (v : α) :
    ∃ r, Gen.FlatSet.insert lt l v = some r ∧ (r.1, r.2.1.1, r.2.1.2) = insertVal lt l v
      ∧ Sorted lt r.1 ∧ (r.2.1.2 = false ↔ ∃ x ∈ l, Equiv lt x v) ∧ (r.2.1.2 = false → r.1 = l)
      ∧ (∀ x, x ∈ r.1 ↔ x ∈ l ∨ (r.2.1.2 = true ∧ x = v)) := by
  refine ⟨_, insert_eq lt l v, ?_⟩
  have heq := insertValC_eq hswo l hs v
  have h1 : (insertValR lt l v).1 = (insertVal lt l v).1 := congrArg (·.1) heq
  have h2 : (insertValR lt l v).2.1.2 = (insertVal lt l v).2.2 := congrArg (·.2.2) heq
  refine ⟨heq, ?_, ?_, ?_, ?_⟩
  · rw [h1]; exact insertVal_sorted hswo l hs v
  · rw [h2]; exact insertVal_not_inserted_iff hswo l hs v
  · rw [h1, h2]; exact insertVal_noop l v
  · rw [h1, h2]; exact insertVal_mem l v

/-- the rvalue overload and `emplace` run the same decision logic -/
theorem C03_gen_insert_overloads (l : List α) (v : α) :
    Gen.FlatSet.insert_rv lt l v = Gen.FlatSet.insert lt l v ∧ Gen.FlatSet.emplace lt l v = Gen.FlatSet.insert lt l v := by
  rw [insert_rv_eq, insert_eq, emplace_eq]; exact ⟨rfl, rfl⟩

/-- `find(k)` on the code as it is now: well defined, returns `end()` or an element equivalent to `k`, and finds one iff one is present -/
theorem C03_gen_find (hswo : SWO lt) (l : List α) (hs : Sorted lt l) (k : α) :
    ∃ r, Gen.FlatSet.find lt l k = some r ∧
      ((r.1 < l.length ∧ ∃ y, l[r.1]? = some y ∧ Equiv lt y k) ↔ ∃ x ∈ l, Equiv lt x k) := by
  refine ⟨_, find_eq lt l k, ?_⟩
  have hiff := findC_some_iff hswo l hs k
  constructor
  · rintro ⟨hlt, y, hy, he⟩
    cases hf : (findC lt l k).1 with
    | none => simp [findIdx, hf] at hlt
    | some i =>
      simp only [findIdx, hf] at hy
      exact hiff.mp ⟨i, hf, y, hy, he⟩
  · intro hx
    obtain ⟨i, hf, y, hy, he⟩ := hiff.mpr hx
    have hlt := findC_some_lt lt l k i hf
    simp only [findIdx, hf]
    exact ⟨hlt, y, hy, he⟩

/-- `erase(key)` on the code as it is now is the model's erase (sortedness is kept, see `C03_inv`) -/
theorem C03_gen_erase (l : List α) (k : α) : Gen.FlatSet.erase lt l k = some (eraseKey lt l k) := erase_eq lt l k

/-- `lower_bound(v)` on the code as it is now returns the partition point of the sorted sequence -/
theorem C03_gen_lower_bound (hswo : SWO lt) (l : List α) (hs : Sorted lt l) (v : α) :
    ∃ r, Gen.FlatSet.lower_bound lt l v = some r ∧ r.1 = lowerIdx lt l v := by
  refine ⟨_, lower_bound_eq lt l v, ?_⟩
  exact lowerBound_eq_lowerIdx hswo l hs v

end AmcVerif.Props.C03
