import AmcVerif.Props.C12
import AmcVerif.Lemmas.Bounds
import AmcVerif.Bridge.FlatSetBridge
/-! C12 restated for the code as it is now: the functions of `Gen/FlatSetGen.lean`, regenerated from
`include/amc/flatset.hpp` by `translator/flatset2lean.py`, instead of the hand-written `insertHintC`.
Each statement also says that no undefined behaviour is reached (the generated function returns `some _`).
`insert_hint` / `insert_hint_rv` are the two instantiations of the private template (`V = const T&`, `V = T`),
`insert_at` / `insert_at_rv` the public overloads `insert(const_iterator, const T&)` / `insert(const_iterator, T&&)`. -/
namespace AmcVerif.Props.C12
open AmcVerif AmcVerif.FS AmcVerif.Sets AmcVerif.Bridge.FlatSet
variable {α : Type} {lt : α → α → Bool}

/-- `C12_hint` for the generated `insert_hint`: for every strict weak order, sorted content, hint in [begin, end] and value,
    the generated function returns the list and the index of plain insertion -/
theorem C12_gen_hint (hswo : SWO lt) (l : List α) (hs : Sorted lt l) (h : Nat) (hh : h ≤ l.length) (v : α) :
    ∃ r, Gen.FlatSet.insert_hint lt l h v = some r
      ∧ (r.1, r.2.1) = ((insertVal lt l v).1, (insertVal lt l v).2.1) :=
  ⟨_, insert_hint_eq lt l h hh v, C12_hint hswo l hs h hh v⟩

theorem C12_gen_hint_rv (hswo : SWO lt) (l : List α) (hs : Sorted lt l) (h : Nat) (hh : h ≤ l.length) (v : α) :
    ∃ r, Gen.FlatSet.insert_hint_rv lt l h v = some r
      ∧ (r.1, r.2.1) = ((insertVal lt l v).1, (insertVal lt l v).2.1) :=
  ⟨_, insert_hint_rv_eq lt l h hh v, C12_hint hswo l hs h hh v⟩

/-- the same for the public overloads -/
theorem C12_gen_insert_at (hswo : SWO lt) (l : List α) (hs : Sorted lt l) (h : Nat) (hh : h ≤ l.length) (v : α) :
    ∃ r, Gen.FlatSet.insert_at lt l h v = some r
      ∧ (r.1, r.2.1) = ((insertVal lt l v).1, (insertVal lt l v).2.1) :=
  ⟨_, insert_at_eq lt l h hh v, C12_hint hswo l hs h hh v⟩

theorem C12_gen_insert_at_rv (hswo : SWO lt) (l : List α) (hs : Sorted lt l) (h : Nat) (hh : h ≤ l.length) (v : α) :
    ∃ r, Gen.FlatSet.insert_at_rv lt l h v = some r
      ∧ (r.1, r.2.1) = ((insertVal lt l v).1, (insertVal lt l v).2.1) :=
  ⟨_, insert_at_rv_eq lt l h hh v, C12_hint hswo l hs h hh v⟩

/-- entirely between generated functions: `insert(hint, v)` and `insert(v)` produce the same content and designate the
    same position, whatever the hint -/
theorem C12_gen_hint_eq_insert (hswo : SWO lt) (l : List α) (hs : Sorted lt l) (h : Nat) (hh : h ≤ l.length) (v : α) :
    ∃ r s, Gen.FlatSet.insert_at lt l h v = some r ∧ Gen.FlatSet.insert lt l v = some s
      ∧ r.1 = s.1 ∧ r.2.1 = s.2.1.1 := by
  refine ⟨_, _, insert_at_eq lt l h hh v, insert_eq lt l v, ?_, ?_⟩
  · have e := C12_hint hswo l hs h hh v
    have e1 : (insertHintC lt l h v).1 = (insertVal lt l v).1 := congrArg Prod.fst e
    have c := insertValC_eq hswo l hs v
    have c1 : (insertValC lt l v).1 = (insertVal lt l v).1 := congrArg Prod.fst c
    simp only [insertValR]
    rw [e1, c1]
  · have e := C12_hint hswo l hs h hh v
    have e2 : (insertHintC lt l h v).2.1 = (insertVal lt l v).2.1 := congrArg Prod.snd e
    have c := insertValC_eq hswo l hs v
    have c2 : (insertValC lt l v).2.1 = (insertVal lt l v).2.1 := congrArg (fun p => p.2.1) c
    simp only [insertValR]
    rw [e2, c2]

/-- `C12_hint_sound` for the generated function: the result is sorted, has the elements of plain insertion, and the
    returned position designates the element equivalent to the value -/
theorem C12_gen_hint_sound (hswo : SWO lt) (l : List α) (hs : Sorted lt l) (h : Nat) (hh : h ≤ l.length) (v : α) :
    ∃ r, Gen.FlatSet.insert_hint lt l h v = some r
      ∧ Sorted lt r.1
      ∧ (∀ x, x ∈ r.1 ↔ x ∈ l ∨ ((insertVal lt l v).2.2 = true ∧ x = v))
      ∧ (∃ y, r.1[r.2.1]? = some y ∧ Equiv lt y v) :=
  ⟨_, insert_hint_eq lt l h hh v, C12_hint_sound hswo l hs h hh v⟩

theorem C12_gen_insert_at_sound (hswo : SWO lt) (l : List α) (hs : Sorted lt l) (h : Nat) (hh : h ≤ l.length) (v : α) :
    ∃ r, Gen.FlatSet.insert_at lt l h v = some r
      ∧ Sorted lt r.1
      ∧ (∀ x, x ∈ r.1 ↔ x ∈ l ∨ ((insertVal lt l v).2.2 = true ∧ x = v))
      ∧ (∃ y, r.1[r.2.1]? = some y ∧ Equiv lt y v) :=
  ⟨_, insert_at_eq lt l h hh v, C12_hint_sound hswo l hs h hh v⟩

/-- `C12_emplace_hint` for the generated `emplace_hint(hint, args)` (which constructs the value and calls
    `insert(hint, T&&)`): same content as plain insertion -/
theorem C12_gen_emplace_hint (hswo : SWO lt) (l : List α) (hs : Sorted lt l) (h : Nat) (hh : h ≤ l.length) (v : α) :
    ∃ r, Gen.FlatSet.emplace_hint lt l h v = some r ∧ r.1 = (insertVal lt l v).1 :=
  ⟨_, emplace_hint_eq lt l h hh v, C12_emplace_hint hswo l hs h hh v⟩

end AmcVerif.Props.C12
