import AmcVerif.Lemmas.FlatSetOnVec
import AmcVerif.Lemmas.SmallSetOnVec
import AmcVerif.Props.C12
/-! C09 for the SETS — exception safety of `amc::FlatSet` (and of the inline state of `amc::SmallSet`) on top of the slot-level
vector model.

`Lemmas/FlatSetOnVec.lean` composes the decision logic *generated* from `flatset.hpp` (`Gen/FlatSetGen.lean`) with the
slot-level vector operations its list primitives stand for (`_sortedVector.insert(it, v)` = `insertOne`, `_sortedVector.erase(it)`
= `eraseOne`, `clear`): `fsInsert`, `fsInsertMove`, `fsEmplace`, `fsInsertHint`, `fsInsertHintMove`, `fsEmplaceHint`,
`fsEraseKey`, `fsClear`, `fsFind` act on pool container `c`, the set's `_sortedVector`.  The statements below are properties of
the SET: if the element copy or the allocator throws during a FlatSet operation, the set is exactly as before (`VRep … xs`: the
visible elements are the old sorted list, nothing leaked, nothing moved-from, consistent size); otherwise the set holds the
`std::set`-conforming list (`FS.insertVal`, `Sets.eraseKey`); no outcome is a lifetime fault; and this holds along every
history.  `L : VecLaws α cfg Ok` is provided for every flavour and size type by `Props/C09.lean` (`C09_laws_*`), so the
underlying vector may be an `amc::vector`, a `SmallVector` or a `FixedCapacityVector`. -/
namespace AmcVerif.Props.C09
open AmcVerif AmcVerif.FS AmcVerif.Sets
variable {α : Type}

/-- reading of the strong guarantee: whatever the outcome, it is not a lifetime fault; an error is a C++ exception and then
    the container holds exactly the old list -/
theorem C09_flatset_strong_reading {β : Type} {cfg : Cfg} {Ok : VB → Prop} {c : Nat} {m : Mem α} {w : VB} {xs xs' : List α} {okv : β}
    {res : Except Stop β} {m' : Mem α} (h : StrongPost cfg Ok c m w xs xs' okv res m') :
    (∀ f, res ≠ .error (.fault f)) ∧ (∀ s, res = .error s → ∃ e, s = .exc e ∧ VRep cfg Ok c m' xs)
      ∧ (∀ b, res = .ok b → VRep cfg Ok c m' xs') := by
  rcases h with ⟨⟨hr, hv⟩ | ⟨e, hr, hv⟩, _⟩
  · subst hr
    exact ⟨fun f hf => (by cases hf), fun s hs => (by cases hs), fun b _ => hv⟩
  · subst hr
    refine ⟨fun f hf => (by cases hf), fun s hs => ?_, fun b hb => (by cases hb)⟩
    injection hs with hs; subst hs
    exact ⟨e, rfl, hv⟩

section ops
variable {cfg : Cfg} {Ok : VB → Prop} {lt : α → α → Bool} (L : VecLaws α cfg Ok) (m : Mem α) (c : Nat) (xs : List α) (w : VB)
  (h : VRepW cfg Ok c m xs w) (hf : Fresh m)
include L h hf

/-! #### for every comparator and every content: strong guarantee, no fault, the content of the set model -/

theorem C09_flatset_insert_any (v : α) :
    Post (fsInsert cfg c lt v) m (StrongPost cfg Ok c m w xs (insertValC lt xs v).1 ()) := fsInsert_postC L m c xs w lt v h hf
theorem C09_flatset_insert_move_any (v : α) :
    Post (fsInsertMove cfg c lt v) m (StrongPost cfg Ok c m w xs (insertValC lt xs v).1 ()) := fsInsertMove_postC L m c xs w lt v h hf
theorem C09_flatset_emplace_any (v : α) :
    Post (fsEmplace cfg c lt v) m (StrongPost cfg Ok c m w xs (insertValC lt xs v).1 ()) := fsEmplace_postC L m c xs w lt v h hf
theorem C09_flatset_insert_hint_any (hint : Nat) (hh : hint ≤ xs.length) (v : α) :
    Post (fsInsertHint cfg c lt hint v) m (StrongPost cfg Ok c m w xs (insertHintC lt xs hint v).1 ()) :=
  fsInsertHint_postC L m c xs w lt hint v h hf hh
theorem C09_flatset_insert_hint_move_any (hint : Nat) (hh : hint ≤ xs.length) (v : α) :
    Post (fsInsertHintMove cfg c lt hint v) m (StrongPost cfg Ok c m w xs (insertHintC lt xs hint v).1 ()) :=
  fsInsertHintMove_postC L m c xs w lt hint v h hf hh
theorem C09_flatset_emplace_hint_any (hint : Nat) (hh : hint ≤ xs.length) (v : α) :
    Post (fsEmplaceHint cfg c lt hint v) m (StrongPost cfg Ok c m w xs (insertHintC lt xs hint v).1 ()) :=
  fsEmplaceHint_postC L m c xs w lt hint v h hf hh
/-- `erase(key)` never throws: it always ends in the success branch -/
theorem C09_flatset_erase_key (k : α) :
    Post (fsEraseKey cfg c lt k) m (StrongPost cfg Ok c m w xs (eraseKey lt xs k).1 ()) := fsEraseKey_post L m c xs w lt k h hf
theorem C09_flatset_clear : Post (fsClear cfg c) m (StrongPost cfg Ok c m w xs [] ()) := fsClear_post L m c xs w h hf
theorem C09_flatset_find (k : α) : Post (fsFind cfg c lt k) m (StrongPost cfg Ok c m w xs xs ()) := fsFind_post L m c xs w lt k h hf

/-! #### for a strict weak order and a sorted set: the `std::set`-conforming list, which is sorted again -/

/-- `insert(const T&)`: the set ends holding `FS.insertVal lt xs v` (sorted, `v` inserted iff no equivalent element: `C03_insert`),
    or the copy / the allocator threw and the set is exactly as before -/
theorem C09_flatset_insert (hswo : SWO lt) (hs : Sorted lt xs) (v : α) :
    Post (fsInsert cfg c lt v) m (fun res m' =>
      StrongPost cfg Ok c m w xs (insertVal lt xs v).1 () res m' ∧ Sorted lt (insertVal lt xs v).1) :=
  Post.mono (fsInsert_post L m c xs w v h hf hswo hs) (fun _ _ hq => ⟨hq, insertVal_sorted hswo xs hs v⟩)

theorem C09_flatset_insert_move (hswo : SWO lt) (hs : Sorted lt xs) (v : α) :
    Post (fsInsertMove cfg c lt v) m (fun res m' =>
      StrongPost cfg Ok c m w xs (insertVal lt xs v).1 () res m' ∧ Sorted lt (insertVal lt xs v).1) :=
  Post.mono (fsInsertMove_post L m c xs w v h hf hswo hs) (fun _ _ hq => ⟨hq, insertVal_sorted hswo xs hs v⟩)

/-- `emplace(args...)`: also when the construction of the temporary throws -/
theorem C09_flatset_emplace (hswo : SWO lt) (hs : Sorted lt xs) (v : α) :
    Post (fsEmplace cfg c lt v) m (fun res m' =>
      StrongPost cfg Ok c m w xs (insertVal lt xs v).1 () res m' ∧ Sorted lt (insertVal lt xs v).1) :=
  Post.mono (fsEmplace_post L m c xs w v h hf hswo hs) (fun _ _ hq => ⟨hq, insertVal_sorted hswo xs hs v⟩)

/-- `insert(hint, const T&)`: whatever the hint in `[begin, end]`, the content of plain insertion or the set as before -/
theorem C09_flatset_insert_hint (hswo : SWO lt) (hs : Sorted lt xs) (hint : Nat) (hh : hint ≤ xs.length) (v : α) :
    Post (fsInsertHint cfg c lt hint v) m (fun res m' =>
      StrongPost cfg Ok c m w xs (insertVal lt xs v).1 () res m' ∧ Sorted lt (insertVal lt xs v).1) :=
  Post.mono (fsInsertHint_post L m c xs w hint v h hf hh hswo hs) (fun _ _ hq => ⟨hq, insertVal_sorted hswo xs hs v⟩)

theorem C09_flatset_insert_hint_move (hswo : SWO lt) (hs : Sorted lt xs) (hint : Nat) (hh : hint ≤ xs.length) (v : α) :
    Post (fsInsertHintMove cfg c lt hint v) m (fun res m' =>
      StrongPost cfg Ok c m w xs (insertVal lt xs v).1 () res m' ∧ Sorted lt (insertVal lt xs v).1) :=
  Post.mono (fsInsertHintMove_post L m c xs w hint v h hf hh hswo hs) (fun _ _ hq => ⟨hq, insertVal_sorted hswo xs hs v⟩)

theorem C09_flatset_emplace_hint (hswo : SWO lt) (hs : Sorted lt xs) (hint : Nat) (hh : hint ≤ xs.length) (v : α) :
    Post (fsEmplaceHint cfg c lt hint v) m (fun res m' =>
      StrongPost cfg Ok c m w xs (insertVal lt xs v).1 () res m' ∧ Sorted lt (insertVal lt xs v).1) :=
  Post.mono (fsEmplaceHint_post L m c xs w hint v h hf hh hswo hs) (fun _ _ hq => ⟨hq, insertVal_sorted hswo xs hs v⟩)

theorem C09_flatset_erase_key_sorted (hs : Sorted lt xs) (k : α) :
    Post (fsEraseKey cfg c lt k) m (fun res m' =>
      StrongPost cfg Ok c m w xs (eraseKey lt xs k).1 () res m' ∧ Sorted lt (eraseKey lt xs k).1) :=
  Post.mono (fsEraseKey_post L m c xs w lt k h hf) (fun _ _ hq => ⟨hq, eraseKey_sorted xs hs k⟩)

/-- "if the element copy or the allocator throws during `insert`, the set is exactly as before" — spelled out on the outcome
    of the run: never a lifetime fault; an error is a C++ exception and the set then holds the old sorted list -/
theorem C09_flatset_insert_throw_unchanged (v : α) :
    (∀ f, (runM (fsInsert cfg c lt v) m).1 ≠ .error (.fault f)) ∧
    (∀ s, (runM (fsInsert cfg c lt v) m).1 = .error s → ∃ e, s = .exc e ∧ VRep cfg Ok c (runM (fsInsert cfg c lt v) m).2 xs) :=
  let r := C09_flatset_strong_reading (fsInsert_postC L m c xs w lt v h hf)
  ⟨r.1, r.2.1⟩

end ops

/-- the same for every FlatSet operation at once (`IsFlatSetOp`): under its precondition the operation yields its specified
    list, or throws a C++ exception and the set is exactly as before; never a fault -/
theorem C09_flatset_op_strong {cfg : Cfg} {Ok : VB → Prop} {lt : α → α → Bool} (L : VecLaws α cfg Ok) {o : OpSpec α}
    (ho : IsFlatSetOp cfg lt o) (m : Mem α) (c : Nat) (xs : List α) (w : VB) (h : VRepW cfg Ok c m xs w) (hi : HInv m)
    (hpre : o.pre cfg xs) :
    Post (o.run cfg c) m (fun res m' =>
      (res = .ok () ∧ VRep cfg Ok c m' (o.spec xs)) ∨ (∃ e, res = .error (.exc e) ∧ VRep cfg Ok c m' xs)) := by
  refine Post.mono (ho.ok L m c xs w h hi hpre (fun hn => by rw [ho.nonTC] at hn; cases hn)) ?_
  rintro res m' ⟨hq, _⟩
  rcases hq with hq | ⟨e, xs'', he, hv, hst⟩
  · exact Or.inl hq
  · rw [hst ho.strong] at hv
    exact Or.inr ⟨e, he, hv⟩

/-- histories, for every comparator: any history of FlatSet operations, continued after every C++ exception, never commits a
    lifetime fault, the vector always holds a list allowed by the trace (each operation took effect or — strong guarantee —
    left the list), and no heap block is leaked -/
theorem C09_flatset_history {cfg : Cfg} {Ok : VB → Prop} (L : VecLaws α cfg Ok) (c : Nat) (lt : α → α → Bool)
    (ops : List (OpSpec α)) (hops : ∀ o ∈ ops, IsFlatSetOp cfg lt o) (m : Mem α) (xs : List α)
    (hv : VRep cfg Ok c m xs) (hi : HInv m) (hs : Safe cfg ops xs) (n0 : Nat) (ho : Owned cfg c n0 m) :
    Post (runHist cfg c ops) m (fun res m' => res = .ok () ∧ ∃ ys, Trace cfg ops xs ys ∧ VRep cfg Ok c m' ys ∧ HInv m' ∧ m'.cat = m.cat
      ∧ Owned cfg c n0 m') :=
  flatset_history L c lt ops hops m xs hv hi hs n0 ho

/-- histories of a FlatSet: for a strict weak order, starting from a sorted vector, the visible elements are a sorted
    (duplicate-free) list at the end of every history, whatever throws — the final state is a valid FlatSet -/
theorem C09_flatset_history_sorted {cfg : Cfg} {Ok : VB → Prop} (L : VecLaws α cfg Ok) (c : Nat) {lt : α → α → Bool} (hswo : SWO lt)
    (ops : List (OpSpec α)) (hops : ∀ o ∈ ops, IsFlatSetOp cfg lt o) (m : Mem α) (xs : List α)
    (hv : VRep cfg Ok c m xs) (hsorted : Sorted lt xs) (hi : HInv m) (hs : Safe cfg ops xs) (n0 : Nat) (ho : Owned cfg c n0 m) :
    Post (runHist cfg c ops) m (fun res m' => res = .ok () ∧ ∃ ys, Trace cfg ops xs ys ∧ Sorted lt ys ∧ VRep cfg Ok c m' ys ∧ HInv m'
      ∧ m'.cat = m.cat ∧ Owned cfg c n0 m') :=
  flatset_history_sorted L c hswo ops hops m xs hv hsorted hi hs n0 ho

/-- a sorted list has no two equivalent elements -/
theorem C09_flatset_sorted_no_dup {lt : α → α → Bool} {l : List α} (hs : Sorted lt l) {i j : Nat} {x y : α} (hij : i < j)
    (hx : l[i]? = some x) (hy : l[j]? = some y) : ¬ Equiv lt x y := sorted_no_equiv hs hij hx hy

/-! #### the inline state of SmallSet -/

/-- `SmallSet::insert(const T&)` while the set stays small (the value is present or the inline vector has room): the inline
    vector ends with the contents of the set model — the old elements, followed by `v` if it was new —, or the copy threw and
    the set is exactly as before; never a fault -/
theorem C09_smallset_insert_small {cfg : Cfg} {Ok : VB → Prop} (L : VecLaws α cfg Ok) (m : Mem α) (c : Nat) (xs : List α) (w : VB)
    (lt : α → α → Bool) (N : Nat) (v : α) (h : VRepW cfg Ok c m xs w) (hf : Fresh m) (hsmall : StaysSmall lt N xs v) :
    Post (ssInsert cfg c lt N v) m (StrongPost cfg Ok c m w xs ((smallState xs).insert lt N v).1.vec true)
    ∧ (((smallState xs).insert lt N v).1.vec = xs ∨ (xs.length ≠ N ∧ ((smallState xs).insert lt N v).1.vec = xs ++ [v])) :=
  ⟨ssInsert_post L m c xs w lt N v h hf hsmall, ssInsert_result lt N xs v hsmall⟩

theorem C09_smallset_insert_move_small {cfg : Cfg} {Ok : VB → Prop} (L : VecLaws α cfg Ok) (m : Mem α) (c : Nat) (xs : List α) (w : VB)
    (lt : α → α → Bool) (N : Nat) (v : α) (h : VRepW cfg Ok c m xs w) (hf : Fresh m) (hsmall : StaysSmall lt N xs v) :
    Post (ssInsertMove cfg c lt N v) m (StrongPost cfg Ok c m w xs ((smallState xs).insert lt N v).1.vec true) :=
  ssInsertMove_post L m c xs w lt N v h hf hsmall

/-- there is room: the set stays small -/
theorem C09_smallset_stays_small (lt : α → α → Bool) (N : Nat) (xs : List α) (v : α) (hroom : xs.length ≠ N) : StaysSmall lt N xs v :=
  staysSmall_of_room lt N xs v hroom

theorem C09_smallset_erase_key_small {cfg : Cfg} {Ok : VB → Prop} (L : VecLaws α cfg Ok) (m : Mem α) (c : Nat) (xs : List α) (w : VB)
    (lt : α → α → Bool) (N : Nat) (k : α) (h : VRepW cfg Ok c m xs w) (hf : Fresh m) :
    Post (ssEraseKey cfg c lt N k) m (StrongPost cfg Ok c m w xs ((smallState xs).eraseKey lt k).1.vec ()) :=
  ssEraseKey_post L m c xs w lt N k h hf

/-! #### the statements are not vacuous -/
section examples

/-- the comparator `std::less<unsigned>` -/
def natLt : Nat → Nat → Bool := fun a b => decide (a < b)

theorem natLt_swo' : SWO natLt := C12.natLt_swo

theorem gen_insert_empty : Gen.FlatSet.insert natLt [] 7 = some ([7], (0, true), 0) := by
  simp [Gen.FlatSet.insert, Gen.FlatSet.insert_val, Sets.lowerBound]

/-- an empty `FlatSet<unsigned, less, alloc, FixedCapacityVector<unsigned, 2>>` whose next throwing event throws -/
def thrMem : Mem Nat := { Example.exMem with fuel := some 1 }

/-- on the empty set `insert(7)` is `_sortedVector.insert(begin(), 7)` -/
theorem fsInsert_empty_run (m : Mem Nat) (he : runM (elems Example.exCfg 0) m = (.ok [], m)) :
    runM (fsInsert Example.exCfg 0 natLt 7) m = runM (do let _ ← insertOne Example.exCfg 0 0 (.copy (.lit 7)); pure ()) m := by
  unfold fsInsert
  rw [runM_bind, he]
  simp only [gen_insert_empty]

/-- `insert(7)` on it really throws (the element copy), … -/
example : (runM (fsInsert Example.exCfg 0 natLt 7) thrMem).1 = .error (.exc .elem) := by
  rw [fsInsert_empty_run thrMem rfl]; rfl

/-- … the set is still empty afterwards, as the strong guarantee says, … -/
example : (runM (elems Example.exCfg 0) (runM (fsInsert Example.exCfg 0 natLt 7) thrMem).2).1 = .ok [] := by
  rw [fsInsert_empty_run thrMem rfl]; rfl

/-- … and without the throw it holds `[7]` -/
example : (runM (elems Example.exCfg 0) (runM (fsInsert Example.exCfg 0 natLt 7) Example.exMem).2).1 = .ok [7] := by
  rw [fsInsert_empty_run Example.exMem rfl]; rfl

/-- a closed history on that set: `insert(7); insert(3); insert(begin(), 5); erase(7); emplace(9)` — the third insertion
    exceeds the capacity of the underlying `FixedCapacityVector<_, 2>` and throws — never faults and ends sorted -/
example : Post (runHist Example.exCfg 0 [opFsInsert natLt 7, opFsInsert natLt 3, opFsInsertHint natLt 0 5, opFsEraseKey natLt 7,
      opFsEmplace natLt 9]) Example.exMem
    (fun res m' => res = .ok () ∧ ∃ ys, Trace Example.exCfg [opFsInsert natLt 7, opFsInsert natLt 3, opFsInsertHint natLt 0 5,
        opFsEraseKey natLt 7, opFsEmplace natLt 9] [] ys ∧ Sorted natLt ys ∧
      VRep Example.exCfg (Bridge.U8.FOk 2) 0 m' ys ∧ HInv m' ∧ m'.cat = Example.exMem.cat ∧ Owned Example.exCfg 0 Example.exMem.nextId m') :=
  C09_flatset_history_sorted (Bridge.U8.fixed_vecLaws Nat Example.exCfg rfl rfl rfl) 0 natLt_swo' _
    (by
      intro o ho
      simp only [List.mem_cons, List.not_mem_nil, or_false] at ho
      rcases ho with rfl | rfl | rfl | rfl | rfl
      · exact .insert 7
      · exact .insert 3
      · exact .insertHint 0 5
      · exact .eraseKey 7
      · exact .emplace 9)
    Example.exMem [] ⟨_, Example.exMem_rep⟩ List.Pairwise.nil Example.exMem_inv
    (by simp [Safe, opFsInsert, opFsInsertHint, opFsEraseKey, opFsEmplace])
    _ (Owned.start Example.exCfg 0 Example.exMem_inv.fresh)

end examples

end AmcVerif.Props.C09
