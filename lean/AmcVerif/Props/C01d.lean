import AmcVerif.Lemmas.VecHPoolHistory
import AmcVerif.Bridge.FlavLawsU8
import AmcVerif.Bridge.FlavLawsU16
import AmcVerif.Bridge.FlavLawsU32
import AmcVerif.Bridge.FlavLawsU64
/-! C01 (heterogeneous pool level) — several vectors of MIXED type in one memory (FixedCapacityVector, SmallVector, `amc::vector`;
any inline capacity `N`; any size type) behave as several `std::vector`s: histories of single-container operations on any slot,
`shrink_to_fit`, `swap2` between ANY two slots, and — between slots of equal type — copy assignment, move assignment, swap,
destruction followed by default / move / copy construction.

`HPoolRep cfgs Oks P n0 m xss` (Lemmas/VecHPool.lean): slot `i < P` of memory `m` is a container of configuration `cfgs i` with word
invariant `Oks i` holding the list `xss[i]`; no heap block has two owners; every block allocated since `nextId` was `n0` that exists
is owned by a slot. `HPoolOp` / `.spec` / `.exc` (Lemmas/VecHPoolHistory.lean): the operations with their `std::vector` semantics
on the list of lists (`swap2` exchanges the two lists, or throws — size does not fit a fixed capacity / a size type — and leaves the
pool as it was). The law package `HPoolLaws` is obtained from the per-flavour packages `FlavLaws` of the generated members
(`Bridge/FlavLaws*.lean`, re-derived on every run).

The homogeneous pool of Props/C01c.lean is the special case of constant configuration (`PoolRep.toH`, `PoolLaws.toH`). -/
namespace AmcVerif.Props.C01
open AmcVerif
variable {α : Type}

section generic
variable {cfgs : Nat → Cfg} {Oks : Nat → VB → Prop} {P : Nat}

/-- one operation on a heterogeneous pool, started in a valid pool that satisfies its precondition: it takes effect and the pool
    holds the `std::vector` result — every other container exactly as before —, or it throws a C++ exception and the pool holds a
    state its exception guarantee allows; never a lifetime fault; the pool is valid again (no block shared, none leaked) -/
theorem C01_hpool_operation_refines (PL : HPoolLaws α cfgs Oks P) (n0 : Nat) (m : Mem α) (xss : List (List α)) (op : HPoolOp α)
    (h : HPoolRep cfgs Oks P n0 m xss) (hpre : op.pre cfgs xss) (hcat : op.nonTC = true → m.cat ≠ .tc) :
    Post (op.run cfgs) m (HPoolStepPost cfgs Oks P n0 m xss op) := hpool_step PL op h hpre hcat

/-- whole histories over a heterogeneous pool: run any sequence of pool operations, continuing after every exception; the pool
    ends valid, holding lists that the `std::vector` semantics of the history allows (`HPTrace`) -/
theorem C01_hpool_history (PL : HPoolLaws α cfgs Oks P) (n0 : Nat) (ops : List (HPoolOp α)) (m : Mem α) (xss : List (List α))
    (h : HPoolRep cfgs Oks P n0 m xss) (hs : HPSafe cfgs ops xss) (hcat : ∀ op ∈ ops, op.nonTC = true → m.cat ≠ .tc) :
    Post (runHPool cfgs ops) m (fun res m' => res = .ok () ∧
      ∃ yss, HPTrace ops xss yss ∧ HPoolRep cfgs Oks P n0 m' yss ∧ m'.cat = m.cat) :=
  hpool_history PL n0 ops m xss h hs hcat

/-- nothing is leaked: every block allocated since the reference point that exists at the end has exactly one owner in the pool -/
theorem C01_hpool_no_leak (PL : HPoolLaws α cfgs Oks P) (n0 : Nat) (ops : List (HPoolOp α)) (m : Mem α) (xss : List (List α))
    (h : HPoolRep cfgs Oks P n0 m xss) (hs : HPSafe cfgs ops xss) (hcat : ∀ op ∈ ops, op.nonTC = true → m.cat ≠ .tc) :
    Post (runHPool cfgs ops) m (fun res m' => res = .ok () ∧
      ∀ id, n0 ≤ id → (m'.buf (.blk id)).isSome →
        ∃ i, i < P ∧ OwnsBlk (cfgs i) i m' id ∧ ∀ j, j < P → OwnsBlk (cfgs j) j m' id → j = i) :=
  hpool_history_no_leak PL n0 ops m xss h hs hcat

/-- when no operation of the history throws, the final state is the fold of the `std::vector` results -/
theorem C01_hpool_trace_no_throw (ops : List (HPoolOp α)) (xss : List (List α)) :
    HPTrace ops xss (ops.foldl (fun l op => op.spec l) xss) := HPTrace.no_throw ops xss

/-- an operation does not change the list of a slot `k` it is not applied to — neither when it takes effect nor when it throws -/
theorem C01_hpool_others_undisturbed (op : HPoolOp α) (xss : List (List α)) (k : Nat) (hk : k ∉ op.touches) :
    sel (op.spec xss) k = sel xss k ∧ (∀ yss, op.exc xss yss → sel yss k = sel xss k) :=
  ⟨op.spec_other xss k hk, fun yss h => op.exc_other xss yss k hk h⟩

/-- the law package of a pool from the per-flavour packages of its slots -/
theorem C01_hpool_laws (F : ∀ i, i < P → FlavLaws α (cfgs i) (Oks i)) : HPoolLaws α cfgs Oks P := HPoolLaws.ofFlav F

/-- the homogeneous pool (Props/C01c.lean) is a heterogeneous pool -/
theorem C01_hpool_of_pool {cfg : Cfg} (PL : PoolLaws α cfg) {n0 : Nat} {m : Mem α} {xss : List (List α)}
    (h : PoolRep cfg (SOkW cfg.ops cfg.n) P n0 m xss) :
    HPoolLaws α (fun _ => cfg) (fun _ => SOkW cfg.ops cfg.n) P ∧ HPoolRep (fun _ => cfg) (fun _ => SOkW cfg.ops cfg.n) P n0 m xss :=
  ⟨PL.toH P, h.toH⟩

end generic

/-! ### A concrete mixed pool over the generated members -/
namespace MixedPool

/-- slot 0: `SmallVector<T, 4, Alloc, uint8_t>` -/
def cfgSmall : Cfg := { flavour := .small, n := 4, ops := Gen.U8.svbOps }
/-- slot 1: `amc::vector<T, Alloc, uint32_t>` -/
def cfgStd : Cfg := { flavour := .std, n := 0, ops := Gen.U32.dvbOps }
/-- slot 2: `FixedCapacityVector<T, 6, uint8_t>` -/
def cfgFixed : Cfg := { flavour := .fixed, n := 6, ops := Gen.U8.fvbOps }

/-- the pool `[SmallVector<_,4,uint8_t>, amc::vector<_,uint32_t>, FixedCapacityVector<_,6,uint8_t>]` -/
def cfgs : Nat → Cfg
  | 0 => cfgSmall
  | 1 => cfgStd
  | _ => cfgFixed

def Oks : Nat → VB → Prop
  | 0 => SOkW cfgSmall.ops cfgSmall.n
  | 1 => DOkW cfgStd.ops.kMax
  | _ => Bridge.U8.FOk cfgFixed.n

/-- the per-flavour law packages of the three slots, over the generated members -/
theorem flav (α : Type) : ∀ i, i < 3 → FlavLaws α (cfgs i) (Oks i)
  | 0, _ => Bridge.U8.small_flavLaws α cfgSmall rfl rfl (by decide) (by decide)
  | 1, _ => Bridge.U32.std_flavLaws α cfgStd rfl rfl
  | 2, _ => Bridge.U8.fixed_flavLaws α cfgFixed rfl rfl rfl (by decide) (by decide)
  | n + 3, h => absurd h (by omega)

theorem laws (α : Type) : HPoolLaws α cfgs Oks 3 := HPoolLaws.ofFlav (flav α)

/-- **C01 for the mixed pool**: any history of pool operations on
    `[SmallVector<T,4,uint8_t>, amc::vector<T,uint32_t>, FixedCapacityVector<T,6,uint8_t>]` — single-container operations on each,
    `swap2` between any two of them, … — never faults and ends in a valid pool holding what the `std::vector` semantics allows -/
theorem C01_hpool_history_mixed (n0 : Nat) (ops : List (HPoolOp α)) (m : Mem α) (xss : List (List α))
    (h : HPoolRep cfgs Oks 3 n0 m xss) (hs : HPSafe cfgs ops xss) (hcat : ∀ op ∈ ops, op.nonTC = true → m.cat ≠ .tc) :
    Post (runHPool cfgs ops) m (fun res m' => res = .ok () ∧
      ∃ yss, HPTrace ops xss yss ∧ HPoolRep cfgs Oks 3 n0 m' yss ∧ m'.cat = m.cat) :=
  C01_hpool_history (laws α) n0 ops m xss h hs hcat

/-! #### A closed instance: the hypotheses are satisfiable, the theorem is not vacuous -/

/-- the three containers freshly constructed, in a memory without heap blocks -/
def mem : Mem Nat :=
  { ws := [Gen.U8.svbOps.ctor 4, Gen.U32.dvbOps.ctor 0, Gen.U8.fvbOps.ctor 6],
    inls := [[.raw, .raw, .raw, .raw], [], [.raw, .raw, .raw, .raw, .raw, .raw]], blocks := [] }

theorem mem_slot : ∀ i, i < 3 → VRepW (cfgs i) (Oks i) i mem [] ((cfgs i).ops.ctor (cfgs i).n)
  | 0, _ => ((laws Nat).slot 0 (by decide)).fresh mem 0 (by decide) (fun _ => rfl)
  | 1, _ => ((laws Nat).slot 1 (by decide)).fresh mem 1 (by decide) (fun h => absurd rfl h)
  | 2, _ => ((laws Nat).slot 2 (by decide)).fresh mem 2 (by decide) (fun _ => rfl)
  | n + 3, h => absurd h (by omega)

theorem mem_pool : HPoolRep cfgs Oks 3 mem.nextId mem [[], [], []] := by
  refine HPoolRep.start rfl ?_ ?_ ⟨fun id h => by simp [Mem.buf, mem] at h, rfl⟩ (by decide) rfl
  · intro i xs hx
    have hi : i < 3 := by
      rcases Nat.lt_or_ge i 3 with h | h
      · exact h
      · rw [List.getElem?_eq_none (by simpa using h)] at hx; cases hx
    have hxs : xs = [] := by
      match i, hi with
      | 0, _ => simpa using hx.symm
      | 1, _ => simpa using hx.symm
      | 2, _ => simpa using hx.symm
    subst hxs
    exact ⟨_, mem_slot i hi⟩
  · intro i j id hi _ ho _
    exact absurd ho (((laws Nat).slot i hi).freshNone mem i (mem_slot i hi).ws id)

/-- the example history:
    `v0.push_back(7); v0.swap2(v1); v1.shrink_to_fit(); v2.push_back(9); v1.swap2(v2); v2.swap2(v0)` — on a
    SmallVector, an `amc::vector` and a FixedCapacityVector -/
def exOps : List (HPoolOp Nat) :=
  [.one 0 (opPushBack 7), .swap2 0 1, .shrink 1, .one 2 (opPushBack 9), .swap2 1 2, .swap2 2 0]

theorem exSafe : HPSafe cfgs exOps [[], [], []] := by
  refine HPSafe.ofLength cfgs 3 exOps ?_ _ rfl
  intro op hop xss hl
  simp only [exOps, List.mem_cons, List.not_mem_nil, or_false] at hop
  rcases hop with rfl | rfl | rfl | rfl | rfl | rfl
  · exact ⟨by omega, IsVecOp.pushBack 7, trivial⟩
  · exact ⟨by omega, by omega, by decide⟩
  · show 1 < xss.length; omega
  · exact ⟨by omega, IsVecOp.pushBack 9, trivial⟩
  · exact ⟨by omega, by omega, by decide⟩
  · exact ⟨by omega, by omega, by decide⟩

/-- the history runs without lifetime fault on the three empty containers (whether or not `push_back`, `shrink_to_fit` or `swap2`
    throw) and ends in a valid mixed pool whose state its trace allows; nothing is leaked -/
example : Post (runHPool cfgs exOps) mem
    (fun res m' => res = .ok () ∧ ∃ yss, HPTrace exOps [[], [], []] yss
      ∧ HPoolRep cfgs Oks 3 mem.nextId m' yss ∧ m'.cat = mem.cat) := by
  refine C01_hpool_history_mixed _ exOps mem [[], [], []] mem_pool exSafe ?_
  intro op hop hn
  simp only [exOps, List.mem_cons, List.not_mem_nil, or_false] at hop
  rcases hop with rfl | rfl | rfl | rfl | rfl | rfl <;> cases hn

/-- without a throw the final state is `[[7], [9], []]`: the 7 went from the SmallVector to the `amc::vector` by the first `swap2`,
    on to the FixedCapacityVector by the second (which received the 9 in exchange) and back to the SmallVector by the third -/
example : HPTrace exOps [[], [], []] [[7], [9], ([] : List Nat)] := C01_hpool_trace_no_throw _ _

end MixedPool
/-! ### A pool with two containers of EQUAL type next to one of another type: the same-type operations in a heterogeneous pool -/
namespace TwinPool
open MixedPool (cfgSmall cfgStd)

/-- the pool `[SmallVector<_,4,uint8_t>, amc::vector<_,uint32_t>, SmallVector<_,4,uint8_t>]` -/
def cfgs : Nat → Cfg
  | 1 => cfgStd
  | _ => cfgSmall

def Oks : Nat → VB → Prop
  | 1 => DOkW cfgStd.ops.kMax
  | _ => SOkW cfgSmall.ops cfgSmall.n

theorem flav (α : Type) : ∀ i, i < 3 → FlavLaws α (cfgs i) (Oks i)
  | 0, _ => Bridge.U8.small_flavLaws α cfgSmall rfl rfl (by decide) (by decide)
  | 1, _ => Bridge.U32.std_flavLaws α cfgStd rfl rfl
  | 2, _ => Bridge.U8.small_flavLaws α cfgSmall rfl rfl (by decide) (by decide)
  | n + 3, h => absurd h (by omega)

theorem laws (α : Type) : HPoolLaws α cfgs Oks 3 := HPoolLaws.ofFlav (flav α)

def mem : Mem Nat :=
  { ws := [Gen.U8.svbOps.ctor 4, Gen.U32.dvbOps.ctor 0, Gen.U8.svbOps.ctor 4],
    inls := [[.raw, .raw, .raw, .raw], [], [.raw, .raw, .raw, .raw]], blocks := [] }

theorem mem_slot : ∀ i, i < 3 → VRepW (cfgs i) (Oks i) i mem [] ((cfgs i).ops.ctor (cfgs i).n)
  | 0, _ => ((laws Nat).slot 0 (by decide)).fresh mem 0 (by decide) (fun _ => rfl)
  | 1, _ => ((laws Nat).slot 1 (by decide)).fresh mem 1 (by decide) (fun h => absurd rfl h)
  | 2, _ => ((laws Nat).slot 2 (by decide)).fresh mem 2 (by decide) (fun _ => rfl)
  | n + 3, h => absurd h (by omega)

theorem mem_pool : HPoolRep cfgs Oks 3 mem.nextId mem [[], [], []] := by
  refine HPoolRep.start rfl ?_ ?_ ⟨fun id h => by simp [Mem.buf, mem] at h, rfl⟩ (by decide) rfl
  · intro i xs hx
    have hi : i < 3 := by
      rcases Nat.lt_or_ge i 3 with h | h
      · exact h
      · rw [List.getElem?_eq_none (by simpa using h)] at hx; cases hx
    have hxs : xs = [] := by
      match i, hi with
      | 0, _ => simpa using hx.symm
      | 1, _ => simpa using hx.symm
      | 2, _ => simpa using hx.symm
    subst hxs
    exact ⟨_, mem_slot i hi⟩
  · intro i j id hi _ ho _
    exact absurd ho (((laws Nat).slot i hi).freshNone mem i (mem_slot i hi).ws id)

/-- `v0.push_back(7); v2 = std::move(v0); v2.swap2(v1); v0.swap(v2); v0.~T(); new (&v0) T(v2); v2.~T(); new (&v2) T(std::move(v0));
    v1.shrink_to_fit(); v0.~T(); new (&v0) T()`: `swap2` across types, move assignment / swap / copy and move construction between
    the two SmallVectors -/
def exOps : List (HPoolOp Nat) :=
  [.one 0 (opPushBack 7), .moveAssign 2 0, .swap2 2 1, .swap 0 2, .copyConstruct 0 2, .moveConstruct 2 0, .shrink 1, .reset 0]

theorem exSafe : HPSafe cfgs exOps [[], [], []] := by
  refine HPSafe.ofLength cfgs 3 exOps ?_ _ rfl
  intro op hop xss hl
  simp only [exOps, List.mem_cons, List.not_mem_nil, or_false] at hop
  rcases hop with rfl | rfl | rfl | rfl | rfl | rfl | rfl | rfl
  · exact ⟨by omega, IsVecOp.pushBack 7, trivial⟩
  · exact ⟨by omega, by omega, rfl⟩
  · exact ⟨by omega, by omega, by decide⟩
  · exact ⟨by omega, by omega, rfl⟩
  · exact ⟨by omega, by omega, by decide, rfl⟩
  · exact ⟨by omega, by omega, by decide, rfl⟩
  · show 1 < xss.length; omega
  · show 0 < xss.length; omega

example : Post (runHPool cfgs exOps) mem
    (fun res m' => res = .ok () ∧ ∃ yss, HPTrace exOps [[], [], []] yss
      ∧ HPoolRep cfgs Oks 3 mem.nextId m' yss ∧ m'.cat = mem.cat) := by
  refine C01_hpool_history (laws Nat) _ exOps mem [[], [], []] mem_pool exSafe ?_
  intro op hop hn
  simp only [exOps, List.mem_cons, List.not_mem_nil, or_false] at hop
  rcases hop with rfl | rfl | rfl | rfl | rfl | rfl | rfl | rfl <;> cases hn

/-- without a throw: the 7 travels 0 → 2 (move assignment) → 1 (`swap2` into the `amc::vector`), where it stays -/
example : HPTrace exOps [[], [], []] [([] : List Nat), [7], []] := C01_hpool_trace_no_throw _ _

end TwinPool
end AmcVerif.Props.C01
