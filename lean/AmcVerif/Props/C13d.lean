import AmcVerif.Bridge.MoveLawsStdFixedU8
import AmcVerif.Bridge.MoveLawsStdFixedU16
import AmcVerif.Bridge.MoveLawsStdFixedU32
import AmcVerif.Bridge.MoveLawsStdFixedU64
/-! Swap / move construction / move assignment between two `amc::vector`s and between two FixedCapacityVectors, at container level, over the
members regenerated from the source (C13: same-type swap; C01: as std::vector; C07: for `amc::vector` ONLY THE WORDS CHANGE — no element is
touched, buffers change hands; C05: a FixedCapacityVector never touches a heap block). SmallVector is in Props/C13b.lean, different types
(`swap2`) in Props/C13c.lean. -/
namespace AmcVerif.Props.C13
open AmcVerif
variable {α : Type}

theorem C13_swap_vector_U32 (cfg : Cfg) (hfl : cfg.flavour = .std) (hops : cfg.ops = Gen.U32.dvbOps)
    (m : Mem α) (c d : Nat) (xs ys : List α) (wc wd : VB) (hne : c ≠ d)
    (hc : VRepW cfg (DOkW cfg.ops.kMax) c m xs wc) (hd : VRepW cfg (DOkW cfg.ops.kMax) d m ys wd) :
    Post (swapSame cfg c d) m (fun res m' => SwapPost cfg (DOkW cfg.ops.kMax) c d m xs ys res m' ∧
      m' = ({ m with ws := (m.ws.set c wd).set d wc } : Mem α)) :=
  Bridge.U32.swapSame_std_U32 α cfg hfl hops m c d xs ys wc wd hne hc hd
theorem C13_swap_vector_U8 (cfg : Cfg) (hfl : cfg.flavour = .std) (hops : cfg.ops = Gen.U8.dvbOps)
    (m : Mem α) (c d : Nat) (xs ys : List α) (wc wd : VB) (hne : c ≠ d)
    (hc : VRepW cfg (DOkW cfg.ops.kMax) c m xs wc) (hd : VRepW cfg (DOkW cfg.ops.kMax) d m ys wd) :
    Post (swapSame cfg c d) m (fun res m' => SwapPost cfg (DOkW cfg.ops.kMax) c d m xs ys res m' ∧
      m' = ({ m with ws := (m.ws.set c wd).set d wc } : Mem α)) :=
  Bridge.U8.swapSame_std_U8 α cfg hfl hops m c d xs ys wc wd hne hc hd
theorem C13_swap_vector_U64 (cfg : Cfg) (hfl : cfg.flavour = .std) (hops : cfg.ops = Gen.U64.dvbOps)
    (m : Mem α) (c d : Nat) (xs ys : List α) (wc wd : VB) (hne : c ≠ d)
    (hc : VRepW cfg (DOkW cfg.ops.kMax) c m xs wc) (hd : VRepW cfg (DOkW cfg.ops.kMax) d m ys wd) :
    Post (swapSame cfg c d) m (fun res m' => SwapPost cfg (DOkW cfg.ops.kMax) c d m xs ys res m' ∧
      m' = ({ m with ws := (m.ws.set c wd).set d wc } : Mem α)) :=
  Bridge.U64.swapSame_std_U64 α cfg hfl hops m c d xs ys wc wd hne hc hd

theorem C13_move_assign_vector_U32 (cfg : Cfg) (hfl : cfg.flavour = .std) (hops : cfg.ops = Gen.U32.dvbOps)
    (m : Mem α) (c d : Nat) (xs ys : List α) (wc wd : VB) (hne : c ≠ d)
    (hc : VRepW cfg (DOkW cfg.ops.kMax) c m xs wc) (hd : VRepW cfg (DOkW cfg.ops.kMax) d m ys wd)
    (hdisj : regionOf cfg c wc ≠ regionOf cfg d wd ∨ cfg.ops.capacity wc = 0) :
    Post (moveAssign cfg c d) m (fun res m' => MoveAssignPost cfg (DOkW cfg.ops.kMax) c d m ys wc res m' ∧
      ∃ wc' wd', m'.ws[c]? = some wc' ∧ m'.ws[d]? = some wd' ∧ wc' = wd ∧ wd' = nullW) :=
  Bridge.U32.moveAssign_std_U32 α cfg hfl hops m c d xs ys wc wd hne hc hd hdisj

theorem C13_move_construct_vector_U32 (cfg : Cfg) (hfl : cfg.flavour = .std) (hops : cfg.ops = Gen.U32.dvbOps)
    (m : Mem α) (c d : Nat) (ys : List α) (wd : VB) (hne : c ≠ d) (hc : c < m.ws.length)
    (hd : VRepW cfg (DOkW cfg.ops.kMax) d m ys wd) :
    Post (moveConstruct cfg c d) m (fun res m' => MoveCtorPost cfg (DOkW cfg.ops.kMax) c d m ys wd res m' ∧
      m' = ({ m with ws := (m.ws.set c wd).set d nullW } : Mem α)) :=
  Bridge.U32.moveConstruct_std_U32 α cfg hfl hops m c d ys wd hne hc hd

theorem C13_swap_fixed_U8 (cfg : Cfg) (hops : cfg.ops = Gen.U8.fvbOps)
    (m : Mem α) (c d : Nat) (xs ys : List α) (wc wd : VB) (hne : c ≠ d)
    (hc : VRepW cfg (Bridge.U8.FOk cfg.n) c m xs wc) (hd : VRepW cfg (Bridge.U8.FOk cfg.n) d m ys wd) :
    Post (swapSame cfg c d) m (SwapPost cfg (Bridge.U8.FOk cfg.n) c d m xs ys) :=
  Bridge.U8.swapSame_fixed_U8 α cfg hops m c d xs ys wc wd hne hc hd
theorem C13_swap_fixed_U32 (cfg : Cfg) (hops : cfg.ops = Gen.U32.fvbOps)
    (m : Mem α) (c d : Nat) (xs ys : List α) (wc wd : VB) (hne : c ≠ d)
    (hc : VRepW cfg (Bridge.U32.FOk cfg.n) c m xs wc) (hd : VRepW cfg (Bridge.U32.FOk cfg.n) d m ys wd) :
    Post (swapSame cfg c d) m (SwapPost cfg (Bridge.U32.FOk cfg.n) c d m xs ys) :=
  Bridge.U32.swapSame_fixed_U32 α cfg hops m c d xs ys wc wd hne hc hd
theorem C13_move_assign_fixed_U16 (cfg : Cfg) (hops : cfg.ops = Gen.U16.fvbOps)
    (m : Mem α) (c d : Nat) (xs ys : List α) (wc wd : VB) (hne : c ≠ d)
    (hc : VRepW cfg (Bridge.U16.FOk cfg.n) c m xs wc) (hd : VRepW cfg (Bridge.U16.FOk cfg.n) d m ys wd) :
    Post (moveAssign cfg c d) m (MoveAssignPost cfg (Bridge.U16.FOk cfg.n) c d m ys wc) :=
  Bridge.U16.moveAssign_fixed_U16 α cfg hops m c d xs ys wc wd hne hc hd
theorem C13_move_construct_fixed_U32 (cfg : Cfg) (hops : cfg.ops = Gen.U32.fvbOps)
    (m : Mem α) (c d : Nat) (ys : List α) (wd : VB) (hne : c ≠ d) (hc : c < m.ws.length)
    (hraw : m.buf (.inl c) = some (raws cfg.n)) (hd : VRepW cfg (Bridge.U32.FOk cfg.n) d m ys wd) :
    Post (moveConstruct cfg c d) m (MoveCtorPost cfg (Bridge.U32.FOk cfg.n) c d m ys wd) :=
  Bridge.U32.moveConstruct_fixed_U32 α cfg hops m c d ys wd hne hc hraw hd

end AmcVerif.Props.C13
