import AmcVerif.Props.C03c
import AmcVerif.Lemmas.FlatSetPool
/-! C03 (generated model, several sets) — "all ordering and equivalence decisions use the comparator object the set was constructed
with", for a POOL of FlatSets of one type whose comparator OBJECTS may be in different states (`ModLess(7)` next to `ModLess(10)`).

The pool, its operations (`insert`, `emplace_hint`, `erase(key)`, `erase(position)`, `clear`, `insert(first, last)`, `merge`, `swap`,
copy and move assignment) and their interpretation `stepPool` / `runPool` with the members regenerated from `flatset.hpp` on every
run are in `Lemmas/FlatSetPool.lean`; `copyAssign` / `moveAssign` are the compiler-generated `operator=` (no generated function):
they are modelled directly as member-wise assignment.  `specPool` / `specRun` are the same steps written with the specification
(`insertVal`, `insertAll`, `eraseKey`, `mergeFrom`), where every decision about set `i` is taken with `p[i].lt`.

Hypotheses: `PoolInv p` (every set strictly sorted under ITS OWN comparator object, a strict weak order) and `StatelessOK stateless p`
(when the comparator TYPE is stateless — `std::is_empty<Compare>::value`, the condition under which `merge(FlatSet&)` runs its
two-pointer loop — all its objects compare alike).  Both are kept by every operation.  Every statement also says that no undefined
behaviour is reached (`stepPool` / `runPool` return `some _`). -/
namespace AmcVerif.Props.C03
open AmcVerif AmcVerif.FS AmcVerif.Sets AmcVerif.Bridge.FlatSet AmcVerif.FSPool
variable {α : Type}

/-- one operation on a pool: never undefined behaviour; every set stays strictly sorted under ITS OWN comparator object; the new
    pool is the one of the specification; no set appears or disappears; comparator objects are only copied or exchanged -/
theorem C03_pool_step (stateless : Bool) (p : List (FSet α)) (op : FOp α) (hinv : PoolInv p) (hst : StatelessOK stateless p) :
    ∃ p', stepPool stateless p op = some p' ∧ PoolInv p' ∧ StatelessOK stateless p'
      ∧ p' = specPool p op ∧ p'.length = p.length ∧ LtFrom p p' :=
  ⟨_, stepPool_eq stateless p op hinv hst, specPool_inv p op hinv, hst.of_ltFrom (specPool_ltFrom p op), rfl,
   specPool_length p op, specPool_ltFrom p op⟩

/-- the operations on ONE set `i` (holding the comparator object `s.lt` and the content `s.l`): the content becomes what the
    specification computes WITH `s.lt`, the comparator object stays, every other set of the pool is untouched -/
theorem C03_pool_single (stateless : Bool) (p : List (FSet α)) (hinv : PoolInv p) (hst : StatelessOK stateless p)
    (i : Nat) (s : FSet α) (hs : p[i]? = some s) (v : α) (vs : List α) (hint pos : Nat) :
    (∃ p', stepPool stateless p (.insert i v) = some p' ∧ p'[i]? = some ⟨s.lt, (insertVal s.lt s.l v).1⟩
        ∧ ∀ k, k ≠ i → p'[k]? = p[k]?)
    ∧ (hint ≤ s.l.length →
        ∃ p', stepPool stateless p (.emplaceHint i hint v) = some p' ∧ p'[i]? = some ⟨s.lt, (insertVal s.lt s.l v).1⟩
          ∧ ∀ k, k ≠ i → p'[k]? = p[k]?)
    ∧ (∃ p', stepPool stateless p (.eraseKey i v) = some p' ∧ p'[i]? = some ⟨s.lt, (eraseKey s.lt s.l v).1⟩
        ∧ ∀ k, k ≠ i → p'[k]? = p[k]?)
    ∧ (pos < s.l.length →
        ∃ p', stepPool stateless p (.erasePos i pos) = some p' ∧ p'[i]? = some ⟨s.lt, s.l.eraseIdx pos⟩
          ∧ ∀ k, k ≠ i → p'[k]? = p[k]?)
    ∧ (∃ p', stepPool stateless p (.clear i) = some p' ∧ p'[i]? = some ⟨s.lt, []⟩ ∧ ∀ k, k ≠ i → p'[k]? = p[k]?)
    ∧ (∃ p', stepPool stateless p (.insertRange i vs) = some p' ∧ p'[i]? = some ⟨s.lt, insertAll s.lt s.l vs⟩
        ∧ ∀ k, k ≠ i → p'[k]? = p[k]?) := by
  have key : ∀ (op : FOp α) (g : FSet α → FSet α), specPool p op = spec1 p i g →
      ∃ p', stepPool stateless p op = some p' ∧ p'[i]? = some (g s) ∧ ∀ k, k ≠ i → p'[k]? = p[k]? := by
    intro op g hg
    refine ⟨_, stepPool_eq stateless p op hinv hst, ?_, ?_⟩
    · rw [hg, spec1_getElem?]; simp [hs]
    · intro k hk; rw [hg, spec1_getElem?]; simp [hk]
  refine ⟨key (.insert i v) _ rfl, fun hh => ?_, key (.eraseKey i v) _ rfl, fun hh => ?_, key (.clear i) _ rfl,
    key (.insertRange i vs) _ rfl⟩
  · have := key (.emplaceHint i hint v) _ rfl
    simpa only [hh, if_true] using this
  · have := key (.erasePos i pos) _ rfl
    simpa only [hh, if_true] using this

/-- `p[i].merge(p[j])` on two sets whose comparator objects may differ: the elements of set `j` without an equivalent in set `i`
    UNDER THE COMPARATOR OBJECT OF SET `i` move to set `i` (`mergeFrom s.lt …`), the others stay in set `j` in their order; both
    comparator objects stay; set `i` is sorted under `s.lt`, set `j` under `t.lt`; every other set is untouched -/
theorem C03_pool_merge (stateless : Bool) (p : List (FSet α)) (hinv : PoolInv p) (hst : StatelessOK stateless p)
    (i j : Nat) (hij : i ≠ j) (s t : FSet α) (hs : p[i]? = some s) (ht : p[j]? = some t) :
    ∃ p', stepPool stateless p (.merge i j) = some p'
      ∧ p'[i]? = some ⟨s.lt, (mergeFrom s.lt s.l t.l).1⟩ ∧ p'[j]? = some ⟨t.lt, (mergeFrom s.lt s.l t.l).2⟩
      ∧ (∀ k, k ≠ i → k ≠ j → p'[k]? = p[k]?)
      ∧ Sorted s.lt (mergeFrom s.lt s.l t.l).1 ∧ Sorted t.lt (mergeFrom s.lt s.l t.l).2
      ∧ (mergeFrom s.lt s.l t.l).2.Sublist t.l := by
  have hS := hinv s (List.mem_of_getElem? hs)
  have hT := hinv t (List.mem_of_getElem? ht)
  obtain ⟨h1, h2, h3⟩ := spec2_getElem? p i j
    (fun s t => ((⟨s.lt, (mergeFrom s.lt s.l t.l).1⟩ : FSet α), (⟨t.lt, (mergeFrom s.lt s.l t.l).2⟩ : FSet α))) hij s t hs ht
  exact ⟨_, stepPool_eq stateless p (.merge i j) hinv hst, h1, h2, h3, mergeFrom_sorted hS.1 s.l t.l hS.2,
    mergeFrom_rest_sorted s.lt t.lt s.l t.l hT.2, mergeFrom_rest_sublist s.lt s.l t.l⟩

/-- `p[i].swap(p[j])`: the contents AND the comparator objects are exchanged — each content stays with the comparator object that
    orders it; every other set is untouched -/
theorem C03_pool_swap (stateless : Bool) (p : List (FSet α)) (hinv : PoolInv p) (hst : StatelessOK stateless p)
    (i j : Nat) (hij : i ≠ j) (s t : FSet α) (hs : p[i]? = some s) (ht : p[j]? = some t) :
    ∃ p', stepPool stateless p (.swap i j) = some p' ∧ p'[i]? = some t ∧ p'[j]? = some s
      ∧ (∀ k, k ≠ i → k ≠ j → p'[k]? = p[k]?) := by
  obtain ⟨h1, h2, h3⟩ := spec2_getElem? p i j (fun s t => (t, s)) hij s t hs ht
  exact ⟨_, stepPool_eq stateless p (.swap i j) hinv hst, h1, h2, h3⟩

/-- `p[i] = p[j]` and `p[i] = std::move(p[j])` (modelled directly: compiler-generated `operator=`): set `i` takes the content
    TOGETHER WITH the comparator object of set `j`; a moved-from set is empty and keeps its comparator object -/
theorem C03_pool_assign (stateless : Bool) (p : List (FSet α)) (hinv : PoolInv p) (hst : StatelessOK stateless p)
    (i j : Nat) (hij : i ≠ j) (s t : FSet α) (hs : p[i]? = some s) (ht : p[j]? = some t) :
    (∃ p', stepPool stateless p (.copyAssign i j) = some p' ∧ p'[i]? = some t ∧ p'[j]? = some t
      ∧ (∀ k, k ≠ i → k ≠ j → p'[k]? = p[k]?))
    ∧ (∃ p', stepPool stateless p (.moveAssign i j) = some p' ∧ p'[i]? = some t ∧ p'[j]? = some ⟨t.lt, []⟩
      ∧ (∀ k, k ≠ i → k ≠ j → p'[k]? = p[k]?)) := by
  obtain ⟨h1, h2, h3⟩ := spec2_getElem? p i j (fun _ t => (t, t)) hij s t hs ht
  obtain ⟨k1, k2, k3⟩ := spec2_getElem? p i j (fun _ t => (t, (⟨t.lt, []⟩ : FSet α))) hij s t hs ht
  exact ⟨⟨_, stepPool_eq stateless p (.copyAssign i j) hinv hst, h1, h2, h3⟩,
         ⟨_, stepPool_eq stateless p (.moveAssign i j) hinv hst, k1, k2, k3⟩⟩

/-- a step that designates a set that does not exist, or twice the same set for a two-set operation, leaves the pool as it is -/
theorem C03_pool_skip (stateless : Bool) (p : List (FSet α)) (hinv : PoolInv p) (hst : StatelessOK stateless p) (i j : Nat)
    (h : i = j ∨ p[i]? = none ∨ p[j]? = none) :
    stepPool stateless p (.merge i j) = some p ∧ stepPool stateless p (.swap i j) = some p
    ∧ stepPool stateless p (.copyAssign i j) = some p ∧ stepPool stateless p (.moveAssign i j) = some p := by
  refine ⟨?_, ?_, ?_, ?_⟩ <;> rw [stepPool_eq stateless p _ hinv hst] <;> exact congrArg some (spec2_skip p i j _ h)

/-- the same through EVERY history of operations, on any number of sets with any comparator objects: never undefined behaviour;
    at the end (hence, the history being arbitrary, after every prefix) every set is strictly sorted under ITS OWN comparator
    object; the pool is the one the specification computes; the comparator objects present are among the initial ones -/
theorem C03_pool_history (stateless : Bool) (p : List (FSet α)) (ops : List (FOp α)) (hinv : PoolInv p)
    (hst : StatelessOK stateless p) :
    ∃ p', runPool stateless p ops = some p' ∧ PoolInv p' ∧ StatelessOK stateless p'
      ∧ p' = specRun p ops ∧ p'.length = p.length ∧ LtFrom p p' :=
  ⟨_, runPool_eq stateless ops p hinv hst, specRun_inv ops p hinv, hst.of_ltFrom (specRun_ltFrom ops p), rfl,
   specRun_length ops p, specRun_ltFrom ops p⟩

/-- every intermediate state of a history satisfies the invariant, and the history goes on from it -/
theorem C03_pool_history_states (stateless : Bool) (p : List (FSet α)) (ops₁ ops₂ : List (FOp α)) (hinv : PoolInv p)
    (hst : StatelessOK stateless p) :
    ∃ q p', runPool stateless p ops₁ = some q ∧ PoolInv q ∧ StatelessOK stateless q
      ∧ runPool stateless q ops₂ = some p' ∧ runPool stateless p (ops₁ ++ ops₂) = some p' ∧ PoolInv p' := by
  obtain ⟨q, hq, hqi, hqs, _⟩ := C03_pool_history stateless p ops₁ hinv hst
  obtain ⟨p', hp', hpi, _⟩ := C03_pool_history stateless q ops₂ hqi hqs
  refine ⟨q, p', hq, hqi, hqs, hp', ?_, hpi⟩
  rw [runPool_append, hq]
  exact hp'

/-- after any history, lookups in set `i` (the generated `find` / `contains`) answer by equivalence under the comparator object
    that set `i` holds THEN (after swaps and assignments: the one that came with its content), with respect to its current content -/
theorem C03_pool_membership (stateless : Bool) (p : List (FSet α)) (ops : List (FOp α)) (hinv : PoolInv p)
    (hst : StatelessOK stateless p) :
    ∃ p', runPool stateless p ops = some p' ∧ ∀ (i : Nat) (s : FSet α), p'[i]? = some s → ∀ k : α,
      (∃ r, Gen.FlatSet.find s.lt s.l k = some r
        ∧ ((∃ x ∈ s.l, Equiv s.lt x k) → r.1 < s.l.length ∧ ∃ y, s.l[r.1]? = some y ∧ Equiv s.lt y k)
        ∧ ((¬ ∃ x ∈ s.l, Equiv s.lt x k) → r.1 = s.l.length))
      ∧ (∃ c, Gen.FlatSet.contains s.lt s.l k = some c ∧ (c.1 = true ↔ ∃ x ∈ s.l, Equiv s.lt x k)) := by
  obtain ⟨p', hp', hpi, _⟩ := C03_pool_history stateless p ops hinv hst
  refine ⟨p', hp', fun i s hs k => ?_⟩
  have h := hpi s (List.mem_of_getElem? hs)
  exact ⟨gen_find_spec h.1 s.l h.2 k, gen_contains_spec h.1 s.l h.2 k⟩

/-! ### Non-vacuity, on a closed instance

Two sets of natural numbers, set 0 with the comparator object `a % 7 < b % 7` ("`ModLess(7)`"), set 1 with `a % 10 < b % 10`
("`ModLess(10)`"): one comparator TYPE with state, `stateless = false` (`modLess m`, a strict weak order for every `m`: `modLess_swo`,
both in `Lemmas/FlatSetPool.lean`). -/

/-- the hypotheses hold on two empty sets with the two comparator objects (so the theorems above apply to every history from them),
    while `StatelessOK true` does NOT hold: the two objects compare 1 and 8 differently -/
example :
    PoolInv [(⟨modLess 7, []⟩ : FSet Nat), ⟨modLess 10, []⟩] ∧ StatelessOK false [(⟨modLess 7, []⟩ : FSet Nat), ⟨modLess 10, []⟩]
    ∧ ¬ StatelessOK true [(⟨modLess 7, []⟩ : FSet Nat), ⟨modLess 10, []⟩] := by
  refine ⟨?_, (by intro h; cases h), fun h => ?_⟩
  · intro s hs
    simp only [List.mem_cons, List.not_mem_nil, or_false] at hs
    rcases hs with rfl | rfl
    · exact ⟨modLess_swo 7, List.Pairwise.nil⟩
    · exact ⟨modLess_swo 10, List.Pairwise.nil⟩
  · have := h rfl ⟨modLess 7, []⟩ (by simp) ⟨modLess 10, []⟩ (by simp)
    have := congrFun (congrFun this 1) 8
    revert this; decide

/-- a history evaluated WITH THE GENERATED MEMBERS: insertions into both sets (one of them hinted), `merge 0 1` (of `[10, 21, 5, 17]`
    only 21 has no equivalent modulo 7 in `[8, 3, 12]`), `swap 0 1`, then two insertions into set 0, which now holds `ModLess(10)`
    (25 is refused: equivalent to 5 modulo 10; 13 goes between 10 and 5: modulo 7 it would have gone to the end) -/
example :
    (runPool false [(⟨modLess 7, []⟩ : FSet Nat), ⟨modLess 10, []⟩]
        [.insert 0 12, .insert 0 8, .insert 0 3, .insert 1 5, .insert 1 21, .emplaceHint 1 2 17, .insert 1 10]).map
      (fun p' => p'.map (·.l)) = some [[8, 3, 12], [10, 21, 5, 17]]
    ∧ (runPool false [(⟨modLess 7, []⟩ : FSet Nat), ⟨modLess 10, []⟩]
        [.insert 0 12, .insert 0 8, .insert 0 3, .insert 1 5, .insert 1 21, .emplaceHint 1 2 17, .insert 1 10, .merge 0 1]).map
      (fun p' => p'.map (·.l)) = some [[21, 8, 3, 12], [10, 5, 17]]
    ∧ (runPool false [(⟨modLess 7, []⟩ : FSet Nat), ⟨modLess 10, []⟩]
        [.insert 0 12, .insert 0 8, .insert 0 3, .insert 1 5, .insert 1 21, .emplaceHint 1 2 17, .insert 1 10, .merge 0 1,
         .swap 0 1, .insert 0 25, .insert 0 13]).map
      (fun p' => p'.map (fun s => (s.l, s.lt 1 8))) = some [([10, 13, 5, 17], true), ([21, 8, 3, 12], false)] := by
  decide +kernel

/-- the same history with a range insertion, erasures, a copy and a move assignment, through `C03_pool_history`: the final pool
    WITH its comparator objects — after the swap set 0 holds `ModLess(10)` and is ordered by it, set 1 holds `ModLess(7)` -/
example :
    runPool false [(⟨modLess 7, []⟩ : FSet Nat), ⟨modLess 10, []⟩, ⟨modLess 10, [4]⟩]
        [.insert 0 12, .insert 0 8, .insert 0 3, .insertRange 1 [5, 21, 17, 15, 10], .merge 0 1, .swap 0 1, .insert 0 25,
         .insert 0 13, .eraseKey 1 10, .erasePos 0 3, .copyAssign 2 1, .insert 2 6, .moveAssign 1 0]
      = some [⟨modLess 10, []⟩, ⟨modLess 10, [10, 13, 5]⟩, ⟨modLess 7, [21, 8, 12, 6]⟩]
    ∧ Sorted (modLess 10) [10, 13, 5] ∧ Sorted (modLess 7) [21, 8, 12, 6] ∧ ¬ Sorted (modLess 7) [10, 13, 5] := by
  have hinv : PoolInv [(⟨modLess 7, []⟩ : FSet Nat), ⟨modLess 10, []⟩, ⟨modLess 10, [4]⟩] := by
    intro s hs
    simp only [List.mem_cons, List.not_mem_nil, or_false] at hs
    rcases hs with rfl | rfl | rfl
    · exact ⟨modLess_swo 7, List.Pairwise.nil⟩
    · exact ⟨modLess_swo 10, List.Pairwise.nil⟩
    · exact ⟨modLess_swo 10, List.pairwise_singleton _ _⟩
  obtain ⟨p', hrun, _, _, hspec, _⟩ := C03_pool_history false _
    [.insert 0 12, .insert 0 8, .insert 0 3, .insertRange 1 [5, 21, 17, 15, 10], .merge 0 1, .swap 0 1, .insert 0 25,
     .insert 0 13, .eraseKey 1 10, .erasePos 0 3, .copyAssign 2 1, .insert 2 6, .moveAssign 1 0] hinv (by intro h; cases h)
  refine ⟨?_, ?_, ?_, ?_⟩
  · rw [hrun, hspec]; with_unfolding_all rfl
  · unfold Sorted; decide
  · unfold Sorted; decide
  · unfold Sorted; decide

/-- the contrast (defect V25 as it was, see also the example after `C03_gen_merge` in `Props/C03c.lean`): on the pool
    `[ModLess(7): [8, 3, 12], ModLess(10): [10, 21, 5, 17]]`, where `StatelessOK true` is false, the `stateless = true` arm of
    `merge` (the two-pointer loop, which ran unconditionally before the repair) leaves set 0 NOT sorted under its comparator
    object (21 after 3, and 17 next to its equivalent 3); the `stateless = false` arm gives the specification's result -/
example :
    (stepPool true [(⟨modLess 7, [8, 3, 12]⟩ : FSet Nat), ⟨modLess 10, [10, 21, 5, 17]⟩] (.merge 0 1)).map
      (fun p' => p'.map (·.l)) = some [[8, 3, 21, 12, 17], [10, 5]]
    ∧ ¬ Sorted (modLess 7) [8, 3, 21, 12, 17]
    ∧ (stepPool false [(⟨modLess 7, [8, 3, 12]⟩ : FSet Nat), ⟨modLess 10, [10, 21, 5, 17]⟩] (.merge 0 1)).map
      (fun p' => p'.map (·.l)) = some [[21, 8, 3, 12], [10, 5, 17]]
    ∧ Sorted (modLess 7) [21, 8, 3, 12] ∧ Sorted (modLess 10) [10, 5, 17] := by
  refine ⟨by decide +kernel, ?_, by decide +kernel, ?_, ?_⟩ <;> (unfold Sorted; decide)

end AmcVerif.Props.C03
