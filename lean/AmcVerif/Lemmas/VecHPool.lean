import AmcVerif.Lemmas.VecSwap2
import AmcVerif.Lemmas.VecOpsG
/-! A HETEROGENEOUS pool: containers of MIXED flavour / inline capacity / size type in one memory.

`HPoolRep cfgs Oks P n0 m xss`: pool slot `i < P` of memory `m` is a container of configuration `cfgs i` (FixedCapacityVector,
SmallVector or `amc::vector`, any `N`, any size type) with word invariant `Oks i` and holds the list `xss[i]`; no heap block is
owned by two slots; every heap block with an identifier `≥ n0` that exists is owned by a slot (leak freedom); the history
invariants `HInv`; block 0 — the region a null pointer resolves to — does not exist. `PoolRep cfg Ok` (Lemmas/VecPool.lean) is the
special case of constant `cfgs`, `Oks` (`PoolRep.toH`, `HPoolRep.toPool`).

* `HPoolRep.step1`: a framed, leak-free step on ONE slot (frame `FrameLI` of that slot's configuration);
* `HPoolRep.step2`: a step on TWO slots with the two-container frame `Frame2` and the block accounting `HAcct2` of the pair
  (move assignment, swap, move construction between slots of equal configuration);
* `HPoolRep.stepSwap2`: a step on two slots of ANY two configurations with the frame `Frame2G` (which contains `NoLeak2`) and the
  separation `Sep2` of the pair afterwards — exactly what `Swap2Post` (Lemmas/VecSwap2.lean) provides;
* `HPoolRep.reset`: destruction of a slot followed by the installation of fresh words.
In each case every other container is undisturbed and no block is shared or leaked afterwards. -/
namespace AmcVerif
variable {α : Type}

/-- the pool slots `0 … P-1` hold `xss`, slot `i` being a container of configuration `cfgs i` with word invariant `Oks i`; no
    block is shared; every block `≥ n0` is owned by a slot; history invariants -/
structure HPoolRep (cfgs : Nat → Cfg) (Oks : Nat → VB → Prop) (P n0 : Nat) (m : Mem α) (xss : List (List α)) : Prop where
  len : xss.length = P
  rep : ∀ i xs, xss[i]? = some xs → VRep (cfgs i) (Oks i) i m xs
  /-- the storages of two slots are distinct: no heap block has two owners (inline storages are distinct anyway) -/
  disj : ∀ i j id, i < P → j < P → OwnsBlk (cfgs i) i m id → OwnsBlk (cfgs j) j m id → i = j
  /-- leak freedom: every heap block allocated since `nextId` was `n0` that exists is owned by a slot of the pool -/
  owned : ∀ id, n0 ≤ id → (m.buf (.blk id)).isSome → ∃ i, i < P ∧ OwnsBlk (cfgs i) i m id
  inv : HInv m
  pos : 0 < m.nextId
  blk0 : m.buf (.blk 0) = none

/-- the homogeneous pool is the heterogeneous pool of constant configuration -/
theorem PoolRep.toH {cfg : Cfg} {Ok : VB → Prop} {P n0 : Nat} {m : Mem α} {xss : List (List α)} (h : PoolRep cfg Ok P n0 m xss) :
    HPoolRep (fun _ => cfg) (fun _ => Ok) P n0 m xss :=
  ⟨h.len, h.rep, h.disj, h.owned, h.inv, h.pos, h.blk0⟩

theorem HPoolRep.toPool {cfg : Cfg} {Ok : VB → Prop} {P n0 : Nat} {m : Mem α} {xss : List (List α)}
    (h : HPoolRep (fun _ => cfg) (fun _ => Ok) P n0 m xss) : PoolRep cfg Ok P n0 m xss :=
  ⟨h.len, h.rep, h.disj, h.owned, h.inv, h.pos, h.blk0⟩

/-- block accounting of a step on the pair `c`, `d` (configurations `ca`, `cb`): what the pair owns afterwards it owned before; a
    block of the pair that still exists is still owned by the pair; the two do not share a block -/
structure HAcct2 (ca cb : Cfg) (c d : Nat) (m m' : Mem α) : Prop where
  origin : ∀ id, OwnsBlk ca c m' id ∨ OwnsBlk cb d m' id → OwnsBlk ca c m id ∨ OwnsBlk cb d m id
  kept : ∀ id, (m'.buf (.blk id)).isSome → OwnsBlk ca c m id ∨ OwnsBlk cb d m id → OwnsBlk ca c m' id ∨ OwnsBlk cb d m' id
  disj : ∀ id, ¬ (OwnsBlk ca c m' id ∧ OwnsBlk cb d m' id)

namespace HPoolRep
variable {cfgs : Nat → Cfg} {Oks : Nat → VB → Prop} {P n0 : Nat} {m m' : Mem α} {xss : List (List α)}

theorem lt_of_get (h : HPoolRep cfgs Oks P n0 m xss) {i : Nat} {xs : List α} (hx : xss[i]? = some xs) : i < P := by
  rw [← h.len]
  rcases Nat.lt_or_ge i xss.length with h1 | h1
  · exact h1
  · rw [List.getElem?_eq_none h1] at hx; cases hx

theorem get (h : HPoolRep cfgs Oks P n0 m xss) {i : Nat} (hi : i < P) :
    ∃ xs, xss[i]? = some xs ∧ VRep (cfgs i) (Oks i) i m xs := by
  have hl : i < xss.length := by rw [h.len]; exact hi
  exact ⟨xss[i], List.getElem?_eq_getElem hl, h.rep i _ (List.getElem?_eq_getElem hl)⟩

/-- a block that a slot owns exists and is not fresh -/
theorem owns_old (h : HPoolRep cfgs Oks P n0 m xss) {i : Nat} {xs : List α} {w : VB} (hw : VRepW (cfgs i) (Oks i) i m xs w)
    {id : Nat} (hr : regionOf (cfgs i) i w = .blk id) (hp : 0 < (cfgs i).ops.capacity w) :
    (m.buf (.blk id)).isSome ∧ id < m.nextId := by
  have : (m.buf (.blk id)).isSome := by rw [← hr]; exact hw.isSome hp
  exact ⟨this, h.inv.fresh id this⟩

/-- what a slot owns exists and is old -/
theorem owned_old (h : HPoolRep cfgs Oks P n0 m xss) {k : Nat} (hk : k < P) {id : Nat} (ho : OwnsBlk (cfgs k) k m id) :
    (m.buf (.blk id)).isSome ∧ id < m.nextId := by
  obtain ⟨zs, _, wk, hwk⟩ := h.get hk
  have ho' := (OwnsBlk.iff hwk.ws id).mp ho
  exact h.owns_old hwk ho'.1 ho'.2

/-- the storage regions of two different slots (of any two configurations) are different (when the first has storage at all) -/
theorem sep (hnull : ∀ k, k < P → NullAt0 (cfgs k) (Oks k)) (h : HPoolRep cfgs Oks P n0 m xss) {i j : Nat} {wi wj : VB}
    {xs zs : List α} (hji : j ≠ i) (hi : i < P) (hj : j < P) (hwi : VRepW (cfgs i) (Oks i) i m xs wi)
    (hwj : VRepW (cfgs j) (Oks j) j m zs wj) (hp : 0 < (cfgs j).ops.capacity wj) :
    regionOf (cfgs j) j wj ≠ regionOf (cfgs i) i wi := by
  intro e
  cases hr : regionOf (cfgs j) j wj with
  | inl c' =>
    have h1 := regionOf_inl (cfgs j) j c' wj hr
    have h2 := regionOf_inl (cfgs i) i c' wi (by rw [← e, hr])
    exact hji (h1.symm.trans h2)
  | tmp => exact regionOf_ne_tmp (cfgs j) j wj hr
  | blk id =>
    have hoj : OwnsBlk (cfgs j) j m id := (OwnsBlk.iff hwj.ws id).mpr ⟨hr, hp⟩
    rcases Nat.eq_zero_or_pos ((cfgs i).ops.capacity wi) with h0 | hpi
    · have hid : id = 0 := hnull i hi i wi hwi.ok h0 id (by rw [← e, hr])
      subst hid
      have := (h.owns_old hwj hr hp).1
      rw [h.blk0] at this; cases this
    · have hoi : OwnsBlk (cfgs i) i m id := (OwnsBlk.iff hwi.ws id).mpr ⟨by rw [← e, hr], hpi⟩
      exact hji (h.disj j i id hj hi hoj hoi)

/-- the pair of two different slots is separated in the sense of `Sep2` -/
theorem sep2 (h : HPoolRep cfgs Oks P n0 m xss) {i j : Nat} (hij : i ≠ j) (hi : i < P) (hj : j < P) :
    Sep2 (cfgs i) (cfgs j) i j m :=
  ⟨hij, fun id o1 o2 => hij (h.disj i j id hi hj o1 o2), h.inv.fresh, h.pos, h.blk0⟩

/-- **a framed, leak-free step on one container of the pool** (frame `FrameLI` of the slot's own configuration: the inline storage
    of the container itself is exempted, as for `shrink_to_fit`): every other container — of whatever configuration — is
    undisturbed, no block is shared or leaked afterwards -/
theorem step1 (hnull : ∀ k, k < P → NullAt0 (cfgs k) (Oks k)) (h : HPoolRep cfgs Oks P n0 m xss) {i : Nat} (hi : i < P) {w : VB}
    {xs xs' : List α} (hw : VRepW (cfgs i) (Oks i) i m xs w) (hv' : VRep (cfgs i) (Oks i) i m' xs')
    (hfr : FrameLI (cfgs i) i (regionOf (cfgs i) i w) m m') : HPoolRep cfgs Oks P n0 m' (xss.set i xs') := by
  obtain ⟨w', hw'⟩ := hv'
  have hil : i < xss.length := by rw [h.len]; exact hi
  have hex' : ∀ id, OwnsBlk (cfgs i) i m' id → (m'.buf (.blk id)).isSome := by
    intro id ho
    have ho' := (OwnsBlk.iff hw'.ws id).mp ho
    rw [← ho'.1]; exact hw'.isSome ho'.2
  have hsame : ∀ k, k ≠ i → ∀ id, OwnsBlk (cfgs k) k m' id ↔ OwnsBlk (cfgs k) k m id :=
    fun k hk id => OwnsBlk.congr (hfr.wsOther k hk) id
  have haux : ∀ b id, b ≠ i → b < P → OwnsBlk (cfgs i) i m' id → OwnsBlk (cfgs b) b m' id → False := by
    intro b id hb hbP hoi hob
    have hob0 := (hsame b hb id).mp hob
    have hlt := (h.owned_old hbP hob0).2
    rcases hfr.noLeak id (hex' id hoi) with ⟨_, _, n2⟩ | ⟨_, o1, _⟩ | ⟨f, _⟩
    · exact n2 hoi
    · exact hb (h.disj b i id hbP hi hob0 o1)
    · omega
  refine ⟨by rw [List.length_set]; exact h.len, ?_, ?_, ?_, ?_, Nat.lt_of_lt_of_le h.pos hfr.nid, ?_⟩
  · intro k zs hk
    by_cases hki : k = i
    · subst hki
      rw [List.getElem?_set_self hil] at hk
      injection hk with hk; subst hk
      exact ⟨w', hw'⟩
    · rw [List.getElem?_set_ne (Ne.symm hki)] at hk
      have hkP := h.lt_of_get hk
      obtain ⟨wk, hwk⟩ := h.rep k zs hk
      refine ⟨wk, hwk.frameGI hfr.toFrameGI hki ?_ (fun id hid hp => (h.owns_old hwk hid hp).2)
        (fun e => hki (regionOf_inl (cfgs i) i k w e.symm))⟩
      rcases Nat.eq_zero_or_pos ((cfgs k).ops.capacity wk) with h0 | hp
      · exact Or.inl h0
      · exact Or.inr (h.sep hnull hki hi hkP hw hwk hp)
  · intro a b id ha hb hoa hob
    by_cases hai : a = i
    · by_cases hbi : b = i
      · rw [hai, hbi]
      · subst hai; exact (haux b id hbi hb hoa hob).elim
    · by_cases hbi : b = i
      · subst hbi; exact (haux a id hai ha hob hoa).elim
      · exact h.disj a b id ha hb ((hsame a hai id).mp hoa) ((hsame b hbi id).mp hob)
  · intro id hge hid
    rcases hfr.noLeak id hid with ⟨e0, n1, _⟩ | ⟨_, _, o2⟩ | ⟨_, o2⟩
    · obtain ⟨k, hk, hok⟩ := h.owned id hge e0
      have hki : k ≠ i := by rintro rfl; exact n1 hok
      exact ⟨k, hk, (hsame k hki id).mpr hok⟩
    · exact ⟨i, hi, o2⟩
    · exact ⟨i, hi, o2⟩
  · exact ⟨hfr.fresh h.inv.fresh, by
      rw [hfr.bufOther .tmp (Ne.symm (regionOf_ne_tmp (cfgs i) i w)) (by intro e; cases e) (fun id hid => by cases hid)]
      exact h.inv.tmp⟩
  · cases hb : m'.buf (.blk 0) with
    | none => rfl
    | some b =>
      exfalso
      rcases hfr.noLeak 0 (by rw [hb]; rfl) with ⟨e, _, _⟩ | ⟨e, _, _⟩ | ⟨f, _⟩
      · rw [h.blk0] at e; cases e
      · rw [h.blk0] at e; cases e
      · have := h.pos; omega

/-- **a step on two containers of the pool** with a two-container frame confined to their storages and the block accounting of
    the pair: every other container is undisturbed, no block is shared or leaked afterwards -/
theorem step2 (hnull : ∀ k, k < P → NullAt0 (cfgs k) (Oks k)) (h : HPoolRep cfgs Oks P n0 m xss) {i j : Nat} (hij : i ≠ j)
    (hi : i < P) (hj : j < P) {wi wj : VB} {xs ys xs' ys' : List α} {rs : List Region}
    (hwi : VRepW (cfgs i) (Oks i) i m xs wi) (hwj : VRepW (cfgs j) (Oks j) j m ys wj)
    (hvi' : VRep (cfgs i) (Oks i) i m' xs') (hvj' : VRep (cfgs j) (Oks j) j m' ys')
    (hfr : Frame2 i j rs m m')
    (hrs : ∀ r, r ∈ rs → r = regionOf (cfgs i) i wi ∨ r = regionOf (cfgs j) j wj ∨ r = .inl i ∨ r = .inl j)
    (hacct : HAcct2 (cfgs i) (cfgs j) i j m m') : HPoolRep cfgs Oks P n0 m' ((xss.set i xs').set j ys') := by
  have hil : i < xss.length := by rw [h.len]; exact hi
  have hjl : j < (xss.set i xs').length := by rw [List.length_set, h.len]; exact hj
  have hsame : ∀ k, k ≠ i → k ≠ j → ∀ id, OwnsBlk (cfgs k) k m' id ↔ OwnsBlk (cfgs k) k m id :=
    fun k hk1 hk2 id => OwnsBlk.congr (hfr.wsOther k hk1 hk2) id
  have haux : ∀ b id, b ≠ i → b ≠ j → b < P → (OwnsBlk (cfgs i) i m' id ∨ OwnsBlk (cfgs j) j m' id) →
      OwnsBlk (cfgs b) b m' id → False := by
    intro b id hb1 hb2 hbP hop hob
    have hob0 := (hsame b hb1 hb2 id).mp hob
    rcases hacct.origin id hop with o | o
    · exact hb1 (h.disj b i id hbP hi hob0 o)
    · exact hb2 (h.disj b j id hbP hj hob0 o)
  refine ⟨by rw [List.length_set, List.length_set]; exact h.len, ?_, ?_, ?_, ?_, by rw [hfr.nid]; exact h.pos, ?_⟩
  · intro k zs hk
    by_cases hkj : k = j
    · subst hkj
      rw [List.getElem?_set_self hjl] at hk
      injection hk with hk; subst hk
      exact hvj'
    · rw [List.getElem?_set_ne (Ne.symm hkj)] at hk
      by_cases hki : k = i
      · subst hki
        rw [List.getElem?_set_self hil] at hk
        injection hk with hk; subst hk
        exact hvi'
      · rw [List.getElem?_set_ne (Ne.symm hki)] at hk
        have hkP := h.lt_of_get hk
        obtain ⟨wk, hwk⟩ := h.rep k zs hk
        refine ⟨wk, hwk.frame2' hfr hki hkj ?_ ?_⟩
        · rcases Nat.eq_zero_or_pos ((cfgs k).ops.capacity wk) with h0 | hp
          · exact Or.inl h0
          · refine Or.inr (fun hin => ?_)
            rcases hrs _ hin with e | e | e | e
            · exact h.sep hnull hki hi hkP hwi hwk hp e
            · exact h.sep hnull hkj hj hkP hwj hwk hp e
            · exact hki (regionOf_inl (cfgs k) k i wk e).symm
            · exact hkj (regionOf_inl (cfgs k) k j wk e).symm
        · intro hin
          rcases hrs _ hin with e | e | e | e
          · exact hki (regionOf_inl (cfgs i) i k wi e.symm)
          · exact hkj (regionOf_inl (cfgs j) j k wj e.symm)
          · injection e with e; exact hki e
          · injection e with e; exact hkj e
  · intro a b id ha hb hoa hob
    by_cases hai : a = i
    · by_cases hbi : b = i
      · rw [hai, hbi]
      · by_cases hbj : b = j
        · subst hai; subst hbj; exact (hacct.disj id ⟨hoa, hob⟩).elim
        · subst hai; exact (haux b id hbi hbj hb (Or.inl hoa) hob).elim
    · by_cases haj : a = j
      · by_cases hbi : b = i
        · subst haj; subst hbi; exact (hacct.disj id ⟨hob, hoa⟩).elim
        · by_cases hbj : b = j
          · rw [haj, hbj]
          · subst haj; exact (haux b id hbi hbj hb (Or.inr hoa) hob).elim
      · by_cases hbi : b = i
        · subst hbi; exact (haux a id hai haj ha (Or.inl hob) hoa).elim
        · by_cases hbj : b = j
          · subst hbj; exact (haux a id hai haj ha (Or.inr hob) hoa).elim
          · exact h.disj a b id ha hb ((hsame a hai haj id).mp hoa) ((hsame b hbi hbj id).mp hob)
  · intro id hge hid
    obtain ⟨k, hk, hok⟩ := h.owned id hge (hfr.blocks id hid)
    by_cases hki : k = i
    · subst hki
      rcases hacct.kept id hid (Or.inl hok) with o | o
      · exact ⟨k, hi, o⟩
      · exact ⟨j, hj, o⟩
    · by_cases hkj : k = j
      · subst hkj
        rcases hacct.kept id hid (Or.inr hok) with o | o
        · exact ⟨i, hi, o⟩
        · exact ⟨k, hj, o⟩
      · exact ⟨k, hk, (hsame k hki hkj id).mpr hok⟩
  · refine ⟨fun id hid => by rw [hfr.nid]; exact h.inv.fresh id (hfr.blocks id hid), ?_⟩
    rw [hfr.bufOther .tmp (fun hin => ?_)]
    · exact h.inv.tmp
    · rcases hrs _ hin with e | e | e | e
      · exact regionOf_ne_tmp (cfgs i) i wi e.symm
      · exact regionOf_ne_tmp (cfgs j) j wj e.symm
      · cases e
      · cases e
  · cases hb : m'.buf (.blk 0) with
    | none => rfl
    | some b =>
      have := hfr.blocks 0 (by rw [hb]; rfl)
      rw [h.blk0] at this; cases this

/-- **a step on two containers of ANY two configurations** framed by `Frame2G` (third containers, other regions and the allocation
    counts of the other blocks untouched, `NoLeak2`: no block leaked or stolen) after which the pair is separated (`Sep2`) — the
    outcome of `swap2` (`Swap2Post`): every other container is undisturbed, no block is shared or leaked afterwards -/
theorem stepSwap2 (hnull : ∀ k, k < P → NullAt0 (cfgs k) (Oks k)) (h : HPoolRep cfgs Oks P n0 m xss) {i j : Nat} (hij : i ≠ j)
    (hi : i < P) (hj : j < P) {wi wj : VB} {xs ys xs' ys' : List α}
    (hwi : VRepW (cfgs i) (Oks i) i m xs wi) (hwj : VRepW (cfgs j) (Oks j) j m ys wj)
    (hvi' : VRep (cfgs i) (Oks i) i m' xs') (hvj' : VRep (cfgs j) (Oks j) j m' ys')
    (hsep' : Sep2 (cfgs i) (cfgs j) i j m')
    (hfr : Frame2G (cfgs i) (cfgs j) i j (regionOf (cfgs i) i wi) (regionOf (cfgs j) j wj) m m') :
    HPoolRep cfgs Oks P n0 m' ((xss.set i xs').set j ys') := by
  obtain ⟨wi', hwi'⟩ := hvi'
  obtain ⟨wj', hwj'⟩ := hvj'
  have hil : i < xss.length := by rw [h.len]; exact hi
  have hjl : j < (xss.set i xs').length := by rw [List.length_set, h.len]; exact hj
  have hsame : ∀ k, k ≠ i → k ≠ j → ∀ id, OwnsBlk (cfgs k) k m' id ↔ OwnsBlk (cfgs k) k m id :=
    fun k hk1 hk2 id => OwnsBlk.congr (hfr.wsOther k hk1 hk2) id
  -- a block the pair owns afterwards exists
  have hex' : ∀ id, Owns2 (cfgs i) (cfgs j) i j m' id → (m'.buf (.blk id)).isSome := by
    rintro id (ho | ho)
    · have ho' := (OwnsBlk.iff hwi'.ws id).mp ho
      rw [← ho'.1]; exact hwi'.isSome ho'.2
    · have ho' := (OwnsBlk.iff hwj'.ws id).mp ho
      rw [← ho'.1]; exact hwj'.isSome ho'.2
  -- an outsider and a member of the pair never own the same block afterwards
  have haux : ∀ b id, b ≠ i → b ≠ j → b < P → Owns2 (cfgs i) (cfgs j) i j m' id → OwnsBlk (cfgs b) b m' id → False := by
    intro b id hb1 hb2 hbP hop hob
    have hob0 := (hsame b hb1 hb2 id).mp hob
    have hlt := (h.owned_old hbP hob0).2
    rcases hfr.noLeak id (hex' id hop) with ⟨_, _, n2⟩ | ⟨_, o1, _⟩ | ⟨f, _⟩
    · exact n2 hop
    · rcases o1 with o | o
      · exact hb1 (h.disj b i id hbP hi hob0 o)
      · exact hb2 (h.disj b j id hbP hj hob0 o)
    · omega
  refine ⟨by rw [List.length_set, List.length_set]; exact h.len, ?_, ?_, ?_, ?_, hsep'.pos, hsep'.blk0⟩
  · intro k zs hk
    by_cases hkj : k = j
    · subst hkj
      rw [List.getElem?_set_self hjl] at hk
      injection hk with hk; subst hk
      exact ⟨wj', hwj'⟩
    · rw [List.getElem?_set_ne (Ne.symm hkj)] at hk
      by_cases hki : k = i
      · subst hki
        rw [List.getElem?_set_self hil] at hk
        injection hk with hk; subst hk
        exact ⟨wi', hwi'⟩
      · rw [List.getElem?_set_ne (Ne.symm hki)] at hk
        have hkP := h.lt_of_get hk
        obtain ⟨wk, hwk⟩ := h.rep k zs hk
        refine ⟨wk, hwk.frame2G hfr hki hkj ?_ (fun id hid hp => (h.owns_old hwk hid hp).2)
          ⟨fun e => hki (regionOf_inl (cfgs i) i k wi e.symm), fun e => hkj (regionOf_inl (cfgs j) j k wj e.symm)⟩⟩
        rcases Nat.eq_zero_or_pos ((cfgs k).ops.capacity wk) with h0 | hp
        · exact Or.inl h0
        · exact Or.inr ⟨h.sep hnull hki hi hkP hwi hwk hp, h.sep hnull hkj hj hkP hwj hwk hp⟩
  · intro a b id ha hb hoa hob
    by_cases hai : a = i
    · by_cases hbi : b = i
      · rw [hai, hbi]
      · by_cases hbj : b = j
        · subst hai; subst hbj; exact (hsep'.disj id hoa hob).elim
        · subst hai; exact (haux b id hbi hbj hb (Or.inl hoa) hob).elim
    · by_cases haj : a = j
      · by_cases hbi : b = i
        · subst haj; subst hbi; exact (hsep'.disj id hob hoa).elim
        · by_cases hbj : b = j
          · rw [haj, hbj]
          · subst haj; exact (haux b id hbi hbj hb (Or.inr hoa) hob).elim
      · by_cases hbi : b = i
        · subst hbi; exact (haux a id hai haj ha (Or.inl hob) hoa).elim
        · by_cases hbj : b = j
          · subst hbj; exact (haux a id hai haj ha (Or.inr hob) hoa).elim
          · exact h.disj a b id ha hb ((hsame a hai haj id).mp hoa) ((hsame b hbi hbj id).mp hob)
  · intro id hge hid
    rcases hfr.noLeak id hid with ⟨e0, n1, _⟩ | ⟨_, _, o2⟩ | ⟨_, o2⟩
    · obtain ⟨k, hk, hok⟩ := h.owned id hge e0
      have hki : k ≠ i := by rintro rfl; exact n1 (Or.inl hok)
      have hkj : k ≠ j := by rintro rfl; exact n1 (Or.inr hok)
      exact ⟨k, hk, (hsame k hki hkj id).mpr hok⟩
    · rcases o2 with o | o
      · exact ⟨i, hi, o⟩
      · exact ⟨j, hj, o⟩
    · rcases o2 with o | o
      · exact ⟨i, hi, o⟩
      · exact ⟨j, hj, o⟩
  · refine ⟨hsep'.fresh, ?_⟩
    rw [hfr.bufOther .tmp (Ne.symm (regionOf_ne_tmp (cfgs i) i wi)) (Ne.symm (regionOf_ne_tmp (cfgs j) j wj))
      (fun id hid => by cases hid)]
    exact h.inv.tmp

/-- **destroying slot `i` and installing fresh words**: `m1` is the memory after `~Vector()` on slot `i` (its block, if any, is
    gone; only its own storage changed; no block was created; the allocation counts of the other blocks are kept) and the
    installation of words `w1` under which slot `i` is a valid empty container that owns no block. Every other container is
    undisturbed, nothing is shared or leaked: the pool holds with slot `i` empty. -/
theorem reset (hnull : ∀ k, k < P → NullAt0 (cfgs k) (Oks k)) (h : HPoolRep cfgs Oks P n0 m xss) {i : Nat} (hi : i < P)
    {w w1 : VB} {xs : List α} (hw : VRepW (cfgs i) (Oks i) i m xs w) {m1 : Mem α}
    (hblk : ∀ id, regionOf (cfgs i) i w = .blk id → 0 < (cfgs i).ops.capacity w → m1.buf (.blk id) = none)
    (hoth : ∀ r', r' ≠ regionOf (cfgs i) i w → r' ≠ .inl i → m1.buf r' = m.buf r')
    (hws : m1.ws = m.ws.set i w1) (hcat : m1.cat = m.cat) (hhr : m1.hasRealloc = m.hasRealloc) (hnid : m1.nextId = m.nextId)
    (hsub : ∀ id, (m1.buf (.blk id)).isSome → (m.buf (.blk id)).isSome)
    (hcnt : ∀ id, Region.blk id ≠ regionOf (cfgs i) i w → m1.cnt id = m.cnt id)
    (hv1 : VRepW (cfgs i) (Oks i) i m1 [] w1) (hown1 : ∀ id, ¬ OwnsBlk (cfgs i) i m1 id) :
    HPoolRep cfgs Oks P n0 m1 (xss.set i []) := by
  refine h.step1 hnull hi hw ⟨w1, hv1⟩ ⟨⟨hcat, hhr, by rw [hws]; simp, fun c' hc' => by rw [hws, List.getElem?_set_ne (Ne.symm hc')],
    by rw [hnid]; exact Nat.le_refl _, fun hf id hid => by rw [hnid]; exact hf id (hsub id hid),
    fun r' h1 h2 _ => hoth r' h1 h2, fun id hne _ => hcnt id hne⟩, ?_⟩
  intro id hid
  refine Or.inl ⟨hsub id hid, fun ho => ?_, hown1 id⟩
  have ho' := (OwnsBlk.iff hw.ws id).mp ho
  rw [hblk id ho'.1 ho'.2] at hid; cases hid

/-- the pool invariant at the start of a history: `n0` is the current `nextId`, nothing has been allocated since -/
theorem start (hlen : xss.length = P) (hrep : ∀ i xs, xss[i]? = some xs → VRep (cfgs i) (Oks i) i m xs)
    (hdisj : ∀ i j id, i < P → j < P → OwnsBlk (cfgs i) i m id → OwnsBlk (cfgs j) j m id → i = j)
    (hi : HInv m) (hpos : 0 < m.nextId) (h0 : m.buf (.blk 0) = none) : HPoolRep cfgs Oks P m.nextId m xss :=
  ⟨hlen, hrep, hdisj, fun id hge hid => by have := hi.fresh id hid; omega, hi, hpos, h0⟩

end HPoolRep
end AmcVerif
