import AmcVerif.Lemmas.VecOpSpecs
/-! Leak freedom over the whole life of a container: `construct; <any history of the listed operations>; destruct`, started in
any memory, ends without a fault, with **no heap block allocated along the way still in existence**, every region that existed
before unchanged and (SmallVector) the inline storage all raw again — whatever the history does and whatever throws.

The proof carries, besides `Owned` (VecHistory.lean: every block with an identifier `≥ n0` that exists is the container's), the
converse ownership fact (`HOwn.mine`: the block the container owns was allocated during its life) and the frame of the regions
that existed before (`HOwn.other`) through the history (`vector_history_inv`), using `FrameL` (= `FrameG` + `NoLeak`) of every
step. Block 0 is the region a null pointer resolves to (`resolve`; "block 0 is never allocated"): the theorems assume that it
does not exist in the initial memory (`FrameG` says nothing about the region of a container without storage). -/
namespace AmcVerif
variable {α : Type}

theorem regionOf_inl (cfg : Cfg) (c c' : Nat) (w : VB) (h : regionOf cfg c w = .inl c') : c' = c := by
  unfold regionOf resolve at h
  split at h <;> first | (injection h with h; exact h.symm) | cases h

/-- ownership and frame invariant of the life of container `c` that started in memory `m0` when `nextId` was `n0` -/
structure HOwn (cfg : Cfg) (c n0 : Nat) (m0 m : Mem α) : Prop where
  nid : n0 ≤ m.nextId
  /-- every block allocated since then that exists is the container's -/
  owned : Owned cfg c n0 m
  /-- the block the container owns was allocated since then -/
  mine : ∀ id, OwnsBlk cfg c m id → n0 ≤ id
  /-- every region that existed before (except the inline storage of the container) is as it was -/
  other : ∀ r, r ≠ .inl c → (∀ id, r = .blk id → id < n0) → m.buf r = m0.buf r

/-- every framed, leak-free step on the container preserves the invariant -/
theorem HOwn.step {cfg : Cfg} {Ok : VB → Prop} {c n0 : Nat} {m0 m m' : Mem α} {w : VB} {xs xs' : List α}
    (hnull : ∀ w, Ok w → cfg.ops.capacity w = 0 → ∀ id, regionOf cfg c w = .blk id → id = 0)
    (h0 : m0.buf (.blk 0) = none)
    (hw : VRepW cfg Ok c m xs w) (hv' : VRep cfg Ok c m' xs') (h : HOwn cfg c n0 m0 m)
    (hfr : FrameL cfg c (regionOf cfg c w) m m') : HOwn cfg c n0 m0 m' := by
  refine ⟨Nat.le_trans h.nid hfr.nid, h.owned.step hfr.noLeak, ?_, ?_⟩
  · intro id ho
    obtain ⟨w', hw'⟩ := hv'
    have ho' := (OwnsBlk.iff hw'.ws id).mp ho
    have hex : (m'.buf (.blk id)).isSome := by rw [← ho'.1]; exact hw'.isSome ho'.2
    rcases hfr.noLeak id hex with ⟨_, _, n2⟩ | ⟨_, o1, _⟩ | ⟨f, _⟩
    · exact absurd ho n2
    · exact h.mine id o1
    · exact Nat.le_trans h.nid f
  · intro r hne hold
    by_cases hr : r = regionOf cfg c w
    · -- `r` is the region of the container, which does not own it: a container without storage, `r` is block 0
      cases r with
      | inl c' => exact absurd (by rw [regionOf_inl cfg c c' w hr.symm]) hne
      | tmp => exact absurd hr.symm (regionOf_ne_tmp cfg c w)
      | blk id =>
        have hlt := hold id rfl
        have hcap : cfg.ops.capacity w = 0 := by
          rcases Nat.eq_zero_or_pos (cfg.ops.capacity w) with hz | hp
          · exact hz
          · have := h.mine id ((OwnsBlk.iff hw.ws id).mpr ⟨hr.symm, hp⟩)
            omega
        have hid : id = 0 := hnull w hw.ok hcap id hr.symm
        subst hid
        have hm : m.buf (.blk 0) = none := by rw [h.other (.blk 0) hne hold]; exact h0
        rw [h0]
        cases hb : m'.buf (.blk 0) with
        | none => rfl
        | some b =>
          exfalso
          rcases hfr.noLeak 0 (by rw [hb]; rfl) with ⟨e, _, _⟩ | ⟨e, _, _⟩ | ⟨f, _⟩
          · rw [hm] at e; cases e
          · rw [hm] at e; cases e
          · have := h.nid; omega
    · rw [hfr.bufOther r hr (fun id hid => Nat.lt_of_lt_of_le (hold id hid) h.nid)]
      exact h.other r hne hold

/-- the history part of a life: from the freshly constructed container (words `w1`, no storage owned yet) the history runs
    without fault and the invariant holds at its end -/
theorem lifecycle_hist {cfg : Cfg} {Ok : VB → Prop} (LV : VecLaws α cfg Ok) (c : Nat)
    (hnull : ∀ w, Ok w → cfg.ops.capacity w = 0 → ∀ id, regionOf cfg c w = .blk id → id = 0)
    (ops : List (OpSpec α)) (hops : ∀ o ∈ ops, IsVecOp cfg o) (m0 : Mem α) (hi : HInv m0) (h0 : m0.buf (.blk 0) = none)
    (w1 : VB) (hw1 : VRepW cfg Ok c ({ m0 with ws := m0.ws.set c w1 } : Mem α) [] w1)
    (hown1 : ∀ id, regionOf cfg c w1 = .blk id → cfg.ops.capacity w1 = 0)
    (hsafe : Safe cfg ops []) (hcat : ∀ o ∈ ops, o.nonTC = true → m0.cat ≠ .tc) :
    Post (runHist cfg c ops) ({ m0 with ws := m0.ws.set c w1 } : Mem α) (fun res m2 => res = .ok () ∧
      ∃ ys w2, VRepW cfg Ok c m2 ys w2 ∧ HInv m2 ∧ HOwn cfg c m0.nextId m0 m2) := by
  have hi1 : HInv ({ m0 with ws := m0.ws.set c w1 } : Mem α) :=
    ⟨fun id hid => by rw [withWs_buf] at hid; exact hi.fresh id hid, by rw [withWs_buf]; exact hi.tmp⟩
  have ho1 : HOwn cfg c m0.nextId m0 ({ m0 with ws := m0.ws.set c w1 } : Mem α) := by
    refine ⟨Nat.le_refl _, ?_, ?_, fun r _ _ => by rw [withWs_buf]⟩
    · intro id hge hid
      rw [withWs_buf] at hid
      have := hi.fresh id hid
      exact absurd this (by show ¬ id < m0.nextId; omega)
    · intro id ho
      have ho' := (OwnsBlk.iff hw1.ws id).mp ho
      have := hown1 id ho'.1
      omega
  refine Post.mono (vector_history_inv LV c (HOwn cfg c m0.nextId m0)
    (fun m m' w xs xs' hw hv' _ h hfr => HOwn.step hnull h0 hw hv' h hfr) ops hops _ [] ⟨w1, hw1⟩ hi1 hsafe hcat ho1) ?_
  rintro res m2 ⟨hr, ys, _, ⟨w2, hw2⟩, hi2, _, ho2⟩
  exact ⟨hr, ys, w2, hw2, hi2, ho2⟩

/-- the end of a life: once the destructor has returned the block the container owned (if any), touched no other region and
    created no block, no block allocated during the life exists and every region that existed before is as it was -/
theorem lifecycle_end {cfg : Cfg} {Ok : VB → Prop} {c n0 : Nat} {m0 m2 m3 : Mem α} {w : VB} {ys : List α}
    (hnull : ∀ w, Ok w → cfg.ops.capacity w = 0 → ∀ id, regionOf cfg c w = .blk id → id = 0)
    (h0 : m0.buf (.blk 0) = none) (hw : VRepW cfg Ok c m2 ys w) (ho : HOwn cfg c n0 m0 m2)
    (hblk : ∀ id, regionOf cfg c w = .blk id → 0 < cfg.ops.capacity w → m3.buf (.blk id) = none)
    (hoth : ∀ r', r' ≠ regionOf cfg c w → m3.buf r' = m2.buf r')
    (hnew : ∀ id, (m3.buf (.blk id)).isSome → (m2.buf (.blk id)).isSome) :
    (∀ id, n0 ≤ id → m3.buf (.blk id) = none) ∧
    (∀ r, (∀ id, r = .blk id → id < n0) → r ≠ .inl c → m3.buf r = m0.buf r) := by
  constructor
  · intro id hge
    cases hb : m3.buf (.blk id) with
    | none => rfl
    | some b =>
      exfalso
      have hex2 := hnew id (by rw [hb]; rfl)
      have ho2 := (OwnsBlk.iff hw.ws id).mp (ho.owned id hge hex2)
      rw [hblk id ho2.1 ho2.2] at hb; cases hb
  · intro r hold hne
    by_cases hr : r = regionOf cfg c w
    · cases r with
      | inl c' => exact absurd (by rw [regionOf_inl cfg c c' w hr.symm]) hne
      | tmp => exact absurd hr.symm (regionOf_ne_tmp cfg c w)
      | blk id =>
        have hlt := hold id rfl
        have hcap : cfg.ops.capacity w = 0 := by
          rcases Nat.eq_zero_or_pos (cfg.ops.capacity w) with hz | hp
          · exact hz
          · have := ho.mine id ((OwnsBlk.iff hw.ws id).mpr ⟨hr.symm, hp⟩)
            omega
        have hid : id = 0 := hnull w hw.ok hcap id hr.symm
        subst hid
        have hm : m2.buf (.blk 0) = none := by rw [ho.other (.blk 0) hne hold]; exact h0
        rw [h0]
        cases hb : m3.buf (.blk 0) with
        | none => rfl
        | some b =>
          exfalso
          have := hnew 0 (by rw [hb]; rfl)
          rw [hm] at this; cases this
    · rw [hoth r hr]; exact ho.other r hne hold

/-- a SmallVector without storage resolves to block 0 -/
theorem SOkP.null {cfg : Cfg} {P : Nat → Prop} (L : SmallLaws cfg.ops cfg.n) (c : Nat) (w : VB) (hok : SOkP P cfg.ops cfg.n w)
    (hcap : cfg.ops.capacity w = 0) (id : Nat) (hr : regionOf cfg c w = .blk id) : id = 0 := by
  have hb := L.begin_small w
  unfold regionOf at hr
  cases hs : cfg.ops.isSmall w with
  | true =>
    rw [hs] at hb
    simp only [↓reduceIte] at hb
    rw [hb] at hr; cases hr
  | false =>
    rw [hs] at hb
    simp only [Bool.false_eq_true, ↓reduceIte] at hb
    rcases hok.2 hs with ⟨id', _, _, hpos⟩ | ⟨hdyn, _⟩
    · omega
    · rw [hb, hdyn] at hr
      injection hr with hr; exact hr.symm

/-- an `amc::vector` without storage resolves to block 0 -/
theorem DOkP.null {cfg : Cfg} {P : Nat → Prop} (L : StdLaws cfg.ops) (c : Nat) (w : VB) (hok : DOkP P cfg.ops.kMax w)
    (hcap : cfg.ops.capacity w = 0) (id : Nat) (hr : regionOf cfg c w = .blk id) : id = 0 := by
  unfold regionOf at hr
  rw [L.begin_eq] at hr
  rw [L.cap_eq] at hcap
  rcases hok.2.2 with ⟨id', _, _, hpos⟩ | ⟨hdyn, _⟩
  · omega
  · rw [hdyn] at hr
    injection hr with hr; exact hr.symm

/-- **Leak freedom over the life of a `SmallVector`.** Start in any memory `m0` (invariants `HInv`: block identifiers in use are
    below `nextId`, the stack temporary is raw; block 0 — the null region — does not exist) with a registered pool slot `c`
    whose inline storage is all raw. Construct the container, run any history of the listed operations that is `Safe` from the
    empty list (continuing after every C++ exception), destroy the container. The outcome is `.ok ()` (no lifetime fault, no
    allocator misuse) and in the final memory **no heap block with an identifier `≥ m0.nextId` exists**, every region that
    existed before is unchanged and the inline storage is all raw again: whatever the history does, and whatever throws,
    nothing is leaked. -/
theorem lifecycle_small {cfg : Cfg} (hfl : cfg.flavour = .small) (L : SmallLaws cfg.ops cfg.n)
    (hs : ∀ old n exact r, cfg.ops.safeNext old n exact = .ok r → (exact = true → n ≤ cfg.ops.kMax) → n ≤ r ∧ r ≤ cfg.ops.kMax)
    (hck : ∀ c m, c ≤ m → cfg.ops.check c m = .ok []) (hce : ∀ c m, m < c → cfg.ops.check c m = .error .outOfRange)
    (c : Nat) (ops : List (OpSpec α)) (hops : ∀ o ∈ ops, IsVecOp cfg o) (m0 : Mem α)
    (hi : HInv m0) (hc : c < m0.ws.length) (hraw : m0.buf (.inl c) = some (raws cfg.n)) (h0 : m0.buf (.blk 0) = none)
    (hsafe : Safe cfg ops []) (hcat : ∀ o ∈ ops, o.nonTC = true → m0.cat ≠ .tc) :
    Post (do construct cfg c; runHist cfg c ops; destruct cfg c) m0 (fun res m' => res = .ok ()
      ∧ (∀ id, m0.nextId ≤ id → m'.buf (.blk id) = none)
      ∧ (∀ r, (∀ id, r = .blk id → id < m0.nextId) → r ≠ .inl c → m'.buf r = m0.buf r)
      ∧ m'.buf (.inl c) = some (raws cfg.n)) := by
  have LV : VecLaws α cfg (SOkW cfg.ops cfg.n) := small_vecLawsW cfg hfl L hs hck hce
  have hnull : ∀ w, SOkW cfg.ops cfg.n w → cfg.ops.capacity w = 0 → ∀ id, regionOf cfg c w = .blk id → id = 0 :=
    fun w hok hcap id hr => SOkP.null L c w hok hcap id hr
  refine Post.bind (construct_small (P := fun _ => True) hfl L m0 c hc hraw) ?_ (by rintro e m1 ⟨he, _⟩; cases he)
  rintro _ m1 ⟨_, hw1, rfl, _⟩
  have hreg1 : regionOf cfg c (cfg.ops.ctor cfg.n) = .inl c := by
    have hb := L.begin_small (cfg.ops.ctor cfg.n)
    rw [L.ctor.2.2.2] at hb
    unfold regionOf; rw [hb]; rfl
  refine Post.bind (lifecycle_hist LV c hnull ops hops m0 hi h0 _ hw1 (fun id hr => by rw [hreg1] at hr; cases hr) hsafe hcat)
    ?_ (by rintro e m2 ⟨he, _⟩; cases he)
  rintro _ m2 ⟨_, ys, w2, hw2, _, ho2⟩
  refine Post.mono (destruct_small (P := fun _ => True) hfl L m2 c ys w2 hw2) ?_
  rintro res m3 ⟨hr, hblk, hinl, hoth, _, _, _, _, hnew⟩
  have := lifecycle_end hnull h0 hw2 ho2 (fun id hreg hpos => (hblk id hreg hpos).1) hoth hnew
  exact ⟨hr, this.1, this.2, hinl⟩

/-- **Leak freedom over the life of an `amc::vector`**: as `lifecycle_small`; the constructor leaves a null pointer and the
    destructor returns the block when the pointer is not null (`hctor`, `hdtor`: facts about the generated members, cf.
    `construct_std` / `destruct_std`). -/
theorem lifecycle_std {cfg : Cfg} (hfl : cfg.flavour = .std) (L : StdLaws cfg.ops)
    (hctor : cfg.ops.ctor cfg.n = ⟨0, 0, PtrV.null⟩)
    (hdtor : ∀ t, (cfg.ops.dtor t).2 = if t.dyn ≠ PtrV.null then [Eff.dealloc t.dyn t.capa] else [])
    (c : Nat) (ops : List (OpSpec α)) (hops : ∀ o ∈ ops, IsVecOp cfg o) (m0 : Mem α)
    (hi : HInv m0) (hc : c < m0.ws.length) (h0 : m0.buf (.blk 0) = none)
    (hsafe : Safe cfg ops []) (hcat : ∀ o ∈ ops, o.nonTC = true → m0.cat ≠ .tc) :
    Post (do construct cfg c; runHist cfg c ops; destruct cfg c) m0 (fun res m' => res = .ok ()
      ∧ (∀ id, m0.nextId ≤ id → m'.buf (.blk id) = none)
      ∧ (∀ r, (∀ id, r = .blk id → id < m0.nextId) → r ≠ .inl c → m'.buf r = m0.buf r)) := by
  have LV : VecLaws α cfg (DOkW cfg.ops.kMax) := std_vecLawsW cfg hfl L
  have hnull : ∀ w, DOkW cfg.ops.kMax w → cfg.ops.capacity w = 0 → ∀ id, regionOf cfg c w = .blk id → id = 0 :=
    fun w hok hcap id hr => DOkP.null L c w hok hcap id hr
  refine Post.bind (construct_std (P := fun _ => True) hfl L hctor m0 c hc) ?_ (by rintro e m1 ⟨he, _⟩; cases he)
  rintro _ m1 ⟨_, hw1, rfl, _⟩
  have hcap1 : cfg.ops.capacity (cfg.ops.ctor cfg.n) = 0 := by rw [L.cap_eq, hctor]
  refine Post.bind (lifecycle_hist LV c hnull ops hops m0 hi h0 _ hw1 (fun _ _ => hcap1) hsafe hcat)
    ?_ (by rintro e m2 ⟨he, _⟩; cases he)
  rintro _ m2 ⟨_, ys, w2, hw2, _, ho2⟩
  refine Post.mono (destruct_std (P := fun _ => True) L hdtor m2 c ys w2 hw2) ?_
  rintro res m3 ⟨hr, hblk, hoth, _, _, _, _, hnew⟩
  have := lifecycle_end hnull h0 hw2 ho2 (fun id hreg hpos => by
      -- a container with storage points to a real block
      have hok : DOkW cfg.ops.kMax w2 := hw2.ok
      rcases hok.2.2 with ⟨id', hdyn, _, _⟩ | ⟨_, hz⟩
      · have hreg' : regionOf cfg c w2 = .blk id' := regionOf_blk cfg c w2 id' (by rw [L.begin_eq, hdyn])
        rw [hreg'] at hreg; injection hreg with hreg; subst hreg
        exact (hblk id' hdyn).1
      · rw [L.cap_eq] at hpos; omega) hoth hnew
  exact ⟨hr, this.1, this.2⟩

end AmcVerif
