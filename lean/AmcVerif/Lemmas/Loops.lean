import AmcVerif.Lemmas.PrimPost
/-! Loop-level specifications: `destroyN`, the all-or-nothing `uninitialized_*` loops and references into buffers. -/
namespace AmcVerif
variable {α β γ : Type}

def raws (n : Nat) : List (Slot α) := List.replicate n .raw
def lives (xs : List α) : List (Slot α) := xs.map .live

@[simp] theorem raws_length (n : Nat) : (raws n : List (Slot α)).length = n := by simp [raws]
@[simp] theorem lives_length (xs : List α) : (lives xs).length = xs.length := by simp [lives]

theorem raws_append (a b : Nat) : (raws a ++ raws b : List (Slot α)) = raws (a + b) := by
  simp [raws, List.replicate_append_replicate]
theorem raws_snoc (a : Nat) (rest : List (Slot α)) : raws a ++ Slot.raw :: rest = raws (a + 1) ++ rest := by
  rw [← raws_append]; simp [raws]

theorem set_mid (pre post : List (Slot α)) (s t : Slot α) :
    (pre ++ s :: post).set pre.length t = pre ++ t :: post := by
  simp

theorem get_mid (pre post : List (Slot α)) (s : Slot α) : (pre ++ s :: post)[pre.length]? = some s := by
  simp

/-- `destroyN` on a range of alive slots makes the range raw -/
theorem destroyN_post (r : Region) (mid : List (Slot α)) : ∀ (m : Mem α) (pre post : List (Slot α)),
    m.buf r = some (pre ++ mid ++ post) → (∀ s ∈ mid, okAlive m.cat s) →
    Post (destroyN ⟨r, pre.length⟩ mid.length) m (OkSet m r (pre ++ raws mid.length ++ post)) := by
  induction mid with
  | nil =>
    intro m pre post h _
    simp only [List.length_nil, destroyN, raws, List.replicate_zero]
    exact ⟨rfl, by rw [View.set_id _ _ _ (by simpa using h)]; rfl, Keep.refl m⟩
  | cons s mid ih =>
    intro m pre post h hal
    simp only [List.length_cons, destroyN]
    have hb : m.buf (Addr.mk r pre.length).r = some (pre ++ s :: (mid ++ post)) := by simpa using h
    refine Post.bind (destroyAt_post m ⟨r, pre.length⟩ _ s hb (get_mid _ _ _) (hal s (by simp))) ?_ ?_
    · rintro _ m1 ⟨_, hb1, hk1⟩
      simp only [set_mid] at hb1
      have h1 : m1.buf r = some ((pre ++ [.raw]) ++ mid ++ post) := by rw [hb1]; simp
      have := ih m1 (pre ++ [.raw]) post h1 (fun s hs => by rw [hk1.cat]; exact hal s (by simp [hs]))
      simp only [List.length_append, List.length_cons, List.length_nil, Nat.zero_add] at this
      refine Post.mono this ?_
      rintro res m2 ⟨hr, hb2, hk2⟩
      refine ⟨hr, ?_, hk1.trans hk2⟩
      rw [hb2, hb1]; simp [raws, List.replicate_succ]
    · rintro e m1 ⟨he, _⟩; cases he
end AmcVerif

namespace AmcVerif
variable {α β γ : Type}

theorem lives_okAlive (c : Cat) (ys : List α) : ∀ s ∈ lives ys, okAlive c s := by
  intro s hs
  simp only [lives, List.mem_map] at hs
  obtain ⟨y, _, rfl⟩ := hs
  exact Or.inl (by simp)

/-- outcome of an all-or-nothing range construction: built, or the exception `e` with the range raw again -/
def BuiltOrRolledBack (m : Mem α) (r : Region) (built rolled : List (Slot α)) : Except Stop Unit → Mem α → Prop :=
  fun res m' => ((res = .ok () ∧ m'.buf = View.set m.buf r built) ∨
                 (res = .error (.exc .elem) ∧ m'.buf = View.set m.buf r rolled)) ∧ Keep m m'

/-- one iteration of the `uninitialized_*` loops: construct at `p = a + done`; if that throws, destroy the `done` objects
    built so far (`[a, a+done)`) and rethrow -/
theorem uninit_step_post (m : Mem α) (r : Region) (pre rest : List (Slot α)) (ys : List α) (y : α) (act : M α Unit)
    (h : m.buf r = some (pre ++ lives ys ++ .raw :: rest))
    (hact : Post act m (OkSetOrExc m r (pre ++ lives ys ++ .live y :: rest) .elem)) :
    Post (tryCatch act fun s => do
        match s with
        | .exc _ => destroyN ⟨r, pre.length⟩ ys.length
        | .fault _ => pure ()
        throw s) m
      (BuiltOrRolledBack m r (pre ++ lives (ys ++ [y]) ++ rest) (pre ++ raws ys.length ++ .raw :: rest)) := by
  refine Post.tryCatch hact ?_ ?_
  · rintro _ m1 hq
    rcases hq with ⟨_, hb, hk⟩ | ⟨he, _⟩
    · refine ⟨Or.inl ⟨rfl, ?_⟩, hk⟩
      rw [hb]; simp [lives]
    · cases he
  · rintro e m1 hq
    rcases hq with ⟨he, _⟩ | ⟨he, hsame⟩
    · cases he
    · injection he with he; subst he
      have h1 : m1.buf r = some (pre ++ lives ys ++ (.raw :: rest)) := by rw [hsame.1]; exact h
      have hd := destroyN_post r (lives ys) m1 pre (.raw :: rest) h1 (lives_okAlive _ _)
      simp only [lives_length] at hd
      refine Post.bind hd ?_ ?_
      · rintro _ m2 ⟨_, hb2, hk2⟩
        refine ⟨Or.inr ⟨rfl, ?_⟩, hsame.2.trans hk2⟩
        show m2.buf = _
        rw [hb2, hsame.1]
      · rintro e m2 ⟨he, _⟩; cases he

end AmcVerif

namespace AmcVerif
variable {α β γ : Type}

/-- the reference `ref` denotes a live object of value `v` that lies outside the window `[pre.length, pre.length+n)` of
    region `r` (a literal, another region, the part before the window, or the part after it) -/
def RefIn (vw : View α) (r : Region) (pre post : List (Slot α)) (n : Nat) : Ref α → α → Prop
  | .lit x, v => x = v
  | .at a, v => (a.r ≠ r ∧ ∃ b, vw a.r = some b ∧ b[a.i]? = some (.live v)) ∨
                (a.r = r ∧ pre[a.i]? = some (.live v)) ∨
                (a.r = r ∧ ∃ j, a.i = pre.length + n + j ∧ post[j]? = some (.live v))

theorem RefIn.set {vw : View α} {r : Region} {pre post : List (Slot α)} {n : Nat} {ref : Ref α} {v : α}
    (h : RefIn vw r pre post n ref v) (b' : List (Slot α)) : RefIn (vw.set r b') r pre post n ref v := by
  cases ref with
  | lit x => exact h
  | «at» a =>
    rcases h with ⟨hne, b, hb, hv⟩ | h | h
    · exact Or.inl ⟨hne, b, by rw [View.set_other _ _ _ _ hne]; exact hb, hv⟩
    · exact Or.inr (Or.inl h)
    · exact Or.inr (Or.inr h)

theorem deref_post (m : Mem α) (r : Region) (pre mid post : List (Slot α)) (ref : Ref α) (v : α)
    (h : m.buf r = some (pre ++ mid ++ post)) (hin : RefIn m.buf r pre post mid.length ref v) :
    Post (deref ref) m (fun res m' => res = .ok v ∧ m' = m) := by
  cases ref with
  | lit x => simp only [RefIn] at hin; subst hin; exact ⟨rfl, rfl⟩
  | «at» a =>
    simp only [deref]
    rcases hin with ⟨_, b, hb, hv⟩ | ⟨hr, hv⟩ | ⟨hr, j, hj, hv⟩
    · exact readLive_post m a b v hb hv
    · refine readLive_post m a _ v (hr ▸ h) ?_
      have hlt : a.i < pre.length := by
        rcases Nat.lt_or_ge a.i pre.length with h1 | h1
        · exact h1
        · simp [List.getElem?_eq_none h1] at hv
      rw [List.append_assoc, List.getElem?_append_left hlt]; exact hv
    · refine readLive_post m a _ v (hr ▸ h) ?_
      rw [List.getElem?_append_right (by simp; omega)]
      simp only [List.length_append]
      rw [show a.i - (pre.length + mid.length) = j by omega]; exact hv

theorem constructCopyRef_post (m : Mem α) (r : Region) (pre rest : List (Slot α)) (ref : Ref α) (v : α)
    (h : m.buf r = some (pre ++ .raw :: rest)) (hd : Post (deref ref) m (fun res m' => res = .ok v ∧ m' = m)) :
    Post (constructCopyRef ⟨r, pre.length⟩ ref) m (OkSetOrExc m r (pre ++ .live v :: rest) .elem) := by
  unfold constructCopyRef
  refine Post.bind hd ?_ okpost_err
  rintro v' m1 ⟨hv, rfl⟩
  injection hv with hv; subst hv
  have := constructCopy_post m1 ⟨r, pre.length⟩ v' _ .raw h (get_mid _ _ _) (Or.inl rfl)
  simpa only [set_mid] using this

end AmcVerif

namespace AmcVerif
variable {α β γ : Type}

theorem BuiltOrRolledBack.chain {m m1 : Mem α} {r : Region} {b1 built rolled : List (Slot α)}
    (hb1 : m1.buf = View.set m.buf r b1) (hk : Keep m m1) {res : Except Stop Unit} {m2 : Mem α}
    (h : BuiltOrRolledBack m1 r built rolled res m2) : BuiltOrRolledBack m r built rolled res m2 := by
  rcases h with ⟨h | h, hk2⟩
  · exact ⟨Or.inl ⟨h.1, by rw [h.2, hb1]; simp⟩, hk.trans hk2⟩
  · exact ⟨Or.inr ⟨h.1, by rw [h.2, hb1]; simp⟩, hk.trans hk2⟩

/-- `std::uninitialized_fill_n(a, k, ref)` (loop invariant form): all `k` raw slots become live copies, or a copy throws
    and every object built by the call is destroyed again -/
theorem uninitFillRef_go_post (r : Region) (pre post : List (Slot α)) (ref : Ref α) (v : α) :
    ∀ (k : Nat) (m : Mem α) (ys : List α),
    m.buf r = some (pre ++ lives ys ++ raws k ++ post) → RefIn m.buf r pre post (ys.length + k) ref v →
    Post (uninitFillRef.go ⟨r, pre.length⟩ ref ⟨r, pre.length + ys.length⟩ k ys.length) m
      (BuiltOrRolledBack m r (pre ++ lives (ys ++ List.replicate k v) ++ post) (pre ++ raws (ys.length + k) ++ post)) := by
  intro k
  induction k with
  | zero =>
    intro m ys h _
    simp only [uninitFillRef.go]
    refine ⟨Or.inl ⟨rfl, ?_⟩, Keep.refl m⟩
    show m.buf = _
    rw [View.set_id]; simpa [raws] using h
  | succ k ih =>
    intro m ys h hin
    simp only [uninitFillRef.go]
    have h0 : m.buf r = some ((pre ++ lives ys) ++ .raw :: (raws k ++ post)) := by
      rw [h]; simp [raws, List.replicate_succ]
    have hd := deref_post m r pre (lives ys ++ raws (k+1)) post ref v (by rw [h]; simp) (by simpa using hin)
    have hact := constructCopyRef_post m r (pre ++ lives ys) (raws k ++ post) ref v h0 hd
    have hstep := uninit_step_post m r pre (raws k ++ post) ys v _ h0 hact
    simp only [List.length_append, lives_length] at hstep
    refine Post.bind hstep ?_ ?_
    · rintro _ m1 ⟨hq, hk1⟩
      rcases hq with ⟨_, hb1⟩ | ⟨he, _⟩
      · have h1 : m1.buf r = some (pre ++ lives (ys ++ [v]) ++ raws k ++ post) := by rw [hb1]; simp
        have hin1 : RefIn m1.buf r pre post ((ys ++ [v]).length + k) ref v := by
          rw [hb1]; refine RefIn.set ?_ _
          simpa [Nat.add_assoc, Nat.add_comm 1 k] using hin
        have := ih m1 (ys ++ [v]) h1 hin1
        simp only [List.length_append, List.length_cons, List.length_nil, Nat.zero_add] at this
        refine Post.mono this ?_
        intro res m2 hq2
        have := BuiltOrRolledBack.chain hb1 hk1 hq2
        simpa [List.replicate_succ, Nat.add_assoc, Nat.add_comm 1 k] using this
      · cases he
    · rintro e m1 ⟨hq, hk1⟩
      rcases hq with ⟨he, _⟩ | ⟨he, hb1⟩
      · cases he
      · refine ⟨Or.inr ⟨he, ?_⟩, hk1⟩
        rw [hb1, List.append_assoc pre, raws_snoc, ← List.append_assoc (raws _), raws_append, ← List.append_assoc pre,
          show ys.length + 1 + k = ys.length + (k + 1) by omega]
end AmcVerif

namespace AmcVerif
variable {α : Type}

/-- the slot left behind by a one-element shift: raw when elements are moved byte-wise, a moved-from (still alive)
    object when they are moved through their move constructor -/
def gapSlot (c : Cat) : Slot α := if c = .ntr then .hollow else .raw

theorem uninitFillRef_post (m : Mem α) (r : Region) (pre post : List (Slot α)) (ref : Ref α) (v : α) (k : Nat)
    (h : m.buf r = some (pre ++ raws k ++ post)) (hin : RefIn m.buf r pre post k ref v) :
    Post (uninitFillRef ⟨r, pre.length⟩ k ref) m
      (BuiltOrRolledBack m r (pre ++ lives (List.replicate k v) ++ post) (pre ++ raws k ++ post)) := by
  have := uninitFillRef_go_post r pre post ref v k m [] (by simpa [lives] using h) (by simpa using hin)
  simpa [uninitFillRef] using this

end AmcVerif
