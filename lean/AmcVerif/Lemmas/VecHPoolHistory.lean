import AmcVerif.Lemmas.VecHPool
import AmcVerif.Lemmas.VecPoolHistory
/-! Histories over a HETEROGENEOUS pool: containers of mixed flavour / inline capacity / size type in one memory.

`HPoolOp`: every single-container operation of `IsVecOp` applied to slot `i` (with that slot's configuration), `shrink_to_fit` on
slot `i`, `swap2 i j` between ANY two slots (`VectorImpl::swap2`, Lemmas/VecSwap2.lean), and between two slots of EQUAL configuration
the operations of the homogeneous pool: `copyAssign`, `moveAssign`, `swap`, and the re-constructions `reset i`,
`moveConstruct i j`, `copyConstruct i j`. The abstract semantics on the list of lists is the `std::vector` semantics; `swap2`
either exchanges the two lists or throws and leaves the pool as it was.

Laws: `HSlotLaws α cfg Ok` is what the pool proofs need of one slot type — `VecLaws`, `NullAt0`, `ShrinkLaws`, and the outcome of
destruction / fresh words / move assignment / swap / move construction between two containers of that type, in the shapes of
VecOpsE.lean. `FlavLaws α cfg Ok` is the case distinction on the flavour with the law packages of `Bridge/` and gives
`HSlotLaws` (dispatching to VecOpsE.lean for SmallVector and VecOpsG.lean for `amc::vector` / FixedCapacityVector) and, for any two
slot types, `ExchangeLaws`. `HPoolLaws` packages them for a pool.

`hpool_step`: one operation never faults and re-establishes `HPoolRep` for the abstract result (or, after a C++ exception, for a
state its exception guarantee allows). `hpool_history`: any list of operations, continued after C++ exceptions, never faults and
ends in a pool satisfying `HPoolRep` for a state the abstract semantics allows (`HPTrace`): no block is leaked, no container is
disturbed by an operation on others. -/
namespace AmcVerif
variable {α : Type}

/-- the operations on a heterogeneous pool -/
inductive HPoolOp (α : Type) where
  /-- a single-container operation (one of `IsVecOp`) on slot `i` -/
  | one (i : Nat) (o : OpSpec α)
  /-- `v_i.shrink_to_fit()` -/
  | shrink (i : Nat)
  /-- `v_i.swap2(v_j)`: between any two slots (`i ≠ j`), of whatever types -/
  | swap2 (i j : Nat)
  /-- `v_i = v_j` (same type) -/
  | copyAssign (i j : Nat)
  /-- `v_i = std::move(v_j)` (same type) -/
  | moveAssign (i j : Nat)
  /-- `v_i.swap(v_j)` (same type) -/
  | swap (i j : Nat)
  /-- `v_i.~Vector(); new (&v_i) Vector()` -/
  | reset (i : Nat)
  /-- `v_i.~Vector(); new (&v_i) Vector(std::move(v_j))` (same type, `i ≠ j`) -/
  | moveConstruct (i j : Nat)
  /-- `v_i.~Vector(); new (&v_i) Vector(v_j)` (same type, `i ≠ j`) -/
  | copyConstruct (i j : Nat)

namespace HPoolOp

/-- the model program: slot `i` is operated on with ITS configuration `cfgs i` -/
def run (cfgs : Nat → Cfg) : HPoolOp α → M α Unit
  | .one i o => o.run (cfgs i) i
  | .shrink i => shrinkToFit (cfgs i) i
  | .swap2 i j => AmcVerif.swap2 (cfgs i) (cfgs j) i j
  | .copyAssign i j => AmcVerif.copyAssign (cfgs i) i j
  | .moveAssign i j => AmcVerif.moveAssign (cfgs i) i j
  | .swap i j => swapSame (cfgs i) i j
  | .reset i => do destruct (cfgs i) i; construct (cfgs i) i
  | .moveConstruct i j => do destruct (cfgs i) i; AmcVerif.moveConstruct (cfgs i) i j
  | .copyConstruct i j => do destruct (cfgs i) i; AmcVerif.copyConstruct (cfgs i) i j

/-- precondition on the abstract state: the slots exist; the single-container operation is one of the proved ones and its
    precondition holds of the list in its slot; `swap2` is between two different slots; the same-type operations are between
    slots of equal configuration -/
def pre (cfgs : Nat → Cfg) : HPoolOp α → List (List α) → Prop
  | .one i o, xss => i < xss.length ∧ IsVecOp (cfgs i) o ∧ o.pre (cfgs i) (sel xss i)
  | .shrink i, xss => i < xss.length
  | .swap2 i j, xss => i < xss.length ∧ j < xss.length ∧ i ≠ j
  | .copyAssign i j, xss => i < xss.length ∧ j < xss.length ∧ cfgs i = cfgs j
  | .moveAssign i j, xss => i < xss.length ∧ j < xss.length ∧ cfgs i = cfgs j
  | .swap i j, xss => i < xss.length ∧ j < xss.length ∧ cfgs i = cfgs j
  | .reset i, xss => i < xss.length
  | .moveConstruct i j, xss => i < xss.length ∧ j < xss.length ∧ i ≠ j ∧ cfgs i = cfgs j
  | .copyConstruct i j, xss => i < xss.length ∧ j < xss.length ∧ i ≠ j ∧ cfgs i = cfgs j

/-- abstract result (`std::vector` semantics; the source of a move is left empty; `swap2` exchanges) -/
def spec : HPoolOp α → List (List α) → List (List α)
  | .one i o, xss => xss.set i (o.spec (sel xss i))
  | .shrink _, xss => xss
  | .swap2 i j, xss => if i = j then xss else (xss.set i (sel xss j)).set j (sel xss i)
  | .copyAssign i j, xss => if i = j then xss else xss.set i (sel xss j)
  | .moveAssign i j, xss => if i = j then xss else (xss.set i (sel xss j)).set j []
  | .swap i j, xss => if i = j then xss else (xss.set i (sel xss j)).set j (sel xss i)
  | .reset i, xss => xss.set i []
  | .moveConstruct i j, xss => (xss.set i (sel xss j)).set j []
  | .copyConstruct i j, xss => xss.set i (sel xss j)

/-- the abstract states a C++ exception thrown by the operation may leave. `swap2` throws when the size of one operand does not
    fit the other (fixed capacity, size type maximum) or when a capacity adjustment fails: both operands then hold what they held —
    the pool is as before. The others as in the homogeneous pool. -/
def exc : HPoolOp α → List (List α) → List (List α) → Prop
  | .one i o, xss, yss => ∃ xs'', yss = xss.set i xs'' ∧ (o.strong = true → xs'' = sel xss i)
  | .shrink _, xss, yss => yss = xss
  | .swap2 _ _, xss, yss => yss = xss
  | .copyAssign i j, xss, yss => i ≠ j ∧ ∃ xs'', yss = xss.set i xs''
  | .moveAssign _ _, _, _ => False
  | .swap _ _, _, _ => False
  | .reset _, _, _ => False
  | .moveConstruct _ _, _, _ => False
  | .copyConstruct i _, xss, yss => yss = xss.set i []

/-- the operation's theorem needs an element type that is not trivially copyable -/
def nonTC : HPoolOp α → Bool
  | .one _ o => o.nonTC
  | .copyAssign _ _ => true
  | _ => false

/-- the slots an operation may change (abstractly) -/
def touches : HPoolOp α → List Nat
  | .one i _ => [i]
  | .shrink i => [i]
  | .swap2 i j => [i, j]
  | .copyAssign i _ => [i]
  | .moveAssign i j => [i, j]
  | .swap i j => [i, j]
  | .reset i => [i]
  | .moveConstruct i j => [i, j]
  | .copyConstruct i _ => [i]

/-- abstractly, no operation changes a slot it does not touch -/
theorem spec_other (op : HPoolOp α) (xss : List (List α)) (k : Nat) (hk : k ∉ op.touches) : sel (op.spec xss) k = sel xss k := by
  cases op with
  | one i o => simp only [touches, List.mem_singleton] at hk; exact PoolOp.sel_set_ne _ _ _ _ (Ne.symm hk)
  | shrink i => rfl
  | swap2 i j =>
    simp only [touches, List.mem_cons, List.not_mem_nil, or_false, not_or] at hk
    simp only [spec]; split
    · rfl
    · rw [PoolOp.sel_set_ne _ _ _ _ (Ne.symm hk.2), PoolOp.sel_set_ne _ _ _ _ (Ne.symm hk.1)]
  | copyAssign i j =>
    simp only [touches, List.mem_singleton] at hk
    simp only [spec]; split
    · rfl
    · exact PoolOp.sel_set_ne _ _ _ _ (Ne.symm hk)
  | moveAssign i j =>
    simp only [touches, List.mem_cons, List.not_mem_nil, or_false, not_or] at hk
    simp only [spec]; split
    · rfl
    · rw [PoolOp.sel_set_ne _ _ _ _ (Ne.symm hk.2), PoolOp.sel_set_ne _ _ _ _ (Ne.symm hk.1)]
  | swap i j =>
    simp only [touches, List.mem_cons, List.not_mem_nil, or_false, not_or] at hk
    simp only [spec]; split
    · rfl
    · rw [PoolOp.sel_set_ne _ _ _ _ (Ne.symm hk.2), PoolOp.sel_set_ne _ _ _ _ (Ne.symm hk.1)]
  | reset i => simp only [touches, List.mem_singleton] at hk; exact PoolOp.sel_set_ne _ _ _ _ (Ne.symm hk)
  | moveConstruct i j =>
    simp only [touches, List.mem_cons, List.not_mem_nil, or_false, not_or] at hk
    simp only [spec]
    rw [PoolOp.sel_set_ne _ _ _ _ (Ne.symm hk.2), PoolOp.sel_set_ne _ _ _ _ (Ne.symm hk.1)]
  | copyConstruct i j => simp only [touches, List.mem_singleton] at hk; exact PoolOp.sel_set_ne _ _ _ _ (Ne.symm hk)

/-- nor does an exception thrown by it -/
theorem exc_other (op : HPoolOp α) (xss yss : List (List α)) (k : Nat) (hk : k ∉ op.touches) (h : op.exc xss yss) :
    sel yss k = sel xss k := by
  cases op with
  | one i o =>
    simp only [touches, List.mem_singleton] at hk
    obtain ⟨xs'', rfl, _⟩ := h
    exact PoolOp.sel_set_ne _ _ _ _ (Ne.symm hk)
  | shrink i => have : yss = xss := h; rw [this]
  | swap2 i j => have : yss = xss := h; rw [this]
  | copyAssign i j =>
    simp only [touches, List.mem_singleton] at hk
    obtain ⟨_, xs'', rfl⟩ := h
    exact PoolOp.sel_set_ne _ _ _ _ (Ne.symm hk)
  | moveAssign i j => exact h.elim
  | swap i j => exact h.elim
  | reset i => exact h.elim
  | moveConstruct i j => exact h.elim
  | copyConstruct i j =>
    simp only [touches, List.mem_singleton] at hk
    have : yss = xss.set i [] := h
    rw [this]; exact PoolOp.sel_set_ne _ _ _ _ (Ne.symm hk)

/-- the number of slots never changes -/
theorem spec_length (op : HPoolOp α) (xss : List (List α)) : (op.spec xss).length = xss.length := by
  cases op <;> simp only [spec] <;> (try split) <;> simp

/-- nor does an exception change it -/
theorem exc_length (op : HPoolOp α) (xss yss : List (List α)) (h : op.exc xss yss) : yss.length = xss.length := by
  cases op with
  | one i o => obtain ⟨xs'', rfl, _⟩ := h; simp
  | shrink i => have : yss = xss := h; rw [this]
  | swap2 i j => have : yss = xss := h; rw [this]
  | copyAssign i j => obtain ⟨_, xs'', rfl⟩ := h; simp
  | moveAssign i j => exact h.elim
  | swap i j => exact h.elim
  | reset i => exact h.elim
  | moveConstruct i j => exact h.elim
  | copyConstruct i j => have : yss = xss.set i [] := h; rw [this]; simp

/-- the homogeneous operations are heterogeneous operations -/
def ofPoolOp : PoolOp α → HPoolOp α
  | .one i o => .one i o
  | .shrink i => .shrink i
  | .copyAssign i j => .copyAssign i j
  | .moveAssign i j => .moveAssign i j
  | .swap i j => .swap i j
  | .reset i => .reset i
  | .moveConstruct i j => .moveConstruct i j
  | .copyConstruct i j => .copyConstruct i j

end HPoolOp

/-! ### the laws of one slot type -/

/-- the memory after `~Vector()` on container `c` (words `w`): its heap block (if any) is gone; the inline storage of a
    SmallVector / FixedCapacityVector is all raw; no other region changed; the words are those left by the destructor; no block was
    created; the allocation counts of the other blocks are kept -/
structure Destructed (cfg : Cfg) (c : Nat) (w : VB) (m m' : Mem α) : Prop where
  blk : ∀ id, regionOf cfg c w = .blk id → 0 < cfg.ops.capacity w → m'.buf (.blk id) = none
  inl : cfg.flavour ≠ .std → m'.buf (.inl c) = some (raws cfg.n)
  other : ∀ r', r' ≠ regionOf cfg c w → m'.buf r' = m.buf r'
  ws : m'.ws = m.ws.set c (cfg.ops.dtor w).1
  cat : m'.cat = m.cat
  hr : m'.hasRealloc = m.hasRealloc
  nid : m'.nextId = m.nextId
  sub : ∀ id, (m'.buf (.blk id)).isSome → (m.buf (.blk id)).isSome
  cnt : ∀ id, Region.blk id ≠ regionOf cfg c w → m'.cnt id = m.cnt id

/-- what the pool theorems need of one slot type (configuration `cfg`, word invariant `Ok`) -/
structure HSlotLaws (α : Type) (cfg : Cfg) (Ok : VB → Prop) : Prop where
  vec : VecLaws α cfg Ok
  null : NullAt0 cfg Ok
  shrink : ShrinkLaws cfg Ok
  /-- `~Vector()` -/
  destruct : ∀ (m : Mem α) (c : Nat) (xs : List α) (w : VB), VRepW cfg Ok c m xs w →
    Post (destruct cfg c) m (fun res m' => res = .ok () ∧ Destructed cfg c w m m')
  /-- freshly constructed words over a raw inline storage are a valid empty container … -/
  fresh : ∀ (m1 : Mem α) (c : Nat), c < m1.ws.length → (cfg.flavour ≠ .std → m1.buf (.inl c) = some (raws cfg.n)) →
    VRepW cfg Ok c (freshAt cfg c m1) [] (cfg.ops.ctor cfg.n)
  /-- … that owns no block -/
  freshNone : ∀ (m : Mem α) (c : Nat), m.ws[c]? = some (cfg.ops.ctor cfg.n) → ∀ id, ¬ OwnsBlk cfg c m id
  ctorOk : Ok (cfg.ops.ctor cfg.n)
  ctorSize : cfg.ops.size (cfg.ops.ctor cfg.n) = 0
  ctorStd : cfg.flavour = .std → cfg.ops.capacity (cfg.ops.ctor cfg.n) = 0
  ctorInl : cfg.flavour ≠ .std → cfg.ops.capacity (cfg.ops.ctor cfg.n) = cfg.n ∧ cfg.ops.begin (cfg.ops.ctor cfg.n) = .inl 0
  /-- `c = std::move(d)` between two containers of this type -/
  moveAssign : ∀ (m : Mem α) (c d : Nat) (xs ys : List α) (wc wd : VB), c ≠ d → VRepW cfg Ok c m xs wc → VRepW cfg Ok d m ys wd →
    (regionOf cfg c wc ≠ regionOf cfg d wd ∨ (cfg.ops.capacity wc = 0 ∧ cfg.ops.capacity wd = 0)) →
    Post (moveAssign cfg c d) m (MoveAssignPost cfg Ok c d m ys wc)
  /-- `c.swap(d)` between two containers of this type -/
  swap : ∀ (m : Mem α) (c d : Nat) (xs ys : List α) (wc wd : VB), c ≠ d → VRepW cfg Ok c m xs wc → VRepW cfg Ok d m ys wd →
    Post (swapSame cfg c d) m (SwapPost cfg Ok c d m xs ys)
  /-- `Vector(Vector&& d)` into slot `c` -/
  moveConstruct : ∀ (m : Mem α) (c d : Nat) (ys : List α) (wd : VB), c ≠ d → c < m.ws.length →
    (cfg.flavour ≠ .std → m.buf (.inl c) = some (raws cfg.n)) → VRepW cfg Ok d m ys wd →
    Post (moveConstruct cfg c d) m (MoveCtorPost cfg Ok c d m ys wd)

/-- the law packages of the generated members (`Bridge/`), by flavour -/
inductive FlavLaws (α : Type) (cfg : Cfg) (Ok : VB → Prop) : Prop
  /-- SmallVector: `Bridge/VecLaws*`, `ShrinkLaws*`, `MoveLaws*` -/
  | small (fl : cfg.flavour = .small) (ok : Ok = SOkW cfg.ops cfg.n) (vec : VecLaws α cfg Ok) (shrink : ShrinkLaws cfg Ok)
      (words : SmallLaws cfg.ops cfg.n) (move : MoveLaws cfg.ops cfg.n)
  /-- `amc::vector`: `Bridge/VecLaws*`, `ShrinkLaws*`, `MoveLawsStdFixed*`; the constructor leaves "no storage", the destructor
      returns the block -/
  | std (fl : cfg.flavour = .std) (ok : Ok = DOkW cfg.ops.kMax) (vec : VecLaws α cfg Ok) (shrink : ShrinkLaws cfg Ok)
      (words : StdLaws cfg.ops) (move : StdMoveLaws cfg.ops) (ctor : cfg.ops.ctor cfg.n = nullW)
      (dtor : ∀ t, (cfg.ops.dtor t).2 = if t.dyn ≠ PtrV.null then [Eff.dealloc t.dyn t.capa] else [])
  /-- FixedCapacityVector (`0 < N ≤ kMax`): `Bridge/VecLaws*`, `ShrinkLaws*`, `MoveLawsStdFixed*`; the destructor emits nothing -/
  | fixed (fl : cfg.flavour = .fixed) (ok : Ok = FOkG cfg.ops.kMax cfg.n) (vec : VecLaws α cfg Ok) (shrink : ShrinkLaws cfg Ok)
      (words : FixedLaws cfg.ops) (move : FixedMoveLaws cfg.ops) (dtor : ∀ t, (cfg.ops.dtor t).2 = [])
      (hN : 0 < cfg.n) (hk : cfg.n ≤ cfg.ops.kMax)

namespace HSlotLaws

/-- SmallVector (VecOpsE.lean) -/
theorem small {cfg : Cfg} (fl : cfg.flavour = .small) (vec : VecLaws α cfg (SOkW cfg.ops cfg.n))
    (shrink : ShrinkLaws cfg (SOkW cfg.ops cfg.n)) (L : SmallLaws cfg.ops cfg.n) (ML : MoveLaws cfg.ops cfg.n) :
    HSlotLaws α cfg (SOkW cfg.ops cfg.n) := by
  obtain ⟨hrep, hsz, hcap, hsm⟩ := L.ctor
  have hbeg : cfg.ops.begin (cfg.ops.ctor cfg.n) = .inl 0 := by rw [L.begin_small, hsm]; rfl
  refine ⟨vec, fun c w hok hc id hr => SOkP.null L c w hok hc id hr, shrink, ?_, ?_, ?_, ⟨hrep, fun hf => (by rw [hsm] at hf; cases hf)⟩,
    hsz, fun h => (by rw [fl] at h; cases h), fun _ => ⟨hcap, hbeg⟩, ?_, ?_, ?_⟩
  · intro m c xs w h
    refine Post.mono (destruct_small_cnt (P := fun _ => True) fl L m c xs w h) ?_
    rintro res m' ⟨hr, hblk, hinl, hoth, hws, hcat, hhr, hnid, hsub, hcnt⟩
    exact ⟨hr, fun id hid hp => (hblk id hid hp).1, fun _ => hinl, hoth, hws, hcat, hhr, hnid, hsub, hcnt⟩
  · intro m1 c hlen hinl
    refine VRepW.inline (P := fun _ => True) L ?_ hrep hsm hsz ?_
    · show (m1.ws.set c _)[c]? = _
      simp [hlen]
    · rw [withWs_buf, hinl (by rw [fl]; simp)]; simp [lives]
  · intro m c hws
    exact OwnsBlk.small_none L hws hsm
  · intro m c d xs ys wc wd hne hc hd hdisj
    exact moveAssign_small (P := fun _ => True) fl L ML m c d xs ys wc wd hne hc hd hdisj
  · intro m c d xs ys wc wd hne hc hd
    exact swapSame_small (P := fun _ => True) fl L ML m c d xs ys wc wd hne hc hd
  · intro m c d ys wd hne hc hraw hd
    exact moveConstruct_small (P := fun _ => True) fl L ML m c d ys wd hne hc (hraw (by rw [fl]; simp)) hd

/-- `amc::vector` (VecOpsG.lean) -/
theorem std {cfg : Cfg} (fl : cfg.flavour = .std) (vec : VecLaws α cfg (DOkW cfg.ops.kMax))
    (shrink : ShrinkLaws cfg (DOkW cfg.ops.kMax)) (L : StdLaws cfg.ops) (ML : StdMoveLaws cfg.ops)
    (hctor : cfg.ops.ctor cfg.n = nullW)
    (hdtor : ∀ t, (cfg.ops.dtor t).2 = if t.dyn ≠ PtrV.null then [Eff.dealloc t.dyn t.capa] else []) :
    HSlotLaws α cfg (DOkW cfg.ops.kMax) := by
  refine ⟨vec, fun c w hok hc id hr => DOkP.null L c w hok hc id hr, shrink, ?_, ?_, ?_, (by rw [hctor]; exact nullW_ok _ _),
    (by rw [hctor, L.size_eq]; rfl), fun _ => (by rw [hctor, L.cap_eq]; rfl), fun h => absurd fl h, ?_, ?_, ?_⟩
  · intro m c xs w h
    refine Post.mono (destruct_post_cnt m c xs w h (DtorSpec.std (P := fun _ => True) L hdtor h.ok)) ?_
    rintro res m' ⟨hr, hblk, _, hoth, hws, hcat, hhr, hnid, hsub, hcnt⟩
    exact ⟨hr, fun id hid hp => (hblk id hid hp).1, fun h => absurd fl h, hoth, hws, hcat, hhr, hnid, hsub, hcnt⟩
  · intro m1 c hlen _
    have hws : (freshAt cfg c m1).ws[c]? = some nullW := by
      show (m1.ws.set c _)[c]? = _
      rw [hctor]; simp [hlen]
    have := VRepW.stdEmpty (P := fun _ => True) fl L hws
    rw [hctor]; exact this
  · intro m c hws
    rw [hctor] at hws
    exact OwnsBlk.null_none L hws
  · intro m c d xs ys wc wd hne hc hd hdisj
    refine Post.mono (moveAssign_std (P := fun _ => True) fl L ML m c d xs ys wc wd hne hc hd ?_) (fun _ _ h => h.1)
    rcases hdisj with h1 | h1
    · exact Or.inl h1
    · exact Or.inr h1.1
  · intro m c d xs ys wc wd hne hc hd
    exact Post.mono (swapSame_std (P := fun _ => True) fl L ML m c d xs ys wc wd hne hc hd) (fun _ _ h => h.1)
  · intro m c d ys wd hne hc _ hd
    exact Post.mono (moveConstruct_std (P := fun _ => True) fl L ML m c d ys wd hne hc hd) (fun _ _ h => h.1)

/-- FixedCapacityVector of capacity `0 < N ≤ kMax` (VecOpsG.lean) -/
theorem fixed {cfg : Cfg} (fl : cfg.flavour = .fixed) (vec : VecLaws α cfg (FOkG cfg.ops.kMax cfg.n))
    (shrink : ShrinkLaws cfg (FOkG cfg.ops.kMax cfg.n)) (L : FixedLaws cfg.ops) (ML : FixedMoveLaws cfg.ops)
    (hdtor : ∀ t, (cfg.ops.dtor t).2 = []) (hN : 0 < cfg.n) (hk : cfg.n ≤ cfg.ops.kMax) :
    HSlotLaws α cfg (FOkG cfg.ops.kMax cfg.n) := by
  have hns : cfg.flavour ≠ .std := by rw [fl]; simp
  refine ⟨vec, NullAt0.ofInline L.begin_eq, shrink, ?_, ?_, ?_, (by rw [ML.ctor]; exact ⟨Nat.zero_le _, rfl, hk⟩),
    (by rw [ML.ctor, L.size_eq]), fun h => absurd h hns, fun _ => ⟨(by rw [ML.ctor, L.cap_eq]), L.begin_eq _⟩, ?_, ?_, ?_⟩
  · intro m c xs w h
    refine Post.mono (destruct_post_cnt m c xs w h (Or.inr (Or.inr ⟨L.begin_eq w, hdtor w⟩))) ?_
    rintro res m' ⟨hr, hblk, hinl, hoth, hws, hcat, hhr, hnid, hsub, hcnt⟩
    refine ⟨hr, fun id hid hp => (hblk id hid hp).1, fun _ => ?_, hoth, hws, hcat, hhr, hnid, hsub, hcnt⟩
    have hcap : cfg.ops.capacity w = cfg.n := by rw [L.cap_eq]; exact h.ok.2.1
    have := hinl (regionOf_fixed L c w) (by omega)
    rw [hcap] at this; exact this
  · intro m1 c hlen hinl
    have hws : (freshAt cfg c m1).ws[c]? = some ⟨cfg.n, 0, PtrV.null⟩ := by
      show (m1.ws.set c _)[c]? = _
      rw [ML.ctor]; simp [hlen]
    have := VRepW.fixed (zs := []) L hws ⟨Nat.zero_le _, rfl, hk⟩ rfl (by rw [withWs_buf, hinl hns]; simp [lives])
    rw [ML.ctor]; exact this
  · intro m c _ id
    exact OwnsBlk.fixed_none L id
  · intro m c d xs ys wc wd hne hc hd _
    exact moveAssign_fixed L ML m c d xs ys wc wd hne hc hd
  · intro m c d xs ys wc wd hne hc hd
    exact swapSame_fixed L ML m c d xs ys wc wd hne hc hd
  · intro m c d ys wd hne hc hraw hd
    exact moveConstruct_fixed L ML m c d ys wd hne hc (hraw hns) hd

end HSlotLaws

namespace FlavLaws
variable {cfg : Cfg} {Ok : VB → Prop}

/-- the flavour's law package gives the slot laws -/
theorem toSlot (F : FlavLaws α cfg Ok) : HSlotLaws α cfg Ok := by
  cases F with
  | small fl ok vec shrink words move => subst ok; exact HSlotLaws.small fl vec shrink words move
  | std fl ok vec shrink words move ctor dtor => subst ok; exact HSlotLaws.std fl vec shrink words move ctor dtor
  | fixed fl ok vec shrink words move dtor hN hk => subst ok; exact HSlotLaws.fixed fl vec shrink words move dtor hN hk

/-- the word invariant is determined by the configuration -/
theorem ok_eq {Ok' : VB → Prop} (F : FlavLaws α cfg Ok) (F' : FlavLaws α cfg Ok') : Ok = Ok' := by
  cases F with
  | small fl ok _ _ _ _ =>
    cases F' with
    | small _ ok' _ _ _ _ => rw [ok, ok']
    | std fl' _ _ _ _ _ _ _ => rw [fl] at fl'; cases fl'
    | fixed fl' _ _ _ _ _ _ _ _ => rw [fl] at fl'; cases fl'
  | std fl ok _ _ _ _ _ _ =>
    cases F' with
    | small fl' _ _ _ _ _ => rw [fl] at fl'; cases fl'
    | std _ ok' _ _ _ _ _ _ => rw [ok, ok']
    | fixed fl' _ _ _ _ _ _ _ _ => rw [fl] at fl'; cases fl'
  | fixed fl ok _ _ _ _ _ _ _ =>
    cases F' with
    | small fl' _ _ _ _ _ => rw [fl] at fl'; cases fl'
    | std fl' _ _ _ _ _ _ _ => rw [fl] at fl'; cases fl'
    | fixed _ ok' _ _ _ _ _ _ _ => rw [ok, ok']

/-- the words written by the buffer-exchanging branch of `swap2_impl` are valid for the receiving type, for ANY two slot types -/
theorem exch {ca cb : Cfg} {OkA OkB : VB → Prop} (FA : FlavLaws α ca OkA) (FB : FlavLaws α cb OkB) :
    ExchangeLaws ca cb OkA OkB := by
  cases FA with
  | fixed fl _ _ _ _ _ _ _ _ => exact ExchangeLaws.ofFixedA fl
  | small fla oka _ _ wa _ =>
    cases FB with
    | fixed fl _ _ _ _ _ _ _ _ => exact ExchangeLaws.ofFixedB fl
    | small flb okb _ _ wb _ => subst oka; subst okb; exact ExchangeLaws.small_small (P := fun _ => True) fla flb wa wb
    | std flb okb _ _ wb _ _ _ => subst oka; subst okb; exact ExchangeLaws.small_std (P := fun _ => True) fla flb wa wb
  | std fla oka _ _ wa _ _ _ =>
    cases FB with
    | fixed fl _ _ _ _ _ _ _ _ => exact ExchangeLaws.ofFixedB fl
    | small flb okb _ _ wb _ => subst oka; subst okb; exact ExchangeLaws.std_small (P := fun _ => True) fla flb wa wb
    | std flb okb _ _ wb _ _ _ => subst oka; subst okb; exact ExchangeLaws.std_std (P := fun _ => True) wa wb

end FlavLaws

/-- the laws of a heterogeneous pool: the slot laws of every slot type, `ExchangeLaws` for every ordered pair of different slots,
    and "equal configurations have equal word invariants" -/
structure HPoolLaws (α : Type) (cfgs : Nat → Cfg) (Oks : Nat → VB → Prop) (P : Nat) : Prop where
  slot : ∀ i, i < P → HSlotLaws α (cfgs i) (Oks i)
  exch : ∀ i j, i < P → j < P → i ≠ j → ExchangeLaws (cfgs i) (cfgs j) (Oks i) (Oks j)
  okEq : ∀ i j, i < P → j < P → cfgs i = cfgs j → Oks i = Oks j

/-- from the flavour law packages of the slots (all instantiated in `Bridge/`) -/
theorem HPoolLaws.ofFlav {cfgs : Nat → Cfg} {Oks : Nat → VB → Prop} {P : Nat} (F : ∀ i, i < P → FlavLaws α (cfgs i) (Oks i)) :
    HPoolLaws α cfgs Oks P :=
  ⟨fun i hi => (F i hi).toSlot, fun i j hi hj _ => (F i hi).exch (F j hj),
    fun i j hi hj hc => (F i hi).ok_eq (hc ▸ F j hj)⟩

theorem HPoolLaws.nullAll {cfgs : Nat → Cfg} {Oks : Nat → VB → Prop} {P : Nat} (PL : HPoolLaws α cfgs Oks P) :
    ∀ k, k < P → NullAt0 (cfgs k) (Oks k) := fun k hk => (PL.slot k hk).null

/-- the homogeneous law package is a heterogeneous one -/
theorem PoolLaws.toH {cfg : Cfg} (PL : PoolLaws α cfg) (P : Nat) :
    HPoolLaws α (fun _ => cfg) (fun _ => SOkW cfg.ops cfg.n) P :=
  HPoolLaws.ofFlav (fun _ _ => FlavLaws.small PL.fl rfl PL.vec PL.shrink PL.small PL.move)

/-! ### one operation -/

theorem VRepW.cast {cfg cfg' : Cfg} {Ok Ok' : VB → Prop} {c : Nat} {m : Mem α} {xs : List α} {w : VB} (hc : cfg = cfg')
    (ho : Ok = Ok') (h : VRepW cfg Ok c m xs w) : VRepW cfg' Ok' c m xs w := by subst hc; subst ho; exact h

theorem HAcct2.castB {ca cb cb' : Cfg} {c d : Nat} {m m' : Mem α} (hc : cb = cb') (h : HAcct2 ca cb c d m m') :
    HAcct2 ca cb' c d m m' := by subst hc; exact h

/-- outcome of one pool operation: it took effect and the pool holds the abstract result; or it threw a C++ exception and the
    pool holds a state its exception guarantee allows; never a lifetime fault; in both cases `HPoolRep`: every container valid,
    none disturbed by an operation on another, no block shared, no block leaked -/
def HPoolStepPost (cfgs : Nat → Cfg) (Oks : Nat → VB → Prop) (P n0 : Nat) (m : Mem α) (xss : List (List α)) (op : HPoolOp α) :
    Except Stop Unit → Mem α → Prop :=
  fun res m' => ((res = .ok () ∧ HPoolRep cfgs Oks P n0 m' (op.spec xss)) ∨
                 (∃ e yss, res = .error (.exc e) ∧ op.exc xss yss ∧ HPoolRep cfgs Oks P n0 m' yss))
                ∧ m'.cat = m.cat

section steps
variable {cfgs : Nat → Cfg} {Oks : Nat → VB → Prop} {P n0 : Nat} {m : Mem α} {xss : List (List α)}

/-- a single-container operation on slot `i` (of whatever type) -/
theorem hpool_one (PL : HPoolLaws α cfgs Oks P) (h : HPoolRep cfgs Oks P n0 m xss) (i : Nat) (o : OpSpec α)
    (hpre : (HPoolOp.one i o).pre cfgs xss) (hcat : o.nonTC = true → m.cat ≠ .tc) :
    Post (o.run (cfgs i) i) m (HPoolStepPost cfgs Oks P n0 m xss (.one i o)) := by
  obtain ⟨hil, hop, hp⟩ := hpre
  have hi : i < P := by rw [← h.len]; exact hil
  obtain ⟨w, hw⟩ := h.rep i _ (sel_get hil)
  refine Post.mono ((hop.ok (PL.slot i hi).vec) m i (sel xss i) w hw h.inv hp hcat) ?_
  rintro res m' ⟨hq, _, hc1, hfr1⟩
  refine ⟨?_, hc1⟩
  rcases hq with ⟨hr, hv1⟩ | ⟨e, xs'', he, hv1, hst⟩
  · exact Or.inl ⟨hr, h.step1 PL.nullAll hi hw hv1 hfr1.toI⟩
  · exact Or.inr ⟨e, _, he, ⟨xs'', rfl, hst⟩, h.step1 PL.nullAll hi hw hv1 hfr1.toI⟩

/-- `shrink_to_fit` on slot `i` -/
theorem hpool_shrink (PL : HPoolLaws α cfgs Oks P) (h : HPoolRep cfgs Oks P n0 m xss) (i : Nat)
    (hpre : (HPoolOp.shrink i : HPoolOp α).pre cfgs xss) :
    Post (shrinkToFit (cfgs i) i) m (HPoolStepPost cfgs Oks P n0 m xss (.shrink i)) := by
  have hil : i < xss.length := hpre
  have hi : i < P := by rw [← h.len]; exact hil
  obtain ⟨w, hw⟩ := h.rep i _ (sel_get hil)
  refine Post.mono (shrinkToFit_post (PL.slot i hi).vec (PL.slot i hi).shrink m i (sel xss i) w hw h.inv.fresh) ?_
  rintro res m' ⟨hq, hfr⟩
  refine ⟨?_, hfr.cat⟩
  rcases hq with ⟨hr, hv1⟩ | ⟨e, he, hv1⟩
  · refine Or.inl ⟨hr, ?_⟩
    have := h.step1 PL.nullAll hi hw hv1 hfr
    rw [set_sel_self (sel_get hil)] at this
    exact this
  · refine Or.inr ⟨e, xss, he, rfl, ?_⟩
    have := h.step1 PL.nullAll hi hw hv1 hfr
    rw [set_sel_self (sel_get hil)] at this
    exact this

/-- **`v_i.swap2(v_j)` between ANY two slots** (`swap2_post`): the lists are exchanged, or an exception was thrown and the pool
    holds what it held; in both cases nobody else is disturbed and nothing is leaked -/
theorem hpool_swap2 (PL : HPoolLaws α cfgs Oks P) (h : HPoolRep cfgs Oks P n0 m xss) (i j : Nat)
    (hpre : (HPoolOp.swap2 i j : HPoolOp α).pre cfgs xss) :
    Post (swap2 (cfgs i) (cfgs j) i j) m (HPoolStepPost cfgs Oks P n0 m xss (.swap2 i j)) := by
  obtain ⟨hil, hjl, hij⟩ := hpre
  have hi : i < P := by rw [← h.len]; exact hil
  have hj : j < P := by rw [← h.len]; exact hjl
  obtain ⟨wi, hwi⟩ := h.rep i _ (sel_get hil)
  obtain ⟨wj, hwj⟩ := h.rep j _ (sel_get hjl)
  refine Post.mono (swap2_post (PL.slot i hi).vec (PL.slot j hj).vec (PL.slot i hi).null (PL.slot j hj).null
    (PL.exch i j hi hj hij) ⟨hwi, hwj, h.sep2 hij hi hj⟩) ?_
  rintro res m' ⟨hq, hsep', hfr⟩
  refine ⟨?_, hfr.cat⟩
  rcases hq with ⟨hr, hvi, hvj⟩ | ⟨e, he, hvi, hvj⟩
  · refine Or.inl ⟨hr, ?_⟩
    have := h.stepSwap2 PL.nullAll hij hi hj hwi hwj hvi hvj hsep' hfr
    simpa [HPoolOp.spec, hij] using this
  · refine Or.inr ⟨e, xss, he, rfl, ?_⟩
    have := h.stepSwap2 PL.nullAll hij hi hj hwi hwj hvi hvj hsep' hfr
    rw [set_sel_self (sel_get hil), set_sel_self (sel_get hjl)] at this
    exact this

/-- `v_i = v_j` (same type) -/
theorem hpool_copyAssign (PL : HPoolLaws α cfgs Oks P) (h : HPoolRep cfgs Oks P n0 m xss) (i j : Nat)
    (hpre : (HPoolOp.copyAssign i j : HPoolOp α).pre cfgs xss) (hcat : m.cat ≠ .tc) :
    Post (copyAssign (cfgs i) i j) m (HPoolStepPost cfgs Oks P n0 m xss (.copyAssign i j)) := by
  obtain ⟨hil, hjl, hc⟩ := hpre
  by_cases hij : i = j
  · subst hij
    refine Post.mono (copyAssign_self (cfgs i) m i) ?_
    rintro res m' ⟨hr, rfl⟩
    exact ⟨Or.inl ⟨hr, by simpa [HPoolOp.spec] using h⟩, rfl⟩
  · have hi : i < P := by rw [← h.len]; exact hil
    have hj : j < P := by rw [← h.len]; exact hjl
    have hO := PL.okEq i j hi hj hc
    obtain ⟨w, hw⟩ := h.rep i _ (sel_get hil)
    obtain ⟨wd, hd⟩ := h.rep j _ (sel_get hjl)
    refine Post.mono (copyAssign_post (PL.slot i hi).vec m i j (sel xss i) (sel xss j) w wd hw (hd.cast hc.symm hO.symm)
      h.inv.fresh hcat hij) ?_
    rintro res m' ⟨hq, hfr⟩
    refine ⟨?_, hfr.cat⟩
    rcases hq with ⟨hr, hv1⟩ | ⟨e, xs'', he, hv1⟩
    · refine Or.inl ⟨hr, ?_⟩
      have := h.step1 PL.nullAll hi hw hv1 hfr.toI
      simpa [HPoolOp.spec, hij] using this
    · exact Or.inr ⟨e, _, he, ⟨hij, xs'', rfl⟩, h.step1 PL.nullAll hi hw hv1 hfr.toI⟩

/-- the storages of two different slots are distinct (or both empty) -/
theorem HPoolRep.disjPair (PL : HPoolLaws α cfgs Oks P) (h : HPoolRep cfgs Oks P n0 m xss) {i j : Nat} (hij : i ≠ j)
    (hi : i < P) (hj : j < P) {wi wj : VB} {xs ys : List α} (hwi : VRepW (cfgs i) (Oks i) i m xs wi)
    (hwj : VRepW (cfgs j) (Oks j) j m ys wj) :
    regionOf (cfgs i) i wi ≠ regionOf (cfgs j) j wj ∨ ((cfgs i).ops.capacity wi = 0 ∧ (cfgs j).ops.capacity wj = 0) := by
  rcases Nat.eq_zero_or_pos ((cfgs j).ops.capacity wj) with hj0 | hjp
  · rcases Nat.eq_zero_or_pos ((cfgs i).ops.capacity wi) with hi0 | hip
    · exact Or.inr ⟨hi0, hj0⟩
    · exact Or.inl (h.sep PL.nullAll hij hj hi hwj hwi hip)
  · exact Or.inl (Ne.symm (h.sep PL.nullAll (Ne.symm hij) hi hj hwi hwj hjp))

/-- `v_i = std::move(v_j)` (same type) -/
theorem hpool_moveAssign (PL : HPoolLaws α cfgs Oks P) (h : HPoolRep cfgs Oks P n0 m xss) (i j : Nat)
    (hpre : (HPoolOp.moveAssign i j : HPoolOp α).pre cfgs xss) :
    Post (moveAssign (cfgs i) i j) m (HPoolStepPost cfgs Oks P n0 m xss (.moveAssign i j)) := by
  obtain ⟨hil, hjl, hc⟩ := hpre
  by_cases hij : i = j
  · subst hij
    refine Post.mono (moveAssign_self (cfgs i) m i) ?_
    rintro res m' ⟨hr, rfl⟩
    exact ⟨Or.inl ⟨hr, by simpa [HPoolOp.spec] using h⟩, rfl⟩
  · have hi : i < P := by rw [← h.len]; exact hil
    have hj : j < P := by rw [← h.len]; exact hjl
    have hO := PL.okEq i j hi hj hc
    obtain ⟨wi, hwi⟩ := h.rep i _ (sel_get hil)
    obtain ⟨wj, hwj⟩ := h.rep j _ (sel_get hjl)
    have hdp := h.disjPair PL hij hi hj hwi hwj
    rw [← hc] at hdp
    refine Post.mono ((PL.slot i hi).moveAssign m i j (sel xss i) (sel xss j) wi wj hij hwi (hwj.cast hc.symm hO.symm) hdp) ?_
    rintro res m' ⟨hr, wc', wd', h1, h2, hfr, _, hacct⟩
    refine ⟨Or.inl ⟨hr, ?_⟩, hfr.cat⟩
    have hacct2 : HAcct2 (cfgs i) (cfgs i) i j m m' := by
      refine ⟨?_, fun id hid ho => Or.inl (hacct.kept id hid ho), fun id hb => hacct.dNone id hb.2⟩
      rintro id (ho | ho)
      · exact hacct.origin id ho
      · exact absurd ho (hacct.dNone id)
    have := h.step2 PL.nullAll hij hi hj hwi hwj ⟨wc', h1⟩ ⟨wd', h2.cast hc hO⟩ hfr (by
      intro r hr'
      simp only [List.mem_cons, List.not_mem_nil, or_false] at hr'
      rcases hr' with e | e | e
      · exact Or.inl e
      · exact Or.inr (Or.inr (Or.inl e))
      · exact Or.inr (Or.inr (Or.inr e))) (hacct2.castB hc)
    simpa [HPoolOp.spec, hij] using this

/-- `v_i.swap(v_j)` (same type) -/
theorem hpool_swap (PL : HPoolLaws α cfgs Oks P) (h : HPoolRep cfgs Oks P n0 m xss) (i j : Nat)
    (hpre : (HPoolOp.swap i j : HPoolOp α).pre cfgs xss) :
    Post (swapSame (cfgs i) i j) m (HPoolStepPost cfgs Oks P n0 m xss (.swap i j)) := by
  obtain ⟨hil, hjl, hc⟩ := hpre
  by_cases hij : i = j
  · subst hij
    refine Post.mono (swapSame_self (cfgs i) m i) ?_
    rintro res m' ⟨hr, rfl⟩
    exact ⟨Or.inl ⟨hr, by simpa [HPoolOp.spec] using h⟩, rfl⟩
  · have hi : i < P := by rw [← h.len]; exact hil
    have hj : j < P := by rw [← h.len]; exact hjl
    have hO := PL.okEq i j hi hj hc
    obtain ⟨wi, hwi⟩ := h.rep i _ (sel_get hil)
    obtain ⟨wj, hwj⟩ := h.rep j _ (sel_get hjl)
    refine Post.mono ((PL.slot i hi).swap m i j (sel xss i) (sel xss j) wi wj hij hwi (hwj.cast hc.symm hO.symm)) ?_
    rintro res m' ⟨hr, wc', wd', h1, h2, hfr, hoi, hoj⟩
    refine ⟨Or.inl ⟨hr, ?_⟩, hfr.cat⟩
    have hdj : ∀ id, OwnsBlk (cfgs i) j m id → OwnsBlk (cfgs j) j m id := fun id ho => by rw [← hc]; exact ho
    have hacct2 : HAcct2 (cfgs i) (cfgs i) i j m m' := by
      refine ⟨?_, ?_, ?_⟩
      · rintro id (ho | ho)
        · exact Or.inr ((hoi id).mp ho)
        · exact Or.inl ((hoj id).mp ho)
      · rintro id _ (ho | ho)
        · exact Or.inr ((hoj id).mpr ho)
        · exact Or.inl ((hoi id).mpr ho)
      · rintro id ⟨ho1, ho2⟩
        exact hij (h.disj i j id hi hj ((hoj id).mp ho2) (hdj id ((hoi id).mp ho1)))
    have := h.step2 PL.nullAll hij hi hj hwi hwj ⟨wc', h1⟩ ⟨wd', h2.cast hc hO⟩ hfr (by
      intro r hr'
      simp only [List.mem_cons, List.not_mem_nil, or_false] at hr'
      rcases hr' with e | e
      · exact Or.inr (Or.inr (Or.inl e))
      · exact Or.inr (Or.inr (Or.inr e))) (hacct2.castB hc)
    simpa [HPoolOp.spec, hij] using this

/-- `~Vector()` on slot `i`, followed by a program `k` that starts by constructing the slot anew: `k` runs in a memory `m1` whose
    slot `i` is registered and (unless it is an `amc::vector`) has an all-raw inline storage, and such that with fresh words
    installed in slot `i` the pool is valid with slot `i` empty -/
theorem hpool_destruct_then (PL : HPoolLaws α cfgs Oks P) (h : HPoolRep cfgs Oks P n0 m xss) (i : Nat) (hil : i < xss.length)
    (k : M α Unit) (Q : Except Stop Unit → Mem α → Prop)
    (hk : ∀ m1 : Mem α, i < m1.ws.length → ((cfgs i).flavour ≠ .std → m1.buf (.inl i) = some (raws (cfgs i).n)) →
      m1.cat = m.cat → VRepW (cfgs i) (Oks i) i (freshAt (cfgs i) i m1) [] ((cfgs i).ops.ctor (cfgs i).n) →
      HPoolRep cfgs Oks P n0 (freshAt (cfgs i) i m1) (xss.set i []) → Post k m1 Q) :
    Post (do destruct (cfgs i) i; k) m Q := by
  have hi : i < P := by rw [← h.len]; exact hil
  obtain ⟨w, hw⟩ := h.rep i _ (sel_get hil)
  have SL := PL.slot i hi
  refine Post.bind (SL.destruct m i (sel xss i) w hw) ?_ (by rintro e m1 ⟨he, _⟩; cases he)
  rintro _ m1 ⟨_, hd⟩
  have hlen : i < m1.ws.length := by rw [hd.ws, List.length_set]; exact Cross.getElem?_lt hw.ws
  have hv1 := SL.fresh m1 i hlen hd.inl
  refine hk m1 hlen hd.inl hd.cat hv1 ?_
  refine h.reset PL.nullAll hi hw (fun id hid hp => by rw [withWs_buf]; exact hd.blk id hid hp)
    (fun r' h1 _ => by rw [withWs_buf]; exact hd.other r' h1) ?_ hd.cat hd.hr hd.nid
    (fun id hid => hd.sub id (by rwa [withWs_buf] at hid))
    (fun id hne => (withWs_cnt _ _ _).trans (hd.cnt id hne)) hv1 (SL.freshNone _ i hv1.ws)
  show m1.ws.set i _ = _
  rw [hd.ws, List.set_set]

/-- `v_i.~Vector(); new (&v_i) Vector()` -/
theorem hpool_reset (PL : HPoolLaws α cfgs Oks P) (h : HPoolRep cfgs Oks P n0 m xss) (i : Nat)
    (hpre : (HPoolOp.reset i : HPoolOp α).pre cfgs xss) :
    Post (do destruct (cfgs i) i; construct (cfgs i) i) m (HPoolStepPost cfgs Oks P n0 m xss (.reset i)) := by
  refine hpool_destruct_then PL h i hpre _ _ ?_
  intro m1 _ _ hcat _ hp
  unfold construct
  refine Post.mono (setW_post m1 i _) ?_
  rintro res m2 ⟨hr, rfl⟩
  exact ⟨Or.inl ⟨hr, hp⟩, hcat⟩

/-- `v_i.~Vector(); new (&v_i) Vector(std::move(v_j))` (same type) -/
theorem hpool_moveConstruct (PL : HPoolLaws α cfgs Oks P) (h : HPoolRep cfgs Oks P n0 m xss) (i j : Nat)
    (hpre : (HPoolOp.moveConstruct i j : HPoolOp α).pre cfgs xss) :
    Post (do destruct (cfgs i) i; moveConstruct (cfgs i) i j) m (HPoolStepPost cfgs Oks P n0 m xss (.moveConstruct i j)) := by
  obtain ⟨hil, hjl, hij, hc⟩ := hpre
  have hi : i < P := by rw [← h.len]; exact hil
  have hj : j < P := by rw [← h.len]; exact hjl
  have hO := PL.okEq i j hi hj hc
  have SL := PL.slot i hi
  refine hpool_destruct_then PL h i hil _ _ ?_
  intro m1 hlen hinl hcat hvi hp
  have hjl' : j < (xss.set i []).length := by rw [List.length_set]; exact hjl
  have hselj : sel (xss.set i []) j = sel xss j := by unfold sel; rw [List.getElem?_set_ne hij]
  obtain ⟨wj, hwjc⟩ := hp.rep j _ (sel_get hjl')
  rw [hselj] at hwjc
  have hwj1 : VRepW (cfgs j) (Oks j) j m1 (sel xss j) wj :=
    hwjc.congrMem (by show m1.ws[j]? = (m1.ws.set i _)[j]?; rw [List.getElem?_set_ne hij]) (withWs_buf _ _).symm (fun _ => rfl)
  refine Post.mono (SL.moveConstruct m1 i j (sel xss j) wj hij hlen hinl (hwj1.cast hc.symm hO.symm)) ?_
  rintro res m2 ⟨hr, wc', wd', h1, h2, _, hfr, _, _, hoi, hoj⟩
  refine ⟨Or.inl ⟨hr, ?_⟩, hfr.cat.trans hcat⟩
  have hfr' : Frame2 i j [.inl i, .inl j] (freshAt (cfgs i) i m1) m2 :=
    ⟨hfr.cat, hfr.hr, hfr.nid, by rw [hfr.wsLen]; simp, fun e he1 he2 => by
      rw [hfr.wsOther e he1 he2]; show m1.ws[e]? = (m1.ws.set i _)[e]?; rw [List.getElem?_set_ne (Ne.symm he1)],
      fun r' hr' => by rw [withWs_buf]; exact hfr.bufOther r' hr', fun id hid => by rw [withWs_buf]; exact hfr.blocks id hid,
      fun id hid => (hfr.cnt id hid).trans (withWs_cnt _ _ _).symm⟩
  have hojc : ∀ id, OwnsBlk (cfgs i) j (freshAt (cfgs i) i m1) id ↔ OwnsBlk (cfgs i) j m1 id :=
    fun id => OwnsBlk.congr (by show (m1.ws.set i _)[j]? = m1.ws[j]?; rw [List.getElem?_set_ne hij]) id
  have hacct2 : HAcct2 (cfgs i) (cfgs i) i j (freshAt (cfgs i) i m1) m2 := by
    refine ⟨?_, ?_, fun id hb => hoj id hb.2⟩
    · rintro id (ho | ho)
      · exact Or.inr ((hojc id).mpr ((hoi id).mp ho))
      · exact absurd ho (hoj id)
    · rintro id _ (ho | ho)
      · exact absurd ho (SL.freshNone _ i hvi.ws id)
      · exact Or.inl ((hoi id).mpr ((hojc id).mp ho))
  have := hp.step2 PL.nullAll hij hi hj hvi hwjc ⟨wc', h1⟩ ⟨wd', h2.cast hc hO⟩ hfr' (by
    intro r hr'
    simp only [List.mem_cons, List.not_mem_nil, or_false] at hr'
    rcases hr' with e | e
    · exact Or.inr (Or.inr (Or.inl e))
    · exact Or.inr (Or.inr (Or.inr e))) (hacct2.castB hc)
  rw [List.set_set] at this
  exact this

/-- `v_i.~Vector(); new (&v_i) Vector(v_j)` (same type) -/
theorem hpool_copyConstruct (PL : HPoolLaws α cfgs Oks P) (h : HPoolRep cfgs Oks P n0 m xss) (i j : Nat)
    (hpre : (HPoolOp.copyConstruct i j : HPoolOp α).pre cfgs xss) :
    Post (do destruct (cfgs i) i; copyConstruct (cfgs i) i j) m (HPoolStepPost cfgs Oks P n0 m xss (.copyConstruct i j)) := by
  obtain ⟨hil, hjl, hij, hc⟩ := hpre
  have hi : i < P := by rw [← h.len]; exact hil
  have hj : j < P := by rw [← h.len]; exact hjl
  have hO := PL.okEq i j hi hj hc
  have SL := PL.slot i hi
  refine hpool_destruct_then PL h i hil _ _ ?_
  intro m1 hlen hinl hcat hvi hp
  have hjl' : j < (xss.set i []).length := by rw [List.length_set]; exact hjl
  have hselj : sel (xss.set i []) j = sel xss j := by unfold sel; rw [List.getElem?_set_ne hij]
  obtain ⟨wj, hwjc⟩ := hp.rep j _ (sel_get hjl')
  rw [hselj] at hwjc
  have hwj1 : VRepW (cfgs j) (Oks j) j m1 (sel xss j) wj :=
    hwjc.congrMem (by show m1.ws[j]? = (m1.ws.set i _)[j]?; rw [List.getElem?_set_ne hij]) (withWs_buf _ _).symm (fun _ => rfl)
  have hf1 : Fresh m1 := fun id hid => hp.inv.fresh id (by rw [withWs_buf]; exact hid)
  refine Post.mono (copyConstruct_post SL.vec m1 i j (sel xss j) wj (hwj1.cast hc.symm hO.symm) hf1 hlen hinl SL.ctorOk SL.ctorSize
    SL.ctorStd SL.ctorInl) ?_
  rintro res m2 ⟨hq, hfr⟩
  refine ⟨?_, hfr.cat.trans hcat⟩
  rcases hq with ⟨hr, hv2⟩ | ⟨e, he, hv2⟩
  · refine Or.inl ⟨hr, ?_⟩
    have := hp.step1 PL.nullAll hi hvi hv2 hfr.toI
    rw [List.set_set] at this
    exact this
  · refine Or.inr ⟨e, _, he, rfl, ?_⟩
    have := hp.step1 PL.nullAll hi hvi hv2 hfr.toI
    rw [List.set_set] at this
    exact this

/-- **one operation on a heterogeneous pool**: from a valid pool satisfying the operation's precondition, the operation never
    faults and leaves a valid pool holding the abstract result, or (C++ exception) a state its exception guarantee allows -/
theorem hpool_step (PL : HPoolLaws α cfgs Oks P) (op : HPoolOp α) (h : HPoolRep cfgs Oks P n0 m xss)
    (hpre : op.pre cfgs xss) (hcat : op.nonTC = true → m.cat ≠ .tc) :
    Post (op.run cfgs) m (HPoolStepPost cfgs Oks P n0 m xss op) := by
  cases op with
  | one i o => exact hpool_one PL h i o hpre hcat
  | shrink i => exact hpool_shrink PL h i hpre
  | swap2 i j => exact hpool_swap2 PL h i j hpre
  | copyAssign i j => exact hpool_copyAssign PL h i j hpre (hcat rfl)
  | moveAssign i j => exact hpool_moveAssign PL h i j hpre
  | swap i j => exact hpool_swap PL h i j hpre
  | reset i => exact hpool_reset PL h i hpre
  | moveConstruct i j => exact hpool_moveConstruct PL h i j hpre
  | copyConstruct i j => exact hpool_copyConstruct PL h i j hpre

end steps

/-! ### histories -/

/-- run a list of pool operations; a C++ exception ends the operation that threw it, not the history -/
def runHPool (cfgs : Nat → Cfg) : List (HPoolOp α) → M α Unit
  | [] => pure ()
  | op :: rest => do
    tryCatch (op.run cfgs) fun s => match s with
      | .exc _ => pure ()
      | .fault _ => throw s
    runHPool cfgs rest

/-- the abstract outcomes of a pool history: each operation takes effect, or throws and leaves a state its guarantee allows -/
inductive HPTrace : List (HPoolOp α) → List (List α) → List (List α) → Prop
  | nil (xss) : HPTrace [] xss xss
  | ok (op rest xss yss) : HPTrace rest (op.spec xss) yss → HPTrace (op :: rest) xss yss
  | thrown (op rest xss xss'' yss) : op.exc xss xss'' → HPTrace rest xss'' yss → HPTrace (op :: rest) xss yss

/-- the preconditions hold along every abstract outcome -/
def HPSafe (cfgs : Nat → Cfg) : List (HPoolOp α) → List (List α) → Prop
  | [], _ => True
  | op :: rest, xss => op.pre cfgs xss ∧ HPSafe cfgs rest (op.spec xss) ∧ (∀ xss'', op.exc xss xss'' → HPSafe cfgs rest xss'')

/-- the programs of the homogeneous pool are the programs of the heterogeneous pool of constant configuration -/
theorem HPoolOp.run_ofPoolOp (cfg : Cfg) (op : PoolOp α) : (HPoolOp.ofPoolOp op).run (fun _ => cfg) = op.run cfg := by
  cases op <;> rfl

theorem runHPool_ofPoolOp (cfg : Cfg) (ops : List (PoolOp α)) :
    runHPool (fun _ => cfg) (ops.map HPoolOp.ofPoolOp) = runPool cfg ops := by
  induction ops with
  | nil => rfl
  | cons op rest ih => simp only [List.map, runHPool, runPool, HPoolOp.run_ofPoolOp, ih]; rfl

/-- **the history theorem for heterogeneous pools**: running any list of pool operations on a valid pool of containers of mixed
    flavour / inline capacity / size type — single-container operations, `swap2` between any two of them, copies, moves and swaps
    between containers of equal type, re-constructions, continuing after every C++ exception — never produces a lifetime fault or an
    allocator misuse, and ends in a valid pool (`HPoolRep`) holding lists the abstract `std::vector` semantics allows (`HPTrace`).
    `HPoolRep` of the final memory says in particular: every container is valid (none was disturbed by an operation on others), no
    heap block is shared, and NO BLOCK IS LEAKED: every block allocated since `nextId` was `n0` that still exists is owned by a
    container of the pool. -/
theorem hpool_history {cfgs : Nat → Cfg} {Oks : Nat → VB → Prop} {P : Nat} (PL : HPoolLaws α cfgs Oks P) (n0 : Nat) :
    ∀ (ops : List (HPoolOp α)) (m : Mem α) (xss : List (List α)),
    HPoolRep cfgs Oks P n0 m xss → HPSafe cfgs ops xss → (∀ op ∈ ops, op.nonTC = true → m.cat ≠ .tc) →
    Post (runHPool cfgs ops) m (fun res m' => res = .ok () ∧
      ∃ yss, HPTrace ops xss yss ∧ HPoolRep cfgs Oks P n0 m' yss ∧ m'.cat = m.cat) := by
  intro ops
  induction ops with
  | nil =>
    intro m xss h _ _
    exact ⟨rfl, xss, HPTrace.nil xss, h, rfl⟩
  | cons op rest ih =>
    intro m xss h hs hcat
    obtain ⟨hpre, hsok, hsexc⟩ := hs
    have hstep := hpool_step PL op h hpre (hcat op (by simp))
    simp only [runHPool]
    refine Post.bind (Q1 := fun res m1 => res = .ok () ∧ ∃ xss1, HPoolRep cfgs Oks P n0 m1 xss1 ∧ m1.cat = m.cat
        ∧ HPSafe cfgs rest xss1 ∧ (∀ yss, HPTrace rest xss1 yss → HPTrace (op :: rest) xss yss))
      (Post.tryCatch hstep ?_ ?_) ?_ ?_
    · rintro _ m1 ⟨hq, hc1⟩
      rcases hq with ⟨_, h1⟩ | ⟨e, yss, he, _, _⟩
      · exact ⟨rfl, _, h1, hc1, hsok, fun yss ht => HPTrace.ok op rest xss yss ht⟩
      · cases he
    · rintro e m1 ⟨hq, hc1⟩
      rcases hq with ⟨he, _⟩ | ⟨e', yss, he, hex, h1⟩
      · cases he
      · injection he with he; subst he
        exact ⟨rfl, yss, h1, hc1, hsexc yss hex, fun zss ht => HPTrace.thrown op rest xss yss zss hex ht⟩
    · rintro _ m1 ⟨_, xss1, h1, hc1, hs1, htr⟩
      refine Post.mono (ih m1 xss1 h1 hs1 (fun op' ho' hn => by rw [hc1]; exact hcat op' (by simp [ho']) hn)) ?_
      rintro res m2 ⟨hr, yss, ht, h2, hc2⟩
      exact ⟨hr, yss, htr yss ht, h2, hc2.trans hc1⟩
    · rintro e m1 ⟨he, _⟩; cases he

/-- leak freedom of a heterogeneous pool history, spelled out: every heap block allocated since the history's reference point `n0`
    that exists at the end is owned by exactly one container of the pool -/
theorem hpool_history_no_leak {cfgs : Nat → Cfg} {Oks : Nat → VB → Prop} {P : Nat} (PL : HPoolLaws α cfgs Oks P) (n0 : Nat)
    (ops : List (HPoolOp α)) (m : Mem α) (xss : List (List α)) (h : HPoolRep cfgs Oks P n0 m xss) (hs : HPSafe cfgs ops xss)
    (hcat : ∀ op ∈ ops, op.nonTC = true → m.cat ≠ .tc) :
    Post (runHPool cfgs ops) m (fun res m' => res = .ok () ∧
      ∀ id, n0 ≤ id → (m'.buf (.blk id)).isSome →
        ∃ i, i < P ∧ OwnsBlk (cfgs i) i m' id ∧ ∀ j, j < P → OwnsBlk (cfgs j) j m' id → j = i) := by
  refine Post.mono (hpool_history PL n0 ops m xss h hs hcat) ?_
  rintro res m' ⟨hr, yss, _, h', _⟩
  refine ⟨hr, fun id hge hid => ?_⟩
  obtain ⟨i, hi, ho⟩ := h'.owned id hge hid
  exact ⟨i, hi, ho, fun j hj hoj => h'.disj j i id hj hi hoj ho⟩

/-- when no operation of the history throws, the final state is the fold of the `std::vector` results -/
theorem HPTrace.no_throw (ops : List (HPoolOp α)) (xss : List (List α)) :
    HPTrace ops xss (ops.foldl (fun l op => op.spec l) xss) := by
  induction ops generalizing xss with
  | nil => exact HPTrace.nil xss
  | cons op rest ih => exact HPTrace.ok op rest xss _ (ih (op.spec xss))

/-- along every abstract outcome the number of slots is kept -/
theorem HPTrace.length {ops : List (HPoolOp α)} {xss yss : List (List α)} (h : HPTrace ops xss yss) : yss.length = xss.length := by
  induction h with
  | nil _ => rfl
  | ok op rest xss yss _ ih => rw [ih, HPoolOp.spec_length]
  | thrown op rest xss xss'' yss hex _ ih => rw [ih, HPoolOp.exc_length op xss xss'' hex]

/-- a history whose preconditions only depend on the number of slots is safe from every state with that many slots -/
theorem HPSafe.ofLength (cfgs : Nat → Cfg) (n : Nat) :
    ∀ (ops : List (HPoolOp α)), (∀ op ∈ ops, ∀ xss : List (List α), xss.length = n → op.pre cfgs xss) →
    ∀ xss : List (List α), xss.length = n → HPSafe cfgs ops xss := by
  intro ops
  induction ops with
  | nil => intro _ _ _; trivial
  | cons op rest ih =>
    intro hpre xss hl
    have hrest : ∀ op' ∈ rest, ∀ xss : List (List α), xss.length = n → op'.pre cfgs xss :=
      fun op' ho' => hpre op' (by simp [ho'])
    exact ⟨hpre op (by simp) xss hl, ih hrest _ (by rw [HPoolOp.spec_length]; exact hl),
      fun yss hex => ih hrest yss (by rw [HPoolOp.exc_length op xss yss hex]; exact hl)⟩

end AmcVerif
