import AmcVerif.Lemmas.VecOpsE
import AmcVerif.Lemmas.VecLifecycle
/-! A POOL of containers in one memory.

`PoolRep cfg Ok P n0 m xss`: the pool slots `0 … P-1` of memory `m` hold the lists `xss` (one `VRep` per slot); no heap block
is owned by two of them; every heap block with an identifier `≥ n0` that exists is owned by one of them (leak freedom); the
usual history invariants (`HInv`: `Fresh`, the stack temporary raw) and "block 0 — the region a null pointer resolves to — does
not exist".

* `VRepW.frameGI`: another container `d ≠ c` is carried along a framed step on `c` (this is what the clause `cntOther` of
  `FrameG` is for: the `Store.cnt` of `d` mentions the allocation count of its block).
* `PoolRep.step1`: a framed, leak-free step on ONE container of the pool re-establishes `PoolRep` (with the list of that
  container replaced); `PoolRep.step2`: the same for a step on TWO containers with a two-container frame (`Frame2`) and the
  block accounting `Acct2` of the pair. -/
namespace AmcVerif
variable {α : Type}

/-! ### carrying another container along a single-container step -/

/-- container `d ≠ c` is not disturbed by a step on container `c` framed by `FrameGI c r`: its words are the same, its storage
    region is not `r` (or it has no storage), is not a fresh block, and is not the inline storage of `c` (it never is) -/
theorem VRepW.frameGI {cfg : Cfg} {Ok : VB → Prop} {c d : Nat} {r : Region} {m m' : Mem α} {zs : List α} {wd : VB}
    (h : VRepW cfg Ok d m zs wd) (hfr : FrameGI c r m m') (hdc : d ≠ c)
    (hreg : cfg.ops.capacity wd = 0 ∨ regionOf cfg d wd ≠ r)
    (hold : ∀ id, regionOf cfg d wd = .blk id → 0 < cfg.ops.capacity wd → id < m.nextId)
    (hinl : Region.inl d ≠ r) : VRepW cfg Ok d m' zs wd := by
  have hne_c : regionOf cfg d wd ≠ .inl c := fun e => hdc (regionOf_inl cfg d c wd e).symm
  refine ⟨⟨by rw [hfr.wsOther d hdc]; exact h.ws, h.ok, h.store.len, ?_, ?_, ?_⟩, h.size⟩
  · rcases Nat.eq_zero_or_pos (cfg.ops.capacity wd) with h0 | hp
    · exact Or.inl h0
    · rcases h.buf with h0 | hb
      · exact Or.inl h0
      · refine Or.inr ?_
        rw [hfr.bufOther _ (hreg.resolve_left (by omega)) hne_c (fun id hid => hold id hid hp)]
        exact hb
  · intro id hid hne
    have hp : 0 < cfg.ops.capacity wd := Nat.pos_of_ne_zero hne
    rw [hfr.cntOther id (by rw [← hid]; exact hreg.resolve_left (by omega)) (hold id hid hp)]
    exact h.store.cnt id hid hne
  · intro hne hfl
    rw [hfr.bufOther (.inl d) hinl (by intro e; injection e with e; exact hdc e) (fun id hid => by cases hid)]
    exact h.store.inl hne hfl

/-- the same for the full frame `FrameG` -/
theorem VRepW.frameG {cfg : Cfg} {Ok : VB → Prop} {c d : Nat} {r : Region} {m m' : Mem α} {zs : List α} {wd : VB}
    (h : VRepW cfg Ok d m zs wd) (hfr : FrameG c r m m') (hdc : d ≠ c)
    (hreg : cfg.ops.capacity wd = 0 ∨ regionOf cfg d wd ≠ r)
    (hold : ∀ id, regionOf cfg d wd = .blk id → 0 < cfg.ops.capacity wd → id < m.nextId)
    (hinl : Region.inl d ≠ r) : VRepW cfg Ok d m' zs wd :=
  h.frameGI (c := c) ⟨hfr.cat, hfr.hr, hfr.wsLen, hfr.wsOther, hfr.nid, hfr.fresh, fun r' h1 _ h3 => hfr.bufOther r' h1 h3,
    hfr.cntOther⟩ hdc hreg hold hinl

/-- a third container is untouched by a two-container step (as `VRepW.frame2`, also for a container without storage) -/
theorem VRepW.frame2' {cfg : Cfg} {Ok : VB → Prop} {c d e : Nat} {rs : List Region} {m m' : Mem α} {zs : List α} {we : VB}
    (h : VRepW cfg Ok e m zs we) (hfr : Frame2 c d rs m m') (hec : e ≠ c) (hed : e ≠ d)
    (hreg : cfg.ops.capacity we = 0 ∨ regionOf cfg e we ∉ rs) (hinl : Region.inl e ∉ rs) : VRepW cfg Ok e m' zs we := by
  rcases hreg with h0 | hreg
  · refine ⟨⟨by rw [hfr.wsOther e hec hed]; exact h.ws, h.ok, h.store.len, Or.inl h0, fun _ _ hne => absurd h0 hne, ?_⟩, h.size⟩
    intro hne hfl
    rw [hfr.bufOther _ hinl]; exact h.store.inl hne hfl
  · exact h.frame2 hfr hec hed hreg hinl

/-! ### the pool invariant -/

/-- the pool slots `0 … P-1` hold `xss`; no block is shared; every block `≥ n0` is owned by a slot; history invariants -/
structure PoolRep (cfg : Cfg) (Ok : VB → Prop) (P n0 : Nat) (m : Mem α) (xss : List (List α)) : Prop where
  len : xss.length = P
  rep : ∀ i xs, xss[i]? = some xs → VRep cfg Ok i m xs
  /-- the storages of two slots are distinct: no heap block has two owners (inline storages are distinct anyway) -/
  disj : ∀ i j id, i < P → j < P → OwnsBlk cfg i m id → OwnsBlk cfg j m id → i = j
  /-- leak freedom: every heap block allocated since `nextId` was `n0` that exists is owned by a slot of the pool -/
  owned : ∀ id, n0 ≤ id → (m.buf (.blk id)).isSome → ∃ i, i < P ∧ OwnsBlk cfg i m id
  inv : HInv m
  pos : 0 < m.nextId
  blk0 : m.buf (.blk 0) = none

/-- "a container without storage resolves to block 0" (`SOkP.null`, `DOkP.null`) -/
def NullAt0 (cfg : Cfg) (Ok : VB → Prop) : Prop :=
  ∀ (c : Nat) (w : VB), Ok w → cfg.ops.capacity w = 0 → ∀ id, regionOf cfg c w = .blk id → id = 0

namespace PoolRep
variable {cfg : Cfg} {Ok : VB → Prop} {P n0 : Nat} {m m' : Mem α} {xss : List (List α)}

theorem lt_of_get (h : PoolRep cfg Ok P n0 m xss) {i : Nat} {xs : List α} (hx : xss[i]? = some xs) : i < P := by
  rw [← h.len]
  rcases Nat.lt_or_ge i xss.length with h1 | h1
  · exact h1
  · rw [List.getElem?_eq_none h1] at hx; cases hx

theorem get (h : PoolRep cfg Ok P n0 m xss) {i : Nat} (hi : i < P) : ∃ xs, xss[i]? = some xs ∧ VRep cfg Ok i m xs := by
  have hl : i < xss.length := by rw [h.len]; exact hi
  exact ⟨xss[i], List.getElem?_eq_getElem hl, h.rep i _ (List.getElem?_eq_getElem hl)⟩

/-- a block that a slot owns exists and is not fresh -/
theorem owns_old (h : PoolRep cfg Ok P n0 m xss) {i : Nat} {xs : List α} {w : VB} (hw : VRepW cfg Ok i m xs w) {id : Nat}
    (hr : regionOf cfg i w = .blk id) (hp : 0 < cfg.ops.capacity w) : (m.buf (.blk id)).isSome ∧ id < m.nextId := by
  have : (m.buf (.blk id)).isSome := by rw [← hr]; exact hw.isSome hp
  exact ⟨this, h.inv.fresh id this⟩

/-- the storage regions of two different slots are different (when the first has storage at all) -/
theorem sep (hnull : NullAt0 cfg Ok) (h : PoolRep cfg Ok P n0 m xss) {i j : Nat} {wi wj : VB} {xs zs : List α}
    (hji : j ≠ i) (hi : i < P) (hj : j < P) (hwi : VRepW cfg Ok i m xs wi) (hwj : VRepW cfg Ok j m zs wj)
    (hp : 0 < cfg.ops.capacity wj) : regionOf cfg j wj ≠ regionOf cfg i wi := by
  intro e
  cases hr : regionOf cfg j wj with
  | inl c' =>
    have h1 := regionOf_inl cfg j c' wj hr
    have h2 := regionOf_inl cfg i c' wi (by rw [← e, hr])
    exact hji (h1.symm.trans h2)
  | tmp => exact regionOf_ne_tmp cfg j wj hr
  | blk id =>
    have hoj : OwnsBlk cfg j m id := (OwnsBlk.iff hwj.ws id).mpr ⟨hr, hp⟩
    rcases Nat.eq_zero_or_pos (cfg.ops.capacity wi) with h0 | hpi
    · have hid : id = 0 := hnull i wi hwi.ok h0 id (by rw [← e, hr])
      subst hid
      have := (h.owns_old hwj hr hp).1
      rw [h.blk0] at this; cases this
    · have hoi : OwnsBlk cfg i m id := (OwnsBlk.iff hwi.ws id).mpr ⟨by rw [← e, hr], hpi⟩
      exact hji (h.disj j i id hj hi hoj hoi)

/-- **a framed, leak-free step on one container of the pool** (frame `FrameLI`: the inline storage of the container itself is
    exempted, as for `shrink_to_fit`): every other container is undisturbed, no block is shared or leaked afterwards -/
theorem step1 (hnull : NullAt0 cfg Ok) (h : PoolRep cfg Ok P n0 m xss) {i : Nat} (hi : i < P) {w : VB} {xs xs' : List α}
    (hw : VRepW cfg Ok i m xs w) (hv' : VRep cfg Ok i m' xs') (hfr : FrameLI cfg i (regionOf cfg i w) m m') :
    PoolRep cfg Ok P n0 m' (xss.set i xs') := by
  obtain ⟨w', hw'⟩ := hv'
  have hil : i < xss.length := by rw [h.len]; exact hi
  -- a block that `i` owns afterwards exists
  have hex' : ∀ id, OwnsBlk cfg i m' id → (m'.buf (.blk id)).isSome := by
    intro id ho
    have ho' := (OwnsBlk.iff hw'.ws id).mp ho
    rw [← ho'.1]; exact hw'.isSome ho'.2
  -- the others own what they owned
  have hsame : ∀ k, k ≠ i → ∀ id, OwnsBlk cfg k m' id ↔ OwnsBlk cfg k m id :=
    fun k hk id => OwnsBlk.congr (hfr.wsOther k hk) id
  -- what another slot owns is old
  have hold : ∀ k, k < P → ∀ id, OwnsBlk cfg k m id → (m.buf (.blk id)).isSome ∧ id < m.nextId := by
    intro k hk id ho
    obtain ⟨zs, _, wk, hwk⟩ := h.get hk
    have ho' := (OwnsBlk.iff hwk.ws id).mp ho
    exact h.owns_old hwk ho'.1 ho'.2
  have haux : ∀ b id, b ≠ i → b < P → OwnsBlk cfg i m' id → OwnsBlk cfg b m' id → False := by
    intro b id hb hbP hoi hob
    have hob0 := (hsame b hb id).mp hob
    have hlt := (hold b hbP id hob0).2
    rcases hfr.noLeak id (hex' id hoi) with ⟨_, _, n2⟩ | ⟨_, o1, _⟩ | ⟨f, _⟩
    · exact n2 hoi
    · exact hb (h.disj b i id hbP hi hob0 o1)
    · omega
  refine ⟨by rw [List.length_set]; exact h.len, ?_, ?_, ?_, ?_, Nat.lt_of_lt_of_le h.pos hfr.nid, ?_⟩
  · intro k zs hk
    by_cases hki : k = i
    · subst hki
      rw [List.getElem?_set_self hil] at hk
      injection hk with hk; subst hk
      exact ⟨w', hw'⟩
    · rw [List.getElem?_set_ne (Ne.symm hki)] at hk
      have hkP := h.lt_of_get hk
      obtain ⟨wk, hwk⟩ := h.rep k zs hk
      refine ⟨wk, hwk.frameGI hfr.toFrameGI hki ?_ (fun id hid hp => (h.owns_old hwk hid hp).2)
        (fun e => hki (regionOf_inl cfg i k w e.symm))⟩
      rcases Nat.eq_zero_or_pos (cfg.ops.capacity wk) with h0 | hp
      · exact Or.inl h0
      · exact Or.inr (h.sep hnull hki hi hkP hw hwk hp)
  · intro a b id ha hb hoa hob
    by_cases hai : a = i
    · by_cases hbi : b = i
      · rw [hai, hbi]
      · subst hai; exact (haux b id hbi hb hoa hob).elim
    · by_cases hbi : b = i
      · subst hbi; exact (haux a id hai ha hob hoa).elim
      · exact h.disj a b id ha hb ((hsame a hai id).mp hoa) ((hsame b hbi id).mp hob)
  · intro id hge hid
    rcases hfr.noLeak id hid with ⟨e0, n1, _⟩ | ⟨_, _, o2⟩ | ⟨_, o2⟩
    · obtain ⟨k, hk, hok⟩ := h.owned id hge e0
      have hki : k ≠ i := by rintro rfl; exact n1 hok
      exact ⟨k, hk, (hsame k hki id).mpr hok⟩
    · exact ⟨i, hi, o2⟩
    · exact ⟨i, hi, o2⟩
  · exact ⟨hfr.fresh h.inv.fresh, by
      rw [hfr.bufOther .tmp (Ne.symm (regionOf_ne_tmp cfg i w)) (by intro e; cases e) (fun id hid => by cases hid)]
      exact h.inv.tmp⟩
  · cases hb : m'.buf (.blk 0) with
    | none => rfl
    | some b =>
      exfalso
      rcases hfr.noLeak 0 (by rw [hb]; rfl) with ⟨e, _, _⟩ | ⟨e, _, _⟩ | ⟨f, _⟩
      · rw [h.blk0] at e; cases e
      · rw [h.blk0] at e; cases e
      · have := h.pos; omega

/-- block accounting of a step on the pair `c`, `d`: what the pair owns afterwards it owned before; a block of the pair that
    still exists is still owned by the pair; the two do not share a block -/
structure Acct2 (cfg : Cfg) (c d : Nat) (m m' : Mem α) : Prop where
  origin : ∀ id, OwnsBlk cfg c m' id ∨ OwnsBlk cfg d m' id → OwnsBlk cfg c m id ∨ OwnsBlk cfg d m id
  kept : ∀ id, (m'.buf (.blk id)).isSome → OwnsBlk cfg c m id ∨ OwnsBlk cfg d m id → OwnsBlk cfg c m' id ∨ OwnsBlk cfg d m' id
  disj : ∀ id, ¬ (OwnsBlk cfg c m' id ∧ OwnsBlk cfg d m' id)

/-- **a step on two containers of the pool** with a two-container frame confined to their storages and the block accounting of
    the pair: every other container is undisturbed, no block is shared or leaked afterwards -/
theorem step2 (hnull : NullAt0 cfg Ok) (h : PoolRep cfg Ok P n0 m xss) {i j : Nat} (hij : i ≠ j) (hi : i < P) (hj : j < P)
    {wi wj : VB} {xs ys xs' ys' : List α} {rs : List Region}
    (hwi : VRepW cfg Ok i m xs wi) (hwj : VRepW cfg Ok j m ys wj) (hvi' : VRep cfg Ok i m' xs') (hvj' : VRep cfg Ok j m' ys')
    (hfr : Frame2 i j rs m m')
    (hrs : ∀ r, r ∈ rs → r = regionOf cfg i wi ∨ r = regionOf cfg j wj ∨ r = .inl i ∨ r = .inl j)
    (hacct : Acct2 cfg i j m m') : PoolRep cfg Ok P n0 m' ((xss.set i xs').set j ys') := by
  have hil : i < xss.length := by rw [h.len]; exact hi
  have hjl : j < (xss.set i xs').length := by rw [List.length_set, h.len]; exact hj
  have hsame : ∀ k, k ≠ i → k ≠ j → ∀ id, OwnsBlk cfg k m' id ↔ OwnsBlk cfg k m id :=
    fun k hk1 hk2 id => OwnsBlk.congr (hfr.wsOther k hk1 hk2) id
  -- an outsider and a member of the pair never own the same block afterwards
  have haux : ∀ b id, b ≠ i → b ≠ j → b < P → (OwnsBlk cfg i m' id ∨ OwnsBlk cfg j m' id) → OwnsBlk cfg b m' id → False := by
    intro b id hb1 hb2 hbP hop hob
    have hob0 := (hsame b hb1 hb2 id).mp hob
    rcases hacct.origin id hop with o | o
    · exact hb1 (h.disj b i id hbP hi hob0 o)
    · exact hb2 (h.disj b j id hbP hj hob0 o)
  refine ⟨by rw [List.length_set, List.length_set]; exact h.len, ?_, ?_, ?_, ?_, by rw [hfr.nid]; exact h.pos, ?_⟩
  · intro k zs hk
    by_cases hkj : k = j
    · subst hkj
      rw [List.getElem?_set_self hjl] at hk
      injection hk with hk; subst hk
      exact hvj'
    · rw [List.getElem?_set_ne (Ne.symm hkj)] at hk
      by_cases hki : k = i
      · subst hki
        rw [List.getElem?_set_self hil] at hk
        injection hk with hk; subst hk
        exact hvi'
      · rw [List.getElem?_set_ne (Ne.symm hki)] at hk
        have hkP := h.lt_of_get hk
        obtain ⟨wk, hwk⟩ := h.rep k zs hk
        refine ⟨wk, hwk.frame2' hfr hki hkj ?_ ?_⟩
        · rcases Nat.eq_zero_or_pos (cfg.ops.capacity wk) with h0 | hp
          · exact Or.inl h0
          · refine Or.inr (fun hin => ?_)
            rcases hrs _ hin with e | e | e | e
            · exact h.sep hnull hki hi hkP hwi hwk hp e
            · exact h.sep hnull hkj hj hkP hwj hwk hp e
            · exact hki (regionOf_inl cfg k i wk e).symm
            · exact hkj (regionOf_inl cfg k j wk e).symm
        · intro hin
          rcases hrs _ hin with e | e | e | e
          · exact hki (regionOf_inl cfg i k wi e.symm)
          · exact hkj (regionOf_inl cfg j k wj e.symm)
          · injection e with e; exact hki e
          · injection e with e; exact hkj e
  · intro a b id ha hb hoa hob
    by_cases hai : a = i
    · by_cases hbi : b = i
      · rw [hai, hbi]
      · by_cases hbj : b = j
        · subst hai; subst hbj; exact (hacct.disj id ⟨hoa, hob⟩).elim
        · subst hai; exact (haux b id hbi hbj hb (Or.inl hoa) hob).elim
    · by_cases haj : a = j
      · by_cases hbi : b = i
        · subst haj; subst hbi; exact (hacct.disj id ⟨hob, hoa⟩).elim
        · by_cases hbj : b = j
          · rw [haj, hbj]
          · subst haj; exact (haux b id hbi hbj hb (Or.inr hoa) hob).elim
      · by_cases hbi : b = i
        · subst hbi; exact (haux a id hai haj ha (Or.inl hob) hoa).elim
        · by_cases hbj : b = j
          · subst hbj; exact (haux a id hai haj ha (Or.inr hob) hoa).elim
          · exact h.disj a b id ha hb ((hsame a hai haj id).mp hoa) ((hsame b hbi hbj id).mp hob)
  · intro id hge hid
    obtain ⟨k, hk, hok⟩ := h.owned id hge (hfr.blocks id hid)
    by_cases hki : k = i
    · subst hki
      rcases hacct.kept id hid (Or.inl hok) with o | o
      · exact ⟨k, hi, o⟩
      · exact ⟨j, hj, o⟩
    · by_cases hkj : k = j
      · subst hkj
        rcases hacct.kept id hid (Or.inr hok) with o | o
        · exact ⟨i, hi, o⟩
        · exact ⟨k, hj, o⟩
      · exact ⟨k, hk, (hsame k hki hkj id).mpr hok⟩
  · refine ⟨fun id hid => by rw [hfr.nid]; exact h.inv.fresh id (hfr.blocks id hid), ?_⟩
    rw [hfr.bufOther .tmp (fun hin => ?_)]
    · exact h.inv.tmp
    · rcases hrs _ hin with e | e | e | e
      · exact regionOf_ne_tmp cfg i wi e.symm
      · exact regionOf_ne_tmp cfg j wj e.symm
      · cases e
      · cases e
  · cases hb : m'.buf (.blk 0) with
    | none => rfl
    | some b =>
      have := hfr.blocks 0 (by rw [hb]; rfl)
      rw [h.blk0] at this; cases this

/-- **destroying slot `i` and installing fresh words**: `m1` is the memory after `~Vector()` on slot `i` (its block, if any, is
    gone; only its own storage changed; no block was created; the allocation counts of the other blocks are kept) and the
    installation of words `w1` under which slot `i` is a valid empty container that owns no block. Every other container is
    undisturbed, nothing is shared or leaked: the pool holds with slot `i` empty. -/
theorem reset (hnull : NullAt0 cfg Ok) (h : PoolRep cfg Ok P n0 m xss) {i : Nat} (hi : i < P) {w w1 : VB} {xs : List α}
    (hw : VRepW cfg Ok i m xs w) {m1 : Mem α}
    (hblk : ∀ id, regionOf cfg i w = .blk id → 0 < cfg.ops.capacity w → m1.buf (.blk id) = none)
    (hoth : ∀ r', r' ≠ regionOf cfg i w → r' ≠ .inl i → m1.buf r' = m.buf r')
    (hws : m1.ws = m.ws.set i w1) (hcat : m1.cat = m.cat) (hhr : m1.hasRealloc = m.hasRealloc) (hnid : m1.nextId = m.nextId)
    (hsub : ∀ id, (m1.buf (.blk id)).isSome → (m.buf (.blk id)).isSome)
    (hcnt : ∀ id, Region.blk id ≠ regionOf cfg i w → m1.cnt id = m.cnt id)
    (hv1 : VRepW cfg Ok i m1 [] w1) (hown1 : ∀ id, ¬ OwnsBlk cfg i m1 id) :
    PoolRep cfg Ok P n0 m1 (xss.set i []) := by
  refine h.step1 hnull hi hw ⟨w1, hv1⟩ ⟨⟨hcat, hhr, by rw [hws]; simp, fun c' hc' => by rw [hws, List.getElem?_set_ne (Ne.symm hc')],
    by rw [hnid]; exact Nat.le_refl _, fun hf id hid => by rw [hnid]; exact hf id (hsub id hid),
    fun r' h1 h2 _ => hoth r' h1 h2, fun id hne _ => hcnt id hne⟩, ?_⟩
  intro id hid
  refine Or.inl ⟨hsub id hid, fun ho => ?_, hown1 id⟩
  have ho' := (OwnsBlk.iff hw.ws id).mp ho
  rw [hblk id ho'.1 ho'.2] at hid; cases hid

end PoolRep

/-- a container only depends on its own words, the view and the allocation counts -/
theorem VRepW.congrMem {cfg : Cfg} {Ok : VB → Prop} {c : Nat} {m m' : Mem α} {zs : List α} {w : VB} (h : VRepW cfg Ok c m zs w)
    (hws : m'.ws[c]? = m.ws[c]?) (hbuf : m'.buf = m.buf) (hcnt : ∀ id, m'.cnt id = m.cnt id) : VRepW cfg Ok c m' zs w :=
  ⟨⟨by rw [hws]; exact h.ws, h.ok, h.store.len, by rw [hbuf]; exact h.store.buf,
    fun id hr hc => by rw [hcnt]; exact h.store.cnt id hr hc, fun hne hfl => by rw [hbuf]; exact h.store.inl hne hfl⟩, h.size⟩

end AmcVerif
