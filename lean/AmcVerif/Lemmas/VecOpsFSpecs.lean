import AmcVerif.Lemmas.VecOpsF
import AmcVerif.Lemmas.VecOpSpecs
/-! The single-pass input-range operations (`Lemmas/VecOpsF.lean`) packaged as `OpSpec`s with their single-step contracts `OpOK`:
they can be mixed freely with the operations of `Lemmas/VecOpSpecs.lean` in a history (`hist_post`, `hist_post_inv`). -/
namespace AmcVerif
variable {α : Type}

/-- `append(first, last)` for single-pass input iterators -/
def opAppendInput (vals : List α) : OpSpec α where
  run := fun cfg c => appendInput cfg c vals
  pre := fun _ _ => True
  spec := fun xs => xs ++ vals
  strong := true

theorem opAppendInput_ok {cfg : Cfg} {Ok : VB → Prop} (L : VecLaws α cfg Ok) (vals : List α) :
    OpOK cfg Ok (opAppendInput vals) := by
  intro m c xs w hw hi _ _
  exact OpOK.stepStrong hi rfl (appendInput_post L m c xs w vals hw hi.fresh hi.tmp)

/-- `assign(first, last)` for single-pass input iterators (basic guarantee) -/
def opAssignInput (vals : List α) : OpSpec α where
  run := fun cfg c => assignInput cfg c vals
  pre := fun _ _ => True
  spec := fun _ => vals
  strong := false

theorem opAssignInput_ok {cfg : Cfg} {Ok : VB → Prop} (L : VecLaws α cfg Ok) (vals : List α) :
    OpOK cfg Ok (opAssignInput vals) := by
  intro m c xs w hw hi _ _
  exact OpOK.stepBasic rfl hi rfl (assignInput_post L m c xs w vals hw hi.fresh hi.tmp)

/-- `insert(pos, first, last)` for single-pass input iterators -/
def opInsertInput (p : Nat) (vals : List α) : OpSpec α where
  run := fun cfg c => do let _ ← insertInput cfg c p vals; pure ()
  pre := fun _ xs => p ≤ xs.length
  spec := fun xs => xs.take p ++ vals ++ xs.drop p
  strong := true

theorem opInsertInput_ok {cfg : Cfg} {Ok : VB → Prop} (L : VecLaws α cfg Ok) (p : Nat) (vals : List α) :
    OpOK cfg Ok (opInsertInput p vals) := by
  intro m c xs w hw hi hp _
  exact OpOK.stepStrong hi rfl (discard_strong (insertInput_post L m c xs w p vals hw hi.fresh hi.tmp hp))

/-- a history of the operations of `VecOpSpecs.lean` and the three input-range operations never faults and ends in a state the
    list semantics allows -/
theorem vector_history_input {cfg : Cfg} {Ok : VB → Prop} (L : VecLaws α cfg Ok) (c : Nat) (ops : List (OpSpec α))
    (hops : ∀ o ∈ ops, IsVecOp cfg o ∨ (∃ vals, o = opAppendInput vals) ∨ (∃ vals, o = opAssignInput vals)
      ∨ (∃ p vals, o = opInsertInput p vals))
    (m : Mem α) (xs : List α) (hv : VRep cfg Ok c m xs) (hi : HInv m) (hs : Safe cfg ops xs)
    (hcat : ∀ o ∈ ops, o.nonTC = true → m.cat ≠ .tc) :
    Post (runHist cfg c ops) m (fun res m' => res = .ok () ∧ ∃ ys, Trace cfg ops xs ys ∧ VRep cfg Ok c m' ys ∧ HInv m' ∧ m'.cat = m.cat
      ∧ Owned cfg c m.nextId m') := by
  refine hist_post cfg Ok c m.nextId ops m xs (fun o ho => ?_) hv hi hs hcat (Owned.start cfg c hi.fresh)
  rcases hops o ho with h | ⟨vals, rfl⟩ | ⟨vals, rfl⟩ | ⟨p, vals, rfl⟩
  · exact h.ok L
  · exact opAppendInput_ok L vals
  · exact opAssignInput_ok L vals
  · exact opInsertInput_ok L p vals

end AmcVerif
