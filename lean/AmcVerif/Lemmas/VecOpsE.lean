import AmcVerif.Lemmas.VecOpsD
/-! Operations on two containers of the same type (`SmallVector` flavour): move construction, move assignment, swap.

Two distinct pool containers `c ≠ d` with the same `cfg`; the invariant of the words is `SOkP P cfg.ops cfg.n`. The laws of the
generated members come from `SmallLaws` (decoded words) and `MoveLaws` (the effect lists `SmallLaws` does not expose; instantiated
per size type in `Bridge/MoveLaws*.lean`). The outcome of every operation is `.ok ()` (no exception, no lifetime fault, no
allocator misuse) with both containers valid again (`VRepW`), a two-container frame (`Frame2`) and, where a buffer changes
hands, the exact account of the blocks (nothing created, nothing leaked). -/
namespace AmcVerif
variable {α β : Type}

/-- the effect lists of the generated `move_construct` / `move_assign` / `swap_impl` members of SmallVectorBase, in terms of the
    decoded words -/
structure MoveLaws (ops : BaseOps) (N : Nat) : Prop where
  moveConstructEffs : ∀ t o, SRep N ops.kMax o →
    (ops.moveConstruct t o N).2.2 = if ops.isSmall o then [Eff.relocN (PtrV.inl 1) (ops.size o) (PtrV.inl 0)] else [Eff.setDyn 0]
  moveAssignStealEffs : ∀ t o, SRep N ops.kMax t → SRep N ops.kMax o → ops.isSmall o = false →
    (ops.moveAssign t o N).2.2 = if ops.isSmall t then [Eff.destroyN (PtrV.inl 0) (ops.size t), Eff.setDyn 0]
      else [Eff.destroyN t.dyn (ops.size t), Eff.dealloc t.dyn (ops.capacity t), Eff.setDyn 0]
  moveAssignKeepEffs : ∀ t o, SRep N ops.kMax t → SRep N ops.kMax o → ops.isSmall o = true → ops.isSmall t = false →
    ops.size o ≤ ops.capacity t →
    (ops.moveAssign t o N).2.2 = [Eff.moveN (PtrV.inl 1) (ops.size o) t.dyn (ops.size t)]
  moveAssignReleaseEffs : ∀ t o, SRep N ops.kMax t → SRep N ops.kMax o → ops.isSmall o = true → ops.isSmall t = false →
    ops.capacity t < ops.size o →
    (ops.moveAssign t o N).2.2 = [Eff.destroyN t.dyn (ops.size t), Eff.dealloc t.dyn (ops.capacity t),
      Eff.moveN (PtrV.inl 1) (ops.size o) (PtrV.inl 0) 0]
  swapEffs : ∀ t o, SRep N ops.kMax t → SRep N ops.kMax o →
    (ops.swapImpl t o).2.2 =
      if ops.isSmall t then
        (if ops.isSmall o then [Eff.swapDeep (PtrV.inl 0) (ops.size t) (PtrV.inl 1) (ops.size o)]
         else [Eff.relocN (PtrV.inl 0) (ops.size t) (PtrV.inl 1), Eff.setDyn 0])
      else
        (if ops.isSmall o then [Eff.relocN (PtrV.inl 1) (ops.size o) (PtrV.inl 0), Eff.setDyn 1]
         else [Eff.setDyn 0, Eff.setDyn 1])

/-- what an operation on the two containers `c`, `d` leaves alone: the words of every other container, every region outside
    `rs`; it creates no heap block and keeps the allocation count of every block that still exists -/
structure Frame2 (c d : Nat) (rs : List Region) (m m' : Mem α) : Prop where
  cat : m'.cat = m.cat
  hr : m'.hasRealloc = m.hasRealloc
  nid : m'.nextId = m.nextId
  wsLen : m'.ws.length = m.ws.length
  wsOther : ∀ e, e ≠ c → e ≠ d → m'.ws[e]? = m.ws[e]?
  bufOther : ∀ r', r' ∉ rs → m'.buf r' = m.buf r'
  blocks : ∀ id, (m'.buf (.blk id)).isSome → (m.buf (.blk id)).isSome
  cnt : ∀ id, (m'.buf (.blk id)).isSome → m'.cnt id = m.cnt id

/-- a third container whose storage lies outside the touched regions is untouched -/
theorem VRepW.frame2 {cfg : Cfg} {Ok : VB → Prop} {c d e : Nat} {rs : List Region} {m m' : Mem α} {zs : List α} {we : VB}
    (h : VRepW cfg Ok e m zs we) (hfr : Frame2 c d rs m m') (hec : e ≠ c) (hed : e ≠ d)
    (hreg : regionOf cfg e we ∉ rs) (hinl : Region.inl e ∉ rs) : VRepW cfg Ok e m' zs we := by
  refine ⟨⟨by rw [hfr.wsOther e hec hed]; exact h.ws, h.ok, h.store.len, ?_, ?_, ?_⟩, h.size⟩
  · rw [hfr.bufOther _ hreg]; exact h.buf
  · intro id hid hne
    have hb : m'.buf (.blk id) = m.buf (.blk id) := by rw [← hid]; exact hfr.bufOther _ hreg
    rw [hfr.cnt id (by rw [hb, ← hid]; exact h.isSome (by omega))]
    exact h.store.cnt id hid hne
  · intro hne hfl
    rw [hfr.bufOther _ hinl]; exact h.store.inl hne hfl

namespace TwoC

theorem resolve_inl0 (c0 c1 : Nat) : resolve c0 c1 (.inl 0) = ⟨.inl c0, 0⟩ := rfl
theorem resolve_inl1 (c0 c1 : Nat) : resolve c0 c1 (.inl 1) = ⟨.inl c1, 0⟩ := rfl
theorem resolve_blk (c0 c1 id : Nat) : resolve c0 c1 (.blk id) = ⟨.blk id, 0⟩ := rfl
theorem resolve_null (c0 c1 : Nat) : resolve c0 c1 .null = ⟨.blk 0, 0⟩ := rfl

theorem interp_destroyN (c0 c1 : Nat) (p : PtrV) (n : Nat) :
    (interp c0 c1 (.destroyN p n) : M α Unit) = destroyN (resolve c0 c1 p) n := rfl
theorem interp_moveN (c0 c1 : Nat) (s d : PtrV) (n dn : Nat) :
    (interp c0 c1 (.moveN s n d dn) : M α Unit) = moveN (resolve c0 c1 s) n (resolve c0 c1 d) dn := rfl
theorem interp_swapDeep (c0 c1 : Nat) (p1 p2 : PtrV) (n1 n2 : Nat) :
    (interp c0 c1 (.swapDeep p1 n1 p2 n2) : M α Unit) = swapDeep (resolve c0 c1 p1) n1 (resolve c0 c1 p2) n2 := rfl

theorem ws_fst (l : List VB) (c d : Nat) (a b : VB) (hc : c < l.length) (hne : c ≠ d) : ((l.set c a).set d b)[c]? = some a := by
  rw [List.getElem?_set_ne (Ne.symm hne)]; simp [hc]
theorem ws_snd (l : List VB) (c d : Nat) (a b : VB) (hd : d < l.length) : ((l.set c a).set d b)[d]? = some b := by
  simp [hd]
theorem ws_other (l : List VB) (c d e : Nat) (a b : VB) (hec : e ≠ c) (hed : e ≠ d) : ((l.set c a).set d b)[e]? = l[e]? := by
  rw [List.getElem?_set_ne (Ne.symm hed), List.getElem?_set_ne (Ne.symm hec)]

/-- `setW c wc; setW d wd` -/
theorem commit2_post (m : Mem α) (c d : Nat) (wc wd : VB) :
    Post (do setW c wc; setW d wd : M α Unit) m
      (fun res m' => res = .ok () ∧ m' = ({ m with ws := (m.ws.set c wc).set d wd } : Mem α)) := by
  refine Post.bind (setW_post m c wc) ?_ (by okerr)
  rintro _ m1 ⟨_, rfl⟩
  exact setW_post _ d wd

/-- the `setDyn` effect of either operand -/
theorem setDyn_post' (m : Mem α) (c0 c1 who : Nat) (b : List (Slot α)) (hb : m.buf (.inl (if who = 0 then c0 else c1)) = some b)
    (hraw : (∀ s ∈ b, s = .raw) ∨ m.cat = .tc) :
    Post (interp c0 c1 (.setDyn who)) m (fun res m' => res = .ok () ∧ m' = m) := by
  simp only [interp]
  refine Post.bind (AllocAux.getBuf_post m _ b hb) ?_ (by okerr)
  rintro b' m1 ⟨hb', rfl⟩
  injection hb' with hb'; subst hb'
  refine Post.bind (isTC_post m1) ?_ (by okerr)
  rintro t m2 ⟨ht, rfl⟩
  injection ht with ht; subst ht
  split
  · exact ⟨rfl, rfl⟩
  · rename_i hn
    exfalso; apply hn
    rcases hraw with hraw | hraw
    · rw [Bool.or_eq_true]; right
      rw [List.all_eq_true]
      intro s hs; rw [hraw s hs]
    · rw [hraw]; rfl

theorem interpAll_cons_bind (c0 c1 : Nat) (e : Eff) (rest : List Eff) (k : Unit → M α β) :
    (interpAll c0 c1 (e :: rest) >>= k) = (interp c0 c1 e >>= fun _ => interpAll c0 c1 rest >>= k) := by
  simp only [interpAll, bind_assoc]

end TwoC
open TwoC ShrinkAux AllocAux

/-! ### decoding SmallVector words -/

theorem regionOf_small {cfg : Cfg} (L : SmallLaws cfg.ops cfg.n) (e : Nat) (w : VB) (hs : cfg.ops.isSmall w = true) :
    regionOf cfg e w = .inl e := by
  unfold regionOf; rw [L.begin_small, hs]; rfl

/-- in heap state the words point to one block (block 0 when there is no storage), the same for every pool index -/
theorem SOkP.heap {cfg : Cfg} {P : Nat → Prop} (L : SmallLaws cfg.ops cfg.n) {w : VB} (hok : SOkP P cfg.ops cfg.n w)
    (hs : cfg.ops.isSmall w = false) :
    ∃ id, (∀ e, regionOf cfg e w = .blk id) ∧
      ((w.dyn = .blk id ∧ 0 < cfg.ops.capacity w) ∨ (w.dyn = .null ∧ id = 0 ∧ cfg.ops.capacity w = 0)) := by
  have hb : cfg.ops.begin w = w.dyn := by rw [L.begin_small, hs]; rfl
  rcases hok.2 hs with ⟨id, hd, _, hpos⟩ | ⟨hd, hc0⟩
  · exact ⟨id, fun e => by unfold regionOf; rw [hb, hd]; rfl, Or.inl ⟨hd, hpos⟩⟩
  · exact ⟨0, fun e => by unfold regionOf; rw [hb, hd]; rfl, Or.inr ⟨hd, rfl, hc0⟩⟩

/-- a container in inline state whose inline storage holds `zs` followed by raw slots -/
theorem VRepW.inline {cfg : Cfg} {P : Nat → Prop} (L : SmallLaws cfg.ops cfg.n) {m : Mem α} {e : Nat} {w : VB} {zs : List α}
    (hws : m.ws[e]? = some w) (hrep : SRep cfg.n cfg.ops.kMax w) (hs : cfg.ops.isSmall w = true)
    (hsz : cfg.ops.size w = zs.length) (hbuf : m.buf (.inl e) = some (lives zs ++ raws (cfg.n - zs.length))) :
    VRepW cfg (SOkP P cfg.ops cfg.n) e m zs w := by
  obtain ⟨hb1, _, hb3⟩ := L.bounds w hrep
  have hcap := hb3 hs
  have hreg := regionOf_small L e w hs
  refine ⟨⟨hws, ⟨hrep, fun hf => by rw [hs] at hf; cases hf⟩, by simp; omega, Or.inr (by rw [hreg, hcap]; exact hbuf), ?_, ?_⟩, hsz⟩
  · intro id hid; rw [hreg] at hid; cases hid
  · intro hne; exact absurd hreg hne

/-- the storage of `d` (heap state, words `wd`) seen as the storage of `c` under words `wc` with the same pointer and capacity -/
theorem Store.steal {cfg : Cfg} {P : Nat → Prop} (L : SmallLaws cfg.ops cfg.n) {m m' : Mem α} {c d : Nat} {wd wc : VB}
    {b : List (Slot α)} (hd : Store cfg (SOkP P cfg.ops cfg.n) d m wd b) (hs : cfg.ops.isSmall wd = false)
    (hrep : SRep cfg.n cfg.ops.kMax wc) (hs' : cfg.ops.isSmall wc = false) (hcap : cfg.ops.capacity wc = cfg.ops.capacity wd)
    (hdyn : wc.dyn = wd.dyn) (hws : m'.ws[c]? = some wc)
    (hbuf : 0 < cfg.ops.capacity wd → m'.buf (regionOf cfg d wd) = m.buf (regionOf cfg d wd))
    (hcnt : ∀ id, regionOf cfg d wd = .blk id → 0 < cfg.ops.capacity wd → m'.cnt id = m.cnt id)
    (hinl : m'.buf (.inl c) = some (raws cfg.n)) :
    Store cfg (SOkP P cfg.ops cfg.n) c m' wc b := by
  have hreg : regionOf cfg c wc = regionOf cfg d wd := by
    unfold regionOf
    rw [L.begin_small, L.begin_small, hs, hs', hdyn]
    simp only [Bool.false_eq_true, ↓reduceIte]
    rcases hd.ok.2 hs with ⟨id, hdy, _, _⟩ | ⟨hdy, _⟩ <;> rw [hdy] <;> rfl
  refine ⟨hws, ⟨hrep, fun _ => by rw [hdyn, hcap]; exact hd.ok.2 hs⟩, by rw [hcap]; exact hd.len, ?_, ?_, fun _ _ => hinl⟩
  · rcases hd.buf with h0 | hb
    · exact Or.inl (by rw [hcap]; exact h0)
    · rcases Nat.eq_zero_or_pos (cfg.ops.capacity wd) with h0 | hpos
      · exact Or.inl (by rw [hcap]; exact h0)
      · exact Or.inr (by rw [hreg, hbuf hpos]; exact hb)
  · intro id hid hne
    rw [hreg] at hid
    rw [hcap] at hne ⊢
    rw [hcnt id hid (by omega)]
    exact hd.cnt id hid hne

/-- a container in inline state owns no heap block -/
theorem OwnsBlk.small_none {cfg : Cfg} (L : SmallLaws cfg.ops cfg.n) {m : Mem α} {e : Nat} {w : VB} (hws : m.ws[e]? = some w)
    (hs : cfg.ops.isSmall w = true) (id : Nat) : ¬ OwnsBlk cfg e m id := by
  rw [OwnsBlk.iff hws, regionOf_small L e w hs]
  rintro ⟨h, _⟩; cases h

/-- words `wc'` of `c` (in `m'`) that took over state, capacity and pointer of the words `wd` of `d` (in `m`): `c` owns afterwards
    exactly what `d` owned before -/
theorem OwnsBlk.transfer {cfg : Cfg} {P : Nat → Prop} (L : SmallLaws cfg.ops cfg.n) {m m' : Mem α} {c d : Nat} {wc' wd : VB}
    (hws' : m'.ws[c]? = some wc') (hws : m.ws[d]? = some wd) (hok : SOkP P cfg.ops cfg.n wd)
    (hsm : cfg.ops.isSmall wc' = cfg.ops.isSmall wd) (hcap : cfg.ops.capacity wc' = cfg.ops.capacity wd)
    (hdyn : cfg.ops.isSmall wd = false → wc'.dyn = wd.dyn) (id : Nat) : OwnsBlk cfg c m' id ↔ OwnsBlk cfg d m id := by
  rw [OwnsBlk.iff hws', OwnsBlk.iff hws]
  cases hs : cfg.ops.isSmall wd with
  | true =>
    rw [regionOf_small L c wc' (hsm.trans hs), regionOf_small L d wd hs]
    constructor <;> (rintro ⟨h, _⟩; cases h)
  | false =>
    have hreg : regionOf cfg c wc' = regionOf cfg d wd := by
      unfold regionOf
      rw [L.begin_small, L.begin_small, hs, hsm.trans hs, hdyn hs]
      simp only [Bool.false_eq_true, ↓reduceIte]
      rcases hok.2 hs with ⟨id, hdy, _, _⟩ | ⟨hdy, _⟩ <;> rw [hdy] <;> rfl
    rw [hreg, hcap]

/-- block accounting of `c = std::move(d)` / `Vector(Vector&& d)`: `d` owns no block afterwards; what `c` owns afterwards was
    owned by `c` or by `d` before; and a block of `c` or `d` that still exists is owned by `c` -/
structure MoveAcct (cfg : Cfg) (c d : Nat) (m m' : Mem α) : Prop where
  dNone : ∀ id, ¬ OwnsBlk cfg d m' id
  origin : ∀ id, OwnsBlk cfg c m' id → OwnsBlk cfg c m id ∨ OwnsBlk cfg d m id
  kept : ∀ id, (m'.buf (.blk id)).isSome → OwnsBlk cfg c m id ∨ OwnsBlk cfg d m id → OwnsBlk cfg c m' id

/-- `c` took over the block of `d`; its own block (if any) is gone -/
theorem MoveAcct.ofSteal {cfg : Cfg} {c d : Nat} {m m' : Mem α} (hd' : ∀ id, ¬ OwnsBlk cfg d m' id)
    (h : ∀ id, OwnsBlk cfg c m' id ↔ OwnsBlk cfg d m id) (gone : ∀ id, OwnsBlk cfg c m id → m'.buf (.blk id) = none) :
    MoveAcct cfg c d m m' := by
  refine ⟨hd', fun id ho => Or.inr ((h id).mp ho), ?_⟩
  rintro id hid (ho | ho)
  · rw [gone id ho] at hid; cases hid
  · exact (h id).mpr ho

/-- `c` kept its block; `d` owned none -/
theorem MoveAcct.ofKeep {cfg : Cfg} {c d : Nat} {m m' : Mem α} (hd' : ∀ id, ¬ OwnsBlk cfg d m' id)
    (h : ∀ id, OwnsBlk cfg c m' id ↔ OwnsBlk cfg c m id) (hdm : ∀ id, ¬ OwnsBlk cfg d m id) : MoveAcct cfg c d m m' := by
  refine ⟨hd', fun id ho => Or.inl ((h id).mp ho), ?_⟩
  rintro id _ (ho | ho)
  · exact (h id).mpr ho
  · exact absurd ho (hdm id)

/-- `c` owns no block any more (its old block, if any, is gone); `d` owned none -/
theorem MoveAcct.ofNone {cfg : Cfg} {c d : Nat} {m m' : Mem α} (hd' : ∀ id, ¬ OwnsBlk cfg d m' id)
    (hc' : ∀ id, ¬ OwnsBlk cfg c m' id) (hdm : ∀ id, ¬ OwnsBlk cfg d m id)
    (gone : ∀ id, OwnsBlk cfg c m id → m'.buf (.blk id) = none) : MoveAcct cfg c d m m' := by
  refine ⟨hd', fun id ho => absurd ho (hc' id), ?_⟩
  rintro id hid (ho | ho)
  · rw [gone id ho] at hid; cases hid
  · exact absurd ho (hdm id)

/-! ### move construction -/

/-- outcome of `Vector(Vector&& d)` into pool slot `c`: `c` holds what `d` held, `d` is empty (inline state); no exception;
    only the inline storages of `c` and `d` may have changed, no block was created or released; and when `d` was heap-backed
    *only the words changed* (no element operation, no allocator call, event counters untouched): `c` now points to the block
    `d` pointed to -/
def MoveCtorPost (cfg : Cfg) (Ok : VB → Prop) (c d : Nat) (m : Mem α) (ys : List α) (wd : VB) : Except Stop Unit → Mem α → Prop :=
  fun res m' => res = .ok () ∧ ∃ wc' wd', VRepW cfg Ok c m' ys wc' ∧ VRepW cfg Ok d m' [] wd'
    ∧ cfg.ops.capacity wc' = cfg.ops.capacity wd
    ∧ Frame2 c d [.inl c, .inl d] m m'
    ∧ (∀ id, (m.buf (.blk id)).isSome → (m'.buf (.blk id)).isSome)
    ∧ (regionOf cfg d wd ≠ .inl d →
        m' = ({ m with ws := (m.ws.set c wc').set d wd' } : Mem α) ∧ regionOf cfg c wc' = regionOf cfg d wd)
    ∧ (∀ id, OwnsBlk cfg c m' id ↔ OwnsBlk cfg d m id) ∧ (∀ id, ¬ OwnsBlk cfg d m' id)

theorem moveConstruct_small {cfg : Cfg} {P : Nat → Prop} (hfl : cfg.flavour = .small) (L : SmallLaws cfg.ops cfg.n)
    (ML : MoveLaws cfg.ops cfg.n) (m : Mem α) (c d : Nat) (ys : List α) (wd : VB) (hne : c ≠ d) (hc : c < m.ws.length)
    (hraw : m.buf (.inl c) = some (raws cfg.n)) (hd : VRepW cfg (SOkP P cfg.ops cfg.n) d m ys wd) :
    Post (moveConstruct cfg c d) m (MoveCtorPost cfg (SOkP P cfg.ops cfg.n) c d m ys wd) := by
  have hdl : d < m.ws.length := Cross.getElem?_lt hd.ws
  unfold moveConstruct construct
  refine Post.bind (setW_post m c _) ?_ (by okerr)
  rintro _ m1 ⟨_, rfl⟩
  refine Post.bind (getW_post _ c (cfg.ops.ctor cfg.n) (by simp [hc])) ?_ (by okerr)
  rintro w1 m1 ⟨hw1, rfl⟩; injection hw1 with hw1; subst hw1
  refine Post.bind (getW_post _ d wd (by
    show (m.ws.set c _)[d]? = some wd
    rw [List.getElem?_set_ne hne]; exact hd.ws)) ?_ (by okerr)
  rintro w2 m1 ⟨hw2, rfl⟩; injection hw2 with hw2; subst hw2
  have hlaw := L.moveConstruct (cfg.ops.ctor cfg.n) w2 hd.ok.1
  have heffs := ML.moveConstructEffs (cfg.ops.ctor cfg.n) w2 hd.ok.1
  rcases hmc : cfg.ops.moveConstruct (cfg.ops.ctor cfg.n) w2 cfg.n with ⟨wc', wd', effs⟩
  rw [hmc] at hlaw heffs
  dsimp only at hlaw heffs ⊢
  obtain ⟨k1, k2, k3, k4, k5, k6, k7, k8, k9⟩ := hlaw
  have hle := hd.le
  have hsz := hd.size
  generalize hm1 : ({ m with ws := m.ws.set c (cfg.ops.ctor cfg.n) } : Mem α) = m1
  have hb1 : m1.buf = m.buf := by rw [← hm1, withWs_buf]
  have hws1 : m1.ws = m.ws.set c (cfg.ops.ctor cfg.n) := by rw [← hm1]
  have hfin : ∀ m3 : Mem α, m3.ws = m1.ws →
      ({ m3 with ws := (m3.ws.set c wc').set d wd' } : Mem α).ws = (m.ws.set c wc').set d wd' := by
    intro m3 h3
    show (m3.ws.set c wc').set d wd' = _
    rw [h3, hws1, List.set_set]
  have hown : ∀ m4 : Mem α, m4.ws = (m.ws.set c wc').set d wd' →
      (∀ id, OwnsBlk cfg c m4 id ↔ OwnsBlk cfg d m id) ∧ (∀ id, ¬ OwnsBlk cfg d m4 id) := by
    intro m4 h4
    have hwc : m4.ws[c]? = some wc' := by rw [h4]; exact ws_fst _ _ _ _ _ hc hne
    have hwd : m4.ws[d]? = some wd' := by rw [h4]; exact ws_snd _ _ _ _ _ (by simpa using hdl)
    exact ⟨OwnsBlk.transfer L hwc hd.ws hd.ok k7 k8 k9, OwnsBlk.small_none L hwd k5⟩
  cases hs : cfg.ops.isSmall w2 with
  | true =>
    -- inline source: relocate its elements into the inline storage of `c`
    rw [hs] at heffs k7 k9
    simp only [↓reduceIte] at heffs
    subst heffs
    have hcapd : cfg.ops.capacity w2 = cfg.n := (L.bounds w2 hd.ok.1).2.2 hs
    have hregd := regionOf_small L d w2 hs
    have hbd : m.buf (.inl d) = some (lives ys ++ raws (cfg.n - ys.length)) := by
      rcases hd.buf with h0 | hb
      · have := L.npos; omega
      · rw [hregd, hcapd] at hb; exact hb
    rw [hcapd] at hle
    have hner : Region.inl d ≠ Region.inl c := by intro e; injection e with e; exact hne e.symm
    simp only [interpAll, interp_relocN, resolve_inl0, resolve_inl1, hsz]
    have h2 : m1.buf (.inl d) = some ([] ++ lives ys ++ raws (cfg.n - ys.length)) := by rw [hb1]; simpa using hbd
    have h2' : m1.buf (.inl c) = some ([] ++ raws ys.length ++ raws (cfg.n - ys.length)) := by
      rw [hb1, hraw, List.nil_append, raws_append]; congr 2; omega
    refine Post.bind (post_then_pure (relocAcross_post m1 (.inl d) (.inl c) hner [] _ [] _ ys h2 h2')) ?_
      (by rintro e m3 ⟨he, _⟩; cases he)
    rintro _ m3 ⟨_, hk3, hb3⟩
    refine Post.mono (commit2_post m3 c d wc' wd') ?_
    rintro res m4 ⟨hr, rfl⟩
    have hws4 := hfin m3 hk3.ws
    have hbc : m3.buf (.inl c) = some (lives ys ++ raws (cfg.n - ys.length)) := by rw [hb3, View.set_same]; rfl
    have hbdd : m3.buf (.inl d) = some (raws cfg.n) := by
      rw [hb3, View.set_other _ _ _ _ hner, View.set_same, List.nil_append, raws_append]; congr 2; omega
    refine ⟨hr, wc', wd', ?_, ?_, k8, ?_, ?_, ?_, hown _ hws4⟩
    · exact VRepW.inline L (by rw [hws4]; exact ws_fst _ _ _ _ _ hc hne) k1 k7 (by rw [k3, hsz]) (by rw [withWs_buf]; exact hbc)
    · exact VRepW.inline L (by rw [hws4]; exact ws_snd _ _ _ _ _ (by simpa using hdl)) k2 k5 (by rw [k4]; rfl)
        (by rw [withWs_buf, hbdd]; simp [lives])
    · refine ⟨hk3.cat.trans (by rw [← hm1]), hk3.hr.trans (by rw [← hm1]), hk3.nid.trans (by rw [← hm1]), by rw [hws4]; simp,
        fun e hec hed => by rw [hws4]; exact ws_other _ _ _ _ _ _ hec hed, ?_, ?_, ?_⟩
      · intro r' hr'
        simp only [List.mem_cons, List.not_mem_nil, or_false, not_or] at hr'
        rw [withWs_buf, hb3, View.set_other _ _ _ _ hr'.1, View.set_other _ _ _ _ hr'.2, hb1]
      · intro id hid
        rw [withWs_buf, hb3, View.set_other _ _ _ _ (by intro e; cases e), View.set_other _ _ _ _ (by intro e; cases e), hb1] at hid
        exact hid
      · intro id _
        rw [withWs_cnt, hk3.cnt, ← hm1]; rfl
    · intro id hid
      rw [withWs_buf, hb3, View.set_other _ _ _ _ (by intro e; cases e), View.set_other _ _ _ _ (by intro e; cases e), hb1]
      exact hid
    · intro hreg; exact absurd hregd hreg
  | false =>
    -- heap-backed source: the block changes hands, nothing else happens
    rw [hs] at heffs k7 k9
    simp only [Bool.false_eq_true, ↓reduceIte] at heffs
    subst heffs
    obtain ⟨idd, hregd, _⟩ := hd.ok.heap L hs
    have hinld : m.buf (.inl d) = some (raws cfg.n) := hd.store.inl (by rw [hregd d]; intro e; cases e) hfl
    simp only [interpAll]
    refine Post.bind (post_then_pure (setDyn_post m1 c d _ (by rw [hb1]; exact hraw) (Or.inl (all_raw _)))) ?_ (by okerr)
    rintro _ m3 ⟨_, rfl⟩
    refine Post.mono (commit2_post m3 c d wc' wd') ?_
    rintro res m4 ⟨hr, rfl⟩
    have hws4 := hfin m3 rfl
    have hm4 : ({ m3 with ws := (m3.ws.set c wc').set d wd' } : Mem α) = ({ m with ws := (m.ws.set c wc').set d wd' } : Mem α) := by
      have : (m3.ws.set c wc').set d wd' = (m.ws.set c wc').set d wd' := hws4
      rw [this, ← hm1]
    rw [hm4]
    have hst : Store cfg (SOkP P cfg.ops cfg.n) c ({ m with ws := (m.ws.set c wc').set d wd' } : Mem α) wc'
        (lives ys ++ raws (cfg.ops.capacity w2 - ys.length)) :=
      Store.steal L hd.store hs k1 k7 k8 (k9 rfl) (ws_fst _ _ _ _ _ hc hne) (fun _ => by rw [withWs_buf]) (fun _ _ _ => rfl)
        (by rw [withWs_buf]; exact hraw)
    refine ⟨hr, wc', wd', ⟨by rw [k8]; exact hst, by rw [k3, hsz]⟩, ?_, k8, ?_, fun id hid => by rw [withWs_buf]; exact hid, ?_,
      hown _ rfl⟩
    · exact VRepW.inline L (ws_snd _ _ _ _ _ (by simpa using hdl)) k2 k5 (by rw [k4]; rfl) (by rw [withWs_buf, hinld]; simp [lives])
    · exact ⟨rfl, rfl, rfl, by simp, fun e hec hed => ws_other _ _ _ _ _ _ hec hed, fun _ _ => by rw [withWs_buf],
        fun id hid => by rw [withWs_buf] at hid; exact hid, fun _ _ => rfl⟩
    · intro _
      refine ⟨rfl, ?_⟩
      unfold regionOf
      rw [L.begin_small, L.begin_small, hs, k7, k9 rfl]
      simp only [Bool.false_eq_true, ↓reduceIte]
      rcases hd.ok.2 hs with ⟨id, hdy, _, _⟩ | ⟨hdy, _⟩ <;> rw [hdy] <;> rfl

/-! ### move assignment -/

/-- container `c` (words `wc`) has given up its elements and its heap block (if any): its old region holds no object any more
    — the block is gone, the inline storage is all raw —, nothing else changed -/
structure Released (cfg : Cfg) (c : Nat) (wc : VB) (m m' : Mem α) : Prop where
  keep : KeepA m m'
  inl : m'.buf (.inl c) = some (raws cfg.n)
  other : ∀ r', r' ≠ regionOf cfg c wc → m'.buf r' = m.buf r'
  gone : ∀ id, regionOf cfg c wc = .blk id → 0 < cfg.ops.capacity wc → m'.buf (.blk id) = none
  sub : ∀ id, (m'.buf (.blk id)).isSome → (m.buf (.blk id)).isSome
  cnt : ∀ id, (m'.buf (.blk id)).isSome → m'.cnt id = m.cnt id

/-- `destroy_n(begin, size); deallocate(ptr, capacity)` of a container in heap state, followed by further effects -/
theorem releaseHeap_then {cfg : Cfg} {P : Nat → Prop} (hfl : cfg.flavour = .small) (L : SmallLaws cfg.ops cfg.n) (m : Mem α)
    (c d : Nat) (xs : List α) (wc : VB) (h : VRepW cfg (SOkP P cfg.ops cfg.n) c m xs wc) (hs : cfg.ops.isSmall wc = false)
    (rest : List Eff) (k : Unit → M α β) (Q : Except Stop β → Mem α → Prop)
    (hrest : ∀ m2, Released cfg c wc m m2 → Post (interpAll c d rest >>= k) m2 Q) :
    Post (interpAll c d (Eff.destroyN wc.dyn (cfg.ops.size wc) :: Eff.dealloc wc.dyn (cfg.ops.capacity wc) :: rest) >>= k) m Q := by
  obtain ⟨id, hreg, hcase⟩ := h.ok.heap L hs
  have hinl0 : m.buf (.inl c) = some (raws cfg.n) := h.store.inl (by rw [hreg c]; intro e; cases e) hfl
  have hres : resolve c d wc.dyn = ⟨regionOf cfg c wc, 0⟩ := by
    rw [hreg c]
    rcases hcase with ⟨hd, _⟩ | ⟨hd, h0, _⟩
    · rw [hd]; rfl
    · rw [hd, h0]; rfl
  rw [interpAll_cons_bind, interpAll_cons_bind, interp_destroyN, interp_dealloc, hres, h.size]
  refine Post.bind (destroyAll_post m c xs wc h) ?_ (by rintro e m1 ⟨he, _⟩; cases he)
  rintro _ m1 ⟨_, hk1, hb1, ho1, hn1⟩
  have hner : Region.inl c ≠ regionOf cfg c wc := by rw [hreg c]; intro e; cases e
  rcases hcase with ⟨hd, hpos⟩ | ⟨hd, hid0, hc0⟩
  · rw [hd]
    have hbb : m1.buf (.blk id) = some (raws (cfg.ops.capacity wc)) := by
      rcases hb1 with h0 | hb
      · omega
      · rw [← hreg c]; exact hb
    have hcc : m1.cnt id = some (cfg.ops.capacity wc) := by rw [hk1.cnt]; exact h.store.cnt id (hreg c) (by omega)
    refine Post.bind (deallocBlock_post m1 id _ _ hbb hcc (Or.inl (all_raw _))) ?_ (by rintro e m2 ⟨he, _⟩; cases he)
    rintro _ m2 ⟨_, hf2⟩
    refine hrest m2 ⟨hk1.toA.trans hf2.keep, ?_, ?_, ?_, ?_, ?_⟩
    · rw [hf2.buf, View.unset_other _ _ _ (by intro e; cases e), ho1 _ hner]; exact hinl0
    · intro r' hr'
      rw [hf2.buf, View.unset_other _ _ _ (by rw [← hreg c]; exact hr')]; exact ho1 r' hr'
    · intro id' hid' _
      rw [hreg c] at hid'; injection hid' with hid'; subst hid'
      rw [hf2.buf, View.unset_same]
    · intro id' hid'
      rw [hf2.buf] at hid'
      by_cases e : id' = id
      · subst e; rw [View.unset_same] at hid'; cases hid'
      · rw [View.unset_other _ _ _ (by intro e'; injection e' with e'; exact e e')] at hid'
        exact hn1 _ hid'
    · intro id' hid'
      have e : id' ≠ id := by
        rintro rfl; rw [hf2.buf, View.unset_same] at hid'; cases hid'
      rw [hf2.cntOther id' e, hk1.cnt]
  · rw [hd, hc0]
    refine Post.bind (deallocNull_post m1) ?_ (by rintro e m2 ⟨he, _⟩; cases he)
    rintro _ m2 ⟨_, hs2⟩
    refine hrest m2 ⟨hk1.toA.trans hs2.2.toA, ?_, ?_, ?_, ?_, ?_⟩
    · rw [hs2.1, ho1 _ hner]; exact hinl0
    · intro r' hr'; rw [hs2.1]; exact ho1 r' hr'
    · intro _ _ hp; omega
    · intro id' hid'; rw [hs2.1] at hid'; exact hn1 _ hid'
    · intro id' _; rw [hs2.2.cnt, hk1.cnt]

/-- `destroy_n(begin, size)` of a container in inline state, followed by further effects -/
theorem releaseInline_then {cfg : Cfg} {P : Nat → Prop} (L : SmallLaws cfg.ops cfg.n) (m : Mem α)
    (c d : Nat) (xs : List α) (wc : VB) (h : VRepW cfg (SOkP P cfg.ops cfg.n) c m xs wc) (hs : cfg.ops.isSmall wc = true)
    (rest : List Eff) (k : Unit → M α β) (Q : Except Stop β → Mem α → Prop)
    (hrest : ∀ m2, Released cfg c wc m m2 → Post (interpAll c d rest >>= k) m2 Q) :
    Post (interpAll c d (Eff.destroyN (PtrV.inl 0) (cfg.ops.size wc) :: rest) >>= k) m Q := by
  have hreg := regionOf_small L c wc hs
  have hcap : cfg.ops.capacity wc = cfg.n := (L.bounds wc h.ok.1).2.2 hs
  rw [interpAll_cons_bind, interp_destroyN, resolve_inl0, h.size, ← hreg]
  refine Post.bind (destroyAll_post m c xs wc h) ?_ (by rintro e m1 ⟨he, _⟩; cases he)
  rintro _ m1 ⟨_, hk1, hb1, ho1, hn1⟩
  refine hrest m1 ⟨hk1.toA, ?_, ho1, ?_, fun id hid => hn1 _ hid, fun id _ => hk1.cnt id⟩
  · rcases hb1 with h0 | hb
    · have := L.npos; omega
    · rw [← hreg, ← hcap]; exact hb
  · intro id hid; rw [hreg] at hid; cases hid

/-- outcome of `c = std::move(d)` when `d` is heap-backed: `c` holds what `d` held in the block `d` pointed to, `d` is empty
    (inline state); no exception; the elements `c` held are destroyed and its block (if any) returned; only the old region of `c`
    changed — in particular no element of `d` was touched — and no block was created -/
def StealPost (cfg : Cfg) (Ok : VB → Prop) (c d : Nat) (m : Mem α) (ys : List α) (wc wd : VB) : Except Stop Unit → Mem α → Prop :=
  fun res m' => res = .ok () ∧ ∃ wc' wd', VRepW cfg Ok c m' ys wc' ∧ VRepW cfg Ok d m' [] wd'
    ∧ cfg.ops.capacity wc' = cfg.ops.capacity wd ∧ regionOf cfg c wc' = regionOf cfg d wd
    ∧ Frame2 c d [regionOf cfg c wc] m m'
    ∧ (∀ id, regionOf cfg c wc = .blk id → 0 < cfg.ops.capacity wc → m'.buf (.blk id) = none)
    ∧ cfg.ops.isSmall wd' = true

theorem moveAssign_steal {cfg : Cfg} {P : Nat → Prop} (hfl : cfg.flavour = .small) (L : SmallLaws cfg.ops cfg.n)
    (ML : MoveLaws cfg.ops cfg.n) (m : Mem α) (c d : Nat) (xs ys : List α) (wc wd : VB) (hne : c ≠ d)
    (hc : VRepW cfg (SOkP P cfg.ops cfg.n) c m xs wc) (hd : VRepW cfg (SOkP P cfg.ops cfg.n) d m ys wd)
    (hdisj : regionOf cfg c wc ≠ regionOf cfg d wd ∨ (cfg.ops.capacity wc = 0 ∧ cfg.ops.capacity wd = 0))
    (hsd : cfg.ops.isSmall wd = false) :
    Post (moveAssign cfg c d) m (StealPost cfg (SOkP P cfg.ops cfg.n) c d m ys wc wd) := by
  have hcl : c < m.ws.length := Cross.getElem?_lt hc.ws
  have hdl : d < m.ws.length := Cross.getElem?_lt hd.ws
  unfold moveAssign
  rw [if_pos hne]
  refine Post.bind (getW_post m c wc hc.ws) ?_ (by okerr)
  rintro w1 m1 ⟨hw1, rfl⟩; injection hw1 with hw1; subst hw1
  refine Post.bind (getW_post _ d wd hd.ws) ?_ (by okerr)
  rintro w2 m1 ⟨hw2, rfl⟩; injection hw2 with hw2; subst hw2
  have hrep := L.moveAssignRep w1 w2 hc.ok.1 hd.ok.1
  have hst := L.moveAssignSteal w1 w2 hc.ok.1 hd.ok.1 hsd
  have heffs := ML.moveAssignStealEffs w1 w2 hc.ok.1 hd.ok.1 hsd
  rcases hma : cfg.ops.moveAssign w1 w2 cfg.n with ⟨wc', wd', effs⟩
  rw [hma] at hrep hst heffs
  dsimp only at hrep hst heffs ⊢
  obtain ⟨k1, k2, k3, k4, k5, k6⟩ := hrep
  obtain ⟨s1, s2, s3⟩ := hst
  obtain ⟨idd, hregd, _⟩ := hd.ok.heap L hsd
  have hinld : m1.buf (.inl d) = some (raws cfg.n) := hd.store.inl (by rw [hregd d]; intro e; cases e) hfl
  -- what remains once `c` has released its storage
  have hfinish : ∀ m2, Released cfg c w1 m1 m2 →
      Post (do interpAll c d [Eff.setDyn 0]; setW c wc'; setW d wd') m2 (StealPost cfg (SOkP P cfg.ops cfg.n) c d m1 ys w1 w2) := by
    intro m2 hrel
    simp only [interpAll]
    refine Post.bind (post_then_pure (setDyn_post m2 c d _ hrel.inl (Or.inl (all_raw _)))) ?_ (by okerr)
    rintro _ m3 ⟨_, rfl⟩
    refine Post.mono (commit2_post m3 c d wc' wd') ?_
    rintro res m4 ⟨hr, rfl⟩
    have hws4 : ({ m3 with ws := (m3.ws.set c wc').set d wd' } : Mem α).ws = (m1.ws.set c wc').set d wd' := by
      show (m3.ws.set c wc').set d wd' = _
      rw [hrel.keep.ws]
    have hnd : Region.inl d ≠ regionOf cfg c w1 := by
      cases hs : cfg.ops.isSmall w1 with
      | true => rw [regionOf_small L c w1 hs]; intro e; injection e with e; exact hne e.symm
      | false => obtain ⟨i, hr', _⟩ := hc.ok.heap L hs; rw [hr' c]; intro e; cases e
    have hdreg : 0 < cfg.ops.capacity w2 → regionOf cfg d w2 ≠ regionOf cfg c w1 := by
      intro hp
      rcases hdisj with h1 | ⟨_, h2⟩
      · exact Ne.symm h1
      · omega
    have hsteal : Store cfg (SOkP P cfg.ops cfg.n) c ({ m3 with ws := (m3.ws.set c wc').set d wd' } : Mem α) wc'
        (lives ys ++ raws (cfg.ops.capacity w2 - ys.length)) := by
      refine Store.steal L hd.store hsd k1 s1 s2 s3 (by rw [hws4]; exact ws_fst _ _ _ _ _ hcl hne) ?_ ?_
        (by rw [withWs_buf]; exact hrel.inl)
      · intro hp; rw [withWs_buf]; exact hrel.other _ (hdreg hp)
      · intro id hid hp
        rw [withWs_cnt]
        refine hrel.cnt id ?_
        rw [← hid, hrel.other _ (hdreg hp)]; exact hd.isSome hp
    have hregc' : regionOf cfg c wc' = regionOf cfg d w2 := by
      unfold regionOf
      rw [L.begin_small, L.begin_small, hsd, s1, s3]
      simp only [Bool.false_eq_true, ↓reduceIte]
      rcases hd.ok.2 hsd with ⟨id, hdy, _, _⟩ | ⟨hdy, _⟩ <;> rw [hdy] <;> rfl
    refine ⟨hr, wc', wd', ⟨by rw [s2]; exact hsteal, by rw [k3, hd.size]⟩, ?_, s2, hregc', ?_, ?_, k5⟩
    · exact VRepW.inline L (by rw [hws4]; exact ws_snd _ _ _ _ _ (by simpa using hdl)) k2 k5 (by rw [k4]; rfl)
        (by rw [withWs_buf, hrel.other _ hnd, hinld]; simp [lives])
    · refine ⟨hrel.keep.cat, hrel.keep.hr, hrel.keep.nid, by rw [hws4]; simp,
        fun e hec hed => by rw [hws4]; exact ws_other _ _ _ _ _ _ hec hed, ?_, fun id hid => hrel.sub id (by rw [withWs_buf] at hid; exact hid),
        fun id hid => by rw [withWs_cnt]; exact hrel.cnt id (by rw [withWs_buf] at hid; exact hid)⟩
      intro r' hr'
      simp only [List.mem_cons, List.not_mem_nil, or_false] at hr'
      rw [withWs_buf]; exact hrel.other r' hr'
    · intro id hid hp
      rw [withWs_buf]; exact hrel.gone id hid hp
  cases hs : cfg.ops.isSmall w1 with
  | true =>
    rw [hs] at heffs
    simp only [↓reduceIte] at heffs
    subst heffs
    exact releaseInline_then L m1 c d xs w1 hc hs [Eff.setDyn 0] _ _ hfinish
  | false =>
    rw [hs] at heffs
    simp only [Bool.false_eq_true, ↓reduceIte] at heffs
    subst heffs
    exact releaseHeap_then hfl L m1 c d xs w1 hc hs [Eff.setDyn 0] _ _ hfinish

/-! ### composing two-container frames -/

theorem Frame2.mono {c d : Nat} {rs rs' : List Region} {m m' : Mem α} (h : Frame2 c d rs m m') (hs : ∀ r, r ∈ rs → r ∈ rs') :
    Frame2 c d rs' m m' :=
  ⟨h.cat, h.hr, h.nid, h.wsLen, h.wsOther, fun r' hr' => h.bufOther r' (fun hin => hr' (hs r' hin)), h.blocks, h.cnt⟩

theorem Frame2.trans {c d : Nat} {rs rs' : List Region} {m m1 m2 : Mem α} (h1 : Frame2 c d rs m m1) (h2 : Frame2 c d rs' m1 m2) :
    Frame2 c d (rs ++ rs') m m2 := by
  refine ⟨h2.cat.trans h1.cat, h2.hr.trans h1.hr, h2.nid.trans h1.nid, h2.wsLen.trans h1.wsLen,
    fun e hec hed => (h2.wsOther e hec hed).trans (h1.wsOther e hec hed), ?_, fun id hid => h1.blocks id (h2.blocks id hid),
    fun id hid => (h2.cnt id hid).trans (h1.cnt id (h2.blocks id hid))⟩
  intro r' hr'
  simp only [List.mem_append, not_or] at hr'
  rw [h2.bufOther r' hr'.2, h1.bufOther r' hr'.1]

theorem Frame2.ofReleased {cfg : Cfg} {c : Nat} {wc : VB} {m m2 : Mem α} (d : Nat) (h : Released cfg c wc m m2) :
    Frame2 c d [regionOf cfg c wc] m m2 :=
  ⟨h.keep.cat, h.keep.hr, h.keep.nid, by rw [h.keep.ws], fun _ _ _ => by rw [h.keep.ws],
    fun r' hr' => h.other r' (by simpa using hr'), h.sub, h.cnt⟩

/-- an element-level transfer between two existing regions, followed by the commit of the new words -/
theorem Frame2.ofSet2 {c d : Nat} {m m3 : Mem α} {r1 r2 : Region} {b1 b2 : List (Slot α)} (wc' wd' : VB) (hk : Keep m m3)
    (hb : m3.buf = View.set (View.set m.buf r1 b1) r2 b2) (h1 : (m.buf r1).isSome) (h2 : (m.buf r2).isSome) :
    Frame2 c d [r1, r2] m ({ m3 with ws := (m3.ws.set c wc').set d wd' } : Mem α) := by
  refine ⟨hk.cat, hk.hr, hk.nid, by simp [hk.ws], fun e hec hed => ?_, ?_, ?_, fun id _ => by rw [withWs_cnt]; exact hk.cnt id⟩
  · show ((m3.ws.set c wc').set d wd')[e]? = _
    rw [ws_other _ _ _ _ _ _ hec hed, hk.ws]
  · intro r' hr'
    simp only [List.mem_cons, List.not_mem_nil, or_false, not_or] at hr'
    rw [withWs_buf, hb, View.set_other _ _ _ _ hr'.2, View.set_other _ _ _ _ hr'.1]
  · intro id hid
    rw [withWs_buf, hb] at hid
    by_cases e2 : Region.blk id = r2
    · rw [e2]; exact h2
    · rw [View.set_other _ _ _ _ e2] at hid
      by_cases e1 : Region.blk id = r1
      · rw [e1]; exact h1
      · rwa [View.set_other _ _ _ _ e1] at hid

theorem Frame2.sameBuf {c d : Nat} {m m3 : Mem α} (wc' wd' : VB) (hs : m3 = m) :
    Frame2 c d [] m ({ m3 with ws := (m3.ws.set c wc').set d wd' } : Mem α) := by
  subst hs
  exact ⟨rfl, rfl, rfl, by simp, fun e hec hed => ws_other _ _ _ _ _ _ hec hed, fun _ _ => by rw [withWs_buf],
    fun id hid => by rw [withWs_buf] at hid; exact hid, fun _ _ => rfl⟩

theorem moveN_zero_post (m : Mem α) (s d : Addr) : Post (moveN s 0 d 0) m (fun res m' => res = .ok () ∧ m' = m) := by
  unfold moveN
  refine Post.bind (Cross.isTR_post m) ?_ (by okerr)
  rintro t m0 ⟨ht, rfl⟩; injection ht with ht; subst ht
  split
  · simp only [destroyN]
    refine Post.bind (Q1 := fun res m' => res = .ok () ∧ m' = m0) ⟨rfl, rfl⟩ ?_ (by okerr)
    rintro _ m1 ⟨_, rfl⟩
    exact uninitRelocN_zero_post m1 _ _
  · simp only [Nat.min_self, moveFwd, Nat.lt_irrefl, ↓reduceIte, Nat.sub_self, destroyN]
    exact ⟨rfl, rfl⟩

/-- outcome of `c = std::move(d)` (`c ≠ d`): `c` holds what `d` held, `d` is empty; no exception; only the old region of `c`
    and the two inline storages may have changed, no block was created, and if `c` no longer points to the block it owned, that
    block has been returned -/
def MoveAssignPost (cfg : Cfg) (Ok : VB → Prop) (c d : Nat) (m : Mem α) (ys : List α) (wc : VB) : Except Stop Unit → Mem α → Prop :=
  fun res m' => res = .ok () ∧ ∃ wc' wd', VRepW cfg Ok c m' ys wc' ∧ VRepW cfg Ok d m' [] wd'
    ∧ Frame2 c d [regionOf cfg c wc, .inl c, .inl d] m m'
    ∧ (∀ id, regionOf cfg c wc = .blk id → 0 < cfg.ops.capacity wc → regionOf cfg c wc' ≠ .blk id → m'.buf (.blk id) = none)
    ∧ MoveAcct cfg c d m m'

/-- move assignment from a source in inline state: the elements are moved one by one (into the heap buffer of `c` when it is
    large enough, else into its inline storage after the heap buffer was returned) -/
theorem moveAssign_inline {cfg : Cfg} {P : Nat → Prop} (hfl : cfg.flavour = .small) (L : SmallLaws cfg.ops cfg.n)
    (ML : MoveLaws cfg.ops cfg.n) (m : Mem α) (c d : Nat) (xs ys : List α) (wc wd : VB) (hne : c ≠ d)
    (hc : VRepW cfg (SOkP P cfg.ops cfg.n) c m xs wc) (hd : VRepW cfg (SOkP P cfg.ops cfg.n) d m ys wd)
    (hsd : cfg.ops.isSmall wd = true) :
    Post (moveAssign cfg c d) m (MoveAssignPost cfg (SOkP P cfg.ops cfg.n) c d m ys wc) := by
  have hcl : c < m.ws.length := Cross.getElem?_lt hc.ws
  have hdl : d < m.ws.length := Cross.getElem?_lt hd.ws
  unfold moveAssign
  rw [if_pos hne]
  refine Post.bind (getW_post m c wc hc.ws) ?_ (by okerr)
  rintro w1 m1 ⟨hw1, rfl⟩; injection hw1 with hw1; subst hw1
  refine Post.bind (getW_post _ d wd hd.ws) ?_ (by okerr)
  rintro w2 m1 ⟨hw2, rfl⟩; injection hw2 with hw2; subst hw2
  have hrep := L.moveAssignRep w1 w2 hc.ok.1 hd.ok.1
  rcases hma : cfg.ops.moveAssign w1 w2 cfg.n with ⟨wc', wd', effs⟩
  rw [hma] at hrep
  dsimp only at hrep ⊢
  obtain ⟨k1, k2, k3, k4, k5, k6⟩ := hrep
  have hcapd : cfg.ops.capacity w2 = cfg.n := (L.bounds w2 hd.ok.1).2.2 hsd
  have hregd := regionOf_small L d w2 hsd
  have hled : ys.length ≤ cfg.n := by rw [← hcapd]; exact hd.le
  have hbd : m1.buf (.inl d) = some (lives ys ++ raws (cfg.n - ys.length)) := by
    rcases hd.buf with h0 | hb
    · have := L.npos; omega
    · rw [hregd, hcapd] at hb; exact hb
  have hner : Region.inl d ≠ Region.inl c := by intro e; injection e with e; exact hne e.symm
  have hlec := hc.le
  have hdm : ∀ id, ¬ OwnsBlk cfg d m1 id := OwnsBlk.small_none L hd.ws hsd
  have hfin : ∀ m4 : Mem α, m4.ws = (m1.ws.set c wc').set d wd' →
      m4.ws[c]? = some wc' ∧ ∀ id, ¬ OwnsBlk cfg d m4 id := by
    intro m4 h4
    have hwd : m4.ws[d]? = some wd' := by rw [h4]; exact ws_snd _ _ _ _ _ (by simpa using hdl)
    exact ⟨by rw [h4]; exact ws_fst _ _ _ _ _ hcl hne, OwnsBlk.small_none L hwd k5⟩
  cases hs : cfg.ops.isSmall w1 with
  | true =>
    -- both inline
    have hlaw := L.moveAssignInline w1 w2 hc.ok.1 hd.ok.1 hsd hs
    rw [hma] at hlaw
    dsimp only at hlaw
    obtain ⟨i1, i2, heffs⟩ := hlaw
    subst heffs
    have hcapc : cfg.ops.capacity w1 = cfg.n := (L.bounds w1 hc.ok.1).2.2 hs
    have hregc := regionOf_small L c w1 hs
    rw [hcapc] at hlec
    have hbc : m1.buf (.inl c) = some (lives xs ++ raws (cfg.n - xs.length)) := by
      rcases hc.buf with h0 | hb
      · have := L.npos; omega
      · rw [hregc, hcapc] at hb; exact hb
    simp only [interpAll, interp_moveN, resolve_inl0, resolve_inl1, hc.size, hd.size]
    refine Post.bind (post_then_pure (moveNAcross_post m1 (.inl d) (.inl c) hner [] (raws (cfg.n - ys.length)) [] [] ys xs
      (cfg.n - xs.length) (by omega) (by simpa using hbd) (by simpa using hbc))) ?_ (by rintro e m3 ⟨he, _⟩; cases he)
    rintro _ m3 ⟨_, hk3, hb3⟩
    refine Post.mono (commit2_post m3 c d wc' wd') ?_
    rintro res m4 ⟨hr, rfl⟩
    have hws4 : ({ m3 with ws := (m3.ws.set c wc').set d wd' } : Mem α).ws = (m1.ws.set c wc').set d wd' := by
      show (m3.ws.set c wc').set d wd' = _
      rw [hk3.ws]
    have hfr := Frame2.ofSet2 (c := c) (d := d) wc' wd' hk3 hb3 (by rw [hbd]; rfl) (by rw [hbc]; rfl)
    refine ⟨hr, wc', wd', ?_, ?_, hfr.mono (by intro r hr'; simp at hr' ⊢; rcases hr' with rfl | rfl <;> simp), ?_,
      MoveAcct.ofNone (hfin _ hws4).2 (OwnsBlk.small_none L (hfin _ hws4).1 i1) hdm
        (fun id ho => absurd ho (OwnsBlk.small_none L hc.ws hs id))⟩
    · refine VRepW.inline L (by rw [hws4]; exact ws_fst _ _ _ _ _ hcl hne) k1 i1 (by rw [k3, hd.size]) ?_
      rw [withWs_buf, hb3, View.set_same]
      simp only [List.nil_append, List.append_nil]
      congr 3; omega
    · refine VRepW.inline L (by rw [hws4]; exact ws_snd _ _ _ _ _ (by simpa using hdl)) k2 k5 (by rw [k4]; rfl) ?_
      rw [withWs_buf, hb3, View.set_other _ _ _ _ hner, View.set_same, List.nil_append, raws_append]
      simp only [lives, List.map_nil, List.nil_append, List.length_nil, Nat.sub_zero]
      congr 2; omega
    · intro id hid; rw [hregc] at hid; cases hid
  | false =>
    have hlaw := L.moveAssignIntoHeap w1 w2 hc.ok.1 hd.ok.1 hsd hs
    rw [hma] at hlaw
    dsimp only at hlaw
    obtain ⟨idc, hregc, hcase⟩ := hc.ok.heap L hs
    have hinlc : m1.buf (.inl c) = some (raws cfg.n) := hc.store.inl (by rw [hregc c]; intro e; cases e) hfl
    by_cases hfit : cfg.ops.size w2 ≤ cfg.ops.capacity w1
    · -- the heap buffer of `c` is large enough: keep it
      obtain ⟨j1, j2, j3⟩ := hlaw.1 hfit
      have heffs := ML.moveAssignKeepEffs w1 w2 hc.ok.1 hd.ok.1 hsd hs hfit
      rw [hma] at heffs
      dsimp only at heffs
      subst heffs
      rw [hd.size] at hfit
      simp only [interpAll, interp_moveN, resolve_inl1, hc.size, hd.size]
      have hregc' : regionOf cfg c wc' = regionOf cfg c w1 := by
        unfold regionOf
        rw [L.begin_small, L.begin_small, hs, j1, j3]
      rcases hcase with ⟨hdy, hpos⟩ | ⟨hdy, hid0, hc0⟩
      · have hbc : m1.buf (.blk idc) = some (lives xs ++ raws (cfg.ops.capacity w1 - xs.length)) := by
          rcases hc.buf with h0 | hb
          · omega
          · rw [hregc c] at hb; exact hb
        have hnerb : Region.inl d ≠ Region.blk idc := by intro e; cases e
        rw [hdy, resolve_blk]
        refine Post.bind (post_then_pure (moveNAcross_post m1 (.inl d) (.blk idc) hnerb [] (raws (cfg.n - ys.length)) [] [] ys xs
          (cfg.ops.capacity w1 - xs.length) (by omega) (by simpa using hbd) (by simpa using hbc))) ?_
          (by rintro e m3 ⟨he, _⟩; cases he)
        rintro _ m3 ⟨_, hk3, hb3⟩
        refine Post.mono (commit2_post m3 c d wc' wd') ?_
        rintro res m4 ⟨hr, rfl⟩
        have hws4 : ({ m3 with ws := (m3.ws.set c wc').set d wd' } : Mem α).ws = (m1.ws.set c wc').set d wd' := by
          show (m3.ws.set c wc').set d wd' = _
          rw [hk3.ws]
        have hfr := Frame2.ofSet2 (c := c) (d := d) wc' wd' hk3 hb3 (by rw [hbd]; rfl) (by rw [hbc]; rfl)
        have hbc3 : m3.buf (regionOf cfg c w1) = some (lives ys ++ raws (cfg.ops.capacity w1 - ys.length)) := by
          rw [hregc c, hb3, View.set_same]
          simp only [List.nil_append, List.append_nil]
          congr 3; omega
        have hst3 : Store cfg (SOkP P cfg.ops cfg.n) c m3 w1 (lives ys ++ raws (cfg.ops.capacity w1 - ys.length)) := by
          refine ⟨by rw [hk3.ws]; exact hc.ws, hc.ok, by simp; omega, Or.inr hbc3, fun id hid hne' => by
            rw [hk3.cnt]; exact hc.store.cnt id hid hne', fun _ _ => ?_⟩
          rw [hb3, View.set_other _ _ _ _ (by intro e; cases e), View.set_other _ _ _ _ (Ne.symm hner)]; exact hinlc
        refine ⟨hr, wc', wd', ⟨?_, by rw [k3, hd.size]⟩, ?_,
          hfr.mono (by intro r hr'; simp at hr' ⊢; rcases hr' with rfl | rfl <;> simp [hregc c]), ?_,
          MoveAcct.ofKeep (hfin _ hws4).2 (OwnsBlk.transfer L (hfin _ hws4).1 hc.ws hc.ok (j1.trans hs.symm) j2 (fun _ => j3)) hdm⟩
        · rw [j2]
          exact Store.steal L hst3 hs k1 j1 j2 j3 (by rw [hws4]; exact ws_fst _ _ _ _ _ hcl hne) (fun _ => by rw [withWs_buf])
            (fun _ _ _ => rfl) (by rw [withWs_buf]; exact hst3.inl (by rw [hregc c]; intro e; cases e) hfl)
        · refine VRepW.inline L (by rw [hws4]; exact ws_snd _ _ _ _ _ (by simpa using hdl)) k2 k5 (by rw [k4]; rfl) ?_
          rw [withWs_buf, hb3, View.set_other _ _ _ _ hnerb, View.set_same, List.nil_append, raws_append]
          simp only [lives, List.map_nil, List.nil_append, List.length_nil, Nat.sub_zero]
          congr 2; omega
        · intro id hid _ hne'; exact absurd (hregc'.trans hid) hne'
      · -- `c` is in heap state without storage, so `d` is empty: nothing to move
        have hy : ys = [] := List.eq_nil_of_length_eq_zero (by omega)
        have hx : xs = [] := List.eq_nil_of_length_eq_zero (by omega)
        subst hy hx
        rw [hdy, resolve_null]
        simp only [List.length_nil]
        refine Post.bind (post_then_pure (moveN_zero_post m1 _ _)) ?_ (by okerr)
        rintro _ m3 ⟨_, rfl⟩
        refine Post.mono (commit2_post m3 c d wc' wd') ?_
        rintro res m4 ⟨hr, rfl⟩
        have hfr := Frame2.sameBuf (c := c) (d := d) wc' wd' (rfl : m3 = m3)
        refine ⟨hr, wc', wd', ⟨?_, by rw [k3, hd.size]⟩, ?_, hfr.mono (by simp), ?_,
          MoveAcct.ofKeep (hfin _ rfl).2 (OwnsBlk.transfer L (hfin _ rfl).1 hc.ws hc.ok (j1.trans hs.symm) j2 (fun _ => j3)) hdm⟩
        · rw [j2]
          exact Store.steal L hc.store hs k1 j1 j2 j3 (ws_fst _ _ _ _ _ hcl hne) (fun _ => by rw [withWs_buf])
            (fun _ _ _ => rfl) (by rw [withWs_buf]; exact hinlc)
        · exact VRepW.inline L (ws_snd _ _ _ _ _ (by simpa using hdl)) k2 k5 (by rw [k4]; rfl) (by rw [withWs_buf]; exact hbd)
        · intro id _ hp; omega
    · -- the heap buffer of `c` is too small: return it, move into the inline storage
      have hlt : cfg.ops.capacity w1 < cfg.ops.size w2 := by omega
      obtain ⟨j1, j2⟩ := hlaw.2 hlt
      have heffs := ML.moveAssignReleaseEffs w1 w2 hc.ok.1 hd.ok.1 hsd hs hlt
      rw [hma] at heffs
      dsimp only at heffs
      subst heffs
      refine releaseHeap_then hfl L m1 c d xs w1 hc hs [Eff.moveN (PtrV.inl 1) (cfg.ops.size w2) (PtrV.inl 0) 0] _ _ ?_
      intro m2 hrel
      simp only [interpAll, interp_moveN, resolve_inl0, resolve_inl1, hd.size]
      have hndr : Region.inl d ≠ regionOf cfg c w1 := by rw [hregc c]; intro e; cases e
      have h2d : m2.buf (.inl d) = some ([] ++ lives ys ++ raws (cfg.n - ys.length)) := by
        rw [hrel.other _ hndr]; simpa using hbd
      have h2c : m2.buf (.inl c) = some ([] ++ lives ([] : List α) ++ raws cfg.n ++ []) := by rw [hrel.inl]; simp [lives]
      refine Post.bind (post_then_pure (moveNAcross_post m2 (.inl d) (.inl c) hner [] _ [] [] ys [] cfg.n (by simpa using hled)
        h2d h2c)) ?_ (by rintro e m3 ⟨he, _⟩; cases he)
      rintro _ m3 ⟨_, hk3, hb3⟩
      refine Post.mono (commit2_post m3 c d wc' wd') ?_
      rintro res m4 ⟨hr, rfl⟩
      have hws4 : ({ m3 with ws := (m3.ws.set c wc').set d wd' } : Mem α).ws = (m1.ws.set c wc').set d wd' := by
        show (m3.ws.set c wc').set d wd' = _
        rw [hk3.ws, hrel.keep.ws]
      have hfr := (Frame2.ofReleased d hrel).trans
        (Frame2.ofSet2 (c := c) (d := d) wc' wd' hk3 hb3 (by rw [h2d]; rfl) (by rw [h2c]; rfl))
      have hgone4 : ∀ id, regionOf cfg c w1 = .blk id → 0 < cfg.ops.capacity w1 →
          ({ m3 with ws := (m3.ws.set c wc').set d wd' } : Mem α).buf (.blk id) = none := by
        intro id hid hp
        rw [withWs_buf, hb3, View.set_other _ _ _ _ (by intro e; cases e), View.set_other _ _ _ _ (by intro e; cases e)]
        exact hrel.gone id hid hp
      refine ⟨hr, wc', wd', ?_, ?_, hfr.mono (by intro r hr'; simp at hr' ⊢; rcases hr' with rfl | rfl | rfl <;> simp),
        fun id hid hp _ => hgone4 id hid hp,
        MoveAcct.ofNone (hfin _ hws4).2 (OwnsBlk.small_none L (hfin _ hws4).1 j1) hdm
          (fun id ho => hgone4 id ((OwnsBlk.iff hc.ws id).mp ho).1 ((OwnsBlk.iff hc.ws id).mp ho).2)⟩
      · refine VRepW.inline L (by rw [hws4]; exact ws_fst _ _ _ _ _ hcl hne) k1 j1 (by rw [k3, hd.size]) ?_
        rw [withWs_buf, hb3, View.set_same]
        simp [lives]
      · refine VRepW.inline L (by rw [hws4]; exact ws_snd _ _ _ _ _ (by simpa using hdl)) k2 k5 (by rw [k4]; rfl) ?_
        rw [withWs_buf, hb3, View.set_other _ _ _ _ hner, View.set_same, List.nil_append, raws_append]
        simp only [lives, List.map_nil, List.nil_append, List.length_nil, Nat.sub_zero]
        congr 2; omega

/-- `c = std::move(d)` for two distinct SmallVectors whose storages are distinct (or both empty): all cases -/
theorem moveAssign_small {cfg : Cfg} {P : Nat → Prop} (hfl : cfg.flavour = .small) (L : SmallLaws cfg.ops cfg.n)
    (ML : MoveLaws cfg.ops cfg.n) (m : Mem α) (c d : Nat) (xs ys : List α) (wc wd : VB) (hne : c ≠ d)
    (hc : VRepW cfg (SOkP P cfg.ops cfg.n) c m xs wc) (hd : VRepW cfg (SOkP P cfg.ops cfg.n) d m ys wd)
    (hdisj : regionOf cfg c wc ≠ regionOf cfg d wd ∨ (cfg.ops.capacity wc = 0 ∧ cfg.ops.capacity wd = 0)) :
    Post (moveAssign cfg c d) m (MoveAssignPost cfg (SOkP P cfg.ops cfg.n) c d m ys wc) := by
  cases hsd : cfg.ops.isSmall wd with
  | true => exact moveAssign_inline hfl L ML m c d xs ys wc wd hne hc hd hsd
  | false =>
    refine Post.mono (moveAssign_steal hfl L ML m c d xs ys wc wd hne hc hd hdisj hsd) ?_
    rintro res m' ⟨hr, wc', wd', h1, h2, hcap, hreg, hfr, hgone, hsm'⟩
    refine ⟨hr, wc', wd', h1, h2, hfr.mono (by intro r hr'; simp at hr' ⊢; exact Or.inl hr'), fun id hid hp _ => hgone id hid hp, ?_⟩
    refine MoveAcct.ofSteal (OwnsBlk.small_none L h2.ws hsm') (fun id => ?_) (fun id ho => ?_)
    · rw [OwnsBlk.iff h1.ws, OwnsBlk.iff hd.ws, hreg, hcap]
    · have := (OwnsBlk.iff hc.ws id).mp ho
      exact hgone id this.1 this.2

/-- self move-assignment does nothing -/
theorem moveAssign_self (cfg : Cfg) (m : Mem α) (c : Nat) :
    Post (moveAssign cfg c c) m (fun res m' => res = .ok () ∧ m' = m) := by
  unfold moveAssign
  rw [if_neg (by simp)]
  exact ⟨rfl, rfl⟩

/-! ### swap -/

/-- outcome of `c.swap(d)` (`c ≠ d`): the contents are exchanged; no exception; only the two inline storages may have changed
    (heap buffers change hands without an element operation), no block was created or released -/
def SwapPost (cfg : Cfg) (Ok : VB → Prop) (c d : Nat) (m : Mem α) (xs ys : List α) : Except Stop Unit → Mem α → Prop :=
  fun res m' => res = .ok () ∧ ∃ wc' wd', VRepW cfg Ok c m' ys wc' ∧ VRepW cfg Ok d m' xs wd'
    ∧ Frame2 c d [.inl c, .inl d] m m'
    ∧ (∀ id, OwnsBlk cfg c m' id ↔ OwnsBlk cfg d m id) ∧ (∀ id, OwnsBlk cfg d m' id ↔ OwnsBlk cfg c m id)

theorem swapSame_small {cfg : Cfg} {P : Nat → Prop} (hfl : cfg.flavour = .small) (L : SmallLaws cfg.ops cfg.n)
    (ML : MoveLaws cfg.ops cfg.n) (m : Mem α) (c d : Nat) (xs ys : List α) (wc wd : VB) (hne : c ≠ d)
    (hc : VRepW cfg (SOkP P cfg.ops cfg.n) c m xs wc) (hd : VRepW cfg (SOkP P cfg.ops cfg.n) d m ys wd) :
    Post (swapSame cfg c d) m (SwapPost cfg (SOkP P cfg.ops cfg.n) c d m xs ys) := by
  have hcl : c < m.ws.length := Cross.getElem?_lt hc.ws
  have hdl : d < m.ws.length := Cross.getElem?_lt hd.ws
  unfold swapSame
  rw [if_pos hne]
  refine Post.bind (getW_post m c wc hc.ws) ?_ (by okerr)
  rintro w1 m1 ⟨hw1, rfl⟩; injection hw1 with hw1; subst hw1
  refine Post.bind (getW_post _ d wd hd.ws) ?_ (by okerr)
  rintro w2 m1 ⟨hw2, rfl⟩; injection hw2 with hw2; subst hw2
  have hlaw := L.swapImpl w1 w2 hc.ok.1 hd.ok.1
  have heffs := ML.swapEffs w1 w2 hc.ok.1 hd.ok.1
  rcases hsw : cfg.ops.swapImpl w1 w2 with ⟨wc', wd', effs⟩
  rw [hsw] at hlaw heffs
  dsimp only at hlaw heffs ⊢
  obtain ⟨k1, k2, k3, k4, k5, k6, k7, k8, k9, k10⟩ := hlaw
  have hner : Region.inl c ≠ Region.inl d := by intro e; injection e with e; exact hne e
  have hlec := hc.le
  have hled := hd.le
  -- facts about an operand in inline / heap state
  have inlineBuf : ∀ (e : Nat) (zs : List α) (w : VB), VRepW cfg (SOkP P cfg.ops cfg.n) e m1 zs w → cfg.ops.isSmall w = true →
      cfg.ops.capacity w = cfg.n ∧ m1.buf (.inl e) = some (lives zs ++ raws (cfg.n - zs.length)) := by
    intro e zs w hv hs
    have hcap : cfg.ops.capacity w = cfg.n := (L.bounds w hv.ok.1).2.2 hs
    refine ⟨hcap, ?_⟩
    rcases hv.buf with h0 | hb
    · have := L.npos; omega
    · rw [regionOf_small L e w hs, hcap] at hb; exact hb
  have heapInl : ∀ (e : Nat) (zs : List α) (w : VB), VRepW cfg (SOkP P cfg.ops cfg.n) e m1 zs w → cfg.ops.isSmall w = false →
      m1.buf (.inl e) = some (raws cfg.n) := by
    intro e zs w hv hs
    obtain ⟨i, hr', _⟩ := hv.ok.heap L hs
    exact hv.store.inl (by rw [hr' e]; intro e'; cases e') hfl
  have hwsf : ∀ m3 : Mem α, m3.ws = m1.ws →
      ({ m3 with ws := (m3.ws.set c wc').set d wd' } : Mem α).ws[c]? = some wc'
      ∧ ({ m3 with ws := (m3.ws.set c wc').set d wd' } : Mem α).ws[d]? = some wd' := by
    intro m3 h3
    constructor
    · show ((m3.ws.set c wc').set d wd')[c]? = _
      rw [h3]; exact ws_fst _ _ _ _ _ hcl hne
    · show ((m3.ws.set c wc').set d wd')[d]? = _
      rw [h3]; exact ws_snd _ _ _ _ _ (by simpa using hdl)
  have hown : ∀ m3 : Mem α, m3.ws = m1.ws →
      (∀ id, OwnsBlk cfg c ({ m3 with ws := (m3.ws.set c wc').set d wd' } : Mem α) id ↔ OwnsBlk cfg d m1 id)
      ∧ (∀ id, OwnsBlk cfg d ({ m3 with ws := (m3.ws.set c wc').set d wd' } : Mem α) id ↔ OwnsBlk cfg c m1 id) := by
    intro m3 h3
    obtain ⟨hwc, hwd⟩ := hwsf m3 h3
    exact ⟨OwnsBlk.transfer L hwc hd.ws hd.ok k7 k5 k9, OwnsBlk.transfer L hwd hc.ws hc.ok k8 k6 k10⟩
  cases hs1 : cfg.ops.isSmall w1 with
  | true =>
    obtain ⟨hcapc, hbc⟩ := inlineBuf c xs w1 hc hs1
    rw [hcapc] at hlec
    cases hs2 : cfg.ops.isSmall w2 with
    | true =>
      -- both inline: exchange the elements
      obtain ⟨hcapd, hbd⟩ := inlineBuf d ys w2 hd hs2
      rw [hcapd] at hled
      rw [hs1, hs2] at heffs
      simp only [↓reduceIte] at heffs
      subst heffs
      rw [hs2] at k7; rw [hs1] at k8
      simp only [interpAll, interp_swapDeep, resolve_inl0, resolve_inl1, hc.size, hd.size]
      refine Post.bind (post_then_pure (swapDeepAcross_post m1 (.inl c) (.inl d) hner [] [] [] [] xs ys (cfg.n - xs.length)
        (cfg.n - ys.length) (by omega) (by omega) (by simpa using hbc) (by simpa using hbd))) ?_ (by rintro e m3 ⟨he, _⟩; cases he)
      rintro _ m3 ⟨_, hk3, hb3⟩
      refine Post.mono (commit2_post m3 c d wc' wd') ?_
      rintro res m4 ⟨hr, rfl⟩
      obtain ⟨hwc, hwd⟩ := hwsf m3 hk3.ws
      refine ⟨hr, wc', wd', ?_, ?_, Frame2.ofSet2 wc' wd' hk3 hb3 (by rw [hbc]; rfl) (by rw [hbd]; rfl), hown m3 hk3.ws⟩
      · refine VRepW.inline L hwc k1 k7 (by rw [k3, hd.size]) ?_
        rw [withWs_buf, hb3, View.set_other _ _ _ _ hner, View.set_same]
        simp only [List.nil_append, List.append_nil]
        congr 3; omega
      · refine VRepW.inline L hwd k2 k8 (by rw [k4, hc.size]) ?_
        rw [withWs_buf, hb3, View.set_same]
        simp only [List.nil_append, List.append_nil]
        congr 3; omega
    | false =>
      -- `c` inline, `d` heap-backed: the elements of `c` go to the inline storage of `d`, the block of `d` to `c`
      have hinld := heapInl d ys w2 hd hs2
      rw [hs1, hs2] at heffs
      simp only [↓reduceIte, Bool.false_eq_true] at heffs
      subst heffs
      rw [hs2] at k7 k9; rw [hs1] at k8
      refine Post.bind (Q1 := fun res m3 => res = .ok () ∧ Keep m1 m3 ∧
          m3.buf = View.set (View.set m1.buf (.inl c) (raws cfg.n)) (.inl d) (lives xs ++ raws (cfg.n - xs.length))) ?_ ?_
          (by rintro e m3 ⟨he, _⟩; cases he)
      · simp only [interpAll, interp_relocN, resolve_inl0, resolve_inl1, hc.size]
        have h2 : m1.buf (.inl c) = some ([] ++ lives xs ++ raws (cfg.n - xs.length)) := by simpa using hbc
        have h2' : m1.buf (.inl d) = some ([] ++ raws xs.length ++ raws (cfg.n - xs.length)) := by
          rw [hinld, List.nil_append, raws_append]; congr 2; omega
        refine Post.bind (relocAcross_post m1 (.inl c) (.inl d) hner [] _ [] _ xs h2 h2') ?_ (by okerr)
        rintro _ m3 ⟨_, hk3, hb3⟩
        have hraw : ([] ++ raws xs.length ++ raws (cfg.n - xs.length) : List (Slot α)) = raws cfg.n := by
          rw [List.nil_append, raws_append]; congr 1; omega
        rw [hraw, List.nil_append] at hb3
        have h3c : m3.buf (.inl c) = some (raws cfg.n) := by rw [hb3, View.set_other _ _ _ _ hner, View.set_same]
        refine Post.bind (setDyn_post m3 c d _ h3c (Or.inl (all_raw _))) ?_ (by okerr)
        rintro _ m4 ⟨_, rfl⟩
        exact Post.pure ⟨rfl, hk3, hb3⟩
      · rintro _ m3 ⟨_, hk3, hb3⟩
        refine Post.mono (commit2_post m3 c d wc' wd') ?_
        rintro res m4 ⟨hr, rfl⟩
        obtain ⟨hwc, hwd⟩ := hwsf m3 hk3.ws
        obtain ⟨idd, hregd, _⟩ := hd.ok.heap L hs2
        refine ⟨hr, wc', wd', ⟨?_, by rw [k3, hd.size]⟩, ?_, Frame2.ofSet2 wc' wd' hk3 hb3 (by rw [hbc]; rfl) (by rw [hinld]; rfl),
          hown m3 hk3.ws⟩
        · rw [k5]
          refine Store.steal L hd.store hs2 k1 k7 k5 (k9 rfl) hwc ?_ (fun id _ _ => by rw [withWs_cnt]; exact hk3.cnt id) ?_
          · intro _
            rw [withWs_buf, hb3, hregd d, View.set_other _ _ _ _ (by intro e; cases e), View.set_other _ _ _ _ (by intro e; cases e)]
          · rw [withWs_buf, hb3, View.set_other _ _ _ _ hner, View.set_same]
        · refine VRepW.inline L hwd k2 k8 (by rw [k4, hc.size]) ?_
          rw [withWs_buf, hb3, View.set_same]
  | false =>
    have hinlc := heapInl c xs w1 hc hs1
    obtain ⟨idc, hregc, _⟩ := hc.ok.heap L hs1
    cases hs2 : cfg.ops.isSmall w2 with
    | true =>
      -- `c` heap-backed, `d` inline: symmetric
      obtain ⟨hcapd, hbd⟩ := inlineBuf d ys w2 hd hs2
      rw [hcapd] at hled
      rw [hs1, hs2] at heffs
      simp only [↓reduceIte, Bool.false_eq_true] at heffs
      subst heffs
      rw [hs2] at k7; rw [hs1] at k8 k10
      refine Post.bind (Q1 := fun res m3 => res = .ok () ∧ Keep m1 m3 ∧
          m3.buf = View.set (View.set m1.buf (.inl d) (raws cfg.n)) (.inl c) (lives ys ++ raws (cfg.n - ys.length))) ?_ ?_
          (by rintro e m3 ⟨he, _⟩; cases he)
      · simp only [interpAll, interp_relocN, resolve_inl0, resolve_inl1, hd.size]
        have h2 : m1.buf (.inl d) = some ([] ++ lives ys ++ raws (cfg.n - ys.length)) := by simpa using hbd
        have h2' : m1.buf (.inl c) = some ([] ++ raws ys.length ++ raws (cfg.n - ys.length)) := by
          rw [hinlc, List.nil_append, raws_append]; congr 2; omega
        refine Post.bind (relocAcross_post m1 (.inl d) (.inl c) (Ne.symm hner) [] _ [] _ ys h2 h2') ?_ (by okerr)
        rintro _ m3 ⟨_, hk3, hb3⟩
        have hraw : ([] ++ raws ys.length ++ raws (cfg.n - ys.length) : List (Slot α)) = raws cfg.n := by
          rw [List.nil_append, raws_append]; congr 1; omega
        rw [hraw, List.nil_append] at hb3
        have h3d : m3.buf (.inl (if 1 = 0 then c else d)) = some (raws cfg.n) := by
          simp only [Nat.succ_ne_zero, ↓reduceIte]
          rw [hb3, View.set_other _ _ _ _ (Ne.symm hner), View.set_same]
        refine Post.bind (setDyn_post' m3 c d 1 _ h3d (Or.inl (all_raw _))) ?_ (by okerr)
        rintro _ m4 ⟨_, rfl⟩
        exact Post.pure ⟨rfl, hk3, hb3⟩
      · rintro _ m3 ⟨_, hk3, hb3⟩
        refine Post.mono (commit2_post m3 c d wc' wd') ?_
        rintro res m4 ⟨hr, rfl⟩
        obtain ⟨hwc, hwd⟩ := hwsf m3 hk3.ws
        have hfr := Frame2.ofSet2 (c := c) (d := d) wc' wd' hk3 hb3 (by rw [hbd]; rfl) (by rw [hinlc]; rfl)
        refine ⟨hr, wc', wd', ?_, ⟨?_, by rw [k4, hc.size]⟩,
          hfr.mono (by intro r hr'; simp at hr' ⊢; rcases hr' with rfl | rfl <;> simp), hown m3 hk3.ws⟩
        · refine VRepW.inline L hwc k1 k7 (by rw [k3, hd.size]) ?_
          rw [withWs_buf, hb3, View.set_same]
        · rw [k6]
          refine Store.steal L hc.store hs1 k2 k8 k6 (k10 rfl) hwd ?_ (fun id _ _ => by rw [withWs_cnt]; exact hk3.cnt id) ?_
          · intro _
            rw [withWs_buf, hb3, hregc c, View.set_other _ _ _ _ (by intro e; cases e), View.set_other _ _ _ _ (by intro e; cases e)]
          · rw [withWs_buf, hb3, View.set_other _ _ _ _ (Ne.symm hner), View.set_same]
    | false =>
      -- both heap-backed: only the words are exchanged
      have hinld := heapInl d ys w2 hd hs2
      rw [hs1, hs2] at heffs
      simp only [↓reduceIte, Bool.false_eq_true] at heffs
      subst heffs
      rw [hs2] at k7 k9; rw [hs1] at k8 k10
      refine Post.bind (Q1 := fun res m3 => res = .ok () ∧ m3 = m1) ?_ ?_ (by okerr)
      · simp only [interpAll]
        refine Post.bind (setDyn_post m1 c d _ hinlc (Or.inl (all_raw _))) ?_ (by okerr)
        rintro _ m3 ⟨_, rfl⟩
        have h3d : m3.buf (.inl (if 1 = 0 then c else d)) = some (raws cfg.n) := by
          simp only [Nat.succ_ne_zero, ↓reduceIte]; exact hinld
        exact post_then_pure (setDyn_post' m3 c d 1 _ h3d (Or.inl (all_raw _)))
      · rintro _ m3 ⟨_, rfl⟩
        refine Post.mono (commit2_post m3 c d wc' wd') ?_
        rintro res m4 ⟨hr, rfl⟩
        obtain ⟨hwc, hwd⟩ := hwsf m3 rfl
        refine ⟨hr, wc', wd', ⟨?_, by rw [k3, hd.size]⟩, ⟨?_, by rw [k4, hc.size]⟩,
          (Frame2.sameBuf (c := c) (d := d) wc' wd' (rfl : m3 = m3)).mono (by simp), hown m3 rfl⟩
        · rw [k5]
          exact Store.steal L hd.store hs2 k1 k7 k5 (k9 rfl) hwc (fun _ => by rw [withWs_buf]) (fun _ _ _ => rfl)
            (by rw [withWs_buf]; exact hinlc)
        · rw [k6]
          exact Store.steal L hc.store hs1 k2 k8 k6 (k10 rfl) hwd (fun _ => by rw [withWs_buf]) (fun _ _ _ => rfl)
            (by rw [withWs_buf]; exact hinld)

/-- self swap does nothing -/
theorem swapSame_self (cfg : Cfg) (m : Mem α) (c : Nat) :
    Post (swapSame cfg c c) m (fun res m' => res = .ok () ∧ m' = m) := by
  unfold swapSame
  rw [if_neg (by simp)]
  exact ⟨rfl, rfl⟩

end AmcVerif
