import AmcVerif.Lemmas.VecPool
/-! Histories over a POOL of SmallVectors of one configuration in one memory.

`PoolOp`: every single-container operation of `IsVecOp` applied to slot `i`, `shrink_to_fit` on slot `i`, the two-container
operations `copyAssign i j` (`v_i = v_j`), `moveAssign i j` (`v_i = std::move(v_j)`), `swap i j`, and the re-constructions of a
slot: `reset i` (destroy, default-construct), `moveConstruct i j` / `copyConstruct i j` (destroy `v_i`, construct it anew from
`std::move(v_j)` / from `v_j`). Their abstract semantics on the
list of lists `xss` is the `std::vector` semantics (a move leaves the source empty). `pool_step`: one operation, started in a
pool satisfying `PoolRep`, never faults and re-establishes `PoolRep` for the abstract result (or, after a C++ exception, for a
state the exception guarantee of the operation allows). `pool_history`: any list of pool operations, continued after C++
exceptions, never faults and ends in a pool satisfying `PoolRep` for a state the abstract semantics allows (`PTrace`); in
particular no block is leaked (`PoolRep.owned`) and no container is disturbed by an operation on another one. -/
namespace AmcVerif
variable {α : Type}

/-- the operations on a pool of containers -/
inductive PoolOp (α : Type) where
  /-- a single-container operation (one of `IsVecOp`) on slot `i` -/
  | one (i : Nat) (o : OpSpec α)
  /-- `v_i.shrink_to_fit()` -/
  | shrink (i : Nat)
  /-- `v_i = v_j` -/
  | copyAssign (i j : Nat)
  /-- `v_i = std::move(v_j)` -/
  | moveAssign (i j : Nat)
  /-- `v_i.swap(v_j)` -/
  | swap (i j : Nat)
  /-- `v_i.~Vector(); new (&v_i) Vector()`: slot `i` is destroyed and default-constructed again -/
  | reset (i : Nat)
  /-- `v_i.~Vector(); new (&v_i) Vector(std::move(v_j))` (`i ≠ j`) -/
  | moveConstruct (i j : Nat)
  /-- `v_i.~Vector(); new (&v_i) Vector(v_j)` (`i ≠ j`) -/
  | copyConstruct (i j : Nat)

/-- the list in slot `i` (`[]` outside the pool) -/
def sel (xss : List (List α)) (i : Nat) : List α := (xss[i]?).getD []

theorem sel_get {xss : List (List α)} {i : Nat} (hi : i < xss.length) : xss[i]? = some (sel xss i) := by
  unfold sel; rw [List.getElem?_eq_getElem hi]; rfl

theorem set_sel_self {xss : List (List α)} {i : Nat} {xs : List α} (h : xss[i]? = some xs) : xss.set i xs = xss := by
  apply List.ext_getElem?
  intro k
  by_cases hk : k = i
  · subst hk
    have hl : k < xss.length := by
      rcases Nat.lt_or_ge k xss.length with h1 | h1
      · exact h1
      · rw [List.getElem?_eq_none h1] at h; cases h
    rw [List.getElem?_set_self hl, h]
  · rw [List.getElem?_set_ne (Ne.symm hk)]

namespace PoolOp

/-- the model program -/
def run (cfg : Cfg) : PoolOp α → M α Unit
  | .one i o => o.run cfg i
  | .shrink i => shrinkToFit cfg i
  | .copyAssign i j => AmcVerif.copyAssign cfg i j
  | .moveAssign i j => AmcVerif.moveAssign cfg i j
  | .swap i j => swapSame cfg i j
  | .reset i => do destruct cfg i; construct cfg i
  | .moveConstruct i j => do destruct cfg i; AmcVerif.moveConstruct cfg i j
  | .copyConstruct i j => do destruct cfg i; AmcVerif.copyConstruct cfg i j

/-- precondition on the abstract state: the slots exist, the single-container operation is one of the proved ones and its
    precondition holds of the list in its slot -/
def pre (cfg : Cfg) : PoolOp α → List (List α) → Prop
  | .one i o, xss => i < xss.length ∧ IsVecOp cfg o ∧ o.pre cfg (sel xss i)
  | .shrink i, xss => i < xss.length
  | .copyAssign i j, xss => i < xss.length ∧ j < xss.length
  | .moveAssign i j, xss => i < xss.length ∧ j < xss.length
  | .swap i j, xss => i < xss.length ∧ j < xss.length
  | .reset i, xss => i < xss.length
  | .moveConstruct i j, xss => i < xss.length ∧ j < xss.length ∧ i ≠ j
  | .copyConstruct i j, xss => i < xss.length ∧ j < xss.length ∧ i ≠ j

/-- abstract result (`std::vector` semantics; the source of a move is left empty) -/
def spec : PoolOp α → List (List α) → List (List α)
  | .one i o, xss => xss.set i (o.spec (sel xss i))
  | .shrink _, xss => xss
  | .copyAssign i j, xss => if i = j then xss else xss.set i (sel xss j)
  | .moveAssign i j, xss => if i = j then xss else (xss.set i (sel xss j)).set j []
  | .swap i j, xss => if i = j then xss else (xss.set i (sel xss j)).set j (sel xss i)
  | .reset i, xss => xss.set i []
  | .moveConstruct i j, xss => (xss.set i (sel xss j)).set j []
  | .copyConstruct i j, xss => xss.set i (sel xss j)

/-- the abstract states a C++ exception thrown by the operation may leave: the single-container operations and the copy
    assignment affect their own slot only (strong guarantee: not at all); `shrink_to_fit` changes nothing; move assignment and
    swap never throw, nor do destruction, default and move construction; a copy construction that throws leaves the new object
    destroyed again: the slot is empty -/
def exc : PoolOp α → List (List α) → List (List α) → Prop
  | .one i o, xss, yss => ∃ xs'', yss = xss.set i xs'' ∧ (o.strong = true → xs'' = sel xss i)
  | .shrink _, xss, yss => yss = xss
  | .copyAssign i j, xss, yss => i ≠ j ∧ ∃ xs'', yss = xss.set i xs''
  | .moveAssign _ _, _, _ => False
  | .swap _ _, _, _ => False
  | .reset _, _, _ => False
  | .moveConstruct _ _, _, _ => False
  | .copyConstruct i _, xss, yss => yss = xss.set i []

/-- the operation's theorem needs an element type that is not trivially copyable (the two `assign` forms, and the copy
    assignment, which is `assign(first, last)`) -/
def nonTC : PoolOp α → Bool
  | .one _ o => o.nonTC
  | .copyAssign _ _ => true
  | _ => false

/-- the slots an operation may change (abstractly) -/
def touches : PoolOp α → List Nat
  | .one i _ => [i]
  | .shrink i => [i]
  | .copyAssign i _ => [i]
  | .moveAssign i j => [i, j]
  | .swap i j => [i, j]
  | .reset i => [i]
  | .moveConstruct i j => [i, j]
  | .copyConstruct i _ => [i]

theorem sel_set_ne (xss : List (List α)) (i k : Nat) (xs : List α) (h : i ≠ k) : sel (xss.set i xs) k = sel xss k := by
  unfold sel; rw [List.getElem?_set_ne h]

/-- abstractly, no operation changes a slot it does not touch -/
theorem spec_other (op : PoolOp α) (xss : List (List α)) (k : Nat) (hk : k ∉ op.touches) : sel (op.spec xss) k = sel xss k := by
  cases op with
  | one i o => simp only [touches, List.mem_singleton] at hk; exact sel_set_ne _ _ _ _ (Ne.symm hk)
  | shrink i => rfl
  | copyAssign i j =>
    simp only [touches, List.mem_singleton] at hk
    simp only [spec]; split
    · rfl
    · exact sel_set_ne _ _ _ _ (Ne.symm hk)
  | moveAssign i j =>
    simp only [touches, List.mem_cons, List.not_mem_nil, or_false, not_or] at hk
    simp only [spec]; split
    · rfl
    · rw [sel_set_ne _ _ _ _ (Ne.symm hk.2), sel_set_ne _ _ _ _ (Ne.symm hk.1)]
  | swap i j =>
    simp only [touches, List.mem_cons, List.not_mem_nil, or_false, not_or] at hk
    simp only [spec]; split
    · rfl
    · rw [sel_set_ne _ _ _ _ (Ne.symm hk.2), sel_set_ne _ _ _ _ (Ne.symm hk.1)]
  | reset i => simp only [touches, List.mem_singleton] at hk; exact sel_set_ne _ _ _ _ (Ne.symm hk)
  | moveConstruct i j =>
    simp only [touches, List.mem_cons, List.not_mem_nil, or_false, not_or] at hk
    simp only [spec]
    rw [sel_set_ne _ _ _ _ (Ne.symm hk.2), sel_set_ne _ _ _ _ (Ne.symm hk.1)]
  | copyConstruct i j => simp only [touches, List.mem_singleton] at hk; exact sel_set_ne _ _ _ _ (Ne.symm hk)

/-- nor does an exception thrown by it -/
theorem exc_other (op : PoolOp α) (xss yss : List (List α)) (k : Nat) (hk : k ∉ op.touches) (h : op.exc xss yss) :
    sel yss k = sel xss k := by
  cases op with
  | one i o =>
    simp only [touches, List.mem_singleton] at hk
    obtain ⟨xs'', rfl, _⟩ := h
    exact sel_set_ne _ _ _ _ (Ne.symm hk)
  | shrink i => have : yss = xss := h; rw [this]
  | copyAssign i j =>
    simp only [touches, List.mem_singleton] at hk
    obtain ⟨_, xs'', rfl⟩ := h
    exact sel_set_ne _ _ _ _ (Ne.symm hk)
  | moveAssign i j => exact h.elim
  | swap i j => exact h.elim
  | reset i => exact h.elim
  | moveConstruct i j => exact h.elim
  | copyConstruct i j =>
    simp only [touches, List.mem_singleton] at hk
    have : yss = xss.set i [] := h
    rw [this]; exact sel_set_ne _ _ _ _ (Ne.symm hk)

/-- the number of slots never changes -/
theorem spec_length (op : PoolOp α) (xss : List (List α)) : (op.spec xss).length = xss.length := by
  cases op <;> simp only [spec] <;> (try split) <;> simp

end PoolOp

/-- the laws of the generated members the pool theorems rest on (all instantiated in `Bridge/`) -/
structure PoolLaws (α : Type) (cfg : Cfg) : Prop where
  fl : cfg.flavour = .small
  vec : VecLaws α cfg (SOkW cfg.ops cfg.n)
  small : SmallLaws cfg.ops cfg.n
  move : MoveLaws cfg.ops cfg.n
  shrink : ShrinkLaws cfg (SOkW cfg.ops cfg.n)

theorem PoolLaws.nullAt0 {cfg : Cfg} (PL : PoolLaws α cfg) : NullAt0 cfg (SOkW cfg.ops cfg.n) :=
  fun c w hok hcap id hr => SOkP.null PL.small c w hok hcap id hr

/-- outcome of one pool operation: it took effect and the pool holds the abstract result; or it threw a C++ exception and the
    pool holds a state its exception guarantee allows; never a lifetime fault; in both cases `PoolRep`: every container valid,
    none disturbed by an operation on another, no block shared, no block leaked -/
def PoolStepPost (cfg : Cfg) (Ok : VB → Prop) (P n0 : Nat) (m : Mem α) (xss : List (List α)) (op : PoolOp α) :
    Except Stop Unit → Mem α → Prop :=
  fun res m' => ((res = .ok () ∧ PoolRep cfg Ok P n0 m' (op.spec xss)) ∨
                 (∃ e yss, res = .error (.exc e) ∧ op.exc xss yss ∧ PoolRep cfg Ok P n0 m' yss))
                ∧ m'.cat = m.cat

section steps
variable {cfg : Cfg} {P n0 : Nat} {m : Mem α} {xss : List (List α)}

/-- a single-container operation on slot `i` -/
theorem pool_one (PL : PoolLaws α cfg) (h : PoolRep cfg (SOkW cfg.ops cfg.n) P n0 m xss) (i : Nat) (o : OpSpec α)
    (hpre : (PoolOp.one i o).pre cfg xss) (hcat : o.nonTC = true → m.cat ≠ .tc) :
    Post (o.run cfg i) m (PoolStepPost cfg (SOkW cfg.ops cfg.n) P n0 m xss (.one i o)) := by
  obtain ⟨hil, hop, hp⟩ := hpre
  have hi : i < P := by rw [← h.len]; exact hil
  obtain ⟨w, hw⟩ := h.rep i _ (sel_get hil)
  refine Post.mono ((hop.ok PL.vec) m i (sel xss i) w hw h.inv hp hcat) ?_
  rintro res m' ⟨hq, _, hc1, hfr1⟩
  refine ⟨?_, hc1⟩
  rcases hq with ⟨hr, hv1⟩ | ⟨e, xs'', he, hv1, hst⟩
  · exact Or.inl ⟨hr, h.step1 PL.nullAt0 hi hw hv1 hfr1.toI⟩
  · exact Or.inr ⟨e, _, he, ⟨xs'', rfl, hst⟩, h.step1 PL.nullAt0 hi hw hv1 hfr1.toI⟩

/-- `shrink_to_fit` on slot `i` -/
theorem pool_shrink (PL : PoolLaws α cfg) (h : PoolRep cfg (SOkW cfg.ops cfg.n) P n0 m xss) (i : Nat)
    (hpre : (PoolOp.shrink i : PoolOp α).pre cfg xss) :
    Post (shrinkToFit cfg i) m (PoolStepPost cfg (SOkW cfg.ops cfg.n) P n0 m xss (.shrink i)) := by
  have hil : i < xss.length := hpre
  have hi : i < P := by rw [← h.len]; exact hil
  obtain ⟨w, hw⟩ := h.rep i _ (sel_get hil)
  refine Post.mono (shrinkToFit_post PL.vec PL.shrink m i (sel xss i) w hw h.inv.fresh) ?_
  rintro res m' ⟨hq, hfr⟩
  refine ⟨?_, hfr.cat⟩
  rcases hq with ⟨hr, hv1⟩ | ⟨e, he, hv1⟩
  · refine Or.inl ⟨hr, ?_⟩
    have := h.step1 PL.nullAt0 hi hw hv1 hfr
    rw [set_sel_self (sel_get hil)] at this
    exact this
  · refine Or.inr ⟨e, xss, he, rfl, ?_⟩
    have := h.step1 PL.nullAt0 hi hw hv1 hfr
    rw [set_sel_self (sel_get hil)] at this
    exact this

/-- `v_i = v_j` -/
theorem pool_copyAssign (PL : PoolLaws α cfg) (h : PoolRep cfg (SOkW cfg.ops cfg.n) P n0 m xss) (i j : Nat)
    (hpre : (PoolOp.copyAssign i j : PoolOp α).pre cfg xss) (hcat : m.cat ≠ .tc) :
    Post (copyAssign cfg i j) m (PoolStepPost cfg (SOkW cfg.ops cfg.n) P n0 m xss (.copyAssign i j)) := by
  obtain ⟨hil, hjl⟩ := hpre
  by_cases hij : i = j
  · subst hij
    refine Post.mono (copyAssign_self cfg m i) ?_
    rintro res m' ⟨hr, rfl⟩
    exact ⟨Or.inl ⟨hr, by simpa [PoolOp.spec] using h⟩, rfl⟩
  · have hi : i < P := by rw [← h.len]; exact hil
    obtain ⟨w, hw⟩ := h.rep i _ (sel_get hil)
    obtain ⟨wd, hd⟩ := h.rep j _ (sel_get hjl)
    refine Post.mono (copyAssign_post PL.vec m i j (sel xss i) (sel xss j) w wd hw hd h.inv.fresh hcat hij) ?_
    rintro res m' ⟨hq, hfr⟩
    refine ⟨?_, hfr.cat⟩
    rcases hq with ⟨hr, hv1⟩ | ⟨e, xs'', he, hv1⟩
    · refine Or.inl ⟨hr, ?_⟩
      have := h.step1 PL.nullAt0 hi hw hv1 hfr.toI
      simpa [PoolOp.spec, hij] using this
    · exact Or.inr ⟨e, _, he, ⟨hij, xs'', rfl⟩, h.step1 PL.nullAt0 hi hw hv1 hfr.toI⟩

/-- the storages of two different slots are distinct (or both empty): the side condition of `moveAssign_small` -/
theorem PoolRep.disjPair (PL : PoolLaws α cfg) (h : PoolRep cfg (SOkW cfg.ops cfg.n) P n0 m xss) {i j : Nat} (hij : i ≠ j)
    (hi : i < P) (hj : j < P) {wi wj : VB} {xs ys : List α} (hwi : VRepW cfg (SOkW cfg.ops cfg.n) i m xs wi)
    (hwj : VRepW cfg (SOkW cfg.ops cfg.n) j m ys wj) :
    regionOf cfg i wi ≠ regionOf cfg j wj ∨ (cfg.ops.capacity wi = 0 ∧ cfg.ops.capacity wj = 0) := by
  rcases Nat.eq_zero_or_pos (cfg.ops.capacity wj) with hj0 | hjp
  · rcases Nat.eq_zero_or_pos (cfg.ops.capacity wi) with hi0 | hip
    · exact Or.inr ⟨hi0, hj0⟩
    · exact Or.inl (h.sep PL.nullAt0 hij hj hi hwj hwi hip)
  · exact Or.inl (Ne.symm (h.sep PL.nullAt0 (Ne.symm hij) hi hj hwi hwj hjp))

/-- `v_i = std::move(v_j)` -/
theorem pool_moveAssign (PL : PoolLaws α cfg) (h : PoolRep cfg (SOkW cfg.ops cfg.n) P n0 m xss) (i j : Nat)
    (hpre : (PoolOp.moveAssign i j : PoolOp α).pre cfg xss) :
    Post (moveAssign cfg i j) m (PoolStepPost cfg (SOkW cfg.ops cfg.n) P n0 m xss (.moveAssign i j)) := by
  obtain ⟨hil, hjl⟩ := hpre
  by_cases hij : i = j
  · subst hij
    refine Post.mono (moveAssign_self cfg m i) ?_
    rintro res m' ⟨hr, rfl⟩
    exact ⟨Or.inl ⟨hr, by simpa [PoolOp.spec] using h⟩, rfl⟩
  · have hi : i < P := by rw [← h.len]; exact hil
    have hj : j < P := by rw [← h.len]; exact hjl
    obtain ⟨wi, hwi⟩ := h.rep i _ (sel_get hil)
    obtain ⟨wj, hwj⟩ := h.rep j _ (sel_get hjl)
    refine Post.mono (moveAssign_small (P := fun _ => True) PL.fl PL.small PL.move m i j (sel xss i) (sel xss j) wi wj hij hwi hwj
      (h.disjPair PL hij hi hj hwi hwj)) ?_
    rintro res m' ⟨hr, wc', wd', h1, h2, hfr, _, hacct⟩
    refine ⟨Or.inl ⟨hr, ?_⟩, hfr.cat⟩
    have hacct2 : PoolRep.Acct2 cfg i j m m' := by
      refine ⟨?_, fun id hid ho => Or.inl (hacct.kept id hid ho), fun id hb => hacct.dNone id hb.2⟩
      rintro id (ho | ho)
      · exact hacct.origin id ho
      · exact absurd ho (hacct.dNone id)
    have := h.step2 PL.nullAt0 hij hi hj hwi hwj ⟨wc', h1⟩ ⟨wd', h2⟩ hfr (by
      intro r hr'
      simp only [List.mem_cons, List.not_mem_nil, or_false] at hr'
      rcases hr' with e | e | e
      · exact Or.inl e
      · exact Or.inr (Or.inr (Or.inl e))
      · exact Or.inr (Or.inr (Or.inr e))) hacct2
    simpa [PoolOp.spec, hij] using this

/-- `v_i.swap(v_j)` -/
theorem pool_swap (PL : PoolLaws α cfg) (h : PoolRep cfg (SOkW cfg.ops cfg.n) P n0 m xss) (i j : Nat)
    (hpre : (PoolOp.swap i j : PoolOp α).pre cfg xss) :
    Post (swapSame cfg i j) m (PoolStepPost cfg (SOkW cfg.ops cfg.n) P n0 m xss (.swap i j)) := by
  obtain ⟨hil, hjl⟩ := hpre
  by_cases hij : i = j
  · subst hij
    refine Post.mono (swapSame_self cfg m i) ?_
    rintro res m' ⟨hr, rfl⟩
    exact ⟨Or.inl ⟨hr, by simpa [PoolOp.spec] using h⟩, rfl⟩
  · have hi : i < P := by rw [← h.len]; exact hil
    have hj : j < P := by rw [← h.len]; exact hjl
    obtain ⟨wi, hwi⟩ := h.rep i _ (sel_get hil)
    obtain ⟨wj, hwj⟩ := h.rep j _ (sel_get hjl)
    refine Post.mono (swapSame_small (P := fun _ => True) PL.fl PL.small PL.move m i j (sel xss i) (sel xss j) wi wj hij hwi hwj) ?_
    rintro res m' ⟨hr, wc', wd', h1, h2, hfr, hoi, hoj⟩
    refine ⟨Or.inl ⟨hr, ?_⟩, hfr.cat⟩
    have hacct2 : PoolRep.Acct2 cfg i j m m' := by
      refine ⟨?_, ?_, ?_⟩
      · rintro id (ho | ho)
        · exact Or.inr ((hoi id).mp ho)
        · exact Or.inl ((hoj id).mp ho)
      · rintro id _ (ho | ho)
        · exact Or.inr ((hoj id).mpr ho)
        · exact Or.inl ((hoi id).mpr ho)
      · rintro id ⟨ho1, ho2⟩
        exact hij (h.disj i j id hi hj ((hoj id).mp ho2) ((hoi id).mp ho1))
    have := h.step2 PL.nullAt0 hij hi hj hwi hwj ⟨wc', h1⟩ ⟨wd', h2⟩ hfr (by
      intro r hr'
      simp only [List.mem_cons, List.not_mem_nil, or_false] at hr'
      rcases hr' with e | e
      · exact Or.inr (Or.inr (Or.inl e))
      · exact Or.inr (Or.inr (Or.inr e))) hacct2
    simpa [PoolOp.spec, hij] using this

/-- the memory after `~Vector()` on slot `i` with freshly constructed words installed in the slot -/
abbrev freshAt (cfg : Cfg) (i : Nat) (m1 : Mem α) : Mem α := { m1 with ws := m1.ws.set i (cfg.ops.ctor cfg.n) }

/-- `~Vector()` on slot `i`, followed by a program `k` that starts by constructing the slot anew: `k` runs in a memory `m1` whose
    slot `i` is registered and has an all-raw inline storage, and such that with fresh words installed in slot `i` the pool is
    valid with slot `i` empty -/
theorem pool_destruct_then (PL : PoolLaws α cfg) (h : PoolRep cfg (SOkW cfg.ops cfg.n) P n0 m xss) (i : Nat) (hil : i < xss.length)
    (k : M α Unit) (Q : Except Stop Unit → Mem α → Prop)
    (hk : ∀ m1 : Mem α, i < m1.ws.length → m1.buf (.inl i) = some (raws cfg.n) → m1.cat = m.cat →
      VRepW cfg (SOkW cfg.ops cfg.n) i (freshAt cfg i m1) [] (cfg.ops.ctor cfg.n) →
      PoolRep cfg (SOkW cfg.ops cfg.n) P n0 (freshAt cfg i m1) (xss.set i []) → Post k m1 Q) :
    Post (do destruct cfg i; k) m Q := by
  have hi : i < P := by rw [← h.len]; exact hil
  obtain ⟨w, hw⟩ := h.rep i _ (sel_get hil)
  have L := PL.small
  refine Post.bind (destruct_small_cnt (P := fun _ => True) PL.fl L m i (sel xss i) w hw) ?_ (by rintro e m1 ⟨he, _⟩; cases he)
  rintro _ m1 ⟨_, hblk, hinl, hoth, hws, hcat, hhr, hnid, hsub, hcnt⟩
  have hlen : i < m1.ws.length := by rw [hws, List.length_set]; exact Cross.getElem?_lt hw.ws
  obtain ⟨hrep, hsz, _, hsm⟩ := L.ctor
  have hv1 : VRepW cfg (SOkW cfg.ops cfg.n) i (freshAt cfg i m1) [] (cfg.ops.ctor cfg.n) := by
    refine VRepW.inline (P := fun _ => True) L ?_ hrep hsm hsz ?_
    · show (m1.ws.set i _)[i]? = _
      simp [hlen]
    · rw [withWs_buf, hinl]; simp [lives]
  refine hk m1 hlen hinl hcat hv1 ?_
  refine h.reset PL.nullAt0 hi hw (fun id hid hp => by rw [withWs_buf]; exact (hblk id hid hp).1)
    (fun r' h1 _ => by rw [withWs_buf]; exact hoth r' h1) ?_ hcat hhr hnid (fun id hid => hsub id (by rwa [withWs_buf] at hid))
    (fun id hne => (withWs_cnt _ _ _).trans (hcnt id hne)) hv1 (OwnsBlk.small_none L hv1.ws hsm)
  show m1.ws.set i _ = _
  rw [hws, List.set_set]

/-- `v_i.~Vector(); new (&v_i) Vector()` -/
theorem pool_reset (PL : PoolLaws α cfg) (h : PoolRep cfg (SOkW cfg.ops cfg.n) P n0 m xss) (i : Nat)
    (hpre : (PoolOp.reset i : PoolOp α).pre cfg xss) :
    Post (do destruct cfg i; construct cfg i) m (PoolStepPost cfg (SOkW cfg.ops cfg.n) P n0 m xss (.reset i)) := by
  refine pool_destruct_then PL h i hpre _ _ ?_
  intro m1 hlen hinl hcat _ hp
  refine Post.mono (construct_small (P := fun _ => True) PL.fl PL.small m1 i hlen hinl) ?_
  rintro res m2 ⟨hr, _, rfl, _⟩
  exact ⟨Or.inl ⟨hr, hp⟩, hcat⟩

/-- `v_i.~Vector(); new (&v_i) Vector(std::move(v_j))` -/
theorem pool_moveConstruct (PL : PoolLaws α cfg) (h : PoolRep cfg (SOkW cfg.ops cfg.n) P n0 m xss) (i j : Nat)
    (hpre : (PoolOp.moveConstruct i j : PoolOp α).pre cfg xss) :
    Post (do destruct cfg i; moveConstruct cfg i j) m (PoolStepPost cfg (SOkW cfg.ops cfg.n) P n0 m xss (.moveConstruct i j)) := by
  obtain ⟨hil, hjl, hij⟩ := hpre
  have hi : i < P := by rw [← h.len]; exact hil
  have hj : j < P := by rw [← h.len]; exact hjl
  have hji : j ≠ i := Ne.symm hij
  refine pool_destruct_then PL h i hil _ _ ?_
  intro m1 hlen hinl hcat hvi hp
  -- slot `j` in the intermediate memory
  have hjl' : j < (xss.set i []).length := by rw [List.length_set]; exact hjl
  have hselj : sel (xss.set i []) j = sel xss j := by unfold sel; rw [List.getElem?_set_ne hij]
  obtain ⟨wj, hwjc⟩ := hp.rep j _ (sel_get hjl')
  rw [hselj] at hwjc
  have hwj1 : VRepW cfg (SOkW cfg.ops cfg.n) j m1 (sel xss j) wj :=
    hwjc.congrMem (by show m1.ws[j]? = (m1.ws.set i _)[j]?; rw [List.getElem?_set_ne hij]) (withWs_buf _ _).symm (fun _ => rfl)
  refine Post.mono (moveConstruct_small (P := fun _ => True) PL.fl PL.small PL.move m1 i j (sel xss j) wj hij hlen hinl hwj1) ?_
  rintro res m2 ⟨hr, wc', wd', h1, h2, _, hfr, _, _, hoi, hoj⟩
  refine ⟨Or.inl ⟨hr, ?_⟩, hfr.cat.trans hcat⟩
  have hfr' : Frame2 i j [.inl i, .inl j] (freshAt cfg i m1) m2 :=
    ⟨hfr.cat, hfr.hr, hfr.nid, by rw [hfr.wsLen]; simp, fun e he1 he2 => by
      rw [hfr.wsOther e he1 he2]; show m1.ws[e]? = (m1.ws.set i _)[e]?; rw [List.getElem?_set_ne (Ne.symm he1)],
      fun r' hr' => by rw [withWs_buf]; exact hfr.bufOther r' hr', fun id hid => by rw [withWs_buf]; exact hfr.blocks id hid,
      fun id hid => (hfr.cnt id hid).trans (withWs_cnt _ _ _).symm⟩
  have hojc : ∀ id, OwnsBlk cfg j (freshAt cfg i m1) id ↔ OwnsBlk cfg j m1 id :=
    fun id => OwnsBlk.congr (by show (m1.ws.set i _)[j]? = m1.ws[j]?; rw [List.getElem?_set_ne hij]) id
  have hacct2 : PoolRep.Acct2 cfg i j (freshAt cfg i m1) m2 := by
    refine ⟨?_, ?_, fun id hb => hoj id hb.2⟩
    · rintro id (ho | ho)
      · exact Or.inr ((hojc id).mpr ((hoi id).mp ho))
      · exact absurd ho (hoj id)
    · rintro id _ (ho | ho)
      · exact absurd ho (OwnsBlk.small_none PL.small hvi.ws PL.small.ctor.2.2.2 id)
      · exact Or.inl ((hoi id).mpr ((hojc id).mp ho))
  have := hp.step2 PL.nullAt0 hij hi hj hvi hwjc ⟨wc', h1⟩ ⟨wd', h2⟩ hfr' (by
    intro r hr'
    simp only [List.mem_cons, List.not_mem_nil, or_false] at hr'
    rcases hr' with e | e
    · exact Or.inr (Or.inr (Or.inl e))
    · exact Or.inr (Or.inr (Or.inr e))) hacct2
  rw [List.set_set] at this
  exact this

/-- `v_i.~Vector(); new (&v_i) Vector(v_j)` -/
theorem pool_copyConstruct (PL : PoolLaws α cfg) (h : PoolRep cfg (SOkW cfg.ops cfg.n) P n0 m xss) (i j : Nat)
    (hpre : (PoolOp.copyConstruct i j : PoolOp α).pre cfg xss) :
    Post (do destruct cfg i; copyConstruct cfg i j) m (PoolStepPost cfg (SOkW cfg.ops cfg.n) P n0 m xss (.copyConstruct i j)) := by
  obtain ⟨hil, hjl, hij⟩ := hpre
  have hi : i < P := by rw [← h.len]; exact hil
  refine pool_destruct_then PL h i hil _ _ ?_
  intro m1 hlen hinl hcat hvi hp
  have hjl' : j < (xss.set i []).length := by rw [List.length_set]; exact hjl
  have hselj : sel (xss.set i []) j = sel xss j := by unfold sel; rw [List.getElem?_set_ne hij]
  obtain ⟨wj, hwjc⟩ := hp.rep j _ (sel_get hjl')
  rw [hselj] at hwjc
  have hwj1 : VRepW cfg (SOkW cfg.ops cfg.n) j m1 (sel xss j) wj :=
    hwjc.congrMem (by show m1.ws[j]? = (m1.ws.set i _)[j]?; rw [List.getElem?_set_ne hij]) (withWs_buf _ _).symm (fun _ => rfl)
  have hf1 : Fresh m1 := fun id hid => hp.inv.fresh id (by rw [withWs_buf]; exact hid)
  have L := PL.small
  obtain ⟨_, hsz, hcap, hsm⟩ := L.ctor
  have hbeg : cfg.ops.begin (cfg.ops.ctor cfg.n) = .inl 0 := by rw [L.begin_small, hsm]; rfl
  refine Post.mono (copyConstruct_post PL.vec m1 i j (sel xss j) wj hwj1 hf1 hlen (fun _ => hinl) hvi.ok hsz
    (fun hstd => by rw [PL.fl] at hstd; cases hstd) (fun _ => ⟨hcap, hbeg⟩)) ?_
  rintro res m2 ⟨hq, hfr⟩
  refine ⟨?_, hfr.cat.trans hcat⟩
  rcases hq with ⟨hr, hv2⟩ | ⟨e, he, hv2⟩
  · refine Or.inl ⟨hr, ?_⟩
    have := hp.step1 PL.nullAt0 hi hvi hv2 hfr.toI
    rw [List.set_set] at this
    exact this
  · refine Or.inr ⟨e, _, he, rfl, ?_⟩
    have := hp.step1 PL.nullAt0 hi hvi hv2 hfr.toI
    rw [List.set_set] at this
    exact this

/-- **one pool operation**: from a valid pool satisfying the operation's precondition, the operation never faults and leaves a
    valid pool holding the abstract result, or (C++ exception) a state its exception guarantee allows -/
theorem pool_step (PL : PoolLaws α cfg) (op : PoolOp α) (h : PoolRep cfg (SOkW cfg.ops cfg.n) P n0 m xss)
    (hpre : op.pre cfg xss) (hcat : op.nonTC = true → m.cat ≠ .tc) :
    Post (op.run cfg) m (PoolStepPost cfg (SOkW cfg.ops cfg.n) P n0 m xss op) := by
  cases op with
  | one i o => exact pool_one PL h i o hpre hcat
  | shrink i => exact pool_shrink PL h i hpre
  | copyAssign i j => exact pool_copyAssign PL h i j hpre (hcat rfl)
  | moveAssign i j => exact pool_moveAssign PL h i j hpre
  | swap i j => exact pool_swap PL h i j hpre
  | reset i => exact pool_reset PL h i hpre
  | moveConstruct i j => exact pool_moveConstruct PL h i j hpre
  | copyConstruct i j => exact pool_copyConstruct PL h i j hpre

end steps

/-! ### histories -/

/-- run a list of pool operations; a C++ exception ends the operation that threw it, not the history -/
def runPool (cfg : Cfg) : List (PoolOp α) → M α Unit
  | [] => pure ()
  | op :: rest => do
    tryCatch (op.run cfg) fun s => match s with
      | .exc _ => pure ()
      | .fault _ => throw s
    runPool cfg rest

/-- the abstract outcomes of a pool history: each operation takes effect, or throws and leaves a state its guarantee allows -/
inductive PTrace : List (PoolOp α) → List (List α) → List (List α) → Prop
  | nil (xss) : PTrace [] xss xss
  | ok (op rest xss yss) : PTrace rest (op.spec xss) yss → PTrace (op :: rest) xss yss
  | thrown (op rest xss xss'' yss) : op.exc xss xss'' → PTrace rest xss'' yss → PTrace (op :: rest) xss yss

/-- the preconditions hold along every abstract outcome -/
def PSafe (cfg : Cfg) : List (PoolOp α) → List (List α) → Prop
  | [], _ => True
  | op :: rest, xss => op.pre cfg xss ∧ PSafe cfg rest (op.spec xss) ∧ (∀ xss'', op.exc xss xss'' → PSafe cfg rest xss'')

/-- **the pool history theorem**: running any list of pool operations on a valid pool — single-container operations, copies,
    moves and swaps between the containers, continuing after every C++ exception — never produces a lifetime fault or an
    allocator misuse, and ends in a valid pool (`PoolRep`) holding lists the abstract `std::vector` semantics allows
    (`PTrace`). `PoolRep` of the final memory says in particular: every container is valid (none was disturbed by an operation
    on another one), no heap block is shared, and NO BLOCK IS LEAKED: every block allocated since `nextId` was `n0` that still
    exists is owned by a container of the pool. -/
theorem pool_history {cfg : Cfg} (PL : PoolLaws α cfg) (P n0 : Nat) :
    ∀ (ops : List (PoolOp α)) (m : Mem α) (xss : List (List α)),
    PoolRep cfg (SOkW cfg.ops cfg.n) P n0 m xss → PSafe cfg ops xss → (∀ op ∈ ops, op.nonTC = true → m.cat ≠ .tc) →
    Post (runPool cfg ops) m (fun res m' => res = .ok () ∧
      ∃ yss, PTrace ops xss yss ∧ PoolRep cfg (SOkW cfg.ops cfg.n) P n0 m' yss ∧ m'.cat = m.cat) := by
  intro ops
  induction ops with
  | nil =>
    intro m xss h _ _
    exact ⟨rfl, xss, PTrace.nil xss, h, rfl⟩
  | cons op rest ih =>
    intro m xss h hs hcat
    obtain ⟨hpre, hsok, hsexc⟩ := hs
    have hstep := pool_step PL op h hpre (hcat op (by simp))
    simp only [runPool]
    refine Post.bind (Q1 := fun res m1 => res = .ok () ∧ ∃ xss1, PoolRep cfg (SOkW cfg.ops cfg.n) P n0 m1 xss1 ∧ m1.cat = m.cat
        ∧ PSafe cfg rest xss1 ∧ (∀ yss, PTrace rest xss1 yss → PTrace (op :: rest) xss yss))
      (Post.tryCatch hstep ?_ ?_) ?_ ?_
    · rintro _ m1 ⟨hq, hc1⟩
      rcases hq with ⟨_, h1⟩ | ⟨e, yss, he, _, _⟩
      · exact ⟨rfl, _, h1, hc1, hsok, fun yss ht => PTrace.ok op rest xss yss ht⟩
      · cases he
    · rintro e m1 ⟨hq, hc1⟩
      rcases hq with ⟨he, _⟩ | ⟨e', yss, he, hex, h1⟩
      · cases he
      · injection he with he; subst he
        exact ⟨rfl, yss, h1, hc1, hsexc yss hex, fun zss ht => PTrace.thrown op rest xss yss zss hex ht⟩
    · rintro _ m1 ⟨_, xss1, h1, hc1, hs1, htr⟩
      refine Post.mono (ih m1 xss1 h1 hs1 (fun op' ho' hn => by rw [hc1]; exact hcat op' (by simp [ho']) hn)) ?_
      rintro res m2 ⟨hr, yss, ht, h2, hc2⟩
      exact ⟨hr, yss, htr yss ht, h2, hc2.trans hc1⟩
    · rintro e m1 ⟨he, _⟩; cases he

/-- leak freedom of a pool history, spelled out: every heap block allocated since the history's reference point `n0` that
    exists at the end is owned by exactly one container of the pool -/
theorem pool_history_no_leak {cfg : Cfg} (PL : PoolLaws α cfg) (P n0 : Nat) (ops : List (PoolOp α)) (m : Mem α)
    (xss : List (List α)) (h : PoolRep cfg (SOkW cfg.ops cfg.n) P n0 m xss) (hs : PSafe cfg ops xss)
    (hcat : ∀ op ∈ ops, op.nonTC = true → m.cat ≠ .tc) :
    Post (runPool cfg ops) m (fun res m' => res = .ok () ∧
      ∀ id, n0 ≤ id → (m'.buf (.blk id)).isSome →
        ∃ i, i < P ∧ OwnsBlk cfg i m' id ∧ ∀ j, j < P → OwnsBlk cfg j m' id → j = i) := by
  refine Post.mono (pool_history PL P n0 ops m xss h hs hcat) ?_
  rintro res m' ⟨hr, yss, _, h', _⟩
  refine ⟨hr, fun id hge hid => ?_⟩
  obtain ⟨i, hi, ho⟩ := h'.owned id hge hid
  exact ⟨i, hi, ho, fun j hj hoj => h'.disj j i id hj hi hoj ho⟩

/-- the pool invariant at the start of a history: `n0` is the current `nextId`, nothing has been allocated since -/
theorem PoolRep.start {cfg : Cfg} {Ok : VB → Prop} {P : Nat} {m : Mem α} {xss : List (List α)} (hlen : xss.length = P)
    (hrep : ∀ i xs, xss[i]? = some xs → VRep cfg Ok i m xs)
    (hdisj : ∀ i j id, i < P → j < P → OwnsBlk cfg i m id → OwnsBlk cfg j m id → i = j)
    (hi : HInv m) (hpos : 0 < m.nextId) (h0 : m.buf (.blk 0) = none) : PoolRep cfg Ok P m.nextId m xss :=
  ⟨hlen, hrep, hdisj, fun id hge hid => by have := hi.fresh id hid; omega, hi, hpos, h0⟩

end AmcVerif
