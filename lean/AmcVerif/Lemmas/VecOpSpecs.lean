import AmcVerif.Lemmas.VecHistory
import AmcVerif.Lemmas.VecOpsA
import AmcVerif.Lemmas.VecOpsB
import AmcVerif.Lemmas.VecOpsC
import AmcVerif.Bridge.VecLawsU8
/-! Every proved public vector operation packaged as an `OpSpec` (program, precondition and result on the abstract list,
exception guarantee), the proof that each satisfies the single-step contract `OpOK` for every flavour providing `VecLaws`,
and the resulting history theorem: any history of these operations, run on a valid container and continued after every C++
exception, never produces a lifetime fault and ends in a state allowed by the `std::vector` list semantics. -/
namespace AmcVerif
variable {α : Type}

/-! ### Glue -/

/-- discarding the returned position / value of a strong-guarantee operation -/
theorem discard_strong {β : Type} {cfg : Cfg} {Ok : VB → Prop} {c : Nat} {m : Mem α} {w : VB} {xs xs' : List α} {okv : β}
    {x : M α β} (h : Post x m (StrongPost cfg Ok c m w xs xs' okv)) :
    Post (do let _ ← x; pure ()) m (StrongPost cfg Ok c m w xs xs' ()) := by
  refine Post.bind h ?_ ?_
  · rintro a m1 ⟨hq, hfr⟩
    rcases hq with ⟨_, hv⟩ | ⟨e, he, _⟩
    · exact ⟨Or.inl ⟨rfl, hv⟩, hfr⟩
    · cases he
  · rintro e m1 ⟨hq, hfr⟩
    rcases hq with ⟨he, _⟩ | ⟨e', he, hv⟩
    · cases he
    · injection he with he; subst he
      exact ⟨Or.inr ⟨e', rfl, hv⟩, hfr⟩

/-- a strong-guarantee operation theorem (result `()`) gives the single-step contract of an `OpSpec` whose `spec` is the
    stated list -/
theorem OpOK.stepStrong {cfg : Cfg} {Ok : VB → Prop} {c : Nat} {m : Mem α} {w : VB} {xs xs' : List α} {o : OpSpec α}
    {p : M α Unit} (hi : HInv m) (hs : o.spec xs = xs') (h : Post p m (StrongPost cfg Ok c m w xs xs' ())) :
    Post p m (OpStepPost cfg Ok c m w xs o) :=
  Post.mono h (fun _ _ hq => OpStepPost.ofStrong hi (by rw [hs]; exact hq))

theorem OpOK.stepBasic {cfg : Cfg} {Ok : VB → Prop} {c : Nat} {m : Mem α} {w : VB} {xs xs' : List α} {o : OpSpec α}
    {p : M α Unit} (hb : o.strong = false) (hi : HInv m) (hs : o.spec xs = xs') (h : Post p m (BasicPost cfg Ok c m w xs' ())) :
    Post p m (OpStepPost cfg Ok c m w xs o) :=
  Post.mono h (fun _ _ hq => OpStepPost.ofBasic hb hi (by rw [hs]; exact hq))

/-! ### The operations with outside arguments -/

/-- `push_back(const T&)` -/
def opPushBack (v : α) : OpSpec α where
  run := fun cfg c => pushBackCopy cfg c (.lit v)
  pre := fun _ _ => True
  spec := fun xs => xs ++ [v]
  strong := true

theorem opPushBack_ok {cfg : Cfg} {Ok : VB → Prop} (L : VecLaws α cfg Ok) (v : α) : OpOK cfg Ok (opPushBack v) := by
  intro m c xs w hw hi _ _
  exact OpOK.stepStrong hi rfl (pushBackCopy_post L m c xs w (.lit v) v hw hi.fresh rfl)

/-- `push_back(T&&)` -/
def opPushBackMove (v : α) : OpSpec α where
  run := fun cfg c => pushBackMove cfg c v
  pre := fun _ _ => True
  spec := fun xs => xs ++ [v]
  strong := true

theorem opPushBackMove_ok {cfg : Cfg} {Ok : VB → Prop} (L : VecLaws α cfg Ok) (v : α) : OpOK cfg Ok (opPushBackMove v) := by
  intro m c xs w hw hi _ _
  exact OpOK.stepStrong hi rfl (pushBackMove_post L m c xs w v hw hi.fresh)

/-- `pop_back()` -/
def opPopBack : OpSpec α where
  run := fun cfg c => popBack cfg c
  pre := fun _ xs => xs ≠ []
  spec := fun xs => xs.dropLast
  strong := true

theorem opPopBack_ok {cfg : Cfg} {Ok : VB → Prop} (L : VecLaws α cfg Ok) : OpOK cfg Ok (opPopBack (α := α)) := by
  intro m c xs w hw hi hpre _
  exact OpOK.stepStrong hi rfl (popBack_post L m c xs w hw hi.fresh hpre)

/-- `pop_back_val()` -/
def opPopBackVal : OpSpec α where
  run := fun cfg c => do let _ ← popBackVal cfg c; pure ()
  pre := fun _ xs => xs ≠ []
  spec := fun xs => xs.dropLast
  strong := true

theorem opPopBackVal_ok {cfg : Cfg} {Ok : VB → Prop} (L : VecLaws α cfg Ok) : OpOK cfg Ok (opPopBackVal (α := α)) := by
  intro m c xs w hw hi hpre _
  exact OpOK.stepStrong hi rfl (discard_strong (popBackVal_post L m c xs w hw hi.fresh hpre))

/-- `clear()` -/
def opClear : OpSpec α where
  run := fun cfg c => clear cfg c
  pre := fun _ _ => True
  spec := fun _ => []
  strong := true

theorem opClear_ok {cfg : Cfg} {Ok : VB → Prop} (L : VecLaws α cfg Ok) : OpOK cfg Ok (opClear (α := α)) := by
  intro m c xs w hw hi _ _
  exact OpOK.stepStrong hi rfl (clear_post L m c xs w hw hi.fresh)

/-- `append(first, last)` -/
def opAppendRange (vals : List α) : OpSpec α where
  run := fun cfg c => appendRange cfg c vals
  pre := fun _ _ => True
  spec := fun xs => xs ++ vals
  strong := true

theorem opAppendRange_ok {cfg : Cfg} {Ok : VB → Prop} (L : VecLaws α cfg Ok) (vals : List α) :
    OpOK cfg Ok (opAppendRange vals) := by
  intro m c xs w hw hi _ _
  exact OpOK.stepStrong hi rfl (appendRange_post L m c xs w vals hw hi.fresh)

/-- `append(count)` (value-initialised elements) -/
def opAppendN [Inhabited α] (n : Nat) : OpSpec α where
  run := fun cfg c => appendN cfg c n
  pre := fun _ _ => True
  spec := fun xs => xs ++ List.replicate n default
  strong := true

theorem opAppendN_ok [Inhabited α] {cfg : Cfg} {Ok : VB → Prop} (L : VecLaws α cfg Ok) (n : Nat) :
    OpOK cfg Ok (opAppendN (α := α) n) := by
  intro m c xs w hw hi _ _
  exact OpOK.stepStrong hi rfl (appendN_post L m c xs w n hw hi.fresh)

/-- `append(count, v)` -/
def opAppendFill (n : Nat) (v : α) : OpSpec α where
  run := fun cfg c => appendFill cfg c n (.lit v)
  pre := fun _ _ => True
  spec := fun xs => xs ++ List.replicate n v
  strong := true

theorem opAppendFill_ok {cfg : Cfg} {Ok : VB → Prop} (L : VecLaws α cfg Ok) (n : Nat) (v : α) :
    OpOK cfg Ok (opAppendFill n v) := by
  intro m c xs w hw hi _ _
  exact OpOK.stepStrong hi rfl (appendFill_post L m c xs w n (.lit v) v hw hi.fresh rfl)

/-- `resize(count)` -/
def opResize [Inhabited α] (n : Nat) : OpSpec α where
  run := fun cfg c => resize cfg c n
  pre := fun _ _ => True
  spec := fun xs => if xs.length < n then xs ++ List.replicate (n - xs.length) default else xs.take n
  strong := true

theorem opResize_ok [Inhabited α] {cfg : Cfg} {Ok : VB → Prop} (L : VecLaws α cfg Ok) (n : Nat) :
    OpOK cfg Ok (opResize (α := α) n) := by
  intro m c xs w hw hi _ _
  exact OpOK.stepStrong hi rfl (resize_post L m c xs w n hw hi.fresh)

/-- `resize(count, v)` -/
def opResizeFill (n : Nat) (v : α) : OpSpec α where
  run := fun cfg c => resizeFill cfg c n (.lit v)
  pre := fun _ _ => True
  spec := fun xs => if xs.length < n then xs ++ List.replicate (n - xs.length) v else xs.take n
  strong := true

theorem opResizeFill_ok {cfg : Cfg} {Ok : VB → Prop} (L : VecLaws α cfg Ok) (n : Nat) (v : α) :
    OpOK cfg Ok (opResizeFill n v) := by
  intro m c xs w hw hi _ _
  exact OpOK.stepStrong hi rfl (resizeFill_post L m c xs w n (.lit v) v hw hi.fresh rfl)

/-- `reserve(n)` -/
def opReserve (n : Nat) : OpSpec α where
  run := fun cfg c => reserve cfg c n
  pre := fun cfg _ => n ≤ cfg.ops.kMax
  spec := fun xs => xs
  strong := true

theorem opReserve_ok {cfg : Cfg} {Ok : VB → Prop} (L : VecLaws α cfg Ok) (n : Nat) : OpOK cfg Ok (opReserve (α := α) n) := by
  intro m c xs w hw hi hpre _
  exact OpOK.stepStrong hi rfl (reserve_post L m c xs w n hw hi.fresh hpre)

/-- `erase(pos)` -/
def opErase (p : Nat) : OpSpec α where
  run := fun cfg c => do let _ ← eraseOne cfg c p; pure ()
  pre := fun _ xs => p < xs.length
  spec := fun xs => xs.eraseIdx p
  strong := true

theorem opErase_ok {cfg : Cfg} {Ok : VB → Prop} (L : VecLaws α cfg Ok) (p : Nat) : OpOK cfg Ok (opErase (α := α) p) := by
  intro m c xs w hw hi hpre _
  exact OpOK.stepStrong hi rfl (discard_strong (eraseOne_post L m c xs w hw hi.fresh p hpre))

/-- `erase(first, last)` -/
def opEraseRange (p q : Nat) : OpSpec α where
  run := fun cfg c => do let _ ← eraseRange cfg c p q; pure ()
  pre := fun _ xs => p ≤ q ∧ q ≤ xs.length
  spec := fun xs => xs.take p ++ xs.drop q
  strong := true

theorem opEraseRange_ok {cfg : Cfg} {Ok : VB → Prop} (L : VecLaws α cfg Ok) (p q : Nat) :
    OpOK cfg Ok (opEraseRange (α := α) p q) := by
  intro m c xs w hw hi hpre _
  exact OpOK.stepStrong hi rfl (discard_strong (eraseRange_post L m c xs w hw hi.fresh p q hpre.1 hpre.2))

/-- `insert(pos, const T&)` -/
def opInsert (p : Nat) (v : α) : OpSpec α where
  run := fun cfg c => do let _ ← insertOne cfg c p (.copy (.lit v)); pure ()
  pre := fun _ xs => p ≤ xs.length
  spec := fun xs => xs.take p ++ v :: xs.drop p
  strong := true

theorem opInsert_ok {cfg : Cfg} {Ok : VB → Prop} (L : VecLaws α cfg Ok) (p : Nat) (v : α) : OpOK cfg Ok (opInsert p v) := by
  intro m c xs w hw hi hpre _
  exact OpOK.stepStrong hi rfl (discard_strong (insertOne_post L m c xs w hw hi.fresh p hpre (.copy (.lit v)) v rfl))

/-- `insert(pos, T&&)` -/
def opInsertMove (p : Nat) (v : α) : OpSpec α where
  run := fun cfg c => do let _ ← insertOne cfg c p (.move v); pure ()
  pre := fun _ xs => p ≤ xs.length
  spec := fun xs => xs.take p ++ v :: xs.drop p
  strong := true

theorem opInsertMove_ok {cfg : Cfg} {Ok : VB → Prop} (L : VecLaws α cfg Ok) (p : Nat) (v : α) :
    OpOK cfg Ok (opInsertMove p v) := by
  intro m c xs w hw hi hpre _
  exact OpOK.stepStrong hi rfl (discard_strong (insertOne_post L m c xs w hw hi.fresh p hpre (.move v) v rfl))

/-- `emplace(pos, args…)` (the element is first built in a temporary, which is raw again afterwards) -/
def opEmplace (p : Nat) (v : α) : OpSpec α where
  run := fun cfg c => do let _ ← emplace cfg c p (.copy (.lit v)); pure ()
  pre := fun _ xs => p ≤ xs.length
  spec := fun xs => xs.take p ++ v :: xs.drop p
  strong := true

theorem opEmplace_ok {cfg : Cfg} {Ok : VB → Prop} (L : VecLaws α cfg Ok) (p : Nat) (v : α) : OpOK cfg Ok (opEmplace p v) := by
  intro m c xs w hw hi hpre _
  exact OpOK.stepStrong hi rfl (discard_strong (Post.mono
    (emplace_post L m c xs w hw hi.fresh p hpre (.copy (.lit v)) v rfl hi.tmp (regionOf_ne_tmp cfg c w)) (fun _ _ hq => hq.1)))

/-- `emplace_back(args…)` -/
def opEmplaceBack (v : α) : OpSpec α where
  run := fun cfg c => emplaceBack cfg c (.copy (.lit v))
  pre := fun _ _ => True
  spec := fun xs => xs ++ [v]
  strong := true

theorem opEmplaceBack_ok {cfg : Cfg} {Ok : VB → Prop} (L : VecLaws α cfg Ok) (v : α) : OpOK cfg Ok (opEmplaceBack v) := by
  intro m c xs w hw hi _ _
  exact OpOK.stepStrong hi rfl (Post.mono
    (emplaceBack_post L m c xs w hw hi.fresh (.copy (.lit v)) v rfl hi.tmp (regionOf_ne_tmp cfg c w)) (fun _ _ hq => hq.1))

/-- `insert(end(), first, last)`; the position `p` must be `size()` -/
def opInsertRangeEnd (p : Nat) (vals : List α) : OpSpec α where
  run := fun cfg c => do let _ ← insertRange cfg c p vals; pure ()
  pre := fun _ xs => p = xs.length
  spec := fun xs => xs ++ vals
  strong := true

theorem opInsertRangeEnd_ok {cfg : Cfg} {Ok : VB → Prop} (L : VecLaws α cfg Ok) (p : Nat) (vals : List α) :
    OpOK cfg Ok (opInsertRangeEnd p vals) := by
  intro m c xs w hw hi hpre _
  exact OpOK.stepStrong hi rfl
    (discard_strong (insertRange_post L m c xs w p (Nat.le_of_eq hpre) vals hpre hw hi.fresh))

/-- `insert(end(), count, v)`; the position `p` must be `size()` -/
def opInsertCountEnd (p n : Nat) (v : α) : OpSpec α where
  run := fun cfg c => do let _ ← insertCount cfg c p n (.lit v); pure ()
  pre := fun _ xs => p = xs.length
  spec := fun xs => xs ++ List.replicate n v
  strong := true

theorem opInsertCountEnd_ok {cfg : Cfg} {Ok : VB → Prop} (L : VecLaws α cfg Ok) (p n : Nat) (v : α) :
    OpOK cfg Ok (opInsertCountEnd p n v) := by
  intro m c xs w hw hi hpre _
  exact OpOK.stepStrong hi rfl
    (discard_strong (insertCount_post L m c xs w p n (Nat.le_of_eq hpre) (.lit v) v rfl ⟨v, rfl⟩ hpre hw hi.fresh))

/-- `assign(first, last)`: basic guarantee; proved for element types that are not trivially copyable -/
def opAssign (vals : List α) : OpSpec α where
  run := fun cfg c => assignRange cfg c vals
  pre := fun _ _ => True
  spec := fun _ => vals
  strong := false
  nonTC := true

theorem opAssign_ok {cfg : Cfg} {Ok : VB → Prop} (L : VecLaws α cfg Ok) (vals : List α) : OpOK cfg Ok (opAssign vals) := by
  intro m c xs w hw hi _ hcat
  exact OpOK.stepBasic rfl hi rfl (assignRange_post L m c xs w vals hw hi.fresh (hcat rfl))

/-- `assign(count, v)`: basic guarantee; proved for element types that are not trivially copyable -/
def opAssignFill (n : Nat) (v : α) : OpSpec α where
  run := fun cfg c => assignFill cfg c n (.lit v)
  pre := fun _ _ => True
  spec := fun _ => List.replicate n v
  strong := false
  nonTC := true

theorem opAssignFill_ok {cfg : Cfg} {Ok : VB → Prop} (L : VecLaws α cfg Ok) (n : Nat) (v : α) :
    OpOK cfg Ok (opAssignFill n v) := by
  intro m c xs w hw hi _ hcat
  exact OpOK.stepBasic rfl hi rfl (assignFill_post L m c xs w n (.lit v) v rfl ⟨v, rfl⟩ hw hi.fresh (hcat rfl))


/-! ### Aliasing arguments: the value argument is an element of the container itself -/

/-- `v.push_back(v[i])` -/
def opPushBackSelf (i : Nat) : OpSpec α where
  run := fun cfg c => do let b ← vbegin cfg c; pushBackCopy cfg c (.at (b.add i))
  pre := fun _ xs => i < xs.length
  spec := fun xs => match xs[i]? with | some v => xs ++ [v] | none => xs
  strong := true

theorem opPushBackSelf_ok {cfg : Cfg} {Ok : VB → Prop} (L : VecLaws α cfg Ok) (i : Nat) :
    OpOK cfg Ok (opPushBackSelf (α := α) i) := by
  intro m c xs w hw hi hpre _
  have hlt : i < xs.length := hpre
  have hx : xs[i]? = some xs[i] := List.getElem?_eq_getElem hlt
  have hs : (opPushBackSelf (α := α) i).spec xs = xs ++ [xs[i]] := by
    show (match xs[i]? with | some v => xs ++ [v] | none => xs) = _
    rw [hx]
  show Post (do let b ← vbegin cfg c; pushBackCopy cfg c (.at (b.add i))) m _
  refine Post.bind (vbegin_post cfg m c w hw.ws) ?_ (by okerr)
  rintro b m1 ⟨hb, rfl⟩; injection hb with hb; subst hb
  exact OpOK.stepStrong hi hs
    (pushBackCopy_post L m1 c xs w _ xs[i] hw hi.fresh (Or.inl ⟨rfl, by simp [Addr.add]⟩))

/-- `v.insert(v.begin() + p, v[i])` -/
def opInsertSelf (p i : Nat) : OpSpec α where
  run := fun cfg c => do let b ← vbegin cfg c; let _ ← insertOne cfg c p (.copy (.at (b.add i))); pure ()
  pre := fun _ xs => p ≤ xs.length ∧ i < xs.length
  spec := fun xs => match xs[i]? with | some v => xs.take p ++ v :: xs.drop p | none => xs
  strong := true

theorem opInsertSelf_ok {cfg : Cfg} {Ok : VB → Prop} (L : VecLaws α cfg Ok) (p i : Nat) :
    OpOK cfg Ok (opInsertSelf (α := α) p i) := by
  intro m c xs w hw hi hpre _
  have hlt : i < xs.length := hpre.2
  have hx : xs[i]? = some xs[i] := List.getElem?_eq_getElem hlt
  have hs : (opInsertSelf (α := α) p i).spec xs = xs.take p ++ xs[i] :: xs.drop p := by
    show (match xs[i]? with | some v => xs.take p ++ v :: xs.drop p | none => xs) = _
    rw [hx]
  show Post (do let b ← vbegin cfg c; let _ ← insertOne cfg c p (.copy (.at (b.add i))); pure ()) m _
  refine Post.bind (vbegin_post cfg m c w hw.ws) ?_ (by okerr)
  rintro b m1 ⟨hb, rfl⟩; injection hb with hb; subst hb
  exact OpOK.stepStrong hi hs (discard_strong
    (insertOne_post L m1 c xs w hw hi.fresh p hpre.1 _ xs[i] (Or.inl ⟨rfl, by simp [Addr.add]⟩)))


/-! ### All operations, and the history theorem -/

/-- the operations covered by the history theorem -/
inductive IsVecOp (cfg : Cfg) : OpSpec α → Prop
  | pushBack (v : α) : IsVecOp cfg (opPushBack v)
  | pushBackMove (v : α) : IsVecOp cfg (opPushBackMove v)
  | popBack : IsVecOp cfg opPopBack
  | popBackVal : IsVecOp cfg opPopBackVal
  | clear : IsVecOp cfg opClear
  | appendRange (vals : List α) : IsVecOp cfg (opAppendRange vals)
  | appendN [Inhabited α] (n : Nat) : IsVecOp cfg (opAppendN n)
  | appendFill (n : Nat) (v : α) : IsVecOp cfg (opAppendFill n v)
  | resize [Inhabited α] (n : Nat) : IsVecOp cfg (opResize n)
  | resizeFill (n : Nat) (v : α) : IsVecOp cfg (opResizeFill n v)
  | reserve (n : Nat) : IsVecOp cfg (opReserve n)
  | erase (p : Nat) : IsVecOp cfg (opErase p)
  | eraseRange (p q : Nat) : IsVecOp cfg (opEraseRange p q)
  | insert (p : Nat) (v : α) : IsVecOp cfg (opInsert p v)
  | insertMove (p : Nat) (v : α) : IsVecOp cfg (opInsertMove p v)
  | emplace (p : Nat) (v : α) : IsVecOp cfg (opEmplace p v)
  | emplaceBack (v : α) : IsVecOp cfg (opEmplaceBack v)
  | insertRangeEnd (p : Nat) (vals : List α) : IsVecOp cfg (opInsertRangeEnd p vals)
  | insertCountEnd (p n : Nat) (v : α) : IsVecOp cfg (opInsertCountEnd p n v)
  | assign (vals : List α) : IsVecOp cfg (opAssign vals)
  | assignFill (n : Nat) (v : α) : IsVecOp cfg (opAssignFill n v)
  | pushBackSelf (i : Nat) : IsVecOp cfg (opPushBackSelf i)
  | insertSelf (p i : Nat) : IsVecOp cfg (opInsertSelf p i)

/-- every listed operation satisfies its single-step contract, for every flavour providing the laws -/
theorem IsVecOp.ok {cfg : Cfg} {Ok : VB → Prop} (L : VecLaws α cfg Ok) {o : OpSpec α} (h : IsVecOp cfg o) : OpOK cfg Ok o := by
  cases h with
  | pushBack v => exact opPushBack_ok L v
  | pushBackMove v => exact opPushBackMove_ok L v
  | popBack => exact opPopBack_ok L
  | popBackVal => exact opPopBackVal_ok L
  | clear => exact opClear_ok L
  | appendRange vals => exact opAppendRange_ok L vals
  | appendN n => exact opAppendN_ok L n
  | appendFill n v => exact opAppendFill_ok L n v
  | resize n => exact opResize_ok L n
  | resizeFill n v => exact opResizeFill_ok L n v
  | reserve n => exact opReserve_ok L n
  | erase p => exact opErase_ok L p
  | eraseRange p q => exact opEraseRange_ok L p q
  | insert p v => exact opInsert_ok L p v
  | insertMove p v => exact opInsertMove_ok L p v
  | emplace p v => exact opEmplace_ok L p v
  | emplaceBack v => exact opEmplaceBack_ok L v
  | insertRangeEnd p vals => exact opInsertRangeEnd_ok L p vals
  | insertCountEnd p n v => exact opInsertCountEnd_ok L p n v
  | assign vals => exact opAssign_ok L vals
  | assignFill n v => exact opAssignFill_ok L n v
  | pushBackSelf i => exact opPushBackSelf_ok L i
  | insertSelf p i => exact opInsertSelf_ok L p i

/-- all the operation specifications are `OpOK` (one conjunct per specification) -/
theorem all_ops_ok {cfg : Cfg} {Ok : VB → Prop} (L : VecLaws α cfg Ok) :
    (∀ v, OpOK cfg Ok (opPushBack (α := α) v)) ∧ (∀ v, OpOK cfg Ok (opPushBackMove (α := α) v)) ∧
    OpOK cfg Ok (opPopBack (α := α)) ∧ OpOK cfg Ok (opPopBackVal (α := α)) ∧ OpOK cfg Ok (opClear (α := α)) ∧
    (∀ vals, OpOK cfg Ok (opAppendRange (α := α) vals)) ∧
    (∀ [Inhabited α] n, OpOK cfg Ok (opAppendN (α := α) n)) ∧ (∀ n v, OpOK cfg Ok (opAppendFill (α := α) n v)) ∧
    (∀ [Inhabited α] n, OpOK cfg Ok (opResize (α := α) n)) ∧ (∀ n v, OpOK cfg Ok (opResizeFill (α := α) n v)) ∧
    (∀ n, OpOK cfg Ok (opReserve (α := α) n)) ∧
    (∀ p, OpOK cfg Ok (opErase (α := α) p)) ∧ (∀ p q, OpOK cfg Ok (opEraseRange (α := α) p q)) ∧
    (∀ p v, OpOK cfg Ok (opInsert (α := α) p v)) ∧ (∀ p v, OpOK cfg Ok (opInsertMove (α := α) p v)) ∧
    (∀ p v, OpOK cfg Ok (opEmplace (α := α) p v)) ∧ (∀ v, OpOK cfg Ok (opEmplaceBack (α := α) v)) ∧
    (∀ p vals, OpOK cfg Ok (opInsertRangeEnd (α := α) p vals)) ∧ (∀ p n v, OpOK cfg Ok (opInsertCountEnd (α := α) p n v)) ∧
    (∀ vals, OpOK cfg Ok (opAssign (α := α) vals)) ∧ (∀ n v, OpOK cfg Ok (opAssignFill (α := α) n v)) ∧
    (∀ i, OpOK cfg Ok (opPushBackSelf (α := α) i)) ∧ (∀ p i, OpOK cfg Ok (opInsertSelf (α := α) p i)) :=
  ⟨opPushBack_ok L, opPushBackMove_ok L, opPopBack_ok L, opPopBackVal_ok L, opClear_ok L, opAppendRange_ok L,
   fun n => opAppendN_ok L n, opAppendFill_ok L, fun n => opResize_ok L n, opResizeFill_ok L, opReserve_ok L, opErase_ok L,
   opEraseRange_ok L, opInsert_ok L, opInsertMove_ok L, opEmplace_ok L, opEmplaceBack_ok L, opInsertRangeEnd_ok L,
   opInsertCountEnd_ok L, opAssign_ok L, opAssignFill_ok L, opPushBackSelf_ok L, opInsertSelf_ok L⟩

/-- the history theorem for the vector operations: running any history of the listed operations on a valid container,
    continuing after every C++ exception, never produces a lifetime fault; the container ends holding a list that the
    `std::vector` semantics of the history allows, the invariants carried between operations still hold, and no heap block is
    leaked: every block allocated since `nextId` was `n0` that still exists is the one the container owns (`Owned`; it holds at
    the start for `n0 = m.nextId`, see `Owned.start`) -/
theorem vector_history {cfg : Cfg} {Ok : VB → Prop} (L : VecLaws α cfg Ok) (c : Nat) (ops : List (OpSpec α))
    (hops : ∀ o ∈ ops, IsVecOp cfg o) (m : Mem α) (xs : List α)
    (hv : VRep cfg Ok c m xs) (hi : HInv m) (hs : Safe cfg ops xs) (hcat : ∀ o ∈ ops, o.nonTC = true → m.cat ≠ .tc)
    (n0 : Nat) (ho : Owned cfg c n0 m) :
    Post (runHist cfg c ops) m (fun res m' => res = .ok () ∧ ∃ ys, Trace cfg ops xs ys ∧ VRep cfg Ok c m' ys ∧ HInv m' ∧ m'.cat = m.cat
      ∧ Owned cfg c n0 m') :=
  hist_post cfg Ok c n0 ops m xs (fun o ho => (hops o ho).ok L) hv hi hs hcat ho

/-- the same with any further invariant `I` of the memory that every framed, leak-free step on the container preserves -/
theorem vector_history_inv {cfg : Cfg} {Ok : VB → Prop} (L : VecLaws α cfg Ok) (c : Nat) (I : Mem α → Prop)
    (hI : ∀ (m m' : Mem α) (w : VB) (xs xs' : List α), VRepW cfg Ok c m xs w → VRep cfg Ok c m' xs' → HInv m → I m →
      FrameL cfg c (regionOf cfg c w) m m' → I m')
    (ops : List (OpSpec α)) (hops : ∀ o ∈ ops, IsVecOp cfg o) (m : Mem α) (xs : List α)
    (hv : VRep cfg Ok c m xs) (hi : HInv m) (hs : Safe cfg ops xs) (hcat : ∀ o ∈ ops, o.nonTC = true → m.cat ≠ .tc) (hinv : I m) :
    Post (runHist cfg c ops) m (fun res m' => res = .ok () ∧ ∃ ys, Trace cfg ops xs ys ∧ VRep cfg Ok c m' ys ∧ HInv m' ∧ m'.cat = m.cat
      ∧ I m') :=
  hist_post_inv cfg Ok c I hI ops m xs (fun o ho => (hops o ho).ok L) hv hi hs hcat hinv

/-- the hypotheses on the history are satisfiable: a closed history whose list preconditions hold along every outcome
    (whichever of the operations throw) -/
example (cfg : Cfg) : Safe cfg [opPushBack 7, opPushBack 8, opPopBack, opInsert 0 9] ([1] : List Nat) := by
  simp [Safe, opPushBack, opPopBack, opInsert]

example (cfg : Cfg) : Safe cfg [opPushBack 7, opPushBack 8, opInsert 0 9, opClear] ([] : List Nat) := by
  simp [Safe, opPushBack, opClear, opInsert]

/-- from the empty list the same history is *not* safe: both `push_back`s may throw (strong guarantee: the list stays empty),
    and `pop_back()` on an empty container is undefined -/
example (cfg : Cfg) : ¬ Safe cfg [opPushBack 7, opPushBack 8, opPopBack, opInsert 0 9] ([] : List Nat) := by
  simp [Safe, opPushBack, opPopBack, opInsert]


/-! ### A closed instance: the theorem is not vacuous -/
namespace Example

/-- `FixedCapacityVector<T, 2>` with an 8-bit size type, and a memory holding one freshly constructed such container
    (the configuration and memory of the example of `Props/C09.lean`) -/
def exCfg : Cfg := { flavour := .fixed, n := 2, ops := Gen.U8.fvbOps }
def exMem : Mem Nat := { ws := [Gen.U8.fvbOps.ctor 2], inls := [[.raw, .raw]], blocks := [] }

theorem exMem_rep : VRepW exCfg (Bridge.U8.FOk 2) 0 exMem [] (Gen.U8.fvbOps.ctor 2) where
  store := {
    ws := rfl
    ok := ⟨by decide, rfl, by decide⟩
    len := rfl
    buf := Or.inr rfl
    cnt := fun id h => by simp [regionOf, resolve, exCfg, Gen.U8.fvbOps, Gen.U8.FVB.begin] at h
    inl := fun h => absurd rfl h }
  size := rfl

theorem exMem_inv : HInv exMem := ⟨fun id h => by simp [Mem.buf, exMem] at h, rfl⟩

/-- the history `push_back(7); push_back(8); insert(begin(), 9); clear()` on the empty `FixedCapacityVector<_, 2>` — the
    insertion exceeds the capacity and throws — runs without lifetime fault and ends in a state its trace allows -/
example : Post (runHist exCfg 0 [opPushBack 7, opPushBack 8, opInsert 0 9, opClear]) exMem
    (fun res m' => res = .ok () ∧ ∃ ys, Trace exCfg [opPushBack 7, opPushBack 8, opInsert 0 9, opClear] [] ys ∧
      VRep exCfg (Bridge.U8.FOk 2) 0 m' ys ∧ HInv m' ∧ m'.cat = exMem.cat ∧ Owned exCfg 0 exMem.nextId m') :=
  vector_history (Bridge.U8.fixed_vecLaws Nat exCfg rfl rfl rfl) 0 _
    (by
      intro o ho
      simp only [List.mem_cons, List.not_mem_nil, or_false] at ho
      rcases ho with rfl | rfl | rfl | rfl
      · exact .pushBack 7
      · exact .pushBack 8
      · exact .insert 0 9
      · exact .clear)
    exMem [] ⟨_, exMem_rep⟩ exMem_inv (by simp [Safe, opPushBack, opClear, opInsert])
    (by
      intro o ho hn
      simp only [List.mem_cons, List.not_mem_nil, or_false] at ho
      rcases ho with rfl | rfl | rfl | rfl <;> cases hn)
    _ (Owned.start exCfg 0 exMem_inv.fresh)

end Example
end AmcVerif
