import AmcVerif.Lemmas.Hoare
/-! Specifications (`Post`) of the element primitives of `Prim/Slot.lean`: which slot each one requires to be raw / alive /
live, what it writes, and that the throwing ones leave the view unchanged when they throw. -/
namespace AmcVerif
variable {α β γ : Type}

def okRaw (c : Cat) (s : Slot α) : Prop := s = .raw ∨ c = .tc
def okAlive (c : Cat) (s : Slot α) : Prop := s ≠ .raw ∨ c = .tc
/-- what a moved-from object looks like -/
def movedSlot (c : Cat) (v : α) : Slot α := if c = .tc then .live v else .hollow

theorem readLive_post (m : Mem α) (a : Addr) (b : List (Slot α)) (v : α) (h : m.buf a.r = some b) (hs : b[a.i]? = some (.live v)) :
    Post (readLive a) m (fun res m' => res = .ok v ∧ m' = m) := by
  unfold readLive
  refine Post.bind (rd_post m a b _ h hs) ?_ ?_
  · rintro s m1 ⟨hs, rfl⟩
    injection hs with hs; subst hs
    exact ⟨rfl, rfl⟩
  · rintro e m1 ⟨he, _⟩; cases he

theorem requireRaw_post (m : Mem α) (a : Addr) (b : List (Slot α)) (s : Slot α) (h : m.buf a.r = some b) (hs : b[a.i]? = some s)
    (hok : okRaw m.cat s) : Post (requireRaw a) m (fun res m' => res = .ok () ∧ m' = m) := by
  unfold requireRaw
  refine Post.bind (rd_post m a b _ h hs) ?_ ?_
  · rintro s' m1 ⟨hs', rfl⟩
    injection hs' with hs'; subst hs'
    cases s' with
    | raw => exact ⟨rfl, rfl⟩
    | live v =>
      rcases hok with h0 | h0
      · cases h0
      · refine Post.bind (isTC_post m1) ?_ ?_
        · rintro t m2 ⟨ht, rfl⟩
          injection ht with ht; subst ht
          simp only [h0, beq_self_eq_true, ↓reduceIte]
          exact ⟨rfl, rfl⟩
        · rintro e m2 ⟨he, _⟩; cases he
    | hollow =>
      rcases hok with h0 | h0
      · cases h0
      · refine Post.bind (isTC_post m1) ?_ ?_
        · rintro t m2 ⟨ht, rfl⟩
          injection ht with ht; subst ht
          simp only [h0, beq_self_eq_true, ↓reduceIte]
          exact ⟨rfl, rfl⟩
        · rintro e m2 ⟨he, _⟩; cases he
  · rintro e m1 ⟨he, _⟩; cases he

theorem requireAlive_post (m : Mem α) (a : Addr) (f : Fault) (b : List (Slot α)) (s : Slot α) (h : m.buf a.r = some b)
    (hs : b[a.i]? = some s) (hok : okAlive m.cat s) : Post (requireAlive a f) m (fun res m' => res = .ok () ∧ m' = m) := by
  unfold requireAlive
  refine Post.bind (rd_post m a b _ h hs) ?_ ?_
  · rintro s' m1 ⟨hs', rfl⟩
    injection hs' with hs'; subst hs'
    cases s' with
    | raw =>
      rcases hok with h0 | h0
      · exact absurd rfl h0
      · refine Post.bind (isTC_post m1) ?_ ?_
        · rintro t m2 ⟨ht, rfl⟩
          injection ht with ht; subst ht
          simp only [h0, beq_self_eq_true, ↓reduceIte]
          exact ⟨rfl, rfl⟩
        · rintro e m2 ⟨he, _⟩; cases he
    | live v => exact ⟨rfl, rfl⟩
    | hollow => exact ⟨rfl, rfl⟩
  · rintro e m1 ⟨he, _⟩; cases he

theorem movedFrom_post (m : Mem α) (v : α) :
    Post (movedFrom v) m (fun res m' => res = .ok (movedSlot m.cat v) ∧ m' = m) := by
  unfold movedFrom
  refine Post.bind (isTC_post m) ?_ ?_
  · rintro t m2 ⟨ht, rfl⟩
    injection ht with ht; subst ht
    unfold movedSlot
    cases hc : m2.cat <;> simp <;> exact ⟨rfl, rfl⟩
  · rintro e m2 ⟨he, _⟩; cases he

theorem okpost_err {Q : Except Stop γ → Mem α → Prop} {x : β} {m : Mem α} :
    ∀ (e : Stop) (m1 : Mem α), ((Except.error e : Except Stop β) = .ok x ∧ m1 = m) → Q (.error e) m1 := by
  rintro e m1 ⟨he, _⟩; cases he

/-- `construct_at(a, copy of v)` on a raw slot: the slot becomes live, or the copy throws and nothing changes -/
theorem constructCopy_post (m : Mem α) (a : Addr) (v : α) (b : List (Slot α)) (s : Slot α) (h : m.buf a.r = some b)
    (hs : b[a.i]? = some s) (hok : okRaw m.cat s) :
    Post (constructCopy a v) m (OkSetOrExc m a.r (b.set a.i (.live v)) .elem) := by
  have hi : a.i < b.length := by
    rcases Nat.lt_or_ge a.i b.length with h1 | h1
    · exact h1
    · simp [List.getElem?_eq_none h1] at hs
  unfold constructCopy
  refine Post.bind (requireRaw_post m a b s h hs hok) ?_ okpost_err
  rintro _ m1 ⟨_, rfl⟩
  refine Post.bind (tick_post m1 .elem) ?_ ?_
  · rintro _ m2 ⟨_, hsame⟩
    have h2 : m2.buf a.r = some b := by rw [hsame.1]; exact h
    refine Post.bind (wr_post m2 a b (.live v) h2 hi) ?_ ?_
    · rintro _ m3 ⟨_, hb3, hk3⟩
      refine Post.mono (bumpEv_post m3 _) ?_
      rintro r m4 ⟨hr, hs4⟩
      refine Or.inl ⟨hr, ?_, hsame.2.trans (hk3.trans hs4.2)⟩
      rw [hs4.1, hb3, hsame.1]
    · rintro e m3 ⟨he, _⟩; cases he
  · rintro e m2 ⟨he, hsame⟩
    rcases he with he | he
    · cases he
    · exact Or.inr ⟨he, hsame⟩

theorem constructValue_post [Inhabited α] (m : Mem α) (a : Addr) (b : List (Slot α)) (s : Slot α) (h : m.buf a.r = some b)
    (hs : b[a.i]? = some s) (hok : okRaw m.cat s) :
    Post (constructValue a) m (OkSetOrExc m a.r (b.set a.i (.live default)) .elem) := by
  have hi : a.i < b.length := by
    rcases Nat.lt_or_ge a.i b.length with h1 | h1
    · exact h1
    · simp [List.getElem?_eq_none h1] at hs
  unfold constructValue
  refine Post.bind (requireRaw_post m a b s h hs hok) ?_ okpost_err
  rintro _ m1 ⟨_, rfl⟩
  refine Post.bind (tick_post m1 .elem) ?_ ?_
  · rintro _ m2 ⟨_, hsame⟩
    have h2 : m2.buf a.r = some b := by rw [hsame.1]; exact h
    refine Post.bind (wr_post m2 a b (.live default) h2 hi) ?_ ?_
    · rintro _ m3 ⟨_, hb3, hk3⟩
      refine Post.mono (bumpEv_post m3 _) ?_
      rintro r m4 ⟨hr, hs4⟩
      refine Or.inl ⟨hr, ?_, hsame.2.trans (hk3.trans hs4.2)⟩
      rw [hs4.1, hb3, hsame.1]
    · rintro e m3 ⟨he, _⟩; cases he
  · rintro e m2 ⟨he, hsame⟩
    rcases he with he | he
    · cases he
    · exact Or.inr ⟨he, hsame⟩

/-- `*a = copy of v` on an alive slot -/
theorem assignCopy_post (m : Mem α) (a : Addr) (v : α) (b : List (Slot α)) (s : Slot α) (h : m.buf a.r = some b)
    (hs : b[a.i]? = some s) (hok : okAlive m.cat s) :
    Post (assignCopy a v) m (OkSetOrExc m a.r (b.set a.i (.live v)) .elem) := by
  have hi : a.i < b.length := by
    rcases Nat.lt_or_ge a.i b.length with h1 | h1
    · exact h1
    · simp [List.getElem?_eq_none h1] at hs
  unfold assignCopy
  refine Post.bind (requireAlive_post m a _ b s h hs hok) ?_ okpost_err
  rintro _ m1 ⟨_, rfl⟩
  refine Post.bind (tick_post m1 .elem) ?_ ?_
  · rintro _ m2 ⟨_, hsame⟩
    have h2 : m2.buf a.r = some b := by rw [hsame.1]; exact h
    refine Post.bind (wr_post m2 a b (.live v) h2 hi) ?_ ?_
    · rintro _ m3 ⟨_, hb3, hk3⟩
      refine Post.mono (bumpEv_post m3 _) ?_
      rintro r m4 ⟨hr, hs4⟩
      refine Or.inl ⟨hr, ?_, hsame.2.trans (hk3.trans hs4.2)⟩
      rw [hs4.1, hb3, hsame.1]
    · rintro e m3 ⟨he, _⟩; cases he
  · rintro e m2 ⟨he, hsame⟩
    rcases he with he | he
    · cases he
    · exact Or.inr ⟨he, hsame⟩

/-- `destroy_at(a)` on an alive slot -/
theorem destroyAt_post (m : Mem α) (a : Addr) (b : List (Slot α)) (s : Slot α) (h : m.buf a.r = some b)
    (hs : b[a.i]? = some s) (hok : okAlive m.cat s) :
    Post (destroyAt a) m (OkSet m a.r (b.set a.i .raw)) := by
  have hi : a.i < b.length := by
    rcases Nat.lt_or_ge a.i b.length with h1 | h1
    · exact h1
    · simp [List.getElem?_eq_none h1] at hs
  unfold destroyAt
  refine Post.bind (requireAlive_post m a _ b s h hs hok) ?_ okpost_err
  rintro _ m1 ⟨_, rfl⟩
  refine Post.bind (wr_post m1 a b .raw h hi) ?_ ?_
  · rintro _ m3 ⟨_, hb3, hk3⟩
    refine Post.mono (bumpEv_post m3 _) ?_
    rintro r m4 ⟨hr, hs4⟩
    refine ⟨hr, ?_, hk3.trans hs4.2⟩
    rw [hs4.1, hb3]
  · rintro e m3 ⟨he, _⟩; cases he

theorem constructFromRvalue_post (m : Mem α) (a : Addr) (v : α) (b : List (Slot α)) (s : Slot α) (h : m.buf a.r = some b)
    (hs : b[a.i]? = some s) (hok : okRaw m.cat s) :
    Post (constructFromRvalue a v) m (OkSet m a.r (b.set a.i (.live v))) := by
  have hi : a.i < b.length := by
    rcases Nat.lt_or_ge a.i b.length with h1 | h1
    · exact h1
    · simp [List.getElem?_eq_none h1] at hs
  unfold constructFromRvalue
  refine Post.bind (requireRaw_post m a b s h hs hok) ?_ okpost_err
  rintro _ m1 ⟨_, rfl⟩
  refine Post.bind (wr_post m1 a b _ h hi) ?_ ?_
  · rintro _ m3 ⟨_, hb3, hk3⟩
    refine Post.mono (bumpEv_post m3 _) ?_
    rintro r m4 ⟨hr, hs4⟩
    refine ⟨hr, ?_, hk3.trans hs4.2⟩
    rw [hs4.1, hb3]
  · rintro e m3 ⟨he, _⟩; cases he

theorem assignFromRvalue_post (m : Mem α) (a : Addr) (v : α) (b : List (Slot α)) (s : Slot α) (h : m.buf a.r = some b)
    (hs : b[a.i]? = some s) (hok : okAlive m.cat s) :
    Post (assignFromRvalue a v) m (OkSet m a.r (b.set a.i (.live v))) := by
  have hi : a.i < b.length := by
    rcases Nat.lt_or_ge a.i b.length with h1 | h1
    · exact h1
    · simp [List.getElem?_eq_none h1] at hs
  unfold assignFromRvalue
  refine Post.bind (requireAlive_post m a _ b s h hs hok) ?_ okpost_err
  rintro _ m1 ⟨_, rfl⟩
  refine Post.bind (wr_post m1 a b _ h hi) ?_ ?_
  · rintro _ m3 ⟨_, hb3, hk3⟩
    refine Post.mono (bumpEv_post m3 _) ?_
    rintro r m4 ⟨hr, hs4⟩
    refine ⟨hr, ?_, hk3.trans hs4.2⟩
    rw [hs4.1, hb3]
  · rintro e m3 ⟨he, _⟩; cases he

/-- `construct_at(dst, std::move(*src))` inside one region -/
theorem constructMove_post (m : Mem α) (dst src : Addr) (b : List (Slot α)) (v : α) (s : Slot α) (hr : dst.r = src.r)
    (h : m.buf src.r = some b) (hsrc : b[src.i]? = some (.live v)) (hdst : b[dst.i]? = some s) (hok : okRaw m.cat s) :
    Post (constructMove dst src) m (OkSet m src.r ((b.set dst.i (.live v)).set src.i (movedSlot m.cat v))) := by
  have hi : dst.i < b.length := by
    rcases Nat.lt_or_ge dst.i b.length with h1 | h1
    · exact h1
    · simp [List.getElem?_eq_none h1] at hdst
  have hj : src.i < b.length := by
    rcases Nat.lt_or_ge src.i b.length with h1 | h1
    · exact h1
    · simp [List.getElem?_eq_none h1] at hsrc
  unfold constructMove
  refine Post.bind (readLive_post m src b v h hsrc) ?_ okpost_err
  rintro v' m1 ⟨hv, rfl⟩
  injection hv with hv; subst hv
  refine Post.bind (requireRaw_post m1 dst b s (hr ▸ h) hdst hok) ?_ okpost_err
  rintro _ m2 ⟨_, rfl⟩
  refine Post.bind (wr_post m2 dst b _ (hr ▸ h) hi) ?_ ?_
  · rintro _ m3 ⟨_, hb3, hk3⟩
    rw [hr] at hb3
    refine Post.bind (movedFrom_post m3 v') ?_ okpost_err
    rintro ms m4 ⟨hms, rfl⟩
    injection hms with hms; subst hms
    have h3 : m4.buf src.r = some (b.set dst.i (.live v')) := by rw [hb3]; simp
    refine Post.bind (wr_post m4 src _ _ h3 (by simpa using hj)) ?_ ?_
    · rintro _ m5 ⟨_, hb5, hk5⟩
      refine Post.mono (bumpEv_post m5 _) ?_
      rintro r m6 ⟨hr6, hs6⟩
      refine ⟨hr6, ?_, hk3.trans (hk5.trans hs6.2)⟩
      rw [hs6.1, hb5, hb3, hk3.cat]; simp
    · rintro e m5 ⟨he, _⟩; cases he
  · rintro e m3 ⟨he, _⟩; cases he

/-- `*dst = std::move(*src)` inside one region, `dst ≠ src` -/
theorem assignMove_post (m : Mem α) (dst src : Addr) (b : List (Slot α)) (v : α) (s : Slot α) (hr : dst.r = src.r)
    (hne : dst.i ≠ src.i)
    (h : m.buf src.r = some b) (hsrc : b[src.i]? = some (.live v)) (hdst : b[dst.i]? = some s) (hok : okAlive m.cat s) :
    Post (assignMove dst src) m (OkSet m src.r ((b.set dst.i (.live v)).set src.i (movedSlot m.cat v))) := by
  have hi : dst.i < b.length := by
    rcases Nat.lt_or_ge dst.i b.length with h1 | h1
    · exact h1
    · simp [List.getElem?_eq_none h1] at hdst
  have hj : src.i < b.length := by
    rcases Nat.lt_or_ge src.i b.length with h1 | h1
    · exact h1
    · simp [List.getElem?_eq_none h1] at hsrc
  have hds : (dst == src) = false := by
    cases dst; cases src; simp only [beq_eq_false_iff_ne, ne_eq, Addr.mk.injEq, not_and]; intro _; exact hne
  unfold assignMove
  simp only [hds, Bool.false_eq_true, ↓reduceIte]
  refine Post.bind (readLive_post m src b v h hsrc) ?_ okpost_err
  rintro v' m1 ⟨hv, rfl⟩
  injection hv with hv; subst hv
  refine Post.bind (requireAlive_post m1 dst _ b s (hr ▸ h) hdst hok) ?_ okpost_err
  rintro _ m2 ⟨_, rfl⟩
  refine Post.bind (wr_post m2 dst b _ (hr ▸ h) hi) ?_ ?_
  · rintro _ m3 ⟨_, hb3, hk3⟩
    rw [hr] at hb3
    refine Post.bind (movedFrom_post m3 v') ?_ okpost_err
    rintro ms m4 ⟨hms, rfl⟩
    injection hms with hms; subst hms
    have h3 : m4.buf src.r = some (b.set dst.i (.live v')) := by rw [hb3]; simp
    refine Post.bind (wr_post m4 src _ _ h3 (by simpa using hj)) ?_ ?_
    · rintro _ m5 ⟨_, hb5, hk5⟩
      refine Post.mono (bumpEv_post m5 _) ?_
      rintro r m6 ⟨hr6, hs6⟩
      refine ⟨hr6, ?_, hk3.trans (hk5.trans hs6.2)⟩
      rw [hs6.1, hb5, hb3, hk3.cat]; simp
    · rintro e m5 ⟨he, _⟩; cases he
  · rintro e m3 ⟨he, _⟩; cases he

end AmcVerif
