import AmcVerif.Prim.Helpers
/-! Normal form for running the model monad `M α = ExceptT Stop (StateM (Mem α))`: a fixed simp set that unfolds the
transformer stack, so that statements of the form `(prog.run.run m) = (result, m')` can be proved by `simp`. -/
namespace AmcVerif

/-- run a model program on a memory -/
abbrev runM {α β : Type} (p : M α β) (m : Mem α) : Except Stop β × Mem α := p.run.run m

macro "mnorm" : tactic =>
  `(tactic| simp only [runM, ExceptT.run, StateT.run, bind, ExceptT.bind, ExceptT.mk, ExceptT.bindCont, StateT.bind, get, getThe,
      MonadStateOf.get, StateT.get, set, MonadStateOf.set, StateT.set, modify, modifyGet, MonadStateOf.modifyGet, StateT.modifyGet,
      liftM, monadLift, MonadLift.monadLift, ExceptT.lift, pure, StateT.pure, ExceptT.pure, throw, throwThe, MonadExceptOf.throw,
      Functor.map, StateT.map, fault, raise, Id.run] at *)

end AmcVerif
