import AmcVerif.Lemmas.VecRep
import AmcVerif.Lemmas.RelocLoops
/-! Container-level theorems for the vector operations that do not shift elements: `push_back(T&&)`, `pop_back`,
`pop_back_val`, `clear`, the `append` family, `resize`, `reserve` and the observation `elems`. Each theorem has the shape of
`pushBackCopy_post` (VecRep.lean): from `VRepW cfg Ok c m xs w` the operation ends in `StrongPost` (success with exactly the
new contents, or an exception with the contents unchanged; never a lifetime fault). -/
namespace AmcVerif
variable {α β : Type}

/-- `push_back(T&&)` -/
theorem pushBackMove_post {cfg : Cfg} {Ok : VB → Prop} (L : VecLaws α cfg Ok) (m : Mem α) (c : Nat) (xs : List α) (w : VB)
    (v : α) (h : VRepW cfg Ok c m xs w) (hf : Fresh m) :
    Post (pushBackMove cfg c v) m (StrongPost cfg Ok c m w xs (xs ++ [v]) ()) := by
  unfold pushBackMove
  refine Post.bind (vsize_post cfg m c w h.ws) ?_ (by okerr)
  rintro sz m0 ⟨hsz, rfl⟩; injection hsz with hsz; subst hsz
  rw [h.size]
  refine Post.bind (adjustCapacity_post L m0 c xs w (xs.length + 1) h hf) ?_ ?_
  · rintro _ m1 ⟨hq, hfr⟩
    rcases hq with ⟨_, w', ⟨hw', hcap, hreg⟩⟩ | ⟨e, he, _⟩
    · refine Post.bind (vend_post cfg m1 c w' hw'.ws) ?_ (by okerr)
      rintro a m2 ⟨ha, rfl⟩; injection ha with ha; subst ha
      have hbuf : m2.buf (regionOf cfg c w') = some (lives xs ++ .raw :: raws (cfg.ops.capacity w' - (xs.length + 1))) := by
        rcases hw'.buf with h0 | hb
        · omega
        · rw [hb, raws_succ_sub _ _ hcap]
      have hact := constructFromRvalue_post m2 ⟨regionOf cfg c w', (lives xs).length⟩ v _ .raw hbuf (get_mid _ _ _) (Or.inl rfl)
      simp only [set_mid] at hact
      rw [hw'.size, show xs.length = (lives xs).length by simp]
      refine Post.bind hact ?_ ?_
      · rintro _ m3 ⟨_, hb3, hk3⟩
        have hws3 : m3.ws[c]? = some w' := by rw [hk3.ws]; exact hw'.ws
        refine Post.mono (incrSize_post cfg m3 c w' hws3) ?_
        rintro res m4 ⟨hr4, rfl⟩
        have hl := L.size.incr w' hw'.ok (by rw [hw'.size]; omega)
        rw [lives_snoc] at hb3
        have hst3 := hw'.store.set hb3 (by simp; omega) hk3
        refine ⟨Or.inl ⟨hr4, _, VRepW.commit (xs' := xs ++ [v]) (by simpa using hst3) hl.1 hl.2.2.2 hl.2.2.1
          (by rw [hl.2.1, hw'.size]; simp)⟩, ?_⟩
        exact (hfr.elem hreg (hw'.isSome (by omega)) hb3 hk3).withWs _ hws3 hl.2.2.2 hl.2.2.1
      · rintro e m3 ⟨he, _⟩; cases he
    · cases he
  · rintro e m1 ⟨hq, hfr⟩
    rcases hq with ⟨he, _⟩ | ⟨e', he, hw', _⟩
    · cases he
    · injection he with he; subst he
      exact ⟨Or.inr ⟨e', rfl, w, hw'⟩, hfr⟩

/-- committing a new size once the buffer holds `xs'` followed by raw slots -/
theorem setSize_commit {cfg : Cfg} {Ok : VB → Prop} (L : VecLaws α cfg Ok) {m0 m : Mem α} {r0 : Region} {c : Nat} {w : VB}
    {xs' : List α} (s : Nat) (hs : s = xs'.length)
    (hst : Store cfg Ok c m w (lives xs' ++ raws (cfg.ops.capacity w - xs'.length))) (hle : xs'.length ≤ cfg.ops.capacity w)
    (hfr : FrameL cfg c r0 m0 m) :
    Post (setSize cfg c s) m (fun res m' => (res = .ok () ∧ VRep cfg Ok c m' xs') ∧ FrameL cfg c r0 m0 m') := by
  subst hs
  have hb := L.size.bounds w hst.ok
  refine Post.mono (setSize_post cfg m c w xs'.length hst.ws (by omega)) ?_
  rintro res m' ⟨hr, rfl⟩
  have hl := L.size.setSize w hst.ok xs'.length hle
  exact ⟨⟨hr, _, VRepW.commit hst hl.1 hl.2.2.2 hl.2.2.1 hl.2.1⟩, hfr.withWs _ hst.ws hl.2.2.2 hl.2.2.1⟩

theorem movedSlot_okAlive (c : Cat) (v : α) : okAlive c (movedSlot c v) := by
  refine Or.inl ?_
  unfold movedSlot; split <;> simp

/-- `pop_back()` on a buffer whose last element is alive (live or moved-from) -/
theorem popBack_core {cfg : Cfg} {Ok : VB → Prop} (L : VecLaws α cfg Ok) {m0 : Mem α} {r0 : Region} (m : Mem α) (c : Nat)
    (ys : List α) (s : Slot α) (w : VB)
    (hst : Store cfg Ok c m w (lives ys ++ s :: raws (cfg.ops.capacity w - (ys.length + 1))))
    (hsz : cfg.ops.size w = ys.length + 1) (hs : okAlive m.cat s) (hfr : FrameL cfg c r0 m0 m)
    (hreg : regionOf cfg c w = r0 ∨ ∃ id, regionOf cfg c w = .blk id ∧ m0.nextId ≤ id) :
    Post (popBack cfg c) m (fun res m' => (res = .ok () ∧ VRep cfg Ok c m' ys) ∧ FrameL cfg c r0 m0 m') := by
  have hlen := hst.len
  simp only [List.length_append, List.length_cons, lives_length, raws_length] at hlen
  have hcap : ys.length + 1 ≤ cfg.ops.capacity w := by omega
  have hbuf : m.buf (regionOf cfg c w) = some (lives ys ++ s :: raws (cfg.ops.capacity w - (ys.length + 1))) := by
    rcases hst.buf with h0 | hb
    · omega
    · exact hb
  unfold popBack
  refine Post.bind (vend_post cfg m c w hst.ws) ?_ (by okerr)
  rintro a m1 ⟨ha, rfl⟩; injection ha with ha; subst ha
  have hact := destroyAt_post m1 ⟨regionOf cfg c w, (lives ys).length⟩ _ s hbuf (get_mid _ _ _) hs
  simp only [set_mid] at hact
  have e : cfg.ops.size w - 1 = (lives ys).length := by rw [hsz]; simp
  simp only [e]
  refine Post.bind hact ?_ ?_
  · rintro _ m3 ⟨_, hb3, hk3⟩
    have hws3 : m3.ws[c]? = some w := by rw [hk3.ws]; exact hst.ws
    refine Post.mono (decrSize_post cfg m3 c w hws3) ?_
    rintro res m4 ⟨hr4, rfl⟩
    have hl := L.size.decr w hst.ok (by omega)
    rw [← raws_succ_sub _ _ hcap] at hb3
    have hst3 := hst.set hb3 (by simp; omega) hk3
    refine ⟨⟨hr4, _, VRepW.commit hst3 hl.1 hl.2.2.2 hl.2.2.1 (by omega)⟩, ?_⟩
    exact (hfr.elem hreg (by rw [hbuf]; rfl) hb3 hk3).withWs _ hws3 hl.2.2.2 hl.2.2.1
  · rintro e m3 ⟨he, _⟩; cases he

/-- the storage of a non-empty container, with the last element singled out -/
theorem VRepW.store_snoc {cfg : Cfg} {Ok : VB → Prop} {c : Nat} {m : Mem α} {ys : List α} {y : α} {w : VB}
    (h : VRepW cfg Ok c m (ys ++ [y]) w) :
    Store cfg Ok c m w (lives ys ++ .live y :: raws (cfg.ops.capacity w - (ys.length + 1))) := by
  have := h.store
  rw [← lives_snoc] at this
  simpa using this

/-- `pop_back()` -/
theorem popBack_post {cfg : Cfg} {Ok : VB → Prop} (L : VecLaws α cfg Ok) (m : Mem α) (c : Nat) (xs : List α) (w : VB)
    (h : VRepW cfg Ok c m xs w) (_hf : Fresh m) (hne : xs ≠ []) :
    Post (popBack cfg c) m (StrongPost cfg Ok c m w xs xs.dropLast ()) := by
  have hx := List.dropLast_concat_getLast hne
  generalize xs.dropLast = ys at hx ⊢
  generalize xs.getLast hne = y at hx
  subst hx
  refine Post.mono (popBack_core L m c ys (.live y) w h.store_snoc (by rw [h.size]; simp) (Or.inl (by simp))
    (FrameL.refl _ _ _ _) (Or.inl rfl)) ?_
  rintro res m' ⟨hq, hfr⟩
  exact ⟨Or.inl hq, hfr⟩

/-- `pop_back_val()` -/
theorem popBackVal_post {cfg : Cfg} {Ok : VB → Prop} (L : VecLaws α cfg Ok) (m : Mem α) (c : Nat) (xs : List α) (w : VB)
    (h : VRepW cfg Ok c m xs w) (_hf : Fresh m) (hne : xs ≠ []) :
    Post (popBackVal cfg c) m (StrongPost cfg Ok c m w xs xs.dropLast (xs.getLast hne)) := by
  have hx := List.dropLast_concat_getLast hne
  generalize xs.dropLast = ys at hx ⊢
  generalize xs.getLast hne = y at hx ⊢
  subst hx
  have hst := h.store_snoc
  have hlen := hst.len
  simp only [List.length_append, List.length_cons, lives_length, raws_length] at hlen
  have hbuf : m.buf (regionOf cfg c w) = some (lives ys ++ .live y :: raws (cfg.ops.capacity w - (ys.length + 1))) := by
    rcases hst.buf with h0 | hb
    · omega
    · exact hb
  unfold popBackVal
  refine Post.bind (vend_post cfg m c w h.ws) ?_ (by okerr)
  rintro a m1 ⟨ha, rfl⟩; injection ha with ha; subst ha
  have e : cfg.ops.size w - 1 = (lives ys).length := by rw [h.size]; simp
  simp only [e]
  refine Post.bind (readLive_post m1 ⟨regionOf cfg c w, (lives ys).length⟩ _ y hbuf (get_mid _ _ _)) ?_ (by okerr)
  rintro v m2 ⟨hv, rfl⟩; injection hv with hv; subst v
  refine Post.bind (movedFrom_post m2 y) ?_ (by okerr)
  rintro s m3 ⟨hs, rfl⟩; injection hs with hs; subst hs
  have hwr := wr_post m3 ⟨regionOf cfg c w, (lives ys).length⟩ _ (movedSlot m3.cat y) hbuf (by simp)
  simp only [set_mid] at hwr
  refine Post.bind hwr ?_ ?_
  · rintro _ m4 ⟨_, hb4, hk4⟩
    refine Post.bind (bumpEv_post m4 _) ?_ ?_
    · rintro _ m5 ⟨_, hs5⟩
      have hst4 := hst.set hb4 (by simp) hk4
      have hst5 := hst4.same hs5
      have hfr5 : FrameL cfg c (regionOf cfg c w) m3 m5 :=
        ((FrameL.refl cfg c _ m3).elem (Or.inl rfl) (by rw [hbuf]; rfl) hb4 hk4).same hs5
      have hcat : m5.cat = m3.cat := hs5.2.cat.trans hk4.cat
      refine Post.bind (popBack_core L m5 c ys (movedSlot m3.cat y) w hst5 (by rw [h.size]; simp)
        (by rw [hcat]; exact movedSlot_okAlive _ _) hfr5 (Or.inl rfl)) ?_ ?_
      · rintro _ m6 ⟨⟨_, hrep⟩, hfr6⟩
        exact ⟨Or.inl ⟨rfl, hrep⟩, hfr6⟩
      · rintro e m6 ⟨⟨he, _⟩, _⟩; cases he
    · rintro e m5 ⟨he, _⟩; cases he
  · rintro e m4 ⟨he, _⟩; cases he

/-- destroying the tail `[count, size)` of the elements and committing the new size `count` -/
theorem truncate_core {cfg : Cfg} {Ok : VB → Prop} (L : VecLaws α cfg Ok) (m : Mem α) (c : Nat) (xs : List α) (w : VB)
    (count : Nat) (h : VRepW cfg Ok c m xs w) (hc : count ≤ xs.length) :
    Post (do destroyN ⟨regionOf cfg c w, count⟩ (xs.length - count); setSize cfg c count) m
      (StrongPost cfg Ok c m w xs (xs.take count) ()) := by
  have hle := h.le
  have hlt : (xs.take count).length = count := by simp; omega
  by_cases h0 : xs.length - count = 0
  · -- nothing to destroy (covers the container without a buffer)
    have hx : xs.take count = xs := List.take_of_length_le (by omega)
    rw [h0]
    simp only [destroyN]
    refine Post.bind (Q1 := fun res m' => res = .ok () ∧ m' = m) ⟨rfl, rfl⟩ ?_ (by okerr)
    rintro _ m1 ⟨_, rfl⟩
    refine Post.mono (setSize_commit L (xs' := xs.take count) count hlt.symm (by rw [hx]; exact h.store) (by omega)
      (FrameL.refl cfg c (regionOf cfg c w) _)) ?_
    rintro res m' ⟨hq, hfr⟩
    exact ⟨Or.inl hq, hfr⟩
  · have hbuf : m.buf (regionOf cfg c w) = some (lives (xs.take count) ++ lives (xs.drop count)
        ++ raws (cfg.ops.capacity w - xs.length)) := by
      rcases h.buf with hz | hb
      · omega
      · rw [hb]; simp only [lives, ← List.map_append, List.take_append_drop]
    have hd := destroyN_post (regionOf cfg c w) (lives (xs.drop count)) m (lives (xs.take count)) _ hbuf (lives_okAlive _ _)
    simp only [lives_length, List.length_drop, hlt] at hd
    refine Post.bind hd ?_ ?_
    · rintro _ m1 ⟨_, hb1, hk1⟩
      rw [List.append_assoc, raws_append, show xs.length - count + (cfg.ops.capacity w - xs.length)
        = cfg.ops.capacity w - (xs.take count).length by omega] at hb1
      have hst1 := h.store.set hb1 (by simp; omega) hk1
      refine Post.mono (setSize_commit L (xs' := xs.take count) count hlt.symm hst1 (by omega)
        ((FrameL.refl cfg c _ m).elem (Or.inl rfl) (h.isSome (by omega)) hb1 hk1)) ?_
      rintro res m' ⟨hq, hfr⟩
      exact ⟨Or.inl hq, hfr⟩
    · rintro e m1 ⟨he, _⟩; cases he

/-- `clear()` -/
theorem clear_post {cfg : Cfg} {Ok : VB → Prop} (L : VecLaws α cfg Ok) (m : Mem α) (c : Nat) (xs : List α) (w : VB)
    (h : VRepW cfg Ok c m xs w) (_hf : Fresh m) :
    Post (clear cfg c) m (StrongPost cfg Ok c m w xs [] ()) := by
  unfold clear
  refine Post.bind (vbegin_post cfg m c w h.ws) ?_ (by okerr)
  rintro a m1 ⟨ha, rfl⟩; injection ha with ha; subst ha
  refine Post.bind (vsize_post cfg m1 c w h.ws) ?_ (by okerr)
  rintro sz m2 ⟨hsz, rfl⟩; injection hsz with hsz; subst hsz
  have := truncate_core L m2 c xs w 0 h (Nat.zero_le _)
  rw [h.size]
  simpa using this

/-- the tail of the `append` family once there is room: an all-or-nothing construction of `vals` at `end()`, then the
    size is committed -/
theorem append_tail {cfg : Cfg} {Ok : VB → Prop} (L : VecLaws α cfg Ok) {m0 : Mem α} {r0 : Region} (m1 : Mem α) (c : Nat)
    (xs : List α) (w' : VB) (vals : List α) (act : Addr → M α Unit) (s : Nat)
    (hw' : VRepW cfg Ok c m1 xs w') (hcap : xs.length + vals.length ≤ cfg.ops.capacity w') (hs : s = xs.length + vals.length)
    (hfr : FrameL cfg c r0 m0 m1) (hreg : regionOf cfg c w' = r0 ∨ ∃ id, regionOf cfg c w' = .blk id ∧ m0.nextId ≤ id)
    (hnil : vals = [] → ∀ a, Post (act a) m1 (fun res m' => res = .ok () ∧ m' = m1))
    (hact : ∀ post, m1.buf (regionOf cfg c w') = some (lives xs ++ raws vals.length ++ post) →
      Post (act ⟨regionOf cfg c w', (lives xs).length⟩) m1
        (BuiltOrRolledBack m1 (regionOf cfg c w') (lives xs ++ lives vals ++ post) (lives xs ++ raws vals.length ++ post))) :
    Post (do act (← vend cfg c); setSize cfg c s) m1
      (fun res m' => ((res = .ok () ∧ VRep cfg Ok c m' (xs ++ vals)) ∨ (∃ e, res = .error (.exc e) ∧ VRep cfg Ok c m' xs))
        ∧ FrameL cfg c r0 m0 m') := by
  have hlen : s = (xs ++ vals).length := by rw [hs]; simp
  refine Post.bind (vend_post cfg m1 c w' hw'.ws) ?_ (by okerr)
  rintro a m2 ⟨ha, rfl⟩; injection ha with ha; subst ha
  by_cases hv : vals = []
  · refine Post.bind (hnil hv _) ?_ (by okerr)
    rintro _ m3 ⟨_, rfl⟩
    subst hv
    refine Post.mono (setSize_commit L (xs' := xs ++ []) s hlen (by simpa using hw'.store) (by simpa using hcap) hfr) ?_
    rintro res m' ⟨hq, hfr'⟩
    exact ⟨Or.inl hq, hfr'⟩
  · have hvl : 0 < vals.length := List.length_pos_iff.mpr hv
    have hbuf : m2.buf (regionOf cfg c w') = some (lives xs ++ raws vals.length
        ++ raws (cfg.ops.capacity w' - (xs.length + vals.length))) := by
      rcases hw'.buf with h0 | hb
      · omega
      · rw [hb, List.append_assoc, raws_append]
        congr 3; omega
    rw [hw'.size, show xs.length = (lives xs).length by simp]
    refine Post.bind (hact _ hbuf) ?_ ?_
    · rintro _ m3 ⟨hq, hk3⟩
      rcases hq with ⟨_, hb3⟩ | ⟨he, _⟩
      · have hb3' : m3.buf = View.set m2.buf (regionOf cfg c w')
            (lives (xs ++ vals) ++ raws (cfg.ops.capacity w' - (xs ++ vals).length)) := by
          rw [hb3]; simp [lives]
        have hst3 := hw'.store.set hb3' (by simp; omega) hk3
        refine Post.mono (setSize_commit L s hlen hst3 (by simpa using hcap)
          (hfr.elem hreg (hw'.isSome (by omega)) hb3' hk3)) ?_
        rintro res m' ⟨hq, hfr'⟩
        exact ⟨Or.inl hq, hfr'⟩
      · cases he
    · rintro e m3 ⟨hq, hk3⟩
      rcases hq with ⟨he, _⟩ | ⟨he, hb3⟩
      · cases he
      · have hb3' : m3.buf = View.set m2.buf (regionOf cfg c w') (lives xs ++ raws (cfg.ops.capacity w' - xs.length)) := by
          rw [hb3, List.append_assoc, raws_append]
          congr 3; omega
        have hst3 := hw'.store.set hb3' rfl hk3
        exact ⟨Or.inr ⟨_, he, w', ⟨hst3, hw'.size⟩⟩, hfr.elem hreg (hw'.isSome (by omega)) hb3' hk3⟩

/-- `adjustCapacity(size + |vals|)`, all-or-nothing construction of `vals` at `end()`, `setSize` -/
theorem grow_append {cfg : Cfg} {Ok : VB → Prop} (L : VecLaws α cfg Ok) (m : Mem α) (c : Nat) (xs : List α) (w : VB)
    (vals : List α) (act : Addr → M α Unit) (needed s : Nat) (h : VRepW cfg Ok c m xs w) (hf : Fresh m)
    (hn : needed = xs.length + vals.length) (hs : s = xs.length + vals.length)
    (hnil : vals = [] → ∀ a (m1 : Mem α), Post (act a) m1 (fun res m' => res = .ok () ∧ m' = m1))
    (hact : ∀ (m1 : Mem α) r post, m1.buf r = some (lives xs ++ raws vals.length ++ post) →
      Post (act ⟨r, (lives xs).length⟩) m1
        (BuiltOrRolledBack m1 r (lives xs ++ lives vals ++ post) (lives xs ++ raws vals.length ++ post))) :
    Post (do adjustCapacity cfg c needed; act (← vend cfg c); setSize cfg c s) m
      (StrongPost cfg Ok c m w xs (xs ++ vals) ()) := by
  subst hn
  refine Post.bind (adjustCapacity_post L m c xs w _ h hf) ?_ ?_
  · rintro _ m1 ⟨hq, hfr⟩
    rcases hq with ⟨_, w', ⟨hw', hcap, hreg⟩⟩ | ⟨e, he, _⟩
    · exact append_tail L m1 c xs w' vals act s hw' hcap hs hfr hreg (fun hv a => hnil hv a m1) (fun post => hact m1 _ post)
    · cases he
  · rintro e m1 ⟨hq, hfr⟩
    rcases hq with ⟨he, _⟩ | ⟨e', he, hw', _⟩
    · cases he
    · injection he with he; subst he
      exact ⟨Or.inr ⟨e', rfl, w, hw'⟩, hfr⟩

/-- `append(first, last)` (forward iterators) -/
theorem appendRange_post {cfg : Cfg} {Ok : VB → Prop} (L : VecLaws α cfg Ok) (m : Mem α) (c : Nat) (xs : List α) (w : VB)
    (vals : List α) (h : VRepW cfg Ok c m xs w) (hf : Fresh m) :
    Post (appendRange cfg c vals) m (StrongPost cfg Ok c m w xs (xs ++ vals) ()) := by
  unfold appendRange
  refine Post.bind (vsize_post cfg m c w h.ws) ?_ (by okerr)
  rintro sz m0 ⟨hsz, rfl⟩; injection hsz with hsz; subst hsz
  refine grow_append L m0 c xs w vals (fun a => uninitCopyN a vals) _ _ h hf (by rw [h.size]) (by rw [h.size]) ?_ ?_
  · rintro rfl a m1; exact ⟨rfl, rfl⟩
  · intro m1 r post hb
    exact uninitCopyN_post m1 r (lives xs) post vals hb

/-- `append(count)` (value-initialised elements) -/
theorem appendN_post [Inhabited α] {cfg : Cfg} {Ok : VB → Prop} (L : VecLaws α cfg Ok) (m : Mem α) (c : Nat) (xs : List α)
    (w : VB) (count : Nat) (h : VRepW cfg Ok c m xs w) (hf : Fresh m) :
    Post (appendN cfg c count) m (StrongPost cfg Ok c m w xs (xs ++ List.replicate count default) ()) := by
  unfold appendN
  refine Post.bind (vsize_post cfg m c w h.ws) ?_ (by okerr)
  rintro sz m0 ⟨hsz, rfl⟩; injection hsz with hsz; subst hsz
  refine grow_append L m0 c xs w (List.replicate count default) (fun a => uninitValueN a count) _ _ h hf
    (by rw [h.size]; simp) (by rw [h.size]; simp) ?_ ?_
  · intro hv a m1
    have : count = 0 := by simpa using hv
    subst this; exact ⟨rfl, rfl⟩
  · intro m1 r post hb
    have := uninitValueN_post m1 r (lives xs) post count (by simpa using hb)
    simpa using this

/-- `adjustCapacity(size + count, v)`, `uninitialized_fill_n(end(), count, v)`, `setSize` -/
theorem grow_append_ref {cfg : Cfg} {Ok : VB → Prop} (L : VecLaws α cfg Ok) (m : Mem α) (c : Nat) (xs : List α) (w : VB)
    (count : Nat) (ref : Ref α) (v : α) (needed s : Nat) (h : VRepW cfg Ok c m xs w) (hf : Fresh m)
    (hv : RefOK cfg c m w xs ref v) (hn : needed = xs.length + count) (hs : s = xs.length + count) :
    Post (do let newV ← adjustCapacityRef cfg c needed ref; uninitFillRef (← vend cfg c) count newV; setSize cfg c s) m
      (StrongPost cfg Ok c m w xs (xs ++ List.replicate count v) ()) := by
  subst hn
  refine Post.bind (adjustCapacityRef_post L m c xs w _ ref v h hf hv) ?_ ?_
  · rintro ref' m1 ⟨hq, hfr⟩
    rcases hq with ⟨ref'', hr, w', ⟨hw', hcap, hreg⟩, hv'⟩ | ⟨e, he, _⟩
    · injection hr with hr; subst hr
      refine append_tail L m1 c xs w' (List.replicate count v) (fun a => uninitFillRef a count ref') s hw'
        (by simpa using hcap) (by simpa using hs) hfr hreg ?_ ?_
      · intro hz a
        have : count = 0 := by simpa using hz
        subst this; exact ⟨rfl, rfl⟩
      · intro post hb
        have := uninitFillRef_post m1 (regionOf cfg c w') (lives xs) post ref' v count (by simpa using hb) (hv'.refIn post count)
        simpa using this
    · cases he
  · rintro e m1 ⟨hq, hfr⟩
    rcases hq with ⟨_, he, _⟩ | ⟨e', he, hw', _⟩
    · cases he
    · injection he with he; subst he
      exact ⟨Or.inr ⟨e', rfl, w, hw'⟩, hfr⟩

/-- `append(count, v)` -/
theorem appendFill_post {cfg : Cfg} {Ok : VB → Prop} (L : VecLaws α cfg Ok) (m : Mem α) (c : Nat) (xs : List α) (w : VB)
    (count : Nat) (ref : Ref α) (v : α) (h : VRepW cfg Ok c m xs w) (hf : Fresh m) (hv : RefOK cfg c m w xs ref v) :
    Post (appendFill cfg c count ref) m (StrongPost cfg Ok c m w xs (xs ++ List.replicate count v) ()) := by
  unfold appendFill
  refine Post.bind (vsize_post cfg m c w h.ws) ?_ (by okerr)
  rintro sz m0 ⟨hsz, rfl⟩; injection hsz with hsz; subst hsz
  exact grow_append_ref L m0 c xs w count ref v _ _ h hf hv (by rw [h.size]) (by rw [h.size])

/-- `resize(count)` -/
theorem resize_post [Inhabited α] {cfg : Cfg} {Ok : VB → Prop} (L : VecLaws α cfg Ok) (m : Mem α) (c : Nat) (xs : List α)
    (w : VB) (count : Nat) (h : VRepW cfg Ok c m xs w) (hf : Fresh m) :
    Post (resize cfg c count) m (StrongPost cfg Ok c m w xs
      (if xs.length < count then xs ++ List.replicate (count - xs.length) default else xs.take count) ()) := by
  unfold resize
  refine Post.bind (vsize_post cfg m c w h.ws) ?_ (by okerr)
  rintro sz m0 ⟨hsz, rfl⟩; injection hsz with hsz; subst hsz
  rw [h.size]
  by_cases hlt : xs.length < count
  · simp only [hlt, ↓reduceIte]
    refine grow_append L m0 c xs w (List.replicate (count - xs.length) default)
      (fun a => uninitValueN a (count - xs.length)) _ _ h hf (by simp; omega) (by simp; omega) ?_ ?_
    · intro hv a m1
      have : count - xs.length = 0 := by simpa using hv
      omega
    · intro m1 r post hb
      have := uninitValueN_post m1 r (lives xs) post (count - xs.length) (by simpa using hb)
      simpa using this
  · simp only [hlt, ↓reduceIte]
    refine Post.bind (vbegin_post cfg m0 c w h.ws) ?_ (by okerr)
    rintro a m1 ⟨ha, rfl⟩; injection ha with ha; subst ha
    have := truncate_core L m1 c xs w count h (by omega)
    simpa [Addr.add] using this

/-- `resize(count, v)` -/
theorem resizeFill_post {cfg : Cfg} {Ok : VB → Prop} (L : VecLaws α cfg Ok) (m : Mem α) (c : Nat) (xs : List α) (w : VB)
    (count : Nat) (ref : Ref α) (v : α) (h : VRepW cfg Ok c m xs w) (hf : Fresh m) (hv : RefOK cfg c m w xs ref v) :
    Post (resizeFill cfg c count ref) m (StrongPost cfg Ok c m w xs
      (if xs.length < count then xs ++ List.replicate (count - xs.length) v else xs.take count) ()) := by
  unfold resizeFill
  refine Post.bind (vsize_post cfg m c w h.ws) ?_ (by okerr)
  rintro sz m0 ⟨hsz, rfl⟩; injection hsz with hsz; subst hsz
  rw [h.size]
  by_cases hlt : xs.length < count
  · simp only [hlt, ↓reduceIte]
    exact grow_append_ref L m0 c xs w (count - xs.length) ref v _ _ h hf hv (by omega) (by omega)
  · simp only [hlt, ↓reduceIte]
    refine Post.bind (vbegin_post cfg m0 c w h.ws) ?_ (by okerr)
    rintro a m1 ⟨ha, rfl⟩; injection ha with ha; subst ha
    have := truncate_core L m1 c xs w count h (by omega)
    simpa [Addr.add] using this

theorem GrowPost.strong {cfg : Cfg} {Ok : VB → Prop} {c : Nat} {m : Mem α} {xs : List α} {w : VB} {needed : Nat}
    {res : Except Stop Unit} {m' : Mem α} (hq : GrowPost cfg Ok c m xs w needed res m') :
    StrongPost cfg Ok c m w xs xs () res m' := by
  rcases hq with ⟨⟨hr, w', hg⟩ | ⟨e, he, hw', _⟩, hfr⟩
  · exact ⟨Or.inl ⟨hr, w', hg.rep⟩, hfr⟩
  · exact ⟨Or.inr ⟨e, he, w, hw'⟩, hfr⟩

/-- `reserve(n)`: the contents are unchanged whether it succeeds or throws -/
theorem reserve_post {cfg : Cfg} {Ok : VB → Prop} (L : VecLaws α cfg Ok) (m : Mem α) (c : Nat) (xs : List α) (w : VB)
    (n : Nat) (h : VRepW cfg Ok c m xs w) (hf : Fresh m) (hn : n ≤ cfg.ops.kMax) :
    Post (reserve cfg c n) m (StrongPost cfg Ok c m w xs xs ()) := by
  unfold reserve
  by_cases hd : cfg.dynamic = true
  · rw [if_pos hd]
    refine Post.bind (vcap_post cfg m c w h.ws) ?_ (by okerr)
    rintro k m1 ⟨hk, rfl⟩; injection hk with hk; subst hk
    by_cases hlt : cfg.ops.capacity w < n
    · rw [if_pos hlt]
      exact Post.mono (L.grow hd m1 c xs w n true h hf hlt (fun _ => hn)) (fun _ _ hq => hq.strong)
    · rw [if_neg hlt]
      exact ⟨Or.inl ⟨rfl, w, h⟩, FrameL.refl _ _ _ _⟩
  · rw [if_neg hd]
    exact Post.mono (adjustCapacity_post L m c xs w n h hf) (fun _ _ hq => hq.strong)

/-- `elems`: the visible elements are exactly `xs`; nothing changes -/
theorem elems_post {cfg : Cfg} {Ok : VB → Prop} (_L : VecLaws α cfg Ok) (m : Mem α) (c : Nat) (xs : List α) (w : VB)
    (h : VRepW cfg Ok c m xs w) (_hf : Fresh m) :
    Post (elems cfg c) m (fun res m' => res = .ok xs ∧ m' = m) := by
  unfold elems
  refine Post.bind (vbegin_post cfg m c w h.ws) ?_ (by okerr)
  rintro a m1 ⟨ha, rfl⟩; injection ha with ha; subst ha
  refine Post.bind (vsize_post cfg m1 c w h.ws) ?_ (by okerr)
  rintro sz m2 ⟨hsz, rfl⟩; injection hsz with hsz; subst hsz
  rw [h.size]
  rcases h.buf with h0 | hb
  · have hle := h.le
    have : xs = [] := List.eq_nil_of_length_eq_zero (by omega)
    subst this
    exact ⟨rfl, rfl⟩
  · exact RelocB.readLiveN_post (regionOf cfg c w) xs m2 [] _ (by simpa using hb)
end AmcVerif
