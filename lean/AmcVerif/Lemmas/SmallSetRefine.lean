import AmcVerif.Lemmas.SmallSetInv
import AmcVerif.Lemmas.FlatSetPool
/-! Lemmas for the refinement of SmallSet to a `std::set` kept as a strictly increasing list (`Props/C04e.lean`): what each
operation of the hand-written model (`SSet.insert`, `SSet.eraseKey`; `Bridge/SmallSetBridge.lean` proves the generated members equal
to them) does to the ELEMENTS of the set, up to permutation — the inline state keeps insertion order —, in either state and across
the inline -> large transition; and the same facts for the specification operations `insertVal` / `eraseKey` on a sorted list. No
property statements here. -/
namespace AmcVerif.Sets
open AmcVerif.FS
variable {α : Type} {lt : α → α → Bool}

theorem equiv_trans (hswo : SWO lt) {a b c : α} (hab : Equiv lt a b) (hbc : Equiv lt b c) : Equiv lt a c := by
  refine ⟨?_, ?_⟩
  · cases h : lt a c with
    | false => rfl
    | true =>
      rcases hswo.cotrans a b c h with h1 | h1
      · rw [hab.1] at h1; cases h1
      · rw [hbc.1] at h1; cases h1
  · cases h : lt c a with
    | false => rfl
    | true =>
      rcases hswo.cotrans c b a h with h1 | h1
      · rw [hbc.2] at h1; cases h1
      · rw [hab.2] at h1; cases h1

theorem eraseIdx_perm : ∀ (l : List α) (i : Nat) (y : α), l[i]? = some y → l.Perm (y :: l.eraseIdx i)
  | [], i, y, h => by simp at h
  | x :: xs, 0, y, h => by
    simp only [List.getElem?_cons_zero, Option.some.injEq] at h
    subst h; simp
  | x :: xs, i + 1, y, h => by
    simp only [List.getElem?_cons_succ] at h
    have ih := eraseIdx_perm xs i y h
    simp only [List.eraseIdx_cons_succ]
    exact (List.Perm.cons x ih).trans (List.Perm.swap y x _)

/-- in a list without two equivalent elements, two members that are equivalent are the same element -/
theorem nodup_equiv_eq : ∀ (l : List α), NoEquivDup lt l → ∀ x y, x ∈ l → y ∈ l → Equiv lt x y → x = y
  | [], _, x, _, hx, _, _ => by cases hx
  | a :: t, h, x, y, hx, hy, he => by
    have hc := List.pairwise_cons.mp h
    rcases List.mem_cons.mp hx with rfl | hx'
    · rcases List.mem_cons.mp hy with rfl | hy'
      · rfl
      · exact absurd he (hc.1 y hy')
    · rcases List.mem_cons.mp hy with rfl | hy'
      · exact absurd (equiv_symm he) (hc.1 x hx')
      · exact nodup_equiv_eq t hc.2 x y hx' hy' he

/-- removing "the" element equivalent to `k` from two arrangements of the same duplicate-free elements leaves the same elements -/
theorem perm_erase_unique (hswo : SWO lt) {l r r' : List α} {y y' k : α} (hnd : NoEquivDup lt l)
    (h1 : l.Perm (y :: r)) (h2 : l.Perm (y' :: r')) (hy : Equiv lt y k) (hy' : Equiv lt y' k) : r.Perm r' := by
  have m1 : y ∈ l := h1.mem_iff.mpr (List.mem_cons_self)
  have m2 : y' ∈ l := h2.mem_iff.mpr (List.mem_cons_self)
  have he : y = y' := nodup_equiv_eq l hnd y y' m1 m2 (equiv_trans hswo hy (equiv_symm hy'))
  subst he
  exact (h1.symm.trans h2).cons_inv

theorem hasEquiv_perm {l l' : List α} (h : l.Perm l') (k : α) : HasEquiv lt l k ↔ HasEquiv lt l' k := by
  constructor
  · rintro ⟨x, hx, he⟩; exact ⟨x, h.mem_iff.mp hx, he⟩
  · rintro ⟨x, hx, he⟩; exact ⟨x, h.mem_iff.mpr hx, he⟩

theorem elems_nodup (N : Nat) (s : SSet α) (h : s.Inv lt N) : NoEquivDup lt s.elems := by
  unfold SSet.elems
  split
  · exact h.nodup
  · unfold NoEquivDup
    exact List.Pairwise.imp (fun {a b} hab he => by rw [he.1] at hab; cases hab) h.sorted

@[simp] theorem elems_mk_set (l : List α) : (⟨[], l⟩ : SSet α).elems = l := by
  cases l <;> simp [SSet.elems, SSet.isSmall]

@[simp] theorem elems_mk_vec (l : List α) : (⟨l, []⟩ : SSet α).elems = l := by
  simp [SSet.elems, SSet.isSmall]

/-! ### the specification operations on a strictly increasing list -/

theorem insertVal_perm (l : List α) (v : α) (h : (insertVal lt l v).2.2 = true) : (insertVal lt l v).1.Perm (v :: l) := by
  have hle := lowerIdx_le (lt := lt) l v
  have hi : (insertVal lt l v).1 = l.insertIdx (lowerIdx lt l v) v := by
    unfold insertVal at *
    simp only at *
    cases hl : l[lowerIdx lt l v]? with
    | none => simp
    | some x =>
      rw [hl] at h
      simp only at h ⊢
      cases hvx : lt v x with
      | false => rw [hvx] at h; simp at h
      | true => simp
  rw [hi]
  exact List.perm_insertIdx v l hle

/-- `eraseKey` on a strictly increasing list: either it removes the one element equivalent to the key and reports 1, or there
    is none, it reports 0 and the list is unchanged -/
theorem eraseKey_spec (hswo : SWO lt) (l : List α) (hs : Sorted lt l) (k : α) :
    ((eraseKey lt l k).2.1 = 1 ∧ ∃ y, Equiv lt y k ∧ l.Perm (y :: (eraseKey lt l k).1))
      ∨ ((eraseKey lt l k).2.1 = 0 ∧ ¬ HasEquiv lt l k ∧ (eraseKey lt l k).1 = l) := by
  unfold eraseKey
  cases hf : findC lt l k with
  | mk o c =>
    cases o with
    | some i =>
      left
      obtain ⟨y, hy, he⟩ := AmcVerif.FSPool.findC_some_equiv hswo l hs k i (by rw [hf])
      exact ⟨rfl, y, he, eraseIdx_perm l i y hy⟩
    | none =>
      right
      refine ⟨rfl, ?_, rfl⟩
      intro hh
      obtain ⟨i, hi, _⟩ := (findC_some_iff hswo l hs k).mpr hh
      rw [hf] at hi; cases hi

/-! ### the SmallSet operations, in either state and across the transition -/

theorem insertAll_perm (hswo : SWO lt) : ∀ (vs l : List α), Sorted lt l → NoEquivDup lt vs → (∀ v ∈ vs, ¬ HasEquiv lt l v) →
    (insertAll lt l vs).Perm (vs ++ l)
  | [], l, _, _, _ => by simp [insertAll]
  | v :: vs, l, hs, hnd, hne => by
    have hc := List.pairwise_cons.mp hnd
    have hins : (insertVal lt l v).2.2 = true := by
      cases hb : (insertVal lt l v).2.2 with
      | true => rfl
      | false => exact absurd ((insertVal_not_inserted_iff hswo l hs v).mp hb) (hne v List.mem_cons_self)
    have hp := insertVal_perm l v hins
    have ih := insertAll_perm hswo vs (insertVal lt l v).1 (insertVal_sorted hswo l hs v) hc.2 (by
      intro w hw ⟨x, hx, he⟩
      rcases (insertVal_mem l v x).mp hx with hx' | ⟨_, rfl⟩
      · exact hne w (List.mem_cons_of_mem _ hw) ⟨x, hx', he⟩
      · exact hc.1 w hw he)
    have : insertAll lt l (v :: vs) = insertAll lt (insertVal lt l v).1 vs := by simp [insertAll]
    rw [this]
    refine ih.trans ?_
    refine (List.Perm.append_left vs hp).trans ?_
    simp

/-- `grow` moves exactly the inline elements into the backing set -/
theorem grow_perm (hswo : SWO lt) (N : Nat) (s : SSet α) (h : s.Inv lt N) (hs : s.isSmall = true) :
    (s.grow lt).set.Perm s.vec := by
  have hset : s.set = [] := by simpa [SSet.isSmall] using hs
  simp only [SSet.grow, hset]
  have := insertAll_perm hswo s.vec [] (by simp [Sorted]) h.nodup (by rintro v _ ⟨x, hx, _⟩; cases hx)
  simpa using this

/-- `insert`: when it reports "inserted" the elements are the old ones plus the value, otherwise they are unchanged — in the
    inline state, in the large state, and when the call moves the set from one to the other -/
theorem insert_elems (hswo : SWO lt) (N : Nat) (s : SSet α) (h : s.Inv lt N) (v : α) :
    ((s.insert lt N v).2.2.1 = true → (s.insert lt N v).1.elems.Perm (v :: s.elems))
      ∧ ((s.insert lt N v).2.2.1 = false → (s.insert lt N v).1.elems = s.elems) := by
  have hni := insert_not_inserted_iff hswo N s h v
  by_cases hs : s.isSmall = true
  · have hel : s.elems = s.vec := by simp [SSet.elems, hs]
    have hspec := findSmall_spec lt s.vec v 0
    unfold SSet.insert at hni ⊢
    simp only [hs, ↓reduceIte] at hni ⊢
    cases hf : findSmall lt s.vec v 0 with
    | mk o c =>
      rw [hf] at hspec hni
      cases o with
      | some i => simp
      | none =>
        simp only at hspec hni ⊢
        by_cases hfull : s.vec.length = N
        · simp only [hfull, ↓reduceIte] at hni ⊢
          simp only [elems_mk_set]
          constructor
          · intro hb
            rw [hel]
            exact (insertVal_perm _ v hb).trans (List.Perm.cons v (grow_perm hswo N s h hs))
          · intro hb
            rw [hel] at hni
            exact absurd (hni.mp hb) hspec
        · simp only [hfull, ↓reduceIte, elems_mk_vec]
          constructor
          · intro _; rw [hel]; simp
          · intro hb; cases hb
  · have hs' : s.isSmall = false := by simpa using hs
    have hel : s.elems = s.set := by simp [SSet.elems, hs']
    unfold SSet.insert
    simp only [hs', Bool.false_eq_true, ↓reduceIte, elems_mk_set]
    rw [hel]
    exact ⟨fun hb => insertVal_perm _ v hb, fun hb => insertVal_noop _ v hb⟩

/-- `erase(key)` in either state: the invariant is kept; either one element — the one equivalent to the key — is removed and 1
    is reported, or no element is equivalent to the key, 0 is reported and the elements are unchanged -/
theorem eraseKeyS_spec (hswo : SWO lt) (N : Nat) (s : SSet α) (h : s.Inv lt N) (k : α) :
    (s.eraseKey lt k).1.Inv lt N ∧
    (((s.eraseKey lt k).2 = 1 ∧ ∃ y, Equiv lt y k ∧ s.elems.Perm (y :: (s.eraseKey lt k).1.elems))
      ∨ ((s.eraseKey lt k).2 = 0 ∧ ¬ HasEquiv lt s.elems k ∧ (s.eraseKey lt k).1.elems = s.elems)) := by
  by_cases hs : s.isSmall = true
  · have hel : s.elems = s.vec := by simp [SSet.elems, hs]
    have hspec := findSmall_spec lt s.vec k 0
    unfold SSet.eraseKey
    simp only [hs, ↓reduceIte]
    cases hf : (findSmall lt s.vec k 0).1 with
    | some i =>
      rw [hf] at hspec
      simp only at hspec ⊢
      obtain ⟨_, y, hy, he⟩ := hspec
      have hinv := eraseIdx_inv N s h i
      simp only [SSet.eraseIdx, hs, ↓reduceIte] at hinv
      refine ⟨hinv, Or.inl ⟨trivial, y, he, ?_⟩⟩
      rw [hel, elems_mk_vec]
      exact eraseIdx_perm s.vec i y (by simpa using hy)
    | none =>
      rw [hf] at hspec
      simp only at hspec ⊢
      exact ⟨h, Or.inr ⟨trivial, by rw [hel]; exact hspec, trivial⟩⟩
  · have hs' : s.isSmall = false := by simpa using hs
    have hel : s.elems = s.set := by simp [SSet.elems, hs']
    have hsp := eraseKey_spec hswo s.set h.sorted k
    unfold SSet.eraseKey
    simp only [hs', Bool.false_eq_true, ↓reduceIte, elems_mk_set]
    rw [hel]
    refine ⟨⟨fun _ => rfl, by simp, by simp [NoEquivDup], AmcVerif.FSPool.eraseKey_sorted' s.set h.sorted k⟩, hsp⟩

end AmcVerif.Sets
