import AmcVerif.Lemmas.VecRep
import AmcVerif.Lemmas.CrossLoops
import AmcVerif.Model.WordLaws
/-! Allocator-level specifications and the growth guarantee (`GrowSpec`) of the dynamic flavours, in one file (the three
parts were meant to be `AllocPosts.lean`, `GrowStd.lean`, `GrowSmall.lean`; they can be split at the part banners, each later
part importing the earlier ones).

* Part 1: `allocBlock_post`, `deallocBlock_post`, `deallocNull_post`, `reallocNull_post`, `reallocBlk_post` in terms of views
  (`View.set`, `View.unset`) and block counts (`Alloced`, `Freed`, `Moved`).
* Part 2: `StdLaws`, `DOk`, `std_sizeLaws`, `std_growSpec` (amc::vector).
* Part 3: `SOk`, `small_sizeLaws`, `small_growSpec` (SmallVector).

Two adjustments of the planned interface were necessary (both invariants are strengthened, no conclusion is weakened):
* `DOk` / `SOk` require a non-zero capacity when the pointer word is a heap block: `Store` says nothing about the buffer of a
  container of capacity 0, so `realloc` of a "block of capacity 0" could not be shown not to fault;
* the new pointer word is `blk m.nextId`, so the "not block 0" conjunct of `DOk` / `SOk` needs `0 < m.nextId`, which is not among
  the hypotheses of `GrowSpec`: `std_growSpec` / `small_growSpec` prove `GrowSpecPos` (= `GrowSpec` with that extra hypothesis);
  for the invariants without the conjunct (`DOkW`, `SOkW`) the literal `GrowSpec` (and `VecLaws`) is proved. -/
namespace AmcVerif
variable {α β : Type}

/-- a view with one region removed -/
def View.unset (v : View α) (r : Region) : View α := fun r' => if r' = r then none else v r'

@[simp] theorem View.unset_same (v : View α) (r : Region) : (v.unset r) r = none := by simp [View.unset]
theorem View.unset_other (v : View α) (r r' : Region) (h : r' ≠ r) : (v.unset r) r' = v r' := by simp [View.unset, h]

/-- the parts of a memory that no allocator primitive changes -/
structure KeepA (m m' : Mem α) : Prop where
  cat : m'.cat = m.cat
  ws : m'.ws = m.ws
  hr : m'.hasRealloc = m.hasRealloc
  nid : m'.nextId = m.nextId

theorem KeepA.refl (m : Mem α) : KeepA m m := ⟨rfl, rfl, rfl, rfl⟩
theorem KeepA.trans {m m1 m2 : Mem α} (h1 : KeepA m m1) (h2 : KeepA m1 m2) : KeepA m m2 :=
  ⟨h2.cat.trans h1.cat, h2.ws.trans h1.ws, h2.hr.trans h1.hr, h2.nid.trans h1.nid⟩
theorem Keep.toA {m m' : Mem α} (h : Keep m m') : KeepA m m' := ⟨h.cat, h.ws, h.hr, h.nid⟩

/- =================================================================================================================
   Part 1 (AllocPosts): view-level specifications of the allocator primitives
   ================================================================================================================= -/

/- block lists ---------------------------------------------------------------------------------------------- -/

namespace AllocAux
theorem find_cons_same (bs : List (Block α)) (bl : Block α) : (bl :: bs).find? (·.id == bl.id) = some bl := by
  simp

theorem find_cons_other (bs : List (Block α)) (bl : Block α) (id' : Nat) (h : id' ≠ bl.id) :
    (bl :: bs).find? (·.id == id') = bs.find? (·.id == id') := by
  have : (bl.id == id') = false := by simp; exact fun e => h e.symm
  simp [this]

theorem find_filter_same (bs : List (Block α)) (id : Nat) : (bs.filter (·.id != id)).find? (·.id == id) = none := by
  induction bs with
  | nil => rfl
  | cons x xs ih =>
    rw [List.filter_cons]
    cases hx : (x.id != id) with
    | true =>
      simp only [↓reduceIte]
      have : (x.id == id) = false := by simpa [bne] using hx
      rw [List.find?_cons, this]; exact ih
    | false => simp only [Bool.false_eq_true, ↓reduceIte]; exact ih

theorem find_filter_other (bs : List (Block α)) (id id' : Nat) (h : id' ≠ id) :
    (bs.filter (·.id != id)).find? (·.id == id') = bs.find? (·.id == id') := by
  induction bs with
  | nil => rfl
  | cons x xs ih =>
    rw [List.filter_cons]
    cases hx : (x.id != id) with
    | true =>
      simp only [↓reduceIte]
      rw [List.find?_cons, List.find?_cons, ih]
    | false =>
      have h1 : x.id = id := by simpa [bne] using hx
      have : (x.id == id') = false := by simp [h1]; exact fun e => h e.symm
      simp only [Bool.false_eq_true, ↓reduceIte]
      rw [List.find?_cons, this]; exact ih
end AllocAux
open AllocAux

/-- view and counts after a block was pushed in front of the block list -/
theorem buf_consBlock (m m' : Mem α) (bl : Block α) (hb : m'.blocks = bl :: m.blocks) (hi : m'.inls = m.inls) (ht : m'.tmp = m.tmp) :
    m'.buf = View.set m.buf (.blk bl.id) bl.buf := by
  funext r
  cases r with
  | inl c => simp [View.set, Mem.buf, hi]
  | tmp => simp [View.set, Mem.buf, ht]
  | blk id' =>
    by_cases h : id' = bl.id
    · subst h; rw [View.set_same]; simp only [Mem.buf, hb, find_cons_same]; rfl
    · rw [View.set_other _ _ _ _ (by simpa using h)]
      simp only [Mem.buf, hb, find_cons_other _ _ _ h]

theorem cnt_consBlock_same (m m' : Mem α) (bl : Block α) (hb : m'.blocks = bl :: m.blocks) : m'.cnt bl.id = some bl.count := by
  simp only [Mem.cnt, hb, find_cons_same]; rfl

theorem cnt_consBlock_other (m m' : Mem α) (bl : Block α) (hb : m'.blocks = bl :: m.blocks) (id' : Nat) (h : id' ≠ bl.id) :
    m'.cnt id' = m.cnt id' := by
  simp only [Mem.cnt, hb, find_cons_other _ _ _ h]

/-- view and counts after a block was removed from the block list -/
theorem buf_filterBlock (m m' : Mem α) (id : Nat) (hb : m'.blocks = m.blocks.filter (·.id != id)) (hi : m'.inls = m.inls)
    (ht : m'.tmp = m.tmp) : m'.buf = View.unset m.buf (.blk id) := by
  funext r
  cases r with
  | inl c => simp [View.unset, Mem.buf, hi]
  | tmp => simp [View.unset, Mem.buf, ht]
  | blk id' =>
    by_cases h : id' = id
    · subst h; rw [View.unset_same]; simp only [Mem.buf, hb, find_filter_same]; rfl
    · rw [View.unset_other _ _ _ (by simpa using h)]
      simp only [Mem.buf, hb, find_filter_other _ _ _ h]

theorem cnt_filterBlock_same (m m' : Mem α) (id : Nat) (hb : m'.blocks = m.blocks.filter (·.id != id)) : m'.cnt id = none := by
  simp only [Mem.cnt, hb, find_filter_same]; rfl

theorem cnt_filterBlock_other (m m' : Mem α) (id : Nat) (hb : m'.blocks = m.blocks.filter (·.id != id)) (id' : Nat) (h : id' ≠ id) :
    m'.cnt id' = m.cnt id' := by
  simp only [Mem.cnt, hb, find_filter_other _ _ _ h]


/- run lemmas of the monadic glue ---------------------------------------------------------------------------- -/

namespace AllocAux
theorem modify_run (m : Mem α) (f : Mem α → Mem α) : runM (modify f : M α Unit) m = (.ok (), f m) := by
  mnorm <;> rfl
theorem modify_post (m : Mem α) (f : Mem α → Mem α) :
    Post (modify f : M α Unit) m (fun res m' => res = .ok () ∧ m' = f m) := by
  unfold Post; rw [modify_run]; exact ⟨rfl, rfl⟩

theorem getM_run (m : Mem α) : runM (get : M α (Mem α)) m = (.ok m, m) := by
  mnorm <;> rfl
theorem getM_post (m : Mem α) : Post (get : M α (Mem α)) m (fun res m' => res = .ok m ∧ m' = m) := by
  unfold Post; rw [getM_run]; exact ⟨rfl, rfl⟩

theorem findBlock_run (m : Mem α) (id : Nat) : runM (findBlock id) m = (.ok (m.blocks.find? (·.id == id)), m) := by
  unfold findBlock; mnorm <;> rfl
theorem findBlock_post (m : Mem α) (id : Nat) :
    Post (findBlock id) m (fun res m' => res = .ok (m.blocks.find? (·.id == id)) ∧ m' = m) := by
  unfold Post; rw [findBlock_run]; exact ⟨rfl, rfl⟩
end AllocAux
open AllocAux

/- outcome shapes ---------------------------------------------------------------------------------------------- -/

/-- `m'` is `m` with a block `id` of `n` slots holding `b` put in place -/
structure Alloced (m m' : Mem α) (id n : Nat) (b : List (Slot α)) : Prop where
  buf : m'.buf = View.set m.buf (.blk id) b
  cnt : m'.cnt id = some n
  cntOther : ∀ j, j ≠ id → m'.cnt j = m.cnt j
  keep : KeepA m m'

/-- `m'` is `m` with block `id` removed -/
structure Freed (m m' : Mem α) (id : Nat) : Prop where
  buf : m'.buf = View.unset m.buf (.blk id)
  cnt : m'.cnt id = none
  cntOther : ∀ j, j ≠ id → m'.cnt j = m.cnt j
  keep : KeepA m m'

/-- `m'` is `m` with block `id` removed and a block `id'` of `n` slots holding `b` put in place -/
structure Moved (m m' : Mem α) (id id' n : Nat) (b : List (Slot α)) : Prop where
  buf : m'.buf = View.set (View.unset m.buf (.blk id)) (.blk id') b
  cnt : m'.cnt id' = some n
  cntOld : m'.cnt id = none
  cntOther : ∀ j, j ≠ id → j ≠ id' → m'.cnt j = m.cnt j
  keep : KeepA m m'

theorem Alloced.ofSame {m m1 m2 : Mem α} {id n : Nat} {b : List (Slot α)} (hs : Same m m1) (h : Alloced m1 m2 id n b) :
    Alloced m m2 id n b :=
  ⟨by rw [h.buf, hs.1], h.cnt, fun j hj => (h.cntOther j hj).trans (hs.2.cnt j), hs.2.toA.trans h.keep⟩

theorem Alloced.cons (m m' : Mem α) (id n : Nat) (b : List (Slot α)) (hb : m'.blocks = ⟨id, n, b⟩ :: m.blocks)
    (hi : m'.inls = m.inls) (ht : m'.tmp = m.tmp) (hk : KeepA m m') : Alloced m m' id n b :=
  ⟨buf_consBlock m m' ⟨id, n, b⟩ hb hi ht, cnt_consBlock_same m m' ⟨id, n, b⟩ hb,
   fun j hj => cnt_consBlock_other m m' ⟨id, n, b⟩ hb j hj, hk⟩

theorem Freed.filter (m m' : Mem α) (id : Nat) (hb : m'.blocks = m.blocks.filter (·.id != id))
    (hi : m'.inls = m.inls) (ht : m'.tmp = m.tmp) (hk : KeepA m m') : Freed m m' id :=
  ⟨buf_filterBlock m m' id hb hi ht, cnt_filterBlock_same m m' id hb, fun j hj => cnt_filterBlock_other m m' id hb j hj, hk⟩

/-- outcome of an allocation: the block is there, or `bad_alloc` and nothing changed -/
def AllocPost (m : Mem α) (id n : Nat) : Except Stop Unit → Mem α → Prop :=
  fun res m' => (res = .ok () ∧ Alloced m m' id n (raws n)) ∨ (res = .error (.exc .badAlloc) ∧ Same m m')

/-- the common shape of the allocating calls: count the call, maybe throw `bad_alloc`, else update the block table -/
theorem bumpTickModify_post (m : Mem α) (f : Ev → Ev) (g : Mem α → Mem α) (Q : Mem α → Prop) (hg : ∀ m1, Same m m1 → Q (g m1)) :
    Post (do bumpEv f; tick .badAlloc; modify g : M α Unit) m
      (fun res m' => (res = .ok () ∧ Q m') ∨ (res = .error (.exc .badAlloc) ∧ Same m m')) := by
  refine Post.bind (bumpEv_post m _) ?_ (by okerr)
  rintro _ m1 ⟨_, hs1⟩
  refine Post.bind (tick_post m1 .badAlloc) ?_ ?_
  · rintro _ m2 ⟨_, hs2⟩
    refine Post.mono (modify_post m2 _) ?_
    rintro res m3 ⟨hr, rfl⟩
    exact Or.inl ⟨hr, hg m2 (hs1.trans hs2)⟩
  · rintro e m2 ⟨he, hs2⟩
    rcases he with he | he
    · cases he
    · exact Or.inr ⟨he, hs1.trans hs2⟩

/-- `alloc.allocate(n)` returning block `id` -/
theorem allocBlock_post (m : Mem α) (n id : Nat) : Post (allocBlock n id) m (AllocPost m id n) := by
  unfold allocBlock
  exact bumpTickModify_post m _ _ _ (fun m1 hs =>
    Alloced.ofSame hs (Alloced.cons _ _ id n _ rfl rfl rfl ⟨rfl, rfl, rfl, rfl⟩))

theorem find_of_buf_cnt (m : Mem α) (id n : Nat) (b : List (Slot α)) (hb : m.buf (.blk id) = some b) (hc : m.cnt id = some n) :
    ∃ bl, m.blocks.find? (·.id == id) = some bl ∧ bl.buf = b ∧ bl.count = n := by
  simp only [Mem.buf, Option.map_eq_some_iff] at hb
  obtain ⟨bl, hf, hbb⟩ := hb
  refine ⟨bl, hf, hbb, ?_⟩
  simp only [Mem.cnt, hf, Option.map_some, Option.some.injEq] at hc
  exact hc

/-- `alloc.deallocate(p, n)` of an existing block allocated with `n` elements that holds no object any more -/
theorem deallocBlock_post (m : Mem α) (id n : Nat) (b : List (Slot α)) (hb : m.buf (.blk id) = some b) (hc : m.cnt id = some n)
    (hraw : (∀ s ∈ b, s = .raw) ∨ m.cat = .tc) :
    Post (deallocBlock (.blk id) n) m (fun res m' => res = .ok () ∧ Freed m m' id) := by
  obtain ⟨bl, hf, hbb, hbc⟩ := find_of_buf_cnt m id n b hb hc
  unfold deallocBlock
  simp only
  refine Post.bind (findBlock_post m id) ?_ (by okerr)
  rintro o m1 ⟨ho, rfl⟩
  injection ho with ho; subst ho
  rw [hf]
  simp only [hbc, ne_eq, not_true_eq_false, ↓reduceIte]
  refine Post.bind (isTC_post m1) ?_ (by okerr)
  rintro t m2 ⟨ht, rfl⟩
  injection ht with ht; subst ht
  split
  · refine Post.mono (modify_post m2 _) ?_
    rintro res m3 ⟨hr, rfl⟩
    exact ⟨hr, Freed.filter _ _ id rfl rfl rfl ⟨rfl, rfl, rfl, rfl⟩⟩
  · rename_i hn
    exfalso; apply hn
    rcases hraw with hraw | hraw
    · rw [Bool.or_eq_true]; right
      rw [List.all_eq_true]
      intro s hs; rw [hraw s (hbb ▸ hs)]
    · rw [hraw]; rfl

theorem deallocNull_post (m : Mem α) : Post (deallocBlock .null 0) m (fun res m' => res = .ok () ∧ Same m m') := by
  unfold deallocBlock
  simp only [↓reduceIte]
  exact bumpEv_post m _


/-- `Reallocate(nullptr, 0, new, 0)`: a plain allocation -/
theorem reallocNull_post (m : Mem α) (new id' : Nat) :
    Post (reallocBlock .null 0 new 0 (.blk id')) m (AllocPost m id' new) := by
  unfold reallocBlock
  simp only [pure_bind]
  refine Post.bind (getM_post m) ?_ (by okerr)
  rintro m0 m1 ⟨hm, rfl⟩
  injection hm with hm; subst hm
  simp only [ne_eq, not_true_eq_false, Bool.or_self, decide_false, Bool.false_eq_true, ↓reduceIte]
  split
  · exact bumpTickModify_post m0 _ _ _ (fun m1 hs =>
      Alloced.ofSame hs (Alloced.cons _ _ id' new _ rfl rfl rfl ⟨rfl, rfl, rfl, rfl⟩))
  · exact bumpTickModify_post m0 _ _ _ (fun m1 hs =>
      Alloced.ofSame hs (Alloced.cons _ _ id' new _ rfl rfl rfl ⟨rfl, rfl, rfl, rfl⟩))


theorem Moved.consFilter (m m' : Mem α) (id id' n : Nat) (b : List (Slot α)) (hne : id' ≠ id)
    (hb : m'.blocks = ⟨id', n, b⟩ :: m.blocks.filter (·.id != id))
    (hi : m'.inls = m.inls) (ht : m'.tmp = m.tmp) (hk : KeepA m m') : Moved m m' id id' n b := by
  have hf := Freed.filter m ({ m with blocks := m.blocks.filter (·.id != id) } : Mem α) id rfl rfl rfl ⟨rfl, rfl, rfl, rfl⟩
  have ha := Alloced.cons ({ m with blocks := m.blocks.filter (·.id != id) } : Mem α) m' id' n b hb hi ht
    ⟨hk.cat, hk.ws, hk.hr, hk.nid⟩
  exact ⟨by rw [ha.buf, hf.buf], ha.cnt, by rw [ha.cntOther id (Ne.symm hne)]; exact hf.cnt,
    fun j h1 h2 => (ha.cntOther j h2).trans (hf.cntOther j h1), hk⟩

theorem Moved.ofSame {m m1 m2 : Mem α} {id id' n : Nat} {b : List (Slot α)} (hs : Same m m1) (h : Moved m1 m2 id id' n b) :
    Moved m m2 id id' n b :=
  ⟨by rw [h.buf, hs.1], h.cnt, h.cntOld, fun j h1 h2 => (h.cntOther j h1 h2).trans (hs.2.cnt j), hs.2.toA.trans h.keep⟩

/-- the buffer `realloc` produces from a block holding `xs` followed by raw slots -/
theorem realloc_buf (xs : List α) (old new : Nat) (hlo : xs.length ≤ old) (hln : xs.length ≤ new) :
    ((lives xs ++ raws (old - xs.length)).take new ++ rawBuf (new - (lives xs ++ raws (old - xs.length)).length) : List (Slot α))
      = lives xs ++ raws (new - xs.length) := by
  have hl : (lives xs ++ raws (old - xs.length) : List (Slot α)).length = old := by simp; omega
  rw [hl, List.take_append, List.take_of_length_le (by simp; omega), lives_length, List.append_assoc]
  congr 1
  show List.take (new - xs.length) (List.replicate (old - xs.length) Slot.raw) ++ List.replicate (new - old) Slot.raw = List.replicate (new - xs.length) Slot.raw
  rw [List.take_replicate, List.replicate_append_replicate]
  congr 1; omega

/-- outcome of a reallocation of block `id` (holding `xs`) to block `id'` of `new` slots -/
def ReallocPost (m : Mem α) (id id' new : Nat) (xs : List α) : Except Stop Unit → Mem α → Prop :=
  fun res m' => (res = .ok () ∧ Moved m m' id id' new (lives xs ++ raws (new - xs.length)))
    ∨ (res = .error (.exc .badAlloc) ∧ Same m m')

theorem reallocBlk_post (m : Mem α) (id id' old new : Nat) (xs : List α)
    (hb : m.buf (.blk id) = some (lives xs ++ raws (old - xs.length))) (hc : m.cnt id = some old)
    (hlo : xs.length ≤ old) (hln : xs.length ≤ new) (hne : id' ≠ id) :
    Post (reallocBlock (.blk id) old new xs.length (.blk id')) m (ReallocPost m id id' new xs) := by
  obtain ⟨bl, hf, hbb, hbc⟩ := find_of_buf_cnt m id old _ hb hc
  unfold reallocBlock
  simp only [pure_bind]
  refine Post.bind (getM_post m) ?_ (by okerr)
  rintro m0 m1 ⟨hm, rfl⟩
  injection hm with hm; subst hm
  refine Post.bind (findBlock_post m0 id) ?_ (by okerr)
  rintro o m1 ⟨ho, rfl⟩
  injection ho with ho; subst ho
  rw [hf]
  have hgt : ¬ (xs.length > old ∨ xs.length > new) := by omega
  simp only [hbc, ne_eq, not_true_eq_false, ↓reduceIte, Bool.or_eq_true, decide_eq_true_eq, hgt]
  split
  · rw [hbb, realloc_buf xs old new hlo hln]
    exact bumpTickModify_post m1 _ _ _ (fun m2 hs =>
      Moved.ofSame hs (Moved.consFilter _ _ id id' new _ hne rfl rfl rfl ⟨rfl, rfl, rfl, rfl⟩))
  · have hner : Region.blk id ≠ Region.blk id' := by intro h; injection h with h; exact hne h.symm
    refine Post.bind (allocBlock_post m1 new id') ?_ ?_
    · rintro _ m2 hq
      rcases hq with ⟨_, ha⟩ | ⟨he, _⟩
      · have h2 : m2.buf (.blk id) = some ([] ++ lives xs ++ raws (old - xs.length)) := by
          rw [ha.buf, View.set_other _ _ _ _ hner]; simpa using hb
        have h2' : m2.buf (.blk id') = some ([] ++ raws xs.length ++ raws (new - xs.length)) := by
          rw [ha.buf, View.set_same, List.nil_append, raws_append]; congr 2; omega
        refine Post.bind (relocAcross_post m2 (.blk id) (.blk id') hner [] _ [] _ xs h2 h2') ?_ (by okerr)
        rintro _ m3 ⟨_, hk3, hb3⟩
        have h3 : m3.buf (.blk id) = some (raws xs.length ++ raws (old - xs.length)) := by
          rw [hb3, View.set_other _ _ _ _ hner, View.set_same]; rfl
        have hc3 : m3.cnt id = some old := by
          rw [hk3.cnt, ha.cntOther id (Ne.symm hne)]; exact hc
        refine Post.mono (deallocBlock_post m3 id old _ h3 hc3 (Or.inl ?_)) ?_
        · intro s hs
          rw [raws_append] at hs
          exact List.eq_of_mem_replicate hs
        · rintro res m4 ⟨hr, hf4⟩
          refine Or.inl ⟨hr, ?_, ?_, hf4.cnt, ?_, ?_⟩
          · rw [hf4.buf, hb3, ha.buf]
            funext r
            by_cases h1 : r = .blk id
            · subst h1; simp [View.set, View.unset, hner]
            · by_cases h2 : r = .blk id'
              · subst h2; simp [View.set, View.unset, h1]
              · simp [View.set, View.unset, h1, h2]
          · rw [hf4.cntOther id' hne, hk3.cnt]; exact ha.cnt
          · intro j h1 h2
            rw [hf4.cntOther j h1, hk3.cnt, ha.cntOther j h2]
          · exact (ha.keep.trans hk3.toA).trans hf4.keep
      · cases he
    · rintro e m2 hq
      rcases hq with ⟨he, _⟩ | ⟨he, hs⟩
      · cases he
      · exact Or.inr ⟨he, hs⟩

/- =================================================================================================================
   Part 2 (GrowStd): what `grow` leaves behind, in general; the growth guarantee of amc::vector
   ================================================================================================================= -/

theorem takeFresh_run (m : Mem α) : runM (takeFresh : M α Nat) m = (.ok m.nextId, { m with nextId := m.nextId + 1 }) := by
  unfold takeFresh; mnorm <;> rfl
theorem takeFresh_post (m : Mem α) :
    Post (takeFresh : M α Nat) m (fun res m' => res = .ok m.nextId ∧ m' = { m with nextId := m.nextId + 1 }) := by
  unfold Post; rw [takeFresh_run]; exact ⟨rfl, rfl⟩

/-- same view, counts, words; the next block identifier advanced by one (what `grow` leaves behind when it throws) -/
structure Bumped (m m' : Mem α) : Prop where
  buf : m'.buf = m.buf
  cnt : ∀ id, m'.cnt id = m.cnt id
  cat : m'.cat = m.cat
  ws : m'.ws = m.ws
  hr : m'.hasRealloc = m.hasRealloc
  nid : m'.nextId = m.nextId + 1

theorem Bumped.take (m : Mem α) : Bumped m ({ m with nextId := m.nextId + 1 } : Mem α) :=
  ⟨by funext r; cases r <;> rfl, fun _ => rfl, rfl, rfl, rfl, rfl⟩

theorem Bumped.same {m m1 m2 : Mem α} (h : Bumped m m1) (hs : Same m1 m2) : Bumped m m2 :=
  ⟨hs.1.trans h.buf, fun id => (hs.2.cnt id).trans (h.cnt id), hs.2.cat.trans h.cat, hs.2.ws.trans h.ws, hs.2.hr.trans h.hr,
   hs.2.nid.trans h.nid⟩

theorem Bumped.vrep {cfg : Cfg} {Ok : VB → Prop} {c : Nat} {m m' : Mem α} {xs : List α} {w : VB} (h : Bumped m m')
    (hv : VRepW cfg Ok c m xs w) : VRepW cfg Ok c m' xs w :=
  ⟨⟨by rw [h.ws]; exact hv.store.ws, hv.store.ok, hv.store.len, by rw [h.buf]; exact hv.store.buf,
    fun id hr hc => by rw [h.cnt]; exact hv.store.cnt id hr hc, fun hne hfl => by rw [h.buf]; exact hv.store.inl hne hfl⟩, hv.size⟩

theorem Bumped.frameG {m m' : Mem α} (h : Bumped m m') (c : Nat) (r : Region) : FrameG c r m m' :=
  ⟨h.cat, h.hr, by rw [h.ws], fun _ _ => by rw [h.ws], by rw [h.nid]; omega,
   fun hf id hid => by rw [h.buf] at hid; rw [h.nid]; exact Nat.lt_succ_of_lt (hf id hid),
   fun r' _ _ => by rw [h.buf], fun id _ _ => h.cnt id⟩

theorem Bumped.frameL {m m' : Mem α} (h : Bumped m m') (cfg : Cfg) (c : Nat) (r : Region) : FrameL cfg c r m m' :=
  ⟨h.frameG c r, (NoLeak.refl cfg c m).step (fun id hid => by rw [h.buf] at hid; exact hid) (OwnsBlk.congr (by rw [h.ws]))⟩

/-- `grow` threw: the container is exactly as before -/
theorem GrowPost.ofBumped {cfg : Cfg} {Ok : VB → Prop} {c : Nat} {m m' : Mem α} {xs : List α} {w : VB} {needed : Nat} (e : Exc)
    (hv : VRepW cfg Ok c m xs w) (h : Bumped m m') : GrowPost cfg Ok c m xs w needed (.error (.exc e)) m' :=
  ⟨Or.inr ⟨e, rfl, h.vrep hv, h.buf⟩, h.frameL cfg c _⟩

theorem regionOf_blk (cfg : Cfg) (c : Nat) (w : VB) (id : Nat) (h : cfg.ops.begin w = .blk id) : regionOf cfg c w = .blk id := by
  unfold regionOf; rw [h]; rfl

/-- the elements of container `c` have arrived in the fresh block `m.nextId` (count `r`); `V` is what is left of the old
    view (it differs from it at most on the old region of the container, and only by removing or emptying it) -/
theorem GrowPost.finish {cfg : Cfg} {Ok : VB → Prop} {c : Nat} {m m2 : Mem α} {xs : List α} {w w' : VB} {needed r : Nat}
    (V : View α) (hws : m.ws[c]? = some w)
    (hbuf : m2.buf = View.set V (.blk m.nextId) (lives xs ++ raws (r - xs.length)))
    (hV : ∀ r', r' ≠ regionOf cfg c w → V r' = m.buf r')
    (hVsome : ∀ id, (V (.blk id)).isSome → (m.buf (.blk id)).isSome)
    (hVold : ∀ id, regionOf cfg c w = .blk id → 0 < cfg.ops.capacity w → V (.blk id) = none)
    (hcnt : m2.cnt m.nextId = some r)
    (hcntO : ∀ j, Region.blk j ≠ regionOf cfg c w → j < m.nextId → m2.cnt j = m.cnt j)
    (hcat : m2.cat = m.cat) (hws2 : m2.ws = m.ws) (hhr : m2.hasRealloc = m.hasRealloc) (hnid : m2.nextId = m.nextId + 1)
    (hok : Ok w') (hcap : cfg.ops.capacity w' = r) (hsz : cfg.ops.size w' = xs.length) (hbeg : cfg.ops.begin w' = .blk m.nextId)
    (hle : xs.length ≤ r) (hneed : needed ≤ r) (hpos : 0 < r)
    (hinl : cfg.flavour = .small → m2.buf (.inl c) = some (raws cfg.n)) :
    GrowPost cfg Ok c m xs w needed (.ok ()) ({ m2 with ws := m2.ws.set c w' } : Mem α) := by
  have hc : c < m.ws.length := Cross.getElem?_lt hws
  have hreg := regionOf_blk cfg c w' _ hbeg
  refine ⟨Or.inl ⟨rfl, w', ⟨⟨⟨?_, hok, ?_, Or.inr ?_, ?_, ?_⟩, hsz⟩, by rw [hcap]; exact hneed, Or.inr ⟨_, hreg, Nat.le_refl _⟩⟩⟩, ?_⟩
  · simp [hws2, hc]
  · rw [hcap]; simp; omega
  · rw [withWs_buf, hreg, hbuf, View.set_same, hcap]
  · intro id hid _
    rw [hreg] at hid; injection hid with hid; subst hid
    rw [withWs_cnt, hcap]; exact hcnt
  · intro _ hfl; rw [withWs_buf]; exact hinl hfl
  · refine ⟨⟨hcat, hhr, by simp [hws2], fun c' hc' => by simp [hws2, List.getElem?_set_ne (Ne.symm hc')], by rw [hnid]; omega, ?_, ?_,
      fun j hne hlt => (withWs_cnt _ _ _).trans (hcntO j hne hlt)⟩, ?_⟩
    · intro hf id hid
      rw [withWs_buf, hbuf] at hid
      show id < m2.nextId
      rw [hnid]
      by_cases h : id = m.nextId
      · omega
      · rw [View.set_other _ _ _ _ (by intro e; injection e with e; exact h e)] at hid
        exact Nat.lt_succ_of_lt (hf id (hVsome id hid))
    · intro r' hne hold
      rw [withWs_buf, hbuf, View.set_other _ _ _ _ ?_]
      · exact hV r' hne
      · intro e; have := hold _ e; omega
    · -- leak freedom: the fresh block is the container's, every other existing block existed before and is not the
      -- container's old block (which `V` no longer contains)
      intro id hid
      rw [withWs_buf, hbuf] at hid
      have hown' : ∀ j, OwnsBlk cfg c ({ m2 with ws := m2.ws.set c w' } : Mem α) j
          ↔ (regionOf cfg c w' = .blk j ∧ 0 < cfg.ops.capacity w') := OwnsBlk.iff (by simp [hws2, hc])
      by_cases h : id = m.nextId
      · subst h
        exact Or.inr (Or.inr ⟨Nat.le_refl _, (hown' _).mpr ⟨hreg, by rw [hcap]; exact hpos⟩⟩)
      · rw [View.set_other _ _ _ _ (by intro e; injection e with e; exact h e)] at hid
        refine Or.inl ⟨hVsome id hid, ?_, ?_⟩
        · intro ho
          rw [OwnsBlk.iff hws] at ho
          rw [hVold id ho.1 ho.2] at hid; cases hid
        · intro ho
          rw [hown', hreg] at ho
          injection ho.1 with e; exact h e.symm

/-- representation invariant of the words of an `amc::vector`: a heap block (never block 0) of non-zero capacity, or no
    storage at all -/
def DOkP (P : Nat → Prop) (kMax : Nat) (t : VB) : Prop :=
  t.size ≤ t.capa ∧ t.capa ≤ kMax ∧ ((∃ id, t.dyn = .blk id ∧ P id ∧ 0 < t.capa) ∨ (t.dyn = .null ∧ t.capa = 0))

/-- the invariant of the words of an `amc::vector`; the block is never block 0 (the region a null pointer resolves to) -/
def DOk (kMax : Nat) (t : VB) : Prop := DOkP (fun id => 0 < id) kMax t

/-- the same without the "not block 0" conjunct -/
def DOkW (kMax : Nat) (t : VB) : Prop := DOkP (fun _ => True) kMax t

/-- the laws of the generated `StdVectorBase` members -/
structure StdLaws (ops : BaseOps) : Prop where
  size_eq : ∀ t, ops.size t = t.size
  cap_eq : ∀ t, ops.capacity t = t.capa
  begin_eq : ∀ t, ops.begin t = t.dyn
  grow_ok : ∀ t minSize exact fresh r, ops.safeNext t.capa minSize exact = .ok r →
    ops.grow t minSize exact fresh = .ok (⟨r, t.size, PtrV.blk (fresh + 0)⟩, [Eff.realloc t.dyn t.capa r t.size (PtrV.blk (fresh + 0))])
  grow_err : ∀ t minSize exact fresh e, ops.safeNext t.capa minSize exact = .error e → ops.grow t minSize exact fresh = .error e
  safe_sound : ∀ old n exact r, ops.safeNext old n exact = .ok r → (exact = true → n ≤ ops.kMax) → n ≤ r ∧ r ≤ ops.kMax
  incr : ∀ t, t.size ≤ t.capa → t.capa ≤ ops.kMax → t.size < t.capa →
    (ops.incrSize t).size = t.size + 1 ∧ (ops.incrSize t).capa = t.capa ∧ (ops.incrSize t).dyn = t.dyn
  decr : ∀ t, t.size ≤ t.capa → t.capa ≤ ops.kMax → 0 < t.size →
    (ops.decrSize t).size + 1 = t.size ∧ (ops.decrSize t).capa = t.capa ∧ (ops.decrSize t).dyn = t.dyn
  setSize : ∀ t, t.size ≤ t.capa → t.capa ≤ ops.kMax → ∀ s, s ≤ t.capa →
    (ops.setSize t s).size = s ∧ (ops.setSize t s).capa = t.capa ∧ (ops.setSize t s).dyn = t.dyn
  check_ok : ∀ c m, c ≤ m → ops.check c m = .ok []
  check_err : ∀ c m, m < c → ops.check c m = .error .outOfRange

theorem std_sizeLawsP (cfg : Cfg) (L : StdLaws cfg.ops) (P : Nat → Prop) : SizeLaws cfg.ops (DOkP P cfg.ops.kMax) := by
  refine ⟨?_, ?_, ?_, ?_, L.check_ok, L.check_err⟩
  · rintro t ⟨h1, h2, _⟩
    rw [L.size_eq, L.cap_eq]; exact ⟨h1, h2⟩
  · rintro t ⟨h1, h2, h3⟩ hlt
    rw [L.size_eq, L.cap_eq] at hlt
    obtain ⟨e1, e2, e3⟩ := L.incr t h1 h2 hlt
    refine ⟨⟨by omega, by omega, by rw [e2, e3]; exact h3⟩, ?_, ?_, ?_⟩
    · rw [L.size_eq, L.size_eq]; exact e1
    · rw [L.cap_eq, L.cap_eq]; exact e2
    · rw [L.begin_eq, L.begin_eq]; exact e3
  · rintro t ⟨h1, h2, h3⟩ hpos
    rw [L.size_eq] at hpos
    obtain ⟨e1, e2, e3⟩ := L.decr t h1 h2 hpos
    refine ⟨⟨by omega, by omega, by rw [e2, e3]; exact h3⟩, ?_, ?_, ?_⟩
    · rw [L.size_eq, L.size_eq]; exact e1
    · rw [L.cap_eq, L.cap_eq]; exact e2
    · rw [L.begin_eq, L.begin_eq]; exact e3
  · rintro t ⟨h1, h2, h3⟩ s hs
    rw [L.cap_eq] at hs
    obtain ⟨e1, e2, e3⟩ := L.setSize t h1 h2 s hs
    refine ⟨⟨by omega, by omega, by rw [e2, e3]; exact h3⟩, ?_, ?_, ?_⟩
    · rw [L.size_eq]; exact e1
    · rw [L.cap_eq, L.cap_eq]; exact e2
    · rw [L.begin_eq, L.begin_eq]; exact e3


theorem std_sizeLaws (cfg : Cfg) (L : StdLaws cfg.ops) : SizeLaws cfg.ops (DOk cfg.ops.kMax) := std_sizeLawsP cfg L _
theorem std_sizeLawsW (cfg : Cfg) (L : StdLaws cfg.ops) : SizeLaws cfg.ops (DOkW cfg.ops.kMax) := std_sizeLawsP cfg L _

namespace AllocAux
theorem post_then_pure {x : M α Unit} {m : Mem α} {Q : Except Stop Unit → Mem α → Prop} (h : Post x m Q) :
    Post (do x; pure ()) m Q := Post.bind h (fun _ _ h1 => h1) (fun _ _ h1 => h1)
end AllocAux
open AllocAux

theorem std_grow_post (cfg : Cfg) (hfl : cfg.flavour = .std) (L : StdLaws cfg.ops) (P : Nat → Prop)
    (m : Mem α) (c : Nat) (xs : List α) (w : VB) (needed : Nat) (exact : Bool)
    (hv : VRepW cfg (DOkP P cfg.ops.kMax) c m xs w) (hf : Fresh m) (hP : P m.nextId)
    (hlt : cfg.ops.capacity w < needed) (hex : exact = true → needed ≤ cfg.ops.kMax) :
    Post (grow cfg c needed exact) m (GrowPost cfg (DOkP P cfg.ops.kMax) c m xs w needed) := by
  unfold grow
  refine Post.bind (getW_post m c w hv.ws) ?_ (by okerr)
  rintro w0 m0 ⟨hw0, rfl⟩; injection hw0 with hw0; subst hw0
  refine Post.bind (takeFresh_post m0) ?_ (by okerr)
  rintro fr m1 ⟨hfr, rfl⟩; injection hfr with hfr; subst hfr
  have hbm := Bumped.take m0
  generalize ({ m0 with nextId := m0.nextId + 1 } : Mem α) = m1 at hbm ⊢
  cases hsn : cfg.ops.safeNext w0.capa needed exact with
  | error e =>
    rw [L.grow_err _ _ _ _ _ hsn]
    exact GrowPost.ofBumped e hv hbm
  | ok r =>
    rw [L.grow_ok _ _ _ _ _ hsn]
    obtain ⟨hnr, hrk⟩ := L.safe_sound _ _ _ _ hsn hex
    have hsz : w0.size = xs.length := by rw [← L.size_eq]; exact hv.size
    have hle : xs.length ≤ w0.capa := by rw [← L.cap_eq]; exact hv.le
    rw [L.cap_eq] at hlt
    simp only [interpAll, interp, Nat.add_zero, hsz]
    have hwsc : c < m0.ws.length := Cross.getElem?_lt hv.ws
    obtain ⟨_, _, hdyn⟩ := hv.ok
    rcases hdyn with ⟨id, hd, hPid, hpos⟩ | ⟨hd, hc0⟩
    · -- a heap block: reallocate it
      have hreg : regionOf cfg c w0 = .blk id := regionOf_blk cfg c w0 id (by rw [L.begin_eq]; exact hd)
      have hb0 : m0.buf (.blk id) = some (lives xs ++ raws (w0.capa - xs.length)) := by
        rcases hv.buf with h0 | hb
        · rw [L.cap_eq] at h0; omega
        · rw [hreg, L.cap_eq] at hb; exact hb
      have hc0 : m0.cnt id = some w0.capa := by
        have := hv.store.cnt id hreg (by rw [L.cap_eq]; omega)
        rw [L.cap_eq] at this; exact this
      have hne : m0.nextId ≠ id := by
        have := hf id (by rw [hb0]; rfl)
        omega
      rw [hd]
      refine Post.bind (post_then_pure (reallocBlk_post m1 id m0.nextId w0.capa r xs (by rw [hbm.buf]; exact hb0)
        (by rw [hbm.cnt]; exact hc0) hle (by omega) hne)) ?_ ?_
      · rintro _ m2 hq
        rcases hq with ⟨_, hmv⟩ | ⟨he, _⟩
        · refine Post.mono (setW_post m2 c _) ?_
          rintro res m3 ⟨hr, rfl⟩; subst hr
          refine GrowPost.finish (View.unset m0.buf (.blk id)) hv.ws (by rw [hmv.buf, hbm.buf]) ?_ ?_ ?_ hmv.cnt
            (fun j hne hlt => (hmv.cntOther j (fun e => hne (by rw [hreg, e])) (Nat.ne_of_lt hlt)).trans (hbm.cnt j))
            (hmv.keep.cat.trans hbm.cat) (hmv.keep.ws.trans hbm.ws) (hmv.keep.hr.trans hbm.hr) (hmv.keep.nid.trans hbm.nid)
            ⟨by show xs.length ≤ r; omega, hrk, Or.inl ⟨_, rfl, hP, by show 0 < r; omega⟩⟩
            (by rw [L.cap_eq]) (by rw [L.size_eq]) (by rw [L.begin_eq]) (by omega) hnr (by omega) (fun h => by rw [hfl] at h; cases h)
          · intro r' hr'; rw [hreg] at hr'; exact View.unset_other _ _ _ hr'
          · intro j hj
            by_cases h : j = id
            · subst h; rw [View.unset_same] at hj; cases hj
            · rwa [View.unset_other _ _ _ (by intro e; injection e with e; exact h e)] at hj
          · intro j hj _
            rw [hreg] at hj; injection hj with hj; subst hj
            exact View.unset_same _ _
        · cases he
      · rintro e m2 hq
        rcases hq with ⟨he, _⟩ | ⟨he, hs⟩
        · cases he
        · injection he with he; subst he
          exact GrowPost.ofBumped _ hv (hbm.same hs)
    · -- no storage yet: a plain allocation
      have hx : xs = [] := List.eq_nil_of_length_eq_zero (by omega)
      subst hx
      rw [hd, hc0]
      refine Post.bind (post_then_pure (reallocNull_post m1 r m0.nextId)) ?_ ?_
      · rintro _ m2 hq
        rcases hq with ⟨_, hal⟩ | ⟨he, _⟩
        · refine Post.mono (setW_post m2 c _) ?_
          rintro res m3 ⟨hr, rfl⟩; subst hr
          refine GrowPost.finish m0.buf hv.ws (by rw [hal.buf, hbm.buf]; simp [lives]) (fun _ _ => rfl) (fun _ h => h)
            (fun _ _ hp => by rw [L.cap_eq] at hp; omega) hal.cnt
            (fun j _ hlt => (hal.cntOther j (Nat.ne_of_lt hlt)).trans (hbm.cnt j))
            (hal.keep.cat.trans hbm.cat) (hal.keep.ws.trans hbm.ws) (hal.keep.hr.trans hbm.hr) (hal.keep.nid.trans hbm.nid)
            ⟨by show 0 ≤ r; omega, hrk, Or.inl ⟨_, rfl, hP, by show 0 < r; omega⟩⟩
            (by rw [L.cap_eq]) (by rw [L.size_eq]) (by rw [L.begin_eq]) (by simp) hnr (by omega) (fun h => by rw [hfl] at h; cases h)
        · cases he
      · rintro e m2 hq
        rcases hq with ⟨he, _⟩ | ⟨he, hs⟩
        · cases he
        · injection he with he; subst he
          exact GrowPost.ofBumped _ hv (hbm.same hs)

/-- `GrowSpec` restricted to memories whose next block identifier is not 0 (block 0 is what a null pointer resolves to; the
    initial memory has `nextId = 1` and `nextId` never decreases, see `FrameG.nid`) -/
def GrowSpecPos (α : Type) (cfg : Cfg) (Ok : VB → Prop) : Prop :=
  cfg.dynamic = true → ∀ (m : Mem α) (c : Nat) (xs : List α) (w : VB) (needed : Nat) (exact : Bool),
    VRepW cfg Ok c m xs w → Fresh m → 0 < m.nextId → cfg.ops.capacity w < needed → (exact = true → needed ≤ cfg.ops.kMax) →
    Post (grow cfg c needed exact) m (GrowPost cfg Ok c m xs w needed)

theorem GrowSpec.toPos {cfg : Cfg} {Ok : VB → Prop} (h : GrowSpec α cfg Ok) : GrowSpecPos α cfg Ok :=
  fun hd m c xs w needed exact hv hf _ hlt hex => h hd m c xs w needed exact hv hf hlt hex

/-- growth guarantee of `amc::vector` -/
theorem std_growSpec (cfg : Cfg) (hfl : cfg.flavour = .std) (L : StdLaws cfg.ops) : GrowSpecPos α cfg (DOk cfg.ops.kMax) :=
  fun _ m c xs w needed exact hv hf hpos hlt hex => std_grow_post cfg hfl L _ m c xs w needed exact hv hf hpos hlt hex

/-- growth guarantee of `amc::vector` for the invariant without the "not block 0" conjunct: no side condition on `nextId` -/
theorem std_growSpecW (cfg : Cfg) (hfl : cfg.flavour = .std) (L : StdLaws cfg.ops) : GrowSpec α cfg (DOkW cfg.ops.kMax) :=
  fun _ m c xs w needed exact hv hf hlt hex => std_grow_post cfg hfl L _ m c xs w needed exact hv hf trivial hlt hex

/- =================================================================================================================
   Part 3 (GrowSmall): the growth guarantee of SmallVector
   ================================================================================================================= -/

namespace AllocAux
theorem getBuf_post (m : Mem α) (r : Region) (b : List (Slot α)) (h : m.buf r = some b) :
    Post (getBuf r) m (fun res m' => res = .ok b ∧ m' = m) := by
  unfold Post; rw [getBuf_run m r b h]; exact ⟨rfl, rfl⟩
end AllocAux
open AllocAux

/-- the `setDyn` effect: the inline storage overlaid by the pointer must not hold objects -/
theorem setDyn_post (m : Mem α) (c0 c1 : Nat) (b : List (Slot α)) (hb : m.buf (.inl c0) = some b)
    (hraw : (∀ s ∈ b, s = .raw) ∨ m.cat = .tc) :
    Post (interp c0 c1 (.setDyn 0)) m (fun res m' => res = .ok () ∧ m' = m) := by
  simp only [interp, ↓reduceIte]
  refine Post.bind (getBuf_post m _ b hb) ?_ (by okerr)
  rintro b' m1 ⟨hb', rfl⟩
  injection hb' with hb'; subst hb'
  refine Post.bind (isTC_post m1) ?_ (by okerr)
  rintro t m2 ⟨ht, rfl⟩
  injection ht with ht; subst ht
  split
  · exact ⟨rfl, rfl⟩
  · rename_i hn
    exfalso; apply hn
    rcases hraw with hraw | hraw
    · rw [Bool.or_eq_true]; right
      rw [List.all_eq_true]
      intro s hs; rw [hraw s hs]
    · rw [hraw]; rfl

/-- representation invariant of the words of a `SmallVector`: the word invariant `SRep`, and in heap state a heap block
    (`P` of its identifier) of non-zero capacity, or no storage at all -/
def SOkP (P : Nat → Prop) (ops : BaseOps) (N : Nat) (t : VB) : Prop :=
  SRep N ops.kMax t ∧
    (ops.isSmall t = false → (∃ id, t.dyn = .blk id ∧ P id ∧ 0 < ops.capacity t) ∨ (t.dyn = .null ∧ ops.capacity t = 0))

def SOk (ops : BaseOps) (N : Nat) (t : VB) : Prop := SOkP (fun id => 0 < id) ops N t
def SOkW (ops : BaseOps) (N : Nat) (t : VB) : Prop := SOkP (fun _ => True) ops N t

theorem SOkP.transfer {P : Nat → Prop} {ops : BaseOps} {N : Nat} (L : SmallLaws ops N) {t t' : VB} (h : SOkP P ops N t)
    (hrep : SRep N ops.kMax t') (hsm : ops.isSmall t' = ops.isSmall t) (hdyn : t'.dyn = t.dyn)
    (hcap : ops.capacity t' = ops.capacity t) : SOkP P ops N t' ∧ ops.begin t' = ops.begin t := by
  refine ⟨⟨hrep, ?_⟩, ?_⟩
  · intro hf
    rw [hsm] at hf
    rw [hdyn, hcap]; exact h.2 hf
  · rw [L.begin_small, L.begin_small, hsm, hdyn]

theorem small_sizeLawsP (cfg : Cfg) (L : SmallLaws cfg.ops cfg.n) (P : Nat → Prop)
    (hck : ∀ c m, c ≤ m → cfg.ops.check c m = .ok []) (hce : ∀ c m, m < c → cfg.ops.check c m = .error .outOfRange) :
    SizeLaws cfg.ops (SOkP P cfg.ops cfg.n) := by
  refine ⟨?_, ?_, ?_, ?_, hck, hce⟩
  · intro t h
    have := L.bounds t h.1
    exact ⟨this.1, this.2.1⟩
  · intro t h hlt
    obtain ⟨e0, e1, e2, e3, e4⟩ := L.incr t h.1 hlt
    have := h.transfer L e0 e3 e4 e2
    exact ⟨this.1, e1, e2, this.2⟩
  · intro t h hpos
    obtain ⟨e0, e1, e2, e3, e4⟩ := L.decr t h.1 hpos
    have := h.transfer L e0 e3 e4 e2
    exact ⟨this.1, e1, e2, this.2⟩
  · intro t h s hs
    obtain ⟨e0, e1, e2, e3, e4⟩ := L.setSize t h.1 s hs
    have := h.transfer L e0 e3 e4 e2
    exact ⟨this.1, e1, e2, this.2⟩

theorem small_sizeLaws (cfg : Cfg) (L : SmallLaws cfg.ops cfg.n)
    (hck : ∀ c m, c ≤ m → cfg.ops.check c m = .ok []) (hce : ∀ c m, m < c → cfg.ops.check c m = .error .outOfRange) :
    SizeLaws cfg.ops (SOk cfg.ops cfg.n) := small_sizeLawsP cfg L _ hck hce

theorem small_sizeLawsW (cfg : Cfg) (L : SmallLaws cfg.ops cfg.n)
    (hck : ∀ c m, c ≤ m → cfg.ops.check c m = .ok []) (hce : ∀ c m, m < c → cfg.ops.check c m = .error .outOfRange) :
    SizeLaws cfg.ops (SOkW cfg.ops cfg.n) := small_sizeLawsP cfg L _ hck hce

namespace AllocAux
theorem interp_alloc (c0 c1 n id : Nat) : (interp c0 c1 (.alloc n (.blk id)) : M α Unit) = allocBlock n id := rfl
theorem interp_relocN (c0 c1 : Nat) (s d : PtrV) (n : Nat) :
    (interp c0 c1 (.relocN s n d) : M α Unit) = uninitRelocN (resolve c0 c1 s) n (resolve c0 c1 d) := rfl
theorem interp_realloc (c0 c1 : Nat) (p res : PtrV) (old new live : Nat) :
    (interp c0 c1 (.realloc p old new live res) : M α Unit) = reallocBlock p old new live res := rfl
end AllocAux
open AllocAux

/-- the effects of `grow` have moved the elements to the fresh block (or `bad_alloc` and nothing changed): commit the words -/
theorem grow_commit {cfg : Cfg} {Ok : VB → Prop} {c : Nat} {m0 m1 : Mem α} {xs : List α} {w w' : VB} {needed r : Nat}
    (V : View α) (effs : M α Unit) (hv : VRepW cfg Ok c m0 xs w) (hbm : Bumped m0 m1)
    (heff : Post effs m1 (fun res m3 =>
      (res = .ok () ∧ m3.buf = View.set V (.blk m0.nextId) (lives xs ++ raws (r - xs.length)) ∧ m3.cnt m0.nextId = some r
          ∧ (∀ j, Region.blk j ≠ regionOf cfg c w → j < m0.nextId → m3.cnt j = m0.cnt j)
          ∧ KeepA m1 m3 ∧ (cfg.flavour = .small → m3.buf (.inl c) = some (raws cfg.n)))
        ∨ (res = .error (.exc .badAlloc) ∧ Same m1 m3)))
    (hV : ∀ r', r' ≠ regionOf cfg c w → V r' = m0.buf r')
    (hVsome : ∀ id, (V (.blk id)).isSome → (m0.buf (.blk id)).isSome)
    (hVold : ∀ id, regionOf cfg c w = .blk id → 0 < cfg.ops.capacity w → V (.blk id) = none)
    (hok : Ok w') (hcap : cfg.ops.capacity w' = r) (hsz : cfg.ops.size w' = xs.length) (hbeg : cfg.ops.begin w' = .blk m0.nextId)
    (hle : xs.length ≤ r) (hneed : needed ≤ r) (hpos : 0 < r) :
    Post (do effs; setW c w') m1 (GrowPost cfg Ok c m0 xs w needed) := by
  refine Post.bind heff ?_ ?_
  · rintro _ m3 hq
    rcases hq with ⟨_, hb3, hc3, hco3, hk3, hi3⟩ | ⟨he, _⟩
    · refine Post.mono (setW_post m3 c _) ?_
      rintro res m4 ⟨hr, rfl⟩; subst hr
      exact GrowPost.finish V hv.ws hb3 hV hVsome hVold hc3 hco3 (hk3.cat.trans hbm.cat) (hk3.ws.trans hbm.ws) (hk3.hr.trans hbm.hr)
        (hk3.nid.trans hbm.nid) hok hcap hsz hbeg hle hneed hpos hi3
    · cases he
  · rintro e m3 hq
    rcases hq with ⟨he, _⟩ | ⟨he, hs⟩
    · cases he
    · injection he with he; subst he
      exact GrowPost.ofBumped _ hv (hbm.same hs)

theorem small_grow_post (cfg : Cfg) (hfl : cfg.flavour = .small) (L : SmallLaws cfg.ops cfg.n)
    (hs : ∀ old n exact r, cfg.ops.safeNext old n exact = .ok r → (exact = true → n ≤ cfg.ops.kMax) → n ≤ r ∧ r ≤ cfg.ops.kMax)
    (P : Nat → Prop) (m : Mem α) (c : Nat) (xs : List α) (w : VB) (needed : Nat) (exact : Bool)
    (hv : VRepW cfg (SOkP P cfg.ops cfg.n) c m xs w) (hf : Fresh m) (hP : P m.nextId)
    (hlt : cfg.ops.capacity w < needed) (hex : exact = true → needed ≤ cfg.ops.kMax) :
    Post (grow cfg c needed exact) m (GrowPost cfg (SOkP P cfg.ops cfg.n) c m xs w needed) := by
  unfold grow
  refine Post.bind (getW_post m c w hv.ws) ?_ (by okerr)
  rintro w0 m0 ⟨hw0, rfl⟩; injection hw0 with hw0; subst hw0
  refine Post.bind (takeFresh_post m0) ?_ (by okerr)
  rintro fr m1 ⟨hfr, rfl⟩; injection hfr with hfr; subst hfr
  have hbm := Bumped.take m0
  generalize ({ m0 with nextId := m0.nextId + 1 } : Mem α) = m1 at hbm ⊢
  cases hsn : cfg.ops.safeNext (cfg.ops.capacity w0) needed exact with
  | error e =>
    rw [L.growErr _ _ _ _ _ hsn]
    exact GrowPost.ofBumped e hv hbm
  | ok r =>
    rw [L.growOk w0 hv.ok.1 _ _ _ _ hsn]
    obtain ⟨hnr, hrk⟩ := hs _ _ _ _ hsn hex
    have hsz : cfg.ops.size w0 = xs.length := hv.size
    have hle := hv.le
    obtain ⟨hrep', hsz', hcap', hsm'⟩ := L.grownRep xs.length r (PtrV.blk m0.nextId) (by omega) hrk
    have hbeg' : cfg.ops.begin ⟨r, xs.length, .blk m0.nextId⟩ = .blk m0.nextId := by rw [L.begin_small, hsm']; rfl
    have hok' : SOkP P cfg.ops cfg.n ⟨r, xs.length, .blk m0.nextId⟩ :=
      ⟨hrep', fun _ => Or.inl ⟨_, rfl, hP, by rw [hcap']; omega⟩⟩
    cases hsm : cfg.ops.isSmall w0 with
    | true =>
      simp only [growEffs, ↓reduceIte, interpAll, interp_alloc, interp_relocN, resolve, Nat.add_zero, hsz]
      -- inline state: allocate, relocate out of the inline storage, overlay the pointer
      have hN : cfg.ops.capacity w0 = cfg.n := (L.bounds w0 hv.ok.1).2.2 hsm
      have hreg : regionOf cfg c w0 = .inl c := by unfold regionOf; rw [L.begin_small, hsm]; rfl
      have hb0 : m0.buf (.inl c) = some (lives xs ++ raws (cfg.n - xs.length)) := by
        rcases hv.buf with h0 | hb
        · have := L.npos; omega
        · rw [hreg, hN] at hb; exact hb
      rw [hN] at hle
      have hner : Region.inl c ≠ Region.blk m0.nextId := by intro h; cases h
      refine grow_commit (View.set m0.buf (.inl c) (raws cfg.n)) _ hv hbm ?_ ?_ ?_ ?_ hok' hcap' hsz' hbeg' (by omega) hnr (by omega)
      · refine Post.bind (allocBlock_post m1 r m0.nextId) ?_ ?_
        · rintro _ m2 hq
          rcases hq with ⟨_, ha⟩ | ⟨he, _⟩
          · have h2 : m2.buf (.inl c) = some ([] ++ lives xs ++ raws (cfg.n - xs.length)) := by
              rw [ha.buf, View.set_other _ _ _ _ hner, hbm.buf]; simpa using hb0
            have h2' : m2.buf (.blk m0.nextId) = some ([] ++ raws xs.length ++ raws (r - xs.length)) := by
              rw [ha.buf, View.set_same, List.nil_append, raws_append]; congr 2; omega
            refine Post.bind (relocAcross_post m2 (.inl c) (.blk m0.nextId) hner [] _ [] _ xs h2 h2') ?_ (by okerr)
            rintro _ m3 ⟨_, hk3, hb3⟩
            have hrawsN : ([] ++ raws xs.length ++ raws (cfg.n - xs.length) : List (Slot α)) = raws cfg.n := by
              rw [List.nil_append, raws_append]; congr 1; omega
            rw [hrawsN] at hb3
            have h3 : m3.buf (.inl c) = some (raws cfg.n) := by
              rw [hb3, View.set_other _ _ _ _ hner, View.set_same]
            refine Post.bind (setDyn_post m3 c c _ h3 (Or.inl (fun s hs => List.eq_of_mem_replicate hs))) ?_ (by okerr)
            rintro _ m4 ⟨_, rfl⟩
            refine Post.pure (Or.inl ⟨rfl, ?_, ?_,
              fun j _ hlt => by rw [hk3.cnt, ha.cntOther j (Nat.ne_of_lt hlt), hbm.cnt], ha.keep.trans hk3.toA, fun _ => h3⟩)
            · rw [hb3, ha.buf, hbm.buf]
              funext r'
              by_cases h1 : r' = .blk m0.nextId
              · subst h1; simp [View.set]
              · by_cases h2 : r' = .inl c
                · subst h2; simp [View.set]
                · simp [View.set, h1, h2]
            · rw [hk3.cnt]; exact ha.cnt
          · cases he
        · rintro e m2 hq
          rcases hq with ⟨he, _⟩ | ⟨he, hs2⟩
          · cases he
          · exact Or.inr ⟨he, hs2⟩
      · intro r' hr'; rw [hreg] at hr'; exact View.set_other _ _ _ _ hr'
      · intro j hj; rwa [View.set_other _ _ _ _ (by intro e; cases e)] at hj
      · intro j hj _; rw [hreg] at hj; cases hj
    | false =>
      simp only [growEffs, Bool.false_eq_true, ↓reduceIte, interpAll, interp_realloc, Nat.add_zero, hsz]
      -- heap state: reallocate; the inline storage is already empty
      have hbeg0 : cfg.ops.begin w0 = w0.dyn := by rw [L.begin_small, hsm]; rfl
      rcases hv.ok.2 hsm with ⟨id, hd, hPid, hpos⟩ | ⟨hd, hc0⟩
      · have hreg : regionOf cfg c w0 = .blk id := regionOf_blk cfg c w0 id (by rw [hbeg0]; exact hd)
        have hinl0 : m0.buf (.inl c) = some (raws cfg.n) := hv.store.inl (by rw [hreg]; intro h; cases h) hfl
        have hb0 : m0.buf (.blk id) = some (lives xs ++ raws (cfg.ops.capacity w0 - xs.length)) := by
          rcases hv.buf with h0 | hb
          · omega
          · rw [hreg] at hb; exact hb
        have hc0 : m0.cnt id = some (cfg.ops.capacity w0) := hv.store.cnt id hreg (by omega)
        have hne : m0.nextId ≠ id := by
          have := hf id (by rw [hb0]; rfl)
          omega
        rw [hd]
        refine grow_commit (View.unset m0.buf (.blk id)) _ hv hbm ?_ ?_ ?_ ?_ hok' hcap' hsz' hbeg' (by omega) hnr (by omega)
        · refine Post.bind (reallocBlk_post m1 id m0.nextId (cfg.ops.capacity w0) r xs (by rw [hbm.buf]; exact hb0)
            (by rw [hbm.cnt]; exact hc0) hle (by omega) hne) ?_ ?_
          · rintro _ m2 hq
            rcases hq with ⟨_, hmv⟩ | ⟨he, _⟩
            · have h2 : m2.buf (.inl c) = some (raws cfg.n) := by
                rw [hmv.buf, View.set_other _ _ _ _ (by intro e; cases e), View.unset_other _ _ _ (by intro e; cases e), hbm.buf]
                exact hinl0
              refine Post.bind (setDyn_post m2 c c _ h2 (Or.inl (fun s hs => List.eq_of_mem_replicate hs))) ?_ (by okerr)
              rintro _ m3 ⟨_, rfl⟩
              exact Post.pure (Or.inl ⟨rfl, by rw [hmv.buf, hbm.buf], hmv.cnt,
                fun j hne hlt => (hmv.cntOther j (fun e => hne (by rw [hreg, e])) (Nat.ne_of_lt hlt)).trans (hbm.cnt j),
                hmv.keep, fun _ => h2⟩)
            · cases he
          · rintro e m2 hq
            rcases hq with ⟨he, _⟩ | ⟨he, hs2⟩
            · cases he
            · exact Or.inr ⟨he, hs2⟩
        · intro r' hr'; rw [hreg] at hr'; exact View.unset_other _ _ _ hr'
        · intro j hj
          by_cases h : j = id
          · subst h; rw [View.unset_same] at hj; cases hj
          · rwa [View.unset_other _ _ _ (by intro e; injection e with e; exact h e)] at hj
        · intro j hj _
          rw [hreg] at hj; injection hj with hj; subst hj
          exact View.unset_same _ _
      · have hx : xs = [] := List.eq_nil_of_length_eq_zero (by omega)
        subst hx
        have hreg : regionOf cfg c w0 = .blk 0 := by unfold regionOf; rw [hbeg0, hd]; rfl
        have hinl0 : m0.buf (.inl c) = some (raws cfg.n) := hv.store.inl (by rw [hreg]; intro h; cases h) hfl
        rw [hd, hc0]
        refine grow_commit m0.buf _ hv hbm ?_ (fun _ _ => rfl) (fun _ h => h) (fun _ _ hp => by omega) hok' hcap' hsz' hbeg' (by simp) hnr
          (by omega)
        refine Post.bind (reallocNull_post m1 r m0.nextId) ?_ ?_
        · rintro _ m2 hq
          rcases hq with ⟨_, hal⟩ | ⟨he, _⟩
          · have h2 : m2.buf (.inl c) = some (raws cfg.n) := by
              rw [hal.buf, View.set_other _ _ _ _ (by intro e; cases e), hbm.buf]
              exact hinl0
            refine Post.bind (setDyn_post m2 c c _ h2 (Or.inl (fun s hs => List.eq_of_mem_replicate hs))) ?_ (by okerr)
            rintro _ m3 ⟨_, rfl⟩
            exact Post.pure (Or.inl ⟨rfl, by rw [hal.buf, hbm.buf]; simp [lives], hal.cnt,
              fun j _ hlt => (hal.cntOther j (Nat.ne_of_lt hlt)).trans (hbm.cnt j), hal.keep, fun _ => h2⟩)
          · cases he
        · rintro e m2 hq
          rcases hq with ⟨he, _⟩ | ⟨he, hs2⟩
          · cases he
          · exact Or.inr ⟨he, hs2⟩

/-- growth guarantee of `SmallVector` -/
theorem small_growSpec (cfg : Cfg) (hfl : cfg.flavour = .small) (L : SmallLaws cfg.ops cfg.n)
    (hs : ∀ old n exact r, cfg.ops.safeNext old n exact = .ok r → (exact = true → n ≤ cfg.ops.kMax) → n ≤ r ∧ r ≤ cfg.ops.kMax) :
    GrowSpecPos α cfg (SOk cfg.ops cfg.n) :=
  fun _ m c xs w needed exact hv hf hpos hlt hex => small_grow_post cfg hfl L hs _ m c xs w needed exact hv hf hpos hlt hex

/-- growth guarantee of `SmallVector` for the invariant without the "not block 0" conjunct: no side condition on `nextId` -/
theorem small_growSpecW (cfg : Cfg) (hfl : cfg.flavour = .small) (L : SmallLaws cfg.ops cfg.n)
    (hs : ∀ old n exact r, cfg.ops.safeNext old n exact = .ok r → (exact = true → n ≤ cfg.ops.kMax) → n ≤ r ∧ r ≤ cfg.ops.kMax) :
    GrowSpec α cfg (SOkW cfg.ops cfg.n) :=
  fun _ m c xs w needed exact hv hf hlt hex => small_grow_post cfg hfl L hs _ m c xs w needed exact hv hf trivial hlt hex

/-- the full law package of the two dynamic flavours, for the invariants without the "not block 0" conjunct -/
theorem std_vecLawsW (cfg : Cfg) (hfl : cfg.flavour = .std) (L : StdLaws cfg.ops) : VecLaws α cfg (DOkW cfg.ops.kMax) :=
  ⟨std_sizeLawsW cfg L, std_growSpecW cfg hfl L, fun h => by simp [Cfg.dynamic, hfl] at h⟩

theorem small_vecLawsW (cfg : Cfg) (hfl : cfg.flavour = .small) (L : SmallLaws cfg.ops cfg.n)
    (hs : ∀ old n exact r, cfg.ops.safeNext old n exact = .ok r → (exact = true → n ≤ cfg.ops.kMax) → n ≤ r ∧ r ≤ cfg.ops.kMax)
    (hck : ∀ c m, c ≤ m → cfg.ops.check c m = .ok []) (hce : ∀ c m, m < c → cfg.ops.check c m = .error .outOfRange) :
    VecLaws α cfg (SOkW cfg.ops cfg.n) :=
  ⟨small_sizeLawsW cfg L hck hce, small_growSpecW cfg hfl L hs, fun h => by simp [Cfg.dynamic, hfl] at h⟩

end AmcVerif
