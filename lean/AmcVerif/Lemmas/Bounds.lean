import AmcVerif.Model.Sets
import AmcVerif.Lemmas.Hint
/-! Binary-search lemmas: libstdc++'s `lower_bound` halving loop (as modelled step by step in `Model/Sets.lean`)
finds the specification's lower bound on a sorted list, and uses at most `k` comparator calls on fewer than `2^k`
elements. Consequences for `find`, `insert`, `erase(key)`, hinted insertion and the inline SmallSet scan. -/
namespace AmcVerif.Sets
open AmcVerif.FS
variable {α : Type} {lt : α → α → Bool}

/-- comparator calls of the halving loop: at most `k` on fewer than `2^k` elements -/
theorem lowerBound_count (lt : α → α → Bool) (l : List α) (v : α) (k : Nat) :
    ∀ first len, len < 2 ^ k → (lowerBound lt l v first len).2 ≤ k := by
  induction k with
  | zero => intro first len h; have : len = 0 := by omega
            subst this; simp [lowerBound]
  | succ k ih =>
    intro first len h
    cases len with
    | zero => simp [lowerBound]
    | succ n =>
      rw [lowerBound]
      simp only
      split
      · split
        · have := ih (first + (n+1)/2 + 1) (n + 1 - (n+1)/2 - 1) (by rw [Nat.pow_succ] at h; omega)
          simp; omega
        · have := ih first ((n+1)/2) (by rw [Nat.pow_succ] at h; omega)
          simp; omega
      · simp

theorem upperBound_count (lt : α → α → Bool) (l : List α) (v : α) (k : Nat) :
    ∀ first len, len < 2 ^ k → (upperBound lt l v first len).2 ≤ k := by
  induction k with
  | zero => intro first len h; have : len = 0 := by omega
            subst this; simp [upperBound]
  | succ k ih =>
    intro first len h
    cases len with
    | zero => simp [upperBound]
    | succ n =>
      rw [upperBound]
      simp only
      split
      · split
        · have := ih first ((n+1)/2) (by rw [Nat.pow_succ] at h; omega)
          simp; omega
        · have := ih (first + (n+1)/2 + 1) (n + 1 - (n+1)/2 - 1) (by rw [Nat.pow_succ] at h; omega)
          simp; omega
      · simp

/-- the halving loop on `[first, first+len)` of a sorted list returns the partition point of that window -/
theorem lowerBound_spec (hswo : SWO lt) (l : List α) (hs : Sorted lt l) (v : α) (k : Nat) :
    ∀ first len, len ≤ k → first + len ≤ l.length →
      first ≤ (lowerBound lt l v first len).1 ∧ (lowerBound lt l v first len).1 ≤ first + len
      ∧ (∀ j x, first ≤ j → j < (lowerBound lt l v first len).1 → l[j]? = some x → lt x v = true)
      ∧ (∀ x, (lowerBound lt l v first len).1 < first + len → l[(lowerBound lt l v first len).1]? = some x → lt x v = false) := by
  induction k with
  | zero =>
    intro first len hk _
    have : len = 0 := by omega
    subst this
    simp only [lowerBound]
    exact ⟨Nat.le_refl _, by omega, fun j x h1 h2 => by omega, fun x h => by omega⟩
  | succ k ih =>
    intro first len hk hlen
    cases len with
    | zero =>
      simp only [lowerBound]
      exact ⟨Nat.le_refl _, by omega, fun j x h1 h2 => by omega, fun x h => by omega⟩
    | succ n =>
      rw [lowerBound]
      simp only
      have hmid : first + (n+1)/2 < l.length := by omega
      have hm : l[first + (n+1)/2]? = some (l[first + (n+1)/2]'hmid) := List.getElem?_eq_getElem hmid
      rw [hm]
      simp only
      split
      · -- *mid < v : continue in the right half
        rename_i hlt
        have r := ih (first + (n+1)/2 + 1) (n + 1 - (n+1)/2 - 1) (by omega) (by omega)
        simp only
        refine ⟨by omega, by omega, ?_, ?_⟩
        · intro j x hj1 hj2 hx
          by_cases hjm : j ≤ first + (n+1)/2
          · by_cases hje : j = first + (n+1)/2
            · subst hje; rw [hm] at hx; cases hx; exact hlt
            · exact hswo.trans _ _ _ (sorted_get hs (by omega) hx hm) hlt
          · exact r.2.2.1 j x (by omega) hj2 hx
        · intro x hi hx
          exact r.2.2.2 x (by omega) hx
      · -- !(*mid < v) : continue in the left half
        rename_i hnlt
        have hnlt' : lt (l[first + (n+1)/2]'hmid) v = false := by simpa using hnlt
        have r := ih first ((n+1)/2) (by omega) (by omega)
        simp only
        refine ⟨r.1, by omega, r.2.2.1, ?_⟩
        intro x hi hx
        by_cases hlt' : (lowerBound lt l v first ((n+1)/2)).1 < first + (n+1)/2
        · exact r.2.2.2 x hlt' hx
        · have : (lowerBound lt l v first ((n+1)/2)).1 = first + (n+1)/2 := by omega
          rw [this, hm] at hx; cases hx; exact hnlt'

/-- on a sorted list the halving loop over the whole list computes the specification's lower bound -/
theorem lowerBound_eq_lowerIdx (hswo : SWO lt) (l : List α) (hs : Sorted lt l) (v : α) :
    (lowerBound lt l v 0 l.length).1 = lowerIdx lt l v := by
  have r := lowerBound_spec hswo l hs v l.length 0 l.length (Nat.le_refl _) (by omega)
  symm
  apply lowerIdx_eq l v _ (fun j x hj hx => r.2.2.1 j x (by omega) hj hx) (by omega)
  intro x hx
  by_cases h : (lowerBound lt l v 0 l.length).1 < 0 + l.length
  · exact r.2.2.2 x h hx
  · have : l.length ≤ (lowerBound lt l v 0 l.length).1 := by omega
    rw [List.getElem?_eq_none this] at hx; cases hx

/-- the counted `insert_val` computes the specification's `insertVal` -/
theorem insertValC_eq (hswo : SWO lt) (l : List α) (hs : Sorted lt l) (v : α) :
    ((insertValC lt l v).1, (insertValC lt l v).2.1, (insertValC lt l v).2.2.1) = insertVal lt l v := by
  unfold insertValC insertVal
  have h := lowerBound_eq_lowerIdx hswo l hs v
  generalize hlb : lowerBound lt l v 0 l.length = p at h
  obtain ⟨i, c⟩ := p
  simp only at h
  subst h
  simp only
  split
  · split <;> simp_all
  · simp_all

/-- comparator calls of find / insert / erase(key) on `n < 2^k` elements: at most `k + 1` -/
theorem findC_count (lt : α → α → Bool) (l : List α) (v : α) (k : Nat) (h : l.length < 2 ^ k) :
    (findC lt l v).2 ≤ k + 1 := by
  unfold findC
  have := lowerBound_count lt l v k 0 l.length h
  generalize lowerBound lt l v 0 l.length = p at this
  obtain ⟨i, c⟩ := p
  simp only at this ⊢
  split
  · split <;> simp <;> omega
  · simp; omega

theorem insertValC_count (lt : α → α → Bool) (l : List α) (v : α) (k : Nat) (h : l.length < 2 ^ k) :
    (insertValC lt l v).2.2.2 ≤ k + 1 := by
  unfold insertValC
  have := lowerBound_count lt l v k 0 l.length h
  generalize lowerBound lt l v 0 l.length = p at this
  obtain ⟨i, c⟩ := p
  simp only at this ⊢
  split
  · split <;> simp <;> omega
  · simp; omega

theorem eraseKey_count (lt : α → α → Bool) (l : List α) (v : α) (k : Nat) (h : l.length < 2 ^ k) :
    (eraseKey lt l v).2.2 ≤ k + 1 := by
  unfold eraseKey
  have := findC_count lt l v k h
  generalize findC lt l v = p at this
  obtain ⟨i, c⟩ := p
  cases i <;> simpa using this

/-- the inline SmallSet scan: at most two comparator calls per inline element -/
theorem findSmall_count (lt : α → α → Bool) (vec : List α) (k : α) : ∀ i, (findSmall lt vec k i).2 ≤ 2 * vec.length := by
  induction vec with
  | nil => intro i; simp [findSmall]
  | cons o rest ih =>
    intro i
    simp only [findSmall]
    split
    · have := ih (i + 1); simp only [List.length_cons]; omega
    · split
      · have := ih (i + 1); simp only [List.length_cons]; omega
      · simp only [List.length_cons]; omega

end AmcVerif.Sets
