import AmcVerif.Lemmas.SlotLemmas
/-! A small program logic for the model monad: `Post p m Q` says that running `p` on memory `m` ends in an outcome and a
memory satisfying `Q`; rules for bind / tryCatch / pure / throw; the *view* of a memory (region ↦ buffer) and the
specifications of the element primitives of `Prim/Slot.lean` in terms of views. -/
namespace AmcVerif
variable {α β γ : Type}

theorem runM_bind (x : M α β) (f : β → M α γ) (m : Mem α) :
    runM (x >>= f) m = match runM x m with
      | (.ok a, m1) => runM (f a) m1
      | (.error e, m1) => (.error e, m1) := by
  simp only [runM, ExceptT.run, bind, ExceptT.bind, ExceptT.mk, ExceptT.bindCont, StateT.bind, StateT.run]
  cases h : x m with
  | mk r m1 => cases r <;> rfl

theorem runM_pure (a : β) (m : Mem α) : runM (pure a : M α β) m = (.ok a, m) := rfl
theorem runM_throw (e : Stop) (m : Mem α) : runM (throw e : M α β) m = (.error e, m) := rfl

theorem runM_tryCatch (x : M α β) (h : Stop → M α β) (m : Mem α) :
    runM (tryCatch x h) m = match runM x m with
      | (.ok a, m1) => (.ok a, m1)
      | (.error e, m1) => runM (h e) m1 := by
  simp only [runM, ExceptT.run, tryCatch, tryCatchThe, MonadExceptOf.tryCatch, ExceptT.tryCatch, ExceptT.mk, bind, StateT.bind, StateT.run]
  cases h' : x m with
  | mk r m1 => cases r <;> rfl

/-- total-correctness triple on one initial memory -/
def Post (p : M α β) (m : Mem α) (Q : Except Stop β → Mem α → Prop) : Prop := Q (runM p m).1 (runM p m).2

theorem Post.bind {x : M α β} {f : β → M α γ} {m : Mem α} {Q1 : Except Stop β → Mem α → Prop} {Q : Except Stop γ → Mem α → Prop}
    (h1 : Post x m Q1) (hok : ∀ a m1, Q1 (.ok a) m1 → Post (f a) m1 Q) (herr : ∀ e m1, Q1 (.error e) m1 → Q (.error e) m1) :
    Post (x >>= f) m Q := by
  unfold Post at *
  rw [runM_bind]
  cases h : runM x m with
  | mk r m1 =>
    rw [h] at h1
    cases r with
    | ok a => exact hok a m1 h1
    | error e => exact herr e m1 h1

theorem Post.tryCatch {x : M α β} {h : Stop → M α β} {m : Mem α} {Q1 Q : Except Stop β → Mem α → Prop}
    (h1 : Post x m Q1) (hok : ∀ a m1, Q1 (.ok a) m1 → Q (.ok a) m1) (herr : ∀ e m1, Q1 (.error e) m1 → Post (h e) m1 Q) :
    Post (tryCatch x h) m Q := by
  unfold Post at *
  rw [runM_tryCatch]
  cases hx : runM x m with
  | mk r m1 =>
    rw [hx] at h1
    cases r with
    | ok a => exact hok a m1 h1
    | error e => exact herr e m1 h1

theorem Post.mono {p : M α β} {m : Mem α} {Q Q' : Except Stop β → Mem α → Prop} (h : Post p m Q) (hq : ∀ r m1, Q r m1 → Q' r m1) :
    Post p m Q' := hq _ _ h

theorem Post.pure {a : β} {m : Mem α} {Q : Except Stop β → Mem α → Prop} (h : Q (.ok a) m) : Post (pure a : M α β) m Q := h
theorem Post.throw {e : Stop} {m : Mem α} {Q : Except Stop β → Mem α → Prop} (h : Q (.error e) m) : Post (throw e : M α β) m Q := h
end AmcVerif

namespace AmcVerif
variable {α β γ : Type}

/-- region ↦ buffer -/
abbrev View (α : Type) := Region → Option (List (Slot α))

def View.set (v : View α) (r : Region) (b : List (Slot α)) : View α := fun r' => if r' = r then some b else v r'

@[simp] theorem View.set_same (v : View α) (r : Region) (b : List (Slot α)) : (v.set r b) r = some b := by
  simp [View.set]
theorem View.set_other (v : View α) (r r' : Region) (b : List (Slot α)) (h : r' ≠ r) : (v.set r b) r' = v r' := by
  simp [View.set, h]
@[simp] theorem View.set_set (v : View α) (r : Region) (b b' : List (Slot α)) : (v.set r b).set r b' = v.set r b' := by
  funext r'; simp only [View.set]; split <;> rfl
theorem View.set_id (v : View α) (r : Region) (b : List (Slot α)) (h : v r = some b) : v.set r b = v := by
  funext r'; simp only [View.set]; split
  · next h' => rw [h', h]
  · rfl
theorem View.set_comm (v : View α) (r r' : Region) (b b' : List (Slot α)) (h : r ≠ r') :
    (v.set r b).set r' b' = (v.set r' b').set r b := by
  funext x; simp only [View.set]
  by_cases h1 : x = r' <;> by_cases h2 : x = r
  · subst h1; subst h2; exact absurd rfl h
  · subst h1; simp [h2]
  · subst h2; simp [h1]
  · simp [h1, h2]

/-- the element count a heap block was allocated with -/
def Mem.cnt (m : Mem α) (id : Nat) : Option Nat := (m.blocks.find? (·.id == id)).map (·.count)

theorem find_map_count (bs : List (Block α)) (id id' : Nat) (b : List (Slot α)) :
    ((bs.map fun (x : Block α) => if x.id == id then { x with buf := b } else x).find? (·.id == id')).map (·.count)
      = (bs.find? (·.id == id')).map (·.count) := by
  induction bs with
  | nil => rfl
  | cons x xs ih =>
    rw [List.map_cons, List.find?_cons, List.find?_cons]
    cases hx : (x.id == id) with
    | true =>
      simp only [↓reduceIte]
      cases hx' : (x.id == id') with
      | true => rfl
      | false => exact ih
    | false =>
      simp only [Bool.false_eq_true, ↓reduceIte]
      cases hx' : (x.id == id') with
      | true => rfl
      | false => exact ih

theorem setBuf_cnt (m : Mem α) (r : Region) (b : List (Slot α)) (id : Nat) : (m.setBuf r b).cnt id = m.cnt id := by
  cases r with
  | inl c => rfl
  | blk id0 => exact find_map_count m.blocks id0 id b
  | tmp => rfl

/-- the parts of a memory that element-level primitives never change -/
structure Keep (m m' : Mem α) : Prop where
  cat : m'.cat = m.cat
  ws : m'.ws = m.ws
  hr : m'.hasRealloc = m.hasRealloc
  nid : m'.nextId = m.nextId
  cnt : ∀ id, m'.cnt id = m.cnt id

theorem Keep.refl (m : Mem α) : Keep m m := ⟨rfl, rfl, rfl, rfl, fun _ => rfl⟩
theorem Keep.trans {m m1 m2 : Mem α} (h1 : Keep m m1) (h2 : Keep m1 m2) : Keep m m2 :=
  ⟨h2.cat.trans h1.cat, h2.ws.trans h1.ws, h2.hr.trans h1.hr, h2.nid.trans h1.nid, fun id => (h2.cnt id).trans (h1.cnt id)⟩

theorem setBuf_view (m : Mem α) (r : Region) (b0 b : List (Slot α)) (h : m.buf r = some b0) (hl : b.length = b0.length) :
    (m.setBuf r b).buf = View.set m.buf r b ∧ Keep m (m.setBuf r b) := by
  have hu := upd_setBuf m r b0 b h hl
  refine ⟨?_, ⟨hu.cat, hu.ws, hu.hr, hu.nid, setBuf_cnt m r b⟩⟩
  funext r'
  by_cases h' : r' = r
  · subst h'; rw [View.set_same]; exact hu.buf
  · rw [View.set_other _ _ _ _ h']; exact hu.other r' h'

/-- same view, same kept parts (events and fuel may differ) -/
def Same (m m' : Mem α) : Prop := m'.buf = m.buf ∧ Keep m m'
theorem Same.refl (m : Mem α) : Same m m := ⟨rfl, Keep.refl m⟩
theorem Same.trans {m m1 m2 : Mem α} (h1 : Same m m1) (h2 : Same m1 m2) : Same m m2 :=
  ⟨h2.1.trans h1.1, h1.2.trans h2.2⟩

theorem withEv_same (m : Mem α) (e : Ev) : Same m { m with ev := e } := ⟨by funext r; cases r <;> rfl, ⟨rfl, rfl, rfl, rfl, fun _ => rfl⟩⟩
theorem withFuel_same (m : Mem α) (f : Option Nat) : Same m { m with fuel := f } := ⟨by funext r; cases r <;> rfl, ⟨rfl, rfl, rfl, rfl, fun _ => rfl⟩⟩

/-- postcondition: success, the buffer of `r` replaced by `b'` relative to `m` -/
def OkSet (m : Mem α) (r : Region) (b' : List (Slot α)) : Except Stop Unit → Mem α → Prop :=
  fun res m' => res = .ok () ∧ m'.buf = View.set m.buf r b' ∧ Keep m m'

/-- postcondition of a primitive that may throw `e`: success with the buffer of `r` replaced, or `e` with nothing changed -/
def OkSetOrExc (m : Mem α) (r : Region) (b' : List (Slot α)) (e : Exc) : Except Stop Unit → Mem α → Prop :=
  fun res m' => (res = .ok () ∧ m'.buf = View.set m.buf r b' ∧ Keep m m') ∨ (res = .error (.exc e) ∧ Same m m')

theorem rd_post (m : Mem α) (a : Addr) (b : List (Slot α)) (s : Slot α) (h : m.buf a.r = some b) (hs : b[a.i]? = some s) :
    Post (rd a) m (fun res m' => res = .ok s ∧ m' = m) := by
  unfold Post; rw [rd_run m a b s h hs]; exact ⟨rfl, rfl⟩

theorem wr_post (m : Mem α) (a : Addr) (b : List (Slot α)) (s : Slot α) (h : m.buf a.r = some b) (hi : a.i < b.length) :
    Post (wr a s) m (OkSet m a.r (b.set a.i s)) := by
  unfold Post; rw [wr_run m a b s h hi]
  have := setBuf_view m a.r b (b.set a.i s) h (by simp)
  exact ⟨rfl, this.1, this.2⟩

theorem bumpEv_post (m : Mem α) (f : Ev → Ev) : Post (bumpEv f) m (fun res m' => res = .ok () ∧ Same m m') := by
  unfold Post; rw [bumpEv_run]; exact ⟨rfl, withEv_same m _⟩

theorem isTC_post (m : Mem α) : Post (isTC (α := α)) m (fun res m' => res = .ok (m.cat == .tc) ∧ m' = m) := by
  unfold Post; rw [isTC_run]; exact ⟨rfl, rfl⟩

theorem tick_post (m : Mem α) (e : Exc) :
    Post (tick e) m (fun res m' => (res = .ok () ∨ res = .error (.exc e)) ∧ Same m m') := by
  unfold Post
  match hf : m.fuel with
  | none => rw [tick_none m e (Or.inl hf)]; exact ⟨Or.inl rfl, Same.refl m⟩
  | some 0 => rw [tick_none m e (Or.inr hf)]; exact ⟨Or.inl rfl, Same.refl m⟩
  | some 1 => rw [tick_throw m e hf]; exact ⟨Or.inr rfl, withFuel_same m _⟩
  | some (k+2) => rw [tick_dec m e k hf]; exact ⟨Or.inl rfl, withFuel_same m _⟩

end AmcVerif
