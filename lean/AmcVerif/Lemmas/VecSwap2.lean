import AmcVerif.Lemmas.VecPool
/-! `swap2` between two vectors of DIFFERENT type (flavour / inline capacity / size type), at container level.

Two distinct pool containers `a ≠ b` of ONE memory with configurations `ca`, `cb` and word invariants `OkA`, `OkB`. The laws of the
generated members come in as `VecLaws α ca OkA`, `VecLaws α cb OkB` (capacity adjustment), `NullAt0` (a container without storage
resolves to block 0) and, for the branch that exchanges the heap buffers by rewriting the words, `ExchangeLaws ca cb OkA OkB`.

* `Sep2`: the pair is separated (no heap block with two owners) in a memory with the usual history invariants;
* `Pair2`: both containers are valid (`VRepW`) and separated;
* `Frame2G`: what a step on the pair leaves alone (`FrameG` for two containers) and that it leaks nothing (`NoLeak2`);
* `adjustEach_post`: `adjustEachOtherCapacity` — room on both sides, or an exception with both VALUES unchanged;
* `swap2Impl_post`: `swap2_impl` — the contents are exchanged (deep swap + `setSize`, or exchange of the buffers);
* `swap2_post`: the contents are exchanged, or an exception was thrown and both containers hold what they held. -/
namespace AmcVerif
variable {α : Type}

/-! ### ownership by the pair, leak freedom of a step on the pair -/

/-- heap block `id` is owned by container `a` or by container `b` -/
def Owns2 (ca cb : Cfg) (a b : Nat) (m : Mem α) (id : Nat) : Prop := OwnsBlk ca a m id ∨ OwnsBlk cb b m id

theorem Owns2.symm {ca cb : Cfg} {a b : Nat} {m : Mem α} {id : Nat} : Owns2 ca cb a b m id ↔ Owns2 cb ca b a m id := Or.comm

/-- `NoLeak` for a step on the pair `a`, `b`: every heap block that exists afterwards is a block of somebody else that already
    existed (and still is not the pair's), or a block the pair owned and still owns, or a fresh block the pair owns now -/
def NoLeak2 (ca cb : Cfg) (a b : Nat) (m m' : Mem α) : Prop :=
  ∀ id, (m'.buf (.blk id)).isSome →
    ((m.buf (.blk id)).isSome ∧ ¬ Owns2 ca cb a b m id ∧ ¬ Owns2 ca cb a b m' id)
    ∨ ((m.buf (.blk id)).isSome ∧ Owns2 ca cb a b m id ∧ Owns2 ca cb a b m' id)
    ∨ (m.nextId ≤ id ∧ Owns2 ca cb a b m' id)

namespace NoLeak2
variable {ca cb : Cfg} {a b : Nat} {m m1 m2 : Mem α}

theorem refl (ca cb : Cfg) (a b : Nat) (m : Mem α) : NoLeak2 ca cb a b m m := by
  intro id hid
  by_cases ho : Owns2 ca cb a b m id
  · exact Or.inr (Or.inl ⟨hid, ho, ho⟩)
  · exact Or.inl ⟨hid, ho, ho⟩

theorem step (h : NoLeak2 ca cb a b m m1) (hbuf : ∀ id, (m2.buf (.blk id)).isSome → (m1.buf (.blk id)).isSome)
    (hown : ∀ id, Owns2 ca cb a b m2 id ↔ Owns2 ca cb a b m1 id) : NoLeak2 ca cb a b m m2 := by
  intro id hid
  rcases h id (hbuf id hid) with ⟨h1, h2, h3⟩ | ⟨h1, h2, h3⟩ | ⟨h1, h3⟩
  · exact Or.inl ⟨h1, h2, fun ho => h3 ((hown id).mp ho)⟩
  · exact Or.inr (Or.inl ⟨h1, h2, (hown id).mpr h3⟩)
  · exact Or.inr (Or.inr ⟨h1, (hown id).mpr h3⟩)

theorem trans (h1 : NoLeak2 ca cb a b m m1) (h2 : NoLeak2 ca cb a b m1 m2) (hn : m.nextId ≤ m1.nextId) :
    NoLeak2 ca cb a b m m2 := by
  intro id hid
  rcases h2 id hid with ⟨e1, n1, n2⟩ | ⟨e1, o1, o2⟩ | ⟨f1, o2⟩
  · rcases h1 id e1 with ⟨e0, n0, _⟩ | ⟨_, _, o1⟩ | ⟨_, o1⟩
    · exact Or.inl ⟨e0, n0, n2⟩
    · exact absurd o1 n1
    · exact absurd o1 n1
  · rcases h1 id e1 with ⟨_, _, n1⟩ | ⟨e0, o0, _⟩ | ⟨f0, _⟩
    · exact absurd o1 n1
    · exact Or.inr (Or.inl ⟨e0, o0, o2⟩)
    · exact Or.inr (Or.inr ⟨f0, o2⟩)
  · exact Or.inr (Or.inr ⟨Nat.le_trans hn f1, o2⟩)

theorem symm (h : NoLeak2 ca cb a b m m1) : NoLeak2 cb ca b a m m1 := by
  intro id hid
  rcases h id hid with ⟨h1, h2, h3⟩ | ⟨h1, h2, h3⟩ | ⟨h1, h3⟩
  · exact Or.inl ⟨h1, fun ho => h2 (Owns2.symm.mp ho), fun ho => h3 (Owns2.symm.mp ho)⟩
  · exact Or.inr (Or.inl ⟨h1, Owns2.symm.mp h2, Owns2.symm.mp h3⟩)
  · exact Or.inr (Or.inr ⟨h1, Owns2.symm.mp h3⟩)

/-- a leak-free step on `a` alone during which `b` owns what it owned -/
theorem ofA (h : NoLeak ca a m m1) (hb : ∀ id, OwnsBlk cb b m1 id ↔ OwnsBlk cb b m id) : NoLeak2 ca cb a b m m1 := by
  intro id hid
  rcases h id hid with ⟨h1, h2, h3⟩ | ⟨h1, h2, h3⟩ | ⟨h1, h3⟩
  · by_cases ho : OwnsBlk cb b m id
    · exact Or.inr (Or.inl ⟨h1, Or.inr ho, Or.inr ((hb id).mpr ho)⟩)
    · refine Or.inl ⟨h1, ?_, ?_⟩
      · rintro (o | o)
        · exact h2 o
        · exact ho o
      · rintro (o | o)
        · exact h3 o
        · exact ho ((hb id).mp o)
  · exact Or.inr (Or.inl ⟨h1, Or.inl h2, Or.inl h3⟩)
  · exact Or.inr (Or.inr ⟨h1, Or.inl h3⟩)

end NoLeak2

/-- what a step on the pair `a`, `b` (whose elements live in the regions `ra`, `rb`, or in freshly allocated blocks) leaves alone:
    the words of every other container, every other region that existed, the allocation counts of the other blocks; and no heap
    block is leaked or stolen (`NoLeak2`) -/
structure Frame2G (ca cb : Cfg) (a b : Nat) (ra rb : Region) (m m' : Mem α) : Prop where
  cat : m'.cat = m.cat
  hr : m'.hasRealloc = m.hasRealloc
  wsLen : m'.ws.length = m.ws.length
  wsOther : ∀ e, e ≠ a → e ≠ b → m'.ws[e]? = m.ws[e]?
  nid : m.nextId ≤ m'.nextId
  bufOther : ∀ r', r' ≠ ra → r' ≠ rb → (∀ id, r' = .blk id → id < m.nextId) → m'.buf r' = m.buf r'
  cntOther : ∀ id, Region.blk id ≠ ra → Region.blk id ≠ rb → id < m.nextId → m'.cnt id = m.cnt id
  noLeak : NoLeak2 ca cb a b m m'

namespace Frame2G
variable {ca cb : Cfg} {a b : Nat} {ra rb : Region} {m m1 m2 : Mem α}

theorem refl (ca cb : Cfg) (a b : Nat) (ra rb : Region) (m : Mem α) : Frame2G ca cb a b ra rb m m :=
  ⟨rfl, rfl, rfl, fun _ _ _ => rfl, Nat.le_refl _, fun _ _ _ _ => rfl, fun _ _ _ _ => rfl, NoLeak2.refl _ _ _ _ _⟩

theorem symm (h : Frame2G ca cb a b ra rb m m1) : Frame2G cb ca b a rb ra m m1 :=
  ⟨h.cat, h.hr, h.wsLen, fun e h1 h2 => h.wsOther e h2 h1, h.nid, fun r' h1 h2 h3 => h.bufOther r' h2 h1 h3,
    fun id h1 h2 h3 => h.cntOther id h2 h1 h3, h.noLeak.symm⟩

/-- a framed, leak-free step on `a` alone -/
theorem ofA (hne : a ≠ b) (h : FrameL ca a ra m m1) (cb : Cfg) (rb : Region) : Frame2G ca cb a b ra rb m m1 :=
  ⟨h.cat, h.hr, h.wsLen, fun e h1 _ => h.wsOther e h1, h.nid, fun r' h1 _ h3 => h.bufOther r' h1 h3,
    fun id h1 _ h3 => h.cntOther id h1 h3, NoLeak2.ofA h.noLeak (OwnsBlk.congr (h.wsOther b (Ne.symm hne)))⟩

/-- composition; the regions of the second step are those of the first or fresh blocks -/
theorem trans {ra' rb' : Region} (h1 : Frame2G ca cb a b ra rb m m1) (h2 : Frame2G ca cb a b ra' rb' m1 m2)
    (hra : ra' = ra ∨ ∃ id, ra' = .blk id ∧ m.nextId ≤ id) (hrb : rb' = rb ∨ ∃ id, rb' = .blk id ∧ m.nextId ≤ id) :
    Frame2G ca cb a b ra rb m m2 := by
  have hold : ∀ r', r' ≠ ra → r' ≠ rb → (∀ id, r' = .blk id → id < m.nextId) → r' ≠ ra' ∧ r' ≠ rb' := by
    intro r' n1 n2 ho
    constructor
    · rcases hra with e | ⟨id, e, hge⟩
      · rw [e]; exact n1
      · intro e'; have := ho id (e'.trans e); omega
    · rcases hrb with e | ⟨id, e, hge⟩
      · rw [e]; exact n2
      · intro e'; have := ho id (e'.trans e); omega
  refine ⟨h2.cat.trans h1.cat, h2.hr.trans h1.hr, h2.wsLen.trans h1.wsLen,
    fun e n1 n2 => (h2.wsOther e n1 n2).trans (h1.wsOther e n1 n2), Nat.le_trans h1.nid h2.nid, ?_, ?_,
    h1.noLeak.trans h2.noLeak h1.nid⟩
  · intro r' n1 n2 ho
    obtain ⟨n1', n2'⟩ := hold r' n1 n2 ho
    rw [h2.bufOther r' n1' n2' (fun id hid => Nat.lt_of_lt_of_le (ho id hid) h1.nid)]
    exact h1.bufOther r' n1 n2 ho
  · intro id n1 n2 hlt
    obtain ⟨n1', n2'⟩ := hold (.blk id) n1 n2 (fun id' hid => by injection hid with hid; omega)
    rw [h2.cntOther id n1' n2' (Nat.lt_of_lt_of_le hlt h1.nid)]
    exact h1.cntOther id n1 n2 hlt

end Frame2G

/-- a third container `e` is not disturbed by a step on the pair `a`, `b`: its storage is neither of the two regions (or it has
    none), is not a fresh block, and its inline storage is neither of the two regions -/
theorem VRepW.frame2G {ce : Cfg} {OkE : VB → Prop} {ca cb : Cfg} {a b e : Nat} {ra rb : Region} {m m' : Mem α} {zs : List α}
    {we : VB} (h : VRepW ce OkE e m zs we) (hfr : Frame2G ca cb a b ra rb m m') (hea : e ≠ a) (heb : e ≠ b)
    (hreg : ce.ops.capacity we = 0 ∨ (regionOf ce e we ≠ ra ∧ regionOf ce e we ≠ rb))
    (hold : ∀ id, regionOf ce e we = .blk id → 0 < ce.ops.capacity we → id < m.nextId)
    (hinl : Region.inl e ≠ ra ∧ Region.inl e ≠ rb) : VRepW ce OkE e m' zs we := by
  refine ⟨⟨by rw [hfr.wsOther e hea heb]; exact h.ws, h.ok, h.store.len, ?_, ?_, ?_⟩, h.size⟩
  · rcases Nat.eq_zero_or_pos (ce.ops.capacity we) with h0 | hp
    · exact Or.inl h0
    · rcases h.buf with h0 | hb
      · exact Or.inl h0
      · have hne := hreg.resolve_left (by omega)
        refine Or.inr ?_
        rw [hfr.bufOther _ hne.1 hne.2 (fun id hid => hold id hid hp)]
        exact hb
  · intro id hid hne
    have hp : 0 < ce.ops.capacity we := Nat.pos_of_ne_zero hne
    have hn := hreg.resolve_left (by omega)
    rw [hfr.cntOther id (by rw [← hid]; exact hn.1) (by rw [← hid]; exact hn.2) (hold id hid hp)]
    exact h.store.cnt id hid hne
  · intro hne hfl
    rw [hfr.bufOther (.inl e) hinl.1 hinl.2 (fun id hid => by cases hid)]
    exact h.store.inl hne hfl

/-! ### the separated pair -/

/-- the pair `a ≠ b` is separated in `m`: no heap block has both as owners; block identifiers in use are below the next fresh
    one; block 0 (the region a null pointer resolves to) does not exist -/
structure Sep2 (ca cb : Cfg) (a b : Nat) (m : Mem α) : Prop where
  ne : a ≠ b
  disj : ∀ id, OwnsBlk ca a m id → OwnsBlk cb b m id → False
  fresh : Fresh m
  pos : 0 < m.nextId
  blk0 : m.buf (.blk 0) = none

theorem Sep2.symm {ca cb : Cfg} {a b : Nat} {m : Mem α} (h : Sep2 ca cb a b m) : Sep2 cb ca b a m :=
  ⟨h.ne.symm, fun id h1 h2 => h.disj id h2 h1, h.fresh, h.pos, h.blk0⟩

/-- both containers are valid and separated -/
structure Pair2 (ca cb : Cfg) (OkA OkB : VB → Prop) (a b : Nat) (m : Mem α) (xs ys : List α) (wa wb : VB) : Prop where
  ra : VRepW ca OkA a m xs wa
  rb : VRepW cb OkB b m ys wb
  sep : Sep2 ca cb a b m

namespace Pair2
variable {ca cb : Cfg} {OkA OkB : VB → Prop} {a b : Nat} {m m1 : Mem α} {xs ys : List α} {wa wb : VB}

theorem symm (h : Pair2 ca cb OkA OkB a b m xs ys wa wb) : Pair2 cb ca OkB OkA b a m ys xs wb wa := ⟨h.rb, h.ra, h.sep.symm⟩

/-- two containers with storage have different storage regions -/
theorem regions (h : Pair2 ca cb OkA OkB a b m xs ys wa wb) (hpa : 0 < ca.ops.capacity wa) (hpb : 0 < cb.ops.capacity wb) :
    regionOf ca a wa ≠ regionOf cb b wb := by
  intro e
  cases hr : regionOf ca a wa with
  | inl k =>
    have h1 := regionOf_inl ca a k wa hr
    have h2 := regionOf_inl cb b k wb (by rw [← e, hr])
    exact h.sep.ne (h1.symm.trans h2)
  | tmp => exact regionOf_ne_tmp ca a wa hr
  | blk id =>
    exact h.sep.disj id ((OwnsBlk.iff h.ra.ws id).mpr ⟨hr, hpa⟩) ((OwnsBlk.iff h.rb.ws id).mpr ⟨by rw [← e, hr], hpb⟩)

/-- what `VRepW.frameG` needs to carry `b` along a step on `a` -/
theorem passive (NA : NullAt0 ca OkA) (h : Pair2 ca cb OkA OkB a b m xs ys wa wb) :
    (cb.ops.capacity wb = 0 ∨ regionOf cb b wb ≠ regionOf ca a wa)
    ∧ (∀ id, regionOf cb b wb = .blk id → 0 < cb.ops.capacity wb → id < m.nextId)
    ∧ Region.inl b ≠ regionOf ca a wa := by
  refine ⟨?_, fun id hid hp => h.sep.fresh id (by rw [← hid]; exact h.rb.isSome hp),
    fun e => h.sep.ne (regionOf_inl ca a b wa e.symm).symm⟩
  rcases Nat.eq_zero_or_pos (cb.ops.capacity wb) with h0 | hpb
  · exact Or.inl h0
  · refine Or.inr ?_
    rcases Nat.eq_zero_or_pos (ca.ops.capacity wa) with h0 | hpa
    · intro e
      cases hr : regionOf cb b wb with
      | inl k =>
        have h1 := regionOf_inl cb b k wb hr
        have h2 := regionOf_inl ca a k wa (by rw [← e, hr])
        exact h.sep.ne (h2.symm.trans h1)
      | tmp => exact regionOf_ne_tmp cb b wb hr
      | blk id =>
        have hid : id = 0 := NA a wa h.ra.ok h0 id (by rw [← e, hr])
        subst hid
        have := h.rb.isSome hpb
        rw [hr, h.sep.blk0] at this; cases this
    · exact Ne.symm (h.regions hpa hpb)

end Pair2

/-- a framed, leak-free step on `a` keeps the pair separated -/
theorem Sep2.stepA {ca cb : Cfg} {a b : Nat} {r : Region} {m m1 : Mem α} (hs : Sep2 ca cb a b m) (hfr : FrameL ca a r m m1)
    (holdb : ∀ id, OwnsBlk cb b m id → id < m.nextId) (hexa : ∀ id, OwnsBlk ca a m1 id → (m1.buf (.blk id)).isSome) :
    Sep2 ca cb a b m1 := by
  refine ⟨hs.ne, ?_, hfr.fresh hs.fresh, Nat.lt_of_lt_of_le hs.pos hfr.nid, ?_⟩
  · intro id hoa hob
    have hob0 : OwnsBlk cb b m id := (OwnsBlk.congr (hfr.wsOther b hs.ne.symm) id).mp hob
    rcases hfr.noLeak id (hexa id hoa) with ⟨_, _, n2⟩ | ⟨_, o1, _⟩ | ⟨f, _⟩
    · exact n2 hoa
    · exact hs.disj id o1 hob0
    · have := holdb id hob0; omega
  · cases hb : m1.buf (.blk 0) with
    | none => rfl
    | some bf =>
      exfalso
      rcases hfr.noLeak 0 (by rw [hb]; rfl) with ⟨e, _, _⟩ | ⟨e, _, _⟩ | ⟨f, _⟩
      · rw [hs.blk0] at e; cases e
      · rw [hs.blk0] at e; cases e
      · have := hs.pos; omega

/-- one capacity adjustment of `a` (outcome `GrowPost`): the pair is still valid and separated with the same values (`a` possibly
    in new words: a grown capacity), framed; on success `a` has the room asked for -/
theorem Pair2.stepA {ca cb : Cfg} {OkA OkB : VB → Prop} {a b : Nat} {m m1 : Mem α} {xs ys : List α} {wa wb : VB}
    (NA : NullAt0 ca OkA) (h : Pair2 ca cb OkA OkB a b m xs ys wa wb) {na : Nat} {res : Except Stop Unit}
    (hg : GrowPost ca OkA a m xs wa na res m1) :
    ∃ wa', Pair2 ca cb OkA OkB a b m1 xs ys wa' wb ∧ Frame2G ca cb a b (regionOf ca a wa) (regionOf cb b wb) m m1
      ∧ (regionOf ca a wa' = regionOf ca a wa ∨ ∃ id, regionOf ca a wa' = .blk id ∧ m.nextId ≤ id)
      ∧ ((res = .ok () ∧ na ≤ ca.ops.capacity wa') ∨ ∃ e, res = .error (.exc e)) := by
  obtain ⟨hq, hfr⟩ := hg
  obtain ⟨p1, p2, p3⟩ := h.passive NA
  have hb1 : VRepW cb OkB b m1 ys wb := h.rb.frameG hfr.toFrameG h.sep.ne.symm p1 p2 p3
  have hsep : ∀ wa', VRepW ca OkA a m1 xs wa' → Sep2 ca cb a b m1 := by
    intro wa' hw'
    refine h.sep.stepA hfr (fun id ho => ?_) (fun id ho => ?_)
    · have ho' := (OwnsBlk.iff h.rb.ws id).mp ho
      exact p2 id ho'.1 ho'.2
    · have ho' := (OwnsBlk.iff hw'.ws id).mp ho
      rw [← ho'.1]; exact hw'.isSome ho'.2
  have hf2 := Frame2G.ofA h.sep.ne hfr cb (regionOf cb b wb)
  rcases hq with ⟨hr, wa', hgr⟩ | ⟨e, he, hw, _⟩
  · exact ⟨wa', ⟨hgr.rep, hb1, hsep wa' hgr.rep⟩, hf2, hgr.reg, Or.inl ⟨hr, hgr.cap⟩⟩
  · exact ⟨wa, ⟨hw, hb1, hsep wa hw⟩, hf2, Or.inl rfl, Or.inr ⟨e, he⟩⟩

/-! ### `adjustEachOtherCapacity` -/

/-- outcome of the two capacity adjustments: both containers hold what they held (possibly in new words: a grown capacity), the
    pair is separated, the step is framed; on success each side has the room asked for; otherwise a C++ exception was thrown -/
def AdjPost (ca cb : Cfg) (OkA OkB : VB → Prop) (a b : Nat) (m : Mem α) (xs ys : List α) (wa wb : VB) (na nb : Nat) :
    Except Stop Unit → Mem α → Prop :=
  fun res m' => ∃ wa' wb', Pair2 ca cb OkA OkB a b m' xs ys wa' wb'
    ∧ Frame2G ca cb a b (regionOf ca a wa) (regionOf cb b wb) m m'
    ∧ (regionOf ca a wa' = regionOf ca a wa ∨ ∃ id, regionOf ca a wa' = .blk id ∧ m.nextId ≤ id)
    ∧ (regionOf cb b wb' = regionOf cb b wb ∨ ∃ id, regionOf cb b wb' = .blk id ∧ m.nextId ≤ id)
    ∧ ((res = .ok () ∧ na ≤ ca.ops.capacity wa' ∧ nb ≤ cb.ops.capacity wb') ∨ ∃ e, res = .error (.exc e))

theorem adjustEach_post {ca cb : Cfg} {OkA OkB : VB → Prop} (LA : VecLaws α ca OkA) (LB : VecLaws α cb OkB)
    (NA : NullAt0 ca OkA) (NB : NullAt0 cb OkB) {a b : Nat} {m : Mem α} {xs ys : List α} {wa wb : VB}
    (h : Pair2 ca cb OkA OkB a b m xs ys wa wb) (na nb : Nat) :
    Post (do adjustCapacity ca a na; adjustCapacity cb b nb) m (AdjPost ca cb OkA OkB a b m xs ys wa wb na nb) := by
  refine Post.bind (adjustCapacity_post LA m a xs wa na h.ra h.sep.fresh) ?_ ?_
  · rintro _ m1 hg
    obtain ⟨wa', hp1, hf1, hreg1, hres⟩ := h.stepA NA hg
    rcases hres with ⟨_, hcap⟩ | ⟨e, he⟩
    · refine Post.mono (adjustCapacity_post LB m1 b ys wb nb hp1.rb hp1.sep.fresh) ?_
      intro res m2 hg2
      obtain ⟨wb', hp2, hf2, hreg2, hres2⟩ := hp1.symm.stepA NB hg2
      refine ⟨wa', wb', hp2.symm, hf1.trans hf2.symm hreg1 (Or.inl rfl), hreg1, ?_, ?_⟩
      · rcases hreg2 with e | ⟨id, e, hge⟩
        · exact Or.inl e
        · exact Or.inr ⟨id, e, Nat.le_trans hf1.nid hge⟩
      rcases hres2 with ⟨hr, hcap2⟩ | he
      · exact Or.inl ⟨hr, hcap, hcap2⟩
      · exact Or.inr he
    · cases he
  · rintro e m1 hg
    obtain ⟨wa', hp1, hf1, hreg1, hres⟩ := h.stepA NA hg
    rcases hres with ⟨he, _⟩ | he
    · cases he
    · exact ⟨wa', wb, hp1, hf1, hreg1, Or.inl rfl, Or.inr he⟩

/-! ### `swap2_impl` -/

/-- `swap2_impl`: the part of `swap2` after `adjustEachOtherCapacity` -/
def swap2Impl (ca cb : Cfg) (a b : Nat) : M α Unit := do
  let wa ← getW a
  let wb ← getW b
  let sa := ca.ops.size wa
  let sb := cb.ops.size wb
  if ca.dynamic && cb.dynamic && canExchangeDyn ca cb wa wb then
    let capA := ca.ops.capacity wa
    let capB := cb.ops.capacity wb
    setW a ⟨capB, sb, wb.dyn⟩
    setW b ⟨capA, sa, wa.dyn⟩
  else
    swapDeep (← vbegin ca a) sa (← vbegin cb b) sb
    setSize ca a sb
    setSize cb b sa

theorem swap2_eq (ca cb : Cfg) (a b : Nat) :
    (swap2 ca cb a b : M α Unit) = (do
      let wa ← getW a
      let wb ← getW b
      if ca.dynamic then
        if !canExchangeDyn ca cb wa wb then
          adjustCapacity ca a (cb.ops.size wb)
          adjustCapacity cb b (ca.ops.size wa)
          swap2Impl ca cb a b
        else swap2Impl ca cb a b
      else
        adjustCapacity ca a (cb.ops.size wb)
        adjustCapacity cb b (ca.ops.size wa)
        swap2Impl ca cb a b) := rfl

/-- an element-level step confined to the two regions `ra`, `rb` that creates no block -/
structure Elem2 (ra rb : Region) (m m' : Mem α) : Prop where
  keep : Keep m m'
  other : ∀ r', r' ≠ ra → r' ≠ rb → m'.buf r' = m.buf r'
  blocks : ∀ id, (m'.buf (.blk id)).isSome → (m.buf (.blk id)).isSome

theorem Elem2.refl (ra rb : Region) (m : Mem α) : Elem2 ra rb m m := ⟨Keep.refl m, fun _ _ _ => rfl, fun _ h => h⟩

theorem Elem2.ofSet2 {ra rb : Region} {m m3 : Mem α} {A B : List (Slot α)} (hk : Keep m m3)
    (hb : m3.buf = View.set (View.set m.buf ra A) rb B) (h1 : (m.buf ra).isSome) (h2 : (m.buf rb).isSome) : Elem2 ra rb m m3 := by
  refine ⟨hk, fun r' n1 n2 => by rw [hb, View.set_other _ _ _ _ n2, View.set_other _ _ _ _ n1], ?_⟩
  intro id hid
  rw [hb] at hid
  by_cases e2 : Region.blk id = rb
  · rw [e2]; exact h2
  · rw [View.set_other _ _ _ _ e2] at hid
    by_cases e1 : Region.blk id = ra
    · rw [e1]; exact h1
    · rwa [View.set_other _ _ _ _ e1] at hid

/-- an element-level step on the two regions followed by the commit of new words for `a` and `b` under which the pair owns what it
    owned: framed, leak-free, still separated -/
theorem finish2 {ca cb : Cfg} {a b : Nat} {ra rb : Region} {m m3 : Mem α} (he : Elem2 ra rb m m3) (hsep : Sep2 ca cb a b m)
    (wa' wb' : VB)
    (hown : ∀ id, Owns2 ca cb a b ({ m3 with ws := (m3.ws.set a wa').set b wb' } : Mem α) id ↔ Owns2 ca cb a b m id)
    (hdisj : ∀ id, OwnsBlk ca a ({ m3 with ws := (m3.ws.set a wa').set b wb' } : Mem α) id →
      OwnsBlk cb b ({ m3 with ws := (m3.ws.set a wa').set b wb' } : Mem α) id → False) :
    Frame2G ca cb a b ra rb m ({ m3 with ws := (m3.ws.set a wa').set b wb' } : Mem α)
    ∧ Sep2 ca cb a b ({ m3 with ws := (m3.ws.set a wa').set b wb' } : Mem α) := by
  have hblk : ∀ id, (({ m3 with ws := (m3.ws.set a wa').set b wb' } : Mem α).buf (.blk id)).isSome → (m.buf (.blk id)).isSome := by
    intro id hid
    rw [withWs_buf] at hid
    exact he.blocks id hid
  refine ⟨⟨he.keep.cat, he.keep.hr, by simp [he.keep.ws], fun e n1 n2 => ?_, Nat.le_of_eq he.keep.nid.symm, ?_, ?_, ?_⟩,
    ⟨hsep.ne, hdisj, ?_, ?_, ?_⟩⟩
  · show ((m3.ws.set a wa').set b wb')[e]? = _
    rw [TwoC.ws_other _ _ _ _ _ _ n1 n2, he.keep.ws]
  · intro r' n1 n2 _
    rw [withWs_buf]; exact he.other r' n1 n2
  · intro id _ _ _
    rw [withWs_cnt]; exact he.keep.cnt id
  · exact (NoLeak2.refl ca cb a b m).step hblk hown
  · intro id hid
    show id < m3.nextId
    rw [he.keep.nid]; exact hsep.fresh id (hblk id hid)
  · show 0 < m3.nextId
    rw [he.keep.nid]; exact hsep.pos
  · cases hb : ({ m3 with ws := (m3.ws.set a wa').set b wb' } : Mem α).buf (.blk 0) with
    | none => rfl
    | some bf =>
      have := hblk 0 (by rw [hb]; rfl)
      rw [hsep.blk0] at this; cases this

/-- the storage of `c` (words `w`, holding `zs`) seen as the storage of `c'` under words `w'` of the same capacity that resolve to
    the same region (`c' = c` with a new size word; or `c'` the other container after the buffers were exchanged) -/
theorem VRepW.move {cfg cfg' : Cfg} {Ok Ok' : VB → Prop} {c c' : Nat} {m m' : Mem α} {w w' : VB} {zs : List α}
    (h : Store cfg Ok c m w (lives zs ++ raws (cfg.ops.capacity w - zs.length)))
    (hws : m'.ws[c']? = some w') (hok : Ok' w') (hcap : cfg'.ops.capacity w' = cfg.ops.capacity w)
    (hsz : cfg'.ops.size w' = zs.length) (hreg : regionOf cfg' c' w' = regionOf cfg c w)
    (hbuf : m'.buf = m.buf) (hcnt : ∀ id, m'.cnt id = m.cnt id)
    (hinl : regionOf cfg' c' w' ≠ .inl c' → cfg'.flavour = .small → m.buf (.inl c') = some (raws cfg'.n)) :
    VRepW cfg' Ok' c' m' zs w' := by
  refine ⟨⟨hws, hok, by rw [hcap]; exact h.len, by rw [hcap, hreg, hbuf]; exact h.buf, ?_, ?_⟩, hsz⟩
  · intro id hr hc
    rw [hcnt, hcap]
    exact h.cnt id (hreg ▸ hr) (hcap ▸ hc)
  · intro hne hfl
    rw [hbuf]; exact hinl hne hfl

open ShrinkAux in
theorem swapDeep_zero_post (m : Mem α) (f1 f2 : Addr) : Post (swapDeep f1 0 f2 0) m (fun res m' => res = .ok () ∧ m' = m) := by
  unfold swapDeep
  simp only [Nat.min_self, swapRanges, Nat.lt_irrefl, ↓reduceIte, Nat.sub_self]
  refine Post.bind (Q1 := fun res m' => res = .ok () ∧ m' = m) ⟨rfl, rfl⟩ ?_ (by okerr)
  rintro _ m1 ⟨_, rfl⟩
  exact uninitRelocN_zero_post m1 _ _

/-- the deep swap of the elements of two separated containers that have room for each other's elements -/
theorem deepStep_post {ca cb : Cfg} {OkA OkB : VB → Prop} {a b : Nat} {m : Mem α} {xs ys : List α} {wa wb : VB}
    (h : Pair2 ca cb OkA OkB a b m xs ys wa wb) (hra : ys.length ≤ ca.ops.capacity wa) (hrb : xs.length ≤ cb.ops.capacity wb) :
    Post (swapDeep ⟨regionOf ca a wa, 0⟩ xs.length ⟨regionOf cb b wb, 0⟩ ys.length) m (fun res m3 => res = .ok ()
      ∧ Elem2 (regionOf ca a wa) (regionOf cb b wb) m m3
      ∧ Store ca OkA a m3 wa (lives ys ++ raws (ca.ops.capacity wa - ys.length))
      ∧ Store cb OkB b m3 wb (lives xs ++ raws (cb.ops.capacity wb - xs.length))) := by
  have hla := h.ra.le
  have hlb := h.rb.le
  by_cases hp : 0 < ca.ops.capacity wa ∧ 0 < cb.ops.capacity wb
  · have hne := h.regions hp.1 hp.2
    have hba : m.buf (regionOf ca a wa) = some ([] ++ lives xs ++ raws (ca.ops.capacity wa - xs.length) ++ []) := by
      rcases h.ra.buf with h0 | hb
      · omega
      · simpa using hb
    have hbb : m.buf (regionOf cb b wb) = some ([] ++ lives ys ++ raws (cb.ops.capacity wb - ys.length) ++ []) := by
      rcases h.rb.buf with h0 | hb
      · omega
      · simpa using hb
    refine Post.mono (swapDeepAcross_post m _ _ hne [] [] [] [] xs ys (ca.ops.capacity wa - xs.length)
      (cb.ops.capacity wb - ys.length) (by omega) (by omega) hba hbb) ?_
    rintro res m3 ⟨hr, hk, hb3⟩
    simp only [List.nil_append, List.append_nil] at hb3
    rw [show xs.length + (ca.ops.capacity wa - xs.length) - ys.length = ca.ops.capacity wa - ys.length by omega,
      show ys.length + (cb.ops.capacity wb - ys.length) - xs.length = cb.ops.capacity wb - xs.length by omega] at hb3
    have ia : Region.inl a ≠ regionOf cb b wb := fun e => h.sep.ne (regionOf_inl cb b a wb e.symm)
    have ib : Region.inl b ≠ regionOf ca a wa := fun e => h.sep.ne (regionOf_inl ca a b wa e.symm).symm
    refine ⟨hr, Elem2.ofSet2 hk hb3 (by rw [hba]; rfl) (by rw [hbb]; rfl), ?_, ?_⟩
    · refine ⟨by rw [hk.ws]; exact h.ra.ws, h.ra.ok, by simp; omega, Or.inr ?_,
        fun id hr hc => by rw [hk.cnt]; exact h.ra.store.cnt id hr hc, fun hn hfl => ?_⟩
      · rw [hb3, View.set_other _ _ _ _ hne, View.set_same]
      · rw [hb3, View.set_other _ _ _ _ ia, View.set_other _ _ _ _ (Ne.symm hn)]
        exact h.ra.store.inl hn hfl
    · refine ⟨by rw [hk.ws]; exact h.rb.ws, h.rb.ok, by simp; omega, Or.inr ?_,
        fun id hr hc => by rw [hk.cnt]; exact h.rb.store.cnt id hr hc, fun hn hfl => ?_⟩
      · rw [hb3, View.set_same]
      · rw [hb3, View.set_other _ _ _ _ (Ne.symm hn), View.set_other _ _ _ _ ib]
        exact h.rb.store.inl hn hfl
  · have hx : xs = [] := List.eq_nil_of_length_eq_zero (by omega)
    have hy : ys = [] := List.eq_nil_of_length_eq_zero (by omega)
    subst hx hy
    refine Post.mono (swapDeep_zero_post m _ _) ?_
    rintro res m3 ⟨hr, rfl⟩
    exact ⟨hr, Elem2.refl _ _ _, h.ra.store, h.rb.store⟩

/-! ### the branch that exchanges the heap buffers -/

theorem resolve_noninl (p : PtrV) (hp : ∀ k, p ≠ .inl k) (c0 c1 d0 d1 : Nat) : resolve c0 c1 p = resolve d0 d1 p := by
  cases p with
  | null => rfl
  | inl k => exact absurd rfl (hp k)
  | blk id => rfl

/-- words whose buffer pointer is not an inline storage resolve to the same region for every container -/
theorem regionOf_noninl {cfg cfg' : Cfg} {w w' : VB} (hb : cfg'.ops.begin w' = cfg.ops.begin w)
    (hp : ∀ k, cfg.ops.begin w ≠ .inl k) (c' c : Nat) : regionOf cfg' c' w' = regionOf cfg c w := by
  unfold regionOf; rw [hb, resolve_noninl _ hp c' c' c c]

theorem regionOf_ne_inl {cfg : Cfg} {w : VB} (hp : ∀ k, cfg.ops.begin w ≠ .inl k) (c k : Nat) : regionOf cfg c w ≠ .inl k := by
  unfold regionOf
  cases h : cfg.ops.begin w with
  | null => simp [resolve]
  | inl j => exact absurd h (hp j)
  | blk id => simp [resolve]

theorem canExchangeDyn_parts {ca cb : Cfg} {wa wb : VB} (h : canExchangeDyn ca cb wa wb = true) :
    canSwapDyn ca cb wa wb = true ∧ cb.ops.capacity wb ≤ ca.ops.kMax ∧ ca.ops.capacity wa ≤ cb.ops.kMax := by
  unfold canExchangeDyn at h
  simp only [Bool.and_eq_true, decide_eq_true_eq] at h
  exact ⟨h.1.1, h.1.2, h.2⟩

theorem canSwapDyn_dynamic {ca cb : Cfg} {wa wb : VB} (h : canSwapDyn ca cb wa wb = true) :
    ca.dynamic = true ∧ cb.dynamic = true := by
  unfold canSwapDyn at h
  unfold Cfg.dynamic
  cases hfa : ca.flavour <;> cases hfb : cb.flavour <;> simp [hfa, hfb] at h ⊢

/-- container `a` (configuration `ca`, invariant `OkA`) can take over the heap storage described by the words `wb` of a container
    of configuration `cb`: the words `⟨capacity, size, pointer⟩` it is given satisfy its invariant and decode to the same size,
    capacity and buffer; that buffer is not an inline storage -/
def TakeOver (ca cb : Cfg) (OkA : VB → Prop) (wb : VB) : Prop :=
  (∀ k, cb.ops.begin wb ≠ .inl k)
  ∧ OkA ⟨cb.ops.capacity wb, cb.ops.size wb, wb.dyn⟩
  ∧ ca.ops.size ⟨cb.ops.capacity wb, cb.ops.size wb, wb.dyn⟩ = cb.ops.size wb
  ∧ ca.ops.capacity ⟨cb.ops.capacity wb, cb.ops.size wb, wb.dyn⟩ = cb.ops.capacity wb
  ∧ ca.ops.begin ⟨cb.ops.capacity wb, cb.ops.size wb, wb.dyn⟩ = cb.ops.begin wb

/-- the laws of the words written by the exchange branch of `swap2_impl` -/
structure ExchangeLaws (ca cb : Cfg) (OkA OkB : VB → Prop) : Prop where
  exch : ∀ wa wb, OkA wa → OkB wb → canExchangeDyn ca cb wa wb = true → TakeOver ca cb OkA wb ∧ TakeOver cb ca OkB wa

/-- outcome of `swap2_impl`: no exception; the contents are exchanged; the pair is separated; framed, nothing leaked -/
def ImplPost (ca cb : Cfg) (OkA OkB : VB → Prop) (a b : Nat) (m : Mem α) (xs ys : List α) (wa wb : VB) :
    Except Stop Unit → Mem α → Prop :=
  fun res m' => res = .ok () ∧ ∃ wa' wb', Pair2 ca cb OkA OkB a b m' ys xs wa' wb'
    ∧ Frame2G ca cb a b (regionOf ca a wa) (regionOf cb b wb) m m'

theorem exchange_post {ca cb : Cfg} {OkA OkB : VB → Prop} (EL : ExchangeLaws ca cb OkA OkB) {a b : Nat} {m : Mem α}
    {xs ys : List α} {wa wb : VB} (h : Pair2 ca cb OkA OkB a b m xs ys wa wb) (hx : canExchangeDyn ca cb wa wb = true) :
    Post (do setW a ⟨cb.ops.capacity wb, cb.ops.size wb, wb.dyn⟩; setW b ⟨ca.ops.capacity wa, ca.ops.size wa, wa.dyn⟩ : M α Unit) m
      (ImplPost ca cb OkA OkB a b m xs ys wa wb) := by
  obtain ⟨⟨nb, okA', szA', capA', begA'⟩, ⟨na, okB', szB', capB', begB'⟩⟩ := EL.exch wa wb h.ra.ok h.rb.ok hx
  have hal : a < m.ws.length := Cross.getElem?_lt h.ra.ws
  have hbl : b < m.ws.length := Cross.getElem?_lt h.rb.ws
  refine Post.mono (TwoC.commit2_post m a b _ _) ?_
  rintro res m' ⟨hr, rfl⟩
  generalize (⟨cb.ops.capacity wb, cb.ops.size wb, wb.dyn⟩ : VB) = wa' at okA' szA' capA' begA' ⊢
  generalize (⟨ca.ops.capacity wa, ca.ops.size wa, wa.dyn⟩ : VB) = wb' at okB' szB' capB' begB' ⊢
  have hwa := TwoC.ws_fst m.ws a b wa' wb' hal h.sep.ne
  have hwb := TwoC.ws_snd m.ws a b wa' wb' (by simpa using hbl)
  have hregA := regionOf_noninl begA' nb a b
  have hregB := regionOf_noninl begB' na b a
  have hvA := VRepW.move (m' := ({ m with ws := (m.ws.set a wa').set b wb' } : Mem α)) h.rb.store hwa okA' capA'
    (szA'.trans h.rb.size) hregA (withWs_buf _ _) (fun _ => rfl) (fun _ hfl => h.ra.store.inl (regionOf_ne_inl na a a) hfl)
  have hvB := VRepW.move (m' := ({ m with ws := (m.ws.set a wa').set b wb' } : Mem α)) h.ra.store hwb okB' capB'
    (szB'.trans h.ra.size) hregB (withWs_buf _ _) (fun _ => rfl) (fun _ hfl => h.rb.store.inl (regionOf_ne_inl nb b b) hfl)
  have hoA : ∀ id, OwnsBlk ca a ({ m with ws := (m.ws.set a wa').set b wb' } : Mem α) id ↔ OwnsBlk cb b m id := by
    intro id; rw [OwnsBlk.iff hwa, OwnsBlk.iff h.rb.ws, hregA, capA']
  have hoB : ∀ id, OwnsBlk cb b ({ m with ws := (m.ws.set a wa').set b wb' } : Mem α) id ↔ OwnsBlk ca a m id := by
    intro id; rw [OwnsBlk.iff hwb, OwnsBlk.iff h.ra.ws, hregB, capB']
  obtain ⟨hfr, hsep⟩ := finish2 (Elem2.refl (regionOf ca a wa) (regionOf cb b wb) m) h.sep wa' wb'
    (fun id => by unfold Owns2; rw [hoA, hoB]; exact Or.comm)
    (fun id o1 o2 => h.sep.disj id ((hoB id).mp o2) ((hoA id).mp o1))
  exact ⟨hr, wa', wb', ⟨hvA, hvB, hsep⟩, hfr⟩

/-- `swap2_impl` on a separated pair: the buffers are exchanged when `canExchangeDynStorage`; otherwise, given room on both sides,
    the elements are swapped (`swap_deep`) and the sizes set -/
theorem swap2Impl_post {ca cb : Cfg} {OkA OkB : VB → Prop} (SA : SizeLaws ca.ops OkA) (SB : SizeLaws cb.ops OkB)
    (EL : ExchangeLaws ca cb OkA OkB) {a b : Nat} {m : Mem α} {xs ys : List α} {wa wb : VB}
    (h : Pair2 ca cb OkA OkB a b m xs ys wa wb)
    (hroom : canExchangeDyn ca cb wa wb = true ∨ (ys.length ≤ ca.ops.capacity wa ∧ xs.length ≤ cb.ops.capacity wb)) :
    Post (swap2Impl ca cb a b) m (ImplPost ca cb OkA OkB a b m xs ys wa wb) := by
  unfold swap2Impl
  refine Post.bind (getW_post m a wa h.ra.ws) ?_ (by okerr)
  rintro w1 m0 ⟨hw, rfl⟩; injection hw with hw; subst hw
  refine Post.bind (getW_post _ b wb h.rb.ws) ?_ (by okerr)
  rintro w2 m0 ⟨hw, rfl⟩; injection hw with hw; subst hw
  dsimp only
  by_cases hx : canExchangeDyn ca cb w1 w2 = true
  · obtain ⟨hda, hdb⟩ := canSwapDyn_dynamic (canExchangeDyn_parts hx).1
    rw [if_pos (by rw [hda, hdb, hx]; rfl)]
    exact exchange_post EL h hx
  · rw [if_neg (by simp [hx])]
    obtain ⟨hra, hrb⟩ := hroom.resolve_left hx
    have hal : a < m0.ws.length := Cross.getElem?_lt h.ra.ws
    have hbl : b < m0.ws.length := Cross.getElem?_lt h.rb.ws
    refine Post.bind (vbegin_post ca m0 a w1 h.ra.ws) ?_ (by okerr)
    rintro f1 m1 ⟨hf, rfl⟩; injection hf with hf; subst hf
    refine Post.bind (vbegin_post cb _ b w2 h.rb.ws) ?_ (by okerr)
    rintro f2 m1 ⟨hf, rfl⟩; injection hf with hf; subst hf
    rw [h.ra.size, h.rb.size]
    refine Post.bind (deepStep_post h hra hrb) ?_ (by rintro e m3 ⟨he, _⟩; cases he)
    rintro _ m3 ⟨_, he, sA, sB⟩
    obtain ⟨okA', szA', capA', begA'⟩ := SA.setSize w1 h.ra.ok ys.length hra
    obtain ⟨okB', szB', capB', begB'⟩ := SB.setSize w2 h.rb.ok xs.length hrb
    have kA : ys.length ≤ ca.ops.kMax := Nat.le_trans hra (SA.bounds w1 h.ra.ok).2
    have kB : xs.length ≤ cb.ops.kMax := Nat.le_trans hrb (SB.bounds w2 h.rb.ok).2
    refine Post.bind (setSize_post ca m3 a w1 ys.length sA.ws kA) ?_ (by okerr)
    rintro _ m4 ⟨_, rfl⟩
    refine Post.mono (setSize_post cb _ b w2 xs.length (by
      show (m3.ws.set a _)[b]? = some w2
      rw [List.getElem?_set_ne h.sep.ne]; exact sB.ws) kB) ?_
    rintro res m5 ⟨hr, rfl⟩
    show ImplPost ca cb OkA OkB a b m1 xs ys w1 w2 res
      ({ m3 with ws := (m3.ws.set a (ca.ops.setSize w1 ys.length)).set b (cb.ops.setSize w2 xs.length) } : Mem α)
    generalize ca.ops.setSize w1 ys.length = wa' at okA' szA' capA' begA' ⊢
    generalize cb.ops.setSize w2 xs.length = wb' at okB' szB' capB' begB' ⊢
    have hal3 : a < m3.ws.length := by rw [he.keep.ws]; exact hal
    have hbl3 : b < m3.ws.length := by rw [he.keep.ws]; exact hbl
    have hwa := TwoC.ws_fst m3.ws a b wa' wb' hal3 h.sep.ne
    have hwb := TwoC.ws_snd m3.ws a b wa' wb' (by simpa using hbl3)
    have hregA := regionOf_congr ca a w1 wa' begA'
    have hregB := regionOf_congr cb b w2 wb' begB'
    have hvA := VRepW.move (m' := ({ m3 with ws := (m3.ws.set a wa').set b wb' } : Mem α)) sA hwa okA' capA' szA' hregA
      (withWs_buf _ _) (fun _ => rfl) (fun hne hfl => sA.inl (by rwa [hregA] at hne) hfl)
    have hvB := VRepW.move (m' := ({ m3 with ws := (m3.ws.set a wa').set b wb' } : Mem α)) sB hwb okB' capB' szB' hregB
      (withWs_buf _ _) (fun _ => rfl) (fun hne hfl => sB.inl (by rwa [hregB] at hne) hfl)
    have hoA : ∀ id, OwnsBlk ca a ({ m3 with ws := (m3.ws.set a wa').set b wb' } : Mem α) id ↔ OwnsBlk ca a m1 id := by
      intro id; rw [OwnsBlk.iff hwa, OwnsBlk.iff h.ra.ws, hregA, capA']
    have hoB : ∀ id, OwnsBlk cb b ({ m3 with ws := (m3.ws.set a wa').set b wb' } : Mem α) id ↔ OwnsBlk cb b m1 id := by
      intro id; rw [OwnsBlk.iff hwb, OwnsBlk.iff h.rb.ws, hregB, capB']
    obtain ⟨hfr, hsep⟩ := finish2 he h.sep wa' wb' (fun id => by unfold Owns2; rw [hoA, hoB])
      (fun id o1 o2 => h.sep.disj id ((hoA id).mp o1) ((hoB id).mp o2))
    exact ⟨hr, wa', wb', ⟨hvA, hvB, hsep⟩, hfr⟩

/-! ### `swap2` -/

/-- outcome of `swap2`: the contents are exchanged; or a C++ exception was thrown (a fixed capacity or a size type too small for
    the other's size) and both containers hold what they held (a dynamic side may have grown its capacity); never a lifetime fault.
    In both cases the pair is still separated and the step is framed (`Frame2G`: third containers, other regions and blocks are
    untouched, no heap block is leaked or stolen) -/
def Swap2Post (ca cb : Cfg) (OkA OkB : VB → Prop) (a b : Nat) (m : Mem α) (xs ys : List α) (wa wb : VB) :
    Except Stop Unit → Mem α → Prop :=
  fun res m' =>
    ((res = .ok () ∧ VRep ca OkA a m' ys ∧ VRep cb OkB b m' xs)
      ∨ (∃ e, res = .error (.exc e) ∧ VRep ca OkA a m' xs ∧ VRep cb OkB b m' ys))
    ∧ Sep2 ca cb a b m' ∧ Frame2G ca cb a b (regionOf ca a wa) (regionOf cb b wb) m m'

/-- **`swap2` between two vectors of possibly different flavour, inline capacity and size type** -/
theorem swap2_post {ca cb : Cfg} {OkA OkB : VB → Prop} (LA : VecLaws α ca OkA) (LB : VecLaws α cb OkB)
    (NA : NullAt0 ca OkA) (NB : NullAt0 cb OkB) (EL : ExchangeLaws ca cb OkA OkB) {a b : Nat} {m : Mem α} {xs ys : List α}
    {wa wb : VB} (h : Pair2 ca cb OkA OkB a b m xs ys wa wb) :
    Post (swap2 ca cb a b) m (Swap2Post ca cb OkA OkB a b m xs ys wa wb) := by
  rw [swap2_eq]
  refine Post.bind (getW_post m a wa h.ra.ws) ?_ (by okerr)
  rintro w1 m0 ⟨hw, rfl⟩; injection hw with hw; subst hw
  refine Post.bind (getW_post _ b wb h.rb.ws) ?_ (by okerr)
  rintro w2 m0 ⟨hw, rfl⟩; injection hw with hw; subst hw
  have direct : canExchangeDyn ca cb w1 w2 = true →
      Post (swap2Impl ca cb a b) m0 (Swap2Post ca cb OkA OkB a b m0 xs ys w1 w2) := by
    intro hx
    refine Post.mono (swap2Impl_post LA.size LB.size EL h (Or.inl hx)) ?_
    rintro res m2 ⟨hr, wa2, wb2, hp2, hf2⟩
    exact ⟨Or.inl ⟨hr, ⟨wa2, hp2.ra⟩, ⟨wb2, hp2.rb⟩⟩, hp2.sep, hf2⟩
  have adjusted : Post (do adjustCapacity ca a (cb.ops.size w2); adjustCapacity cb b (ca.ops.size w1); swap2Impl ca cb a b) m0
      (Swap2Post ca cb OkA OkB a b m0 xs ys w1 w2) := by
    have key : Post ((do adjustCapacity ca a (cb.ops.size w2); adjustCapacity cb b (ca.ops.size w1)) >>= fun _ =>
        swap2Impl ca cb a b) m0 (Swap2Post ca cb OkA OkB a b m0 xs ys w1 w2) := by
      refine Post.bind (adjustEach_post LA LB NA NB h (cb.ops.size w2) (ca.ops.size w1)) ?_ ?_
      · rintro _ m1 ⟨wa', wb', hp, hf, hrA, hrB, hres⟩
        rcases hres with ⟨_, hcA, hcB⟩ | ⟨e, he⟩
        · rw [h.rb.size] at hcA
          rw [h.ra.size] at hcB
          refine Post.mono (swap2Impl_post LA.size LB.size EL hp (Or.inr ⟨hcA, hcB⟩)) ?_
          rintro res m2 ⟨hr, wa2, wb2, hp2, hf2⟩
          exact ⟨Or.inl ⟨hr, ⟨wa2, hp2.ra⟩, ⟨wb2, hp2.rb⟩⟩, hp2.sep, hf.trans hf2 hrA hrB⟩
        · cases he
      · rintro e m1 ⟨wa', wb', hp, hf, _, _, hres⟩
        rcases hres with ⟨he, _⟩ | ⟨e', he⟩
        · cases he
        · exact ⟨Or.inr ⟨e', he, ⟨wa', hp.ra⟩, ⟨wb', hp.rb⟩⟩, hp.sep, hf⟩
    simpa only [bind_assoc] using key
  by_cases hd : ca.dynamic = true
  · rw [if_pos hd]
    by_cases hx : canExchangeDyn ca cb w1 w2 = true
    · rw [if_neg (by simp [hx])]; exact direct hx
    · rw [if_pos (by simp [hx])]; exact adjusted
  · rw [if_neg hd]; exact adjusted

/-! ### `ExchangeLaws` of the flavours -/

/-- a FixedCapacityVector never exchanges buffers: the laws hold vacuously -/
theorem ExchangeLaws.ofFixedA {ca cb : Cfg} {OkA OkB : VB → Prop} (hf : ca.flavour = .fixed) : ExchangeLaws ca cb OkA OkB := by
  refine ⟨fun wa wb _ _ hx => ?_⟩
  have := (canSwapDyn_dynamic (canExchangeDyn_parts hx).1).1
  simp [Cfg.dynamic, hf] at this

theorem ExchangeLaws.ofFixedB {ca cb : Cfg} {OkA OkB : VB → Prop} (hf : cb.flavour = .fixed) : ExchangeLaws ca cb OkA OkB := by
  refine ⟨fun wa wb _ _ hx => ?_⟩
  have := (canSwapDyn_dynamic (canExchangeDyn_parts hx).1).2
  simp [Cfg.dynamic, hf] at this

/-- words in heap state: the buffer pointer is the stored pointer, a heap block (`P` of its identifier) of non-zero capacity or the
    null pointer with capacity 0 -/
structure HeapWords (P : Nat → Prop) (cfg : Cfg) (w : VB) : Prop where
  beg : cfg.ops.begin w = w.dyn
  le : cfg.ops.size w ≤ cfg.ops.capacity w
  dyn : (∃ id, w.dyn = .blk id ∧ P id ∧ 0 < cfg.ops.capacity w) ∨ (w.dyn = .null ∧ cfg.ops.capacity w = 0)

theorem HeapWords.noninl {P : Nat → Prop} {cfg : Cfg} {w : VB} (h : HeapWords P cfg w) (k : Nat) : cfg.ops.begin w ≠ .inl k := by
  rw [h.beg]
  rcases h.dyn with ⟨id, hd, _⟩ | ⟨hd, _⟩ <;> rw [hd] <;> intro e <;> cases e

theorem HeapWords.ofSmall {P : Nat → Prop} {cfg : Cfg} (L : SmallLaws cfg.ops cfg.n) {w : VB} (hok : SOkP P cfg.ops cfg.n w)
    (hs : cfg.ops.isSmall w = false) : HeapWords P cfg w :=
  ⟨by rw [L.begin_small, hs]; rfl, (L.bounds w hok.1).1, hok.2 hs⟩

theorem HeapWords.ofStd {P : Nat → Prop} {cfg : Cfg} (L : StdLaws cfg.ops) {w : VB} (hok : DOkP P cfg.ops.kMax w) :
    HeapWords P cfg w :=
  ⟨L.begin_eq w, by rw [L.size_eq, L.cap_eq]; exact hok.1, by rw [L.cap_eq]; exact hok.2.2⟩

/-- a SmallVector takes over heap words whose capacity fits its size type (`SmallLaws.grownRep`) -/
theorem TakeOver.small {P : Nat → Prop} {ca cb : Cfg} (LA : SmallLaws ca.ops ca.n) {wb : VB} (hb : HeapWords P cb wb)
    (hfit : cb.ops.capacity wb ≤ ca.ops.kMax) : TakeOver ca cb (SOkP P ca.ops ca.n) wb := by
  obtain ⟨g1, g2, g3, g4⟩ := LA.grownRep (cb.ops.size wb) (cb.ops.capacity wb) wb.dyn hb.le hfit
  refine ⟨hb.noninl, ⟨g1, fun _ => ?_⟩, g2, g3, ?_⟩
  · rw [g3]; exact hb.dyn
  · rw [LA.begin_small, g4, hb.beg]; rfl

/-- an `amc::vector` takes over heap words whose capacity fits its size type -/
theorem TakeOver.std {P : Nat → Prop} {ca cb : Cfg} (LA : StdLaws ca.ops) {wb : VB} (hb : HeapWords P cb wb)
    (hfit : cb.ops.capacity wb ≤ ca.ops.kMax) : TakeOver ca cb (DOkP P ca.ops.kMax) wb := by
  refine ⟨hb.noninl, ⟨hb.le, hfit, hb.dyn⟩, ?_, ?_, ?_⟩
  · rw [LA.size_eq]
  · rw [LA.cap_eq]
  · rw [LA.begin_eq, hb.beg]

/-- SmallVector with SmallVector (any two inline capacities and size types) -/
theorem ExchangeLaws.small_small {P : Nat → Prop} {ca cb : Cfg} (hfa : ca.flavour = .small) (hfb : cb.flavour = .small)
    (LA : SmallLaws ca.ops ca.n) (LB : SmallLaws cb.ops cb.n) :
    ExchangeLaws ca cb (SOkP P ca.ops ca.n) (SOkP P cb.ops cb.n) := by
  refine ⟨fun wa wb ha hb hx => ?_⟩
  obtain ⟨hs, f1, f2⟩ := canExchangeDyn_parts hx
  simp only [canSwapDyn, hfa, hfb, Bool.and_eq_true, Bool.not_eq_true'] at hs
  exact ⟨TakeOver.small LA (HeapWords.ofSmall LB hb hs.2) f1, TakeOver.small LB (HeapWords.ofSmall LA ha hs.1.2) f2⟩

/-- SmallVector with `amc::vector` -/
theorem ExchangeLaws.small_std {P : Nat → Prop} {ca cb : Cfg} (hfa : ca.flavour = .small) (hfb : cb.flavour = .std)
    (LA : SmallLaws ca.ops ca.n) (LB : StdLaws cb.ops) :
    ExchangeLaws ca cb (SOkP P ca.ops ca.n) (DOkP P cb.ops.kMax) := by
  refine ⟨fun wa wb ha hb hx => ?_⟩
  obtain ⟨hs, f1, f2⟩ := canExchangeDyn_parts hx
  simp only [canSwapDyn, hfa, hfb, Bool.and_eq_true, Bool.not_eq_true'] at hs
  exact ⟨TakeOver.small LA (HeapWords.ofStd LB hb) f1, TakeOver.std LB (HeapWords.ofSmall LA ha hs.2) f2⟩

/-- `amc::vector` with SmallVector -/
theorem ExchangeLaws.std_small {P : Nat → Prop} {ca cb : Cfg} (hfa : ca.flavour = .std) (hfb : cb.flavour = .small)
    (LA : StdLaws ca.ops) (LB : SmallLaws cb.ops cb.n) :
    ExchangeLaws ca cb (DOkP P ca.ops.kMax) (SOkP P cb.ops cb.n) := by
  refine ⟨fun wa wb ha hb hx => ?_⟩
  obtain ⟨hs, f1, f2⟩ := canExchangeDyn_parts hx
  simp only [canSwapDyn, hfa, hfb, Bool.and_eq_true, Bool.not_eq_true'] at hs
  exact ⟨TakeOver.std LA (HeapWords.ofSmall LB hb hs.2) f1, TakeOver.small LB (HeapWords.ofStd LA ha) f2⟩

/-- `amc::vector` with `amc::vector` (any two size types) -/
theorem ExchangeLaws.std_std {P : Nat → Prop} {ca cb : Cfg} (LA : StdLaws ca.ops) (LB : StdLaws cb.ops) :
    ExchangeLaws ca cb (DOkP P ca.ops.kMax) (DOkP P cb.ops.kMax) := by
  refine ⟨fun wa wb ha hb hx => ?_⟩
  obtain ⟨_, f1, f2⟩ := canExchangeDyn_parts hx
  exact ⟨TakeOver.std LA (HeapWords.ofStd LB hb) f1, TakeOver.std LB (HeapWords.ofStd LA ha) f2⟩

/-- the storage region of a FixedCapacityVector-like container (buffer pointer always the own inline storage) is never a block -/
theorem NullAt0.ofInline {cfg : Cfg} {Ok : VB → Prop} (h : ∀ w, cfg.ops.begin w = .inl 0) : NullAt0 cfg Ok := by
  intro c w _ _ id hr
  unfold regionOf at hr
  rw [h w] at hr
  cases hr

/-! ### consequences -/

/-- a third container `e` (any configuration) is not disturbed by `swap2` on `a`, `b` -/
theorem Swap2Post.third {ca cb ce : Cfg} {OkA OkB OkE : VB → Prop} {a b e : Nat} {m m' : Mem α} {xs ys zs : List α} {wa wb we : VB}
    {res : Except Stop Unit} (h : Swap2Post ca cb OkA OkB a b m xs ys wa wb res m') (he : VRepW ce OkE e m zs we)
    (hf : Fresh m) (hea : e ≠ a) (heb : e ≠ b)
    (hreg : ce.ops.capacity we = 0 ∨ (regionOf ce e we ≠ regionOf ca a wa ∧ regionOf ce e we ≠ regionOf cb b wb)) :
    VRepW ce OkE e m' zs we :=
  he.frame2G h.2.2 hea heb hreg (fun id hid hp => hf id (by rw [← hid]; exact he.isSome hp))
    ⟨fun e' => hea (regionOf_inl ca a e wa e'.symm), fun e' => heb (regionOf_inl cb b e wb e'.symm)⟩

/-- the exception case of `swap2` happens only for a size that does not fit: when both sides can hold the other's size without
    growing, `swap2` succeeds -/
theorem swap2_room_post {ca cb : Cfg} {OkA OkB : VB → Prop} (LA : VecLaws α ca OkA) (LB : VecLaws α cb OkB)
    (EL : ExchangeLaws ca cb OkA OkB) {a b : Nat} {m : Mem α} {xs ys : List α} {wa wb : VB}
    (h : Pair2 ca cb OkA OkB a b m xs ys wa wb) (hra : ys.length ≤ ca.ops.capacity wa) (hrb : xs.length ≤ cb.ops.capacity wb) :
    Post (swap2 ca cb a b) m (ImplPost ca cb OkA OkB a b m xs ys wa wb) := by
  rw [swap2_eq]
  refine Post.bind (getW_post m a wa h.ra.ws) ?_ (by okerr)
  rintro w1 m0 ⟨hw, rfl⟩; injection hw with hw; subst hw
  refine Post.bind (getW_post _ b wb h.rb.ws) ?_ (by okerr)
  rintro w2 m0 ⟨hw, rfl⟩; injection hw with hw; subst hw
  have direct := swap2Impl_post LA.size LB.size EL h (Or.inr ⟨hra, hrb⟩)
  have adjusted : Post (do adjustCapacity ca a (cb.ops.size w2); adjustCapacity cb b (ca.ops.size w1); swap2Impl ca cb a b) m0
      (ImplPost ca cb OkA OkB a b m0 xs ys w1 w2) := by
    refine Post.bind (adjustCapacity_room ca OkA LA.size m0 a w1 _ h.ra.ws (by rw [h.rb.size]; exact hra)) ?_ (by okerr)
    rintro _ m1 ⟨_, rfl⟩
    refine Post.bind (adjustCapacity_room cb OkB LB.size m1 b w2 _ h.rb.ws (by rw [h.ra.size]; exact hrb)) ?_ (by okerr)
    rintro _ m2 ⟨_, rfl⟩
    exact direct
  by_cases hd : ca.dynamic = true
  · rw [if_pos hd]
    by_cases hx : canExchangeDyn ca cb w1 w2 = true
    · rw [if_neg (by simp [hx])]; exact direct
    · rw [if_pos (by simp [hx])]; exact adjusted
  · rw [if_neg hd]; exact adjusted

theorem NullAt0.small {P : Nat → Prop} {cfg : Cfg} (L : SmallLaws cfg.ops cfg.n) : NullAt0 cfg (SOkP P cfg.ops cfg.n) :=
  fun c w hok hcap id hr => SOkP.null L c w hok hcap id hr

theorem NullAt0.std {P : Nat → Prop} {cfg : Cfg} (L : StdLaws cfg.ops) : NullAt0 cfg (DOkP P cfg.ops.kMax) :=
  fun c w hok hcap id hr => DOkP.null L c w hok hcap id hr

/-! ### when `swap2` throws -/

theorem Post.and {β : Type} {p : M α β} {m : Mem α} {Q1 Q2 : Except Stop β → Mem α → Prop} (h1 : Post p m Q1) (h2 : Post p m Q2) :
    Post p m (fun r m' => Q1 r m' ∧ Q2 r m') := ⟨h1, h2⟩

/-- `adjustCapacity(needed)` throws when `needed` exceeds the size type maximum, or the fixed capacity -/
theorem adjustCapacity_nofit {cfg : Cfg} {Ok : VB → Prop} (L : VecLaws α cfg Ok) (m : Mem α) (c : Nat) (xs : List α) (w : VB)
    (needed : Nat) (h : VRepW cfg Ok c m xs w) (hf : Fresh m)
    (hno : cfg.ops.kMax < needed ∨ (cfg.dynamic = false ∧ cfg.ops.capacity w < needed)) :
    Post (adjustCapacity cfg c needed) m (fun res _ => ∃ e, res = .error (.exc e)) := by
  rcases hno with hk | ⟨hd, hc⟩
  · refine Post.mono (adjustCapacity_post L m c xs w needed h hf) ?_
    rintro res m' ⟨hq, _⟩
    rcases hq with ⟨_, w', hg⟩ | ⟨e, he, _⟩
    · have := (L.size.bounds w' hg.rep.ok).2
      have := hg.cap
      omega
    · exact ⟨e, he⟩
  · unfold adjustCapacity
    rw [if_neg (by simp [hd]), if_pos (L.checked hd)]
    refine Post.bind (vcap_post cfg m c w h.ws) ?_ (by okerr)
    rintro k m1 ⟨hk, rfl⟩; injection hk with hk; subst hk
    rw [L.size.checkErr _ _ hc]
    exact ⟨_, rfl⟩

/-- `swap2` throws when one side cannot hold the other's size: it exceeds the size type maximum, or the fixed capacity -/
theorem swap2_nofit_throws {ca cb : Cfg} {OkA OkB : VB → Prop} (LA : VecLaws α ca OkA) (LB : VecLaws α cb OkB)
    (NA : NullAt0 ca OkA) {a b : Nat} {m : Mem α} {xs ys : List α} {wa wb : VB}
    (h : Pair2 ca cb OkA OkB a b m xs ys wa wb)
    (hno : (ca.ops.kMax < ys.length ∨ (ca.dynamic = false ∧ ca.ops.capacity wa < ys.length))
         ∨ (cb.ops.kMax < xs.length ∨ (cb.dynamic = false ∧ cb.ops.capacity wb < xs.length))) :
    Post (swap2 ca cb a b) m (fun res _ => ∃ e, res = .error (.exc e)) := by
  rw [swap2_eq]
  refine Post.bind (getW_post m a wa h.ra.ws) ?_ (by okerr)
  rintro w1 m0 ⟨hw, rfl⟩; injection hw with hw; subst hw
  refine Post.bind (getW_post _ b wb h.rb.ws) ?_ (by okerr)
  rintro w2 m0 ⟨hw, rfl⟩; injection hw with hw; subst hw
  have hla := h.ra.le
  have hlb := h.rb.le
  have hnx : ¬ canExchangeDyn ca cb w1 w2 = true := by
    intro hx
    obtain ⟨hs, f1, f2⟩ := canExchangeDyn_parts hx
    obtain ⟨hda, hdb⟩ := canSwapDyn_dynamic hs
    rcases hno with (hk | ⟨hd, _⟩) | (hk | ⟨hd, _⟩)
    · omega
    · rw [hda] at hd; cases hd
    · omega
    · rw [hdb] at hd; cases hd
  have adjusted : Post (do adjustCapacity ca a (cb.ops.size w2); adjustCapacity cb b (ca.ops.size w1); swap2Impl ca cb a b) m0
      (fun res _ => ∃ e, res = .error (.exc e)) := by
    rcases hno with hA | hB
    · refine Post.bind (adjustCapacity_nofit LA m0 a xs w1 _ h.ra h.sep.fresh (by rw [h.rb.size]; exact hA)) ?_ ?_
      · rintro _ m1 ⟨e, he⟩; cases he
      · rintro e m1 he; exact he
    · refine Post.bind (adjustCapacity_post LA m0 a xs w1 _ h.ra h.sep.fresh) ?_ ?_
      · rintro _ m1 hg
        obtain ⟨wa', hp1, _, _, _⟩ := h.stepA NA hg
        refine Post.bind (adjustCapacity_nofit LB m1 b ys w2 _ hp1.rb hp1.sep.fresh (by rw [h.ra.size]; exact hB)) ?_ ?_
        · rintro _ m2 ⟨e, he⟩; cases he
        · rintro e m2 he; exact he
      · rintro e m1 ⟨hq, _⟩
        rcases hq with ⟨he, _⟩ | ⟨e', he, _⟩
        · cases he
        · exact ⟨e', he⟩
  by_cases hd : ca.dynamic = true
  · rw [if_pos hd, if_pos (by simp [hnx])]; exact adjusted
  · rw [if_neg hd]; exact adjusted

end AmcVerif
