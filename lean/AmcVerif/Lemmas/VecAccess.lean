import AmcVerif.Lemmas.VecRep
import AmcVerif.Lemmas.RelocLoops
import AmcVerif.Lemmas.VecOpSpecs
/-! Specifications (`Post`) of the read-only accessors and comparisons of `Model/Vec.lean` (`atIdx`, `index`, `front`, `back`,
`dataPtr`, `isEmpty`, `maxSize`, `vecEqual`, `vecLess` and the operators defined through them) on a container represented by
`VRepW cfg Ok c m xs w`: what they return in terms of `xs`, and that the memory is unchanged (`m' = m`, in every outcome);
the list-level facts about `stdEqual` / `stdLexLt` (equality of lists for a lawful `==`, the lexicographic order for a strict
total `<`). -/
namespace AmcVerif
variable {α β γ : Type}

/- list level ------------------------------------------------------------------------------------------------------ -/

/-- `std::equal` on ranges of the same length, with a lawful `==`: equality of the lists -/
theorem stdEqual_iff (eqT : α → α → Bool) (heq : ∀ a b, eqT a b = true ↔ a = b) :
    ∀ (xs ys : List α), xs.length = ys.length → (stdEqual eqT xs ys = true ↔ xs = ys)
  | [], [], _ => by simp [stdEqual]
  | [], _ :: _, h => by simp at h
  | _ :: _, [], h => by simp at h
  | x :: xs, y :: ys, h => by
    have ih := stdEqual_iff eqT heq xs ys (by simpa using h)
    simp [stdEqual, heq, ih]

/-- what `operator==` computes on two lists -/
def eqSpec (eqT : α → α → Bool) (xs ys : List α) : Bool := if xs.length = ys.length then stdEqual eqT xs ys else false

theorem eqSpec_iff (eqT : α → α → Bool) (heq : ∀ a b, eqT a b = true ↔ a = b) (xs ys : List α) :
    eqSpec eqT xs ys = true ↔ xs = ys := by
  unfold eqSpec
  split
  · next h => exact stdEqual_iff eqT heq xs ys h
  · next h =>
    constructor
    · intro hf; cases hf
    · intro he; subst he; exact absurd rfl h

theorem eqSpec_decide [DecidableEq α] (eqT : α → α → Bool) (heq : ∀ a b, eqT a b = true ↔ a = b) (xs ys : List α) :
    eqSpec eqT xs ys = decide (xs = ys) := by
  rw [Bool.eq_iff_iff, eqSpec_iff eqT heq]; simp

/-- `std::lexicographical_compare` with a `<` that is asymmetric and whose incomparable elements are equal (a strict total
    order): the lexicographic order of the lists -/
theorem stdLexLt_iff (ltT : α → α → Bool) (hasym : ∀ a b, ltT a b = true → ltT b a = false)
    (htot : ∀ a b, ltT a b = false → ltT b a = false → a = b) :
    ∀ (xs ys : List α), stdLexLt ltT xs ys = true ↔ List.Lex (fun a b => ltT a b = true) xs ys
  | _, [] => by
    constructor
    · intro h; simp [stdLexLt] at h
    · intro h; cases h
  | [], _ :: _ => by simp [stdLexLt]
  | x :: xs, y :: ys => by
    have ih := stdLexLt_iff ltT hasym htot xs ys
    unfold stdLexLt
    by_cases h1 : ltT x y = true
    · simp only [h1, ↓reduceIte, true_iff]; exact List.Lex.rel h1
    · have h1' : ltT x y = false := by simpa using h1
      simp only [h1, ↓reduceIte, Bool.false_eq_true]
      by_cases h2 : ltT y x = true
      · simp only [h2, ↓reduceIte, Bool.false_eq_true, false_iff]
        intro hl
        cases hl with
        | rel hr => exact h1 hr
        | cons hr => rw [hasym _ _ h2] at h2; cases h2
      · have h2' : ltT y x = false := by simpa using h2
        simp only [h2, ↓reduceIte, Bool.false_eq_true]
        have hxy := htot x y h1' h2'
        subst hxy
        rw [ih]
        constructor
        · intro hl; exact List.Lex.cons hl
        · intro hl
          cases hl with
          | rel hr => exact absurd hr h1
          | cons hr => exact hr

/-- on naturals (the element type of the executable driver): `<` of lists -/
theorem stdLexLt_nat (xs ys : List Nat) : stdLexLt (fun a b => decide (a < b)) xs ys = decide (xs < ys) := by
  rw [Bool.eq_iff_iff, stdLexLt_iff _ (by intro a b; simp only [decide_eq_true_eq, decide_eq_false_iff_not]; omega)
    (by intro a b; simp only [decide_eq_false_iff_not]; omega)]
  simp only [decide_eq_true_eq]
  exact Iff.rfl

theorem stdEqual_nat (xs ys : List Nat) : eqSpec (fun a b => a == b) xs ys = (xs == ys) := by
  rw [eqSpec_decide _ (by intro a b; simp), Bool.eq_iff_iff]; simp

/- container level -------------------------------------------------------------------------------------------------- -/

section
variable {cfg : Cfg} {Ok : VB → Prop}

theorem VRepW.getElem {c : Nat} {m : Mem α} {xs : List α} {w : VB} (h : VRepW cfg Ok c m xs w) (i : Nat) (hi : i < xs.length) :
    ∃ b, m.buf (regionOf cfg c w) = some b ∧ b[i]? = some (.live xs[i]) := by
  rcases h.buf with h0 | hb
  · have := h.le; omega
  · refine ⟨_, hb, ?_⟩
    rw [List.getElem?_append_left (by simpa using hi)]
    simp [lives, hi]

/-- reading the slot of the `i`-th element -/
theorem readElem_post (m : Mem α) (c : Nat) (xs : List α) (w : VB) (i : Nat) (h : VRepW cfg Ok c m xs w) (hi : i < xs.length) :
    Post (readLive (⟨regionOf cfg c w, i⟩ : Addr)) m (fun res m' => res = .ok xs[i] ∧ m' = m) := by
  obtain ⟨b, hb, hs⟩ := h.getElem i hi
  exact readLive_post m ⟨regionOf cfg c w, i⟩ b xs[i] hb hs

/-- `at(i)` inside the range: the `i`-th element -/
theorem atIdx_ok (m : Mem α) (c : Nat) (xs : List α) (w : VB) (i : Nat) (h : VRepW cfg Ok c m xs w) (hi : i < xs.length) :
    Post (atIdx cfg c i) m (fun res m' => res = .ok xs[i] ∧ m' = m) := by
  unfold atIdx
  refine Post.bind (vsize_post cfg m c w h.ws) ?_ (by okerr)
  rintro sz m1 ⟨hsz, rfl⟩; injection hsz with hsz; subst hsz
  rw [h.size, if_neg (by omega)]
  refine Post.bind (vbegin_post cfg m1 c w h.ws) ?_ (by okerr)
  rintro a m2 ⟨ha, rfl⟩; injection ha with ha; subst ha
  simpa [Addr.add] using readElem_post m2 c xs w i h hi

/-- `at(i)` outside the range: `std::out_of_range`, nothing is read -/
theorem atIdx_throw (m : Mem α) (c : Nat) (xs : List α) (w : VB) (i : Nat) (h : VRepW cfg Ok c m xs w) (hi : xs.length ≤ i) :
    Post (atIdx cfg c i) m (fun res m' => res = .error (.exc .outOfRange) ∧ m' = m) := by
  unfold atIdx
  refine Post.bind (vsize_post cfg m c w h.ws) ?_ (by okerr)
  rintro sz m1 ⟨hsz, rfl⟩; injection hsz with hsz; subst hsz
  rw [h.size, if_pos (by omega)]
  exact ⟨rfl, rfl⟩

/-- `at(i)`: the `i`-th element inside the range, `std::out_of_range` outside; the memory is unchanged in both cases -/
theorem atIdx_post (m : Mem α) (c : Nat) (xs : List α) (w : VB) (i : Nat) (h : VRepW cfg Ok c m xs w) :
    Post (atIdx cfg c i) m (fun res m' =>
      (∀ hi : i < xs.length, res = .ok xs[i]) ∧ (xs.length ≤ i → res = .error (.exc .outOfRange)) ∧ m' = m) := by
  by_cases hi : i < xs.length
  · refine Post.mono (atIdx_ok m c xs w i h hi) ?_
    rintro res m' ⟨hr, hm⟩
    exact ⟨fun _ => hr, fun hge => absurd hi (by omega), hm⟩
  · refine Post.mono (atIdx_throw m c xs w i h (by omega)) ?_
    rintro res m' ⟨hr, hm⟩
    exact ⟨fun hlt => absurd hlt hi, fun _ => hr, hm⟩

/-- `operator[](i)` under its precondition `i < size()` -/
theorem index_ok (m : Mem α) (c : Nat) (xs : List α) (w : VB) (i : Nat) (h : VRepW cfg Ok c m xs w) (hi : i < xs.length) :
    Post (index cfg c i) m (fun res m' => res = .ok xs[i] ∧ m' = m) := by
  unfold index
  refine Post.bind (vbegin_post cfg m c w h.ws) ?_ (by okerr)
  rintro a m2 ⟨ha, rfl⟩; injection ha with ha; subst ha
  simpa [Addr.add] using readElem_post m2 c xs w i h hi

/- violated preconditions: a read outside `[0, size())` finds no live element ------------------------------------------- -/

theorem getBuf_none_run (m : Mem α) (r : Region) (h : m.buf r = none) :
    ∃ f, runM (getBuf r) m = (.error (.fault f), m) := by
  unfold getBuf
  cases r with
  | inl c =>
    simp only [Mem.buf] at h
    exact ⟨.oob, by mnorm; simp [h]; rfl⟩
  | blk id =>
    simp only [Mem.buf, Option.map_eq_none_iff] at h
    exact ⟨.useAfterFree, by mnorm; simp [h]; rfl⟩
  | tmp => simp [Mem.buf] at h

/-- `readLive` of a slot that holds no live, not moved-from object (or does not exist at all) is a fault; nothing changes -/
theorem readLive_fault (m : Mem α) (a : Addr) (h : ∀ b, m.buf a.r = some b → ∀ v, b[a.i]? ≠ some (.live v)) :
    Post (readLive a) m (fun res m' => (∃ f, res = .error (.fault f)) ∧ m' = m) := by
  unfold Post
  cases hb : m.buf a.r with
  | none =>
    obtain ⟨f, hf⟩ := getBuf_none_run m a.r hb
    have : runM (readLive a) m = (.error (.fault f), m) := by
      unfold readLive rd
      rw [runM_bind, runM_bind, hf]
    rw [this]; exact ⟨⟨f, rfl⟩, rfl⟩
  | some b =>
    have hg := getBuf_run m a.r b hb
    cases hs : b[a.i]? with
    | none =>
      have : runM (readLive a) m = (.error (.fault .oob), m) := by
        unfold readLive rd
        rw [runM_bind, runM_bind, hg]; simp only [hs]; rfl
      rw [this]; exact ⟨⟨_, rfl⟩, rfl⟩
    | some s =>
      have hr := rd_run m a b s hb hs
      cases s with
      | live v => exact absurd hs (h b hb v)
      | raw =>
        have : runM (readLive a) m = (.error (.fault .readDead), m) := by
          unfold readLive
          rw [runM_bind, hr]; rfl
        rw [this]; exact ⟨⟨_, rfl⟩, rfl⟩
      | hollow =>
        have : ∃ f, runM (readLive a) m = (.error (.fault f), m) := by
          unfold readLive
          rw [runM_bind, hr]
          show ∃ f, runM (isTC >>= fun t => if t = true then fault .readDead else fault .readHollow) m = _
          rw [runM_bind, isTC_run]
          by_cases ht : (m.cat == .tc) = true
          · exact ⟨.readDead, by simp only [ht]; rfl⟩
          · exact ⟨.readHollow, by simp only [ht]; rfl⟩
        obtain ⟨f, hf⟩ := this
        rw [hf]; exact ⟨⟨f, rfl⟩, rfl⟩

/-- outside `[0, size())` the buffer of a represented container holds no live element; `hnb`: a container of capacity 0 has
    no buffer at all (the region a null pointer resolves to does not exist) -/
theorem VRepW.noElem {c : Nat} {m : Mem α} {xs : List α} {w : VB} (h : VRepW cfg Ok c m xs w) (i : Nat) (hi : xs.length ≤ i)
    (hnb : cfg.ops.capacity w = 0 → m.buf (regionOf cfg c w) = none) :
    ∀ b, m.buf (regionOf cfg c w) = some b → ∀ v, b[i]? ≠ some (.live v) := by
  intro b hb v hv
  rcases h.buf with h0 | hb'
  · rw [hnb h0] at hb; cases hb
  · rw [hb'] at hb; injection hb with hb; subst hb
    rw [List.getElem?_append_right (by simpa using hi)] at hv
    simp only [raws, lives_length] at hv
    rcases Nat.lt_or_ge (i - xs.length) (cfg.ops.capacity w - xs.length) with hlt | hge
    · rw [List.getElem?_replicate_of_lt hlt] at hv; cases hv
    · rw [List.getElem?_eq_none (by simpa using hge)] at hv; cases hv

/-- `operator[](i)` with `i >= size()` (the `assert` of the source is violated): a fault of the memory model, nothing changes -/
theorem index_fault (m : Mem α) (c : Nat) (xs : List α) (w : VB) (i : Nat) (h : VRepW cfg Ok c m xs w) (hi : xs.length ≤ i)
    (hnb : cfg.ops.capacity w = 0 → m.buf (regionOf cfg c w) = none) :
    Post (index cfg c i) m (fun res m' => (∃ f, res = .error (.fault f)) ∧ m' = m) := by
  unfold index
  refine Post.bind (vbegin_post cfg m c w h.ws) ?_ (by okerr)
  rintro a m2 ⟨ha, rfl⟩; injection ha with ha; subst ha
  exact readLive_fault m2 _ (by simpa [Addr.add] using h.noElem i hi hnb)

/-- `front()` / `back()` on an empty container: a fault -/
theorem front_fault (m : Mem α) (c : Nat) (w : VB) (h : VRepW cfg Ok c m [] w)
    (hnb : cfg.ops.capacity w = 0 → m.buf (regionOf cfg c w) = none) :
    Post (front cfg c) m (fun res m' => (∃ f, res = .error (.fault f)) ∧ m' = m) := by
  unfold front
  refine Post.bind (vbegin_post cfg m c w h.ws) ?_ (by okerr)
  rintro a m2 ⟨ha, rfl⟩; injection ha with ha; subst ha
  exact readLive_fault m2 _ (by simpa using h.noElem 0 (by simp) hnb)

/-- `front()` on a non-empty container -/
theorem front_ok (m : Mem α) (c : Nat) (xs : List α) (w : VB) (h : VRepW cfg Ok c m xs w) (hne : xs ≠ []) :
    Post (front cfg c) m (fun res m' => res = .ok (xs.head hne) ∧ m' = m) := by
  unfold front
  refine Post.bind (vbegin_post cfg m c w h.ws) ?_ (by okerr)
  rintro a m2 ⟨ha, rfl⟩; injection ha with ha; subst ha
  have hpos : 0 < xs.length := List.length_pos_iff.mpr hne
  have := readElem_post m2 c xs w 0 h hpos
  rw [List.head_eq_getElem]; exact this

/-- `back()` on a non-empty container -/
theorem back_ok (m : Mem α) (c : Nat) (xs : List α) (w : VB) (h : VRepW cfg Ok c m xs w) (hne : xs ≠ []) :
    Post (back cfg c) m (fun res m' => res = .ok (xs.getLast hne) ∧ m' = m) := by
  unfold back
  refine Post.bind (vend_post cfg m c w h.ws) ?_ (by okerr)
  rintro a m2 ⟨ha, rfl⟩; injection ha with ha; subst ha
  have hpos : 0 < xs.length := List.length_pos_iff.mpr hne
  have := readElem_post m2 c xs w (xs.length - 1) h (by omega)
  rw [List.getLast_eq_getElem]; simpa [h.size] using this

/-- `data()`: the start of the buffer -/
theorem dataPtr_post (m : Mem α) (c : Nat) (xs : List α) (w : VB) (h : VRepW cfg Ok c m xs w) :
    Post (dataPtr cfg c) m (fun res m' => res = .ok ⟨regionOf cfg c w, 0⟩ ∧ m' = m) := vbegin_post cfg m c w h.ws

/-- `empty()` -/
theorem isEmpty_post (m : Mem α) (c : Nat) (xs : List α) (w : VB) (h : VRepW cfg Ok c m xs w) :
    Post (isEmpty cfg c) m (fun res m' => res = .ok xs.isEmpty ∧ m' = m) := by
  unfold isEmpty
  refine Post.bind (vsize_post cfg m c w h.ws) ?_ (by okerr)
  rintro sz m1 ⟨hsz, rfl⟩; injection hsz with hsz; subst hsz
  refine ⟨?_, rfl⟩
  rw [h.size]
  cases xs <;> rfl

/-- the flavour's limit: `numeric_limits<size_type>::max()` for the dynamic flavours, the capacity for FixedCapacityVector -/
def maxSizeOf (cfg : Cfg) (w : VB) : Nat := if cfg.dynamic then cfg.ops.kMax else cfg.ops.capacity w

/-- `max_size()` is the flavour's limit, and `size() ≤ capacity() ≤ max_size() ≤ numeric_limits<size_type>::max()` -/
theorem maxSize_post (L : SizeLaws cfg.ops Ok) (m : Mem α) (c : Nat) (xs : List α) (w : VB) (h : VRepW cfg Ok c m xs w) :
    Post (maxSize cfg c) m (fun res m' => res = .ok (maxSizeOf cfg w) ∧ xs.length ≤ cfg.ops.capacity w ∧
      cfg.ops.capacity w ≤ maxSizeOf cfg w ∧ maxSizeOf cfg w ≤ cfg.ops.kMax ∧ m' = m) := by
  have hb := L.bounds w h.ok
  unfold maxSize maxSizeOf
  split
  · exact ⟨rfl, h.le, hb.2, Nat.le_refl _, rfl⟩
  · refine Post.mono (vcap_post cfg m c w h.ws) ?_
    rintro res m' ⟨hr, rfl⟩
    exact ⟨hr, h.le, Nat.le_refl _, hb.2, rfl⟩

/-- `elems`: the visible elements are exactly `xs`; nothing changes (no hypothesis on the flavour) -/
theorem elems_rep (m : Mem α) (c : Nat) (xs : List α) (w : VB) (h : VRepW cfg Ok c m xs w) :
    Post (elems cfg c) m (fun res m' => res = .ok xs ∧ m' = m) := by
  unfold elems
  refine Post.bind (vbegin_post cfg m c w h.ws) ?_ (by okerr)
  rintro a m1 ⟨ha, rfl⟩; injection ha with ha; subst ha
  refine Post.bind (vsize_post cfg m1 c w h.ws) ?_ (by okerr)
  rintro sz m2 ⟨hsz, rfl⟩; injection hsz with hsz; subst hsz
  rw [h.size]
  rcases h.buf with h0 | hb
  · have hle := h.le
    have : xs = [] := List.eq_nil_of_length_eq_zero (by omega)
    subst this
    exact ⟨rfl, rfl⟩
  · exact RelocB.readLiveN_post (regionOf cfg c w) xs m2 [] _ (by simpa using hb)

/-- `*this == o` on two containers of one memory (possibly the same one) -/
theorem vecEqual_post (eqT : α → α → Bool) (m : Mem α) (c d : Nat) (xs ys : List α) (w wd : VB)
    (h : VRepW cfg Ok c m xs w) (hd : VRepW cfg Ok d m ys wd) :
    Post (vecEqual eqT cfg c d) m (fun res m' => res = .ok (eqSpec eqT xs ys) ∧ m' = m) := by
  unfold vecEqual eqSpec
  refine Post.bind (vsize_post cfg m c w h.ws) ?_ (by okerr)
  rintro sz m1 ⟨hsz, rfl⟩; injection hsz with hsz; subst hsz
  refine Post.bind (vsize_post cfg m1 d wd hd.ws) ?_ (by okerr)
  rintro sz m2 ⟨hsz, rfl⟩; injection hsz with hsz; subst hsz
  rw [h.size, hd.size]
  split
  · refine Post.bind (elems_rep m2 c xs w h) ?_ (by okerr)
    rintro l1 m3 ⟨hl1, rfl⟩; injection hl1 with hl1; subst hl1
    refine Post.bind (elems_rep m3 d ys wd hd) ?_ (by okerr)
    rintro l2 m4 ⟨hl2, rfl⟩; injection hl2 with hl2; subst hl2
    exact ⟨rfl, rfl⟩
  · exact ⟨rfl, rfl⟩

/-- `*this < o` -/
theorem vecLess_post (ltT : α → α → Bool) (m : Mem α) (c d : Nat) (xs ys : List α) (w wd : VB)
    (h : VRepW cfg Ok c m xs w) (hd : VRepW cfg Ok d m ys wd) :
    Post (vecLess ltT cfg c d) m (fun res m' => res = .ok (stdLexLt ltT xs ys) ∧ m' = m) := by
  unfold vecLess
  refine Post.bind (elems_rep m c xs w h) ?_ (by okerr)
  rintro l1 m3 ⟨hl1, rfl⟩; injection hl1 with hl1; subst hl1
  refine Post.bind (elems_rep m3 d ys wd hd) ?_ (by okerr)
  rintro l2 m4 ⟨hl2, rfl⟩; injection hl2 with hl2; subst hl2
  exact ⟨rfl, rfl⟩

theorem vecNotEqual_post (eqT : α → α → Bool) (m : Mem α) (c d : Nat) (xs ys : List α) (w wd : VB)
    (h : VRepW cfg Ok c m xs w) (hd : VRepW cfg Ok d m ys wd) :
    Post (vecNotEqual eqT cfg c d) m (fun res m' => res = .ok (!eqSpec eqT xs ys) ∧ m' = m) := by
  unfold vecNotEqual
  refine Post.bind (vecEqual_post eqT m c d xs ys w wd h hd) ?_ (by okerr)
  rintro b m1 ⟨hb, rfl⟩; injection hb with hb; subst hb
  exact ⟨rfl, rfl⟩

theorem vecGreater_post (ltT : α → α → Bool) (m : Mem α) (c d : Nat) (xs ys : List α) (w wd : VB)
    (h : VRepW cfg Ok c m xs w) (hd : VRepW cfg Ok d m ys wd) :
    Post (vecGreater ltT cfg c d) m (fun res m' => res = .ok (stdLexLt ltT ys xs) ∧ m' = m) :=
  vecLess_post ltT m d c ys xs wd w hd h

theorem vecLessEq_post (ltT : α → α → Bool) (m : Mem α) (c d : Nat) (xs ys : List α) (w wd : VB)
    (h : VRepW cfg Ok c m xs w) (hd : VRepW cfg Ok d m ys wd) :
    Post (vecLessEq ltT cfg c d) m (fun res m' => res = .ok (!stdLexLt ltT ys xs) ∧ m' = m) := by
  unfold vecLessEq
  refine Post.bind (vecLess_post ltT m d c ys xs wd w hd h) ?_ (by okerr)
  rintro b m1 ⟨hb, rfl⟩; injection hb with hb; subst hb
  exact ⟨rfl, rfl⟩

theorem vecGreaterEq_post (ltT : α → α → Bool) (m : Mem α) (c d : Nat) (xs ys : List α) (w wd : VB)
    (h : VRepW cfg Ok c m xs w) (hd : VRepW cfg Ok d m ys wd) :
    Post (vecGreaterEq ltT cfg c d) m (fun res m' => res = .ok (!stdLexLt ltT xs ys) ∧ m' = m) := by
  unfold vecGreaterEq
  refine Post.bind (vecLess_post ltT m c d xs ys w wd h hd) ?_ (by okerr)
  rintro b m1 ⟨hb, rfl⟩; injection hb with hb; subst hb
  exact ⟨rfl, rfl⟩

end

/-! ### A closed instance: two `FixedCapacityVector<_, 2>` (8-bit size type) holding `[7, 8]` and `[7, 9]` -/
namespace ExampleAcc

def w2 : VB := ⟨2, 2, .null⟩
def mem : Mem Nat := { ws := [w2, w2], inls := [[.live 7, .live 8], [.live 7, .live 9]], blocks := [] }

theorem rep0 : VRepW Example.exCfg (Bridge.U8.FOk 2) 0 mem [7, 8] w2 where
  store := {
    ws := rfl
    ok := ⟨by decide, rfl, by decide⟩
    len := rfl
    buf := Or.inr rfl
    cnt := fun id h => by simp [regionOf, resolve, Example.exCfg, Gen.U8.fvbOps, Gen.U8.FVB.begin] at h
    inl := fun h => absurd rfl h }
  size := rfl

theorem rep1 : VRepW Example.exCfg (Bridge.U8.FOk 2) 1 mem [7, 9] w2 where
  store := {
    ws := rfl
    ok := ⟨by decide, rfl, by decide⟩
    len := rfl
    buf := Or.inr rfl
    cnt := fun id h => by simp [regionOf, resolve, Example.exCfg, Gen.U8.fvbOps, Gen.U8.FVB.begin] at h
    inl := fun h => absurd rfl h }
  size := rfl

end ExampleAcc
end AmcVerif
